From FP Require Import Lexer Parser ShowPT Digest.
From Coq Require Import String List NArith.
Import ListNotations.
Open Scope string_scope.
Set Printing Width 100000000.
Set Printing Depth 100000000.
Definition nl : string := String (Ascii.ascii_of_nat 10) EmptyString.
Definition model_lex (rs : list rune) : string := show_toks (lex rs).
Definition model_parse (rs : list rune) : string :=
  show_pt (match lex rs with Some ts => parse ts | None => None end).
(* coqc is slow at printing long strings: digests first (Digest.v), full texts on demand *)
Definition check (rs : list rune) : string :=
  digest (model_lex rs) ++ " " ++ digest (model_parse rs).
Definition full (rs : list rune) : string := model_lex rs ++ nl ++ model_parse rs.
Definition terms (ts : list tok) (t : pt) : string :=
  digest (show_toks (Some ts)) ++ " " ++ digest (show_pt (Some t)) ++ " " ++ digest (show_pt (parse ts)).
Definition terms_full (ts : list tok) (t : pt) : string :=
  show_toks (Some ts) ++ nl ++ show_pt (Some t) ++ nl ++ show_pt (parse ts).
Eval vm_compute in ("<<<M6>>>" ++ check (runes_of_ascii "packet _x
    /// triple
    {u
    @lengthOf( chars // " ++ [27880; 37322]%N ++ runes_of_ascii "
) // packet A { u8 x, }
,  }")).
Eval vm_compute in ("<<<T6>>>" ++ terms [mkTok 35 "packet" 1 0 false; mkTok 42 "_x" 1 7 false; mkTok 44 "/// triple" 2 4 true; mkTok 2 "{" 3 4 false; mkTok 42 "u" 3 5 false; mkTok 7 "@lengthOf(" 4 4 false; mkTok 42 "chars" 4 15 false; mkTok 44 (string_of_bytes [47; 47; 32; 230; 179; 168; 233; 135; 138]%N) 4 21 true; mkTok 6 ")" 5 0 false; mkTok 44 "// packet A { u8 x, }" 5 2 true; mkTok 40 "," 6 0 false; mkTok 3 "}" 6 3 false; mkTok 0 "<EOF>" 6 4 false] (mkPacket (mkPtok 35 "packet" 1 0 0) (Some (mkPtok 3 "}" 6 3 11)) [(DPacket (mkPacketDef (mkSpan (mkPtok 35 "packet" 1 0 0) (mkPtok 3 "}" 6 3 11)) None (mkPtok 35 "packet" 1 0 0) (mkPtok 42 "_x" 1 7 1) (mkPtok 2 "{" 3 4 3) [(mkFieldWithAttr (mkSpan (mkPtok 42 "u" 3 5 4) (mkPtok 40 "," 6 0 10)) [] (LengthField (mkSpan (mkPtok 42 "u" 3 5 4) (mkPtok 40 "," 6 0 10)) (mkLengthFieldDecl (mkSpan (mkPtok 42 "u" 3 5 4) (mkPtok 40 "," 6 0 10)) None (mkPtok 42 "u" 3 5 4) (mkLengthOf (mkSpan (mkPtok 7 "@lengthOf(" 4 4 5) (mkPtok 6 ")" 5 0 8)) (mkPtok 7 "@lengthOf(" 4 4 5) (mkPtok 42 "chars" 4 15 6) (mkPtok 6 ")" 5 0 8)) None (mkPtok 40 "," 6 0 10))))] (mkPtok 3 "}" 6 3 11)))])).
Eval vm_compute in ("<<<M16>>>" ++ check (runes_of_ascii "packet falsey
{
    // trailing space 
    repeat	BodyLength `it's`  ,
    u8 falsey , @leftPad( ) char[ 255
]
A ,
    @lengthOf( i8i8
)
repeat
a1
{
    repeat T uint8x `it's`
// trailing space 
// " ++ [27880; 37322]%N ++ runes_of_ascii "
,
    } ,
@calculatedFrom( ""\" ++ [233]%N ++ runes_of_ascii """	)
matchKey @lengthOf( calculatedFrom
) , @lengthOf(  int )
    i64 Packet // @lengthOf(
,
uint32 metadata
@calculatedFrom(
    //x
    """ ++ [233]%N ++ runes_of_ascii "t" ++ [233]%N ++ runes_of_ascii """) ,char[ 00] BodyLength // @lengthOf(
`say ""hi""` ,@calculatedFrom( ""packet""
)
    repeat
    int16 A	, tag`u8 x,`, } packet  leftPad{ @lengthOf(	calculatedFrom )  uint8x { zchar[ // @lengthOf(
0123456789 ]
    rootA `two words`,
}, @calculatedFrom(
    ""a\""b""	)@calculatedFrom(""// no comment"" ) A
    // c
    @calculatedFrom( """ ++ [233]%N ++ runes_of_ascii "t" ++ [233]%N ++ runes_of_ascii """)
, match stringy as matchKey {""1"" : options1 """ ++ [233]%N ++ runes_of_ascii "t" ++ [233]%N ++ runes_of_ascii """ :  u8x
    , """ ++ [28040; 24687]%N ++ runes_of_ascii """ : metadata
    ,
}
, @lengthOf( body
) repeat uint64
Pad , @lengthOf(metadata )
int8  As `" ++ [233]%N ++ runes_of_ascii "` ,
}
MetaData
trueish {char[ 255
    ] string_ , calculatedFrom chars
// " ++ [128512]%N ++ runes_of_ascii " emoji
//	t
`u8 x,`, uint16 A `a\` , } MetaData
    // @lengthOf(
    i64_
    {  repeatCount i8i8  ``
//
// packet A { u8 x, }
, Foo
rootA  , // trailing space 
string i64_	,calculatedFrom
float `it's` , string	calculatedFrom `tab	here` ,}  packet u // " ++ [27880; 37322]%N ++ runes_of_ascii "
{ }
")).
Eval vm_compute in ("<<<M26>>>" ++ check (runes_of_ascii "  options{ len =
3 x_y_z ='0'
    repeatCount
= u32 ; packetx =
10
    ; leftPad
= u16 //	t
} // `tick` ""quote"" 'q'")).
Eval vm_compute in ("<<<M36>>>" ++ check (runes_of_ascii "options // " ++ [27880; 37322]%N ++ runes_of_ascii "
{ }")).
Eval vm_compute in ("<<<M46>>>" ++ check (runes_of_ascii "options  {
MetaDataX =
    0123456789}
")).
Eval vm_compute in ("<<<M56>>>" ++ check (runes_of_ascii "options {
} //")).
Eval vm_compute in ("<<<M66>>>" ++ check (runes_of_ascii "MetaData
string_{
    // c
    charz zchar
    ,uint32 calculatedFrom
,
i16 charz`doc`, char[ // trailing space 
10 ]	msg_type `// not a comment` ,  int
roots
,
    u8 repeatCount
, } MetaData
    len	{//x
char[]x_y_z
    , As f32a , float64
    roots ,a1
    uint8x,
    int16 rootA,
BodyLength zchar`line1
line2`, }
root
    packet
// `tick` ""quote"" 'q'
// @lengthOf(
f32a { char[
1 ] tag , @leftPad (
    '\x00' )
    match matchKey as matchKey{// " ++ [27880; 37322]%N ++ runes_of_ascii "
[ """" ,255,  ""// no comment""
,
    ""abc""
    ]: Packet , 3
    : x_y_z ,}, @tag( 00)  @calculatedFrom(
// c
// trailing space 
""{,}"" //
) // trailing space 
repeat Z9_ ,  @calculatedFrom( ""it's"") @calculatedFrom(""x y""	) match BodyLength as a1
    { [ 0123456789
,""a	b"" , """ ++ [128512]%N ++ runes_of_ascii """ , 255, 4294967296 ,
"""" ]
: // `tick` ""quote"" 'q'
msg_type , ""// no comment""//
:
f32a ,
    """ ++ [128512]%N ++ runes_of_ascii """ : u8x  ,
""\" ++ [233]%N ++ runes_of_ascii """
    :
body ,
0
    // a // b
    : charz
    ,0123456789 //	t
: // trailing space 
pack ,} ,
} //")).
Eval vm_compute in ("<<<M76>>>" ++ check (runes_of_ascii "
options	{} MetaData a1 { uint32 roots`it's`
, } root packet trueish //
{ }
")).
Eval vm_compute in ("<<<T76>>>" ++ terms [mkTok 1 "options" 2 0 false; mkTok 2 "{" 2 8 false; mkTok 3 "}" 2 9 false; mkTok 37 "MetaData" 2 11 false; mkTok 42 "a1" 2 20 false; mkTok 2 "{" 2 23 false; mkTok 22 "uint32" 2 25 false; mkTok 42 "roots" 2 32 false; mkTok 43 "`it's`" 2 37 false; mkTok 40 "," 3 0 false; mkTok 3 "}" 3 2 false; mkTok 34 "root" 3 4 false; mkTok 35 "packet" 3 9 false; mkTok 42 "trueish" 3 16 false; mkTok 44 "//" 3 24 true; mkTok 2 "{" 4 0 false; mkTok 3 "}" 4 2 false; mkTok 0 "<EOF>" 5 0 false] (mkPacket (mkPtok 1 "options" 2 0 0) (Some (mkPtok 3 "}" 4 2 16)) [(DOption (mkOptionDef (mkSpan (mkPtok 1 "options" 2 0 0) (mkPtok 3 "}" 2 9 2)) (mkPtok 1 "options" 2 0 0) (mkPtok 2 "{" 2 8 1) [] (mkPtok 3 "}" 2 9 2))); (DMeta (mkMetaDef (mkSpan (mkPtok 37 "MetaData" 2 11 3) (mkPtok 3 "}" 3 2 10)) (mkPtok 37 "MetaData" 2 11 3) (mkPtok 42 "a1" 2 20 4) (mkPtok 2 "{" 2 23 5) [(MIDecl (mkMetaDecl (mkSpan (mkPtok 22 "uint32" 2 25 6) (mkPtok 40 "," 3 0 9)) (TyBasic (mkSpan (mkPtok 22 "uint32" 2 25 6) (mkPtok 22 "uint32" 2 25 6)) (mkBasicType (mkSpan (mkPtok 22 "uint32" 2 25 6) (mkPtok 22 "uint32" 2 25 6)) (mkPtok 22 "uint32" 2 25 6))) (mkPtok 42 "roots" 2 32 7) (Some (mkPtok 43 "`it's`" 2 37 8)) (mkPtok 40 "," 3 0 9)))] (mkPtok 3 "}" 3 2 10))); (DPacket (mkPacketDef (mkSpan (mkPtok 34 "root" 3 4 11) (mkPtok 3 "}" 4 2 16)) (Some (mkPtok 34 "root" 3 4 11)) (mkPtok 35 "packet" 3 9 12) (mkPtok 42 "trueish" 3 16 13) (mkPtok 2 "{" 4 0 15) [] (mkPtok 3 "}" 4 2 16)))])).
Eval vm_compute in ("<<<M86>>>" ++ check (@nil rune)).
Eval vm_compute in ("<<<M96>>>" ++ check (runes_of_ascii "
root packet u { //
i64 i8i8 @lengthOf( T )``, }
")).
Eval vm_compute in ("<<<M106>>>" ++ check (runes_of_ascii "packet
    // a // b
    pack
{ string u128`doc` , string
    //	t
    chars @calculatedFrom( """ ++ [128512]%N ++ runes_of_ascii """) `crlf
line`, char[ 42]
f32a
,
char[
4294967296] crc ,
    string body@lengthOf( T ) ,zchar[
    65535 ] tag	, @lengthOf( string_//x
) u ,
char[]pack , @calculatedFrom(
    ""\n""
)
    @leftPad
    (
)
@lengthOf(f32a
)
    char[] // trailing space 
falsey
, }")).
Eval vm_compute in ("<<<M116>>>" ++ check (runes_of_ascii "// trailing space 
MetaData o
{  } packet Packet //x
{ msg_type msg_type , u8 zchar
`crlf
line`, zchar[ 0 ]rootA @calculatedFrom(
    """ ++ [233]%N ++ runes_of_ascii "t" ++ [233]%N ++ runes_of_ascii """
) `crlf
line` ,
@lengthOf( calculatedFrom )
char[] rootA,}")).
Eval vm_compute in ("<<<M126>>>" ++ check (runes_of_ascii "packet  Header { match len as int  {// a // b
""it's"" :
    Packet
, }, char[ 255 ]tag ,	} MetaData
asx {float64 roots , falsey body , packetx
Header
, string i64_ , uint32 stringy ,
    pack leftPad
    // @lengthOf(
    , } options {
    // trailing space 
    Packet
    =
true ; // " ++ [128512]%N ++ runes_of_ascii " emoji
u128
    =
    int32
    // @lengthOf(
    ; // packet A { u8 x, }
Header= //	t
""x y""
len= int64
}")).
Eval vm_compute in ("<<<M136>>>" ++ check (runes_of_ascii "
")).
Eval vm_compute in ("<<<M146>>>" ++ check (runes_of_ascii "root packet falsey{ } 	 ")).
Eval vm_compute in ("<<<T146>>>" ++ terms [mkTok 34 "root" 1 0 false; mkTok 35 "packet" 1 5 false; mkTok 42 "falsey" 1 12 false; mkTok 2 "{" 1 18 false; mkTok 3 "}" 1 20 false; mkTok 0 "<EOF>" 1 24 false] (mkPacket (mkPtok 34 "root" 1 0 0) (Some (mkPtok 3 "}" 1 20 4)) [(DPacket (mkPacketDef (mkSpan (mkPtok 34 "root" 1 0 0) (mkPtok 3 "}" 1 20 4)) (Some (mkPtok 34 "root" 1 0 0)) (mkPtok 35 "packet" 1 5 1) (mkPtok 42 "falsey" 1 12 2) (mkPtok 2 "{" 1 18 3) [] (mkPtok 3 "}" 1 20 4)))])).
Eval vm_compute in ("<<<M156>>>" ++ check (runes_of_ascii "root // trailing space 
packet uint8x {  @tag( 007 ) A `
`
    //	t
    , repeat char[ 65535 ]Foo, roots @calculatedFrom( ""\" ++ [233]%N ++ runes_of_ascii """ ) `// not a comment` , }
    MetaData
o {char[]stringy `doc` // a // b
,string
    string_ , zchar[ 4294967296  ] lengthOf
`
` ,
    float pack , float32
    //	t
    zchar
, u16 A
, }
")).
Eval vm_compute in ("<<<M166>>>" ++ check (runes_of_ascii "options { x_y_z= ""1""
;	Packet
    //x
    =
    i8
// " ++ [27880; 37322]%N ++ runes_of_ascii "
// c
; stringy
=
    '\x00' body  =//x
i64
} packet trueish{ @calculatedFrom( ""{,}"" )char stringy	,
    }// " ++ [27880; 37322]%N ++ runes_of_ascii "
root packet
    tag {	zchar[ 10
    ] // " ++ [27880; 37322]%N ++ runes_of_ascii "
falsey, @rightPad ( )int64
o
    `" ++ [28040; 24687; 31867; 22411]%N ++ runes_of_ascii "`
    , u { repeat  f64
uint8x,
    },
    // " ++ [128512]%N ++ runes_of_ascii " emoji
    repeat
repeatCount {
    x
    , },repeat	A
    // " ++ [27880; 37322]%N ++ runes_of_ascii "
    stringy
    , Z9_
    Header // a // b
`// not a comment`	, match Packet
    as
    trueish
{/// triple
[
    // @lengthOf(
    7
    ,0 ]
:stringy	}, @tag( // trailing space 
0 ) Pad { i8
calculatedFrom@lengthOf(
    string_ ) , } , }
")).
Eval vm_compute in ("<<<M176>>>" ++ check (runes_of_ascii "options  { u8x// a // b
= ""a	b""; } packet i8i8{  @lengthOf(a1 ) //	t
i8
    Z9_ `doc`
    , }
    options {
metadata // c
=
    // `tick` ""quote"" 'q'
    ""CRC32"" ; stringy
=
    ""\" ++ [233]%N ++ runes_of_ascii """;
//	t
// c
}
    //	t
    MetaData
    a1{ zchar[ 3 ] leftPad , char[ 7 ]options1  ,
    char[]// " ++ [128512]%N ++ runes_of_ascii " emoji
pack , char[]// packet A { u8 x, }
int// packet A { u8 x, }
`two words` , // `tick` ""quote"" 'q'
char[]	matchKey
, }
")).
Eval vm_compute in ("<<<M186>>>" ++ check (runes_of_ascii "packet BodyLength // `tick` ""quote"" 'q'
{
    // trailing space 
    repeat
    // packet A { u8 x, }
    u128
{
int8
x
@calculatedFrom( // `tick` ""quote"" 'q'
""// no comment"" ), match lengthOf as
    Logon {
    65535 :A } , o  Pad
,}, match asx as Header { [ """ ++ [233]%N ++ runes_of_ascii "t" ++ [233]%N ++ runes_of_ascii """
    ,
    0123456789 ,	""" ++ [128512]%N ++ runes_of_ascii """ , 007 , ""`tick`""
    , 1
, 10
, 255]
    : f32a, 10:Logon /// triple
, 3 : // `tick` ""quote"" 'q'
repeatCount , """" : _x ,	} ,  float64	zchar `` ,} packet T // " ++ [27880; 37322]%N ++ runes_of_ascii "
{ @tag(
    0
) //
@lengthOf(	Header )  @tag(
0123456789
    ) char[ 7]
    // `tick` ""quote"" 'q'
    trueish @calculatedFrom( ""{,}""	)
`tab	here` /// triple
,
    } root packet stringy { @leftPad ( '0' )	string  chars `crlf
line`
,}
")).
Eval vm_compute in ("<<<M196>>>" ++ check (runes_of_ascii "packet u128{ @tag( 1 )
@leftPad ('0'
    )char[  65535]a1 // packet A { u8 x, }
,
lengthOf  {
u8
    body@lengthOf( Pad )  `a\` , f64 Header // " ++ [128512]%N ++ runes_of_ascii " emoji
@calculatedFrom( ""a\\"" ) , Logon // a // b
options1
`u8 x,`
, string body `doc` , }, }")).
Eval vm_compute in ("<<<M206>>>" ++ check (runes_of_ascii "MetaData MetaDataX { x_y_z BodyLength `" ++ [233]%N ++ runes_of_ascii "`
, char[
// trailing space 
// @lengthOf(
65535 ] Logon , string charz ,
    msg_type len,zchar[ 10	] Pad// " ++ [128512]%N ++ runes_of_ascii " emoji
, string Logon,
}	options
    { crc // a // b
= int32}
// `tick` ""quote"" 'q'
//
packet chars {
@tag( 255
//
// a // b
)// trailing space 
match
//x
/// triple
crc
as
    charz { 4294967296
: repeatCount 00:
    leftPad[ """ ++ [28040; 24687]%N ++ runes_of_ascii """ ,
    ""it's"" ]	: matchKey ,
// " ++ [27880; 37322]%N ++ runes_of_ascii "
// `tick` ""quote"" 'q'
},
zchar[ 7]
    u8x @calculatedFrom(  ""1""
// trailing space 
// " ++ [128512]%N ++ runes_of_ascii " emoji
) `` , @lengthOf( Z9_ ) repeat zchar[
10 ]// " ++ [27880; 37322]%N ++ runes_of_ascii "
uint8x , @leftPad(
'\x00'  )
    //x
    u16
Header
    @lengthOf( packetx
) // " ++ [27880; 37322]%N ++ runes_of_ascii "
, } packet Header {@calculatedFrom(
    """"
) match Logon as zchar {7
    : A ""abc"" :	u128// c
[""\" ++ [233]%N ++ runes_of_ascii """,""// no comment"" ]
:
/// triple
// " ++ [27880; 37322]%N ++ runes_of_ascii "
a1 , }
    ,	string MetaDataX, char[65535]len // @lengthOf(
,
repeat MetaDataX {i64_
`doc` , Foo
falsey
// packet A { u8 x, }
// c
`{ , }`
    , } , len
    @lengthOf( u128 ) , } options { metadata=' ' ; calculatedFrom// " ++ [128512]%N ++ runes_of_ascii " emoji
=  1 ; i64_ = zchar[ 255 ]} 	 ")).
Eval vm_compute in ("<<<M216>>>" ++ check (runes_of_ascii "root packet  As
{  }
")).
Eval vm_compute in ("<<<T216>>>" ++ terms [mkTok 34 "root" 1 0 false; mkTok 35 "packet" 1 5 false; mkTok 42 "As" 1 13 false; mkTok 2 "{" 2 0 false; mkTok 3 "}" 2 3 false; mkTok 0 "<EOF>" 3 0 false] (mkPacket (mkPtok 34 "root" 1 0 0) (Some (mkPtok 3 "}" 2 3 4)) [(DPacket (mkPacketDef (mkSpan (mkPtok 34 "root" 1 0 0) (mkPtok 3 "}" 2 3 4)) (Some (mkPtok 34 "root" 1 0 0)) (mkPtok 35 "packet" 1 5 1) (mkPtok 42 "As" 1 13 2) (mkPtok 2 "{" 2 0 3) [] (mkPtok 3 "}" 2 3 4)))])).
Eval vm_compute in ("<<<M226>>>" ++ check (runes_of_ascii "
")).
Eval vm_compute in ("<<<M236>>>" ++ check (runes_of_ascii "
options//	t
{ MetaDataX = 7 zchar= 65535 ; uint8x
    =// @lengthOf(
true	metadata
= u8; uint8x = int64 ;
    } options	{  }packet
    //	t
    x { repeat char[] metadata
, }packet
/// triple
// " ++ [27880; 37322]%N ++ runes_of_ascii "
len { @calculatedFrom( """ ++ [233]%N ++ runes_of_ascii "t" ++ [233]%N ++ runes_of_ascii """ )
    tag u8x `u8 x,`
, }")).
Eval vm_compute in ("<<<M246>>>" ++ check (runes_of_ascii "packet
    stringy
    { repeat
// packet A { u8 x, }
// a // b
Packet {
match int as repeatCount {
    0123456789
: metadata  0:
Packet
,
    // @lengthOf(
    007 :int [ """ ++ [28040; 24687]%N ++ runes_of_ascii """ // packet A { u8 x, }
, ""abc"" ]
//	t
//
: //
msg_type }
    , match zchar as  falsey { ""a\\"" :options1 }, MetaDataX
    ,
    //x
    },} root packet Z9_// trailing space 
{
    @calculatedFrom( ""x y"" )	repeat	u64 calculatedFrom ,}")).
Eval vm_compute in ("<<<M256>>>" ++ check (runes_of_ascii "packet
    u{@lengthOf( A
//	t
// " ++ [27880; 37322]%N ++ runes_of_ascii "
)
repeat crc //
crc , @lengthOf(options1  ) @leftPad
    (
    '\x00' //
)repeat i64_ { float32
    f32a
// c
// trailing space 
@lengthOf(BodyLength
)
`" ++ [233]%N ++ runes_of_ascii "`,}
    ,	@calculatedFrom( ""CRC32""
)
    repeat	zchar[ 10
    ]
// trailing space 
// c
A
    , repeat // c
rootA
{
    repeat  string u8x `line1
line2`,
repeat chars `it's`
,
    // packet A { u8 x, }
    repeat char[]
i64_, //x
} ,repeat A trueish , Packet { match zchar as
    u8x {""\n""  :
    // packet A { u8 x, }
    asx
,
0123456789 :	stringy
    ,
    [ ""a\\"" ]
    : int , 7 : asx , } , }
    , @tag( 255 )match
zchar as
As
{ 7 : a1 ,	} , }")).
Eval vm_compute in ("<<<M266>>>" ++ check (runes_of_ascii "  options/// triple
{ options1
= uint32 ;  msg_type =  false}options// a // b
{
    A =zchar[ 4294967296 ] ;//
}
")).
Eval vm_compute in ("<<<M276>>>" ++ check (runes_of_ascii "packet
float
{repeat Foo { char Packet `` , i8 As @lengthOf(	pack ) `tab	here`
    ,uint16
trueish
`doc` , }	, match a1 as// packet A { u8 x, }
matchKey{
    [007]:
MetaDataX
    , // c
}
, }options {  o// " ++ [128512]%N ++ runes_of_ascii " emoji
= ""it's"" ; x
=
char}	options { Pad = char[	00
] ;body =
i16 x=
    255; }")).
Eval vm_compute in ("<<<M286>>>" ++ check (runes_of_ascii "MetaData packetx
    {
    float32 u128 ,
i8// `tick` ""quote"" 'q'
options1`two words` ,	}root // " ++ [128512]%N ++ runes_of_ascii " emoji
packet msg_type { match matchKey as string_ { [ ""CRC32"",65535 ,0123456789 // " ++ [27880; 37322]%N ++ runes_of_ascii "
,
0123456789
    ,7, """ ++ [128512]%N ++ runes_of_ascii """
    ]:
BodyLength , 00	:falsey , [ 255
    ,// @lengthOf(
""abc"" , ""CRC32""]: _x
    ""x y""  : options1 ""`tick`"" : falsey
    , ""\n""
    :
string_ } , @tag(42 )A int	,@leftPad ('0' ) repeatCount { repeat i32 rootA
, // c
repeat
    i32 u8x
    `// not a comment` , } ,
    //x
    int8 metadata
    ,} MetaData i64_ {
f64 options1
    ,// packet A { u8 x, }
BodyLength x_y_z , // " ++ [27880; 37322]%N ++ runes_of_ascii "
msg_type charz`it's` ,
u8 tag	,
    }
")).
Eval vm_compute in ("<<<T286>>>" ++ terms [mkTok 37 "MetaData" 1 0 false; mkTok 42 "packetx" 1 9 false; mkTok 2 "{" 2 4 false; mkTok 28 "float32" 3 4 false; mkTok 42 "u128" 3 12 false; mkTok 40 "," 3 17 false; mkTok 24 "i8" 4 0 false; mkTok 44 "// `tick` ""quote"" 'q'" 4 2 true; mkTok 42 "options1" 5 0 false; mkTok 43 "`two words`" 5 8 false; mkTok 40 "," 5 20 false; mkTok 3 "}" 5 22 false; mkTok 34 "root" 5 23 false; mkTok 44 (string_of_bytes [47; 47; 32; 240; 159; 152; 128; 32; 101; 109; 111; 106; 105]%N) 5 28 true; mkTok 35 "packet" 6 0 false; mkTok 42 "msg_type" 6 7 false; mkTok 2 "{" 6 16 false; mkTok 38 "match" 6 18 false; mkTok 42 "matchKey" 6 24 false; mkTok 17 "as" 6 33 false; mkTok 42 "string_" 6 36 false; mkTok 2 "{" 6 44 false; mkTok 18 "[" 6 46 false; mkTok 31 """CRC32""" 6 48 false; mkTok 40 "," 6 55 false; mkTok 30 "65535" 6 56 false; mkTok 40 "," 6 62 false; mkTok 30 "0123456789" 6 63 false; mkTok 44 (string_of_bytes [47; 47; 32; 230; 179; 168; 233; 135; 138]%N) 6 74 true; mkTok 40 "," 7 0 false; mkTok 30 "0123456789" 8 0 false; mkTok 40 "," 9 4 false; mkTok 30 "7" 9 5 false; mkTok 40 "," 9 6 false; mkTok 31 (string_of_bytes [34; 240; 159; 152; 128; 34]%N) 9 8 false; mkTok 13 "]" 10 4 false; mkTok 39 ":" 10 5 false; mkTok 42 "BodyLength" 11 0 false; mkTok 40 "," 11 11 false; mkTok 30 "00" 11 13 false; mkTok 39 ":" 11 16 false; mkTok 42 "falsey" 11 17 false; mkTok 40 "," 11 24 false; mkTok 18 "[" 11 26 false; mkTok 30 "255" 11 28 false; mkTok 40 "," 12 4 false; mkTok 44 "// @lengthOf(" 12 5 true; mkTok 31 """abc""" 13 0 false; mkTok 40 "," 13 6 false; mkTok 31 """CRC32""" 13 8 false; mkTok 13 "]" 13 15 false; mkTok 39 ":" 13 16 false; mkTok 42 "_x" 13 18 false; mkTok 31 """x y""" 14 4 false; mkTok 39 ":" 14 11 false; mkTok 42 "options1" 14 13 false; mkTok 31 """`tick`""" 14 22 false; mkTok 39 ":" 14 31 false; mkTok 42 "falsey" 14 33 false; mkTok 40 "," 15 4 false; mkTok 31 """\n""" 15 6 false; mkTok 39 ":" 16 4 false; mkTok 42 "string_" 17 0 false; mkTok 3 "}" 17 8 false; mkTok 40 "," 17 10 false; mkTok 9 "@tag(" 17 12 false; mkTok 30 "42" 17 17 false; mkTok 6 ")" 17 20 false; mkTok 42 "A" 17 21 false; mkTok 42 "int" 17 23 false; mkTok 40 "," 17 27 false; mkTok 32 "@leftPad" 17 28 false; mkTok 8 "(" 17 37 false; mkTok 33 "'0'" 17 38 false; mkTok 6 ")" 17 42 false; mkTok 42 "repeatCount" 17 44 false; mkTok 2 "{" 17 56 false; mkTok 36 "repeat" 17 58 false; mkTok 26 "i32" 17 65 false; mkTok 42 "rootA" 17 69 false; mkTok 40 "," 18 0 false; mkTok 44 "// c" 18 2 true; mkTok 36 "repeat" 19 0 false; mkTok 26 "i32" 20 4 false; mkTok 42 "u8x" 20 8 false; mkTok 43 "`// not a comment`" 21 4 false; mkTok 40 "," 21 23 false; mkTok 3 "}" 21 25 false; mkTok 40 "," 21 27 false; mkTok 44 "//x" 22 4 true; mkTok 24 "int8" 23 4 false; mkTok 42 "metadata" 23 9 false; mkTok 40 "," 24 4 false; mkTok 3 "}" 24 5 false; mkTok 37 "MetaData" 24 7 false; mkTok 42 "i64_" 24 16 false; mkTok 2 "{" 24 21 false; mkTok 29 "f64" 25 0 false; mkTok 42 "options1" 25 4 false; mkTok 40 "," 26 4 false; mkTok 44 "// packet A { u8 x, }" 26 5 true; mkTok 42 "BodyLength" 27 0 false; mkTok 42 "x_y_z" 27 11 false; mkTok 40 "," 27 17 false; mkTok 44 (string_of_bytes [47; 47; 32; 230; 179; 168; 233; 135; 138]%N) 27 19 true; mkTok 42 "msg_type" 28 0 false; mkTok 42 "charz" 28 9 false; mkTok 43 "`it's`" 28 14 false; mkTok 40 "," 28 21 false; mkTok 20 "u8" 29 0 false; mkTok 42 "tag" 29 3 false; mkTok 40 "," 29 7 false; mkTok 3 "}" 30 4 false; mkTok 0 "<EOF>" 31 0 false] (mkPacket (mkPtok 37 "MetaData" 1 0 0) (Some (mkPtok 3 "}" 30 4 112)) [(DMeta (mkMetaDef (mkSpan (mkPtok 37 "MetaData" 1 0 0) (mkPtok 3 "}" 5 22 11)) (mkPtok 37 "MetaData" 1 0 0) (mkPtok 42 "packetx" 1 9 1) (mkPtok 2 "{" 2 4 2) [(MIDecl (mkMetaDecl (mkSpan (mkPtok 28 "float32" 3 4 3) (mkPtok 40 "," 3 17 5)) (TyBasic (mkSpan (mkPtok 28 "float32" 3 4 3) (mkPtok 28 "float32" 3 4 3)) (mkBasicType (mkSpan (mkPtok 28 "float32" 3 4 3) (mkPtok 28 "float32" 3 4 3)) (mkPtok 28 "float32" 3 4 3))) (mkPtok 42 "u128" 3 12 4) None (mkPtok 40 "," 3 17 5))); (MIDecl (mkMetaDecl (mkSpan (mkPtok 24 "i8" 4 0 6) (mkPtok 40 "," 5 20 10)) (TyBasic (mkSpan (mkPtok 24 "i8" 4 0 6) (mkPtok 24 "i8" 4 0 6)) (mkBasicType (mkSpan (mkPtok 24 "i8" 4 0 6) (mkPtok 24 "i8" 4 0 6)) (mkPtok 24 "i8" 4 0 6))) (mkPtok 42 "options1" 5 0 8) (Some (mkPtok 43 "`two words`" 5 8 9)) (mkPtok 40 "," 5 20 10)))] (mkPtok 3 "}" 5 22 11))); (DPacket (mkPacketDef (mkSpan (mkPtok 34 "root" 5 23 12) (mkPtok 3 "}" 24 5 93)) (Some (mkPtok 34 "root" 5 23 12)) (mkPtok 35 "packet" 6 0 14) (mkPtok 42 "msg_type" 6 7 15) (mkPtok 2 "{" 6 16 16) [(mkFieldWithAttr (mkSpan (mkPtok 38 "match" 6 18 17) (mkPtok 40 "," 17 10 64)) [] (MatchField (mkSpan (mkPtok 38 "match" 6 18 17) (mkPtok 40 "," 17 10 64)) (mkMatchFieldDecl (mkSpan (mkPtok 38 "match" 6 18 17) (mkPtok 3 "}" 17 8 63)) (mkPtok 38 "match" 6 18 17) (mkPtok 42 "matchKey" 6 24 18) (mkPtok 17 "as" 6 33 19) (mkPtok 42 "string_" 6 36 20) (mkPtok 2 "{" 6 44 21) [(mkMatchPair (mkSpan (mkPtok 18 "[" 6 46 22) (mkPtok 40 "," 11 11 38)) (MKList (mkKeyList (mkSpan (mkPtok 18 "[" 6 46 22) (mkPtok 13 "]" 10 4 35)) (mkPtok 18 "[" 6 46 22) (mkPtok 31 """CRC32""" 6 48 23) [((mkPtok 40 "," 6 55 24), (mkPtok 30 "65535" 6 56 25)); ((mkPtok 40 "," 6 62 26), (mkPtok 30 "0123456789" 6 63 27)); ((mkPtok 40 "," 7 0 29), (mkPtok 30 "0123456789" 8 0 30)); ((mkPtok 40 "," 9 4 31), (mkPtok 30 "7" 9 5 32)); ((mkPtok 40 "," 9 6 33), (mkPtok 31 (string_of_bytes [34; 240; 159; 152; 128; 34]%N) 9 8 34))] (mkPtok 13 "]" 10 4 35))) (mkPtok 39 ":" 10 5 36) (mkPtok 42 "BodyLength" 11 0 37) (Some (mkPtok 40 "," 11 11 38))); (mkMatchPair (mkSpan (mkPtok 30 "00" 11 13 39) (mkPtok 40 "," 11 24 42)) (MKDigits (mkPtok 30 "00" 11 13 39)) (mkPtok 39 ":" 11 16 40) (mkPtok 42 "falsey" 11 17 41) (Some (mkPtok 40 "," 11 24 42))); (mkMatchPair (mkSpan (mkPtok 18 "[" 11 26 43) (mkPtok 42 "_x" 13 18 52)) (MKList (mkKeyList (mkSpan (mkPtok 18 "[" 11 26 43) (mkPtok 13 "]" 13 15 50)) (mkPtok 18 "[" 11 26 43) (mkPtok 30 "255" 11 28 44) [((mkPtok 40 "," 12 4 45), (mkPtok 31 """abc""" 13 0 47)); ((mkPtok 40 "," 13 6 48), (mkPtok 31 """CRC32""" 13 8 49))] (mkPtok 13 "]" 13 15 50))) (mkPtok 39 ":" 13 16 51) (mkPtok 42 "_x" 13 18 52) None); (mkMatchPair (mkSpan (mkPtok 31 """x y""" 14 4 53) (mkPtok 42 "options1" 14 13 55)) (MKString (mkPtok 31 """x y""" 14 4 53)) (mkPtok 39 ":" 14 11 54) (mkPtok 42 "options1" 14 13 55) None); (mkMatchPair (mkSpan (mkPtok 31 """`tick`""" 14 22 56) (mkPtok 40 "," 15 4 59)) (MKString (mkPtok 31 """`tick`""" 14 22 56)) (mkPtok 39 ":" 14 31 57) (mkPtok 42 "falsey" 14 33 58) (Some (mkPtok 40 "," 15 4 59))); (mkMatchPair (mkSpan (mkPtok 31 """\n""" 15 6 60) (mkPtok 42 "string_" 17 0 62)) (MKString (mkPtok 31 """\n""" 15 6 60)) (mkPtok 39 ":" 16 4 61) (mkPtok 42 "string_" 17 0 62) None)] (mkPtok 3 "}" 17 8 63)) (mkPtok 40 "," 17 10 64))); (mkFieldWithAttr (mkSpan (mkPtok 9 "@tag(" 17 12 65) (mkPtok 40 "," 17 27 70)) [(FATag (mkSpan (mkPtok 9 "@tag(" 17 12 65) (mkPtok 6 ")" 17 20 67)) (mkTagAttr (mkSpan (mkPtok 9 "@tag(" 17 12 65) (mkPtok 6 ")" 17 20 67)) (mkPtok 9 "@tag(" 17 12 65) (mkPtok 30 "42" 17 17 66) (mkPtok 6 ")" 17 20 67)))] (ObjectField (mkSpan (mkPtok 42 "A" 17 21 68) (mkPtok 40 "," 17 27 70)) None (mkPtok 42 "A" 17 21 68) (Some (mkPtok 42 "int" 17 23 69)) None (mkPtok 40 "," 17 27 70))); (mkFieldWithAttr (mkSpan (mkPtok 32 "@leftPad" 17 28 71) (mkPtok 40 "," 21 27 88)) [(FAPadding (mkSpan (mkPtok 32 "@leftPad" 17 28 71) (mkPtok 6 ")" 17 42 74)) (mkPaddingAttr (mkSpan (mkPtok 32 "@leftPad" 17 28 71) (mkPtok 6 ")" 17 42 74)) (mkPtok 32 "@leftPad" 17 28 71) (mkPtok 8 "(" 17 37 72) (Some (mkPtok 33 "'0'" 17 38 73)) (mkPtok 6 ")" 17 42 74)))] (InerObjectField (mkSpan (mkPtok 42 "repeatCount" 17 44 75) (mkPtok 40 "," 21 27 88)) None (InerObjectDecl (mkSpan (mkPtok 42 "repeatCount" 17 44 75) (mkPtok 3 "}" 21 25 87)) (mkPtok 42 "repeatCount" 17 44 75) (mkPtok 2 "{" 17 56 76) [(MetaField (mkSpan (mkPtok 36 "repeat" 17 58 77) (mkPtok 40 "," 18 0 80)) (Some (mkPtok 36 "repeat" 17 58 77)) (mkMetaDecl (mkSpan (mkPtok 26 "i32" 17 65 78) (mkPtok 40 "," 18 0 80)) (TyBasic (mkSpan (mkPtok 26 "i32" 17 65 78) (mkPtok 26 "i32" 17 65 78)) (mkBasicType (mkSpan (mkPtok 26 "i32" 17 65 78) (mkPtok 26 "i32" 17 65 78)) (mkPtok 26 "i32" 17 65 78))) (mkPtok 42 "rootA" 17 69 79) None (mkPtok 40 "," 18 0 80))); (MetaField (mkSpan (mkPtok 36 "repeat" 19 0 82) (mkPtok 40 "," 21 23 86)) (Some (mkPtok 36 "repeat" 19 0 82)) (mkMetaDecl (mkSpan (mkPtok 26 "i32" 20 4 83) (mkPtok 40 "," 21 23 86)) (TyBasic (mkSpan (mkPtok 26 "i32" 20 4 83) (mkPtok 26 "i32" 20 4 83)) (mkBasicType (mkSpan (mkPtok 26 "i32" 20 4 83) (mkPtok 26 "i32" 20 4 83)) (mkPtok 26 "i32" 20 4 83))) (mkPtok 42 "u8x" 20 8 84) (Some (mkPtok 43 "`// not a comment`" 21 4 85)) (mkPtok 40 "," 21 23 86)))] (mkPtok 3 "}" 21 25 87)) (mkPtok 40 "," 21 27 88))); (mkFieldWithAttr (mkSpan (mkPtok 24 "int8" 23 4 90) (mkPtok 40 "," 24 4 92)) [] (MetaField (mkSpan (mkPtok 24 "int8" 23 4 90) (mkPtok 40 "," 24 4 92)) None (mkMetaDecl (mkSpan (mkPtok 24 "int8" 23 4 90) (mkPtok 40 "," 24 4 92)) (TyBasic (mkSpan (mkPtok 24 "int8" 23 4 90) (mkPtok 24 "int8" 23 4 90)) (mkBasicType (mkSpan (mkPtok 24 "int8" 23 4 90) (mkPtok 24 "int8" 23 4 90)) (mkPtok 24 "int8" 23 4 90))) (mkPtok 42 "metadata" 23 9 91) None (mkPtok 40 "," 24 4 92))))] (mkPtok 3 "}" 24 5 93))); (DMeta (mkMetaDef (mkSpan (mkPtok 37 "MetaData" 24 7 94) (mkPtok 3 "}" 30 4 112)) (mkPtok 37 "MetaData" 24 7 94) (mkPtok 42 "i64_" 24 16 95) (mkPtok 2 "{" 24 21 96) [(MIDecl (mkMetaDecl (mkSpan (mkPtok 29 "f64" 25 0 97) (mkPtok 40 "," 26 4 99)) (TyBasic (mkSpan (mkPtok 29 "f64" 25 0 97) (mkPtok 29 "f64" 25 0 97)) (mkBasicType (mkSpan (mkPtok 29 "f64" 25 0 97) (mkPtok 29 "f64" 25 0 97)) (mkPtok 29 "f64" 25 0 97))) (mkPtok 42 "options1" 25 4 98) None (mkPtok 40 "," 26 4 99))); (MIRef (mkRefMetaDecl (mkSpan (mkPtok 42 "BodyLength" 27 0 101) (mkPtok 40 "," 27 17 103)) (mkPtok 42 "BodyLength" 27 0 101) (mkPtok 42 "x_y_z" 27 11 102) None (mkPtok 40 "," 27 17 103))); (MIRef (mkRefMetaDecl (mkSpan (mkPtok 42 "msg_type" 28 0 105) (mkPtok 40 "," 28 21 108)) (mkPtok 42 "msg_type" 28 0 105) (mkPtok 42 "charz" 28 9 106) (Some (mkPtok 43 "`it's`" 28 14 107)) (mkPtok 40 "," 28 21 108))); (MIDecl (mkMetaDecl (mkSpan (mkPtok 20 "u8" 29 0 109) (mkPtok 40 "," 29 7 111)) (TyBasic (mkSpan (mkPtok 20 "u8" 29 0 109) (mkPtok 20 "u8" 29 0 109)) (mkBasicType (mkSpan (mkPtok 20 "u8" 29 0 109) (mkPtok 20 "u8" 29 0 109)) (mkPtok 20 "u8" 29 0 109))) (mkPtok 42 "tag" 29 3 110) None (mkPtok 40 "," 29 7 111)))] (mkPtok 3 "}" 30 4 112)))])).
Eval vm_compute in ("<<<M296>>>" ++ check (runes_of_ascii "packet metadata {
} packet roots {	string_`{ , }` ,
    }
")).
Eval vm_compute in ("<<<M306>>>" ++ check (runes_of_ascii "root packet SimpleMessage {
    uint16 MsgType `" ++ [28040; 24687; 31867; 22411]%N ++ runes_of_ascii "`,
    string JsonBody `Json" ++ [23383; 31526; 20018; 28040; 24687; 20307]%N ++ runes_of_ascii "`,
}")).
Eval vm_compute in ("<<<M316>>>" ++ check (runes_of_ascii "packet  {calculatedFrom @rightPad(	' '
    )@lengthOf( uint8x
)	i32  options1 ,u ,
    //	t
    len @lengthOf(
int // trailing space 
)
    , @tag( 42 ) repeat uint32 u ,
    }")).
Eval vm_compute in ("<<<M326>>>" ++ check (runes_of_ascii "packet  calculatedFrom{ (@rightPad	' '
    )@lengthOf( uint8x
)	i32  options1 ,u ,
    //	t
    len @lengthOf(
int // trailing space 
)
    , @tag( 42 ) repeat uint32 u ,
    }")).
Eval vm_compute in ("<<<M336>>>" ++ check (runes_of_ascii "packet  calculatedFrom{ @rightPad(	)
    ' '@lengthOf( uint8x
)	i32  options1 ,u ,
    //	t
    len @lengthOf(
int // trailing space 
)
    , @tag( 42 ) repeat uint32 u ,
    }")).
Eval vm_compute in ("<<<M346>>>" ++ check (runes_of_ascii "packet  calculatedFrom{ @rightPad(	' '
    )uint8x @lengthOf(
)	i32  options1 ,u ,
    //	t
    len @lengthOf(
int // trailing space 
)
    , @tag( 42 ) repeat uint32 u ,
    }")).
Eval vm_compute in ("<<<M356>>>" ++ check (runes_of_ascii "packet  calculatedFrom{ @rightPad(	' '
    )@lengthOf( uint8x
i32	)  options1 ,u ,
    //	t
    len @lengthOf(
int // trailing space 
)
    , @tag( 42 ) repeat uint32 u ,
    }")).
Eval vm_compute in ("<<<M366>>>" ++ check (runes_of_ascii "packet  calculatedFrom{ @rightPad(	' '
    )@lengthOf( uint8x
)	i32  , options1 u ,
    //	t
    len @lengthOf(
int // trailing space 
)
    , @tag( 42 ) repeat uint32 u ,
    }")).
Eval vm_compute in ("<<<M376>>>" ++ check (runes_of_ascii "packet  calculatedFrom{ @rightPad(	' '
    )@lengthOf( uint8x
)	i32  options1 ,, u
    //	t
    len @lengthOf(
int // trailing space 
)
    , @tag( 42 ) repeat uint32 u ,
    }")).
Eval vm_compute in ("<<<M386>>>" ++ check (runes_of_ascii "packet  calculatedFrom{ @rightPad(	' '
    )@lengthOf( uint8x
)	i32  options1 ,u ,
    //	t
    @lengthOf( len
int // trailing space 
)
    , @tag( 42 ) repeat uint32 u ,
    }")).
Eval vm_compute in ("<<<M396>>>" ++ check (runes_of_ascii "packet  calculatedFrom{ @rightPad(	' '
    )@lengthOf( uint8x
)	i32  options1 ,u ,
    //	t
    len @lengthOf(
) // trailing space 
int
    , @tag( 42 ) repeat uint32 u ,
    }")).
Eval vm_compute in ("<<<M406>>>" ++ check (runes_of_ascii "packet  calculatedFrom{ @rightPad(	' '
    )@lengthOf( uint8x
)	i32  options1 ,u ,
    //	t
    len @lengthOf(
int // trailing space 
)
    @tag( , 42 ) repeat uint32 u ,
    }")).
Eval vm_compute in ("<<<M416>>>" ++ check (runes_of_ascii "packet  calculatedFrom{ @rightPad(	' '
    )@lengthOf( uint8x
)	i32  options1 ,u ,
    //	t
    len @lengthOf(
int // trailing space 
)
    , @tag( ) 42 repeat uint32 u ,
    }")).
Eval vm_compute in ("<<<M426>>>" ++ check (runes_of_ascii "packet  calculatedFrom{ @rightPad(	' '
    )@lengthOf( uint8x
)	i32  options1 ,u ,
    //	t
    len @lengthOf(
int // trailing space 
)
    , @tag( 42 ) uint32 repeat u ,
    }")).
Eval vm_compute in ("<<<M436>>>" ++ check (runes_of_ascii "packet  calculatedFrom{ @rightPad(	' '
    )@lengthOf( uint8x
)	i32  options1 ,u ,
    //	t
    len @lengthOf(
int // trailing space 
)
    , @tag( 42 ) repeat uint32 , u
    }")).
Eval vm_compute in ("<<<M446>>>" ++ check (runes_of_ascii "packet  calculatedFrom{ @rightPad(	' '
    )@lengthOf( uint8x
)	i32  options1 ,u ,
    //	t
    len @lengthOf(
int // trailing space 
)
    , @tag( 42 ) repeat uint32 u ,
    ]")).
Eval vm_compute in ("<<<M456>>>" ++ check (runes_of_ascii "packet  calculatedFrom{ @rightPad(	' '
    )@lengthOf( uint8x
)	i32  options1 ,u ,
    //	t
    len @lengthOf(
int // trailing space 
)
    , @tag( " ++ [65279]%N ++ runes_of_ascii "42 ) repeat uint32 u ,
    }")).
Eval vm_compute in ("<<<M466>>>" ++ check (runes_of_ascii "packet  calculatedFrom{ @rightPad(	' " ++ [0]%N ++ runes_of_ascii "'
    )@lengthOf( uint8x
)	i32  options1 ,u ,
    //	t
    len @lengthOf(
int // trailing space 
)
    , @tag( 42 ) repeat uint32 u ,
    }")).
Eval vm_compute in ("<<<M476>>>" ++ check (runes_of_ascii "MetaData u// packet A { u8 x, }
{ A
// c
//	t
i64_ ,char[ 255 ]
    , repeatCount zchar[
65535 ]
    tag `" ++ [233]%N ++ runes_of_ascii "`
    ,int32 lengthOf	, }
")).
Eval vm_compute in ("<<<M486>>>" ++ check (runes_of_ascii "MetaData u// packet A { u8 x, }
{ A
// c
//	t
i64_ ,char[ 255 ]
    repeatCount , zchar[
65535 ]
    tag `" ++ [233]%N ++ runes_of_ascii "`
    ,int32 int32 lengthOf	, }
")).
Eval vm_compute in ("<<<M496>>>" ++ check (runes_of_ascii "MetaData u// packet A { u8 x, }
 A
// c
//	t
i64_ ,char[ 255 ]
    repeatCount , zchar[
65535 ]
    tag `" ++ [233]%N ++ runes_of_ascii "`
    ,int32 lengthOf	, }
")).
Eval vm_compute in ("<<<M506>>>" ++ check (runes_of_ascii "MetaData u// packet A { u8 x, }
{ A
// c
//	t
i64_ ,char[ 255 ]
    repeatCount , zchar[
65535 ]
    tag ,
    `" ++ [233]%N ++ runes_of_ascii "`int32 lengthOf	, }
")).
Eval vm_compute in ("<<<M516>>>" ++ check (runes_of_ascii "MetaData u// packet A { u8 x, }
{ A
// c
//	t
i64_ ,char[ 255 ]
     , zchar[
65535 ]
    tag `" ++ [233]%N ++ runes_of_ascii "`
    ,int32 lengthOf	, }
")).
Eval vm_compute in ("<<<M526>>>" ++ check (runes_of_ascii "MetaData u// packet A { u8 x, }
{ A
// c
//	t
i64_ ,char[ 255 ]
    '' repeatCount , zchar[
65535 ]
    tag `" ++ [233]%N ++ runes_of_ascii "`
    ,int32 lengthOf	, }
")).
Eval vm_compute in ("<<<M536>>>" ++ check (runes_of_ascii "MetaData u// packet A { u8 x, }
{ A
// c
//	t
i64_ ,char[ 255 ]
    repeatCount , zchar[
65535 ]
    tag")).
Eval vm_compute in ("<<<M546>>>" ++ check (runes_of_ascii "MetaData u")).
Eval vm_compute in ("<<<M556>>>" ++ check (runes_of_ascii "MetaData u// packet A { u8 x, }
{ A
// c
//	t
i64_ ,char[ 255")).
Eval vm_compute in ("<<<M566>>>" ++ check (runes_of_ascii "
	 ")).
Eval vm_compute in ("<<<M576>>>" ++ check (runes_of_ascii " " ++ [12]%N ++ runes_of_ascii " ")).
Eval vm_compute in ("<<<M586>>>" ++ check (runes_of_ascii "S<.m]9O7M|s #2?9q*(F^RE0rV|!m?~""}7'")).
Eval vm_compute in ("<<<M596>>>" ++ check (runes_of_ascii "char[ int16")).
