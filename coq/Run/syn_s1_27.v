From FP Require Import Lexer Parser ShowPT Digest.
From Coq Require Import String List NArith.
Import ListNotations.
Open Scope string_scope.
Set Printing Width 100000000.
Set Printing Depth 100000000.
Definition nl : string := String (Ascii.ascii_of_nat 10) EmptyString.
Definition model_lex (rs : list rune) : string := show_toks (lex rs).
Definition model_parse (rs : list rune) : string :=
  show_pt (match lex rs with Some ts => parse ts | None => None end).
(* coqc is slow at printing long strings: digests first (Digest.v), full texts on demand *)
Definition check (rs : list rune) : string :=
  digest (model_lex rs) ++ " " ++ digest (model_parse rs).
Definition full (rs : list rune) : string := model_lex rs ++ nl ++ model_parse rs.
Definition terms (ts : list tok) (t : pt) : string :=
  digest (show_toks (Some ts)) ++ " " ++ digest (show_pt (Some t)) ++ " " ++ digest (show_pt (parse ts)).
Definition terms_full (ts : list tok) (t : pt) : string :=
  show_toks (Some ts) ++ nl ++ show_pt (Some t) ++ nl ++ show_pt (parse ts).
Eval vm_compute in ("<<<M27>>>" ++ check (runes_of_ascii "options // " ++ [27880; 37322]%N ++ runes_of_ascii "
{Packet = 4294967296
; i64_  = // c
""1"" ;	Z9_ = ""abc"" ; options1 =
""a\\""
; o=0  ; }")).
Eval vm_compute in ("<<<T27>>>" ++ terms [mkTok 1 "options" 1 0 false; mkTok 44 (string_of_bytes [47; 47; 32; 230; 179; 168; 233; 135; 138]%N) 1 8 true; mkTok 2 "{" 2 0 false; mkTok 42 "Packet" 2 1 false; mkTok 4 "=" 2 8 false; mkTok 30 "4294967296" 2 10 false; mkTok 41 ";" 3 0 false; mkTok 42 "i64_" 3 2 false; mkTok 4 "=" 3 8 false; mkTok 44 "// c" 3 10 true; mkTok 31 """1""" 4 0 false; mkTok 41 ";" 4 4 false; mkTok 42 "Z9_" 4 6 false; mkTok 4 "=" 4 10 false; mkTok 31 """abc""" 4 12 false; mkTok 41 ";" 4 18 false; mkTok 42 "options1" 4 20 false; mkTok 4 "=" 4 29 false; mkTok 31 """a\\""" 5 0 false; mkTok 41 ";" 6 0 false; mkTok 42 "o" 6 2 false; mkTok 4 "=" 6 3 false; mkTok 30 "0" 6 4 false; mkTok 41 ";" 6 7 false; mkTok 3 "}" 6 9 false; mkTok 0 "<EOF>" 6 10 false] (mkPacket (mkPtok 1 "options" 1 0 0) (Some (mkPtok 3 "}" 6 9 24)) [(DOption (mkOptionDef (mkSpan (mkPtok 1 "options" 1 0 0) (mkPtok 3 "}" 6 9 24)) (mkPtok 1 "options" 1 0 0) (mkPtok 2 "{" 2 0 2) [(mkOptionDecl (mkSpan (mkPtok 42 "Packet" 2 1 3) (mkPtok 41 ";" 3 0 6)) (mkPtok 42 "Packet" 2 1 3) (mkPtok 4 "=" 2 8 4) (VDigits (mkSpan (mkPtok 30 "4294967296" 2 10 5) (mkPtok 30 "4294967296" 2 10 5)) (mkPtok 30 "4294967296" 2 10 5)) (Some (mkPtok 41 ";" 3 0 6))); (mkOptionDecl (mkSpan (mkPtok 42 "i64_" 3 2 7) (mkPtok 41 ";" 4 4 11)) (mkPtok 42 "i64_" 3 2 7) (mkPtok 4 "=" 3 8 8) (VString (mkSpan (mkPtok 31 """1""" 4 0 10) (mkPtok 31 """1""" 4 0 10)) (mkPtok 31 """1""" 4 0 10)) (Some (mkPtok 41 ";" 4 4 11))); (mkOptionDecl (mkSpan (mkPtok 42 "Z9_" 4 6 12) (mkPtok 41 ";" 4 18 15)) (mkPtok 42 "Z9_" 4 6 12) (mkPtok 4 "=" 4 10 13) (VString (mkSpan (mkPtok 31 """abc""" 4 12 14) (mkPtok 31 """abc""" 4 12 14)) (mkPtok 31 """abc""" 4 12 14)) (Some (mkPtok 41 ";" 4 18 15))); (mkOptionDecl (mkSpan (mkPtok 42 "options1" 4 20 16) (mkPtok 41 ";" 6 0 19)) (mkPtok 42 "options1" 4 20 16) (mkPtok 4 "=" 4 29 17) (VString (mkSpan (mkPtok 31 """a\\""" 5 0 18) (mkPtok 31 """a\\""" 5 0 18)) (mkPtok 31 """a\\""" 5 0 18)) (Some (mkPtok 41 ";" 6 0 19))); (mkOptionDecl (mkSpan (mkPtok 42 "o" 6 2 20) (mkPtok 41 ";" 6 7 23)) (mkPtok 42 "o" 6 2 20) (mkPtok 4 "=" 6 3 21) (VDigits (mkSpan (mkPtok 30 "0" 6 4 22) (mkPtok 30 "0" 6 4 22)) (mkPtok 30 "0" 6 4 22)) (Some (mkPtok 41 ";" 6 7 23)))] (mkPtok 3 "}" 6 9 24)))])).
Eval vm_compute in ("<<<M59>>>" ++ check (runes_of_ascii "root
packet string_{ i32 uint8x @calculatedFrom( ""\" ++ [233]%N ++ runes_of_ascii """ ) , body ,@tag(// a // b
0  ) Z9_
    @calculatedFrom(
""" ++ [28040; 24687]%N ++ runes_of_ascii """),
@lengthOf( stringy	)  falsey
    { repeat trueish { u64 i8i8 , }
,  } ,
char[] leftPad
@lengthOf( falsey
    // c
    ),	@calculatedFrom(	""a	b""
    )
//x
// " ++ [27880; 37322]%N ++ runes_of_ascii "
char[]  BodyLength,//x
match
falsey as crc{255 :falsey ,[
//x
// @lengthOf(
7,7] // @lengthOf(
:
//
//x
crc, ""a	b""// `tick` ""quote"" 'q'
: i8i8,255  : a1
, } ,Logon@lengthOf( _x // `tick` ""quote"" 'q'
)
, match	lengthOf as  o{ ""packet"" :	x_y_z ,} , } options
{
//	t
// `tick` ""quote"" 'q'
calculatedFrom
=
""// no comment""  ;
    x
    ='\x00' a1
= ""abc"" ; x_y_z=
65535 ; } packet Foo
{ } packet o { }")).
Eval vm_compute in ("<<<M91>>>" ++ check (runes_of_ascii "packet Logon{
    repeat string
a1 `crlf
line` ,@lengthOf(
Pad
    ) match  Pad as
u8x
    { 4294967296
//
// " ++ [128512]%N ++ runes_of_ascii " emoji
: // `tick` ""quote"" 'q'
i8i8 , } ,
asx a1 ,
// a // b
// @lengthOf(
@lengthOf(body ) //x
msg_type int
,tag`line1
line2` , repeat
// packet A { u8 x, }
// packet A { u8 x, }
Z9_{ u16
    packetx	@calculatedFrom(
    ""it's"" ) , } , @lengthOf(
// " ++ [128512]%N ++ runes_of_ascii " emoji
//	t
Logon ) // " ++ [128512]%N ++ runes_of_ascii " emoji
@rightPad (
)	@calculatedFrom(""" ++ [233]%N ++ runes_of_ascii "t" ++ [233]%N ++ runes_of_ascii """ ) repeat roots	u128 // `tick` ""quote"" 'q'
,@calculatedFrom( ""{,}"") chars{ match // " ++ [128512]%N ++ runes_of_ascii " emoji
roots as Foo {
    10 :trueish
// trailing space 
// @lengthOf(
, },} , i8i8 ,@calculatedFrom( ""x y"" ) @calculatedFrom( ""a\""b"" ) repeat Z9_
{  f32a msg_type ,
repeat o{
// " ++ [128512]%N ++ runes_of_ascii " emoji
// @lengthOf(
zchar[ 0	]
charz @calculatedFrom(""CRC32"" ) ,
}
,}
    ,
} root
    packet	BodyLength
{ calculatedFrom
{
char[]x@calculatedFrom(
""\n""
)
    , // @lengthOf(
_x @calculatedFrom( ""`tick`""
    ),	repeat u128,float Packet
`" ++ [28040; 24687; 31867; 22411]%N ++ runes_of_ascii "`
    ,}
    , repeat Foo	{ uint64 a1
    // `tick` ""quote"" 'q'
    , } , /// triple
repeat char[ 42 ] matchKey `it's` ,	lengthOf{ // " ++ [27880; 37322]%N ++ runes_of_ascii "
u128 trueish  `// not a comment`, match
chars as MetaDataX {
00
    : x_y_z 1
: trueish, [ 0123456789 ]
    :	calculatedFrom , [
    ""CRC32"" ,	""\" ++ [233]%N ++ runes_of_ascii """
, ""// no comment""
    , ""it's"" ,	""packet""
    , 007 ] : Pad
,
} ,  } /// triple
, repeat char[] Logon // `tick` ""quote"" 'q'
, @leftPad
    ( '0' //x
) f32
    Pad
    @calculatedFrom(""CRC32"" ) , @lengthOf(
BodyLength )  options1 @calculatedFrom( ""`tick`"") , A {
// " ++ [27880; 37322]%N ++ runes_of_ascii "
//	t
uint8 charz`u8 x,`
, falsey x
`line1
line2`  , repeat
    int8 Packet
    ,zchar[ 1 ] float
    , }
, char[ 65535 ] matchKey
@calculatedFrom( //
""x y""
    ) // trailing space 
, @lengthOf( o//x
)match	chars
    as As {	1
    : f32a
,
} , }
packet
//	t
// packet A { u8 x, }
int
{ @calculatedFrom( // trailing space 
""// no comment"" ) @rightPad ( ) @calculatedFrom( """ ++ [233]%N ++ runes_of_ascii "t" ++ [233]%N ++ runes_of_ascii """ ) roots _x
/// triple
// trailing space 
`say ""hi""`	, // `tick` ""quote"" 'q'
} options { o= ""{,}"" Pad =
    255 ;  } // " ++ [27880; 37322]%N)).
Eval vm_compute in ("<<<M123>>>" ++ check (runes_of_ascii "options{
i64_ = ""`tick`""}

")).
Eval vm_compute in ("<<<M155>>>" ++ check (runes_of_ascii "packet Foo  { Logon A`a\`, a1 A
, @lengthOf(
//	t
// trailing space 
tag ) // trailing space 
x_y_z
@lengthOf( leftPad
    ) `it's`, @tag( 255 ) match crc// @lengthOf(
as  roots {
""" ++ [233]%N ++ runes_of_ascii "t" ++ [233]%N ++ runes_of_ascii """	:Foo ,[ 10 , 007 //
, // a // b
""" ++ [233]%N ++ runes_of_ascii "t" ++ [233]%N ++ runes_of_ascii """ ,
// c
// @lengthOf(
""a	b""]
    :x_y_z}
    , // @lengthOf(
}  root packet As { }	MetaData calculatedFrom // trailing space 
{ Z9_ _x ``	,
} MetaData tag { // " ++ [27880; 37322]%N ++ runes_of_ascii "
string body , string options1 ,i8i8 pack, }
")).
Eval vm_compute in ("<<<M187>>>" ++ check (runes_of_ascii "  packet repeatCount {
@rightPad (' ' )
char[42]	Header @calculatedFrom( ""a\\"" )
    ,
// packet A { u8 x, }
// packet A { u8 x, }
@tag( 10 ) i64 options1@calculatedFrom( ""x y"" )
,  Packet{ i64 lengthOf@calculatedFrom( ""abc""
)
    // " ++ [128512]%N ++ runes_of_ascii " emoji
    , repeat zchar[
00 ] i64_`u8 x,`
    , } ,
    string tag , string
    o `" ++ [233]%N ++ runes_of_ascii "`
/// triple
// " ++ [128512]%N ++ runes_of_ascii " emoji
, repeat char[  42] a1 `doc`,
string leftPad @calculatedFrom(""a\\"" ), } 	 ")).
Eval vm_compute in ("<<<M219>>>" ++ check (runes_of_ascii "packet
i64_
{ f64 float,@tag( 0 ) @lengthOf(u )
    float64 _x  @calculatedFrom(
    ""x y"" )
,}
MetaData matchKey {
} packet roots { }")).
Eval vm_compute in ("<<<M251>>>" ++ check (runes_of_ascii "packet
    uint8x { @tag(	0123456789 // a // b
) match u as
As
    {
    ""1""
    :	o ,4294967296 : charz [ ""CRC32""
    ]	: A , 42: zchar, ""CRC32"" : leftPad //	t
,
    """ ++ [28040; 24687]%N ++ runes_of_ascii """// " ++ [128512]%N ++ runes_of_ascii " emoji
: uint8x, } , }
    options {
u128 = uint32
}
    packet
chars
{
    // a // b
    float @lengthOf( _x ) // `tick` ""quote"" 'q'
, string
    chars@lengthOf(
matchKey
// @lengthOf(
// packet A { u8 x, }
) , match  crc as
    Z9_ {0123456789 : int
    ,""x y"" //
:
    rootA,	""`tick`""
    : As,
    // @lengthOf(
    } ,@tag(7 )
Pad @lengthOf( trueish  )`u8 x,`
,}
packet float
{ repeat Packet{ lengthOf {
    //
    repeat f32a`it's`
, } ,	o @lengthOf( calculatedFrom	)  , }
,}

")).
Eval vm_compute in ("<<<T251>>>" ++ terms [mkTok 35 "packet" 1 0 false; mkTok 42 "uint8x" 2 4 false; mkTok 2 "{" 2 11 false; mkTok 9 "@tag(" 2 13 false; mkTok 30 "0123456789" 2 19 false; mkTok 44 "// a // b" 2 30 true; mkTok 6 ")" 3 0 false; mkTok 38 "match" 3 2 false; mkTok 42 "u" 3 8 false; mkTok 17 "as" 3 10 false; mkTok 42 "As" 4 0 false; mkTok 2 "{" 5 4 false; mkTok 31 """1""" 6 4 false; mkTok 39 ":" 7 4 false; mkTok 42 "o" 7 6 false; mkTok 40 "," 7 8 false; mkTok 30 "4294967296" 7 9 false; mkTok 39 ":" 7 20 false; mkTok 42 "charz" 7 22 false; mkTok 18 "[" 7 28 false; mkTok 31 """CRC32""" 7 30 false; mkTok 13 "]" 8 4 false; mkTok 39 ":" 8 6 false; mkTok 42 "A" 8 8 false; mkTok 40 "," 8 10 false; mkTok 30 "42" 8 12 false; mkTok 39 ":" 8 14 false; mkTok 42 "zchar" 8 16 false; mkTok 40 "," 8 21 false; mkTok 31 """CRC32""" 8 23 false; mkTok 39 ":" 8 31 false; mkTok 42 "leftPad" 8 33 false; mkTok 44 (string_of_bytes [47; 47; 9; 116]%N) 8 41 true; mkTok 40 "," 9 0 false; mkTok 31 (string_of_bytes [34; 230; 182; 136; 230; 129; 175; 34]%N) 10 4 false; mkTok 44 (string_of_bytes [47; 47; 32; 240; 159; 152; 128; 32; 101; 109; 111; 106; 105]%N) 10 8 true; mkTok 39 ":" 11 0 false; mkTok 42 "uint8x" 11 2 false; mkTok 40 "," 11 8 false; mkTok 3 "}" 11 10 false; mkTok 40 "," 11 12 false; mkTok 3 "}" 11 14 false; mkTok 1 "options" 12 4 false; mkTok 2 "{" 12 12 false; mkTok 42 "u128" 13 0 false; mkTok 4 "=" 13 5 false; mkTok 22 "uint32" 13 7 false; mkTok 3 "}" 14 0 false; mkTok 35 "packet" 15 4 false; mkTok 42 "chars" 16 0 false; mkTok 2 "{" 17 0 false; mkTok 44 "// a // b" 18 4 true; mkTok 42 "float" 19 4 false; mkTok 7 "@lengthOf(" 19 10 false; mkTok 42 "_x" 19 21 false; mkTok 6 ")" 19 24 false; mkTok 44 "// `tick` ""quote"" 'q'" 19 26 true; mkTok 40 "," 20 0 false; mkTok 15 "string" 20 2 false; mkTok 42 "chars" 21 4 false; mkTok 7 "@lengthOf(" 21 9 false; mkTok 42 "matchKey" 22 0 false; mkTok 44 "// @lengthOf(" 23 0 true; mkTok 44 "// packet A { u8 x, }" 24 0 true; mkTok 6 ")" 25 0 false; mkTok 40 "," 25 2 false; mkTok 38 "match" 25 4 false; mkTok 42 "crc" 25 11 false; mkTok 17 "as" 25 15 false; mkTok 42 "Z9_" 26 4 false; mkTok 2 "{" 26 8 false; mkTok 30 "0123456789" 26 9 false; mkTok 39 ":" 26 20 false; mkTok 42 "int" 26 22 false; mkTok 40 "," 27 4 false; mkTok 31 """x y""" 27 5 false; mkTok 44 "//" 27 11 true; mkTok 39 ":" 28 0 false; mkTok 42 "rootA" 29 4 false; mkTok 40 "," 29 9 false; mkTok 31 """`tick`""" 29 11 false; mkTok 39 ":" 30 4 false; mkTok 42 "As" 30 6 false; mkTok 40 "," 30 8 false; mkTok 44 "// @lengthOf(" 31 4 true; mkTok 3 "}" 32 4 false; mkTok 40 "," 32 6 false; mkTok 9 "@tag(" 32 7 false; mkTok 30 "7" 32 12 false; mkTok 6 ")" 32 14 false; mkTok 42 "Pad" 33 0 false; mkTok 7 "@lengthOf(" 33 4 false; mkTok 42 "trueish" 33 15 false; mkTok 6 ")" 33 24 false; mkTok 43 "`u8 x,`" 33 25 false; mkTok 40 "," 34 0 false; mkTok 3 "}" 34 1 false; mkTok 35 "packet" 35 0 false; mkTok 42 "float" 35 7 false; mkTok 2 "{" 36 0 false; mkTok 36 "repeat" 36 2 false; mkTok 42 "Packet" 36 9 false; mkTok 2 "{" 36 15 false; mkTok 42 "lengthOf" 36 17 false; mkTok 2 "{" 36 26 false; mkTok 44 "//" 37 4 true; mkTok 36 "repeat" 38 4 false; mkTok 42 "f32a" 38 11 false; mkTok 43 "`it's`" 38 15 false; mkTok 40 "," 39 0 false; mkTok 3 "}" 39 2 false; mkTok 40 "," 39 4 false; mkTok 42 "o" 39 6 false; mkTok 7 "@lengthOf(" 39 8 false; mkTok 42 "calculatedFrom" 39 19 false; mkTok 6 ")" 39 34 false; mkTok 40 "," 39 37 false; mkTok 3 "}" 39 39 false; mkTok 40 "," 40 0 false; mkTok 3 "}" 40 1 false; mkTok 0 "<EOF>" 42 0 false] (mkPacket (mkPtok 35 "packet" 1 0 0) (Some (mkPtok 3 "}" 40 1 119)) [(DPacket (mkPacketDef (mkSpan (mkPtok 35 "packet" 1 0 0) (mkPtok 3 "}" 11 14 41)) None (mkPtok 35 "packet" 1 0 0) (mkPtok 42 "uint8x" 2 4 1) (mkPtok 2 "{" 2 11 2) [(mkFieldWithAttr (mkSpan (mkPtok 9 "@tag(" 2 13 3) (mkPtok 40 "," 11 12 40)) [(FATag (mkSpan (mkPtok 9 "@tag(" 2 13 3) (mkPtok 6 ")" 3 0 6)) (mkTagAttr (mkSpan (mkPtok 9 "@tag(" 2 13 3) (mkPtok 6 ")" 3 0 6)) (mkPtok 9 "@tag(" 2 13 3) (mkPtok 30 "0123456789" 2 19 4) (mkPtok 6 ")" 3 0 6)))] (MatchField (mkSpan (mkPtok 38 "match" 3 2 7) (mkPtok 40 "," 11 12 40)) (mkMatchFieldDecl (mkSpan (mkPtok 38 "match" 3 2 7) (mkPtok 3 "}" 11 10 39)) (mkPtok 38 "match" 3 2 7) (mkPtok 42 "u" 3 8 8) (mkPtok 17 "as" 3 10 9) (mkPtok 42 "As" 4 0 10) (mkPtok 2 "{" 5 4 11) [(mkMatchPair (mkSpan (mkPtok 31 """1""" 6 4 12) (mkPtok 40 "," 7 8 15)) (MKString (mkPtok 31 """1""" 6 4 12)) (mkPtok 39 ":" 7 4 13) (mkPtok 42 "o" 7 6 14) (Some (mkPtok 40 "," 7 8 15))); (mkMatchPair (mkSpan (mkPtok 30 "4294967296" 7 9 16) (mkPtok 42 "charz" 7 22 18)) (MKDigits (mkPtok 30 "4294967296" 7 9 16)) (mkPtok 39 ":" 7 20 17) (mkPtok 42 "charz" 7 22 18) None); (mkMatchPair (mkSpan (mkPtok 18 "[" 7 28 19) (mkPtok 40 "," 8 10 24)) (MKList (mkKeyList (mkSpan (mkPtok 18 "[" 7 28 19) (mkPtok 13 "]" 8 4 21)) (mkPtok 18 "[" 7 28 19) (mkPtok 31 """CRC32""" 7 30 20) [] (mkPtok 13 "]" 8 4 21))) (mkPtok 39 ":" 8 6 22) (mkPtok 42 "A" 8 8 23) (Some (mkPtok 40 "," 8 10 24))); (mkMatchPair (mkSpan (mkPtok 30 "42" 8 12 25) (mkPtok 40 "," 8 21 28)) (MKDigits (mkPtok 30 "42" 8 12 25)) (mkPtok 39 ":" 8 14 26) (mkPtok 42 "zchar" 8 16 27) (Some (mkPtok 40 "," 8 21 28))); (mkMatchPair (mkSpan (mkPtok 31 """CRC32""" 8 23 29) (mkPtok 40 "," 9 0 33)) (MKString (mkPtok 31 """CRC32""" 8 23 29)) (mkPtok 39 ":" 8 31 30) (mkPtok 42 "leftPad" 8 33 31) (Some (mkPtok 40 "," 9 0 33))); (mkMatchPair (mkSpan (mkPtok 31 (string_of_bytes [34; 230; 182; 136; 230; 129; 175; 34]%N) 10 4 34) (mkPtok 40 "," 11 8 38)) (MKString (mkPtok 31 (string_of_bytes [34; 230; 182; 136; 230; 129; 175; 34]%N) 10 4 34)) (mkPtok 39 ":" 11 0 36) (mkPtok 42 "uint8x" 11 2 37) (Some (mkPtok 40 "," 11 8 38)))] (mkPtok 3 "}" 11 10 39)) (mkPtok 40 "," 11 12 40)))] (mkPtok 3 "}" 11 14 41))); (DOption (mkOptionDef (mkSpan (mkPtok 1 "options" 12 4 42) (mkPtok 3 "}" 14 0 47)) (mkPtok 1 "options" 12 4 42) (mkPtok 2 "{" 12 12 43) [(mkOptionDecl (mkSpan (mkPtok 42 "u128" 13 0 44) (mkPtok 22 "uint32" 13 7 46)) (mkPtok 42 "u128" 13 0 44) (mkPtok 4 "=" 13 5 45) (VType (mkSpan (mkPtok 22 "uint32" 13 7 46) (mkPtok 22 "uint32" 13 7 46)) (TyBasic (mkSpan (mkPtok 22 "uint32" 13 7 46) (mkPtok 22 "uint32" 13 7 46)) (mkBasicType (mkSpan (mkPtok 22 "uint32" 13 7 46) (mkPtok 22 "uint32" 13 7 46)) (mkPtok 22 "uint32" 13 7 46)))) None)] (mkPtok 3 "}" 14 0 47))); (DPacket (mkPacketDef (mkSpan (mkPtok 35 "packet" 15 4 48) (mkPtok 3 "}" 34 1 96)) None (mkPtok 35 "packet" 15 4 48) (mkPtok 42 "chars" 16 0 49) (mkPtok 2 "{" 17 0 50) [(mkFieldWithAttr (mkSpan (mkPtok 42 "float" 19 4 52) (mkPtok 40 "," 20 0 57)) [] (LengthField (mkSpan (mkPtok 42 "float" 19 4 52) (mkPtok 40 "," 20 0 57)) (mkLengthFieldDecl (mkSpan (mkPtok 42 "float" 19 4 52) (mkPtok 40 "," 20 0 57)) None (mkPtok 42 "float" 19 4 52) (mkLengthOf (mkSpan (mkPtok 7 "@lengthOf(" 19 10 53) (mkPtok 6 ")" 19 24 55)) (mkPtok 7 "@lengthOf(" 19 10 53) (mkPtok 42 "_x" 19 21 54) (mkPtok 6 ")" 19 24 55)) None (mkPtok 40 "," 20 0 57)))); (mkFieldWithAttr (mkSpan (mkPtok 15 "string" 20 2 58) (mkPtok 40 "," 25 2 65)) [] (LengthField (mkSpan (mkPtok 15 "string" 20 2 58) (mkPtok 40 "," 25 2 65)) (mkLengthFieldDecl (mkSpan (mkPtok 15 "string" 20 2 58) (mkPtok 40 "," 25 2 65)) (Some (TyDynamic (mkSpan (mkPtok 15 "string" 20 2 58) (mkPtok 15 "string" 20 2 58)) (mkDynamicString (mkSpan (mkPtok 15 "string" 20 2 58) (mkPtok 15 "string" 20 2 58)) (mkPtok 15 "string" 20 2 58)))) (mkPtok 42 "chars" 21 4 59) (mkLengthOf (mkSpan (mkPtok 7 "@lengthOf(" 21 9 60) (mkPtok 6 ")" 25 0 64)) (mkPtok 7 "@lengthOf(" 21 9 60) (mkPtok 42 "matchKey" 22 0 61) (mkPtok 6 ")" 25 0 64)) None (mkPtok 40 "," 25 2 65)))); (mkFieldWithAttr (mkSpan (mkPtok 38 "match" 25 4 66) (mkPtok 40 "," 32 6 86)) [] (MatchField (mkSpan (mkPtok 38 "match" 25 4 66) (mkPtok 40 "," 32 6 86)) (mkMatchFieldDecl (mkSpan (mkPtok 38 "match" 25 4 66) (mkPtok 3 "}" 32 4 85)) (mkPtok 38 "match" 25 4 66) (mkPtok 42 "crc" 25 11 67) (mkPtok 17 "as" 25 15 68) (mkPtok 42 "Z9_" 26 4 69) (mkPtok 2 "{" 26 8 70) [(mkMatchPair (mkSpan (mkPtok 30 "0123456789" 26 9 71) (mkPtok 40 "," 27 4 74)) (MKDigits (mkPtok 30 "0123456789" 26 9 71)) (mkPtok 39 ":" 26 20 72) (mkPtok 42 "int" 26 22 73) (Some (mkPtok 40 "," 27 4 74))); (mkMatchPair (mkSpan (mkPtok 31 """x y""" 27 5 75) (mkPtok 40 "," 29 9 79)) (MKString (mkPtok 31 """x y""" 27 5 75)) (mkPtok 39 ":" 28 0 77) (mkPtok 42 "rootA" 29 4 78) (Some (mkPtok 40 "," 29 9 79))); (mkMatchPair (mkSpan (mkPtok 31 """`tick`""" 29 11 80) (mkPtok 40 "," 30 8 83)) (MKString (mkPtok 31 """`tick`""" 29 11 80)) (mkPtok 39 ":" 30 4 81) (mkPtok 42 "As" 30 6 82) (Some (mkPtok 40 "," 30 8 83)))] (mkPtok 3 "}" 32 4 85)) (mkPtok 40 "," 32 6 86))); (mkFieldWithAttr (mkSpan (mkPtok 9 "@tag(" 32 7 87) (mkPtok 40 "," 34 0 95)) [(FATag (mkSpan (mkPtok 9 "@tag(" 32 7 87) (mkPtok 6 ")" 32 14 89)) (mkTagAttr (mkSpan (mkPtok 9 "@tag(" 32 7 87) (mkPtok 6 ")" 32 14 89)) (mkPtok 9 "@tag(" 32 7 87) (mkPtok 30 "7" 32 12 88) (mkPtok 6 ")" 32 14 89)))] (LengthField (mkSpan (mkPtok 42 "Pad" 33 0 90) (mkPtok 40 "," 34 0 95)) (mkLengthFieldDecl (mkSpan (mkPtok 42 "Pad" 33 0 90) (mkPtok 40 "," 34 0 95)) None (mkPtok 42 "Pad" 33 0 90) (mkLengthOf (mkSpan (mkPtok 7 "@lengthOf(" 33 4 91) (mkPtok 6 ")" 33 24 93)) (mkPtok 7 "@lengthOf(" 33 4 91) (mkPtok 42 "trueish" 33 15 92) (mkPtok 6 ")" 33 24 93)) (Some (mkPtok 43 "`u8 x,`" 33 25 94)) (mkPtok 40 "," 34 0 95))))] (mkPtok 3 "}" 34 1 96))); (DPacket (mkPacketDef (mkSpan (mkPtok 35 "packet" 35 0 97) (mkPtok 3 "}" 40 1 119)) None (mkPtok 35 "packet" 35 0 97) (mkPtok 42 "float" 35 7 98) (mkPtok 2 "{" 36 0 99) [(mkFieldWithAttr (mkSpan (mkPtok 36 "repeat" 36 2 100) (mkPtok 40 "," 40 0 118)) [] (InerObjectField (mkSpan (mkPtok 36 "repeat" 36 2 100) (mkPtok 40 "," 40 0 118)) (Some (mkPtok 36 "repeat" 36 2 100)) (InerObjectDecl (mkSpan (mkPtok 42 "Packet" 36 9 101) (mkPtok 3 "}" 39 39 117)) (mkPtok 42 "Packet" 36 9 101) (mkPtok 2 "{" 36 15 102) [(InerObjectField (mkSpan (mkPtok 42 "lengthOf" 36 17 103) (mkPtok 40 "," 39 4 111)) None (InerObjectDecl (mkSpan (mkPtok 42 "lengthOf" 36 17 103) (mkPtok 3 "}" 39 2 110)) (mkPtok 42 "lengthOf" 36 17 103) (mkPtok 2 "{" 36 26 104) [(ObjectField (mkSpan (mkPtok 36 "repeat" 38 4 106) (mkPtok 40 "," 39 0 109)) (Some (mkPtok 36 "repeat" 38 4 106)) (mkPtok 42 "f32a" 38 11 107) None (Some (mkPtok 43 "`it's`" 38 15 108)) (mkPtok 40 "," 39 0 109))] (mkPtok 3 "}" 39 2 110)) (mkPtok 40 "," 39 4 111)); (LengthField (mkSpan (mkPtok 42 "o" 39 6 112) (mkPtok 40 "," 39 37 116)) (mkLengthFieldDecl (mkSpan (mkPtok 42 "o" 39 6 112) (mkPtok 40 "," 39 37 116)) None (mkPtok 42 "o" 39 6 112) (mkLengthOf (mkSpan (mkPtok 7 "@lengthOf(" 39 8 113) (mkPtok 6 ")" 39 34 115)) (mkPtok 7 "@lengthOf(" 39 8 113) (mkPtok 42 "calculatedFrom" 39 19 114) (mkPtok 6 ")" 39 34 115)) None (mkPtok 40 "," 39 37 116)))] (mkPtok 3 "}" 39 39 117)) (mkPtok 40 "," 40 0 118)))] (mkPtok 3 "}" 40 1 119)))])).
Eval vm_compute in ("<<<M283>>>" ++ check (@nil rune)).
Eval vm_compute in ("<<<M315>>>" ++ check (runes_of_ascii "  MetaData // c
crc
{ i64 matchKey,
    _x msg_type//
, zchar zchar
    ,
    MetaDataX	matchKey
    `a\` ,
    u32 Header // " ++ [128512]%N ++ runes_of_ascii " emoji
, } MetaData
_x{
    } root packet
    calculatedFrom
// `tick` ""quote"" 'q'
// @lengthOf(
{	}
")).
Eval vm_compute in ("<<<M347>>>" ++ check (runes_of_ascii "
")).
Eval vm_compute in ("<<<M379>>>" ++ check (runes_of_ascii "root packet falsey { @lengthOf(Pad	)repeatCount
    @calculatedFrom( ""1"")
    ,@calculatedFrom( """"
)
@lengthOf(
stringy ) A
leftPad , @calculatedFrom(""{,}""
    ) // " ++ [128512]%N ++ runes_of_ascii " emoji
f32 calculatedFrom `{ , }` , char[007
    ] a1,
repeat char[ 007 ] repeatCount`it's`
, char[] pack `line1
line2`, } packet // " ++ [128512]%N ++ runes_of_ascii " emoji
trueish{ repeat zchar[10 ]options1 `a\`
,  roots@calculatedFrom(
""" ++ [128512]%N ++ runes_of_ascii """	) `{ , }`
,  @calculatedFrom(	""a\""b""	)
_x _x `
` , //x
i8 pack
    , @lengthOf(  string_ )
match charz
as
repeatCount
{[
0123456789 ]
    : x// a // b
,255:
    Foo, [ 0123456789 , ""1"" ] : f32a """" :
    // " ++ [128512]%N ++ runes_of_ascii " emoji
    len
,	[0 ,
0123456789 ,""a\\"" ,65535]
    : int ,[""packet"" , ""1"" ,65535 ,  ""a\""b""
    ,	4294967296
, ""x y""
    , ""// no comment"" ]
: calculatedFrom , // trailing space 
},
@calculatedFrom( // " ++ [27880; 37322]%N ++ runes_of_ascii "
""" ++ [28040; 24687]%N ++ runes_of_ascii """
)Pad int  `tab	here`,
} packet // c
As
{
    options1
,  @lengthOf( int // a // b
)int8
options1 @lengthOf( u8x)
`crlf
line`, } packet falsey { @rightPad ( ) char[ 3] o
    , }root
packet
    // @lengthOf(
    _x {@tag( 42
) trueish
    @calculatedFrom(
""" ++ [128512]%N ++ runes_of_ascii """ )
`
` , f32a `crlf
line` , match
rootA as stringy  { // trailing space 
[ ""packet""
    ,
//
// " ++ [27880; 37322]%N ++ runes_of_ascii "
"""" ]:
    uint8x ,  ""\" ++ [233]%N ++ runes_of_ascii """
: uint8x , [""\n"" ,1 ]
    : zchar // packet A { u8 x, }
, 255:
// `tick` ""quote"" 'q'
//
int ,[ ""packet""]: roots }
, repeat u16 // c
x_y_z// a // b
`// not a comment` , }")).
Eval vm_compute in ("<<<M411>>>" ++ check (runes_of_ascii "// @lengthOf(
root packet uint8x { repeat
x_y_z //	t
{ zchar[ 10
] stringy@calculatedFrom(// `tick` ""quote"" 'q'
""x y"" ) , // a // b
}//	t
,
    i64
body @lengthOf( options1
    ) `u8 x,` ,lengthOf  {
    // packet A { u8 x, }
    match T
as
len {007
    :
    BodyLength 1 :	_x ""\n"" :	chars , 255
: /// triple
a1 , } , f64 roots
@lengthOf(  Foo)
    , lengthOf @lengthOf(  x_y_z
    )`
`,	repeat // `tick` ""quote"" 'q'
string tag
`tab	here` , } , // @lengthOf(
} options
{
    falsey = char[ 0123456789
    ]roots
    // `tick` ""quote"" 'q'
    = int64 // packet A { u8 x, }
; A	= 007 }
")).
Eval vm_compute in ("<<<M443>>>" ++ check (runes_of_ascii "/// triple
root
packet Logon{@calculatedFrom(	""CRC32""	) uint8x {
roots pack  `line1
line2`,},
    string u
    ,  }packet body {
uint64 Logon ,
}
    root packet lengthOf { } packet A {u32 pack // `tick` ""quote"" 'q'
@calculatedFrom(// c
""" ++ [128512]%N ++ runes_of_ascii """ ) ,
    }")).
Eval vm_compute in ("<<<M475>>>" ++ check (runes_of_ascii "// a // b
MetaData x{ i8 MetaDataX
`" ++ [233]%N ++ runes_of_ascii "`
,
string matchKey
//	t
// " ++ [27880; 37322]%N ++ runes_of_ascii "
, // packet A { u8 x, }
BodyLength
f32a,
char[ 7 ] u8x ,	char[] len , int16
msg_type
    , }packet o{ match roots as T{ [
    255 , 1 , 1 , """ ++ [28040; 24687]%N ++ runes_of_ascii """
, ""`tick`"",
    ""a\""b""
// c
//x
, 42	] :pack
, [ 0 //
,
""// no comment"" ] :
    Logon, [ ""1"", ""abc""
, 255 , 3 , ""\n""	, 255 , """ ++ [128512]%N ++ runes_of_ascii """
    ,
    ""{,}""
] // a // b
:
    x_y_z , }
,
    char[] len
    @lengthOf(Pad )
,
char[]
BodyLength ,trueish @calculatedFrom(""1"" )`" ++ [233]%N ++ runes_of_ascii "` , match
chars as x_y_z{ ""`tick`""
:calculatedFrom , } , @lengthOf( string_ ) char[
    3 ]f32a,falsey `" ++ [28040; 24687; 31867; 22411]%N ++ runes_of_ascii "` ,
repeat int64 //
u128 `tab	here`, uint8 msg_type @calculatedFrom( ""a\\"" )  `line1
line2`	, } options
{
    body =zchar[ 4294967296
] ;u128 = '\x00' BodyLength= float32 }
// @lengthOf(
")).
Eval vm_compute in ("<<<T475>>>" ++ terms [mkTok 44 "// a // b" 1 0 true; mkTok 37 "MetaData" 2 0 false; mkTok 42 "x" 2 9 false; mkTok 2 "{" 2 10 false; mkTok 24 "i8" 2 12 false; mkTok 42 "MetaDataX" 2 15 false; mkTok 43 (string_of_bytes [96; 195; 169; 96]%N) 3 0 false; mkTok 40 "," 4 0 false; mkTok 15 "string" 5 0 false; mkTok 42 "matchKey" 5 7 false; mkTok 44 (string_of_bytes [47; 47; 9; 116]%N) 6 0 true; mkTok 44 (string_of_bytes [47; 47; 32; 230; 179; 168; 233; 135; 138]%N) 7 0 true; mkTok 40 "," 8 0 false; mkTok 44 "// packet A { u8 x, }" 8 2 true; mkTok 42 "BodyLength" 9 0 false; mkTok 42 "f32a" 10 0 false; mkTok 40 "," 10 4 false; mkTok 12 "char[" 11 0 false; mkTok 30 "7" 11 6 false; mkTok 13 "]" 11 8 false; mkTok 42 "u8x" 11 10 false; mkTok 40 "," 11 14 false; mkTok 16 "char[]" 11 16 false; mkTok 42 "len" 11 23 false; mkTok 40 "," 11 27 false; mkTok 25 "int16" 11 29 false; mkTok 42 "msg_type" 12 0 false; mkTok 40 "," 13 4 false; mkTok 3 "}" 13 6 false; mkTok 35 "packet" 13 7 false; mkTok 42 "o" 13 14 false; mkTok 2 "{" 13 15 false; mkTok 38 "match" 13 17 false; mkTok 42 "roots" 13 23 false; mkTok 17 "as" 13 29 false; mkTok 42 "T" 13 32 false; mkTok 2 "{" 13 33 false; mkTok 18 "[" 13 35 false; mkTok 30 "255" 14 4 false; mkTok 40 "," 14 8 false; mkTok 30 "1" 14 10 false; mkTok 40 "," 14 12 false; mkTok 30 "1" 14 14 false; mkTok 40 "," 14 16 false; mkTok 31 (string_of_bytes [34; 230; 182; 136; 230; 129; 175; 34]%N) 14 18 false; mkTok 40 "," 15 0 false; mkTok 31 """`tick`""" 15 2 false; mkTok 40 "," 15 10 false; mkTok 31 """a\""b""" 16 4 false; mkTok 44 "// c" 17 0 true; mkTok 44 "//x" 18 0 true; mkTok 40 "," 19 0 false; mkTok 30 "42" 19 2 false; mkTok 13 "]" 19 5 false; mkTok 39 ":" 19 7 false; mkTok 42 "pack" 19 8 false; mkTok 40 "," 20 0 false; mkTok 18 "[" 20 2 false; mkTok 30 "0" 20 4 false; mkTok 44 "//" 20 6 true; mkTok 40 "," 21 0 false; mkTok 31 """// no comment""" 22 0 false; mkTok 13 "]" 22 16 false; mkTok 39 ":" 22 18 false; mkTok 42 "Logon" 23 4 false; mkTok 40 "," 23 9 false; mkTok 18 "[" 23 11 false; mkTok 31 """1""" 23 13 false; mkTok 40 "," 23 16 false; mkTok 31 """abc""" 23 18 false; mkTok 40 "," 24 0 false; mkTok 30 "255" 24 2 false; mkTok 40 "," 24 6 false; mkTok 30 "3" 24 8 false; mkTok 40 "," 24 10 false; mkTok 31 """\n""" 24 12 false; mkTok 40 "," 24 17 false; mkTok 30 "255" 24 19 false; mkTok 40 "," 24 23 false; mkTok 31 (string_of_bytes [34; 240; 159; 152; 128; 34]%N) 24 25 false; mkTok 40 "," 25 4 false; mkTok 31 """{,}""" 26 4 false; mkTok 13 "]" 27 0 false; mkTok 44 "// a // b" 27 2 true; mkTok 39 ":" 28 0 false; mkTok 42 "x_y_z" 29 4 false; mkTok 40 "," 29 10 false; mkTok 3 "}" 29 12 false; mkTok 40 "," 30 0 false; mkTok 16 "char[]" 31 4 false; mkTok 42 "len" 31 11 false; mkTok 7 "@lengthOf(" 32 4 false; mkTok 42 "Pad" 32 14 false; mkTok 6 ")" 32 18 false; mkTok 40 "," 33 0 false; mkTok 16 "char[]" 34 0 false; mkTok 42 "BodyLength" 35 0 false; mkTok 40 "," 35 11 false; mkTok 42 "trueish" 35 12 false; mkTok 5 "@calculatedFrom(" 35 20 false; mkTok 31 """1""" 35 36 false; mkTok 6 ")" 35 40 false; mkTok 43 (string_of_bytes [96; 195; 169; 96]%N) 35 41 false; mkTok 40 "," 35 45 false; mkTok 38 "match" 35 47 false; mkTok 42 "chars" 36 0 false; mkTok 17 "as" 36 6 false; mkTok 42 "x_y_z" 36 9 false; mkTok 2 "{" 36 14 false; mkTok 31 """`tick`""" 36 16 false; mkTok 39 ":" 37 0 false; mkTok 42 "calculatedFrom" 37 1 false; mkTok 40 "," 37 16 false; mkTok 3 "}" 37 18 false; mkTok 40 "," 37 20 false; mkTok 7 "@lengthOf(" 37 22 false; mkTok 42 "string_" 37 33 false; mkTok 6 ")" 37 41 false; mkTok 12 "char[" 37 43 false; mkTok 30 "3" 38 4 false; mkTok 13 "]" 38 6 false; mkTok 42 "f32a" 38 7 false; mkTok 40 "," 38 11 false; mkTok 42 "falsey" 38 12 false; mkTok 43 (string_of_bytes [96; 230; 182; 136; 230; 129; 175; 231; 177; 187; 229; 158; 139; 96]%N) 38 19 false; mkTok 40 "," 38 26 false; mkTok 36 "repeat" 39 0 false; mkTok 27 "int64" 39 7 false; mkTok 44 "//" 39 13 true; mkTok 42 "u128" 40 0 false; mkTok 43 (string_of_bytes [96; 116; 97; 98; 9; 104; 101; 114; 101; 96]%N) 40 5 false; mkTok 40 "," 40 15 false; mkTok 20 "uint8" 40 17 false; mkTok 42 "msg_type" 40 23 false; mkTok 5 "@calculatedFrom(" 40 32 false; mkTok 31 """a\\""" 40 49 false; mkTok 6 ")" 40 55 false; mkTok 43 (string_of_bytes [96; 108; 105; 110; 101; 49; 10; 108; 105; 110; 101; 50; 96]%N) 40 58 false; mkTok 40 "," 41 7 false; mkTok 3 "}" 41 9 false; mkTok 1 "options" 41 11 false; mkTok 2 "{" 42 0 false; mkTok 42 "body" 43 4 false; mkTok 4 "=" 43 9 false; mkTok 14 "zchar[" 43 10 false; mkTok 30 "4294967296" 43 17 false; mkTok 13 "]" 44 0 false; mkTok 41 ";" 44 2 false; mkTok 42 "u128" 44 3 false; mkTok 4 "=" 44 8 false; mkTok 33 "'\x00'" 44 10 false; mkTok 42 "BodyLength" 44 17 false; mkTok 4 "=" 44 27 false; mkTok 28 "float32" 44 29 false; mkTok 3 "}" 44 37 false; mkTok 44 "// @lengthOf(" 45 0 true; mkTok 0 "<EOF>" 46 0 false] (mkPacket (mkPtok 37 "MetaData" 2 0 1) (Some (mkPtok 3 "}" 44 37 154)) [(DMeta (mkMetaDef (mkSpan (mkPtok 37 "MetaData" 2 0 1) (mkPtok 3 "}" 13 6 28)) (mkPtok 37 "MetaData" 2 0 1) (mkPtok 42 "x" 2 9 2) (mkPtok 2 "{" 2 10 3) [(MIDecl (mkMetaDecl (mkSpan (mkPtok 24 "i8" 2 12 4) (mkPtok 40 "," 4 0 7)) (TyBasic (mkSpan (mkPtok 24 "i8" 2 12 4) (mkPtok 24 "i8" 2 12 4)) (mkBasicType (mkSpan (mkPtok 24 "i8" 2 12 4) (mkPtok 24 "i8" 2 12 4)) (mkPtok 24 "i8" 2 12 4))) (mkPtok 42 "MetaDataX" 2 15 5) (Some (mkPtok 43 (string_of_bytes [96; 195; 169; 96]%N) 3 0 6)) (mkPtok 40 "," 4 0 7))); (MIDecl (mkMetaDecl (mkSpan (mkPtok 15 "string" 5 0 8) (mkPtok 40 "," 8 0 12)) (TyDynamic (mkSpan (mkPtok 15 "string" 5 0 8) (mkPtok 15 "string" 5 0 8)) (mkDynamicString (mkSpan (mkPtok 15 "string" 5 0 8) (mkPtok 15 "string" 5 0 8)) (mkPtok 15 "string" 5 0 8))) (mkPtok 42 "matchKey" 5 7 9) None (mkPtok 40 "," 8 0 12))); (MIRef (mkRefMetaDecl (mkSpan (mkPtok 42 "BodyLength" 9 0 14) (mkPtok 40 "," 10 4 16)) (mkPtok 42 "BodyLength" 9 0 14) (mkPtok 42 "f32a" 10 0 15) None (mkPtok 40 "," 10 4 16))); (MIDecl (mkMetaDecl (mkSpan (mkPtok 12 "char[" 11 0 17) (mkPtok 40 "," 11 14 21)) (TyFixed (mkSpan (mkPtok 12 "char[" 11 0 17) (mkPtok 13 "]" 11 8 19)) (mkFixedString (mkSpan (mkPtok 12 "char[" 11 0 17) (mkPtok 13 "]" 11 8 19)) (mkPtok 12 "char[" 11 0 17) (mkPtok 30 "7" 11 6 18) (mkPtok 13 "]" 11 8 19))) (mkPtok 42 "u8x" 11 10 20) None (mkPtok 40 "," 11 14 21))); (MIDecl (mkMetaDecl (mkSpan (mkPtok 16 "char[]" 11 16 22) (mkPtok 40 "," 11 27 24)) (TyDynamic (mkSpan (mkPtok 16 "char[]" 11 16 22) (mkPtok 16 "char[]" 11 16 22)) (mkDynamicString (mkSpan (mkPtok 16 "char[]" 11 16 22) (mkPtok 16 "char[]" 11 16 22)) (mkPtok 16 "char[]" 11 16 22))) (mkPtok 42 "len" 11 23 23) None (mkPtok 40 "," 11 27 24))); (MIDecl (mkMetaDecl (mkSpan (mkPtok 25 "int16" 11 29 25) (mkPtok 40 "," 13 4 27)) (TyBasic (mkSpan (mkPtok 25 "int16" 11 29 25) (mkPtok 25 "int16" 11 29 25)) (mkBasicType (mkSpan (mkPtok 25 "int16" 11 29 25) (mkPtok 25 "int16" 11 29 25)) (mkPtok 25 "int16" 11 29 25))) (mkPtok 42 "msg_type" 12 0 26) None (mkPtok 40 "," 13 4 27)))] (mkPtok 3 "}" 13 6 28))); (DPacket (mkPacketDef (mkSpan (mkPtok 35 "packet" 13 7 29) (mkPtok 3 "}" 41 9 139)) None (mkPtok 35 "packet" 13 7 29) (mkPtok 42 "o" 13 14 30) (mkPtok 2 "{" 13 15 31) [(mkFieldWithAttr (mkSpan (mkPtok 38 "match" 13 17 32) (mkPtok 40 "," 30 0 88)) [] (MatchField (mkSpan (mkPtok 38 "match" 13 17 32) (mkPtok 40 "," 30 0 88)) (mkMatchFieldDecl (mkSpan (mkPtok 38 "match" 13 17 32) (mkPtok 3 "}" 29 12 87)) (mkPtok 38 "match" 13 17 32) (mkPtok 42 "roots" 13 23 33) (mkPtok 17 "as" 13 29 34) (mkPtok 42 "T" 13 32 35) (mkPtok 2 "{" 13 33 36) [(mkMatchPair (mkSpan (mkPtok 18 "[" 13 35 37) (mkPtok 40 "," 20 0 56)) (MKList (mkKeyList (mkSpan (mkPtok 18 "[" 13 35 37) (mkPtok 13 "]" 19 5 53)) (mkPtok 18 "[" 13 35 37) (mkPtok 30 "255" 14 4 38) [((mkPtok 40 "," 14 8 39), (mkPtok 30 "1" 14 10 40)); ((mkPtok 40 "," 14 12 41), (mkPtok 30 "1" 14 14 42)); ((mkPtok 40 "," 14 16 43), (mkPtok 31 (string_of_bytes [34; 230; 182; 136; 230; 129; 175; 34]%N) 14 18 44)); ((mkPtok 40 "," 15 0 45), (mkPtok 31 """`tick`""" 15 2 46)); ((mkPtok 40 "," 15 10 47), (mkPtok 31 """a\""b""" 16 4 48)); ((mkPtok 40 "," 19 0 51), (mkPtok 30 "42" 19 2 52))] (mkPtok 13 "]" 19 5 53))) (mkPtok 39 ":" 19 7 54) (mkPtok 42 "pack" 19 8 55) (Some (mkPtok 40 "," 20 0 56))); (mkMatchPair (mkSpan (mkPtok 18 "[" 20 2 57) (mkPtok 40 "," 23 9 65)) (MKList (mkKeyList (mkSpan (mkPtok 18 "[" 20 2 57) (mkPtok 13 "]" 22 16 62)) (mkPtok 18 "[" 20 2 57) (mkPtok 30 "0" 20 4 58) [((mkPtok 40 "," 21 0 60), (mkPtok 31 """// no comment""" 22 0 61))] (mkPtok 13 "]" 22 16 62))) (mkPtok 39 ":" 22 18 63) (mkPtok 42 "Logon" 23 4 64) (Some (mkPtok 40 "," 23 9 65))); (mkMatchPair (mkSpan (mkPtok 18 "[" 23 11 66) (mkPtok 40 "," 29 10 86)) (MKList (mkKeyList (mkSpan (mkPtok 18 "[" 23 11 66) (mkPtok 13 "]" 27 0 82)) (mkPtok 18 "[" 23 11 66) (mkPtok 31 """1""" 23 13 67) [((mkPtok 40 "," 23 16 68), (mkPtok 31 """abc""" 23 18 69)); ((mkPtok 40 "," 24 0 70), (mkPtok 30 "255" 24 2 71)); ((mkPtok 40 "," 24 6 72), (mkPtok 30 "3" 24 8 73)); ((mkPtok 40 "," 24 10 74), (mkPtok 31 """\n""" 24 12 75)); ((mkPtok 40 "," 24 17 76), (mkPtok 30 "255" 24 19 77)); ((mkPtok 40 "," 24 23 78), (mkPtok 31 (string_of_bytes [34; 240; 159; 152; 128; 34]%N) 24 25 79)); ((mkPtok 40 "," 25 4 80), (mkPtok 31 """{,}""" 26 4 81))] (mkPtok 13 "]" 27 0 82))) (mkPtok 39 ":" 28 0 84) (mkPtok 42 "x_y_z" 29 4 85) (Some (mkPtok 40 "," 29 10 86)))] (mkPtok 3 "}" 29 12 87)) (mkPtok 40 "," 30 0 88))); (mkFieldWithAttr (mkSpan (mkPtok 16 "char[]" 31 4 89) (mkPtok 40 "," 33 0 94)) [] (LengthField (mkSpan (mkPtok 16 "char[]" 31 4 89) (mkPtok 40 "," 33 0 94)) (mkLengthFieldDecl (mkSpan (mkPtok 16 "char[]" 31 4 89) (mkPtok 40 "," 33 0 94)) (Some (TyDynamic (mkSpan (mkPtok 16 "char[]" 31 4 89) (mkPtok 16 "char[]" 31 4 89)) (mkDynamicString (mkSpan (mkPtok 16 "char[]" 31 4 89) (mkPtok 16 "char[]" 31 4 89)) (mkPtok 16 "char[]" 31 4 89)))) (mkPtok 42 "len" 31 11 90) (mkLengthOf (mkSpan (mkPtok 7 "@lengthOf(" 32 4 91) (mkPtok 6 ")" 32 18 93)) (mkPtok 7 "@lengthOf(" 32 4 91) (mkPtok 42 "Pad" 32 14 92) (mkPtok 6 ")" 32 18 93)) None (mkPtok 40 "," 33 0 94)))); (mkFieldWithAttr (mkSpan (mkPtok 16 "char[]" 34 0 95) (mkPtok 40 "," 35 11 97)) [] (MetaField (mkSpan (mkPtok 16 "char[]" 34 0 95) (mkPtok 40 "," 35 11 97)) None (mkMetaDecl (mkSpan (mkPtok 16 "char[]" 34 0 95) (mkPtok 40 "," 35 11 97)) (TyDynamic (mkSpan (mkPtok 16 "char[]" 34 0 95) (mkPtok 16 "char[]" 34 0 95)) (mkDynamicString (mkSpan (mkPtok 16 "char[]" 34 0 95) (mkPtok 16 "char[]" 34 0 95)) (mkPtok 16 "char[]" 34 0 95))) (mkPtok 42 "BodyLength" 35 0 96) None (mkPtok 40 "," 35 11 97)))); (mkFieldWithAttr (mkSpan (mkPtok 42 "trueish" 35 12 98) (mkPtok 40 "," 35 45 103)) [] (CheckSumField (mkSpan (mkPtok 42 "trueish" 35 12 98) (mkPtok 40 "," 35 45 103)) (mkChecksumFieldDecl (mkSpan (mkPtok 42 "trueish" 35 12 98) (mkPtok 40 "," 35 45 103)) None (mkPtok 42 "trueish" 35 12 98) (mkCalculatedFrom (mkSpan (mkPtok 5 "@calculatedFrom(" 35 20 99) (mkPtok 6 ")" 35 40 101)) (mkPtok 5 "@calculatedFrom(" 35 20 99) (mkPtok 31 """1""" 35 36 100) (mkPtok 6 ")" 35 40 101)) (Some (mkPtok 43 (string_of_bytes [96; 195; 169; 96]%N) 35 41 102)) (mkPtok 40 "," 35 45 103)))); (mkFieldWithAttr (mkSpan (mkPtok 38 "match" 35 47 104) (mkPtok 40 "," 37 20 114)) [] (MatchField (mkSpan (mkPtok 38 "match" 35 47 104) (mkPtok 40 "," 37 20 114)) (mkMatchFieldDecl (mkSpan (mkPtok 38 "match" 35 47 104) (mkPtok 3 "}" 37 18 113)) (mkPtok 38 "match" 35 47 104) (mkPtok 42 "chars" 36 0 105) (mkPtok 17 "as" 36 6 106) (mkPtok 42 "x_y_z" 36 9 107) (mkPtok 2 "{" 36 14 108) [(mkMatchPair (mkSpan (mkPtok 31 """`tick`""" 36 16 109) (mkPtok 40 "," 37 16 112)) (MKString (mkPtok 31 """`tick`""" 36 16 109)) (mkPtok 39 ":" 37 0 110) (mkPtok 42 "calculatedFrom" 37 1 111) (Some (mkPtok 40 "," 37 16 112)))] (mkPtok 3 "}" 37 18 113)) (mkPtok 40 "," 37 20 114))); (mkFieldWithAttr (mkSpan (mkPtok 7 "@lengthOf(" 37 22 115) (mkPtok 40 "," 38 11 122)) [(FALengthOf (mkSpan (mkPtok 7 "@lengthOf(" 37 22 115) (mkPtok 6 ")" 37 41 117)) (mkLengthOf (mkSpan (mkPtok 7 "@lengthOf(" 37 22 115) (mkPtok 6 ")" 37 41 117)) (mkPtok 7 "@lengthOf(" 37 22 115) (mkPtok 42 "string_" 37 33 116) (mkPtok 6 ")" 37 41 117)))] (MetaField (mkSpan (mkPtok 12 "char[" 37 43 118) (mkPtok 40 "," 38 11 122)) None (mkMetaDecl (mkSpan (mkPtok 12 "char[" 37 43 118) (mkPtok 40 "," 38 11 122)) (TyFixed (mkSpan (mkPtok 12 "char[" 37 43 118) (mkPtok 13 "]" 38 6 120)) (mkFixedString (mkSpan (mkPtok 12 "char[" 37 43 118) (mkPtok 13 "]" 38 6 120)) (mkPtok 12 "char[" 37 43 118) (mkPtok 30 "3" 38 4 119) (mkPtok 13 "]" 38 6 120))) (mkPtok 42 "f32a" 38 7 121) None (mkPtok 40 "," 38 11 122)))); (mkFieldWithAttr (mkSpan (mkPtok 42 "falsey" 38 12 123) (mkPtok 40 "," 38 26 125)) [] (ObjectField (mkSpan (mkPtok 42 "falsey" 38 12 123) (mkPtok 40 "," 38 26 125)) None (mkPtok 42 "falsey" 38 12 123) None (Some (mkPtok 43 (string_of_bytes [96; 230; 182; 136; 230; 129; 175; 231; 177; 187; 229; 158; 139; 96]%N) 38 19 124)) (mkPtok 40 "," 38 26 125))); (mkFieldWithAttr (mkSpan (mkPtok 36 "repeat" 39 0 126) (mkPtok 40 "," 40 15 131)) [] (MetaField (mkSpan (mkPtok 36 "repeat" 39 0 126) (mkPtok 40 "," 40 15 131)) (Some (mkPtok 36 "repeat" 39 0 126)) (mkMetaDecl (mkSpan (mkPtok 27 "int64" 39 7 127) (mkPtok 40 "," 40 15 131)) (TyBasic (mkSpan (mkPtok 27 "int64" 39 7 127) (mkPtok 27 "int64" 39 7 127)) (mkBasicType (mkSpan (mkPtok 27 "int64" 39 7 127) (mkPtok 27 "int64" 39 7 127)) (mkPtok 27 "int64" 39 7 127))) (mkPtok 42 "u128" 40 0 129) (Some (mkPtok 43 (string_of_bytes [96; 116; 97; 98; 9; 104; 101; 114; 101; 96]%N) 40 5 130)) (mkPtok 40 "," 40 15 131)))); (mkFieldWithAttr (mkSpan (mkPtok 20 "uint8" 40 17 132) (mkPtok 40 "," 41 7 138)) [] (CheckSumField (mkSpan (mkPtok 20 "uint8" 40 17 132) (mkPtok 40 "," 41 7 138)) (mkChecksumFieldDecl (mkSpan (mkPtok 20 "uint8" 40 17 132) (mkPtok 40 "," 41 7 138)) (Some (TyBasic (mkSpan (mkPtok 20 "uint8" 40 17 132) (mkPtok 20 "uint8" 40 17 132)) (mkBasicType (mkSpan (mkPtok 20 "uint8" 40 17 132) (mkPtok 20 "uint8" 40 17 132)) (mkPtok 20 "uint8" 40 17 132)))) (mkPtok 42 "msg_type" 40 23 133) (mkCalculatedFrom (mkSpan (mkPtok 5 "@calculatedFrom(" 40 32 134) (mkPtok 6 ")" 40 55 136)) (mkPtok 5 "@calculatedFrom(" 40 32 134) (mkPtok 31 """a\\""" 40 49 135) (mkPtok 6 ")" 40 55 136)) (Some (mkPtok 43 (string_of_bytes [96; 108; 105; 110; 101; 49; 10; 108; 105; 110; 101; 50; 96]%N) 40 58 137)) (mkPtok 40 "," 41 7 138))))] (mkPtok 3 "}" 41 9 139))); (DOption (mkOptionDef (mkSpan (mkPtok 1 "options" 41 11 140) (mkPtok 3 "}" 44 37 154)) (mkPtok 1 "options" 41 11 140) (mkPtok 2 "{" 42 0 141) [(mkOptionDecl (mkSpan (mkPtok 42 "body" 43 4 142) (mkPtok 41 ";" 44 2 147)) (mkPtok 42 "body" 43 4 142) (mkPtok 4 "=" 43 9 143) (VType (mkSpan (mkPtok 14 "zchar[" 43 10 144) (mkPtok 13 "]" 44 0 146)) (TyFixed (mkSpan (mkPtok 14 "zchar[" 43 10 144) (mkPtok 13 "]" 44 0 146)) (mkFixedString (mkSpan (mkPtok 14 "zchar[" 43 10 144) (mkPtok 13 "]" 44 0 146)) (mkPtok 14 "zchar[" 43 10 144) (mkPtok 30 "4294967296" 43 17 145) (mkPtok 13 "]" 44 0 146)))) (Some (mkPtok 41 ";" 44 2 147))); (mkOptionDecl (mkSpan (mkPtok 42 "u128" 44 3 148) (mkPtok 33 "'\x00'" 44 10 150)) (mkPtok 42 "u128" 44 3 148) (mkPtok 4 "=" 44 8 149) (VPaddingChar (mkSpan (mkPtok 33 "'\x00'" 44 10 150) (mkPtok 33 "'\x00'" 44 10 150)) (mkPtok 33 "'\x00'" 44 10 150)) None); (mkOptionDecl (mkSpan (mkPtok 42 "BodyLength" 44 17 151) (mkPtok 28 "float32" 44 29 153)) (mkPtok 42 "BodyLength" 44 17 151) (mkPtok 4 "=" 44 27 152) (VType (mkSpan (mkPtok 28 "float32" 44 29 153) (mkPtok 28 "float32" 44 29 153)) (TyBasic (mkSpan (mkPtok 28 "float32" 44 29 153) (mkPtok 28 "float32" 44 29 153)) (mkBasicType (mkSpan (mkPtok 28 "float32" 44 29 153) (mkPtok 28 "float32" 44 29 153)) (mkPtok 28 "float32" 44 29 153)))) None)] (mkPtok 3 "}" 44 37 154)))])).
Eval vm_compute in ("<<<M507>>>" ++ check (runes_of_ascii "
")).
Eval vm_compute in ("<<<M539>>>" ++ check (runes_of_ascii "MetaData metadata { //	t
uint8x pack , a1
f32a , zchar a1 , rootA Header ,
    char[  42
    ]	string_,
    asx charz `crlf
line`
    // @lengthOf(
    , } options /// triple
{
    } 	 ")).
Eval vm_compute in ("<<<M571>>>" ++ check (runes_of_ascii "packet _x	{ }
")).
Eval vm_compute in ("<<<M603>>>" ++ check (runes_of_ascii "
packet T {
@leftPad ( )
@calculatedFrom(""" ++ [233]%N ++ runes_of_ascii "t" ++ [233]%N ++ runes_of_ascii """ ) msg_type // trailing space 
@lengthOf( i8i8
)`a\`
    ,
// `tick` ""quote"" 'q'
// " ++ [128512]%N ++ runes_of_ascii " emoji
}")).
Eval vm_compute in ("<<<M635>>>" ++ check (runes_of_ascii "root packet matchKey // trailing space 
{ // a // b
u8 roots `two words` , // " ++ [27880; 37322]%N ++ runes_of_ascii "
} //	t
root packet float {	@rightPad ( '0') i8i8
    , packetx @calculatedFrom( ""a\\""
) ,float32
    trueish
    `
`  ,
    @calculatedFrom(
""x y"" // c
)
    @lengthOf( //
o
// c
/// triple
) @lengthOf( uint8x ) i16 Logon
    , @leftPad (
    ' ' ) @lengthOf(
zchar	)
@lengthOf(
    x_y_z )
o
matchKey
    `" ++ [233]%N ++ runes_of_ascii "` ,
    match u8x	as Z9_  { ""a\""b"":// " ++ [27880; 37322]%N ++ runes_of_ascii "
_x , } , crc
BodyLength `it's` ,}
//
")).
Eval vm_compute in ("<<<M667>>>" ++ check (runes_of_ascii "packet x_y_z {
@lengthOf(
roots
) u32  Pad `{ , }` ,
    // packet A { u8 x, }
    repeat body{ repeat
    body roots `line1
line2` , }
    ,
}

")).
Eval vm_compute in ("<<<M699>>>" ++ check (runes_of_ascii "options {Pad = ""a	b""
    ;
//
// `tick` ""quote"" 'q'
u
= '\x00'
;lengthOf
= ' '
    ; }
")).
Eval vm_compute in ("<<<T699>>>" ++ terms [mkTok 1 "options" 1 0 false; mkTok 2 "{" 1 8 false; mkTok 42 "Pad" 1 9 false; mkTok 4 "=" 1 13 false; mkTok 31 (string_of_bytes [34; 97; 9; 98; 34]%N) 1 15 false; mkTok 41 ";" 2 4 false; mkTok 44 "//" 3 0 true; mkTok 44 "// `tick` ""quote"" 'q'" 4 0 true; mkTok 42 "u" 5 0 false; mkTok 4 "=" 6 0 false; mkTok 33 "'\x00'" 6 2 false; mkTok 41 ";" 7 0 false; mkTok 42 "lengthOf" 7 1 false; mkTok 4 "=" 8 0 false; mkTok 33 "' '" 8 2 false; mkTok 41 ";" 9 4 false; mkTok 3 "}" 9 6 false; mkTok 0 "<EOF>" 10 0 false] (mkPacket (mkPtok 1 "options" 1 0 0) (Some (mkPtok 3 "}" 9 6 16)) [(DOption (mkOptionDef (mkSpan (mkPtok 1 "options" 1 0 0) (mkPtok 3 "}" 9 6 16)) (mkPtok 1 "options" 1 0 0) (mkPtok 2 "{" 1 8 1) [(mkOptionDecl (mkSpan (mkPtok 42 "Pad" 1 9 2) (mkPtok 41 ";" 2 4 5)) (mkPtok 42 "Pad" 1 9 2) (mkPtok 4 "=" 1 13 3) (VString (mkSpan (mkPtok 31 (string_of_bytes [34; 97; 9; 98; 34]%N) 1 15 4) (mkPtok 31 (string_of_bytes [34; 97; 9; 98; 34]%N) 1 15 4)) (mkPtok 31 (string_of_bytes [34; 97; 9; 98; 34]%N) 1 15 4)) (Some (mkPtok 41 ";" 2 4 5))); (mkOptionDecl (mkSpan (mkPtok 42 "u" 5 0 8) (mkPtok 41 ";" 7 0 11)) (mkPtok 42 "u" 5 0 8) (mkPtok 4 "=" 6 0 9) (VPaddingChar (mkSpan (mkPtok 33 "'\x00'" 6 2 10) (mkPtok 33 "'\x00'" 6 2 10)) (mkPtok 33 "'\x00'" 6 2 10)) (Some (mkPtok 41 ";" 7 0 11))); (mkOptionDecl (mkSpan (mkPtok 42 "lengthOf" 7 1 12) (mkPtok 41 ";" 9 4 15)) (mkPtok 42 "lengthOf" 7 1 12) (mkPtok 4 "=" 8 0 13) (VPaddingChar (mkSpan (mkPtok 33 "' '" 8 2 14) (mkPtok 33 "' '" 8 2 14)) (mkPtok 33 "' '" 8 2 14)) (Some (mkPtok 41 ";" 9 4 15)))] (mkPtok 3 "}" 9 6 16)))])).
Eval vm_compute in ("<<<M731>>>" ++ check (runes_of_ascii "MetaData
u128
    {string	falsey `u8 x,` // c
,
trueish
roots , } options
    {msg_type =
/// triple
// trailing space 
""" ++ [128512]%N ++ runes_of_ascii """ ; }")).
Eval vm_compute in ("<<<M763>>>" ++ check (runes_of_ascii "  root packet u128 { string
// trailing space 
//	t
Pad  `" ++ [28040; 24687; 31867; 22411]%N ++ runes_of_ascii "`
, @calculatedFrom( ""a\\"")	msg_type, @calculatedFrom( """ ++ [233]%N ++ runes_of_ascii "t" ++ [233]%N ++ runes_of_ascii """ )	match Pad as f32a {	3 :// trailing space 
repeatCount  ,	} , } // c")).
Eval vm_compute in ("<<<M795>>>" ++ check (runes_of_ascii "packet calculatedFrom { match
    Logon as	u128 { [ 1 ,
""// no comment"" ] : u8x ""`tick`"" : Header ,
    ""`tick`"":
    BodyLength ""it's""
// a // b
// packet A { u8 x, }
: zchar
} // " ++ [27880; 37322]%N ++ runes_of_ascii "
, // `tick` ""quote"" 'q'
char metadata @calculatedFrom( ""a\\"" ), }
")).
Eval vm_compute in ("<<<M827>>>" ++ check (runes_of_ascii "

")).
Eval vm_compute in ("<<<M859>>>" ++ check (runes_of_ascii "packet repeatCount
// @lengthOf(
//
{ repeat	Header, char[
42
    ]rootA ``
    ,@lengthOf(
    stringy )repeat int16 leftPad
,repeat // `tick` ""quote"" 'q'
crc
    {
//x
// " ++ [128512]%N ++ runes_of_ascii " emoji
zchar[00  ]body
    @lengthOf( Foo) , repeat Logon { MetaDataX
    @lengthOf(trueish ) , uint8	asx@calculatedFrom( ""\" ++ [233]%N ++ runes_of_ascii """) , metadata {
uint8x @lengthOf( stringy ) ,
    repeat  BodyLength
metadata `say ""hi""` ,}
//x
//
, repeat char[] u, // trailing space 
}
, int16 matchKey ``
, char[]// trailing space 
u8x
@lengthOf(string_ )
    ,	} , // @lengthOf(
match Logon
as	zchar { [""x y"" , 65535// c
,  10 ] : chars [
    ""{,}""
    ,
""a\""b""]
:leftPad ,
    //	t
    65535 : metadata//
,[
    10 , 7 // a // b
, ""// no comment""
    ,// `tick` ""quote"" 'q'
0
    , 65535 , // `tick` ""quote"" 'q'
""abc""
, 7 // " ++ [27880; 37322]%N ++ runes_of_ascii "
,42
    ]  :MetaDataX
},
    repeat int8	packetx `// not a comment` ,// a // b
} packet
    x // a // b
{ u16 roots
,
} options{ int  =  4294967296 u8x = false ; }")).
Eval vm_compute in ("<<<M891>>>" ++ check (runes_of_ascii "  
")).
Eval vm_compute in ("<<<M923>>>" ++ check (runes_of_ascii "MetaData
trueish { o charz `tab	here`	,}  MetaData int {zchar[	4294967296  ] a1 `say ""hi""` ,
}	options { charz
    //	t
    =	'0'  tag	=""abc""}")).
Eval vm_compute in ("<<<T923>>>" ++ terms [mkTok 37 "MetaData" 1 0 false; mkTok 42 "trueish" 2 0 false; mkTok 2 "{" 2 8 false; mkTok 42 "o" 2 10 false; mkTok 42 "charz" 2 12 false; mkTok 43 (string_of_bytes [96; 116; 97; 98; 9; 104; 101; 114; 101; 96]%N) 2 18 false; mkTok 40 "," 2 29 false; mkTok 3 "}" 2 30 false; mkTok 37 "MetaData" 2 33 false; mkTok 42 "int" 2 42 false; mkTok 2 "{" 2 46 false; mkTok 14 "zchar[" 2 47 false; mkTok 30 "4294967296" 2 54 false; mkTok 13 "]" 2 66 false; mkTok 42 "a1" 2 68 false; mkTok 43 "`say ""hi""`" 2 71 false; mkTok 40 "," 2 82 false; mkTok 3 "}" 3 0 false; mkTok 1 "options" 3 2 false; mkTok 2 "{" 3 10 false; mkTok 42 "charz" 3 12 false; mkTok 44 (string_of_bytes [47; 47; 9; 116]%N) 4 4 true; mkTok 4 "=" 5 4 false; mkTok 33 "'0'" 5 6 false; mkTok 42 "tag" 5 11 false; mkTok 4 "=" 5 15 false; mkTok 31 """abc""" 5 16 false; mkTok 3 "}" 5 21 false; mkTok 0 "<EOF>" 5 22 false] (mkPacket (mkPtok 37 "MetaData" 1 0 0) (Some (mkPtok 3 "}" 5 21 27)) [(DMeta (mkMetaDef (mkSpan (mkPtok 37 "MetaData" 1 0 0) (mkPtok 3 "}" 2 30 7)) (mkPtok 37 "MetaData" 1 0 0) (mkPtok 42 "trueish" 2 0 1) (mkPtok 2 "{" 2 8 2) [(MIRef (mkRefMetaDecl (mkSpan (mkPtok 42 "o" 2 10 3) (mkPtok 40 "," 2 29 6)) (mkPtok 42 "o" 2 10 3) (mkPtok 42 "charz" 2 12 4) (Some (mkPtok 43 (string_of_bytes [96; 116; 97; 98; 9; 104; 101; 114; 101; 96]%N) 2 18 5)) (mkPtok 40 "," 2 29 6)))] (mkPtok 3 "}" 2 30 7))); (DMeta (mkMetaDef (mkSpan (mkPtok 37 "MetaData" 2 33 8) (mkPtok 3 "}" 3 0 17)) (mkPtok 37 "MetaData" 2 33 8) (mkPtok 42 "int" 2 42 9) (mkPtok 2 "{" 2 46 10) [(MIDecl (mkMetaDecl (mkSpan (mkPtok 14 "zchar[" 2 47 11) (mkPtok 40 "," 2 82 16)) (TyFixed (mkSpan (mkPtok 14 "zchar[" 2 47 11) (mkPtok 13 "]" 2 66 13)) (mkFixedString (mkSpan (mkPtok 14 "zchar[" 2 47 11) (mkPtok 13 "]" 2 66 13)) (mkPtok 14 "zchar[" 2 47 11) (mkPtok 30 "4294967296" 2 54 12) (mkPtok 13 "]" 2 66 13))) (mkPtok 42 "a1" 2 68 14) (Some (mkPtok 43 "`say ""hi""`" 2 71 15)) (mkPtok 40 "," 2 82 16)))] (mkPtok 3 "}" 3 0 17))); (DOption (mkOptionDef (mkSpan (mkPtok 1 "options" 3 2 18) (mkPtok 3 "}" 5 21 27)) (mkPtok 1 "options" 3 2 18) (mkPtok 2 "{" 3 10 19) [(mkOptionDecl (mkSpan (mkPtok 42 "charz" 3 12 20) (mkPtok 33 "'0'" 5 6 23)) (mkPtok 42 "charz" 3 12 20) (mkPtok 4 "=" 5 4 22) (VPaddingChar (mkSpan (mkPtok 33 "'0'" 5 6 23) (mkPtok 33 "'0'" 5 6 23)) (mkPtok 33 "'0'" 5 6 23)) None); (mkOptionDecl (mkSpan (mkPtok 42 "tag" 5 11 24) (mkPtok 31 """abc""" 5 16 26)) (mkPtok 42 "tag" 5 11 24) (mkPtok 4 "=" 5 15 25) (VString (mkSpan (mkPtok 31 """abc""" 5 16 26) (mkPtok 31 """abc""" 5 16 26)) (mkPtok 31 """abc""" 5 16 26)) None)] (mkPtok 3 "}" 5 21 27)))])).
Eval vm_compute in ("<<<M955>>>" ++ check (runes_of_ascii "
MetaData // " ++ [128512]%N ++ runes_of_ascii " emoji
tag {
char[] float,
lengthOf
    string_
,
    i32
// c
// a // b
Foo , i64
Logon
    `// not a comment` , char[
7]
i8i8
,
// `tick` ""quote"" 'q'
// c
u16 pack, } options
{ Packet=""x y"" u128
    =
7 u= u32 ; } // " ++ [128512]%N ++ runes_of_ascii " emoji
packet
    chars {
    @tag( 0123456789) @calculatedFrom( ""x y"" )
@rightPad (
'0' ) f32 Pad @lengthOf( crc
    // c
    ) ,@tag( // trailing space 
7
) i8
    o @calculatedFrom(
""1""
)
,
    @rightPad ( ' ' ) calculatedFrom {
stringy float, // c
repeat Packet roots
`doc` ,repeat matchKey asx , repeat rootA roots  , } ,
    @tag( 42 )@leftPad
( '\x00' ) /// triple
@calculatedFrom(""a	b"" )
string
    o @lengthOf( roots )	, // " ++ [128512]%N ++ runes_of_ascii " emoji
}
")).
Eval vm_compute in ("<<<M987>>>" ++ check (runes_of_ascii "packet
/// triple
/// triple
As
{ }
MetaData charz{
i64 falsey ,A msg_type, char[ 3 ]
trueish `say ""hi""` ,float32 calculatedFrom
    ,
string i8i8, }
")).
Eval vm_compute in ("<<<M1019>>>" ++ check (runes_of_ascii "options { o // c
= ""it's""; }
/// triple
/// triple
packet calculatedFrom { int32 Header @calculatedFrom( ""x y""
)
    `" ++ [28040; 24687; 31867; 22411]%N ++ runes_of_ascii "`	,
    @tag( // a // b
0 ) @lengthOf( f32a // " ++ [128512]%N ++ runes_of_ascii " emoji
)match i64_ as T
    // " ++ [27880; 37322]%N ++ runes_of_ascii "
    { 255
    :
Foo 1
: T
,
    ""a	b"":  Header , 1 : x, } , } root packet options1 {
@leftPad ( // a // b
' ' )
    match
uint8x as lengthOf  { ""`tick`""
    // c
    :
x_y_z ,
} , @calculatedFrom( ""a\""b""
)repeat
// trailing space 
// " ++ [27880; 37322]%N ++ runes_of_ascii "
body`
`  ,
char[ 10 ] float
    // c
    ,match
stringy as repeatCount {[
42
// c
/// triple
, ""`tick`""
    ]:
    float , //	t
""abc"": matchKey
, // a // b
7
    :	As
    255
: pack
,
""{,}"" : len
,
3
:	metadata	, } ,char[3 ] trueish @calculatedFrom(
""CRC32""
    )
,
    repeat charz { match Pad	as Z9_ { ""packet"" : f32a , ""{,}""
: f32a 7 : _x ,  00 :repeatCount , 4294967296 : asx , ""CRC32""
    : u128//x
} ,
    char[ 42 ] //	t
crc `two words` ,
// @lengthOf(
//	t
repeat Foo // @lengthOf(
`doc` // a // b
,} , } options // `tick` ""quote"" 'q'
{ falsey =
    false ;// trailing space 
Header
=true ; // `tick` ""quote"" 'q'
packetx = u64
    ; calculatedFrom
//
// a // b
= ""\n"";
    } packet
    body {@tag( 42  ) repeat
i16
    u128`// not a comment`
    ,@tag( 0 )@tag(  0123456789 ) @calculatedFrom( ""\n""	)
zchar[ 255 ] x_y_z @lengthOf( stringy	) ,
f32a @lengthOf(
Logon
    )
,  repeat zchar[ 10] _x , float64 charz
`` ,
Pad
@lengthOf(
    u ) , body ``, }
")).
Eval vm_compute in ("<<<M1051>>>" ++ check (runes_of_ascii "// trailing space 
packet/// triple
Foo
{ zchar[ 255 ]body	,
}
")).
Eval vm_compute in ("<<<M1083>>>" ++ check (runes_of_ascii "root
packet calculatedFrom { repeat string charz,@calculatedFrom( """ ++ [233]%N ++ runes_of_ascii "t" ++ [233]%N ++ runes_of_ascii """
)
Foo @lengthOf(
    tag ) `a\`,match
_x  as
    As // c
{""{,}"" :f32a,	} ,}
    MetaData body { leftPad asx , u Pad //x
`
` , zchar[3]
leftPad ,
metadata chars ,	}
")).
Eval vm_compute in ("<<<M1115>>>" ++ check (runes_of_ascii "MetaData  lengthOf
{
}	root packet //x
falsey
// " ++ [128512]%N ++ runes_of_ascii " emoji
//x
{ Pad // a // b
{
zchar[ 1
] Z9_ , msg_type
    x_y_z , match u8x as trueish {
    """ ++ [28040; 24687]%N ++ runes_of_ascii """
:	asx,} , }	, // `tick` ""quote"" 'q'
@lengthOf( rootA ) match zchar as int{
""`tick`"" :
    len , ""{,}"" : MetaDataX ,}	,
i64 rootA
    //x
    `" ++ [28040; 24687; 31867; 22411]%N ++ runes_of_ascii "` ,
@calculatedFrom( ""it's"" )repeat
    /// triple
    metadata
    ,
    T @lengthOf( u128 ) , uint64 Pad , // " ++ [27880; 37322]%N ++ runes_of_ascii "
falsey x ,	int16	leftPad
    , //	t
falsey  @lengthOf( matchKey), zchar[ 255 ] u128`u8 x,` ,
}")).
Eval vm_compute in ("<<<M1147>>>" ++ check (runes_of_ascii "MetaData
f32a {	A x , }")).
Eval vm_compute in ("<<<T1147>>>" ++ terms [mkTok 37 "MetaData" 1 0 false; mkTok 42 "f32a" 2 0 false; mkTok 2 "{" 2 5 false; mkTok 42 "A" 2 7 false; mkTok 42 "x" 2 9 false; mkTok 40 "," 2 11 false; mkTok 3 "}" 2 13 false; mkTok 0 "<EOF>" 2 14 false] (mkPacket (mkPtok 37 "MetaData" 1 0 0) (Some (mkPtok 3 "}" 2 13 6)) [(DMeta (mkMetaDef (mkSpan (mkPtok 37 "MetaData" 1 0 0) (mkPtok 3 "}" 2 13 6)) (mkPtok 37 "MetaData" 1 0 0) (mkPtok 42 "f32a" 2 0 1) (mkPtok 2 "{" 2 5 2) [(MIRef (mkRefMetaDecl (mkSpan (mkPtok 42 "A" 2 7 3) (mkPtok 40 "," 2 11 5)) (mkPtok 42 "A" 2 7 3) (mkPtok 42 "x" 2 9 4) None (mkPtok 40 "," 2 11 5)))] (mkPtok 3 "}" 2 13 6)))])).
Eval vm_compute in ("<<<M1179>>>" ++ check (runes_of_ascii "options { }
options { }
")).
Eval vm_compute in ("<<<M1211>>>" ++ check (runes_of_ascii "root packet a1 {u8x{ char[ // trailing space 
10] tag
`` , } // " ++ [128512]%N ++ runes_of_ascii " emoji
, } packet packetx { string crc	@calculatedFrom(""abc""	), @lengthOf( Packet ) repeat u32
rootA , // @lengthOf(
}
")).
Eval vm_compute in ("<<<M1243>>>" ++ check (runes_of_ascii "
packet
    int{ repeat  o
    `say ""hi""` ,
    // " ++ [128512]%N ++ runes_of_ascii " emoji
    @leftPad ( '\x00' )T
    `// not a comment`,
@tag(
    007 // trailing space 
) repeat uint8x { zchar[	7 ] a1 ,char[] msg_type @lengthOf( calculatedFrom
)
`two words`
,
string_	A // packet A { u8 x, }
,
// " ++ [128512]%N ++ runes_of_ascii " emoji
// " ++ [27880; 37322]%N ++ runes_of_ascii "
} , repeat// " ++ [27880; 37322]%N ++ runes_of_ascii "
char falsey
, repeat /// triple
zchar[
    0123456789 ] repeatCount ,match trueish as As{
[// " ++ [128512]%N ++ runes_of_ascii " emoji
""a\\"", """ ++ [233]%N ++ runes_of_ascii "t" ++ [233]%N ++ runes_of_ascii """
    ,  """ ++ [28040; 24687]%N ++ runes_of_ascii """ ,
    // trailing space 
    7 , """ ++ [233]%N ++ runes_of_ascii "t" ++ [233]%N ++ runes_of_ascii """, """ ++ [28040; 24687]%N ++ runes_of_ascii """ ] :
    int ,0123456789 :
A ,
[00 , """ ++ [128512]%N ++ runes_of_ascii """
    ] :  Header
, // packet A { u8 x, }
""a\\"" : u, } , } packet
// c
// @lengthOf(
body
    {
    float32 Header `doc` ,roots // `tick` ""quote"" 'q'
@calculatedFrom( """" )
,
int32 metadata ,// `tick` ""quote"" 'q'
}
options
    { repeatCount =
    ""abc"" ; } 	 ")).
Eval vm_compute in ("<<<M1275>>>" ++ check (runes_of_ascii " //	t")).
Eval vm_compute in ("<<<M1307>>>" ++ check (runes_of_ascii "options { rootA = false ; }MetaData /// triple
float { u16 falsey ``
,  char[ 1 ]
options1 , uint32 stringy `` , f32
leftPad  `it's`	,
    /// triple
    x repeatCount ,asx
    repeatCount
`{ , }` ,
    }  packet
    rootA { @tag(
    7 ) len string_ , } packet As
{@leftPad ( ' '
    // " ++ [128512]%N ++ runes_of_ascii " emoji
    ) repeat chars { f32 leftPad @lengthOf( Packet ) `a\` ,
    int32
    //x
    T `tab	here`	, match string_ as len { 65535
: rootA ,} , A { falsey @calculatedFrom(
    ""CRC32"" ) ,
    uint8x
,
zchar ,} , } , }
")).
Eval vm_compute in ("<<<M1339>>>" ++ check (runes_of_ascii "packet Header{ @rightPad
    (
    '0' )
char[] x_y_z, Header {	repeat zchar[ 00 ] leftPad ,
    repeat
f64 // a // b
float `a\`  , match o	as pack{ ""1"":
    asx ,65535
: x// `tick` ""quote"" 'q'
, 65535// @lengthOf(
: i8i8
, [//
""" ++ [28040; 24687]%N ++ runes_of_ascii """]: matchKey } ,
    repeat A , } ,
    char[ 3]trueish, @calculatedFrom( """ ++ [128512]%N ++ runes_of_ascii """  )
    f32a , } packet uint8x
{
//
//x
chars@lengthOf(  Logon
) , @leftPad
    (' ' )repeat zchar[
1 ]	_x `// not a comment` ,	char[]
body``
,uint32 leftPad `line1
line2`,
repeat x_y_z { u8x msg_type // `tick` ""quote"" 'q'
,
} , @tag( 0 ) int16 i8i8 `tab	here`
, repeat Pad `doc` ,
repeat
// packet A { u8 x, }
//
u ,
    u8x
@calculatedFrom(  ""x y"" )
`two words` , }
")).
Eval vm_compute in ("<<<M1371>>>" ++ check (runes_of_ascii "
")).
Eval vm_compute in ("<<<T1371>>>" ++ terms [mkTok 0 "<EOF>" 2 0 false] (mkPacket (mkPtok 0 "<EOF>" 2 0 0) None [])).
Eval vm_compute in ("<<<M1403>>>" ++ check (runes_of_ascii "
/// triple
")).
Eval vm_compute in ("<<<M1435>>>" ++ check (runes_of_ascii "options { matchKey	='\x00';	}")).
Eval vm_compute in ("<<<M1467>>>" ++ check (runes_of_ascii "packet
trueish	{ uint16 chars , }
")).
Eval vm_compute in ("<<<M1499>>>" ++ check (runes_of_ascii "// trailing space 
MetaData body { int32
    MetaDataX
, As x ,}")).
Eval vm_compute in ("<<<M1531>>>" ++ check (runes_of_ascii "options { Header  = //x
""it's""	;As
=true
; asx=i64
;	}packet o { @tag( 00  ) char[] leftPad `it's` ,	char[ 3 ] T ,
    } root  packet leftPad{repeat
zchar[ 0
    ]trueish
    , f64 x_y_z
    /// triple
    @lengthOf(x ) , @lengthOf(  msg_type )rootA @calculatedFrom( ""a\\""
) , @lengthOf( leftPad) zchar[
    7
    //x
    ]  crc @lengthOf( //	t
u ) `doc`,
}
")).
Eval vm_compute in ("<<<M1563>>>" ++ check (runes_of_ascii "options{ BodyLength
= """ ++ [128512]%N ++ runes_of_ascii """ ; /// triple
} // " ++ [128512]%N ++ runes_of_ascii " emoji")).
Eval vm_compute in ("<<<M1595>>>" ++ check (runes_of_ascii "packet body// `tick` ""quote"" 'q'
{ @lengthOf(
rootA ) repeat calculatedFrom u// a // b
, int8 // trailing space 
T	,
string Foo
    ,
    zchar[
    00] msg_type
`// not a comment`
    // c
    , @lengthOf( tag ) @rightPad
() @tag( 0 )  char[] stringy @lengthOf(
Z9_) `say ""hi""`	, metadata
    // " ++ [128512]%N ++ runes_of_ascii " emoji
    `{ , }`, }
")).
Eval vm_compute in ("<<<T1595>>>" ++ terms [mkTok 35 "packet" 1 0 false; mkTok 42 "body" 1 7 false; mkTok 44 "// `tick` ""quote"" 'q'" 1 11 true; mkTok 2 "{" 2 0 false; mkTok 7 "@lengthOf(" 2 2 false; mkTok 42 "rootA" 3 0 false; mkTok 6 ")" 3 6 false; mkTok 36 "repeat" 3 8 false; mkTok 42 "calculatedFrom" 3 15 false; mkTok 42 "u" 3 30 false; mkTok 44 "// a // b" 3 31 true; mkTok 40 "," 4 0 false; mkTok 24 "int8" 4 2 false; mkTok 44 "// trailing space " 4 7 true; mkTok 42 "T" 5 0 false; mkTok 40 "," 5 2 false; mkTok 15 "string" 6 0 false; mkTok 42 "Foo" 6 7 false; mkTok 40 "," 7 4 false; mkTok 14 "zchar[" 8 4 false; mkTok 30 "00" 9 4 false; mkTok 13 "]" 9 6 false; mkTok 42 "msg_type" 9 8 false; mkTok 43 "`// not a comment`" 10 0 false; mkTok 44 "// c" 11 4 true; mkTok 40 "," 12 4 false; mkTok 7 "@lengthOf(" 12 6 false; mkTok 42 "tag" 12 17 false; mkTok 6 ")" 12 21 false; mkTok 32 "@rightPad" 12 23 false; mkTok 8 "(" 13 0 false; mkTok 6 ")" 13 1 false; mkTok 9 "@tag(" 13 3 false; mkTok 30 "0" 13 9 false; mkTok 6 ")" 13 11 false; mkTok 16 "char[]" 13 14 false; mkTok 42 "stringy" 13 21 false; mkTok 7 "@lengthOf(" 13 29 false; mkTok 42 "Z9_" 14 0 false; mkTok 6 ")" 14 3 false; mkTok 43 "`say ""hi""`" 14 5 false; mkTok 40 "," 14 16 false; mkTok 42 "metadata" 14 18 false; mkTok 44 (string_of_bytes [47; 47; 32; 240; 159; 152; 128; 32; 101; 109; 111; 106; 105]%N) 15 4 true; mkTok 43 "`{ , }`" 16 4 false; mkTok 40 "," 16 11 false; mkTok 3 "}" 16 13 false; mkTok 0 "<EOF>" 17 0 false] (mkPacket (mkPtok 35 "packet" 1 0 0) (Some (mkPtok 3 "}" 16 13 46)) [(DPacket (mkPacketDef (mkSpan (mkPtok 35 "packet" 1 0 0) (mkPtok 3 "}" 16 13 46)) None (mkPtok 35 "packet" 1 0 0) (mkPtok 42 "body" 1 7 1) (mkPtok 2 "{" 2 0 3) [(mkFieldWithAttr (mkSpan (mkPtok 7 "@lengthOf(" 2 2 4) (mkPtok 40 "," 4 0 11)) [(FALengthOf (mkSpan (mkPtok 7 "@lengthOf(" 2 2 4) (mkPtok 6 ")" 3 6 6)) (mkLengthOf (mkSpan (mkPtok 7 "@lengthOf(" 2 2 4) (mkPtok 6 ")" 3 6 6)) (mkPtok 7 "@lengthOf(" 2 2 4) (mkPtok 42 "rootA" 3 0 5) (mkPtok 6 ")" 3 6 6)))] (ObjectField (mkSpan (mkPtok 36 "repeat" 3 8 7) (mkPtok 40 "," 4 0 11)) (Some (mkPtok 36 "repeat" 3 8 7)) (mkPtok 42 "calculatedFrom" 3 15 8) (Some (mkPtok 42 "u" 3 30 9)) None (mkPtok 40 "," 4 0 11))); (mkFieldWithAttr (mkSpan (mkPtok 24 "int8" 4 2 12) (mkPtok 40 "," 5 2 15)) [] (MetaField (mkSpan (mkPtok 24 "int8" 4 2 12) (mkPtok 40 "," 5 2 15)) None (mkMetaDecl (mkSpan (mkPtok 24 "int8" 4 2 12) (mkPtok 40 "," 5 2 15)) (TyBasic (mkSpan (mkPtok 24 "int8" 4 2 12) (mkPtok 24 "int8" 4 2 12)) (mkBasicType (mkSpan (mkPtok 24 "int8" 4 2 12) (mkPtok 24 "int8" 4 2 12)) (mkPtok 24 "int8" 4 2 12))) (mkPtok 42 "T" 5 0 14) None (mkPtok 40 "," 5 2 15)))); (mkFieldWithAttr (mkSpan (mkPtok 15 "string" 6 0 16) (mkPtok 40 "," 7 4 18)) [] (MetaField (mkSpan (mkPtok 15 "string" 6 0 16) (mkPtok 40 "," 7 4 18)) None (mkMetaDecl (mkSpan (mkPtok 15 "string" 6 0 16) (mkPtok 40 "," 7 4 18)) (TyDynamic (mkSpan (mkPtok 15 "string" 6 0 16) (mkPtok 15 "string" 6 0 16)) (mkDynamicString (mkSpan (mkPtok 15 "string" 6 0 16) (mkPtok 15 "string" 6 0 16)) (mkPtok 15 "string" 6 0 16))) (mkPtok 42 "Foo" 6 7 17) None (mkPtok 40 "," 7 4 18)))); (mkFieldWithAttr (mkSpan (mkPtok 14 "zchar[" 8 4 19) (mkPtok 40 "," 12 4 25)) [] (MetaField (mkSpan (mkPtok 14 "zchar[" 8 4 19) (mkPtok 40 "," 12 4 25)) None (mkMetaDecl (mkSpan (mkPtok 14 "zchar[" 8 4 19) (mkPtok 40 "," 12 4 25)) (TyFixed (mkSpan (mkPtok 14 "zchar[" 8 4 19) (mkPtok 13 "]" 9 6 21)) (mkFixedString (mkSpan (mkPtok 14 "zchar[" 8 4 19) (mkPtok 13 "]" 9 6 21)) (mkPtok 14 "zchar[" 8 4 19) (mkPtok 30 "00" 9 4 20) (mkPtok 13 "]" 9 6 21))) (mkPtok 42 "msg_type" 9 8 22) (Some (mkPtok 43 "`// not a comment`" 10 0 23)) (mkPtok 40 "," 12 4 25)))); (mkFieldWithAttr (mkSpan (mkPtok 7 "@lengthOf(" 12 6 26) (mkPtok 40 "," 14 16 41)) [(FALengthOf (mkSpan (mkPtok 7 "@lengthOf(" 12 6 26) (mkPtok 6 ")" 12 21 28)) (mkLengthOf (mkSpan (mkPtok 7 "@lengthOf(" 12 6 26) (mkPtok 6 ")" 12 21 28)) (mkPtok 7 "@lengthOf(" 12 6 26) (mkPtok 42 "tag" 12 17 27) (mkPtok 6 ")" 12 21 28))); (FAPadding (mkSpan (mkPtok 32 "@rightPad" 12 23 29) (mkPtok 6 ")" 13 1 31)) (mkPaddingAttr (mkSpan (mkPtok 32 "@rightPad" 12 23 29) (mkPtok 6 ")" 13 1 31)) (mkPtok 32 "@rightPad" 12 23 29) (mkPtok 8 "(" 13 0 30) None (mkPtok 6 ")" 13 1 31))); (FATag (mkSpan (mkPtok 9 "@tag(" 13 3 32) (mkPtok 6 ")" 13 11 34)) (mkTagAttr (mkSpan (mkPtok 9 "@tag(" 13 3 32) (mkPtok 6 ")" 13 11 34)) (mkPtok 9 "@tag(" 13 3 32) (mkPtok 30 "0" 13 9 33) (mkPtok 6 ")" 13 11 34)))] (LengthField (mkSpan (mkPtok 16 "char[]" 13 14 35) (mkPtok 40 "," 14 16 41)) (mkLengthFieldDecl (mkSpan (mkPtok 16 "char[]" 13 14 35) (mkPtok 40 "," 14 16 41)) (Some (TyDynamic (mkSpan (mkPtok 16 "char[]" 13 14 35) (mkPtok 16 "char[]" 13 14 35)) (mkDynamicString (mkSpan (mkPtok 16 "char[]" 13 14 35) (mkPtok 16 "char[]" 13 14 35)) (mkPtok 16 "char[]" 13 14 35)))) (mkPtok 42 "stringy" 13 21 36) (mkLengthOf (mkSpan (mkPtok 7 "@lengthOf(" 13 29 37) (mkPtok 6 ")" 14 3 39)) (mkPtok 7 "@lengthOf(" 13 29 37) (mkPtok 42 "Z9_" 14 0 38) (mkPtok 6 ")" 14 3 39)) (Some (mkPtok 43 "`say ""hi""`" 14 5 40)) (mkPtok 40 "," 14 16 41)))); (mkFieldWithAttr (mkSpan (mkPtok 42 "metadata" 14 18 42) (mkPtok 40 "," 16 11 45)) [] (ObjectField (mkSpan (mkPtok 42 "metadata" 14 18 42) (mkPtok 40 "," 16 11 45)) None (mkPtok 42 "metadata" 14 18 42) None (Some (mkPtok 43 "`{ , }`" 16 4 44)) (mkPtok 40 "," 16 11 45)))] (mkPtok 3 "}" 16 13 46)))])).
Eval vm_compute in ("<<<M1627>>>" ++ check (runes_of_ascii "MetaData
Pad { float32	lengthOf
    , i8 int,}
")).
Eval vm_compute in ("<<<M1659>>>" ++ check (runes_of_ascii "options {
} root packet Header /// triple
{ match pack
    as BodyLength {65535: matchKey , }
    ,
    matchKey`" ++ [233]%N ++ runes_of_ascii "` // " ++ [128512]%N ++ runes_of_ascii " emoji
,
    }

")).
Eval vm_compute in ("<<<M1691>>>" ++ check (runes_of_ascii "root packet
x_y_z { @calculatedFrom( """ ++ [28040; 24687]%N ++ runes_of_ascii """ ) x_y_z
, }
// packet A { u8 x, }
")).
Eval vm_compute in ("<<<M1723>>>" ++ check (runes_of_ascii "
MetaData
float {uint32  i64_ , x _x , string packetx ,
    char[ 65535 ] // " ++ [128512]%N ++ runes_of_ascii " emoji
Packet `" ++ [233]%N ++ runes_of_ascii "` , asx x , char[ 255 ] u128
,
    }
")).
Eval vm_compute in ("<<<M1755>>>" ++ check (runes_of_ascii "MetaData matchKey // trailing space 
{ u128 asx , } MetaData chars {}
")).
Eval vm_compute in ("<<<M1787>>>" ++ check (runes_of_ascii "packet As {//x
i8i8 @calculatedFrom(
    """ ++ [128512]%N ++ runes_of_ascii """ )//x
, repeat stringy { repeat u64 options1, zchar[
255 ]
    msg_type
    // `tick` ""quote"" 'q'
    `// not a comment`
    , MetaDataX zchar`" ++ [28040; 24687; 31867; 22411]%N ++ runes_of_ascii "`
, i64_ @calculatedFrom( ""// no comment""
)`doc` ,
    }, @tag(10 )charz @lengthOf(leftPad ) , zchar[10] Header @lengthOf(x ) ,
    body { i64 a1
    ,rootA
As ,repeat zchar[
10 ] string_ ``,
} ,
    @lengthOf(
Header ) i64_
,  u8 repeatCount@lengthOf(Packet)
    `doc`
    ,repeat uint32
msg_type ,
repeat
    int16
MetaDataX	, repeat Z9_ {
chars @lengthOf(	body  ) ,  i32 // " ++ [27880; 37322]%N ++ runes_of_ascii "
msg_type ,
u8x falsey
, tag
@calculatedFrom( ""it's"" )
,
} , } options {	i64_
    =
""a\""b""; _x= uint8 // `tick` ""quote"" 'q'
;matchKey = 10 ;
    // " ++ [128512]%N ++ runes_of_ascii " emoji
    }")).
Eval vm_compute in ("<<<M1819>>>" ++ check (runes_of_ascii "root	packet asx
{ char[]
// " ++ [128512]%N ++ runes_of_ascii " emoji
// " ++ [128512]%N ++ runes_of_ascii " emoji
_x	, }")).
Eval vm_compute in ("<<<T1819>>>" ++ terms [mkTok 34 "root" 1 0 false; mkTok 35 "packet" 1 5 false; mkTok 42 "asx" 1 12 false; mkTok 2 "{" 2 0 false; mkTok 16 "char[]" 2 2 false; mkTok 44 (string_of_bytes [47; 47; 32; 240; 159; 152; 128; 32; 101; 109; 111; 106; 105]%N) 3 0 true; mkTok 44 (string_of_bytes [47; 47; 32; 240; 159; 152; 128; 32; 101; 109; 111; 106; 105]%N) 4 0 true; mkTok 42 "_x" 5 0 false; mkTok 40 "," 5 3 false; mkTok 3 "}" 5 5 false; mkTok 0 "<EOF>" 5 6 false] (mkPacket (mkPtok 34 "root" 1 0 0) (Some (mkPtok 3 "}" 5 5 9)) [(DPacket (mkPacketDef (mkSpan (mkPtok 34 "root" 1 0 0) (mkPtok 3 "}" 5 5 9)) (Some (mkPtok 34 "root" 1 0 0)) (mkPtok 35 "packet" 1 5 1) (mkPtok 42 "asx" 1 12 2) (mkPtok 2 "{" 2 0 3) [(mkFieldWithAttr (mkSpan (mkPtok 16 "char[]" 2 2 4) (mkPtok 40 "," 5 3 8)) [] (MetaField (mkSpan (mkPtok 16 "char[]" 2 2 4) (mkPtok 40 "," 5 3 8)) None (mkMetaDecl (mkSpan (mkPtok 16 "char[]" 2 2 4) (mkPtok 40 "," 5 3 8)) (TyDynamic (mkSpan (mkPtok 16 "char[]" 2 2 4) (mkPtok 16 "char[]" 2 2 4)) (mkDynamicString (mkSpan (mkPtok 16 "char[]" 2 2 4) (mkPtok 16 "char[]" 2 2 4)) (mkPtok 16 "char[]" 2 2 4))) (mkPtok 42 "_x" 5 0 7) None (mkPtok 40 "," 5 3 8))))] (mkPtok 3 "}" 5 5 9)))])).
Eval vm_compute in ("<<<M1851>>>" ++ check (runes_of_ascii "packet tag
    { @tag( 007 )
    repeat //	t
float64 calculatedFrom`u8 x,`,@leftPad ('0' ) repeat char[]
    //
    T
`two words`
    , }
")).
Eval vm_compute in ("<<<M1883>>>" ++ check (runes_of_ascii "
packet packetx{}")).
Eval vm_compute in ("<<<M1915>>>" ++ check (runes_of_ascii "/// triple
packet
calculatedFrom {
u32 falsey , stringy@calculatedFrom(
    """ ++ [28040; 24687]%N ++ runes_of_ascii """ ) `doc` // packet A { u8 x, }
,
    calculatedFrom crc`line1
line2` , leftPad , zchar[ 10
] A@calculatedFrom( ""CRC32"" ) `" ++ [28040; 24687; 31867; 22411]%N ++ runes_of_ascii "`
,
    }")).
Eval vm_compute in ("<<<M1947>>>" ++ check (runes_of_ascii "MetaData
Foo {
    charz  charz `say ""hi""`
    ,zchar[ 3 ]  falsey,As Logon
    ,}MetaData
// " ++ [128512]%N ++ runes_of_ascii " emoji
// " ++ [128512]%N ++ runes_of_ascii " emoji
Z9_ //	t
{ }
")).
Eval vm_compute in ("<<<M1979>>>" ++ check (runes_of_ascii "
options//	t
{}
    root packet
pack  {	uint32
chars
    ,@tag( 10 )match leftPad
//x
//
as i8i8 {
[ ""x y"" ] : a1 ,
// " ++ [128512]%N ++ runes_of_ascii " emoji
// trailing space 
[ ""{,}"" ,""\" ++ [233]%N ++ runes_of_ascii """, 0,4294967296,
    // `tick` ""quote"" 'q'
    7
] :float ,
    ""`tick`""
: roots , // trailing space 
007
:
len , }
    , @lengthOf( crc ) repeat
    uint16 body // c
,//
f32a@calculatedFrom( ""1"")`tab	here` ,char[00]
crc
, match
Header as As {
0123456789
    : x,
    }, @lengthOf( falsey // trailing space 
)
@lengthOf(matchKey ) repeat u8
    As, }

")).
Eval vm_compute in ("<<<M2011>>>" ++ check (runes_of_ascii "{options i64_ = string ; trueish =
    '\x00'
    leftPad = ""a\\"" /// triple
; crc
    = 255; uint8x
=
""abc""
    ;}")).
Eval vm_compute in ("<<<M2043>>>" ++ check (runes_of_ascii "options{ i64_ = string ;")).
Eval vm_compute in ("<<<M2075>>>" ++ check (runes_of_ascii "options{ i64_ = string ; trueish =
    '\x00'
    leftPad = ""a\\"" /// triple
; crc crc
    = 255; uint8x
=
""abc""
    ;}")).
Eval vm_compute in ("<<<M2107>>>" ++ check (runes_of_ascii "options{ i64_ = string ; trueish =
    '\x00'
    leftPad = ""a\\"" /// triple
; crc
    = 255; uint8x
=
int32
    ;}")).
Eval vm_compute in ("<<<M2139>>>" ++ check (runes_of_ascii "options{ i64_ = string ; x" ++ [178]%N ++ runes_of_ascii " =
    '\x00'
    leftPad = ""a\\"" /// triple
; crc
    = 255; uint8x
=
""abc""
    ;}")).
Eval vm_compute in ("<<<M2171>>>" ++ check (runes_of_ascii "  packet
asx
{
/// triple
// @lengthOf(
u32 stringy
`" ++ [28040; 24687; 31867; 22411]%N ++ runes_of_ascii "` , ,} MetaData
    A {string  _x, zchar Header `a\`
// @lengthOf(
// packet A { u8 x, }
, char[] MetaDataX
,zchar[ 1 ]
    matchKey
    , char[] //
u,	char[0123456789 ]
    matchKey
    `{ , }`, }
")).
Eval vm_compute in ("<<<M2203>>>" ++ check (runes_of_ascii "  packet
asx
{
/// triple
// @lengthOf(
u32 stringy
`" ++ [28040; 24687; 31867; 22411]%N ++ runes_of_ascii "` ,} MetaData
    A {string  float64, zchar Header `a\`
// @lengthOf(
// packet A { u8 x, }
, char[] MetaDataX
,zchar[ 1 ]
    matchKey
    , char[] //
u,	char[0123456789 ]
    matchKey
    `{ , }`, }
")).
Eval vm_compute in ("<<<M2235>>>" ++ check (runes_of_ascii "  packet
asx
{
/// triple
// @lengthOf(
u32 stringy
`" ++ [28040; 24687; 31867; 22411]%N ++ runes_of_ascii "` ,} MetaData
    A {string  _x, zchar Header `a\`
// @lengthOf(
// packet A { u8 x, }
, char[] 
,zchar[ 1 ]
    matchKey
    , char[] //
u,	char[0123456789 ]
    matchKey
    `{ , }`, }
")).
Eval vm_compute in ("<<<M2267>>>" ++ check (runes_of_ascii "  packet
asx
{
/// triple
// @lengthOf(
u32 stringy
`" ++ [28040; 24687; 31867; 22411]%N ++ runes_of_ascii "` ,} MetaData
    A {string  _x, zchar Header `a\`
// @lengthOf(
// packet A { u8 x, }
, char[] MetaDataX
,zchar[ 1 ]
    matchKey
    char[] , //
u,	char[0123456789 ]
    matchKey
    `{ , }`, }
")).
Eval vm_compute in ("<<<M2299>>>" ++ check (runes_of_ascii "  packet
asx
{
/// triple
// @lengthOf(
u32 stringy
`" ++ [28040; 24687; 31867; 22411]%N ++ runes_of_ascii "` ,} MetaData
    A {string  _x, zchar Header `a\`
// @lengthOf(
// packet A { u8 x, }
, char[] MetaDataX
,zchar[ 1 ]
    matchKey
    , char[] //
u,	char[0123456789")).
Eval vm_compute in ("<<<M2331>>>" ++ check (runes_of_ascii "  packet
asx
{
/// triple
// @le'1'ngthOf(
u32 stringy
`" ++ [28040; 24687; 31867; 22411]%N ++ runes_of_ascii "` ,} MetaData
    A {string  _x, zchar Header `a\`
// @lengthOf(
// packet A { u8 x, }
, char[] MetaDataX
,zchar[ 1 ]
    matchKey
    , char[] //
u,	char[0123456789 ]
    matchKey
    `{ , }`, }
")).
Eval vm_compute in ("<<<M2363>>>" ++ check (runes_of_ascii "root
    packet
Packet
{ // trailing space 
`tab	here` matchKey ,}")).
Eval vm_compute in ("<<<M2395>>>" ++ check (runes_of_ascii "root
    packet
Packet
{ // trailing space 
" ++ [127]%N ++ runes_of_ascii " matchKey `tab	here` ,}")).
Eval vm_compute in ("<<<M2427>>>" ++ check (runes_of_ascii "options{ falsey // a // b
=
    '0'  options { repeatCount =
true ; string_// a // b
=
// c
// " ++ [27880; 37322]%N ++ runes_of_ascii "
int64
// trailing space 
/// triple
; } // @lengthOf(")).
Eval vm_compute in ("<<<M2459>>>" ++ check (runes_of_ascii "options{ falsey // a // b
=
    '0' } options { repeatCount =
true string_ ;// a // b
=
// c
// " ++ [27880; 37322]%N ++ runes_of_ascii "
int64
// trailing space 
/// triple
; } // @lengthOf(")).
Eval vm_compute in ("<<<M2491>>>" ++ check (runes_of_ascii "options{ falsey // a // b
=
    '0' } options { repeatCount =
true ; string_// a // b
=
// c
// " ++ [27880; 37322]%N ++ runes_of_ascii "
int64
// trailing space 
/// triple
; %} // @lengthOf(")).
Eval vm_compute in ("<<<M2523>>>" ++ check (runes_of_ascii "options{} packet
metadata {
@lengthOf(x ) float32
body ``, }
    MetaData
Z9_
    {
    string string_ , Logon x
,
uint32
    // packet A { u8 x, }
    Z9_,asx
_x
    `tab	here` , }
")).
Eval vm_compute in ("<<<M2555>>>" ++ check (runes_of_ascii "options{}root packet
metadata {
@lengthOf(x float32 )
body ``, }
    MetaData
Z9_
    {
    string string_ , Logon x
,
uint32
    // packet A { u8 x, }
    Z9_,asx
_x
    `tab	here` , }
")).
Eval vm_compute in ("<<<M2587>>>" ++ check (runes_of_ascii "options{}root packet
metadata {
@lengthOf(x ) float32
body ``, }")).
Eval vm_compute in ("<<<T2587>>>" ++ terms [mkTok 1 "options" 1 0 false; mkTok 2 "{" 1 7 false; mkTok 3 "}" 1 8 false; mkTok 34 "root" 1 9 false; mkTok 35 "packet" 1 14 false; mkTok 42 "metadata" 2 0 false; mkTok 2 "{" 2 9 false; mkTok 7 "@lengthOf(" 3 0 false; mkTok 42 "x" 3 10 false; mkTok 6 ")" 3 12 false; mkTok 28 "float32" 3 14 false; mkTok 42 "body" 4 0 false; mkTok 43 "``" 4 5 false; mkTok 40 "," 4 7 false; mkTok 3 "}" 4 9 false; mkTok 0 "<EOF>" 4 10 false] (mkPacket (mkPtok 1 "options" 1 0 0) (Some (mkPtok 3 "}" 4 9 14)) [(DOption (mkOptionDef (mkSpan (mkPtok 1 "options" 1 0 0) (mkPtok 3 "}" 1 8 2)) (mkPtok 1 "options" 1 0 0) (mkPtok 2 "{" 1 7 1) [] (mkPtok 3 "}" 1 8 2))); (DPacket (mkPacketDef (mkSpan (mkPtok 34 "root" 1 9 3) (mkPtok 3 "}" 4 9 14)) (Some (mkPtok 34 "root" 1 9 3)) (mkPtok 35 "packet" 1 14 4) (mkPtok 42 "metadata" 2 0 5) (mkPtok 2 "{" 2 9 6) [(mkFieldWithAttr (mkSpan (mkPtok 7 "@lengthOf(" 3 0 7) (mkPtok 40 "," 4 7 13)) [(FALengthOf (mkSpan (mkPtok 7 "@lengthOf(" 3 0 7) (mkPtok 6 ")" 3 12 9)) (mkLengthOf (mkSpan (mkPtok 7 "@lengthOf(" 3 0 7) (mkPtok 6 ")" 3 12 9)) (mkPtok 7 "@lengthOf(" 3 0 7) (mkPtok 42 "x" 3 10 8) (mkPtok 6 ")" 3 12 9)))] (MetaField (mkSpan (mkPtok 28 "float32" 3 14 10) (mkPtok 40 "," 4 7 13)) None (mkMetaDecl (mkSpan (mkPtok 28 "float32" 3 14 10) (mkPtok 40 "," 4 7 13)) (TyBasic (mkSpan (mkPtok 28 "float32" 3 14 10) (mkPtok 28 "float32" 3 14 10)) (mkBasicType (mkSpan (mkPtok 28 "float32" 3 14 10) (mkPtok 28 "float32" 3 14 10)) (mkPtok 28 "float32" 3 14 10))) (mkPtok 42 "body" 4 0 11) (Some (mkPtok 43 "``" 4 5 12)) (mkPtok 40 "," 4 7 13))))] (mkPtok 3 "}" 4 9 14)))])).
Eval vm_compute in ("<<<M2619>>>" ++ check (runes_of_ascii "options{}root packet
metadata {
@lengthOf(x ) float32
body ``, }
    MetaData
Z9_
    {
    string string_ , Logon x x
,
uint32
    // packet A { u8 x, }
    Z9_,asx
_x
    `tab	here` , }
")).
Eval vm_compute in ("<<<M2651>>>" ++ check (runes_of_ascii "options{}root packet
metadata {
@lengthOf(x ) float32
body ``, }
    MetaData
Z9_
    {
    string string_ , Logon x
,
uint32
    // packet A { u8 x, }
    Z9_,asx
@rightPad
    `tab	here` , }
")).
Eval vm_compute in ("<<<M2683>>>" ++ check (runes_of_ascii "options{}root packet
metadata {
@lengthOf(x ) float32
body ``, }
    MetaData
Z9_
    {
    string string_ , Logon x
,
uint32
    //@ packet A { u8 x, }
    Z9_,asx
_x
    `tab	here` , }
")).
Eval vm_compute in ("<<<M2715>>>" ++ check (runes_of_ascii "options {
    falsey=
""a\\"" ; ; }")).
Eval vm_compute in ("<<<M2747>>>" ++ check (runes_of_ascii "f32a MetaData
{
    //	t
    }root
    packet tag  {
}
")).
Eval vm_compute in ("<<<M2779>>>" ++ check (runes_of_ascii "MetaData f32a
{
    //	t
    }root
    packet")).
Eval vm_compute in ("<<<M2811>>>" ++ check (runes_of_ascii "

    {msg_type =
    float32  }root
packet Z9_{ char /// triple
crc @lengthOf(
options1 ) //
,} MetaData a1{}
")).
Eval vm_compute in ("<<<M2843>>>" ++ check (runes_of_ascii "
options
    {msg_type =
    float32  }packet
root Z9_{ char /// triple
crc @lengthOf(
options1 ) //
,} MetaData a1{}
")).
Eval vm_compute in ("<<<M2875>>>" ++ check (runes_of_ascii "
options
    {msg_type =
    float32  }root
packet Z9_{ char /// triple
crc")).
Eval vm_compute in ("<<<M2907>>>" ++ check (runes_of_ascii "
options
    {msg_type =
    float32  }root
packet Z9_{ char /// triple
crc @lengthOf(
options1 ) //
,} MetaData a1{ {}
")).
Eval vm_compute in ("<<<M2939>>>" ++ check (runes_of_ascii "crc packet{ // " ++ [128512]%N ++ runes_of_ascii " emoji
repeat string i8i8
`a\`, }
")).
Eval vm_compute in ("<<<M2971>>>" ++ check (runes_of_ascii "packet crc{ // " ++ [128512]%N ++ runes_of_ascii " emoji
repeat string i8i8")).
Eval vm_compute in ("<<<M3003>>>" ++ check (runes_of_ascii " BodyLength {} MetaData zchar{ zchar[// @lengthOf(
42 ]
    pack , string_
A , char[]crc , _x trueish ,
// " ++ [27880; 37322]%N ++ runes_of_ascii "
// " ++ [128512]%N ++ runes_of_ascii " emoji
zchar[
    3 ]	T // trailing space 
, } packet body
{
    }
")).
Eval vm_compute in ("<<<M3035>>>" ++ check (runes_of_ascii "packet BodyLength {} MetaData zchar zchar[ {// @lengthOf(
42 ]
    pack , string_
A , char[]crc , _x trueish ,
// " ++ [27880; 37322]%N ++ runes_of_ascii "
// " ++ [128512]%N ++ runes_of_ascii " emoji
zchar[
    3 ]	T // trailing space 
, } packet body
{
    }
")).
Eval vm_compute in ("<<<M3067>>>" ++ check (runes_of_ascii "packet BodyLength {} MetaData zchar{ zchar[// @lengthOf(
42 ]
    pack ,")).
Eval vm_compute in ("<<<M3099>>>" ++ check (runes_of_ascii "packet BodyLength {} MetaData zchar{ zchar[// @lengthOf(
42 ]
    pack , string_
A , char[]crc , _x trueish trueish ,
// " ++ [27880; 37322]%N ++ runes_of_ascii "
// " ++ [128512]%N ++ runes_of_ascii " emoji
zchar[
    3 ]	T // trailing space 
, } packet body
{
    }
")).
Eval vm_compute in ("<<<M3131>>>" ++ check (runes_of_ascii "packet BodyLength {} MetaData zchar{ zchar[// @lengthOf(
42 ]
    pack , string_
A , char[]crc , _x trueish ,
// " ++ [27880; 37322]%N ++ runes_of_ascii "
// " ++ [128512]%N ++ runes_of_ascii " emoji
zchar[
    3 ]	T // trailing space 
char } packet body
{
    }
")).
Eval vm_compute in ("<<<M3163>>>" ++ check (runes_of_ascii "packet BodyLength {} MetaData zchar{ zchar[// @lengthOf(
42 @leftpad]
    pack , string_
A , char[]crc , _x trueish ,
// " ++ [27880; 37322]%N ++ runes_of_ascii "
// " ++ [128512]%N ++ runes_of_ascii " emoji
zchar[
    3 ]	T // trailing space 
, } packet body
{
    }
")).
Eval vm_compute in ("<<<M3195>>>" ++ check (runes_of_ascii "packet
string_ {@lengthOf( @lengthOf( int ) match packetx as f32a {
    1 :	calculatedFrom , }  ,
    } packet len
    //	t
    { @calculatedFrom( """ ++ [233]%N ++ runes_of_ascii "t" ++ [233]%N ++ runes_of_ascii """ ) body Header , char[] lengthOf  `two words` ,chars{repeat string_ matchKey ,
    } ,
    }
")).
Eval vm_compute in ("<<<M3227>>>" ++ check (runes_of_ascii "packet
string_ {@lengthOf( int ) match packetx as , {
    1 :	calculatedFrom , }  ,
    } packet len
    //	t
    { @calculatedFrom( """ ++ [233]%N ++ runes_of_ascii "t" ++ [233]%N ++ runes_of_ascii """ ) body Header , char[] lengthOf  `two words` ,chars{repeat string_ matchKey ,
    } ,
    }
")).
Eval vm_compute in ("<<<M3259>>>" ++ check (runes_of_ascii "packet
string_ {@lengthOf( int ) match packetx as f32a {
    1 :	calculatedFrom , }  
    } packet len
    //	t
    { @calculatedFrom( """ ++ [233]%N ++ runes_of_ascii "t" ++ [233]%N ++ runes_of_ascii """ ) body Header , char[] lengthOf  `two words` ,chars{repeat string_ matchKey ,
    } ,
    }
")).
Eval vm_compute in ("<<<M3291>>>" ++ check (runes_of_ascii "packet
string_ {@lengthOf( int ) match packetx as f32a {
    1 :	calculatedFrom , }  ,
    } packet len
    //	t
    { @calculatedFrom( ) """ ++ [233]%N ++ runes_of_ascii "t" ++ [233]%N ++ runes_of_ascii """ body Header , char[] lengthOf  `two words` ,chars{repeat string_ matchKey ,
    } ,
    }
")).
Eval vm_compute in ("<<<M3323>>>" ++ check (runes_of_ascii "packet
string_ {@lengthOf( int ) match packetx as f32a {
    1 :	calculatedFrom , }  ,
    } packet len
    //	t
    { @calculatedFrom( """ ++ [233]%N ++ runes_of_ascii "t" ++ [233]%N ++ runes_of_ascii """ ) body Header , char[]")).
Eval vm_compute in ("<<<M3355>>>" ++ check (runes_of_ascii "packet
string_ {@lengthOf( int ) match packetx as f32a {
    1 :	calculatedFrom , }  ,
    } packet len
    //	t
    { @calculatedFrom( """ ++ [233]%N ++ runes_of_ascii "t" ++ [233]%N ++ runes_of_ascii """ ) body Header , char[] lengthOf  `two words` ,chars{repeat string_ matchKey matchKey ,
    } ,
    }
")).
Eval vm_compute in ("<<<M3387>>>" ++ check (runes_of_ascii "packet
string_ {@lengthOf( int ) match packetx as f32a {
    1 :	calculatedFrom , }  ,
    } packet len
    //	t
    { @calculatedFrom( """ ++ [233]%N ++ runes_of_ascii "t" ++ [233]%N ++ runes_of_ascii """ ) body Header " ++ [127]%N ++ runes_of_ascii ", char[] lengthOf  `two words` ,chars{repeat string_ matchKey ,
    } ,
    }
")).
Eval vm_compute in ("<<<M3419>>>" ++ check (runes_of_ascii "/// triple
root
packet // packet A { u8 x, }
chars { @lengthOf(charz )
stringy,  @tag(  , ) // a // b
asx
    As
,
// trailing space 
// trailing space 
x_y_z {
repeat i16 charz , } ,	int16  crc ,}
")).
Eval vm_compute in ("<<<M3451>>>" ++ check (runes_of_ascii "/// triple
root
packet // packet A { u8 x, }
chars { @lengthOf(charz )
stringy,  @tag(  0 ) // a // b
asx
    As")).
Eval vm_compute in ("<<<M3483>>>" ++ check (runes_of_ascii "/// triple
root
packet // packet A { u8 x, }
chars { @lengthOf(charz )
stringy,  @tag(  0 0 ) // a // b
asx
    As
,
// trailing space 
// trailing space 
x_y_z {
repeat i16 charz , } ,	int16  crc ,}
")).
Eval vm_compute in ("<<<M3515>>>" ++ check (runes_of_ascii "falsey")).
Eval vm_compute in ("<<<M3547>>>" ++ check (runes_of_ascii "@rightPad")).
Eval vm_compute in ("<<<M3579>>>" ++ check (runes_of_ascii """a\
b""")).
Eval vm_compute in ("<<<M3611>>>" ++ check (runes_of_ascii "ab")).
Eval vm_compute in ("<<<M3643>>>" ++ check (runes_of_ascii "packet A { x `d` `e`, }")).
Eval vm_compute in ("<<<M3675>>>" ++ check (runes_of_ascii "packet A { match k as n { [1,] : B }, }")).
Eval vm_compute in ("<<<M3707>>>" ++ check (runes_of_ascii "root root packet A { }")).
Eval vm_compute in ("<<<M3739>>>" ++ check (runes_of_ascii "options options { }")).
Eval vm_compute in ("<<<M3771>>>" ++ check (runes_of_ascii "u8 options float32 @calculatedFrom( false ( ] int8 ] = i64 i32")).
Eval vm_compute in ("<<<M3803>>>" ++ check (runes_of_ascii "@lengthOf( metadata")).
Eval vm_compute in ("<<<M3835>>>" ++ check (runes_of_ascii "false")).
Eval vm_compute in ("<<<M3867>>>" ++ check (runes_of_ascii "match f32")).
Eval vm_compute in ("<<<M3899>>>" ++ check (runes_of_ascii "`tab	here`")).
Eval vm_compute in ("<<<M3931>>>" ++ check (runes_of_ascii "false float32 false packet")).
Eval vm_compute in ("<<<M3963>>>" ++ check (runes_of_ascii "char : zchar[")).
Eval vm_compute in ("<<<M3995>>>" ++ check (runes_of_ascii "@leftPad @calculatedFrom( [ ) } f64 ; char[ char @rightPad")).
