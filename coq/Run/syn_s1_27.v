From FP Require Import Lexer Parser ShowPT Digest.
From Coq Require Import String List NArith.
Import ListNotations.
Open Scope string_scope.
Set Printing Width 100000000.
Set Printing Depth 100000000.
Definition nl : string := String (Ascii.ascii_of_nat 10) EmptyString.
Definition model_lex (rs : list rune) : string := show_toks (lex rs).
Definition model_parse (rs : list rune) : string :=
  show_pt (match lex rs with Some ts => parse ts | None => None end).
(* coqc is slow at printing long strings: digests first (Digest.v), full texts on demand *)
Definition check (rs : list rune) : string :=
  digest (model_lex rs) ++ " " ++ digest (model_parse rs).
Definition full (rs : list rune) : string := model_lex rs ++ nl ++ model_parse rs.
Definition terms (ts : list tok) (t : pt) : string :=
  digest (show_toks (Some ts)) ++ " " ++ digest (show_pt (Some t)) ++ " " ++ digest (show_pt (parse ts)).
Definition terms_full (ts : list tok) (t : pt) : string :=
  show_toks (Some ts) ++ nl ++ show_pt (Some t) ++ nl ++ show_pt (parse ts).
Eval vm_compute in ("<<<M27>>>" ++ check (runes_of_ascii "MetaData charz
/// triple
// 50% %s
{
u32 metadata , }
root packet u{ @tag( 42 )
    repeat uint8
Foo , }
")).
Eval vm_compute in ("<<<T27>>>" ++ terms [mkTok 37 "MetaData" 1 0 false; mkTok 42 "charz" 1 9 false; mkTok 44 "/// triple" 2 0 true; mkTok 44 "// 50% %s" 3 0 true; mkTok 2 "{" 4 0 false; mkTok 22 "u32" 5 0 false; mkTok 42 "metadata" 5 4 false; mkTok 40 "," 5 13 false; mkTok 3 "}" 5 15 false; mkTok 34 "root" 6 0 false; mkTok 35 "packet" 6 5 false; mkTok 42 "u" 6 12 false; mkTok 2 "{" 6 13 false; mkTok 9 "@tag(" 6 15 false; mkTok 30 "42" 6 21 false; mkTok 6 ")" 6 24 false; mkTok 36 "repeat" 7 4 false; mkTok 20 "uint8" 7 11 false; mkTok 42 "Foo" 8 0 false; mkTok 40 "," 8 4 false; mkTok 3 "}" 8 6 false; mkTok 0 "<EOF>" 9 0 false] (mkPacket (mkPtok 37 "MetaData" 1 0 0) (Some (mkPtok 3 "}" 8 6 20)) [(DMeta (mkMetaDef (mkSpan (mkPtok 37 "MetaData" 1 0 0) (mkPtok 3 "}" 5 15 8)) (mkPtok 37 "MetaData" 1 0 0) (mkPtok 42 "charz" 1 9 1) (mkPtok 2 "{" 4 0 4) [(MIDecl (mkMetaDecl (mkSpan (mkPtok 22 "u32" 5 0 5) (mkPtok 40 "," 5 13 7)) (TyBasic (mkSpan (mkPtok 22 "u32" 5 0 5) (mkPtok 22 "u32" 5 0 5)) (mkBasicType (mkSpan (mkPtok 22 "u32" 5 0 5) (mkPtok 22 "u32" 5 0 5)) (mkPtok 22 "u32" 5 0 5))) (mkPtok 42 "metadata" 5 4 6) None (mkPtok 40 "," 5 13 7)))] (mkPtok 3 "}" 5 15 8))); (DPacket (mkPacketDef (mkSpan (mkPtok 34 "root" 6 0 9) (mkPtok 3 "}" 8 6 20)) (Some (mkPtok 34 "root" 6 0 9)) (mkPtok 35 "packet" 6 5 10) (mkPtok 42 "u" 6 12 11) (mkPtok 2 "{" 6 13 12) [(mkFieldWithAttr (mkSpan (mkPtok 9 "@tag(" 6 15 13) (mkPtok 40 "," 8 4 19)) [(FATag (mkSpan (mkPtok 9 "@tag(" 6 15 13) (mkPtok 6 ")" 6 24 15)) (mkTagAttr (mkSpan (mkPtok 9 "@tag(" 6 15 13) (mkPtok 6 ")" 6 24 15)) (mkPtok 9 "@tag(" 6 15 13) (mkPtok 30 "42" 6 21 14) (mkPtok 6 ")" 6 24 15)))] (MetaField (mkSpan (mkPtok 36 "repeat" 7 4 16) (mkPtok 40 "," 8 4 19)) (Some (mkPtok 36 "repeat" 7 4 16)) (mkMetaDecl (mkSpan (mkPtok 20 "uint8" 7 11 17) (mkPtok 40 "," 8 4 19)) (TyBasic (mkSpan (mkPtok 20 "uint8" 7 11 17) (mkPtok 20 "uint8" 7 11 17)) (mkBasicType (mkSpan (mkPtok 20 "uint8" 7 11 17) (mkPtok 20 "uint8" 7 11 17)) (mkPtok 20 "uint8" 7 11 17))) (mkPtok 42 "Foo" 8 0 18) None (mkPtok 40 "," 8 4 19))))] (mkPtok 3 "}" 8 6 20)))])).
Eval vm_compute in ("<<<M59>>>" ++ check (runes_of_ascii "packet Header { repeat int32 options1
, } //x")).
Eval vm_compute in ("<<<M91>>>" ++ check (runes_of_ascii "root packet
f32a { i8i8 @lengthOf( BodyLength) `line1
line2` , /// triple
string_ _x , zchar
,  char rootA
,@rightPad()
// @lengthOf(
// 50% %s
@lengthOf(
charz//
)
    u128 `it's`, i16 uint8x// packet A { u8 x, }
@lengthOf(tag )	, char[]
string_, // a // b
@calculatedFrom(
""a\""b""  ) //x
@calculatedFrom( ""\" ++ [233]%N ++ runes_of_ascii """) @calculatedFrom( // " ++ [128512]%N ++ runes_of_ascii " emoji
""packet"")
repeat A
    { match uint8x
as metadata
{  [ 65535
    ,""\" ++ [233]%N ++ runes_of_ascii """,	3]
: MetaDataX , } , x
    {
    repeat crc Pad `crlf
line` ,
u32 string_ `tab	here`	,} , //
falsey	@lengthOf( x
// " ++ [27880; 37322]%N ++ runes_of_ascii "
/// triple
) , match // a // b
a1 as
calculatedFrom { [ 1 // 50% %s
, 4294967296 ,
""""
    , 7 ] : matchKey[ """" , ""`tick`"" ]: x ,
    // c
    ""abc""
    //x
    :_x } // packet A { u8 x, }
, }
    ,match stringy // trailing space 
as repeatCount //
{
255 : falsey , ""it's""  :roots,[ """ ++ [128512]%N ++ runes_of_ascii """, 3 ,""// no comment""  ] :o [ 0123456789 ] :
    //	t
    uint8x
    ,
10 : int
,
0123456789 :	Header
    // `tick` ""quote"" 'q'
    ,
    }
, repeat
    //x
    MetaDataX , } MetaData tag
{u64 u ,// " ++ [128512]%N ++ runes_of_ascii " emoji
}
root packet
string_ { char[// packet A { u8 x, }
65535]// a // b
asx  @calculatedFrom(  ""{,}"")// c
,uint8x @calculatedFrom( // `tick` ""quote"" 'q'
""" ++ [233]%N ++ runes_of_ascii "t" ++ [233]%N ++ runes_of_ascii """ ) , string
repeatCount @calculatedFrom(	""abc""
) `crlf
line`,  @calculatedFrom(
    // @lengthOf(
    ""a\\"")	repeat // " ++ [27880; 37322]%N ++ runes_of_ascii "
char[ 1] matchKey //	t
`two words`,	} packet Z9_
{
// @lengthOf(
// c
@tag( 42 )
    //
    @calculatedFrom(
""1"" ) match u8x
as chars {[ ""CRC32"" ]
: packetx,""" ++ [233]%N ++ runes_of_ascii "t" ++ [233]%N ++ runes_of_ascii """
:tag
, 0123456789: calculatedFrom// a // b
, 7 : lengthOf , [ ""a	b"" , 65535 , 3	,
""`tick`""
    /// triple
    ,  255 //x
] :
    u8x , 4294967296
    :
    Header , } , @lengthOf(
// " ++ [27880; 37322]%N ++ runes_of_ascii "
// @lengthOf(
i64_ )	a1 `a\` , //x
f32a
    MetaDataX // " ++ [27880; 37322]%N ++ runes_of_ascii "
, @lengthOf(
    options1 )
Pad @lengthOf( Pad ) // " ++ [128512]%N ++ runes_of_ascii " emoji
`100% of %d` //	t
, // 50% %s
f32a
    `{ , }`
    ,
    match MetaDataX//
as asx  {""\" ++ [233]%N ++ runes_of_ascii """ : metadata
    ,} , @tag(
    255
)
char
calculatedFrom
    `crlf
line`, @lengthOf( leftPad )
repeatCount @lengthOf( int)
,}
packet
T
{ }
")).
Eval vm_compute in ("<<<M123>>>" ++ check (runes_of_ascii "packet stringy { @lengthOf(
chars) char calculatedFrom
,
repeat u8x
    calculatedFrom`two words` ,	@leftPad ( '\x00') repeat Packet
    {match Packet as	rootA
{
42 : repeatCount
, // " ++ [128512]%N ++ runes_of_ascii " emoji
""CRC32"" // packet A { u8 x, }
: Pad 65535: // trailing space 
Header, [ // `tick` ""quote"" 'q'
""// no comment"" ,	007  ]// packet A { u8 x, }
: Z9_, 00	:body
    // " ++ [128512]%N ++ runes_of_ascii " emoji
    , [ ""// no comment"" ,
    //
    """ ++ [28040; 24687]%N ++ runes_of_ascii """
    , 1
    , // a // b
42 ,""it's""] :	metadata, }
    ,zchar[
    1
    ] asx@calculatedFrom( ""// no comment"" ) , zchar[ 10 ] u8x
,
}, repeat char[ // " ++ [27880; 37322]%N ++ runes_of_ascii "
0 ] // `tick` ""quote"" 'q'
falsey,} 	 ")).
Eval vm_compute in ("<<<M155>>>" ++ check (runes_of_ascii "MetaData float{
// `tick` ""quote"" 'q'
// 50% %s
i64
    stringy,	} packet metadata
{ @calculatedFrom( ""a	b"" ) @rightPad
    ( )
char[]
    // 50% %s
    As , i64 asx ,@calculatedFrom(
""// no comment"" ) x { repeat
MetaDataX {
BodyLength ``, }
    , i32 u128, _x // 50% %s
u128, }
// 50% %s
// packet A { u8 x, }
, match u as o
{ 7 : As ""x y""
:
f32a ,
    } ,
    lengthOf@lengthOf( i8i8 )  , @lengthOf(//x
roots )
@calculatedFrom("""" )
@rightPad( '0' )repeat char[
7 ] falsey,@leftPad
( )
i32 _x `" ++ [28040; 24687; 31867; 22411]%N ++ runes_of_ascii "` , } root packet tag { @tag( 42  )
    repeat
zchar[ 007 ] f32a
    ,
@rightPad // `tick` ""quote"" 'q'
(
    ) zchar[ 65535
] Pad ,int64 body , leftPad
`it's` ,string lengthOf , i32 packetx // a // b
@lengthOf( asx )`two words` ,
    @leftPad ( '0'
)	repeat	msg_type
    rootA,
options1 u8x // a // b
,  @tag(
    //x
    42) zchar[ 65535
// c
//x
] As
@lengthOf( // packet A { u8 x, }
a1
    ) ``
,	} root packet charz{ @tag( 4294967296 )
    string
options1`100% of %d`,} packet Header{}
")).
Eval vm_compute in ("<<<M187>>>" ++ check (runes_of_ascii "MetaData int{ }packet T
    {char[ 65535 ]	options1
, @calculatedFrom(
    ""// no comment"" ) // " ++ [128512]%N ++ runes_of_ascii " emoji
leftPad { match
zchar as	charz  { [
    7 ,
0123456789 ,
    //
    007,
    3 ,0123456789] // " ++ [128512]%N ++ runes_of_ascii " emoji
: pack ,
}
    , } , @tag( 255 ) uint64 string_	@lengthOf( matchKey ) `{ , }` , @lengthOf( Pad
    /// triple
    ) repeat matchKey x_y_z , match body as f32a { """ ++ [28040; 24687]%N ++ runes_of_ascii """ : u} ,uint16 As @calculatedFrom(""CRC32"" ) , zchar {//	t
u8 lengthOf ,} ,
    }
packet
    BodyLength { matchKey { repeat string falsey,
    // " ++ [27880; 37322]%N ++ runes_of_ascii "
    } , packetx  @calculatedFrom(""// no comment"" )
    ,falsey
// packet A { u8 x, }
// packet A { u8 x, }
{ Packet
A , uint16
    u@calculatedFrom(""a\""b""
)
,//x
f32 charz @lengthOf( u ) `u8 x,`  ,// @lengthOf(
},
@leftPad// " ++ [27880; 37322]%N ++ runes_of_ascii "
( '\x00' )
    options1
    ,
@rightPad (
    '0'
    ) repeatCount{  repeat u8
body ,
    }// " ++ [128512]%N ++ runes_of_ascii " emoji
,
metadata @lengthOf(	chars
)
`a\`
, @rightPad ( )@lengthOf( Pad )
    @calculatedFrom( ""abc"") float ,  @calculatedFrom(
""" ++ [128512]%N ++ runes_of_ascii """) zchar[
007]
A ,
// 50% %s
// 50% %s
string Pad// @lengthOf(
`line1
line2` ,
} packet
MetaDataX{
    //
    repeat string As`a\` , } packet// a // b
As { string repeatCount @lengthOf(
    Header
)
    ,repeat stringy
    `tab	here`
// 50% %s
// @lengthOf(
,}
")).
Eval vm_compute in ("<<<M219>>>" ++ check (runes_of_ascii "  packet  matchKey {@lengthOf( Pad ) repeat int16  trueish `two words` , }")).
Eval vm_compute in ("<<<M251>>>" ++ check (runes_of_ascii "packet	a1 {}")).
Eval vm_compute in ("<<<T251>>>" ++ terms [mkTok 35 "packet" 1 0 false; mkTok 42 "a1" 1 7 false; mkTok 2 "{" 1 10 false; mkTok 3 "}" 1 11 false; mkTok 0 "<EOF>" 1 12 false] (mkPacket (mkPtok 35 "packet" 1 0 0) (Some (mkPtok 3 "}" 1 11 3)) [(DPacket (mkPacketDef (mkSpan (mkPtok 35 "packet" 1 0 0) (mkPtok 3 "}" 1 11 3)) None (mkPtok 35 "packet" 1 0 0) (mkPtok 42 "a1" 1 7 1) (mkPtok 2 "{" 1 10 2) [] (mkPtok 3 "}" 1 11 3)))])).
Eval vm_compute in ("<<<M283>>>" ++ check (runes_of_ascii "  packet	i64_ {
_x
i64_ `// not a comment` , @rightPad	(
)
@calculatedFrom( ""`tick`"" // packet A { u8 x, }
)match _x as  Logon { [ ""a	b"" ]	: metadata , 1 :
o 00 :float	,},	@tag( 1
    ) @lengthOf(matchKey ) zchar[ 255 ]	options1`tab	here` , } // @lengthOf(")).
Eval vm_compute in ("<<<M315>>>" ++ check (runes_of_ascii "options { } MetaData chars
{
zchar[ 0123456789 ]	BodyLength `{ , }`
, f64 body,char[
    // a // b
    4294967296 ] Packet , u8x charz , }
")).
Eval vm_compute in ("<<<M347>>>" ++ check (runes_of_ascii "options
    { float/// triple
=char[ 3 ]	metadata	= /// triple
char[ 42 ]; string_=""a\\"" }
/// triple
")).
Eval vm_compute in ("<<<M379>>>" ++ check (runes_of_ascii "root packet Z9_{string_ { repeat
float { repeat // c
int8// a // b
u8x `// not a comment` ,	char[]options1@lengthOf( x_y_z )`two words` ,repeat char[ 3 ] i8i8
`" ++ [233]%N ++ runes_of_ascii "`
,match
repeatCount
as	body
    {  ""x y"":
    asx ,	}
    ,}, }, } // @lengthOf(")).
Eval vm_compute in ("<<<M411>>>" ++ check (runes_of_ascii "options  {
// a // b
// trailing space 
calculatedFrom
    = string }

")).
Eval vm_compute in ("<<<M443>>>" ++ check (runes_of_ascii "
packet	falsey{ char Logon @calculatedFrom( """ ++ [128512]%N ++ runes_of_ascii """
) ,
repeat leftPad Header
    , } packet
Header{
char[ 3 ]// " ++ [128512]%N ++ runes_of_ascii " emoji
tag
@lengthOf( trueish) `two words` , match
packetx as options1 { 7 :
    i64_ // c
""{,}"" :	x ,[""" ++ [28040; 24687]%N ++ runes_of_ascii """,
    0
    , ""packet"" ] :_x[ 7 ,00
]
:
    i64_ // trailing space 
""a\""b"" :
As , } , }
")).
Eval vm_compute in ("<<<M475>>>" ++ check (runes_of_ascii "MetaData asx{// " ++ [27880; 37322]%N ++ runes_of_ascii "
charz _x ,int8 x_y_z `two words`, i32
charz ,repeatCount i64_
    ,
u8x calculatedFrom , i8
// `tick` ""quote"" 'q'
// c
roots , }MetaData x
{ }
    MetaData
len
    { matchKey
packetx , uint8 uint8x,
} root
packet
body {	u128 @calculatedFrom( """" /// triple
)
    ,
    repeat
    trueish { char[]// " ++ [128512]%N ++ runes_of_ascii " emoji
asx @lengthOf(
    body	)	`u8 x,` , match
    // packet A { u8 x, }
    body
// @lengthOf(
// 50% %s
as//
i8i8 { ""a\""b"": packetx
    , ""a	b"":
i64_ , [ """" ,
42 ]: MetaDataX,[ """ ++ [28040; 24687]%N ++ runes_of_ascii """ ] : pack
3 : x
[ 0
    , 007 ] :	Z9_ , } , char[ 10 ]// `tick` ""quote"" 'q'
int
    `// not a comment`, u repeatCount `{ , }` , }
, @lengthOf( trueish
    ) char asx `doc` // @lengthOf(
,
@tag( 0 )
i64_ ,} MetaData lengthOf { char[]float `crlf
line`,// " ++ [128512]%N ++ runes_of_ascii " emoji
}
")).
Eval vm_compute in ("<<<T475>>>" ++ terms [mkTok 37 "MetaData" 1 0 false; mkTok 42 "asx" 1 9 false; mkTok 2 "{" 1 12 false; mkTok 44 (string_of_bytes [47; 47; 32; 230; 179; 168; 233; 135; 138]%N) 1 13 true; mkTok 42 "charz" 2 0 false; mkTok 42 "_x" 2 6 false; mkTok 40 "," 2 9 false; mkTok 24 "int8" 2 10 false; mkTok 42 "x_y_z" 2 15 false; mkTok 43 "`two words`" 2 21 false; mkTok 40 "," 2 32 false; mkTok 26 "i32" 2 34 false; mkTok 42 "charz" 3 0 false; mkTok 40 "," 3 6 false; mkTok 42 "repeatCount" 3 7 false; mkTok 42 "i64_" 3 19 false; mkTok 40 "," 4 4 false; mkTok 42 "u8x" 5 0 false; mkTok 42 "calculatedFrom" 5 4 false; mkTok 40 "," 5 19 false; mkTok 24 "i8" 5 21 false; mkTok 44 "// `tick` ""quote"" 'q'" 6 0 true; mkTok 44 "// c" 7 0 true; mkTok 42 "roots" 8 0 false; mkTok 40 "," 8 6 false; mkTok 3 "}" 8 8 false; mkTok 37 "MetaData" 8 9 false; mkTok 42 "x" 8 18 false; mkTok 2 "{" 9 0 false; mkTok 3 "}" 9 2 false; mkTok 37 "MetaData" 10 4 false; mkTok 42 "len" 11 0 false; mkTok 2 "{" 12 4 false; mkTok 42 "matchKey" 12 6 false; mkTok 42 "packetx" 13 0 false; mkTok 40 "," 13 8 false; mkTok 20 "uint8" 13 10 false; mkTok 42 "uint8x" 13 16 false; mkTok 40 "," 13 22 false; mkTok 3 "}" 14 0 false; mkTok 34 "root" 14 2 false; mkTok 35 "packet" 15 0 false; mkTok 42 "body" 16 0 false; mkTok 2 "{" 16 5 false; mkTok 42 "u128" 16 7 false; mkTok 5 "@calculatedFrom(" 16 12 false; mkTok 31 """""" 16 29 false; mkTok 44 "/// triple" 16 32 true; mkTok 6 ")" 17 0 false; mkTok 40 "," 18 4 false; mkTok 36 "repeat" 19 4 false; mkTok 42 "trueish" 20 4 false; mkTok 2 "{" 20 12 false; mkTok 16 "char[]" 20 14 false; mkTok 44 (string_of_bytes [47; 47; 32; 240; 159; 152; 128; 32; 101; 109; 111; 106; 105]%N) 20 20 true; mkTok 42 "asx" 21 0 false; mkTok 7 "@lengthOf(" 21 4 false; mkTok 42 "body" 22 4 false; mkTok 6 ")" 22 9 false; mkTok 43 "`u8 x,`" 22 11 false; mkTok 40 "," 22 19 false; mkTok 38 "match" 22 21 false; mkTok 44 "// packet A { u8 x, }" 23 4 true; mkTok 42 "body" 24 4 false; mkTok 44 "// @lengthOf(" 25 0 true; mkTok 44 "// 50% %s" 26 0 true; mkTok 17 "as" 27 0 false; mkTok 44 "//" 27 2 true; mkTok 42 "i8i8" 28 0 false; mkTok 2 "{" 28 5 false; mkTok 31 """a\""b""" 28 7 false; mkTok 39 ":" 28 13 false; mkTok 42 "packetx" 28 15 false; mkTok 40 "," 29 4 false; mkTok 31 (string_of_bytes [34; 97; 9; 98; 34]%N) 29 6 false; mkTok 39 ":" 29 11 false; mkTok 42 "i64_" 30 0 false; mkTok 40 "," 30 5 false; mkTok 18 "[" 30 7 false; mkTok 31 """""" 30 9 false; mkTok 40 "," 30 12 false; mkTok 30 "42" 31 0 false; mkTok 13 "]" 31 3 false; mkTok 39 ":" 31 4 false; mkTok 42 "MetaDataX" 31 6 false; mkTok 40 "," 31 15 false; mkTok 18 "[" 31 16 false; mkTok 31 (string_of_bytes [34; 230; 182; 136; 230; 129; 175; 34]%N) 31 18 false; mkTok 13 "]" 31 23 false; mkTok 39 ":" 31 25 false; mkTok 42 "pack" 31 27 false; mkTok 30 "3" 32 0 false; mkTok 39 ":" 32 2 false; mkTok 42 "x" 32 4 false; mkTok 18 "[" 33 0 false; mkTok 30 "0" 33 2 false; mkTok 40 "," 34 4 false; mkTok 30 "007" 34 6 false; mkTok 13 "]" 34 10 false; mkTok 39 ":" 34 12 false; mkTok 42 "Z9_" 34 14 false; mkTok 40 "," 34 18 false; mkTok 3 "}" 34 20 false; mkTok 40 "," 34 22 false; mkTok 12 "char[" 34 24 false; mkTok 30 "10" 34 30 false; mkTok 13 "]" 34 33 false; mkTok 44 "// `tick` ""quote"" 'q'" 34 34 true; mkTok 42 "int" 35 0 false; mkTok 43 "`// not a comment`" 36 4 false; mkTok 40 "," 36 22 false; mkTok 42 "u" 36 24 false; mkTok 42 "repeatCount" 36 26 false; mkTok 43 "`{ , }`" 36 38 false; mkTok 40 "," 36 46 false; mkTok 3 "}" 36 48 false; mkTok 40 "," 37 0 false; mkTok 7 "@lengthOf(" 37 2 false; mkTok 42 "trueish" 37 13 false; mkTok 6 ")" 38 4 false; mkTok 19 "char" 38 6 false; mkTok 42 "asx" 38 11 false; mkTok 43 "`doc`" 38 15 false; mkTok 44 "// @lengthOf(" 38 21 true; mkTok 40 "," 39 0 false; mkTok 9 "@tag(" 40 0 false; mkTok 30 "0" 40 6 false; mkTok 6 ")" 40 8 false; mkTok 42 "i64_" 41 0 false; mkTok 40 "," 41 5 false; mkTok 3 "}" 41 6 false; mkTok 37 "MetaData" 41 8 false; mkTok 42 "lengthOf" 41 17 false; mkTok 2 "{" 41 26 false; mkTok 16 "char[]" 41 28 false; mkTok 42 "float" 41 34 false; mkTok 43 (string_of_bytes [96; 99; 114; 108; 102; 13; 10; 108; 105; 110; 101; 96]%N) 41 40 false; mkTok 40 "," 42 5 false; mkTok 44 (string_of_bytes [47; 47; 32; 240; 159; 152; 128; 32; 101; 109; 111; 106; 105]%N) 42 6 true; mkTok 3 "}" 43 0 false; mkTok 0 "<EOF>" 44 0 false] (mkPacket (mkPtok 37 "MetaData" 1 0 0) (Some (mkPtok 3 "}" 43 0 139)) [(DMeta (mkMetaDef (mkSpan (mkPtok 37 "MetaData" 1 0 0) (mkPtok 3 "}" 8 8 25)) (mkPtok 37 "MetaData" 1 0 0) (mkPtok 42 "asx" 1 9 1) (mkPtok 2 "{" 1 12 2) [(MIRef (mkRefMetaDecl (mkSpan (mkPtok 42 "charz" 2 0 4) (mkPtok 40 "," 2 9 6)) (mkPtok 42 "charz" 2 0 4) (mkPtok 42 "_x" 2 6 5) None (mkPtok 40 "," 2 9 6))); (MIDecl (mkMetaDecl (mkSpan (mkPtok 24 "int8" 2 10 7) (mkPtok 40 "," 2 32 10)) (TyBasic (mkSpan (mkPtok 24 "int8" 2 10 7) (mkPtok 24 "int8" 2 10 7)) (mkBasicType (mkSpan (mkPtok 24 "int8" 2 10 7) (mkPtok 24 "int8" 2 10 7)) (mkPtok 24 "int8" 2 10 7))) (mkPtok 42 "x_y_z" 2 15 8) (Some (mkPtok 43 "`two words`" 2 21 9)) (mkPtok 40 "," 2 32 10))); (MIDecl (mkMetaDecl (mkSpan (mkPtok 26 "i32" 2 34 11) (mkPtok 40 "," 3 6 13)) (TyBasic (mkSpan (mkPtok 26 "i32" 2 34 11) (mkPtok 26 "i32" 2 34 11)) (mkBasicType (mkSpan (mkPtok 26 "i32" 2 34 11) (mkPtok 26 "i32" 2 34 11)) (mkPtok 26 "i32" 2 34 11))) (mkPtok 42 "charz" 3 0 12) None (mkPtok 40 "," 3 6 13))); (MIRef (mkRefMetaDecl (mkSpan (mkPtok 42 "repeatCount" 3 7 14) (mkPtok 40 "," 4 4 16)) (mkPtok 42 "repeatCount" 3 7 14) (mkPtok 42 "i64_" 3 19 15) None (mkPtok 40 "," 4 4 16))); (MIRef (mkRefMetaDecl (mkSpan (mkPtok 42 "u8x" 5 0 17) (mkPtok 40 "," 5 19 19)) (mkPtok 42 "u8x" 5 0 17) (mkPtok 42 "calculatedFrom" 5 4 18) None (mkPtok 40 "," 5 19 19))); (MIDecl (mkMetaDecl (mkSpan (mkPtok 24 "i8" 5 21 20) (mkPtok 40 "," 8 6 24)) (TyBasic (mkSpan (mkPtok 24 "i8" 5 21 20) (mkPtok 24 "i8" 5 21 20)) (mkBasicType (mkSpan (mkPtok 24 "i8" 5 21 20) (mkPtok 24 "i8" 5 21 20)) (mkPtok 24 "i8" 5 21 20))) (mkPtok 42 "roots" 8 0 23) None (mkPtok 40 "," 8 6 24)))] (mkPtok 3 "}" 8 8 25))); (DMeta (mkMetaDef (mkSpan (mkPtok 37 "MetaData" 8 9 26) (mkPtok 3 "}" 9 2 29)) (mkPtok 37 "MetaData" 8 9 26) (mkPtok 42 "x" 8 18 27) (mkPtok 2 "{" 9 0 28) [] (mkPtok 3 "}" 9 2 29))); (DMeta (mkMetaDef (mkSpan (mkPtok 37 "MetaData" 10 4 30) (mkPtok 3 "}" 14 0 39)) (mkPtok 37 "MetaData" 10 4 30) (mkPtok 42 "len" 11 0 31) (mkPtok 2 "{" 12 4 32) [(MIRef (mkRefMetaDecl (mkSpan (mkPtok 42 "matchKey" 12 6 33) (mkPtok 40 "," 13 8 35)) (mkPtok 42 "matchKey" 12 6 33) (mkPtok 42 "packetx" 13 0 34) None (mkPtok 40 "," 13 8 35))); (MIDecl (mkMetaDecl (mkSpan (mkPtok 20 "uint8" 13 10 36) (mkPtok 40 "," 13 22 38)) (TyBasic (mkSpan (mkPtok 20 "uint8" 13 10 36) (mkPtok 20 "uint8" 13 10 36)) (mkBasicType (mkSpan (mkPtok 20 "uint8" 13 10 36) (mkPtok 20 "uint8" 13 10 36)) (mkPtok 20 "uint8" 13 10 36))) (mkPtok 42 "uint8x" 13 16 37) None (mkPtok 40 "," 13 22 38)))] (mkPtok 3 "}" 14 0 39))); (DPacket (mkPacketDef (mkSpan (mkPtok 34 "root" 14 2 40) (mkPtok 3 "}" 41 6 130)) (Some (mkPtok 34 "root" 14 2 40)) (mkPtok 35 "packet" 15 0 41) (mkPtok 42 "body" 16 0 42) (mkPtok 2 "{" 16 5 43) [(mkFieldWithAttr (mkSpan (mkPtok 42 "u128" 16 7 44) (mkPtok 40 "," 18 4 49)) [] (CheckSumField (mkSpan (mkPtok 42 "u128" 16 7 44) (mkPtok 40 "," 18 4 49)) (mkChecksumFieldDecl (mkSpan (mkPtok 42 "u128" 16 7 44) (mkPtok 40 "," 18 4 49)) None (mkPtok 42 "u128" 16 7 44) (mkCalculatedFrom (mkSpan (mkPtok 5 "@calculatedFrom(" 16 12 45) (mkPtok 6 ")" 17 0 48)) (mkPtok 5 "@calculatedFrom(" 16 12 45) (mkPtok 31 """""" 16 29 46) (mkPtok 6 ")" 17 0 48)) None (mkPtok 40 "," 18 4 49)))); (mkFieldWithAttr (mkSpan (mkPtok 36 "repeat" 19 4 50) (mkPtok 40 "," 37 0 116)) [] (InerObjectField (mkSpan (mkPtok 36 "repeat" 19 4 50) (mkPtok 40 "," 37 0 116)) (Some (mkPtok 36 "repeat" 19 4 50)) (InerObjectDecl (mkSpan (mkPtok 42 "trueish" 20 4 51) (mkPtok 3 "}" 36 48 115)) (mkPtok 42 "trueish" 20 4 51) (mkPtok 2 "{" 20 12 52) [(LengthField (mkSpan (mkPtok 16 "char[]" 20 14 53) (mkPtok 40 "," 22 19 60)) (mkLengthFieldDecl (mkSpan (mkPtok 16 "char[]" 20 14 53) (mkPtok 40 "," 22 19 60)) (Some (TyDynamic (mkSpan (mkPtok 16 "char[]" 20 14 53) (mkPtok 16 "char[]" 20 14 53)) (mkDynamicString (mkSpan (mkPtok 16 "char[]" 20 14 53) (mkPtok 16 "char[]" 20 14 53)) (mkPtok 16 "char[]" 20 14 53)))) (mkPtok 42 "asx" 21 0 55) (mkLengthOf (mkSpan (mkPtok 7 "@lengthOf(" 21 4 56) (mkPtok 6 ")" 22 9 58)) (mkPtok 7 "@lengthOf(" 21 4 56) (mkPtok 42 "body" 22 4 57) (mkPtok 6 ")" 22 9 58)) (Some (mkPtok 43 "`u8 x,`" 22 11 59)) (mkPtok 40 "," 22 19 60))); (MatchField (mkSpan (mkPtok 38 "match" 22 21 61) (mkPtok 40 "," 34 22 103)) (mkMatchFieldDecl (mkSpan (mkPtok 38 "match" 22 21 61) (mkPtok 3 "}" 34 20 102)) (mkPtok 38 "match" 22 21 61) (mkPtok 42 "body" 24 4 63) (mkPtok 17 "as" 27 0 66) (mkPtok 42 "i8i8" 28 0 68) (mkPtok 2 "{" 28 5 69) [(mkMatchPair (mkSpan (mkPtok 31 """a\""b""" 28 7 70) (mkPtok 40 "," 29 4 73)) (MKString (mkPtok 31 """a\""b""" 28 7 70)) (mkPtok 39 ":" 28 13 71) (mkPtok 42 "packetx" 28 15 72) (Some (mkPtok 40 "," 29 4 73))); (mkMatchPair (mkSpan (mkPtok 31 (string_of_bytes [34; 97; 9; 98; 34]%N) 29 6 74) (mkPtok 40 "," 30 5 77)) (MKString (mkPtok 31 (string_of_bytes [34; 97; 9; 98; 34]%N) 29 6 74)) (mkPtok 39 ":" 29 11 75) (mkPtok 42 "i64_" 30 0 76) (Some (mkPtok 40 "," 30 5 77))); (mkMatchPair (mkSpan (mkPtok 18 "[" 30 7 78) (mkPtok 40 "," 31 15 85)) (MKList (mkKeyList (mkSpan (mkPtok 18 "[" 30 7 78) (mkPtok 13 "]" 31 3 82)) (mkPtok 18 "[" 30 7 78) (mkPtok 31 """""" 30 9 79) [((mkPtok 40 "," 30 12 80), (mkPtok 30 "42" 31 0 81))] (mkPtok 13 "]" 31 3 82))) (mkPtok 39 ":" 31 4 83) (mkPtok 42 "MetaDataX" 31 6 84) (Some (mkPtok 40 "," 31 15 85))); (mkMatchPair (mkSpan (mkPtok 18 "[" 31 16 86) (mkPtok 42 "pack" 31 27 90)) (MKList (mkKeyList (mkSpan (mkPtok 18 "[" 31 16 86) (mkPtok 13 "]" 31 23 88)) (mkPtok 18 "[" 31 16 86) (mkPtok 31 (string_of_bytes [34; 230; 182; 136; 230; 129; 175; 34]%N) 31 18 87) [] (mkPtok 13 "]" 31 23 88))) (mkPtok 39 ":" 31 25 89) (mkPtok 42 "pack" 31 27 90) None); (mkMatchPair (mkSpan (mkPtok 30 "3" 32 0 91) (mkPtok 42 "x" 32 4 93)) (MKDigits (mkPtok 30 "3" 32 0 91)) (mkPtok 39 ":" 32 2 92) (mkPtok 42 "x" 32 4 93) None); (mkMatchPair (mkSpan (mkPtok 18 "[" 33 0 94) (mkPtok 40 "," 34 18 101)) (MKList (mkKeyList (mkSpan (mkPtok 18 "[" 33 0 94) (mkPtok 13 "]" 34 10 98)) (mkPtok 18 "[" 33 0 94) (mkPtok 30 "0" 33 2 95) [((mkPtok 40 "," 34 4 96), (mkPtok 30 "007" 34 6 97))] (mkPtok 13 "]" 34 10 98))) (mkPtok 39 ":" 34 12 99) (mkPtok 42 "Z9_" 34 14 100) (Some (mkPtok 40 "," 34 18 101)))] (mkPtok 3 "}" 34 20 102)) (mkPtok 40 "," 34 22 103)); (MetaField (mkSpan (mkPtok 12 "char[" 34 24 104) (mkPtok 40 "," 36 22 110)) None (mkMetaDecl (mkSpan (mkPtok 12 "char[" 34 24 104) (mkPtok 40 "," 36 22 110)) (TyFixed (mkSpan (mkPtok 12 "char[" 34 24 104) (mkPtok 13 "]" 34 33 106)) (mkFixedString (mkSpan (mkPtok 12 "char[" 34 24 104) (mkPtok 13 "]" 34 33 106)) (mkPtok 12 "char[" 34 24 104) (mkPtok 30 "10" 34 30 105) (mkPtok 13 "]" 34 33 106))) (mkPtok 42 "int" 35 0 108) (Some (mkPtok 43 "`// not a comment`" 36 4 109)) (mkPtok 40 "," 36 22 110))); (ObjectField (mkSpan (mkPtok 42 "u" 36 24 111) (mkPtok 40 "," 36 46 114)) None (mkPtok 42 "u" 36 24 111) (Some (mkPtok 42 "repeatCount" 36 26 112)) (Some (mkPtok 43 "`{ , }`" 36 38 113)) (mkPtok 40 "," 36 46 114))] (mkPtok 3 "}" 36 48 115)) (mkPtok 40 "," 37 0 116))); (mkFieldWithAttr (mkSpan (mkPtok 7 "@lengthOf(" 37 2 117) (mkPtok 40 "," 39 0 124)) [(FALengthOf (mkSpan (mkPtok 7 "@lengthOf(" 37 2 117) (mkPtok 6 ")" 38 4 119)) (mkLengthOf (mkSpan (mkPtok 7 "@lengthOf(" 37 2 117) (mkPtok 6 ")" 38 4 119)) (mkPtok 7 "@lengthOf(" 37 2 117) (mkPtok 42 "trueish" 37 13 118) (mkPtok 6 ")" 38 4 119)))] (MetaField (mkSpan (mkPtok 19 "char" 38 6 120) (mkPtok 40 "," 39 0 124)) None (mkMetaDecl (mkSpan (mkPtok 19 "char" 38 6 120) (mkPtok 40 "," 39 0 124)) (TyBasic (mkSpan (mkPtok 19 "char" 38 6 120) (mkPtok 19 "char" 38 6 120)) (mkBasicType (mkSpan (mkPtok 19 "char" 38 6 120) (mkPtok 19 "char" 38 6 120)) (mkPtok 19 "char" 38 6 120))) (mkPtok 42 "asx" 38 11 121) (Some (mkPtok 43 "`doc`" 38 15 122)) (mkPtok 40 "," 39 0 124)))); (mkFieldWithAttr (mkSpan (mkPtok 9 "@tag(" 40 0 125) (mkPtok 40 "," 41 5 129)) [(FATag (mkSpan (mkPtok 9 "@tag(" 40 0 125) (mkPtok 6 ")" 40 8 127)) (mkTagAttr (mkSpan (mkPtok 9 "@tag(" 40 0 125) (mkPtok 6 ")" 40 8 127)) (mkPtok 9 "@tag(" 40 0 125) (mkPtok 30 "0" 40 6 126) (mkPtok 6 ")" 40 8 127)))] (ObjectField (mkSpan (mkPtok 42 "i64_" 41 0 128) (mkPtok 40 "," 41 5 129)) None (mkPtok 42 "i64_" 41 0 128) None None (mkPtok 40 "," 41 5 129)))] (mkPtok 3 "}" 41 6 130))); (DMeta (mkMetaDef (mkSpan (mkPtok 37 "MetaData" 41 8 131) (mkPtok 3 "}" 43 0 139)) (mkPtok 37 "MetaData" 41 8 131) (mkPtok 42 "lengthOf" 41 17 132) (mkPtok 2 "{" 41 26 133) [(MIDecl (mkMetaDecl (mkSpan (mkPtok 16 "char[]" 41 28 134) (mkPtok 40 "," 42 5 137)) (TyDynamic (mkSpan (mkPtok 16 "char[]" 41 28 134) (mkPtok 16 "char[]" 41 28 134)) (mkDynamicString (mkSpan (mkPtok 16 "char[]" 41 28 134) (mkPtok 16 "char[]" 41 28 134)) (mkPtok 16 "char[]" 41 28 134))) (mkPtok 42 "float" 41 34 135) (Some (mkPtok 43 (string_of_bytes [96; 99; 114; 108; 102; 13; 10; 108; 105; 110; 101; 96]%N) 41 40 136)) (mkPtok 40 "," 42 5 137)))] (mkPtok 3 "}" 43 0 139)))])).
Eval vm_compute in ("<<<M507>>>" ++ check (runes_of_ascii "
MetaData string_
{ x charz `say ""hi""` , options1 options1 `line1
line2` , } packet tag { @lengthOf( zchar
) calculatedFrom zchar , @calculatedFrom(	""`tick`""
)
Foo
/// triple
//
`tab	here` // trailing space 
, match packetx /// triple
as Pad {[
// `tick` ""quote"" 'q'
// trailing space 
""packet"", ""a	b"" , """ ++ [233]%N ++ runes_of_ascii "t" ++ [233]%N ++ runes_of_ascii """ , ""abc"",255
]: falsey} , }
")).
Eval vm_compute in ("<<<M539>>>" ++ check (runes_of_ascii "packet // @lengthOf(
packetx { @calculatedFrom(	""`tick`"" ) // @lengthOf(
uint8x@calculatedFrom( ""{,}"" )
/// triple
// 50% %s
`it's` ,
    }
options{msg_type=
    //
    char[ 10 ] BodyLength = char[ 255 ] Z9_
= ""a	b"" } options // c
{ x_y_z
=	' ' ;}
packet u { char[] BodyLength  , uint32 Header@lengthOf( packetx )
    , As Header , @calculatedFrom(
""// no comment""
) @lengthOf( uint8x )
    match // " ++ [128512]%N ++ runes_of_ascii " emoji
u128 as matchKey
{ [ 3
// trailing space 
//
,	""\" ++ [233]%N ++ runes_of_ascii """ , ""\" ++ [233]%N ++ runes_of_ascii """ // packet A { u8 x, }
] : calculatedFrom
    ,0123456789
    :o 10
    : rootA ,	} , //
zchar[0123456789 ]  BodyLength @lengthOf(
    repeatCount)
    , }packet
leftPad
    { @tag(007 //	t
) repeat string packetx  , }")).
Eval vm_compute in ("<<<M571>>>" ++ check (runes_of_ascii "packet leftPad { }
options
    { u8x =
    false ; A=	42 ; rootA = ""1"" ; }
root packet
crc { @leftPad ( '\x00' ) @calculatedFrom( ""`tick`""	)@calculatedFrom(
""a	b"") len{repeat Foo{ Foo  { char[ 255]  string_@calculatedFrom(  ""CRC32""  ) // a // b
`crlf
line` ,
    char[] chars  @lengthOf(_x  ) , } ,	repeat asx `
` ,},char[]trueish
@lengthOf(
i8i8
    ) ,repeat // @lengthOf(
msg_type`line1
line2` // `tick` ""quote"" 'q'
, zchar[ 10	]  asx ,
    }
, }
packet body
{ } packet
    Packet// " ++ [128512]%N ++ runes_of_ascii " emoji
{
    @lengthOf( zchar )string u8x
`two words` ,
    // packet A { u8 x, }
    } // " ++ [27880; 37322]%N)).
Eval vm_compute in ("<<<M603>>>" ++ check (runes_of_ascii "MetaData  T { float32 pack `` ,
i64_ i64_
    `" ++ [233]%N ++ runes_of_ascii "` , Packet o ,
//	t
//
i64_ Logon , As A , //
} packet a1
{@tag(/// triple
0123456789
) match lengthOf as As // 50% %s
{
    ""a\\"" :
repeatCount """ ++ [128512]%N ++ runes_of_ascii """
    :
x
[
65535 , 42
    ]
    : roots ,
[ 10 ,
0] : lengthOf // trailing space 
, }
,} 	 ")).
Eval vm_compute in ("<<<M635>>>" ++ check (runes_of_ascii "  packet	Header{
    @tag(
    0 )	repeat string_ zchar ,
char
    Z9_ @lengthOf( charz)
    ,char[]Packet ,
    // c
    @lengthOf( stringy
)
    @tag(7  ) @calculatedFrom( ""`tick`""	)float32 string_`" ++ [233]%N ++ runes_of_ascii "`
, } MetaData charz
    {
int32 string_ ,
    }
root
    packet	int
{ @calculatedFrom(
    ""a	b""
) zchar[
    65535 ] x_y_z `crlf
line`
    , @leftPad (
) o
    `" ++ [28040; 24687; 31867; 22411]%N ++ runes_of_ascii "` , uint8
leftPad@calculatedFrom(
    """ ++ [128512]%N ++ runes_of_ascii """  ), stringy len //x
`it's` ,
}
")).
Eval vm_compute in ("<<<M667>>>" ++ check (runes_of_ascii "options { // " ++ [128512]%N ++ runes_of_ascii " emoji
repeatCount = char[
3 ];u8x =	255 rootA = '0'
;
leftPad =
    // " ++ [27880; 37322]%N ++ runes_of_ascii "
    7	; } packet T {
float@lengthOf(  msg_type )`line1
line2` ,
    int16 o ,repeat
zchar[ 00 ] MetaDataX `u8 x,` ,
    @tag( 00	)
repeat
repeatCount	i64_ , falsey { repeat zchar charz`` ,} , f64 Logon
    @lengthOf(options1
    ) `// not a comment` ,  repeat f32 metadata
, roots a1
    , // " ++ [128512]%N ++ runes_of_ascii " emoji
}MetaData
    u8x{
string Packet /// triple
,
}")).
Eval vm_compute in ("<<<M699>>>" ++ check (runes_of_ascii "packet rootA { @leftPad
(
)@calculatedFrom(""" ++ [28040; 24687]%N ++ runes_of_ascii """)
@lengthOf(T) rootA
, @tag( 10	)
// `tick` ""quote"" 'q'
// packet A { u8 x, }
f64 i64_
@lengthOf( uint8x// packet A { u8 x, }
) , } packet
chars { repeat int16
MetaDataX , @rightPad ( //
' '
    ) int16// a // b
crc @lengthOf( leftPad
    ) , } 	 ")).
Eval vm_compute in ("<<<T699>>>" ++ terms [mkTok 35 "packet" 1 0 false; mkTok 42 "rootA" 1 7 false; mkTok 2 "{" 1 13 false; mkTok 32 "@leftPad" 1 15 false; mkTok 8 "(" 2 0 false; mkTok 6 ")" 3 0 false; mkTok 5 "@calculatedFrom(" 3 1 false; mkTok 31 (string_of_bytes [34; 230; 182; 136; 230; 129; 175; 34]%N) 3 17 false; mkTok 6 ")" 3 21 false; mkTok 7 "@lengthOf(" 4 0 false; mkTok 42 "T" 4 10 false; mkTok 6 ")" 4 11 false; mkTok 42 "rootA" 4 13 false; mkTok 40 "," 5 0 false; mkTok 9 "@tag(" 5 2 false; mkTok 30 "10" 5 8 false; mkTok 6 ")" 5 11 false; mkTok 44 "// `tick` ""quote"" 'q'" 6 0 true; mkTok 44 "// packet A { u8 x, }" 7 0 true; mkTok 29 "f64" 8 0 false; mkTok 42 "i64_" 8 4 false; mkTok 7 "@lengthOf(" 9 0 false; mkTok 42 "uint8x" 9 11 false; mkTok 44 "// packet A { u8 x, }" 9 17 true; mkTok 6 ")" 10 0 false; mkTok 40 "," 10 2 false; mkTok 3 "}" 10 4 false; mkTok 35 "packet" 10 6 false; mkTok 42 "chars" 11 0 false; mkTok 2 "{" 11 6 false; mkTok 36 "repeat" 11 8 false; mkTok 25 "int16" 11 15 false; mkTok 42 "MetaDataX" 12 0 false; mkTok 40 "," 12 10 false; mkTok 32 "@rightPad" 12 12 false; mkTok 8 "(" 12 22 false; mkTok 44 "//" 12 24 true; mkTok 33 "' '" 13 0 false; mkTok 6 ")" 14 4 false; mkTok 25 "int16" 14 6 false; mkTok 44 "// a // b" 14 11 true; mkTok 42 "crc" 15 0 false; mkTok 7 "@lengthOf(" 15 4 false; mkTok 42 "leftPad" 15 15 false; mkTok 6 ")" 16 4 false; mkTok 40 "," 16 6 false; mkTok 3 "}" 16 8 false; mkTok 0 "<EOF>" 16 12 false] (mkPacket (mkPtok 35 "packet" 1 0 0) (Some (mkPtok 3 "}" 16 8 46)) [(DPacket (mkPacketDef (mkSpan (mkPtok 35 "packet" 1 0 0) (mkPtok 3 "}" 10 4 26)) None (mkPtok 35 "packet" 1 0 0) (mkPtok 42 "rootA" 1 7 1) (mkPtok 2 "{" 1 13 2) [(mkFieldWithAttr (mkSpan (mkPtok 32 "@leftPad" 1 15 3) (mkPtok 40 "," 5 0 13)) [(FAPadding (mkSpan (mkPtok 32 "@leftPad" 1 15 3) (mkPtok 6 ")" 3 0 5)) (mkPaddingAttr (mkSpan (mkPtok 32 "@leftPad" 1 15 3) (mkPtok 6 ")" 3 0 5)) (mkPtok 32 "@leftPad" 1 15 3) (mkPtok 8 "(" 2 0 4) None (mkPtok 6 ")" 3 0 5))); (FACalculatedFrom (mkSpan (mkPtok 5 "@calculatedFrom(" 3 1 6) (mkPtok 6 ")" 3 21 8)) (mkCalculatedFrom (mkSpan (mkPtok 5 "@calculatedFrom(" 3 1 6) (mkPtok 6 ")" 3 21 8)) (mkPtok 5 "@calculatedFrom(" 3 1 6) (mkPtok 31 (string_of_bytes [34; 230; 182; 136; 230; 129; 175; 34]%N) 3 17 7) (mkPtok 6 ")" 3 21 8))); (FALengthOf (mkSpan (mkPtok 7 "@lengthOf(" 4 0 9) (mkPtok 6 ")" 4 11 11)) (mkLengthOf (mkSpan (mkPtok 7 "@lengthOf(" 4 0 9) (mkPtok 6 ")" 4 11 11)) (mkPtok 7 "@lengthOf(" 4 0 9) (mkPtok 42 "T" 4 10 10) (mkPtok 6 ")" 4 11 11)))] (ObjectField (mkSpan (mkPtok 42 "rootA" 4 13 12) (mkPtok 40 "," 5 0 13)) None (mkPtok 42 "rootA" 4 13 12) None None (mkPtok 40 "," 5 0 13))); (mkFieldWithAttr (mkSpan (mkPtok 9 "@tag(" 5 2 14) (mkPtok 40 "," 10 2 25)) [(FATag (mkSpan (mkPtok 9 "@tag(" 5 2 14) (mkPtok 6 ")" 5 11 16)) (mkTagAttr (mkSpan (mkPtok 9 "@tag(" 5 2 14) (mkPtok 6 ")" 5 11 16)) (mkPtok 9 "@tag(" 5 2 14) (mkPtok 30 "10" 5 8 15) (mkPtok 6 ")" 5 11 16)))] (LengthField (mkSpan (mkPtok 29 "f64" 8 0 19) (mkPtok 40 "," 10 2 25)) (mkLengthFieldDecl (mkSpan (mkPtok 29 "f64" 8 0 19) (mkPtok 40 "," 10 2 25)) (Some (TyBasic (mkSpan (mkPtok 29 "f64" 8 0 19) (mkPtok 29 "f64" 8 0 19)) (mkBasicType (mkSpan (mkPtok 29 "f64" 8 0 19) (mkPtok 29 "f64" 8 0 19)) (mkPtok 29 "f64" 8 0 19)))) (mkPtok 42 "i64_" 8 4 20) (mkLengthOf (mkSpan (mkPtok 7 "@lengthOf(" 9 0 21) (mkPtok 6 ")" 10 0 24)) (mkPtok 7 "@lengthOf(" 9 0 21) (mkPtok 42 "uint8x" 9 11 22) (mkPtok 6 ")" 10 0 24)) None (mkPtok 40 "," 10 2 25))))] (mkPtok 3 "}" 10 4 26))); (DPacket (mkPacketDef (mkSpan (mkPtok 35 "packet" 10 6 27) (mkPtok 3 "}" 16 8 46)) None (mkPtok 35 "packet" 10 6 27) (mkPtok 42 "chars" 11 0 28) (mkPtok 2 "{" 11 6 29) [(mkFieldWithAttr (mkSpan (mkPtok 36 "repeat" 11 8 30) (mkPtok 40 "," 12 10 33)) [] (MetaField (mkSpan (mkPtok 36 "repeat" 11 8 30) (mkPtok 40 "," 12 10 33)) (Some (mkPtok 36 "repeat" 11 8 30)) (mkMetaDecl (mkSpan (mkPtok 25 "int16" 11 15 31) (mkPtok 40 "," 12 10 33)) (TyBasic (mkSpan (mkPtok 25 "int16" 11 15 31) (mkPtok 25 "int16" 11 15 31)) (mkBasicType (mkSpan (mkPtok 25 "int16" 11 15 31) (mkPtok 25 "int16" 11 15 31)) (mkPtok 25 "int16" 11 15 31))) (mkPtok 42 "MetaDataX" 12 0 32) None (mkPtok 40 "," 12 10 33)))); (mkFieldWithAttr (mkSpan (mkPtok 32 "@rightPad" 12 12 34) (mkPtok 40 "," 16 6 45)) [(FAPadding (mkSpan (mkPtok 32 "@rightPad" 12 12 34) (mkPtok 6 ")" 14 4 38)) (mkPaddingAttr (mkSpan (mkPtok 32 "@rightPad" 12 12 34) (mkPtok 6 ")" 14 4 38)) (mkPtok 32 "@rightPad" 12 12 34) (mkPtok 8 "(" 12 22 35) (Some (mkPtok 33 "' '" 13 0 37)) (mkPtok 6 ")" 14 4 38)))] (LengthField (mkSpan (mkPtok 25 "int16" 14 6 39) (mkPtok 40 "," 16 6 45)) (mkLengthFieldDecl (mkSpan (mkPtok 25 "int16" 14 6 39) (mkPtok 40 "," 16 6 45)) (Some (TyBasic (mkSpan (mkPtok 25 "int16" 14 6 39) (mkPtok 25 "int16" 14 6 39)) (mkBasicType (mkSpan (mkPtok 25 "int16" 14 6 39) (mkPtok 25 "int16" 14 6 39)) (mkPtok 25 "int16" 14 6 39)))) (mkPtok 42 "crc" 15 0 41) (mkLengthOf (mkSpan (mkPtok 7 "@lengthOf(" 15 4 42) (mkPtok 6 ")" 16 4 44)) (mkPtok 7 "@lengthOf(" 15 4 42) (mkPtok 42 "leftPad" 15 15 43) (mkPtok 6 ")" 16 4 44)) None (mkPtok 40 "," 16 6 45))))] (mkPtok 3 "}" 16 8 46)))])).
Eval vm_compute in ("<<<M731>>>" ++ check (runes_of_ascii "packet u8x {repeat MetaDataX repeatCount
// `tick` ""quote"" 'q'
//
, }MetaData
u128 { // a // b
uint8
    charz `u8 x,`// " ++ [128512]%N ++ runes_of_ascii " emoji
,a1 charz
, f32 Foo , falsey packetx, }")).
Eval vm_compute in ("<<<M763>>>" ++ check (runes_of_ascii "// `tick` ""quote"" 'q'
root packet Z9_{ char[ 1 ] x_y_z
    @lengthOf( body) , i32 o
, repeat
    falsey u128 `it's`
, // `tick` ""quote"" 'q'
uint32  As  `` , repeat i8	i64_`100% of %d`, @calculatedFrom(
""a\""b""
)repeat float
    ,@rightPad ( // `tick` ""quote"" 'q'
'0'
)char[]u
`it's` ,
//
//x
u8x@calculatedFrom( ""x y"" ) `doc` // c
, //	t
int8
    stringy	`tab	here` , } packet calculatedFrom {
    f64  u128 @lengthOf(
    len ) ,
    } packet As  { float64 calculatedFrom `two words`
    ,  match repeatCount // packet A { u8 x, }
as // @lengthOf(
chars { """" :
charz	, } ,	repeat // 50% %s
trueish
{ u8 Z9_ ,
repeat
body,},
int float ,@leftPad (
)tag {	u16 string_
@calculatedFrom( ""`tick`"")`
` ,
zchar[007 ] x @calculatedFrom(""1""
//
// " ++ [128512]%N ++ runes_of_ascii " emoji
)`// not a comment`,
    }
    ,
A roots ,@tag(
4294967296 ) match msg_type	as  A{ 007
: msg_type  , /// triple
[
42
    // a // b
    , ""{,}""]  : x_y_z, 255
    //	t
    :  f32a // `tick` ""quote"" 'q'
,
[0123456789 ,	""1"" ] :
    T
,
} , @tag(0 ) o packetx
`" ++ [28040; 24687; 31867; 22411]%N ++ runes_of_ascii "`,
pack  int
    `two words`
    //	t
    ,// trailing space 
@rightPad ( ' '
) i64_  @lengthOf( Foo ), }")).
Eval vm_compute in ("<<<M795>>>" ++ check (runes_of_ascii "options { msg_type
=""a\\"" ;zchar = i64; }options
{matchKey // a // b
= ""a\\"" ;
options1=0123456789 len = 3 ; i64_
    = '\x00'; } packet Packet {
    char[
    // packet A { u8 x, }
    4294967296
] roots, }
// `tick` ""quote"" 'q'
")).
Eval vm_compute in ("<<<M827>>>" ++ check (runes_of_ascii "packet  BodyLength{ Pad	{Foo i64_ `say ""hi""`
, Header {// a // b
zchar[
10
    ] o ,} ,
repeat zchar[ 007 ]crc // trailing space 
, u16 i64_ //x
@calculatedFrom( ""1"" )/// triple
`a\` ,
} , } packet	uint8x{
@calculatedFrom( // packet A { u8 x, }
""a	b"") char[0123456789] x, i16
    repeatCount @calculatedFrom( // " ++ [27880; 37322]%N ++ runes_of_ascii "
""x y""
    ), repeat u32 roots	,@lengthOf( string_ )
    @lengthOf(	len
) @rightPad ( '\x00'
    ) repeat x_y_z{ repeat BodyLength , repeatCount
@lengthOf(
    charz // @lengthOf(
) `line1
line2`
,} ,
string u128 @calculatedFrom(
""// no comment"" ) `doc`
, char[]rootA `// not a comment` ,  }	packet T
{rootA
@lengthOf( tag ) `{ , }`, repeatCount x_y_z
`it's` ,
@tag(10 ) o options1,// " ++ [27880; 37322]%N ++ runes_of_ascii "
match zchar as Pad
{ """ ++ [233]%N ++ runes_of_ascii "t" ++ [233]%N ++ runes_of_ascii """ : trueish , 1 :	x_y_z ""packet"" : float 255 //x
:
    tag }
,}")).
Eval vm_compute in ("<<<M859>>>" ++ check (runes_of_ascii "//	t
packet charz // " ++ [128512]%N ++ runes_of_ascii " emoji
{ @leftPad ( ' '
    )repeat	As `line1
line2` , match tag
// packet A { u8 x, }
// " ++ [27880; 37322]%N ++ runes_of_ascii "
as
Logon { 007: roots ,
""" ++ [128512]%N ++ runes_of_ascii """
    // trailing space 
    :
    calculatedFrom
[65535
    , ""x y"",0 ,
"""" , """" ]: body // c
, ""\n"":	BodyLength, }
    , @leftPad
( '\x00' ) char[ 255
]
    msg_type
@lengthOf( matchKey ) `line1
line2` , u16 options1 @calculatedFrom(""{,}"" ) `two words` ,
Foo {repeat rootA , crc f32a `crlf
line` ,},@lengthOf( packetx	) repeat char[ 4294967296
]
i64_	,  @rightPad ( '0'
) roots stringy
    ,string a1	, @rightPad ( '\x00')
@rightPad ( // " ++ [27880; 37322]%N ++ runes_of_ascii "
'0' ) match
    Header as charz{ 3 :
repeatCount ""{,}"" :	len ,
    } ,@tag( 4294967296 )repeat
i8i8
//
// `tick` ""quote"" 'q'
matchKey `it's`
    ,
}  packet // " ++ [27880; 37322]%N ++ runes_of_ascii "
metadata {
    o { char[] Pad ,
    // `tick` ""quote"" 'q'
    match	repeatCount// @lengthOf(
as Z9_ {	0123456789 //
:  msg_type 4294967296:trueish
,  [""packet"",
""x y"" ]
    :falsey}  , repeat int string_ , // `tick` ""quote"" 'q'
}, @tag(
// a // b
// 50% %s
007
// trailing space 
// packet A { u8 x, }
)
    match Pad
    as
leftPad { [
    ""a\""b"", ""it's"",	""x y"" ,	""it's""  , 007 ,
""`tick`"" , 65535
] :
Header
[
42] : charz ,
007 : rootA , },
zchar[ 0123456789
]
falsey @lengthOf( metadata
    //	t
    ) , A {
    match x as /// triple
f32a {	0123456789 : repeatCount , [ """ ++ [28040; 24687]%N ++ runes_of_ascii """
    ]: tag
, 00 : i64_
},match lengthOf as	Packet {  65535 : string_
, // 50% %s
""a\""b""
    // c
    : roots,
4294967296	:
chars // @lengthOf(
,
    //x
    } ,
    char[
0
    ] x `" ++ [28040; 24687; 31867; 22411]%N ++ runes_of_ascii "` ,
    }
    , match msg_type as
Logon {
65535 : Pad ,}// " ++ [128512]%N ++ runes_of_ascii " emoji
,  @leftPad
( '0' ) repeat
metadata {repeat u32
    // a // b
    Foo`// not a comment`
,match _x // trailing space 
as Foo { // 50% %s
[ ""`tick`""] :
    Foo,
65535: repeatCount  , """ ++ [28040; 24687]%N ++ runes_of_ascii """	:crc""CRC32"" :
calculatedFrom , ""// no comment""
// a // b
// a // b
: lengthOf , }  , repeat int64 repeatCount
    ,
} ,
match Pad// c
as Packet {
""abc""  :
packetx , """" :rootA
    ,""a\""b"" :
    packetx ""\" ++ [233]%N ++ runes_of_ascii """ :f32a
    10	:
x_y_z , },
    u128 `// not a comment` ,@lengthOf( calculatedFrom
// " ++ [27880; 37322]%N ++ runes_of_ascii "
// " ++ [27880; 37322]%N ++ runes_of_ascii "
)match
string_
    // packet A { u8 x, }
    as  u {""" ++ [28040; 24687]%N ++ runes_of_ascii """
:x_y_z
    //
    255 :As	, 007 // " ++ [128512]%N ++ runes_of_ascii " emoji
:
// a // b
// packet A { u8 x, }
len """ ++ [233]%N ++ runes_of_ascii "t" ++ [233]%N ++ runes_of_ascii """ :
/// triple
// trailing space 
a1 0
// " ++ [27880; 37322]%N ++ runes_of_ascii "
//
:
Pad ,
    } ,}
")).
Eval vm_compute in ("<<<M891>>>" ++ check (runes_of_ascii "

")).
Eval vm_compute in ("<<<M923>>>" ++ check (runes_of_ascii "
")).
Eval vm_compute in ("<<<T923>>>" ++ terms [mkTok 0 "<EOF>" 2 0 false] (mkPacket (mkPtok 0 "<EOF>" 2 0 0) None [])).
Eval vm_compute in ("<<<M955>>>" ++ check (runes_of_ascii "packet // packet A { u8 x, }
zchar { }
options {
//x
// a // b
pack = """ ++ [128512]%N ++ runes_of_ascii """
} MetaData float {int16
Pad
    //
    ,asx u , char[]
// 50% %s
// " ++ [27880; 37322]%N ++ runes_of_ascii "
uint8x
    ,
} packet
    uint8x {  @lengthOf( Pad  ) /// triple
Logon stringy,
    @lengthOf(float	) zchar[
    00]
    float ,
@leftPad( '\x00'
)char[ 0 ]  zchar@lengthOf(Header ) `say ""hi""`
    ,
    zchar[
007
    ] Packet  `u8 x,`, repeat
    float32 BodyLength,	char[]stringy@calculatedFrom(
""// no comment""  ) , char[00 // a // b
]charz , @calculatedFrom(	""\" ++ [233]%N ++ runes_of_ascii """ )i32 i64_ @calculatedFrom(
""it's"" ), }
")).
Eval vm_compute in ("<<<M987>>>" ++ check (runes_of_ascii "packet uint8x{ @tag(7 ) @lengthOf( asx
)
    @tag( 0) zchar[ 65535
    // trailing space 
    ]
    // trailing space 
    f32a `line1
line2`
, string_
    , @tag( 0
) @calculatedFrom( ""a	b""
    /// triple
    ) @tag( 007 )
match
crc as // @lengthOf(
stringy
    {""`tick`"" :
As ""CRC32"":	metadata ,[// `tick` ""quote"" 'q'
""`tick`""]
:	stringy,
[ ""\" ++ [233]%N ++ runes_of_ascii """ ] : x""" ++ [233]%N ++ runes_of_ascii "t" ++ [233]%N ++ runes_of_ascii """ :roots ,
},
char[] trueish@lengthOf(Header ) ``	,
}

")).
Eval vm_compute in ("<<<M1019>>>" ++ check (runes_of_ascii "packet tag
{@tag( 10  ) // " ++ [27880; 37322]%N ++ runes_of_ascii "
match
float
as
    // trailing space 
    int  { ""a\""b"" : //x
msg_type
// `tick` ""quote"" 'q'
// packet A { u8 x, }
,
""a\""b"" : body, [ ""a\""b""
    ,
65535 , ""a	b"" ] :  Foo // c
, 255:// `tick` ""quote"" 'q'
trueish , [
    0123456789, // a // b
0123456789
] :
leftPad, [ ""abc"", 7
    ,0123456789 ,
    ""a\\"" ,""a\\"" , ""1"" , ""packet""	, // 50% %s
""{,}""]  : repeatCount , }
,
repeat u8x { float32 len@lengthOf( options1
) `line1
line2` , },@tag( //x
007 ) @leftPad ('\x00'
)	char[00
]As// " ++ [27880; 37322]%N ++ runes_of_ascii "
,@calculatedFrom( ""\" ++ [233]%N ++ runes_of_ascii """	) // a // b
string i64_ ,	char[]f32a, }
")).
Eval vm_compute in ("<<<M1051>>>" ++ check (runes_of_ascii "packet options1
    { Z9_ `
`
    // " ++ [27880; 37322]%N ++ runes_of_ascii "
    , @calculatedFrom( """" )float64 // a // b
_x,string len @calculatedFrom(
    // trailing space 
    ""`tick`""
)
    `// not a comment` ,
    match body as
charz
{
    ""a\""b"" :	f32a
    , [  ""\n""] : roots , 3 :
u128,
[	4294967296]
: i8i8 }
    ,
@lengthOf( chars
    ) char[
65535] len@calculatedFrom(
""// no comment""	) ,} options {
trueish = true
; Packet= 4294967296 o= char[] }
MetaData
metadata { trueish float
`a\` , tag float	, // packet A { u8 x, }
} root packet _x	{zchar[ 0123456789 ]
// `tick` ""quote"" 'q'
// " ++ [128512]%N ++ runes_of_ascii " emoji
BodyLength @calculatedFrom(
""a\""b"" )
, }options {
matchKey = // c
' '	} // 50% %s")).
Eval vm_compute in ("<<<M1083>>>" ++ check (runes_of_ascii "//x
packet Z9_ {
@lengthOf(
rootA)@calculatedFrom(// trailing space 
""\n""
) int8 Logon`` ,zchar[42  ]
T
    // `tick` ""quote"" 'q'
    @lengthOf( Foo
    // `tick` ""quote"" 'q'
    ) //
,
}  options {//
x_y_z =	""`tick`""
    ;rootA
=
""it's"" ; packetx = 1 ;BodyLength// packet A { u8 x, }
=  255 ; roots
= ""a\\"" //
}

")).
Eval vm_compute in ("<<<M1115>>>" ++ check (runes_of_ascii "packet crc{ repeat
zchar[
    7] Foo , repeat // c
u64
    pack
`u8 x,`	, u8x
{ char[]charz @lengthOf(
i8i8
    ) ,repeat crc , metadata { charz
, options1 string_
    // `tick` ""quote"" 'q'
    `crlf
line`
, } , char[
255] trueish , },
@lengthOf( As )@tag( 65535 )
u64 i64_ `it's` , len// @lengthOf(
{
    metadata
    {  zchar[ 00
    ]
trueish ,// c
}
, zchar[
65535 ]chars ,
match
    string_
as int
// 50% %s
// packet A { u8 x, }
{
65535 :  metadata	, """ ++ [128512]%N ++ runes_of_ascii """: u
,	[
    3// " ++ [27880; 37322]%N ++ runes_of_ascii "
, 3]
:
    As ,  42
    :int
, 1 : o , }
,
// " ++ [128512]%N ++ runes_of_ascii " emoji
// @lengthOf(
}
    ,	@calculatedFrom(
""a\""b""
) char[
65535 ] _x`
`	,  @calculatedFrom( ""1""  ) u128 rootA, // packet A { u8 x, }
int64
    i64_@lengthOf(charz )
    `crlf
line`, repeat roots,
@lengthOf(
    _x
    )
float
    @calculatedFrom(""x y"" ) `doc`,}root
packet  packetx{@rightPad ( )
    repeat u64 uint8x // @lengthOf(
,
@calculatedFrom(  """" )
@calculatedFrom(
""" ++ [233]%N ++ runes_of_ascii "t" ++ [233]%N ++ runes_of_ascii """ ) i32 pack// trailing space 
,
repeat /// triple
f64 T
    `say ""hi""`	, }MetaData	Logon
{ u8x
// " ++ [27880; 37322]%N ++ runes_of_ascii "
// " ++ [128512]%N ++ runes_of_ascii " emoji
Foo ,
char[ // `tick` ""quote"" 'q'
65535]// " ++ [27880; 37322]%N ++ runes_of_ascii "
int // " ++ [27880; 37322]%N ++ runes_of_ascii "
, }")).
Eval vm_compute in ("<<<M1147>>>" ++ check (runes_of_ascii "options	{ }
/// triple
//	t
MetaData string_
    // `tick` ""quote"" 'q'
    {	i64_ a1 ,u128
    x , A
    T `
`
    // packet A { u8 x, }
    ,options1 calculatedFrom//	t
`" ++ [28040; 24687; 31867; 22411]%N ++ runes_of_ascii "` ,
int8 roots `a\` , zchar[ 7 ]
MetaDataX
,
}")).
Eval vm_compute in ("<<<T1147>>>" ++ terms [mkTok 1 "options" 1 0 false; mkTok 2 "{" 1 8 false; mkTok 3 "}" 1 10 false; mkTok 44 "/// triple" 2 0 true; mkTok 44 (string_of_bytes [47; 47; 9; 116]%N) 3 0 true; mkTok 37 "MetaData" 4 0 false; mkTok 42 "string_" 4 9 false; mkTok 44 "// `tick` ""quote"" 'q'" 5 4 true; mkTok 2 "{" 6 4 false; mkTok 42 "i64_" 6 6 false; mkTok 42 "a1" 6 11 false; mkTok 40 "," 6 14 false; mkTok 42 "u128" 6 15 false; mkTok 42 "x" 7 4 false; mkTok 40 "," 7 6 false; mkTok 42 "A" 7 8 false; mkTok 42 "T" 8 4 false; mkTok 43 (string_of_bytes [96; 10; 96]%N) 8 6 false; mkTok 44 "// packet A { u8 x, }" 10 4 true; mkTok 40 "," 11 4 false; mkTok 42 "options1" 11 5 false; mkTok 42 "calculatedFrom" 11 14 false; mkTok 44 (string_of_bytes [47; 47; 9; 116]%N) 11 28 true; mkTok 43 (string_of_bytes [96; 230; 182; 136; 230; 129; 175; 231; 177; 187; 229; 158; 139; 96]%N) 12 0 false; mkTok 40 "," 12 7 false; mkTok 24 "int8" 13 0 false; mkTok 42 "roots" 13 5 false; mkTok 43 "`a\`" 13 11 false; mkTok 40 "," 13 16 false; mkTok 14 "zchar[" 13 18 false; mkTok 30 "7" 13 25 false; mkTok 13 "]" 13 27 false; mkTok 42 "MetaDataX" 14 0 false; mkTok 40 "," 15 0 false; mkTok 3 "}" 16 0 false; mkTok 0 "<EOF>" 16 1 false] (mkPacket (mkPtok 1 "options" 1 0 0) (Some (mkPtok 3 "}" 16 0 34)) [(DOption (mkOptionDef (mkSpan (mkPtok 1 "options" 1 0 0) (mkPtok 3 "}" 1 10 2)) (mkPtok 1 "options" 1 0 0) (mkPtok 2 "{" 1 8 1) [] (mkPtok 3 "}" 1 10 2))); (DMeta (mkMetaDef (mkSpan (mkPtok 37 "MetaData" 4 0 5) (mkPtok 3 "}" 16 0 34)) (mkPtok 37 "MetaData" 4 0 5) (mkPtok 42 "string_" 4 9 6) (mkPtok 2 "{" 6 4 8) [(MIRef (mkRefMetaDecl (mkSpan (mkPtok 42 "i64_" 6 6 9) (mkPtok 40 "," 6 14 11)) (mkPtok 42 "i64_" 6 6 9) (mkPtok 42 "a1" 6 11 10) None (mkPtok 40 "," 6 14 11))); (MIRef (mkRefMetaDecl (mkSpan (mkPtok 42 "u128" 6 15 12) (mkPtok 40 "," 7 6 14)) (mkPtok 42 "u128" 6 15 12) (mkPtok 42 "x" 7 4 13) None (mkPtok 40 "," 7 6 14))); (MIRef (mkRefMetaDecl (mkSpan (mkPtok 42 "A" 7 8 15) (mkPtok 40 "," 11 4 19)) (mkPtok 42 "A" 7 8 15) (mkPtok 42 "T" 8 4 16) (Some (mkPtok 43 (string_of_bytes [96; 10; 96]%N) 8 6 17)) (mkPtok 40 "," 11 4 19))); (MIRef (mkRefMetaDecl (mkSpan (mkPtok 42 "options1" 11 5 20) (mkPtok 40 "," 12 7 24)) (mkPtok 42 "options1" 11 5 20) (mkPtok 42 "calculatedFrom" 11 14 21) (Some (mkPtok 43 (string_of_bytes [96; 230; 182; 136; 230; 129; 175; 231; 177; 187; 229; 158; 139; 96]%N) 12 0 23)) (mkPtok 40 "," 12 7 24))); (MIDecl (mkMetaDecl (mkSpan (mkPtok 24 "int8" 13 0 25) (mkPtok 40 "," 13 16 28)) (TyBasic (mkSpan (mkPtok 24 "int8" 13 0 25) (mkPtok 24 "int8" 13 0 25)) (mkBasicType (mkSpan (mkPtok 24 "int8" 13 0 25) (mkPtok 24 "int8" 13 0 25)) (mkPtok 24 "int8" 13 0 25))) (mkPtok 42 "roots" 13 5 26) (Some (mkPtok 43 "`a\`" 13 11 27)) (mkPtok 40 "," 13 16 28))); (MIDecl (mkMetaDecl (mkSpan (mkPtok 14 "zchar[" 13 18 29) (mkPtok 40 "," 15 0 33)) (TyFixed (mkSpan (mkPtok 14 "zchar[" 13 18 29) (mkPtok 13 "]" 13 27 31)) (mkFixedString (mkSpan (mkPtok 14 "zchar[" 13 18 29) (mkPtok 13 "]" 13 27 31)) (mkPtok 14 "zchar[" 13 18 29) (mkPtok 30 "7" 13 25 30) (mkPtok 13 "]" 13 27 31))) (mkPtok 42 "MetaDataX" 14 0 32) None (mkPtok 40 "," 15 0 33)))] (mkPtok 3 "}" 16 0 34)))])).
Eval vm_compute in ("<<<M1179>>>" ++ check (runes_of_ascii "packet x_y_z {
float64	leftPad
    @lengthOf( repeatCount
) ,
    match msg_type
    //x
    as x {
    65535  :
// `tick` ""quote"" 'q'
// packet A { u8 x, }
roots ,  4294967296 : metadata
, } ,
} packet float{
u64 x_y_z // packet A { u8 x, }
`` , char[7 ]
    A	@lengthOf(Packet
    // 50% %s
    )`" ++ [233]%N ++ runes_of_ascii "` , repeat o { string MetaDataX
`{ , }` , } ,
@lengthOf( uint8x
)
    string int `it's`
    //
    ,  }")).
Eval vm_compute in ("<<<M1211>>>" ++ check (runes_of_ascii "options
{ calculatedFrom= ""\n"" ; } root packet lengthOf { /// triple
@calculatedFrom( ""\" ++ [233]%N ++ runes_of_ascii """ ) repeatCount
@calculatedFrom(
""\" ++ [233]%N ++ runes_of_ascii """ ) `
` , Logon, u@calculatedFrom( ""it's""  ),
    metadata rootA //	t
, char[ // 50% %s
42] u@calculatedFrom( ""a	b"")  , }
packet
Header{
    }

")).
Eval vm_compute in ("<<<M1243>>>" ++ check (runes_of_ascii "
packet
i8i8
{ // 50% %s
@rightPad
( ' ' )
@lengthOf( i64_ )@calculatedFrom(
""abc""
)
string crc	@calculatedFrom( """ ++ [128512]%N ++ runes_of_ascii """
) ,	char[
7 ] float  @calculatedFrom( ""{,}""
    )
    ,@rightPad( '\x00')match _x
as As	{
// " ++ [27880; 37322]%N ++ runes_of_ascii "
// `tick` ""quote"" 'q'
""\n""
:	asx[ 7 , """ ++ [28040; 24687]%N ++ runes_of_ascii """
    , ""\n""	, 0
    , 1 ] : leftPad,	0123456789	: len """ ++ [128512]%N ++ runes_of_ascii """ : Header
,
""a\\""
: // " ++ [27880; 37322]%N ++ runes_of_ascii "
u
, 4294967296 /// triple
:
    a1 } , @calculatedFrom(""\n"" ) float32 Header``
,// " ++ [128512]%N ++ runes_of_ascii " emoji
}
")).
Eval vm_compute in ("<<<M1275>>>" ++ check (runes_of_ascii "packet Logon
    {repeat zchar[ 007] zchar//
,
}")).
Eval vm_compute in ("<<<M1307>>>" ++ check (runes_of_ascii "options { options1
= // " ++ [27880; 37322]%N ++ runes_of_ascii "
true // @lengthOf(
}
// 50% %s
// c
packet Header{
    // c
    @calculatedFrom(
// packet A { u8 x, }
//
""" ++ [233]%N ++ runes_of_ascii "t" ++ [233]%N ++ runes_of_ascii """ ) u16
Foo ,}
    root packet pack {@tag( 255
) a1 { // packet A { u8 x, }
char[] x_y_z, } ,
@lengthOf( falsey) uint64 tag , char[]
    // `tick` ""quote"" 'q'
    Header@calculatedFrom(""// no comment""	) ,
@leftPad ( '0'  ) @rightPad ('\x00' ) tag @calculatedFrom(
// " ++ [128512]%N ++ runes_of_ascii " emoji
// " ++ [27880; 37322]%N ++ runes_of_ascii "
""" ++ [28040; 24687]%N ++ runes_of_ascii """
// @lengthOf(
// c
) , uint16 x @calculatedFrom( ""`tick`"" ) `tab	here`
    ,
    repeat  i64 string_ `u8 x,`
, _x @calculatedFrom( ""packet"" ) `// not a comment` , repeat // @lengthOf(
x {// `tick` ""quote"" 'q'
i32 o `
`
    // " ++ [27880; 37322]%N ++ runes_of_ascii "
    ,}
    ,
    match uint8x// `tick` ""quote"" 'q'
as falsey {""\" ++ [233]%N ++ runes_of_ascii """ :
falsey , 4294967296 : roots """ ++ [28040; 24687]%N ++ runes_of_ascii """ :
float
,// " ++ [27880; 37322]%N ++ runes_of_ascii "
[  1 , /// triple
1 , """" ,
// trailing space 
// @lengthOf(
""CRC32""
    ,00 , ""a	b"" ,""a	b"" ] :calculatedFrom
    }
, @calculatedFrom(""{,}"") //x
zchar[ 00
    ] Pad , } packet
    /// triple
    calculatedFrom { }
")).
Eval vm_compute in ("<<<M1339>>>" ++ check (runes_of_ascii "root packet
metadata {
}// " ++ [128512]%N ++ runes_of_ascii " emoji
packet tag { @leftPad
    ('0'
)	@lengthOf(	asx//
) @rightPad ( // " ++ [128512]%N ++ runes_of_ascii " emoji
'\x00') repeat u16 stringy`
`
    , } options{ Foo =
    ""// no comment""leftPad
= false
; }
    packet
chars{ string
uint8x @lengthOf(float
) , }
")).
Eval vm_compute in ("<<<M1371>>>" ++ check (runes_of_ascii "options // 50% %s
{u128 // @lengthOf(
= // packet A { u8 x, }
zchar[3 ] ; body=
""a\""b""
    //x
    ;  options1 =false ;	}
")).
Eval vm_compute in ("<<<T1371>>>" ++ terms [mkTok 1 "options" 1 0 false; mkTok 44 "// 50% %s" 1 8 true; mkTok 2 "{" 2 0 false; mkTok 42 "u128" 2 1 false; mkTok 44 "// @lengthOf(" 2 6 true; mkTok 4 "=" 3 0 false; mkTok 44 "// packet A { u8 x, }" 3 2 true; mkTok 14 "zchar[" 4 0 false; mkTok 30 "3" 4 6 false; mkTok 13 "]" 4 8 false; mkTok 41 ";" 4 10 false; mkTok 42 "body" 4 12 false; mkTok 4 "=" 4 16 false; mkTok 31 """a\""b""" 5 0 false; mkTok 44 "//x" 6 4 true; mkTok 41 ";" 7 4 false; mkTok 42 "options1" 7 7 false; mkTok 4 "=" 7 16 false; mkTok 11 "false" 7 17 false; mkTok 41 ";" 7 23 false; mkTok 3 "}" 7 25 false; mkTok 0 "<EOF>" 8 0 false] (mkPacket (mkPtok 1 "options" 1 0 0) (Some (mkPtok 3 "}" 7 25 20)) [(DOption (mkOptionDef (mkSpan (mkPtok 1 "options" 1 0 0) (mkPtok 3 "}" 7 25 20)) (mkPtok 1 "options" 1 0 0) (mkPtok 2 "{" 2 0 2) [(mkOptionDecl (mkSpan (mkPtok 42 "u128" 2 1 3) (mkPtok 41 ";" 4 10 10)) (mkPtok 42 "u128" 2 1 3) (mkPtok 4 "=" 3 0 5) (VType (mkSpan (mkPtok 14 "zchar[" 4 0 7) (mkPtok 13 "]" 4 8 9)) (TyFixed (mkSpan (mkPtok 14 "zchar[" 4 0 7) (mkPtok 13 "]" 4 8 9)) (mkFixedString (mkSpan (mkPtok 14 "zchar[" 4 0 7) (mkPtok 13 "]" 4 8 9)) (mkPtok 14 "zchar[" 4 0 7) (mkPtok 30 "3" 4 6 8) (mkPtok 13 "]" 4 8 9)))) (Some (mkPtok 41 ";" 4 10 10))); (mkOptionDecl (mkSpan (mkPtok 42 "body" 4 12 11) (mkPtok 41 ";" 7 4 15)) (mkPtok 42 "body" 4 12 11) (mkPtok 4 "=" 4 16 12) (VString (mkSpan (mkPtok 31 """a\""b""" 5 0 13) (mkPtok 31 """a\""b""" 5 0 13)) (mkPtok 31 """a\""b""" 5 0 13)) (Some (mkPtok 41 ";" 7 4 15))); (mkOptionDecl (mkSpan (mkPtok 42 "options1" 7 7 16) (mkPtok 41 ";" 7 23 19)) (mkPtok 42 "options1" 7 7 16) (mkPtok 4 "=" 7 16 17) (VFalse (mkSpan (mkPtok 11 "false" 7 17 18) (mkPtok 11 "false" 7 17 18)) (mkPtok 11 "false" 7 17 18)) (Some (mkPtok 41 ";" 7 23 19)))] (mkPtok 3 "}" 7 25 20)))])).
Eval vm_compute in ("<<<M1403>>>" ++ check (runes_of_ascii "packet
    Packet {  @lengthOf(
    crc
    ) // 50% %s
repeat zchar[ 0123456789 ] charz, @lengthOf(
len )
    leftPad	x_y_z  , x{
    string a1
@lengthOf( Logon
) ,
}
,@tag( 0
    //
    ) @lengthOf(u8x )@calculatedFrom( ""it's""	) string
zchar
`` ,
}
MetaData repeatCount
    { } packet trueish { u64 o// " ++ [27880; 37322]%N ++ runes_of_ascii "
@lengthOf(
T )
    ,
repeat f64
    BodyLength , int32	x @calculatedFrom(
    ""1""
    ),
    @tag( 10) Z9_ `{ , }`
    , f32a // trailing space 
{
    //x
    repeat zchar[ 0123456789
    ] A , repeat// trailing space 
i64
stringy
    ,//
leftPad
    //x
    `tab	here`,
} ,	}//
packet
u128
{ match _x
as // " ++ [128512]%N ++ runes_of_ascii " emoji
MetaDataX {	[""x y"", 42	]
: A
    , } , // " ++ [128512]%N ++ runes_of_ascii " emoji
@lengthOf( charz) charz
    { match x_y_z
as f32a { [007,// trailing space 
10
// @lengthOf(
// `tick` ""quote"" 'q'
, 42 , """ ++ [233]%N ++ runes_of_ascii "t" ++ [233]%N ++ runes_of_ascii """
,
0123456789/// triple
]:x_y_z, 7: u128 ,""// no comment"" : repeatCount, // " ++ [128512]%N ++ runes_of_ascii " emoji
""a\\"" :	int
,""x y"":
u128 } , } , i16
chars @lengthOf(
zchar
)
`it's` ,
}	packet asx {}")).
Eval vm_compute in ("<<<M1435>>>" ++ check (runes_of_ascii "MetaData	options1	{	}
")).
Eval vm_compute in ("<<<M1467>>>" ++ check (runes_of_ascii "MetaData // " ++ [128512]%N ++ runes_of_ascii " emoji
o { }
    packet string_ {
@lengthOf(
f32a ) @lengthOf( zchar )tag
{T roots `" ++ [28040; 24687; 31867; 22411]%N ++ runes_of_ascii "`
    // " ++ [128512]%N ++ runes_of_ascii " emoji
    ,
tag
    packetx  `{ , }` ,
    } , repeat string int ,@calculatedFrom( ""a\""b"" ) @leftPad(
    '0'
    )	u64 string_ `a\` , } packet  charz
    {
    uint32	options1
`100% of %d` , }
")).
Eval vm_compute in ("<<<M1499>>>" ++ check (runes_of_ascii "root packet
Foo { metadata Foo ,
// " ++ [128512]%N ++ runes_of_ascii " emoji
// " ++ [27880; 37322]%N ++ runes_of_ascii "
zchar[// @lengthOf(
255 ] asx@calculatedFrom( ""\" ++ [233]%N ++ runes_of_ascii """
) ,repeat i64 i64_ `line1
line2` , } options { msg_type
= 65535	chars
    = '0' ; } root
    packet// @lengthOf(
roots
{ string
msg_type
`say ""hi""`
    ,// " ++ [27880; 37322]%N ++ runes_of_ascii "
repeat
// 50% %s
// 50% %s
repeatCount
x_y_z , f64 uint8x // trailing space 
, @lengthOf(
lengthOf ) roots @calculatedFrom( """ ++ [128512]%N ++ runes_of_ascii """)
`// not a comment`//	t
, repeatCount uint8x
, repeat int64
    metadata `it's` , @rightPad ('\x00'
) @lengthOf(charz ) // 50% %s
int8 /// triple
BodyLength ,
@leftPad  ( '0' ) As
{rootA { int64 matchKey, } ,
    repeat zchar[
    1/// triple
]
body `u8 x,`
, f32
Z9_`a\`,roots , }, match stringy
    as zchar  {
7 :
uint8x	[ ""// no comment"" ,
    /// triple
    """",""`tick`"" ,
0123456789] : body ,// `tick` ""quote"" 'q'
""packet"": i8i8 , [ ""abc"" ,0
    ,""CRC32"" ] :
repeatCount
    ,
    3 //	t
:falsey ,
[ /// triple
255 //x
, ""\" ++ [233]%N ++ runes_of_ascii """ ]  : i64_ }, }
")).
Eval vm_compute in ("<<<M1531>>>" ++ check (runes_of_ascii "packet
    trueish { }
")).
Eval vm_compute in ("<<<M1563>>>" ++ check (runes_of_ascii "packet asx {	repeat
chars
BodyLength
    // c
    , char[  1
    ]
float
,
}")).
Eval vm_compute in ("<<<M1595>>>" ++ check (runes_of_ascii "packet Logon{
Z9_/// triple
`line1
line2` ,  @lengthOf(roots)// trailing space 
Packet @calculatedFrom( ""`tick`""	) `line1
line2`  , @tag( 255 )	@tag( 65535
)// c
@leftPad
//x
//	t
( '\x00' ) char Pad @lengthOf( packetx
) , } 	 ")).
Eval vm_compute in ("<<<T1595>>>" ++ terms [mkTok 35 "packet" 1 0 false; mkTok 42 "Logon" 1 7 false; mkTok 2 "{" 1 12 false; mkTok 42 "Z9_" 2 0 false; mkTok 44 "/// triple" 2 3 true; mkTok 43 (string_of_bytes [96; 108; 105; 110; 101; 49; 10; 108; 105; 110; 101; 50; 96]%N) 3 0 false; mkTok 40 "," 4 7 false; mkTok 7 "@lengthOf(" 4 10 false; mkTok 42 "roots" 4 20 false; mkTok 6 ")" 4 25 false; mkTok 44 "// trailing space " 4 26 true; mkTok 42 "Packet" 5 0 false; mkTok 5 "@calculatedFrom(" 5 7 false; mkTok 31 """`tick`""" 5 24 false; mkTok 6 ")" 5 33 false; mkTok 43 (string_of_bytes [96; 108; 105; 110; 101; 49; 10; 108; 105; 110; 101; 50; 96]%N) 5 35 false; mkTok 40 "," 6 8 false; mkTok 9 "@tag(" 6 10 false; mkTok 30 "255" 6 16 false; mkTok 6 ")" 6 20 false; mkTok 9 "@tag(" 6 22 false; mkTok 30 "65535" 6 28 false; mkTok 6 ")" 7 0 false; mkTok 44 "// c" 7 1 true; mkTok 32 "@leftPad" 8 0 false; mkTok 44 "//x" 9 0 true; mkTok 44 (string_of_bytes [47; 47; 9; 116]%N) 10 0 true; mkTok 8 "(" 11 0 false; mkTok 33 "'\x00'" 11 2 false; mkTok 6 ")" 11 9 false; mkTok 19 "char" 11 11 false; mkTok 42 "Pad" 11 16 false; mkTok 7 "@lengthOf(" 11 20 false; mkTok 42 "packetx" 11 31 false; mkTok 6 ")" 12 0 false; mkTok 40 "," 12 2 false; mkTok 3 "}" 12 4 false; mkTok 0 "<EOF>" 12 8 false] (mkPacket (mkPtok 35 "packet" 1 0 0) (Some (mkPtok 3 "}" 12 4 36)) [(DPacket (mkPacketDef (mkSpan (mkPtok 35 "packet" 1 0 0) (mkPtok 3 "}" 12 4 36)) None (mkPtok 35 "packet" 1 0 0) (mkPtok 42 "Logon" 1 7 1) (mkPtok 2 "{" 1 12 2) [(mkFieldWithAttr (mkSpan (mkPtok 42 "Z9_" 2 0 3) (mkPtok 40 "," 4 7 6)) [] (ObjectField (mkSpan (mkPtok 42 "Z9_" 2 0 3) (mkPtok 40 "," 4 7 6)) None (mkPtok 42 "Z9_" 2 0 3) None (Some (mkPtok 43 (string_of_bytes [96; 108; 105; 110; 101; 49; 10; 108; 105; 110; 101; 50; 96]%N) 3 0 5)) (mkPtok 40 "," 4 7 6))); (mkFieldWithAttr (mkSpan (mkPtok 7 "@lengthOf(" 4 10 7) (mkPtok 40 "," 6 8 16)) [(FALengthOf (mkSpan (mkPtok 7 "@lengthOf(" 4 10 7) (mkPtok 6 ")" 4 25 9)) (mkLengthOf (mkSpan (mkPtok 7 "@lengthOf(" 4 10 7) (mkPtok 6 ")" 4 25 9)) (mkPtok 7 "@lengthOf(" 4 10 7) (mkPtok 42 "roots" 4 20 8) (mkPtok 6 ")" 4 25 9)))] (CheckSumField (mkSpan (mkPtok 42 "Packet" 5 0 11) (mkPtok 40 "," 6 8 16)) (mkChecksumFieldDecl (mkSpan (mkPtok 42 "Packet" 5 0 11) (mkPtok 40 "," 6 8 16)) None (mkPtok 42 "Packet" 5 0 11) (mkCalculatedFrom (mkSpan (mkPtok 5 "@calculatedFrom(" 5 7 12) (mkPtok 6 ")" 5 33 14)) (mkPtok 5 "@calculatedFrom(" 5 7 12) (mkPtok 31 """`tick`""" 5 24 13) (mkPtok 6 ")" 5 33 14)) (Some (mkPtok 43 (string_of_bytes [96; 108; 105; 110; 101; 49; 10; 108; 105; 110; 101; 50; 96]%N) 5 35 15)) (mkPtok 40 "," 6 8 16)))); (mkFieldWithAttr (mkSpan (mkPtok 9 "@tag(" 6 10 17) (mkPtok 40 "," 12 2 35)) [(FATag (mkSpan (mkPtok 9 "@tag(" 6 10 17) (mkPtok 6 ")" 6 20 19)) (mkTagAttr (mkSpan (mkPtok 9 "@tag(" 6 10 17) (mkPtok 6 ")" 6 20 19)) (mkPtok 9 "@tag(" 6 10 17) (mkPtok 30 "255" 6 16 18) (mkPtok 6 ")" 6 20 19))); (FATag (mkSpan (mkPtok 9 "@tag(" 6 22 20) (mkPtok 6 ")" 7 0 22)) (mkTagAttr (mkSpan (mkPtok 9 "@tag(" 6 22 20) (mkPtok 6 ")" 7 0 22)) (mkPtok 9 "@tag(" 6 22 20) (mkPtok 30 "65535" 6 28 21) (mkPtok 6 ")" 7 0 22))); (FAPadding (mkSpan (mkPtok 32 "@leftPad" 8 0 24) (mkPtok 6 ")" 11 9 29)) (mkPaddingAttr (mkSpan (mkPtok 32 "@leftPad" 8 0 24) (mkPtok 6 ")" 11 9 29)) (mkPtok 32 "@leftPad" 8 0 24) (mkPtok 8 "(" 11 0 27) (Some (mkPtok 33 "'\x00'" 11 2 28)) (mkPtok 6 ")" 11 9 29)))] (LengthField (mkSpan (mkPtok 19 "char" 11 11 30) (mkPtok 40 "," 12 2 35)) (mkLengthFieldDecl (mkSpan (mkPtok 19 "char" 11 11 30) (mkPtok 40 "," 12 2 35)) (Some (TyBasic (mkSpan (mkPtok 19 "char" 11 11 30) (mkPtok 19 "char" 11 11 30)) (mkBasicType (mkSpan (mkPtok 19 "char" 11 11 30) (mkPtok 19 "char" 11 11 30)) (mkPtok 19 "char" 11 11 30)))) (mkPtok 42 "Pad" 11 16 31) (mkLengthOf (mkSpan (mkPtok 7 "@lengthOf(" 11 20 32) (mkPtok 6 ")" 12 0 34)) (mkPtok 7 "@lengthOf(" 11 20 32) (mkPtok 42 "packetx" 11 31 33) (mkPtok 6 ")" 12 0 34)) None (mkPtok 40 "," 12 2 35))))] (mkPtok 3 "}" 12 4 36)))])).
Eval vm_compute in ("<<<M1627>>>" ++ check (runes_of_ascii "// " ++ [27880; 37322]%N ++ runes_of_ascii "
packet Logon { @leftPad
    (  ) zchar[7 ]metadata @lengthOf( msg_type
    ) ,}
")).
Eval vm_compute in ("<<<M1659>>>" ++ check (runes_of_ascii "packet u128
// trailing space 
//
{match Packet as
    i8i8 {  ""CRC32"" :
metadata ,
// " ++ [27880; 37322]%N ++ runes_of_ascii "
// c
}, repeat	pack
{i8i8 @lengthOf( i64_ )
, }, // a // b
string falsey	@calculatedFrom( ""1"" )
/// triple
// " ++ [128512]%N ++ runes_of_ascii " emoji
,@tag(42 ) //
o @lengthOf( // `tick` ""quote"" 'q'
matchKey)
,}packet float { As
u
,  char[ 3
// 50% %s
// @lengthOf(
]charz ,
/// triple
// c
}
    packet crc
// packet A { u8 x, }
// packet A { u8 x, }
{ @lengthOf(A )	repeat
    stringy { uint16 chars `" ++ [28040; 24687; 31867; 22411]%N ++ runes_of_ascii "`, x {i16 metadata  @calculatedFrom( ""it's""
) `tab	here` ,
    }
    ,// c
packetx	@lengthOf(
    float )`` ,match int as asx { [
    3 , 3 ] :
    x_y_z
    , 65535 : u8x
,
// `tick` ""quote"" 'q'
// a // b
0123456789: f32a
    , [ 10
    // packet A { u8 x, }
    , 4294967296 , 007
, 7 , ""1"" ]:
crc
, 0 : // trailing space 
tag 42: falsey , } , }
,}
")).
Eval vm_compute in ("<<<M1691>>>" ++ check (runes_of_ascii "packet chars
{ @tag( 007 ) zchar[
    0123456789 ]zchar
    @lengthOf(rootA	)
,
repeat char[ 3 ] i8i8,
    u8 //x
T
    // a // b
    ,
@calculatedFrom(	""packet""	) trueish { zchar[ 007
] tag , zchar[
4294967296
]
    tag, string  charz `{ , }` ,zchar[  1
    ] // @lengthOf(
u128, }	,MetaDataX @calculatedFrom( ""{,}""	) `crlf
line`,
}
MetaData x {char[] A `u8 x,` , }root// c
packet Z9_{@calculatedFrom(""" ++ [28040; 24687]%N ++ runes_of_ascii """
)  @tag(42 )
match charz	as u128
{
    [ ""it's""]// 50% %s
:	leftPad
// 50% %s
//x
,	1
: packetx [
    ""abc""] : lengthOf // @lengthOf(
, 65535 : leftPad
, 0123456789 : MetaDataX
,  },  }
packet u128
    { }
")).
Eval vm_compute in ("<<<M1723>>>" ++ check (runes_of_ascii "
packet metadata  {
match
    asx as
    options1{
""it's"" :
    // `tick` ""quote"" 'q'
    string_ } ,
// a // b
// a // b
@tag(
10
)	@rightPad(
    )	@rightPad(
) zchar[ 0 ]
    x ,
uint8
charz @calculatedFrom(""" ++ [233]%N ++ runes_of_ascii "t" ++ [233]%N ++ runes_of_ascii """ ) , u16 //	t
matchKey , @calculatedFrom( ""`tick`"" ) repeat
    // " ++ [27880; 37322]%N ++ runes_of_ascii "
    char[]	uint8x `
`
    ,
char[00 ]tag@calculatedFrom(
    ""\n"") , asx, @rightPad
(
) repeat	zchar[ 0 ]
u `u8 x,`
    ,
repeat u16 lengthOf,MetaDataX
    // trailing space 
    `100% of %d` , }packet u
{repeat float32 MetaDataX `a\` , @tag(//x
42  ) f32a @calculatedFrom( ""{,}"" ) ,}
")).
Eval vm_compute in ("<<<M1755>>>" ++ check (runes_of_ascii "options	{ } root packet Pad {
@lengthOf(rootA ) char[ 7  ] As
    , zchar[ // trailing space 
10 ] A,
repeat u32 T `100% of %d` ,
@rightPad ( // 50% %s
)
uint16 len, }")).
Eval vm_compute in ("<<<M1787>>>" ++ check (runes_of_ascii "packet	rootA
    // `tick` ""quote"" 'q'
    { @lengthOf( f32a // @lengthOf(
)@rightPad ( '\x00' )@tag( 65535 )
    i8
    //x
    As ,  } options { pack
=
    /// triple
    10} root packet
a1{ } 	 ")).
Eval vm_compute in ("<<<M1819>>>" ++ check (runes_of_ascii "
packet // `tick` ""quote"" 'q'
A{	@calculatedFrom( ""abc"" ) repeat BodyLength	, // packet A { u8 x, }
}
packet stringy { }
    //	t
    options
    // trailing space 
    { falsey ='\x00'}
")).
Eval vm_compute in ("<<<T1819>>>" ++ terms [mkTok 35 "packet" 2 0 false; mkTok 44 "// `tick` ""quote"" 'q'" 2 7 true; mkTok 42 "A" 3 0 false; mkTok 2 "{" 3 1 false; mkTok 5 "@calculatedFrom(" 3 3 false; mkTok 31 """abc""" 3 20 false; mkTok 6 ")" 3 26 false; mkTok 36 "repeat" 3 28 false; mkTok 42 "BodyLength" 3 35 false; mkTok 40 "," 3 46 false; mkTok 44 "// packet A { u8 x, }" 3 48 true; mkTok 3 "}" 4 0 false; mkTok 35 "packet" 5 0 false; mkTok 42 "stringy" 5 7 false; mkTok 2 "{" 5 15 false; mkTok 3 "}" 5 17 false; mkTok 44 (string_of_bytes [47; 47; 9; 116]%N) 6 4 true; mkTok 1 "options" 7 4 false; mkTok 44 "// trailing space " 8 4 true; mkTok 2 "{" 9 4 false; mkTok 42 "falsey" 9 6 false; mkTok 4 "=" 9 13 false; mkTok 33 "'\x00'" 9 14 false; mkTok 3 "}" 9 20 false; mkTok 0 "<EOF>" 10 0 false] (mkPacket (mkPtok 35 "packet" 2 0 0) (Some (mkPtok 3 "}" 9 20 23)) [(DPacket (mkPacketDef (mkSpan (mkPtok 35 "packet" 2 0 0) (mkPtok 3 "}" 4 0 11)) None (mkPtok 35 "packet" 2 0 0) (mkPtok 42 "A" 3 0 2) (mkPtok 2 "{" 3 1 3) [(mkFieldWithAttr (mkSpan (mkPtok 5 "@calculatedFrom(" 3 3 4) (mkPtok 40 "," 3 46 9)) [(FACalculatedFrom (mkSpan (mkPtok 5 "@calculatedFrom(" 3 3 4) (mkPtok 6 ")" 3 26 6)) (mkCalculatedFrom (mkSpan (mkPtok 5 "@calculatedFrom(" 3 3 4) (mkPtok 6 ")" 3 26 6)) (mkPtok 5 "@calculatedFrom(" 3 3 4) (mkPtok 31 """abc""" 3 20 5) (mkPtok 6 ")" 3 26 6)))] (ObjectField (mkSpan (mkPtok 36 "repeat" 3 28 7) (mkPtok 40 "," 3 46 9)) (Some (mkPtok 36 "repeat" 3 28 7)) (mkPtok 42 "BodyLength" 3 35 8) None None (mkPtok 40 "," 3 46 9)))] (mkPtok 3 "}" 4 0 11))); (DPacket (mkPacketDef (mkSpan (mkPtok 35 "packet" 5 0 12) (mkPtok 3 "}" 5 17 15)) None (mkPtok 35 "packet" 5 0 12) (mkPtok 42 "stringy" 5 7 13) (mkPtok 2 "{" 5 15 14) [] (mkPtok 3 "}" 5 17 15))); (DOption (mkOptionDef (mkSpan (mkPtok 1 "options" 7 4 17) (mkPtok 3 "}" 9 20 23)) (mkPtok 1 "options" 7 4 17) (mkPtok 2 "{" 9 4 19) [(mkOptionDecl (mkSpan (mkPtok 42 "falsey" 9 6 20) (mkPtok 33 "'\x00'" 9 14 22)) (mkPtok 42 "falsey" 9 6 20) (mkPtok 4 "=" 9 13 21) (VPaddingChar (mkSpan (mkPtok 33 "'\x00'" 9 14 22) (mkPtok 33 "'\x00'" 9 14 22)) (mkPtok 33 "'\x00'" 9 14 22)) None)] (mkPtok 3 "}" 9 20 23)))])).
Eval vm_compute in ("<<<M1851>>>" ++ check (runes_of_ascii "packet crc{
    } // a // b
options
    {
// a // b
// a // b
charz = // 50% %s
'\x00'float=
f32 ; _x =00 //
;
i64_ = """"leftPad =255}")).
Eval vm_compute in ("<<<M1883>>>" ++ check (runes_of_ascii "root packet u128{ } packet	x_y_z{ zchar[ 7 ] len`two words` ,@lengthOf( // trailing space 
u128
    ) match o
as Packet {[ 007 ] : pack, [ 0123456789 , ""CRC32"" ,// packet A { u8 x, }
""" ++ [28040; 24687]%N ++ runes_of_ascii """ , 0 ,
""CRC32""
, 3 , 1 , 4294967296 ]  :
    msg_type""{,}"" :
    // @lengthOf(
    roots ,
}, @leftPad (
    '0'  ) // packet A { u8 x, }
u16
Z9_ `line1
line2`, }
")).
Eval vm_compute in ("<<<M1915>>>" ++ check (runes_of_ascii "options
{// `tick` ""quote"" 'q'
Header = true	; stringy =
    uint8} packet
    calculatedFrom{@calculatedFrom(""a	b"" ) @rightPad ( '\x00'	)
    @lengthOf( Foo )i64 a1
    , }
")).
Eval vm_compute in ("<<<M1947>>>" ++ check (@nil rune)).
Eval vm_compute in ("<<<M1979>>>" ++ check (runes_of_ascii "packet crc // " ++ [128512]%N ++ runes_of_ascii " emoji
{ }")).
Eval vm_compute in ("<<<M2011>>>" ++ check (runes_of_ascii "repeatCount MetaData { float64 packetx,
} root packet  metadata {
char _x @lengthOf( trueish ), @leftPad
( ' '// " ++ [27880; 37322]%N ++ runes_of_ascii "
)/// triple
char[] len`doc` , // packet A { u8 x, }
repeatCount , }
")).
Eval vm_compute in ("<<<M2043>>>" ++ check (runes_of_ascii "MetaData repeatCount { float64 packetx,")).
Eval vm_compute in ("<<<M2075>>>" ++ check (runes_of_ascii "MetaData repeatCount { float64 packetx,
} root packet  metadata {
char _x @lengthOf( @lengthOf( trueish ), @leftPad
( ' '// " ++ [27880; 37322]%N ++ runes_of_ascii "
)/// triple
char[] len`doc` , // packet A { u8 x, }
repeatCount , }
")).
Eval vm_compute in ("<<<M2107>>>" ++ check (runes_of_ascii "MetaData repeatCount { float64 packetx,
} root packet  metadata {
char _x @lengthOf( trueish ), @leftPad
( MetaData// " ++ [27880; 37322]%N ++ runes_of_ascii "
)/// triple
char[] len`doc` , // packet A { u8 x, }
repeatCount , }
")).
Eval vm_compute in ("<<<M2139>>>" ++ check (runes_of_ascii "MetaData repeatCount { float64 packetx,
} root packet  metadata {
char _x @lengthOf( trueish ), @leftPad
( ' '// " ++ [27880; 37322]%N ++ runes_of_ascii "
)/// triple
char[] len`doc` , // packet A { u8 x, }
repeatCount  }
")).
Eval vm_compute in ("<<<M2171>>>" ++ check (runes_of_ascii "options options{
leftPad
    =65535
;
a1 = true ; packetx=  '\x00' ; packetx
=  """ ++ [28040; 24687]%N ++ runes_of_ascii """MetaDataX= // " ++ [27880; 37322]%N ++ runes_of_ascii "
false }root // c
packet // packet A { u8 x, }
Pad { repeat
u8 Header
// packet A { u8 x, }
//	t
`{ , }`
// a // b
//x
, }
")).
Eval vm_compute in ("<<<M2203>>>" ++ check (runes_of_ascii "options{
leftPad
    =65535
;
MetaData = true ; packetx=  '\x00' ; packetx
=  """ ++ [28040; 24687]%N ++ runes_of_ascii """MetaDataX= // " ++ [27880; 37322]%N ++ runes_of_ascii "
false }root // c
packet // packet A { u8 x, }
Pad { repeat
u8 Header
// packet A { u8 x, }
//	t
`{ , }`
// a // b
//x
, }
")).
Eval vm_compute in ("<<<M2235>>>" ++ check (runes_of_ascii "options{
leftPad
    =65535
;
a1 = true ; packetx=  '\x00'  packetx
=  """ ++ [28040; 24687]%N ++ runes_of_ascii """MetaDataX= // " ++ [27880; 37322]%N ++ runes_of_ascii "
false }root // c
packet // packet A { u8 x, }
Pad { repeat
u8 Header
// packet A { u8 x, }
//	t
`{ , }`
// a // b
//x
, }
")).
Eval vm_compute in ("<<<T2235>>>" ++ terms [mkTok 1 "options" 1 0 false; mkTok 2 "{" 1 7 false; mkTok 42 "leftPad" 2 0 false; mkTok 4 "=" 3 4 false; mkTok 30 "65535" 3 5 false; mkTok 41 ";" 4 0 false; mkTok 42 "a1" 5 0 false; mkTok 4 "=" 5 3 false; mkTok 10 "true" 5 5 false; mkTok 41 ";" 5 10 false; mkTok 42 "packetx" 5 12 false; mkTok 4 "=" 5 19 false; mkTok 33 "'\x00'" 5 22 false; mkTok 42 "packetx" 5 30 false; mkTok 4 "=" 6 0 false; mkTok 31 (string_of_bytes [34; 230; 182; 136; 230; 129; 175; 34]%N) 6 3 false; mkTok 42 "MetaDataX" 6 7 false; mkTok 4 "=" 6 16 false; mkTok 44 (string_of_bytes [47; 47; 32; 230; 179; 168; 233; 135; 138]%N) 6 18 true; mkTok 11 "false" 7 0 false; mkTok 3 "}" 7 6 false; mkTok 34 "root" 7 7 false; mkTok 44 "// c" 7 12 true; mkTok 35 "packet" 8 0 false; mkTok 44 "// packet A { u8 x, }" 8 7 true; mkTok 42 "Pad" 9 0 false; mkTok 2 "{" 9 4 false; mkTok 36 "repeat" 9 6 false; mkTok 20 "u8" 10 0 false; mkTok 42 "Header" 10 3 false; mkTok 44 "// packet A { u8 x, }" 11 0 true; mkTok 44 (string_of_bytes [47; 47; 9; 116]%N) 12 0 true; mkTok 43 "`{ , }`" 13 0 false; mkTok 44 "// a // b" 14 0 true; mkTok 44 "//x" 15 0 true; mkTok 40 "," 16 0 false; mkTok 3 "}" 16 2 false; mkTok 0 "<EOF>" 17 0 false] (mkPacket (mkPtok 1 "options" 1 0 0) (Some (mkPtok 3 "}" 16 2 36)) [(DOption (mkOptionDef (mkSpan (mkPtok 1 "options" 1 0 0) (mkPtok 3 "}" 7 6 20)) (mkPtok 1 "options" 1 0 0) (mkPtok 2 "{" 1 7 1) [(mkOptionDecl (mkSpan (mkPtok 42 "leftPad" 2 0 2) (mkPtok 41 ";" 4 0 5)) (mkPtok 42 "leftPad" 2 0 2) (mkPtok 4 "=" 3 4 3) (VDigits (mkSpan (mkPtok 30 "65535" 3 5 4) (mkPtok 30 "65535" 3 5 4)) (mkPtok 30 "65535" 3 5 4)) (Some (mkPtok 41 ";" 4 0 5))); (mkOptionDecl (mkSpan (mkPtok 42 "a1" 5 0 6) (mkPtok 41 ";" 5 10 9)) (mkPtok 42 "a1" 5 0 6) (mkPtok 4 "=" 5 3 7) (VTrue (mkSpan (mkPtok 10 "true" 5 5 8) (mkPtok 10 "true" 5 5 8)) (mkPtok 10 "true" 5 5 8)) (Some (mkPtok 41 ";" 5 10 9))); (mkOptionDecl (mkSpan (mkPtok 42 "packetx" 5 12 10) (mkPtok 33 "'\x00'" 5 22 12)) (mkPtok 42 "packetx" 5 12 10) (mkPtok 4 "=" 5 19 11) (VPaddingChar (mkSpan (mkPtok 33 "'\x00'" 5 22 12) (mkPtok 33 "'\x00'" 5 22 12)) (mkPtok 33 "'\x00'" 5 22 12)) None); (mkOptionDecl (mkSpan (mkPtok 42 "packetx" 5 30 13) (mkPtok 31 (string_of_bytes [34; 230; 182; 136; 230; 129; 175; 34]%N) 6 3 15)) (mkPtok 42 "packetx" 5 30 13) (mkPtok 4 "=" 6 0 14) (VString (mkSpan (mkPtok 31 (string_of_bytes [34; 230; 182; 136; 230; 129; 175; 34]%N) 6 3 15) (mkPtok 31 (string_of_bytes [34; 230; 182; 136; 230; 129; 175; 34]%N) 6 3 15)) (mkPtok 31 (string_of_bytes [34; 230; 182; 136; 230; 129; 175; 34]%N) 6 3 15)) None); (mkOptionDecl (mkSpan (mkPtok 42 "MetaDataX" 6 7 16) (mkPtok 11 "false" 7 0 19)) (mkPtok 42 "MetaDataX" 6 7 16) (mkPtok 4 "=" 6 16 17) (VFalse (mkSpan (mkPtok 11 "false" 7 0 19) (mkPtok 11 "false" 7 0 19)) (mkPtok 11 "false" 7 0 19)) None)] (mkPtok 3 "}" 7 6 20))); (DPacket (mkPacketDef (mkSpan (mkPtok 34 "root" 7 7 21) (mkPtok 3 "}" 16 2 36)) (Some (mkPtok 34 "root" 7 7 21)) (mkPtok 35 "packet" 8 0 23) (mkPtok 42 "Pad" 9 0 25) (mkPtok 2 "{" 9 4 26) [(mkFieldWithAttr (mkSpan (mkPtok 36 "repeat" 9 6 27) (mkPtok 40 "," 16 0 35)) [] (MetaField (mkSpan (mkPtok 36 "repeat" 9 6 27) (mkPtok 40 "," 16 0 35)) (Some (mkPtok 36 "repeat" 9 6 27)) (mkMetaDecl (mkSpan (mkPtok 20 "u8" 10 0 28) (mkPtok 40 "," 16 0 35)) (TyBasic (mkSpan (mkPtok 20 "u8" 10 0 28) (mkPtok 20 "u8" 10 0 28)) (mkBasicType (mkSpan (mkPtok 20 "u8" 10 0 28) (mkPtok 20 "u8" 10 0 28)) (mkPtok 20 "u8" 10 0 28))) (mkPtok 42 "Header" 10 3 29) (Some (mkPtok 43 "`{ , }`" 13 0 32)) (mkPtok 40 "," 16 0 35))))] (mkPtok 3 "}" 16 2 36)))])).
Eval vm_compute in ("<<<M2267>>>" ++ check (runes_of_ascii "options{
leftPad
    =65535
;
a1 = true ; packetx=  '\x00' ; packetx
=  """ ++ [28040; 24687]%N ++ runes_of_ascii """MetaDataX= // " ++ [27880; 37322]%N ++ runes_of_ascii "
} false root // c
packet // packet A { u8 x, }
Pad { repeat
u8 Header
// packet A { u8 x, }
//	t
`{ , }`
// a // b
//x
, }
")).
Eval vm_compute in ("<<<M2299>>>" ++ check (runes_of_ascii "options{
leftPad
    =65535
;
a1 = true ; packetx=  '\x00' ; packetx
=  """ ++ [28040; 24687]%N ++ runes_of_ascii """MetaDataX= // " ++ [27880; 37322]%N ++ runes_of_ascii "
false }root // c
packet // packet A { u8 x, }
Pad {")).
Eval vm_compute in ("<<<M2331>>>" ++ check (runes_of_ascii "options{
leftPad
    =65535
;
a1 = @ true ; packetx=  '\x00' ; packetx
=  """ ++ [28040; 24687]%N ++ runes_of_ascii """MetaDataX= // " ++ [27880; 37322]%N ++ runes_of_ascii "
false }root // c
packet // packet A { u8 x, }
Pad { repeat
u8 Header
// packet A { u8 x, }
//	t
`{ , }`
// a // b
//x
, }
")).
Eval vm_compute in ("<<<M2363>>>" ++ check (runes_of_ascii "
packet float
{	""" ++ [233]%N ++ runes_of_ascii "t" ++ [233]%N ++ runes_of_ascii """ @calculatedFrom( )
@rightPad ( '\x00' )
    @calculatedFrom( ""x y"" ) string chars  ,
    // a // b
    char[0 ]
    u	@lengthOf( i8i8 ) `{ , }` ,repeat char[] o //x
`// not a comment`, } // c")).
Eval vm_compute in ("<<<M2395>>>" ++ check (runes_of_ascii "
packet float
{	@calculatedFrom( """ ++ [233]%N ++ runes_of_ascii "t" ++ [233]%N ++ runes_of_ascii """ )
@rightPad ( '\x00'")).
Eval vm_compute in ("<<<M2427>>>" ++ check (runes_of_ascii "
packet float
{	@calculatedFrom( """ ++ [233]%N ++ runes_of_ascii "t" ++ [233]%N ++ runes_of_ascii """ )
@rightPad ( '\x00' )
    @calculatedFrom( ""x y"" ) string chars  ,
    // a // b
    char[ char[0 ]
    u	@lengthOf( i8i8 ) `{ , }` ,repeat char[] o //x
`// not a comment`, } // c")).
Eval vm_compute in ("<<<M2459>>>" ++ check (runes_of_ascii "
packet float
{	@calculatedFrom( """ ++ [233]%N ++ runes_of_ascii "t" ++ [233]%N ++ runes_of_ascii """ )
@rightPad ( '\x00' )
    @calculatedFrom( ""x y"" ) string chars  ,
    // a // b
    char[0 ]
    u	@lengthOf( i8i8 i32 `{ , }` ,repeat char[] o //x
`// not a comment`, } // c")).
Eval vm_compute in ("<<<M2491>>>" ++ check (runes_of_ascii "
packet float
{	@calculatedFrom( """ ++ [233]%N ++ runes_of_ascii "t" ++ [233]%N ++ runes_of_ascii """ )
@rightPad ( '\x00' )
    @calculatedFrom( ""x y"" ) string chars  ,
    // a // b
    char[0 ]
    u	@lengthOf( i8i8 ) `{ , }` ,repeat char[] o //x
`// not a comment` } // c")).
Eval vm_compute in ("<<<M2523>>>" ++ check (runes_of_ascii "root root packet u128{
    repeat
    zchar[ 65535 ] u `" ++ [28040; 24687; 31867; 22411]%N ++ runes_of_ascii "` ,// `tick` ""quote"" 'q'
} packet i64_ {repeatCount
    `
` ,	} // " ++ [128512]%N ++ runes_of_ascii " emoji")).
Eval vm_compute in ("<<<M2555>>>" ++ check (runes_of_ascii "root packet u128{
    repeat
    zchar[ zchar[ ] u `" ++ [28040; 24687; 31867; 22411]%N ++ runes_of_ascii "` ,// `tick` ""quote"" 'q'
} packet i64_ {repeatCount
    `
` ,	} // " ++ [128512]%N ++ runes_of_ascii " emoji")).
Eval vm_compute in ("<<<M2587>>>" ++ check (runes_of_ascii "root packet u128{
    repeat
    zchar[ 65535 ] u `" ++ [28040; 24687; 31867; 22411]%N ++ runes_of_ascii "` ,// `tick` ""quote"" 'q'
} packet  {repeatCount
    `
` ,	} // " ++ [128512]%N ++ runes_of_ascii " emoji")).
Eval vm_compute in ("<<<M2619>>>" ++ check (runes_of_ascii "roo")).
Eval vm_compute in ("<<<M2651>>>" ++ check (runes_of_ascii "
MetaData
roots i16 int8
    BodyLength ,//	t
}
")).
Eval vm_compute in ("<<<M2683>>>" ++ check (runes_of_ascii "
MetaData
? roots { int8
    BodyLength ,//	t
}
")).
Eval vm_compute in ("<<<M2715>>>" ++ check (runes_of_ascii "options {Packet = ""CRC32"" ""CRC32""i8i8 = false; leftPad =
    '\x00'
    // `tick` ""quote"" 'q'
    ; o=255  ;
    // packet A { u8 x, }
    }")).
Eval vm_compute in ("<<<M2747>>>" ++ check (runes_of_ascii "options {Packet = ""CRC32""i8i8 = false; leftPad :
    '\x00'
    // `tick` ""quote"" 'q'
    ; o=255  ;
    // packet A { u8 x, }
    }")).
Eval vm_compute in ("<<<M2779>>>" ++ check (runes_of_ascii "options {Packet = ""CRC32""i8i8 = false; leftPad =
    '\x00'
    // `tick` ""quote"" 'q'
    ; o=255  ;
    // packet A { u8 x, }
    ")).
Eval vm_compute in ("<<<M2811>>>" ++ check (runes_of_ascii "
packet metadata metadata { @rightPad (
    // packet A { u8 x, }
    ' ' ) repeat u32	A
,matchKey ,
    @lengthOf( string_ ) @lengthOf( body )
    // a // b
    @lengthOf(float  )	repeat
int32 u8x
    // c
    `tab	here`
, } // a // b")).
Eval vm_compute in ("<<<M2843>>>" ++ check (runes_of_ascii "
packet metadata { @rightPad (
    // packet A { u8 x, }
    ' ' ) i32 u32	A
,matchKey ,
    @lengthOf( string_ ) @lengthOf( body )
    // a // b
    @lengthOf(float  )	repeat
int32 u8x
    // c
    `tab	here`
, } // a // b")).
Eval vm_compute in ("<<<M2875>>>" ++ check (runes_of_ascii "
packet metadata { @rightPad (
    // packet A { u8 x, }
    ' ' ) repeat u32	A
,matchKey ,
    @lengthOf(  ) @lengthOf( body )
    // a // b
    @lengthOf(float  )	repeat
int32 u8x
    // c
    `tab	here`
, } // a // b")).
Eval vm_compute in ("<<<M2907>>>" ++ check (runes_of_ascii "
packet metadata { @rightPad (
    // packet A { u8 x, }
    ' ' ) repeat u32	A
,matchKey ,
    @lengthOf( string_ ) @lengthOf( body )
    // a // b
    @lengthOf()  float	repeat
int32 u8x
    // c
    `tab	here`
, } // a // b")).
Eval vm_compute in ("<<<M2939>>>" ++ check (runes_of_ascii "
packet metadata { @rightPad (
    // packet A { u8 x, }
    ' ' ) repeat u32	A
,matchKey ,
    @lengthOf( string_ ) @lengthOf( body )
    // a // b
    @lengthOf(float  )	repeat
int32 u8x
    // c
    `tab	here`")).
Eval vm_compute in ("<<<M2971>>>" ++ check (runes_of_ascii "packet {
string
zchar , //	t
}
")).
Eval vm_compute in ("<<<M3003>>>" ++ check (runes_of_ascii "packet x{
")).
Eval vm_compute in ("<<<M3035>>>" ++ check (runes_of_ascii "
MetaData Logon
@rightPad // c
}root packet
    Pad {
    } options
{
u
    =
    ""CRC32""
    // " ++ [128512]%N ++ runes_of_ascii " emoji
    i64_ = u16;
T =65535 x = ' '
    ; u128
= true ; }")).
Eval vm_compute in ("<<<M3067>>>" ++ check (runes_of_ascii "
MetaData Logon
{ // c
}root packet
    Pad {
    } 
{
u
    =
    ""CRC32""
    // " ++ [128512]%N ++ runes_of_ascii " emoji
    i64_ = u16;
T =65535 x = ' '
    ; u128
= true ; }")).
Eval vm_compute in ("<<<M3099>>>" ++ check (runes_of_ascii "
MetaData Logon
{ // c
}root packet
    Pad {
    } options
{
u
    =
    ""CRC32""
    // " ++ [128512]%N ++ runes_of_ascii " emoji
    i64_ u16 =;
T =65535 x = ' '
    ; u128
= true ; }")).
Eval vm_compute in ("<<<M3131>>>" ++ check (runes_of_ascii "
MetaData Logon
{ // c
}root packet
    Pad {
    } options
{
u
    =
    ""CRC32""
    // " ++ [128512]%N ++ runes_of_ascii " emoji
    i64_ = u16;
T =65535")).
Eval vm_compute in ("<<<M3163>>>" ++ check (runes_of_ascii "
MetaData Logon
{ // c
}root packet
    Pad {
    } options
{
u
    =
    ""CRC32""
    // " ++ [128512]%N ++ runes_of_ascii " emoji
    i64_ = u16;
T =65535 x = ' '
    ; u128
= true ; ; }")).
Eval vm_compute in ("<<<M3195>>>" ++ check (runes_of_ascii "body MetaData{}
packet	Packet { x_y_z @calculatedFrom(  ""a\\"")// `tick` ""quote"" 'q'
, }
")).
Eval vm_compute in ("<<<M3227>>>" ++ check (runes_of_ascii "MetaData body{}
packet	Packet")).
Eval vm_compute in ("<<<M3259>>>" ++ check (runes_of_ascii "MetaData body{}
packet	Packet { x_y_z @calculatedFrom(  ""a\\"")// `tick` ""quote")).
Eval vm_compute in ("<<<M3291>>>" ++ check (runes_of_ascii "packet f32a }{ root packet len {repeat u // " ++ [128512]%N ++ runes_of_ascii " emoji
`{ , }` , }
")).
Eval vm_compute in ("<<<M3323>>>" ++ check (runes_of_ascii "packet f32a {} root packet len {")).
Eval vm_compute in ("<<<M3355>>>" ++ check (runes_of_ascii "packet f32a {} root packet len {repeat '\x01'u // " ++ [128512]%N ++ runes_of_ascii " emoji
`{ , }` , }
")).
Eval vm_compute in ("<<<M3387>>>" ++ check (runes_of_ascii "options{ _x=""\" ++ [233]%N ++ runes_of_ascii """;
    Logon = 10	; Foo= 7;
i64_= char[]} options {
matchKey = ""// no comment"" // a // b
falsey = string
;  =
    4294967296
options1=
    ""it's"" string_	= true } options {
    /// triple
    }")).
Eval vm_compute in ("<<<M3419>>>" ++ check (runes_of_ascii "options{ _x=""\" ++ [233]%N ++ runes_of_ascii """;
    Logon = 10	; Foo= 7;
i64_")).
Eval vm_compute in ("<<<M3451>>>" ++ check (runes_of_ascii "options{ _x=""\" ++ [233]%N ++ runes_of_ascii """;
    Logon = 10	; Foo= 7;
i64_= char[]} options {
matchKey = ""// no comment"" // a // b
falsey = string
; trueish 4294967296
    =
options1=
    ""it's"" string_	= true } options {
    /// triple
    }")).
Eval vm_compute in ("<<<M3483>>>" ++ check (runes_of_ascii "options{ _x=""\" ++ [233]%N ++ runes_of_ascii """;
    Logon = 10	; Fo@o= 7;
i64_= char[]} options {
matchKey = ""// no comment"" // a // b
falsey = string
; trueish =
    4294967296
options1=
    ""it's"" string_	= true } options {
    /// triple
    }")).
Eval vm_compute in ("<<<M3515>>>" ++ check (runes_of_ascii "falsey")).
Eval vm_compute in ("<<<M3547>>>" ++ check (runes_of_ascii "@rightPad")).
Eval vm_compute in ("<<<M3579>>>" ++ check (runes_of_ascii """a\
b""")).
Eval vm_compute in ("<<<M3611>>>" ++ check (runes_of_ascii "ab")).
Eval vm_compute in ("<<<M3643>>>" ++ check (runes_of_ascii "packet A { x `d` `e`, }")).
Eval vm_compute in ("<<<M3675>>>" ++ check (runes_of_ascii "packet A { match k as n { [1,] : B }, }")).
Eval vm_compute in ("<<<M3707>>>" ++ check (runes_of_ascii "root root packet A { }")).
Eval vm_compute in ("<<<M3739>>>" ++ check (runes_of_ascii "options options { }")).
Eval vm_compute in ("<<<M3771>>>" ++ check (runes_of_ascii "repeat @lengthOf( } int16 char @leftPad true false packet { i16 char[")).
Eval vm_compute in ("<<<M3803>>>" ++ check (runes_of_ascii "match , packet false , true packet options char")).
Eval vm_compute in ("<<<M3835>>>" ++ check (runes_of_ascii "@rightPad '\x00' int32 packet 3 true as match")).
Eval vm_compute in ("<<<M3867>>>" ++ check (runes_of_ascii "string ) `doc` char[] int32 ; u64 } = i64 @lengthOf( char[]")).
Eval vm_compute in ("<<<M3899>>>" ++ check (runes_of_ascii ") zchar[ : uint16 ,")).
Eval vm_compute in ("<<<M3931>>>" ++ check (runes_of_ascii ") i64 false false")).
Eval vm_compute in ("<<<M3963>>>" ++ check (runes_of_ascii "string int8 i8 packet = `" ++ [28040; 24687; 31867; 22411]%N ++ runes_of_ascii "` [ @lengthOf( int32 repeat float32")).
Eval vm_compute in ("<<<M3995>>>" ++ check (runes_of_ascii "match packet uint64 float64 uint32 char[ packet @tag( i32 ) float32 ;")).
