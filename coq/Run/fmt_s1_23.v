From FP Require Import Lexer Parser ShowPT Digest Formatter.
From Coq Require Import String List NArith.
Import ListNotations.
Open Scope string_scope.
Set Printing Width 100000000.
Set Printing Depth 100000000.
Definition show_fres (r : fres) : string :=
  match r with
  | FOk s => "OK:" ++ sh_escaped s ""
  | FErr s => "ERR:" ++ sh_escaped s ""
  | FPanic p => "PANIC:" ++ p
  end.
Definition check (rs : list rune) : string := digest (show_fres (format_res rs)).
Definition full (rs : list rune) : string := show_fres (format_res rs).
Eval vm_compute in ("<<<M439>>>" ++ check (runes_of_ascii "/// triple
packet
string_{
char[] calculatedFrom
    ,string	rootA	`two words` ,  @tag(
    10 // " ++ [128512]%N ++ runes_of_ascii " emoji
)@lengthOf( packetx ) char[] falsey
    ,// @lengthOf(
int8 MetaDataX @calculatedFrom(""CRC32"" )
    `two words`
, zchar[
    7
]float
    ,  uint32 calculatedFrom,
    matchKey {
zchar[ 10 ]u
@calculatedFrom( ""a\\""
// `tick` ""quote"" 'q'
// " ++ [27880; 37322]%N ++ runes_of_ascii "
)
,
// " ++ [27880; 37322]%N ++ runes_of_ascii "
// packet A { u8 x, }
} , @calculatedFrom( ""1"" )int16 rootA , float64 uint8x
    // " ++ [27880; 37322]%N ++ runes_of_ascii "
    ,
    // " ++ [128512]%N ++ runes_of_ascii " emoji
    } packet u8x{@calculatedFrom( ""CRC32"" ) repeat //x
u64 u8x // packet A { u8 x, }
`a\` , } // trailing space 
packet
    Packet	{ @calculatedFrom(
""packet""
) repeat
len i64_
,
@lengthOf(trueish
)
@lengthOf(u )
    // a // b
    @lengthOf( A
) char[] zchar`say ""hi""`
// " ++ [128512]%N ++ runes_of_ascii " emoji
//
,
    @calculatedFrom(""{,}"" )	chars@calculatedFrom( ""{,}""	)
    ,repeat
//	t
// @lengthOf(
pack lengthOf , // `tick` ""quote"" 'q'
}
//x
// " ++ [27880; 37322]%N ++ runes_of_ascii "
packet
i64_{ calculatedFrom
{ stringy {
zchar[
    // c
    1  ] tag , match
    float as _x  { ""it's"" : Packet ,
[	0123456789 ,// c
4294967296
,""1"", 00, 42 ] :Foo , [""a\\""  , 42 //x
, 255 ,""`tick`"" , 3 , """ ++ [128512]%N ++ runes_of_ascii """ ] :pack , // @lengthOf(
4294967296
    :
    pack,
[ 0123456789 , """ ++ [28040; 24687]%N ++ runes_of_ascii """ ,
""{,}"",
/// triple
// " ++ [27880; 37322]%N ++ runes_of_ascii "
4294967296 ,""packet"", ""x y"" , // packet A { u8 x, }
""x y""	]//	t
: uint8x  ,
    } , } ,
} //
,@tag(00)
BodyLength ,@calculatedFrom(""a	b"" )match msg_type
as Foo { [ ""\n""
, 42,
42 ]
: Pad , } , u64
packetx `" ++ [233]%N ++ runes_of_ascii "`
// packet A { u8 x, }
//x
,repeat
i64 tag
,
//x
// @lengthOf(
@tag( 65535 // `tick` ""quote"" 'q'
)
    @lengthOf(
    // `tick` ""quote"" 'q'
    Pad
    ) match matchKey as f32a
{3 :  BodyLength ,[//	t
""" ++ [128512]%N ++ runes_of_ascii """ , ""packet""  ,
    65535 ,255 , ""a	b""
, 0 , //	t
007 //	t
] : /// triple
u8x ,4294967296
//x
// a // b
: As 007 :i64_
    ""it's"":lengthOf, ""\" ++ [233]%N ++ runes_of_ascii """ :	u8x , },  rootA
    // c
    { f32 Packet@lengthOf(A ), i32 repeatCount
@calculatedFrom( ""x y""	)
//x
// c
, repeatCount
    @calculatedFrom(
""" ++ [233]%N ++ runes_of_ascii "t" ++ [233]%N ++ runes_of_ascii """) // trailing space 
`" ++ [28040; 24687; 31867; 22411]%N ++ runes_of_ascii "`,
    char[] Packet, }, @lengthOf( body
)
@tag(65535 )	@calculatedFrom(""\" ++ [233]%N ++ runes_of_ascii """ )metadata @lengthOf( uint8x
    ) ,
    }packet i64_ { match o as
    asx { ""`tick`""
    : charz
    }
//	t
// trailing space 
,
    }
")).
Eval vm_compute in ("<<<M3791>>>" ++ check (runes_of_ascii "packet metadata {
    zchar[10] i64_ `say ""hi""`,
    repeat Header uint8x,
    @lengthOf(falsey)
    int8 _x @calculatedFrom(""x y"") `{ , }`,
    stringy metadata `a\`,// " ++ [128512]%N ++ runes_of_ascii " emoji
    @lengthOf(Packet)
    i64_ {
        match crc as Header {
            [0, 0123456789] : Foo,
            ""abc"" : pack,
        },
        match int as charz {
            1 : packetx,
            7 : MetaDataX,
            // " ++ [128512]%N ++ runes_of_ascii " emoji
            7 : a1,
            007 : zchar,
            ""CRC32"" : stringy,
            [""\" ++ [233]%N ++ runes_of_ascii """, ""CRC32""] : i8i8,
        },
        pack `doc`,
        tag {
            _x @calculatedFrom(""CRC32"") `
            `,
            repeat asx `{ , }`,
            i32 _x @calculatedFrom(""\n"") `u8 x,`,
        },
    },
    f32a @lengthOf(chars),
    string Packet,
    @leftPad(' ')
    @lengthOf(u8x)
    // trailing space 
    a1 @calculatedFrom(""x y"") `doc`,
    options1,
    body `{ , }`,
}

MetaData Foo {
    uint8 Z9_ `{ , }`,
}

packet Header {
    pack {
        // trailing space 
        leftPad {
            u128 i64_,
            zchar[7] i64_ @calculatedFrom(""packet"") `line1
            line2`,//
            metadata Logon,
            char[10] asx @lengthOf(uint8x) `it's`,
        },
    },
    @calculatedFrom(""a\\"")
    Logon @lengthOf(uint8x) `
    `,
    int64 msg_type,
    metadata _x,
    @leftPad()
    trueish {
        Header {
            //x
            // `tick` ""quote"" 'q'
            uint8x {
                char[0123456789] leftPad @calculatedFrom(""" ++ [233]%N ++ runes_of_ascii "t" ++ [233]%N ++ runes_of_ascii """) `" ++ [28040; 24687; 31867; 22411]%N ++ runes_of_ascii "`,
            },// " ++ [128512]%N ++ runes_of_ascii " emoji
            char[1] asx @calculatedFrom(""it's""),
            roots,
        },
    },
    zchar[255] Packet,// `tick` ""quote"" 'q'
    repeat i8i8,
    repeat float64 u8x,
    @calculatedFrom(""" ++ [233]%N ++ runes_of_ascii "t" ++ [233]%N ++ runes_of_ascii """)
    asx @calculatedFrom(""a\""b""),
}

MetaData roots {
}")).
Eval vm_compute in ("<<<M4344>>>" ++ check (runes_of_ascii "options {
}

packet packetx {
    crc charz ``,
    leftPad,
    @tag(3)
    repeat uint64 u128 `doc`,
    @tag(007)
    // c
    // `tick` ""quote"" 'q'
    Pad roots,
    @calculatedFrom(""CRC32"")
    u8x metadata,
    @tag(1)
    zchar[0123456789] i8i8 `a\`,
    match a1 as As {
        ""a	b"" : roots,
        [""\" ++ [233]%N ++ runes_of_ascii """, ""abc""] : string_,
    },
    repeat Header {
        match f32a as _x {
            4294967296 : repeatCount,
            7 : u8x,
            7 : As,
        },
        i64 repeatCount @lengthOf(a1),
    },
    // " ++ [128512]%N ++ runes_of_ascii " emoji
    // " ++ [27880; 37322]%N ++ runes_of_ascii "
}

packet pack {
    zchar[0] stringy,
}/// triple

root packet As {
    // @lengthOf(
    match u8x as packetx {
        7 : uint8x,
        65535 : int,
        1 : T,
        ""{,}"" : Foo,
        0123456789 : Logon,
        [65535] : len,
    },
    repeat lengthOf metadata,
    @calculatedFrom(""" ++ [233]%N ++ runes_of_ascii "t" ++ [233]%N ++ runes_of_ascii """)
    repeat zchar[65535] As `doc`,
    char[7] float @calculatedFrom(""""),
    float32 a1 `it's`,
    @tag(3)
    char[] BodyLength `line1
        line2`,
    match int as asx {
        [""" ++ [28040; 24687]%N ++ runes_of_ascii """, 0] : x_y_z,
        1 : Packet,
        ""{,}"" : falsey,
        255 : charz,
        [""{,}"", 0123456789] : uint8x,
    },
    crc @calculatedFrom(""\" ++ [233]%N ++ runes_of_ascii """) `crlf
        line`,
    match packetx as Pad {
        ""packet"" : BodyLength,
    },
    @lengthOf(BodyLength)
    @tag(00)
    @lengthOf(As)
    match charz as len {
        [""x y""] : _x,
        //x
        ""it's"" : i64_,
        0123456789 : metadata,
        // packet A { u8 x, }
        //x
        """ ++ [128512]%N ++ runes_of_ascii """ : trueish,
        1 : Logon,
    },
}//	t")).
Eval vm_compute in ("<<<M345>>>" ++ check (runes_of_ascii "// `tick` ""quote"" 'q'
root	packet /// triple
As { }packet x_y_z{@rightPad (
) @tag( 42 )
    @rightPad (' ' ) repeat f32a charz ,match Header as// a // b
stringy { [ 1	,	4294967296 ]// packet A { u8 x, }
: rootA ,
0123456789 : x_y_z
    , [
    65535
, 255]	:
/// triple
// a // b
metadata ,
[	7 , """ ++ [233]%N ++ runes_of_ascii "t" ++ [233]%N ++ runes_of_ascii """, ""{,}"" ,""{,}"" ] : T
// trailing space 
// " ++ [27880; 37322]%N ++ runes_of_ascii "
,""packet"" :
    chars , // trailing space 
[ 42
    , //
00] : Logon,} ,repeat i8i8 {
tag @calculatedFrom(// " ++ [27880; 37322]%N ++ runes_of_ascii "
""" ++ [128512]%N ++ runes_of_ascii """ )`{ , }` , }
,Z9_ @lengthOf(
    Packet
    // @lengthOf(
    ) ,
    // trailing space 
    lengthOf
    ,
trueish {
zchar[ 007/// triple
]
    packetx, zchar[ 0123456789
] MetaDataX `// not a comment`
, rootA @lengthOf(Z9_)
    `" ++ [233]%N ++ runes_of_ascii "`, }
,	} root// a // b
packet u8x { float64 len@calculatedFrom( ""packet"" )
//
// " ++ [27880; 37322]%N ++ runes_of_ascii "
, u8 calculatedFrom , @calculatedFrom( ""a\""b""
) @calculatedFrom( ""\n"") // trailing space 
@lengthOf(
    Foo ) Logon @lengthOf(	i8i8) , // trailing space 
@calculatedFrom(
""a\\"") falsey@calculatedFrom(
""" ++ [233]%N ++ runes_of_ascii "t" ++ [233]%N ++ runes_of_ascii """)`line1
line2` ,@leftPad('\x00' )
    // c
    match
i64_	as
    // c
    i64_{ [
    0123456789 ] :  a1
,[ ""1"" ,
3 , //
3 , 7 , 0
] :string_ ,
    """"// `tick` ""quote"" 'q'
:
    i64_ , }, @lengthOf( As )
    // packet A { u8 x, }
    T{zchar[ 0] roots
@lengthOf(
options1 )
    , /// triple
u16 pack
    ,//
} ,/// triple
string// `tick` ""quote"" 'q'
x	`crlf
line`
, }")).
Eval vm_compute in ("<<<M741>>>" ++ check (runes_of_ascii "packet float { @calculatedFrom(
// @lengthOf(
// a // b
""abc"" ) u64 roots
, repeat u {repeat A `a\` , As @lengthOf( len ) , uint16 falsey ,
    leftPad @lengthOf(
//x
// c
crc)
    ,
    } , zchar[007 ]
    int
`a\`
    ,
@calculatedFrom( ""x y"")
char[] Logon `
`// `tick` ""quote"" 'q'
, @rightPad ( ' ' // a // b
)@lengthOf(
tag) @tag( 0123456789 ) match
    rootA as Z9_{ 65535 :
    chars ""1"" : Pad // packet A { u8 x, }
, }, @tag(	65535 ) tag
    // " ++ [27880; 37322]%N ++ runes_of_ascii "
    { char[
//
// " ++ [27880; 37322]%N ++ runes_of_ascii "
255]// @lengthOf(
charz@lengthOf( len
)`a\` ,uint16 i64_
@lengthOf(string_
//x
//
) , }
    ,
// c
/// triple
o o `// not a comment` , @calculatedFrom(
""1"" ) repeat T `" ++ [28040; 24687; 31867; 22411]%N ++ runes_of_ascii "`	, } root packet crc
{ repeat
zchar[ 4294967296
    ] u8x, match MetaDataX as
string_
{
[""`tick`"" ,	""packet""	, 10
, ""packet"",	""// no comment"" , """ ++ [233]%N ++ runes_of_ascii "t" ++ [233]%N ++ runes_of_ascii """ ,
65535] : stringy
// packet A { u8 x, }
//
,
[
    3 ] :	stringy, [""" ++ [28040; 24687]%N ++ runes_of_ascii """ , 3 ] : asx	, // " ++ [128512]%N ++ runes_of_ascii " emoji
[ 7, // @lengthOf(
00, // @lengthOf(
""" ++ [28040; 24687]%N ++ runes_of_ascii """ , ""a	b"" , 0, 4294967296// @lengthOf(
,255
,  007 ] :As//
,
""1"" : x_y_z
// `tick` ""quote"" 'q'
// @lengthOf(
, } , } MetaData
    falsey { } packet o // c
{ @lengthOf(	Packet/// triple
)
@lengthOf( Z9_ ) @leftPad (
'\x00' ) repeat
Pad// packet A { u8 x, }
matchKey
,}
MetaData
stringy {}
")).
Eval vm_compute in ("<<<M3920>>>" ++ check (runes_of_ascii "packet leftPad {
    // packet A { u8 x, }
    @leftPad(' ')
    repeat x `" ++ [233]%N ++ runes_of_ascii "`,
    repeat pack,
    // a // b
    // a // b
    uint32 A,// @lengthOf(
    @tag(10)
    @leftPad()
    @calculatedFrom(""a	b"")
    u32 stringy @lengthOf(lengthOf),
    Foo `line1
    line2`,
    crc `u8 x,`,// @lengthOf(
}

options {
    //
    x = float64;
    u8x = """ ++ [128512]%N ++ runes_of_ascii """;
    pack = ' ';
    // c
    falsey = ""a\""b""
}

packet As {
    repeat repeatCount u8x `doc`,
    @leftPad('0')
    @calculatedFrom(""\" ++ [233]%N ++ runes_of_ascii """)
    match asx as crc {
        4294967296 : u8x,
        ""\n"" : u128,
        0 : asx,
        [255, ""x y""] : Logon,
        0123456789 : A,
        255 : i64_,
    },
    metadata @lengthOf(u8x),
    repeat crc {
        uint32 Packet,
    },
    @calculatedFrom(""" ++ [128512]%N ++ runes_of_ascii """)
    T u128 `{ , }`,
    repeat i32 msg_type,
    @lengthOf(T)
    int,
    float {
        // @lengthOf(
        // `tick` ""quote"" 'q'
        match trueish as leftPad {
            [0, """ ++ [28040; 24687]%N ++ runes_of_ascii """] : f32a,
        },
        uint32 i8i8,
        Packet {
            char[65535] o @calculatedFrom(""it's""),
        },// a // b
    },
    uint8 i8i8 `say ""hi""`,
}/// triple

packet BodyLength {
}")).
Eval vm_compute in ("<<<M358>>>" ++ check (runes_of_ascii "packet	matchKey { } packet rootA {} root packet lengthOf { // trailing space 
@tag(
0 //x
)uint16 repeatCount
    , //x
uint32 rootA @calculatedFrom(""it's""
// packet A { u8 x, }
// `tick` ""quote"" 'q'
)
,
//	t
// a // b
string uint8x /// triple
,  u128@calculatedFrom(
""" ++ [28040; 24687]%N ++ runes_of_ascii """ ) ,@leftPad
( '\x00' ) u  `a\` , @leftPad( ' ' ) @calculatedFrom(
""1"" ) @lengthOf( int )match msg_type
// " ++ [128512]%N ++ runes_of_ascii " emoji
// a // b
as Pad{
""abc""// " ++ [27880; 37322]%N ++ runes_of_ascii "
: asx }
    , options1 {
    char[]  metadata // trailing space 
, Logon@lengthOf( zchar ) , repeatCount {
zchar[255 ] tag
    ,x_y_z msg_type,// `tick` ""quote"" 'q'
pack, MetaDataX @lengthOf(  falsey )
    , }
, zchar  @lengthOf( Header  )
,  } ,@tag( 42 ) char[
    007 ] i64_
,
// trailing space 
//	t
@lengthOf( As
) match crc  as/// triple
MetaDataX {65535 :leftPad
""a\""b"" : BodyLength , 42:	crc
    ,
    // " ++ [27880; 37322]%N ++ runes_of_ascii "
    0123456789: body , ""abc""
:	stringy
,	""CRC32"":
    x_y_z,} ,
    //
    int32 Header @lengthOf(
// @lengthOf(
//
asx // " ++ [27880; 37322]%N ++ runes_of_ascii "
) , } packet packetx
{	}root packet
float//	t
{ @tag( 1 ) @lengthOf(
_x) @leftPad ( '0'
    )
repeat // c
i64_ ,}
")).
Eval vm_compute in ("<<<M658>>>" ++ check (runes_of_ascii "// @lengthOf(
packet BodyLength { char T
    , } root packet
A
{
repeat len `say ""hi""` ,repeat Pad{ repeat char[] // " ++ [128512]%N ++ runes_of_ascii " emoji
stringy  , repeat
rootA
{ uint64
Foo @lengthOf( // `tick` ""quote"" 'q'
options1 ) // @lengthOf(
`it's` ,
//x
/// triple
zchar { zchar[
42] Z9_
,
    repeat o  i8i8 ,
uint8 x `it's` ,
    rootA Foo
`{ , }`, }
, }
,
metadata
@calculatedFrom( ""a	b"" )
, } ,  @tag(	1) string
    // c
    u `doc`
    //	t
    ,  u
@calculatedFrom(
    ""it's"")
    ``,char[ 7 ]	packetx@lengthOf( A ) `{ , }`	, string _x `
` ,
float32 _x , repeat char[ 42 ] rootA
`doc` ,} MetaData matchKey {
zchar[ 0123456789
    ]falsey
    `` , }  packet Logon
{ @lengthOf( zchar ) match leftPad as falsey
    {
3 : Packet , 007 :// `tick` ""quote"" 'q'
zchar
1 : // @lengthOf(
float ,	""it's"" :
body""CRC32""
    // " ++ [128512]%N ++ runes_of_ascii " emoji
    :  body } , @calculatedFrom(""{,}"") zchar[
    1 ] i8i8 @lengthOf(
uint8x  )
,
zchar[ 00]
    // `tick` ""quote"" 'q'
    a1
, uint64
    u , string Packet @calculatedFrom( ""packet"" ), }
")).
Eval vm_compute in ("<<<M3618>>>" ++ check (runes_of_ascii "
options

    {LittleEndian
= true  ;StringPrefixLenType
    =u16
	;
	ArrayPrefixLenType	= u8
	;

FixedStringPadChar= 
'0'	;

    }
	packet	Logout
{  repeat	i16 f1 
,
string Ref ,
@rightPad
(
    '\x00')char[

9
    ]
Tail  ,
repeat
char[

6

]Flags
,  repeat  char[

    3 ] Acct
    ,}
packet

Party	{	char[2
] 
f1
,
	u8
Side2

    ,
@leftPad
( ' '
) char[ 1
    ]

    venue
,	}
    packet
	Order

    { repeat
    i64
    Ref  ,InPx62 {

i32 OrderId
	,} , InNote53

    {
InClordid80
	{ char[] Acct ,	u32 
Px
    , repeat	Party 
, 
}  ,InPrice12	{ 
u8 pad0 ,
}
    ,  repeat Logout ,

    InFlags23
{ repeat
string seqNo
, string  sym

,
    int8
Flags , zchar[
    5 
] 
lastPx

, zchar[

    6 
]Px ,
} , char[
10
    ]Acct

,
    InPx18 
{ zchar[ 2 
]

count ,

    Party	,
    } ,	}
, 
char[  5
	]
	Side2
,

    char[  1 ] Acct	,

}root
packet
Ack
{ 
u32
Tail ,repeat	char[  4 ]

msgKind,  repeat

Logout , }
")).
Eval vm_compute in ("<<<M287>>>" ++ check (runes_of_ascii "
root packet	Foo {
Packet
{
u32 chars `{ , }`
// a // b
// " ++ [128512]%N ++ runes_of_ascii " emoji
, zchar[ // " ++ [27880; 37322]%N ++ runes_of_ascii "
255 ] Foo
    , } , f32a @lengthOf( MetaDataX ) `doc` , As`say ""hi""`
,  char[] crc @calculatedFrom( """ ++ [28040; 24687]%N ++ runes_of_ascii """
)`say ""hi""` ,	int32 T//x
`// not a comment` , @lengthOf( x )
    //
    pack
{  match
i8i8 as trueish
    { ""x y"" : BodyLength, [
// `tick` ""quote"" 'q'
// packet A { u8 x, }
""\n""
    ,007,
    ""// no comment"" ,
//x
// " ++ [128512]%N ++ runes_of_ascii " emoji
42
,
""1"" , 65535// " ++ [128512]%N ++ runes_of_ascii " emoji
,10 ] :
    a1 ,[ ""{,}""
]
: metadata
, ""a	b"" : As , }	,
} ,
match f32a	as
    A
    {""abc"": rootA
    4294967296 : /// triple
Z9_
    // c
    , [
007 , ""a\""b""	, 00
    , 42 ,
1	,0123456789 ,""x y""
] : Foo , }, char[ 7 ] i64_
    `it's` , @lengthOf( pack ) repeat As , } MetaData
charz	{ u64 asx, } packet x { }MetaData MetaDataX{A a1
    // " ++ [128512]%N ++ runes_of_ascii " emoji
    , char[]	x`a\` ,uint16 leftPad , }options
{
a1 =
    42
; BodyLength	= true
;
x_y_z =int16 } 	 ")).
Eval vm_compute in ("<<<M895>>>" ++ check (runes_of_ascii "options { Foo =
    // trailing space 
    ""\" ++ [233]%N ++ runes_of_ascii """roots = ""`tick`""
// trailing space 
//	t
; crc = ""packet"" ; falsey= // a // b
1
float = u32	; } packet
options1	{
    match Header as Packet { [ ""abc""
    ] : Header , ""`tick`"" : i64_, [ 7 ,
/// triple
//x
"""", 3 ] : Z9_	,
    [ ""// no comment"" ,
""x y"" , """ ++ [28040; 24687]%N ++ runes_of_ascii """ , 1, ""a	b"" ] : x_y_z
,""a\""b"" :float// c
} , // @lengthOf(
i8i8 _x,  @rightPad ( '\x00')	zchar[
0
    ] string_ ,}packet u8x {@lengthOf(  packetx) char[ 42
    ]
    // `tick` ""quote"" 'q'
    _x,
    f64 matchKey `it's`
, match repeatCount
as
roots
    {
// packet A { u8 x, }
// " ++ [27880; 37322]%N ++ runes_of_ascii "
[
""CRC32""
,
""" ++ [128512]%N ++ runes_of_ascii """
    ] : i8i8 ,} ,
    // " ++ [27880; 37322]%N ++ runes_of_ascii "
    @lengthOf(
len ) @rightPad
( ' '	) u stringy	`say ""hi""` ,// @lengthOf(
repeat char[ 7  ] pack	`" ++ [28040; 24687; 31867; 22411]%N ++ runes_of_ascii "`,	@tag( 42	) string u8x`// not a comment`
    , } root packet As
    {	int32 x
@calculatedFrom( ""\n"" ) , }
")).
Eval vm_compute in ("<<<M211>>>" ++ check (runes_of_ascii "packet f32a
    { @calculatedFrom(""1"" )
_x { string
/// triple
//	t
metadata@calculatedFrom( ""`tick`""	) `// not a comment` ,  match // packet A { u8 x, }
Foo as  len { 42//
:Z9_ , //x
}  , }
,} packet /// triple
options1{ @lengthOf(A )roots
@lengthOf(// packet A { u8 x, }
msg_type ) `line1
line2` , int32/// triple
a1 `it's` , @calculatedFrom( ""packet""
    )repeat string T , @lengthOf( i64_ ) @calculatedFrom(
""packet""
) @tag( 007
) int16 asx@calculatedFrom(
""it's""
    )//	t
`doc` , repeat i32
charz, metadata // packet A { u8 x, }
`// not a comment` , }  packet
Logon{ }
options {
}
root
packet tag  { @lengthOf(
    Logon
)
charz { string stringy`// not a comment`	,
uint64 int,char
    i64_ `it's`
// packet A { u8 x, }
// a // b
, } ,
//	t
//
u8
i64_ , zchar[ 1 ] float
, } /// triple")).
Eval vm_compute in ("<<<M220>>>" ++ check (runes_of_ascii "
MetaData BodyLength
{  int32 chars
    `u8 x,` , char[
0123456789 ] // c
matchKey `a\` ,
char[]
    //
    A , } packet//x
u128
    {}
packet rootA
{float64// c
roots ,  @lengthOf(
    float// `tick` ""quote"" 'q'
)//	t
repeat BodyLength { BodyLength{
    repeat
f64 Packet, char[ 7
/// triple
//	t
] As `doc` ,
}
    ,
} , calculatedFrom
{i16  o@lengthOf(
    Logon ) `doc`, Foo u128 ,	char// @lengthOf(
u @lengthOf(  _x
) ,  },@tag( 1  )@rightPad // `tick` ""quote"" 'q'
(' '
) char[]msg_type
// trailing space 
// trailing space 
, } packet
calculatedFrom
{
    char[] rootA@calculatedFrom( ""a	b"" ) ,
}	options
//	t
// packet A { u8 x, }
{
    o =
""// no comment"" matchKey
    = '\x00' ;
    u
    = """"
leftPad = ""CRC32""; A= ""CRC32"" ; } // trailing space ")).
Eval vm_compute in ("<<<M380>>>" ++ check (runes_of_ascii "root
    packet
    stringy{	u8x @lengthOf( A)
    , match f32a as // trailing space 
options1
// " ++ [27880; 37322]%N ++ runes_of_ascii "
//	t
{[
""a\""b"" ,	0123456789 ] : trueish[
    ""a\\""
, 3
, 65535
    , 255 ,
    """ ++ [233]%N ++ runes_of_ascii "t" ++ [233]%N ++ runes_of_ascii """, 65535 , ""\" ++ [233]%N ++ runes_of_ascii """ ] // `tick` ""quote"" 'q'
:  body,},
@calculatedFrom( """ ++ [128512]%N ++ runes_of_ascii """ ) repeat uint16 int //
,repeat
/// triple
/// triple
tag	, @leftPad () match int as u8x //
{[ 65535 ,	""" ++ [233]%N ++ runes_of_ascii "t" ++ [233]%N ++ runes_of_ascii """
    ] :
    metadata
,
    }//x
, @rightPad  () repeat zchar[ 7
//	t
// packet A { u8 x, }
] Logon
//
//	t
`crlf
line`
, As
// " ++ [128512]%N ++ runes_of_ascii " emoji
// packet A { u8 x, }
{
int64 roots , } , // packet A { u8 x, }
@tag(255
) int64 charz @calculatedFrom(
""a	b"" ) , BodyLength lengthOf  ,float64
As,  }packet	Foo { char[ 4294967296 ]float `u8 x,`
    , } packet _x { }
")).
Eval vm_compute in ("<<<M3919>>>" ++ check (runes_of_ascii "

  packet
	msg_type
// packet A { u8 x, }

	{	//	t
string	packetx
@lengthOf(

    charz )

    ,
	@calculatedFrom(

    """" )
repeat
    char[
0123456789
    ]
    // c
int

    `it's`
, @rightPad

    (	// packet A { u8 x, }

  )
	@tag(
	42
    )@calculatedFrom(
""`tick`""

    )

repeat
uint16
    falsey`" ++ [233]%N ++ runes_of_ascii "` ,	i32
Foo
, 
@tag(  7 
)

u64
chars

@lengthOf( 
BodyLength  )	,

    i16	Z9_
    @lengthOf(	/// triple
	a1
)

, @lengthOf( leftPad )lengthOf body

    ``

,	@tag(007 )  char[
10	//x
	]
    _x 
      // a // b
// " ++ [27880; 37322]%N ++ runes_of_ascii "
    @lengthOf(roots
) `
`  , // a // b

@calculatedFrom(""a\\"" )
	float64 	 //	t
rootA`doc` ,
string
T@calculatedFrom(
	""""
) 
, 
}
")).
Eval vm_compute in ("<<<M4090>>>" ++ check (runes_of_ascii "root packet stringy {
    u8x @lengthOf(A),
    match f32a as options1 {
        [""a\""b"", 0123456789] : trueish,
        [
            ""a\\"", 3, 65535, 255, """ ++ [233]%N ++ runes_of_ascii "t" ++ [233]%N ++ runes_of_ascii """,
            65535, ""\" ++ [233]%N ++ runes_of_ascii """
        ] : body,
    },
    @calculatedFrom(""" ++ [128512]%N ++ runes_of_ascii """)
    repeat uint16 int,
    repeat tag,
    @leftPad()
    match int as u8x {
        [65535, """ ++ [233]%N ++ runes_of_ascii "t" ++ [233]%N ++ runes_of_ascii """] : metadata,
    },
    @rightPad()
    repeat zchar[7] Logon `crlf
        line`,
    As {
        int64 roots,
    },// packet A { u8 x, }
    @tag(255)
    int64 charz @calculatedFrom(""a	b""),
    BodyLength lengthOf,
    float64 As,
}

packet Foo {
    char[4294967296] float `u8 x,`,
}

packet _x {
}")).
Eval vm_compute in ("<<<M186>>>" ++ check (runes_of_ascii "packet Packet { @tag(	65535 ) @leftPad ( ' '
    )
@tag( 255
    /// triple
    )
    uint8
len
    @lengthOf( T), int32 u8x , @lengthOf( rootA )float32 i64_
`u8 x,` , } packet// c
int { repeat	i8i8
{lengthOf
    @lengthOf( int)`line1
line2`
, string	falsey `
` ,uint16
// `tick` ""quote"" 'q'
// trailing space 
roots
@lengthOf(
charz), } , }options
    { Foo = ' '	len  = """ ++ [128512]%N ++ runes_of_ascii """
; chars= u64 ;
//x
//
uint8x // a // b
=	""" ++ [128512]%N ++ runes_of_ascii """
    // trailing space 
    ;metadata= ' ' ; }
    // " ++ [27880; 37322]%N ++ runes_of_ascii "
    MetaData Header
    // " ++ [27880; 37322]%N ++ runes_of_ascii "
    {
i16
    matchKey,Packet Packet `u8 x,`  , }packet u128 {uint8x
@lengthOf(charz) `u8 x,`	, }
")).
Eval vm_compute in ("<<<M4011>>>" ++ check (runes_of_ascii "// packet A { u8 x, }
packet zchar {
    uint32 matchKey,
    i32 leftPad @calculatedFrom(""1"") `crlf
    line`,
    _x {
        f32a @calculatedFrom(""`tick`""),// packet A { u8 x, }
        char metadata `u8 x,`,
        // c
        char[] a1 @lengthOf(float) `a\`,
    },
    @lengthOf(A)
    /// triple
    zchar[0123456789] Header @lengthOf(o) `" ++ [28040; 24687; 31867; 22411]%N ++ runes_of_ascii "`,
    @tag(00)
    x `it's`,
    i8 msg_type @lengthOf(len) `
    `,
    @tag(00)
    repeat matchKey {
        string u `" ++ [28040; 24687; 31867; 22411]%N ++ runes_of_ascii "`,
        u8 u @calculatedFrom(""a\""b""),
        i8 len,
        packetx,
    },
}

options {
    Foo = 0;
}")).
Eval vm_compute in ("<<<M1087>>>" ++ check (runes_of_ascii "  packet
    falsey { float64	calculatedFrom`
`, /// triple
@tag(
42 )
repeatCount {
match repeatCount as  A	{
    0 : f32a
    ,
    } ,
uint16 f32a @calculatedFrom(
""a\\"" )  `// not a comment`  , crc {
    char[ 3 ]
Logon // `tick` ""quote"" 'q'
@calculatedFrom(
""packet"" ), repeat
u128
    {zchar[
    42 ]lengthOf `crlf
line` ,Pad roots `line1
line2`
,
}
// packet A { u8 x, }
// trailing space 
,
// packet A { u8 x, }
// `tick` ""quote"" 'q'
}
,}	,
} packet uint8x	{repeat u8
body , }packet
asx	{
zchar[ 255]
// " ++ [128512]%N ++ runes_of_ascii " emoji
// trailing space 
asx ,}
")).
Eval vm_compute in ("<<<M178>>>" ++ check (runes_of_ascii "
packet
// packet A { u8 x, }
// " ++ [27880; 37322]%N ++ runes_of_ascii "
matchKey {} packet
    string_ { matchKey @lengthOf(
asx)
    ,@rightPad ( ' '
) metadata
,
// a // b
// @lengthOf(
o //
chars ,  uint16 tag `u8 x,` ,
repeat  float32 Logon  `two words` , /// triple
matchKey	@calculatedFrom( ""a	b""
)`doc`
    ,
repeat packetx
a1 ,} MetaData Packet //
{
char[]
    pack, string  zchar ,zchar[
//	t
// trailing space 
1 ] x_y_z, int64
    charz
`say ""hi""`, u32
lengthOf
    `doc`
,}
options
    { a1
= int16 ; crc =' ';tag = char[ 42]
leftPad
    = true ; }")).
Eval vm_compute in ("<<<M1032>>>" ++ check (runes_of_ascii "MetaData  lengthOf
{
}	root packet //x
falsey
// " ++ [128512]%N ++ runes_of_ascii " emoji
//x
{ Pad // a // b
{
zchar[ 1
] Z9_ , msg_type
    x_y_z , match u8x as trueish {
    """ ++ [28040; 24687]%N ++ runes_of_ascii """
:	asx,} , }	, // `tick` ""quote"" 'q'
@lengthOf( rootA ) match zchar as int{
""`tick`"" :
    len , ""{,}"" : MetaDataX ,}	,
i64 rootA
    //x
    `" ++ [28040; 24687; 31867; 22411]%N ++ runes_of_ascii "` ,
@calculatedFrom( ""it's"" )repeat
    /// triple
    metadata
    ,
    T @lengthOf( u128 ) , uint64 Pad , // " ++ [27880; 37322]%N ++ runes_of_ascii "
falsey x ,	int16	leftPad
    , //	t
falsey  @lengthOf( matchKey), zchar[ 255 ] u128`u8 x,` ,
}")).
Eval vm_compute in ("<<<M761>>>" ++ check (runes_of_ascii "MetaData a1
{
// `tick` ""quote"" 'q'
//	t
_x  asx ,} MetaData Packet
{	BodyLength
    int, } root packet x	{ @leftPad(' ' ) f64
// a // b
// `tick` ""quote"" 'q'
repeatCount@lengthOf(
x // c
) `line1
line2`
, @rightPad// @lengthOf(
('\x00'
    )match i8i8 as pack{ [ 10
, """ ++ [128512]%N ++ runes_of_ascii """, 10
, ""a	b"" ,
1// trailing space 
,
// c
// " ++ [128512]%N ++ runes_of_ascii " emoji
7 ] : leftPad [ 255 , 10 ,0 , 1 , """ ++ [233]%N ++ runes_of_ascii "t" ++ [233]%N ++ runes_of_ascii """, ""x y""  ]: A """ ++ [28040; 24687]%N ++ runes_of_ascii """ :
    u, 00 :  charz ,
    // a // b
    """ ++ [28040; 24687]%N ++ runes_of_ascii """
:
len 0:
    As, } ,
f32 x
`" ++ [233]%N ++ runes_of_ascii "` , }	MetaData x {}")).
Eval vm_compute in ("<<<M547>>>" ++ check (runes_of_ascii "options { As
    =u16
body =char[]
} MetaData options1
{ //
zchar[1 ] T
`{ , }`, stringy BodyLength
    ,uint16 matchKey
    , //	t
char[ 255
// `tick` ""quote"" 'q'
// " ++ [128512]%N ++ runes_of_ascii " emoji
] _x// trailing space 
, o o `a\`
, }
packet chars
{
f32a
{
repeat a1,
    repeat charz	x_y_z , asx,
    rootA len
`crlf
line` ,
}
,// " ++ [27880; 37322]%N ++ runes_of_ascii "
} root packet Header { string float
`
`
,//	t
} options
{ T
    = false options1 =
    ""packet"" matchKey
    =zchar[00 ] ; string_	= false ; }
")).
Eval vm_compute in ("<<<M3581>>>" ++ check (runes_of_ascii "// top
packet // c0
A
    // c1
{ // c2a
  // c2b
u8 // c3a
  // c3b
a // c4a
  // c4b
, } packet // c7
B
    // c8
{ // c9
u16 // c10
b , // c12a
  // c12b
} // c13
root // c14a
  // c14b
packet P // c16
{ u8 // c18
K // c19
, // c20a
  // c20b
match // c21a
  // c21b
K
    // c22
as // c23a
  // c23b
M
    // c24
{
    // c25
1 // c26a
  // c26b
: // c27
A // c28
, 1 : // c31a
  // c31b
B // c32
, // c33
} // c34
,
    // c35
} // c36
")).
Eval vm_compute in ("<<<M1090>>>" ++ check (runes_of_ascii "root packet MetaDataX
{@leftPad ( '\x00' ) i8i8 @lengthOf( charz
) ,repeat
u8x `crlf
line` ,
    zchar
    `line1
line2`
, @lengthOf( stringy
    )repeat
char[ 00] // trailing space 
packetx , }
    /// triple
    root packet
charz { match
    repeatCount
    as
float {
    //	t
    0123456789
    // a // b
    : Packet ,	}
    , string
    // trailing space 
    x_y_z	@calculatedFrom(
    ""\n"" )
,
    }  options
{ }")).
Eval vm_compute in ("<<<M3522>>>" ++ check (runes_of_ascii "// top
packet
    // c0
float
    // c1
{
    // c2
repeat
    // c3
i8i8
    // c4
MetaDataX
    // c5
`it's`
    // c6
,
    // c7
rootA
    // c8
,
    // c9
repeat
    // c10
int8
    // c11
int
    // c12
,
    // c13
match
    // c14
repeatCount
    // c15
as
    // c16
x_y_z
    // c17
{
    // c18
""{,}""
    // c19
:
    // c20
Logon
    // c21
,
    // c22
}
    // c23
,
    // c24
}
    // c25
")).
Eval vm_compute in ("<<<M1347>>>" ++ check (runes_of_ascii "options {	x=
    ""// no comment"" }	packet trueish { @lengthOf(
_x )Header // " ++ [128512]%N ++ runes_of_ascii " emoji
{
char[]
    Pad @calculatedFrom( """ ++ [28040; 24687]%N ++ runes_of_ascii """ )  ,  float64 msg_type , }	,repeat string
    packetx `u8 x,`, match Header
    as  charz
    {
    65535: pack
    ,} // " ++ [128512]%N ++ runes_of_ascii " emoji
, } packet float { } root packet A { @calculatedFrom(	""x y"" )// @lengthOf(
string
// " ++ [128512]%N ++ runes_of_ascii " emoji
// " ++ [128512]%N ++ runes_of_ascii " emoji
len @lengthOf( metadata
)
, }")).
Eval vm_compute in ("<<<M4202>>>" ++ check (runes_of_ascii "options {
    x = ""// no comment""
}

packet trueish {
    @lengthOf(_x)
    Header {
        char[] Pad @calculatedFrom(""" ++ [28040; 24687]%N ++ runes_of_ascii """),
        float64 msg_type,
    },
    repeat string packetx `u8 x,`,
    match Header as charz {
        65535 : pack,
    },
}

packet float {
}

root packet A {
    @calculatedFrom(""x y"")
    // @lengthOf(
    string len @lengthOf(metadata),
}")).
Eval vm_compute in ("<<<M4153>>>" ++ check (runes_of_ascii "packet string_ {
    zchar[3] stringy @lengthOf(packetx) `u8 x,`,// `tick` ""quote"" 'q'
    f64 string_ ``,
}

MetaData leftPad {
    char[1] MetaDataX `crlf
    line`,
    metadata a1 `tab	here`,
    T o `line1
    line2`,// " ++ [128512]%N ++ runes_of_ascii " emoji
    o trueish,
}

options {
}

MetaData T {
    Foo Logon,
    Logon lengthOf,
    char[00] pack,
    char[7] i8i8 ``,
}")).
Eval vm_compute in ("<<<M4587>>>" ++ check (runes_of_ascii "

  MetaData
u{
	u128

    tag

`
`,
	zchar[
10]  pack 
`say ""hi""`
	, 
string

metadata
    `doc`
	,
	}	packet	chars {
	match crc
	as  trueish  { 
	// " ++ [27880; 37322]%N ++ runes_of_ascii "
  10  : 
roots 
[ """ ++ [28040; 24687]%N ++ runes_of_ascii """

,
	"""", 4294967296
,  ""\n"" 
,007  ,

    ""a\""b""
	,

"""" ,  // `tick` ""quote"" 'q'
  42 
]
:
string_ ""{,}"":x_y_z	,  } ,i8i8 
int ,
    asx ,}
        //	t
")).
Eval vm_compute in ("<<<M1941>>>" ++ check (runes_of_ascii "MetaData
    u { }  options {
// c
// @lengthOf(
float = int8 ;rootA =false ; As =	int16 // `tick` ""quote"" 'q'
repeatCount repeatCount
    // trailing space 
    =
    int16
; u8x =
    //	t
    '\x00' ; } options	{
    repeatCount
= 0
u128
    //
    = false ; i64_
// trailing space 
// `tick` ""quote"" 'q'
= '0' ; //	t
}
")).
Eval vm_compute in ("<<<M2018>>>" ++ check (runes_of_ascii "MetaData
    u { }  options {
// c
// @lengthOf(
float = int8 ;rootA =false ; As =	int16 // `tick` ""quote"" 'q'
repeatCount
    // trailing space 
    =
    int16
; u8x =
    //	t
    '\x00' ; } options	{
    repeatCount
= 0
u128
    //
    packet false ; i64_
// trailing space 
// `tick` ""quote"" 'q'
= '0' ; //	t
}
")).
Eval vm_compute in ("<<<M1948>>>" ++ check (runes_of_ascii "MetaData
    u { }  options {
// c
// @lengthOf(
float = int8 ;rootA =false ; As =	int16 // `tick` ""quote"" 'q'
repeatCount
    // trailing space 
    007
    int16
; u8x =
    //	t
    '\x00' ; } options	{
    repeatCount
= 0
u128
    //
    = false ; i64_
// trailing space 
// `tick` ""quote"" 'q'
= '0' ; //	t
}
")).
Eval vm_compute in ("<<<M2064>>>" ++ check (runes_of_ascii "MetaData
    u { }  options {
// c
// @lengthOf(
float = int8 ;rootA =false ; As =	int16 // `tick` ""quote"" 'q'
repeatCount
    // trailing space 
    =
    int16
; u8x =
    //	t
    '\x00' ; } options	{
    repeatCount
= 0
u128
    //
   $ = false ; i64_
// trailing space 
// `tick` ""quote"" 'q'
= '0' ; //	t
}
")).
Eval vm_compute in ("<<<M1972>>>" ++ check (runes_of_ascii "MetaData
    u { }  options {
// c
// @lengthOf(
float = int8 ;rootA =false ; As =	int16 // `tick` ""quote"" 'q'
repeatCount
    // trailing space 
    =
    int16
; u8x =
    //	t
    ; '\x00' } options	{
    repeatCount
= 0
u128
    //
    = false ; i64_
// trailing space 
// `tick` ""quote"" 'q'
= '0' ; //	t
}
")).
Eval vm_compute in ("<<<M1930>>>" ++ check (runes_of_ascii "MetaData
    u { }  options {
// c
// @lengthOf(
float = int8 ;rootA =false ; As 	int16 // `tick` ""quote"" 'q'
repeatCount
    // trailing space 
    =
    int16
; u8x =
    //	t
    '\x00' ; } options	{
    repeatCount
= 0
u128
    //
    = false ; i64_
// trailing space 
// `tick` ""quote"" 'q'
= '0' ; //	t
}
")).
Eval vm_compute in ("<<<M2030>>>" ++ check (runes_of_ascii "MetaData
    u { }  options {
// c
// @lengthOf(
float = int8 ;rootA =false ; As =	int16 // `tick` ""quote"" 'q'
repeatCount
    // trailing space 
    =
    int16
; u8x =
    //	t
    '\x00' ; } options	{
    repeatCount
= 0
u128
    //
    = false ; 
// trailing space 
// `tick` ""quote"" 'q'
= '0' ; //	t
}
")).
Eval vm_compute in ("<<<M1995>>>" ++ check (runes_of_ascii "MetaData
    u { }  options {
// c
// @lengthOf(
float = int8 ;rootA =false ; As =	int16 // `tick` ""quote"" 'q'
repeatCount
    // trailing space 
    =
    int16
; u8x =
    //	t
    '\x00' ; } options	{
    
= 0
u128
    //
    = false ; i64_
// trailing space 
// `tick` ""quote"" 'q'
= '0' ; //	t
}
")).
Eval vm_compute in ("<<<M4280>>>" ++ check (runes_of_ascii "packet x {
    int8 T,
}

options {
}

packet Z9_ {
    @lengthOf(A)
    As @calculatedFrom(""x y""),
}

MetaData Logon {
    //x
    //x
    pack trueish,/// triple
    rootA charz,
    leftPad leftPad,
    char[] Logon,
    // a // b
    // " ++ [27880; 37322]%N ++ runes_of_ascii "
    f64 matchKey,
    falsey falsey `two words`,
}")).
Eval vm_compute in ("<<<M4349>>>" ++ check (runes_of_ascii "  packet

    trueish  {  body Logon ,
} packet len	{
	@leftPad(
    '0' // packet A { u8 x, }
)

@rightPad

    () repeat  calculatedFrom `u8 x,` ,repeatCount
{
    repeat
Logon	tag 
`u8 x,`
,	} 	 // " ++ [128512]%N ++ runes_of_ascii " emoji
,
repeat char[	65535 ]Header  `two words` ,float32 Pad  ,
    } ")).
Eval vm_compute in ("<<<M3309>>>" ++ check (runes_of_ascii "// top
root // c0
packet // c1a
  // c1b
matchKey // c2
{
    // c3
zchar[ 3 // c5
]
    // c6
pack @calculatedFrom( // c8
""a	b"" // c9a
  // c9b
) // c10
`doc` // c11
, } options
    // c14
{ } // c16
MetaData A { // c19a
  // c19b
int8 // c20
msg_type ,
    // c22
} ")).
Eval vm_compute in ("<<<M1603>>>" ++ check (runes_of_ascii "packet
//	t
// trailing space 
_x {
// packet A { u8 x, }
// c
char[
3
    ] u8x @lengthOf(
u8x ) , @calculatedFrom(""" ++ [128512]%N ++ runes_of_ascii """ // @lengthOf(
)
i16	Foo
@lengthOf(	string_
    )`doc`	, repeat	i64 metadata metadata , @lengthOf( string_
) i8 // c
u  `line1
line2`	,
}
")).
Eval vm_compute in ("<<<M1563>>>" ++ check (runes_of_ascii "packet
//	t
// trailing space 
_x {
// packet A { u8 x, }
// c
char[
3
    ] u8x @lengthOf(
u8x ) , @calculatedFrom(""" ++ [128512]%N ++ runes_of_ascii """ // @lengthOf(
)
i16	Foo Foo
@lengthOf(	string_
    )`doc`	, repeat	i64 metadata , @lengthOf( string_
) i8 // c
u  `line1
line2`	,
}
")).
Eval vm_compute in ("<<<M1661>>>" ++ check (runes_of_ascii "packet
//	t
// trailing space 
_x {
// packet A { u8 x, }
// c
char[
3
    ] u8x @lengthOf(
` u8x ) , @calculatedFrom(""" ++ [128512]%N ++ runes_of_ascii """ // @lengthOf(
)
i16	Foo
@lengthOf(	string_
    )`doc`	, repeat	i64 metadata , @lengthOf( string_
) i8 // c
u  `line1
line2`	,
}
")).
Eval vm_compute in ("<<<M1529>>>" ++ check (runes_of_ascii "packet
//	t
// trailing space 
_x {
// packet A { u8 x, }
// c
char[
3
    ] u8x @lengthOf(
) u8x , @calculatedFrom(""" ++ [128512]%N ++ runes_of_ascii """ // @lengthOf(
)
i16	Foo
@lengthOf(	string_
    )`doc`	, repeat	i64 metadata , @lengthOf( string_
) i8 // c
u  `line1
line2`	,
}
")).
Eval vm_compute in ("<<<M1497>>>" ++ check (runes_of_ascii "packet
//	t
// trailing space 
_x 
// packet A { u8 x, }
// c
char[
3
    ] u8x @lengthOf(
u8x ) , @calculatedFrom(""" ++ [128512]%N ++ runes_of_ascii """ // @lengthOf(
)
i16	Foo
@lengthOf(	string_
    )`doc`	, repeat	i64 metadata , @lengthOf( string_
) i8 // c
u  `line1
line2`	,
}
")).
Eval vm_compute in ("<<<M4044>>>" ++ check (runes_of_ascii "/// triple
root packet Logon {
    @calculatedFrom(""CRC32"")
    uint8x {
        roots pack `line1
        line2`,
    },
    string u,
}

packet body {
    uint64 Logon,
}

root packet lengthOf {
}

packet A {
    u32 pack @calculatedFrom(""" ++ [128512]%N ++ runes_of_ascii """),
}")).
Eval vm_compute in ("<<<M1327>>>" ++ check (runes_of_ascii "
packet
    //x
    leftPad {
    }options
{ Foo
= ""1""zchar
    = 65535 uint8x  = zchar[ 10
    ] ;
} MetaData
    u128 { f32a x
, i16 u8x
    `two words` , BodyLength metadata `// not a comment` // a // b
,
    } options {As= '\x00'
;}")).
Eval vm_compute in ("<<<M504>>>" ++ check (runes_of_ascii "
packet Z9_ { } // " ++ [27880; 37322]%N ++ runes_of_ascii "
MetaData packetx
{ u8 x_y_z
    `it's` , } packet options1
    {
uint16 rootA
    `" ++ [28040; 24687; 31867; 22411]%N ++ runes_of_ascii "`
//x
// `tick` ""quote"" 'q'
, // " ++ [128512]%N ++ runes_of_ascii " emoji
repeat string stringy`" ++ [233]%N ++ runes_of_ascii "` ,
    char[] // @lengthOf(
repeatCount `" ++ [28040; 24687; 31867; 22411]%N ++ runes_of_ascii "`
,
    }")).
Eval vm_compute in ("<<<M3597>>>" ++ check (runes_of_ascii "options
    {  FixedStringPadChar=	'0'
    ; 
}packet
Q {

zchar[
	4
] z , @rightPad
( '\x00'  ) char[3 ] 
n , char[ 5
] d

    ,  }root 
packet R {
    Q
,
	zchar[ 8
    ] 
top
, repeat zchar[
2

    ] zs,

    }

")).
Eval vm_compute in ("<<<M4464>>>" ++ check (runes_of_ascii "options {
}// a // b

packet BodyLength {
    zchar[0123456789] packetx `doc`,
    repeat msg_type `// not a comment`,
    zchar[00] len,
    chars @lengthOf(chars) `a\`,
}

MetaData _x {
    asx MetaDataX `{ , }`,
}")).
Eval vm_compute in ("<<<M1817>>>" ++ check (runes_of_ascii "options { trueish = ""`tick`"" ; string_= """ ++ [233]%N ++ runes_of_ascii "t" ++ [233]%N ++ runes_of_ascii """
    // c
    } root
    packet body { stringy @calculatedFrom(
""a	b"" ) `line1
line2` , }
packet Logon {
    @leftPad(
    ' ' ) //	t
u16 string_ string_ `u8 x,` ,
}
")).
Eval vm_compute in ("<<<M1802>>>" ++ check (runes_of_ascii "options { trueish = ""`tick`"" ; string_= """ ++ [233]%N ++ runes_of_ascii "t" ++ [233]%N ++ runes_of_ascii """
    // c
    } root
    packet body { stringy @calculatedFrom(
""a	b"" ) `line1
line2` , }
packet Logon {
    @leftPad(
    ' ' ' ' ) //	t
u16 string_ `u8 x,` ,
}
")).
Eval vm_compute in ("<<<M1851>>>" ++ check (runes_of_ascii "options { trueish = ""`tick`"" ; string_= """ ++ [233]%N ++ runes_of_ascii "t" ++ [233]%N ++ runes_of_ascii """
    // c
    } root
    packet body { stringy @calculatedFrom(
""a	b"" ) `line1
line2` , }
packet Logon {
    @leftPad(
    ' ' ) //	t
u16 " ++ [233]%N ++ runes_of_ascii " string_ `u8 x,` ,
}
")).
Eval vm_compute in ("<<<M1728>>>" ++ check (runes_of_ascii "options { trueish = ""`tick`"" ; string_= """ ++ [233]%N ++ runes_of_ascii "t" ++ [233]%N ++ runes_of_ascii """
    // c
    } root
    body packet { stringy @calculatedFrom(
""a	b"" ) `line1
line2` , }
packet Logon {
    @leftPad(
    ' ' ) //	t
u16 string_ `u8 x,` ,
}
")).
Eval vm_compute in ("<<<M1696>>>" ++ check (runes_of_ascii "options { trueish = ""`tick`""  string_= """ ++ [233]%N ++ runes_of_ascii "t" ++ [233]%N ++ runes_of_ascii """
    // c
    } root
    packet body { stringy @calculatedFrom(
""a	b"" ) `line1
line2` , }
packet Logon {
    @leftPad(
    ' ' ) //	t
u16 string_ `u8 x,` ,
}
")).
Eval vm_compute in ("<<<M1751>>>" ++ check (runes_of_ascii "options { trueish = ""`tick`"" ; string_= """ ++ [233]%N ++ runes_of_ascii "t" ++ [233]%N ++ runes_of_ascii """
    // c
    } root
    packet body { stringy @calculatedFrom(
 ) `line1
line2` , }
packet Logon {
    @leftPad(
    ' ' ) //	t
u16 string_ `u8 x,` ,
}
")).
Eval vm_compute in ("<<<M1167>>>" ++ check (runes_of_ascii "  options { } packet Logon{} packet Foo
{
    uint8x _x // a // b
`" ++ [28040; 24687; 31867; 22411]%N ++ runes_of_ascii "` ,
    } packet
u8x	{
rootA , }
    options
    // packet A { u8 x, }
    {
msg_type = false stringy=
    ' '
    } 	 ")).
Eval vm_compute in ("<<<M727>>>" ++ check (runes_of_ascii "packet
tag// a // b
{ repeat string
msg_type ,
// `tick` ""quote"" 'q'
// `tick` ""quote"" 'q'
i64
float  `crlf
line` ,@rightPad
( '0'
) @lengthOf(
MetaDataX
)	body ,} // trailing space ")).
Eval vm_compute in ("<<<M767>>>" ++ check (runes_of_ascii "MetaData
msg_type { float32 metadata `line1
line2`,
    uint16 msg_type `// not a comment` ,
    float
    Pad, float64 trueish`{ , }`, x
    stringy
    // " ++ [128512]%N ++ runes_of_ascii " emoji
    `tab	here` ,}")).
Eval vm_compute in ("<<<M1591>>>" ++ check (runes_of_ascii "packet
//	t
// trailing space 
_x {
// packet A { u8 x, }
// c
char[
3
    ] u8x @lengthOf(
u8x ) , @calculatedFrom(""" ++ [128512]%N ++ runes_of_ascii """ // @lengthOf(
)
i16	Foo
@lengthOf(	string_
    )`doc`")).
Eval vm_compute in ("<<<M384>>>" ++ check (runes_of_ascii "
options{ }MetaData len {	crc Foo,
    char[]
x_y_z `// not a comment` ,  } options  {a1= """ ++ [128512]%N ++ runes_of_ascii """ ; _x  =
0123456789 _x =
true u8x
    = ""packet"" trueish=string// " ++ [27880; 37322]%N ++ runes_of_ascii "
;} //")).
Eval vm_compute in ("<<<M1805>>>" ++ check (runes_of_ascii "options { trueish = ""`tick`"" ; string_= """ ++ [233]%N ++ runes_of_ascii "t" ++ [233]%N ++ runes_of_ascii """
    // c
    } root
    packet body { stringy @calculatedFrom(
""a	b"" ) `line1
line2` , }
packet Logon {
    @leftPad(")).
Eval vm_compute in ("<<<M2310>>>" ++ check (runes_of_ascii "// c
packet x { @lengthOf( metadata ) repeat lengthOf
,a1{
trueish	,// c
repeat//	t
MetaDataX , } , zchar[
    42	] rootA rootA // `tick` ""quote"" 'q'
,
    }
")).
Eval vm_compute in ("<<<M2370>>>" ++ check (runes_of_ascii "// c
packet x { @lengthOf( metadata ) repeat lengthOf
,a1{
trueish	,// c
repeat//	t
MetaDataX , } , zchar[
    42	] rootA // `tick` ""quote"" 'q'
,
    true
")).
Eval vm_compute in ("<<<M2312>>>" ++ check (runes_of_ascii "// c
packet x { @lengthOf( metadata ) repeat ,
lengthOf a1{
trueish	,// c
repeat//	t
MetaDataX , } , zchar[
    42	] rootA // `tick` ""quote"" 'q'
,
    }
")).
Eval vm_compute in ("<<<M2319>>>" ++ check (runes_of_ascii "// c
packet x { @lengthOf( metadata ) repeat lengthOf
,a1{
trueish	,// c
MetaDataX//	t
repeat , } , zchar[
    42	] rootA // `tick` ""quote"" 'q'
,
    }
")).
Eval vm_compute in ("<<<M2341>>>" ++ check (runes_of_ascii "// c
packet x { @lengthOf( metadata ) repeat lengthOf
,a1{
trueish	,// c
repeat//	t
MetaDataX , } , zchar[
    42	] rootA // `tick` ""quote"" 'q'

    }
")).
Eval vm_compute in ("<<<M2156>>>" ++ check (runes_of_ascii "options{
_x
= true
} options
{ o	= /// triple
false
    ; chars
= ""\n"" } packet root	Pad
/// triple
// packet A { u8 x, }
{	chars
    // a // b
    ,}")).
Eval vm_compute in ("<<<M2207>>>" ++ check (runes_of_ascii "options{
_x
= true
} options
{ o	= /// triple
false
    ; chars
= ""\n"" } root packet	x" ++ [178]%N ++ runes_of_ascii "
/// triple
// packet A { u8 x, }
{	chars
    // a // b
    ,}")).
Eval vm_compute in ("<<<M2154>>>" ++ check (runes_of_ascii "options{
_x
= true
} options
{ o	= /// triple
false
    ; chars
= ""\n"" }  packet	Pad
/// triple
// packet A { u8 x, }
{	chars
    // a // b
    ,}")).
Eval vm_compute in ("<<<M751>>>" ++ check (runes_of_ascii "packet rootA
{ @tag( 3
    )char[ 255]// " ++ [27880; 37322]%N ++ runes_of_ascii "
x `two words`, @lengthOf(
    zchar)i32 roots ,
    u16 Foo `say ""hi""` ,
    } // `tick` ""quote"" 'q'")).
Eval vm_compute in ("<<<M3971>>>" ++ check (runes_of_ascii "

  packet A

    {

Inner { match	k	as  n
{ [ 1 
,
22 , 007
	,
    4,
    5
,

    66
    ,

    7 ,
	8, 9 
,10 ] : B 
, }
,}
,

}
")).
Eval vm_compute in ("<<<M4467>>>" ++ check (runes_of_ascii "root packet _x {
    @rightPad(' ')
    f32 zchar @calculatedFrom(""abc"") `
    `,
    char[255] roots `crlf
    line`,
    repeat u8x,
}")).
Eval vm_compute in ("<<<M2183>>>" ++ check (runes_of_ascii "options{
_x
= true
} options
{ o	= /// triple
false
    ; chars
= ""\n"" } root packet	Pad
/// triple
// packet A { u8 x, }
{	chars")).
Eval vm_compute in ("<<<M4566>>>" ++ check (runes_of_ascii "root 
packet repeatCount 

// c
	// " ++ [128512]%N ++ runes_of_ascii " emoji

{

    msg_type 	 // `tick` ""quote"" 'q'
		{  float64 
lengthOf `" ++ [233]%N ++ runes_of_ascii "`	, } 
, }
")).
Eval vm_compute in ("<<<M4111>>>" ++ check (runes_of_ascii "// top
packet orderItem {
    u8 a,
}// c6

root packet newOrder {
    // c10
    orderItem,// c12a
    // c12b
    u8 x,
}")).
Eval vm_compute in ("<<<M3322>>>" ++ check (runes_of_ascii "root packet matchKey { zchar[ 3 // c
] pack @calculatedFrom( ""a	b"" ) `doc` , } options { } MetaData A { int8 msg_type , }")).
Eval vm_compute in ("<<<M3354>>>" ++ check (runes_of_ascii "root packet matchKey { zchar[ 3 ] pack @calculatedFrom( ""a	b"" ) `doc` , } options { } MetaData A { int8 msg_type // c
, }")).
Eval vm_compute in ("<<<M1473>>>" ++ check (runes_of_ascii "
packet
    falsey { Header@calculatedFrom(""packet""  ) , char[
    0123456789 ] packetx
    \, } // `tick` ""quote"" 'q'")).
Eval vm_compute in ("<<<M1444>>>" ++ check (runes_of_ascii "
packet
    falsey { Header@calculatedFrom(""packet""  ) , char[
    ] 0123456789 packetx
    , } // `tick` ""quote"" 'q'")).
Eval vm_compute in ("<<<M2189>>>" ++ check (runes_of_ascii "options{
_x
= true
} options
{ o	= /// triple
false
    ; chars
= ""\n"" } root packet	Pad
/// triple
// packet A {")).
Eval vm_compute in ("<<<M2978>>>" ++ check (runes_of_ascii "packet A {
  match k as n {
    [""a"", ""bb"", ""c c"", ""d"", ""e"", ""f"", ""g"", ""h"", ""i"", ""j"", ""k""] : B
    2 : C
  },
}")).
Eval vm_compute in ("<<<M3003>>>" ++ check (runes_of_ascii "packet A {
    u16 len @lengthOf(body) `a
b`,
    u32 crc @calculatedFrom(""CRC32"") `a
b`,
    string body,
}")).
Eval vm_compute in ("<<<M1248>>>" ++ check (runes_of_ascii "root packet Packet { @rightPad ( ' '  )
int8
//
// `tick` ""quote"" 'q'
rootA // a // b
, char[]i8i8 , } 	 ")).
Eval vm_compute in ("<<<M2951>>>" ++ check (runes_of_ascii "packet A {
  match k as n {
    [""a"", ""bb"", ""c c"", ""d"", ""e"", ""f"", ""g"", ""h"", ""i""] : B,
    2 : C
  },
}")).
Eval vm_compute in ("<<<M3603>>>" ++ check (runes_of_ascii "  packet
    FooBar
{
u8

a
, }	packet

foo_bar{
u16  b	,}
root
packet R

{
	FooBar 
, foo_bar,} ")).
Eval vm_compute in ("<<<M453>>>" ++ check (runes_of_ascii "
root packet string_ //	t
{ @lengthOf(
o ) @leftPad(	)
repeat char[
3 ] rootA
, } // @lengthOf(")).
Eval vm_compute in ("<<<M4129>>>" ++ check (runes_of_ascii "packet

A

    { B	b	`a
    b
  c` ,B
    `a
    b
  c`

,
	repeat B bs`a
    b
  c` ,
    } ")).
Eval vm_compute in ("<<<M4043>>>" ++ check (runes_of_ascii "MetaData body {
    i64 pack `it's`,
}

packet stringy {
    // c
    int16 calculatedFrom,
}")).
Eval vm_compute in ("<<<M582>>>" ++ check (runes_of_ascii "MetaData f32a { u32 roots , T matchKey  `tab	here` ,
/// triple
// packet A { u8 x, }
} 	 ")).
Eval vm_compute in ("<<<M3270>>>" ++ check (runes_of_ascii "MetaData
// c
float { float64 charz `
` , } root packet chars { @rightPad ( '0' ) Foo , }")).
Eval vm_compute in ("<<<M3302>>>" ++ check (runes_of_ascii "MetaData float { float64 charz `
` , } root packet chars { @rightPad ( '0' ) Foo
// c
, }")).
Eval vm_compute in ("<<<M3513>>>" ++ check (runes_of_ascii "packet chars { } packet MetaDataX { @tag( 42 ) i16 string_ , repeat x // c
`say ""hi""` , }")).
Eval vm_compute in ("<<<M794>>>" ++ check (runes_of_ascii "packet MetaDataX
{ char[]
len , // a // b
float64 len
@calculatedFrom( ""packet"" )
, }
")).
Eval vm_compute in ("<<<M1187>>>" ++ check (runes_of_ascii "options{
a1 = false
x
= ""CRC32""
// `tick` ""quote"" 'q'
// @lengthOf(
A  =  42
    } 	 ")).
Eval vm_compute in ("<<<M3221>>>" ++ check (runes_of_ascii "packet metadata { Logon { // c
A `" ++ [28040; 24687; 31867; 22411]%N ++ runes_of_ascii "` , tag o , } , zchar len `// not a comment` , }")).
Eval vm_compute in ("<<<M1056>>>" ++ check (runes_of_ascii "options {o= 007 Z9_ =
"""" Logon // a // b
= 4294967296 //	t
; }
packet stringy {}
")).
Eval vm_compute in ("<<<M3444>>>" ++ check (runes_of_ascii "packet o { repeat Logon uint8x , }
// c
options { asx = zchar[ 3 ] stringy = '\x00' }")).
Eval vm_compute in ("<<<M3586>>>" ++ check (runes_of_ascii "packet order_item {
    u8 a,
}
root packet new_order {
    order_item,
    u8 x,
}
")).
Eval vm_compute in ("<<<M2266>>>" ++ check (runes_of_ascii "options
{ } options { BodyLength= u16 Header= f64 ;  =
    true
    ; } // a // b")).
Eval vm_compute in ("<<<M3419>>>" ++ check (runes_of_ascii "MetaData body { i64 pack `it's` , } packet stringy { int16 calculatedFrom
// c
, }")).
Eval vm_compute in ("<<<M2246>>>" ++ check (runes_of_ascii "options
{ } options { BodyLength= u16 = f64 ; u128 =
    true
    ; } // a // b")).
Eval vm_compute in ("<<<M2886>>>" ++ check (runes_of_ascii "packet A {
  match k as n {
    [""a"", ""bb"", ""c c"", ""d""] : B,
    2 : C
  },
}")).
Eval vm_compute in ("<<<M2697>>>" ++ check (runes_of_ascii "( packet char[] { int32 ""`tick`"" i8 MetaData int64 zchar[ string char root")).
Eval vm_compute in ("<<<M4007>>>" ++ check (runes_of_ascii "//
  MetaData
o{
i16	zchar// a // b
,
char[ 	 //	t
	00] string_
, 
} ")).
Eval vm_compute in ("<<<M2878>>>" ++ check (runes_of_ascii "packet A {
  match k as n {
    [""a"", 22, ""c c""] : B
    2 : C
  },
}")).
Eval vm_compute in ("<<<M2663>>>" ++ check (runes_of_ascii "options { a = char[3]; b = zchar[0] c = char[] d = string e = u8 }")).
Eval vm_compute in ("<<<M474>>>" ++ check (runes_of_ascii "MetaData
pack {// " ++ [27880; 37322]%N ++ runes_of_ascii "
string //	t
float,
char[]	options1
, }
")).
Eval vm_compute in ("<<<M4563>>>" ++ check (runes_of_ascii "packet

    leftPad {
	u64 Foo , 
	// c
	// a // b
    }

")).
Eval vm_compute in ("<<<M3388>>>" ++ check (runes_of_ascii "packet x { @rightPad ( ) repeat roots Logon `doc` , }
// c
")).
Eval vm_compute in ("<<<M3378>>>" ++ check (runes_of_ascii "packet x { @rightPad ( ) repeat
// c
roots Logon `doc` , }")).
Eval vm_compute in ("<<<M4285>>>" ++ check (runes_of_ascii "options {
    repeatCount = int64
    u8x = ' ';
}
// " ++ [27880; 37322]%N)).
Eval vm_compute in ("<<<M3691>>>" ++ check (runes_of_ascii "options  {	Packet=
    255;
    f32a = '0'T =
	'0'}
")).
Eval vm_compute in ("<<<M1096>>>" ++ check (runes_of_ascii "options { body= false ; }
// `tick` ""quote"" 'q'
")).
Eval vm_compute in ("<<<M3467>>>" ++ check (runes_of_ascii "// top
MetaData // c0
o // c1
{ // c2
} // c3
")).
Eval vm_compute in ("<<<M3469>>>" ++ check (runes_of_ascii "// top
MetaData // c0
o // c1
{ }
    // c3
")).
Eval vm_compute in ("<<<M1838>>>" ++ check (runes_of_ascii "options { trueish = ""`tick`"" ; string_= """)).
Eval vm_compute in ("<<<M3200>>>" ++ check (runes_of_ascii "root packet u128 { chars `it's`
// c
, }")).
Eval vm_compute in ("<<<M3151>>>" ++ check (runes_of_ascii "packet A {    u8 x, // c    u8 y,}")).
Eval vm_compute in ("<<<M3764>>>" ++ check (runes_of_ascii "  MetaData 
M	{ x
    y

    ,

}
")).
Eval vm_compute in ("<<<M2245>>>" ++ check (runes_of_ascii "options
{ } options { BodyLength=")).
Eval vm_compute in ("<<<M3006>>>" ++ check (runes_of_ascii "root packet A {
    u8 x `a
b`,
}")).
Eval vm_compute in ("<<<M2711>>>" ++ check (runes_of_ascii "jj09.>2DTk%ME=LXhml^SMAda\<;R~)")).
Eval vm_compute in ("<<<M3107>>>" ++ check (runes_of_ascii "packet A {
 u8 x `d" ++ [8239]%N ++ runes_of_ascii "`, // c" ++ [8239]%N ++ runes_of_ascii "
}")).
Eval vm_compute in ("<<<M2651>>>" ++ check (runes_of_ascii "MetaData M { @tag(1) u8 x, }")).
Eval vm_compute in ("<<<M4341>>>" ++ check (runes_of_ascii "MetaData o { 
	// c
    } ")).
Eval vm_compute in ("<<<M3164>>>" ++ check (runes_of_ascii "options { a = 1 // a
 ; }")).
Eval vm_compute in ("<<<M3930>>>" ++ check (runes_of_ascii "// c" ++ [160]%N ++ runes_of_ascii "
packet
A
	{

}

")).
Eval vm_compute in ("<<<M700>>>" ++ check (runes_of_ascii "  MetaData crc { } 	 ")).
Eval vm_compute in ("<<<M2856>>>" ++ check (runes_of_ascii "0" ++ [284; 7; 65533]%N ++ runes_of_ascii "o" ++ [65533]%N ++ runes_of_ascii ">a" ++ [65533; 65533]%N ++ runes_of_ascii "3" ++ [31; 65533]%N ++ runes_of_ascii " " ++ [6; 65533; 65533; 28; 65533; 65533]%N)).
Eval vm_compute in ("<<<M3126>>>" ++ check (runes_of_ascii "// c 	
packet A {
}")).
Eval vm_compute in ("<<<M3085>>>" ++ check (runes_of_ascii "packet A {
}
// c" ++ [8192]%N)).
Eval vm_compute in ("<<<M1690>>>" ++ check (runes_of_ascii "options { trueish")).
Eval vm_compute in ("<<<M532>>>" ++ check (runes_of_ascii "MetaData Z9_ { }")).
Eval vm_compute in ("<<<M2630>>>" ++ check (runes_of_ascii "packet A { } }")).
Eval vm_compute in ("<<<M4475>>>" ++ check (runes_of_ascii "packet A {
}")).
Eval vm_compute in ("<<<M2753>>>" ++ check (runes_of_ascii ", char[ }")).
Eval vm_compute in ("<<<M2504>>>" ++ check (runes_of_ascii "// a
b")).
Eval vm_compute in ("<<<M2432>>>" ++ check (runes_of_ascii "charz")).
Eval vm_compute in ("<<<M3134>>>" ++ check (runes_of_ascii "// c" ++ [65279]%N)).
Eval vm_compute in ("<<<M109>>>" ++ check (runes_of_ascii "


")).
Eval vm_compute in ("<<<M2689>>>" ++ check (runes_of_ascii " " ++ [12]%N ++ runes_of_ascii " ")).
Eval vm_compute in ("<<<M2477>>>" ++ check (runes_of_ascii "'")).
