From FP Require Import Lexer Parser ShowPT Digest Formatter.
From Coq Require Import String List NArith.
Import ListNotations.
Open Scope string_scope.
Set Printing Width 100000000.
Set Printing Depth 100000000.
Definition show_fres (r : fres) : string :=
  match r with
  | FOk s => "OK:" ++ sh_escaped s ""
  | FErr s => "ERR:" ++ sh_escaped s ""
  | FPanic p => "PANIC:" ++ p
  end.
Definition check (rs : list rune) : string := digest (show_fres (format_res rs)).
Definition full (rs : list rune) : string := show_fres (format_res rs).
Eval vm_compute in ("<<<M1848>>>" ++ check (runes_of_ascii "packet tag {
    repeat T MetaDataX,
    @calculatedFrom(""`tick`"")
    @tag(007)
    leftPad `tab	here`,
    @tag(0123456789)
    char x,
    @tag(0)
    u64 tag,
    i8 roots,
    @lengthOf(float)
    @tag(10)
    // c
    // `tick` ""quote"" 'q'
    body {
        chars {
            repeat int8 body,
        },
        repeat Header {
            char[] leftPad,
        },
        match Logon as zchar {
            4294967296 : len,
            ""a\""b"" : A,
            //
            00 : x_y_z,
        },
        repeat i16 options1,
    },
    @calculatedFrom(""" ++ [128512]%N ++ runes_of_ascii """)
    @rightPad('0')
    i16 Pad,//
    int64 As @lengthOf(crc),
}

MetaData x_y_z {
    u crc,
}

root packet Z9_ {
    @calculatedFrom(""{,}"")
    tag,
    @lengthOf(lengthOf)
    zchar[42] crc `" ++ [233]%N ++ runes_of_ascii "`,
    char[007] options1,
}

packet x {
    char trueish,
    char[] packetx @calculatedFrom(""" ++ [28040; 24687]%N ++ runes_of_ascii """) `line1
        line2`,
    zchar[1] Foo,
    zchar[00] A,
    match msg_type as tag {
        """" : leftPad,
        [""" ++ [128512]%N ++ runes_of_ascii """, 0, 10, 3] : Z9_,
        ""it's"" : float,
        10 : calculatedFrom,
        ""x y"" : f32a,
        007 : roots,
    },
}

packet u {
    // trailing space 
    @calculatedFrom(""\n"")
    @calculatedFrom(""a\""b"")
    i64_ rootA,
    match x as Logon {
        1 : body,
        ""a\\"" : _x,
        ""packet"" : BodyLength,
    },
    //x
    @rightPad('\x00')
    @calculatedFrom(""" ++ [128512]%N ++ runes_of_ascii """)
    repeat stringy {
        match T as float {
            ""a\\"" : len,
            0 : BodyLength,
            [""it's"", ""{,}"", 255, 0123456789, ""a\\""] : Logon,
            3 : rootA,
        },
    },//
    u16 uint8x `{ , }`,
    // trailing space 
    //x
    @leftPad('0')
    string i64_ @lengthOf(stringy),
    // `tick` ""quote"" 'q'
    // @lengthOf(
    u64 leftPad @calculatedFrom(""a	b""),
    repeat Header MetaDataX `a\`,
    @lengthOf(stringy)
    Packet leftPad,
    @tag(00)
    repeat zchar _x `tab	here`,
    i32 matchKey,
}")).
Eval vm_compute in ("<<<M380>>>" ++ check (runes_of_ascii "options {
    StringPrefixLenType = u16;
    ArrayPrefixLenType = u16;
}

packet SampleBinary {
    uint16 MsgType `" ++ [28040; 24687; 31867; 22411]%N ++ runes_of_ascii "`,
    u16 BodyLenght @lengthOf(Body) `" ++ [28040; 24687; 20307; 38271; 24230]%N ++ runes_of_ascii "`,
    match MsgType as Body {
        1 : Logon,
        2 : Logout,
        3 : Heartbeat,
        4 : RiskControlRequest,
        5 : RiskControlResponse,
    },
    @calculatedFrom(""CRC32"")
    u32 Ckecksum `" ++ [26657; 39564; 21644]%N ++ runes_of_ascii "`,
}

packet Logon {
    @leftPad('0')
    char[10] UserName `" ++ [29992; 25143; 21517]%N ++ runes_of_ascii "`,
    string Password `" ++ [23494; 30721]%N ++ runes_of_ascii "`,
    uint64 ClientId `" ++ [23458; 25143; 31471]%N ++ runes_of_ascii "ID`,
    u16 HeartbeatInterval `" ++ [24515; 36339; 38388; 38548]%N ++ runes_of_ascii "`,
}

packet Logout {
    @rightPad('0')
    char[10] UserName `" ++ [29992; 25143; 21517]%N ++ runes_of_ascii "`,
    uint64 ClientId `" ++ [23458; 25143; 31471]%N ++ runes_of_ascii "ID`,
}

packet Heartbeat {
}

packet RiskControlRequest {
    string UniqueOrderId `" ++ [21807; 19968; 35746; 21333; 21495]%N ++ runes_of_ascii "`,
    char[16] ClOrdID `" ++ [23458; 25143; 35746; 21333; 21495]%N ++ runes_of_ascii "`,
    char[3] MarketID `" ++ [24066; 22330]%N ++ runes_of_ascii "id`,
    char[12] SecurityID `" ++ [35777; 21048; 20195; 30721]%N ++ runes_of_ascii "`,
    char Side `" ++ [20080; 21334; 26041; 21521]%N ++ runes_of_ascii "`,
    char OrderType `" ++ [35746; 21333; 31867; 22411]%N ++ runes_of_ascii "`,
    u64 Price `" ++ [20215; 26684]%N ++ runes_of_ascii "`,
    u32 Qty `" ++ [25968; 37327]%N ++ runes_of_ascii "`,
    repeat string ExtraInfo `" ++ [38468; 21152; 20449; 24687]%N ++ runes_of_ascii "`,
    repeat SubOrder {
        char[16] ClOrdID `" ++ [23376; 35746; 21333; 21495]%N ++ runes_of_ascii "`,
        u64 Price `" ++ [23376; 35746; 21333; 20215; 26684]%N ++ runes_of_ascii "`,
        u32 Qty `" ++ [23376; 35746; 21333; 25968; 37327]%N ++ runes_of_ascii "`,
    },
}

packet RiskControlResponse {
    string UniqueOrderId `" ++ [21807; 19968; 35746; 21333; 21495]%N ++ runes_of_ascii "`,
    i32 Status `" ++ [29366; 24577]%N ++ runes_of_ascii "`,
    string Msg `" ++ [32467; 26524; 20449; 24687]%N ++ runes_of_ascii "`,
    repeat Detail,
}

packet Detail {
    string RuleName `" ++ [35268; 21017; 21517; 31216]%N ++ runes_of_ascii "`,
    u16 Code `" ++ [21407; 22240; 20195; 30721]%N ++ runes_of_ascii "`,
}")).
Eval vm_compute in ("<<<M1809>>>" ++ check (runes_of_ascii "packet As {
    options1 {
        i16 o,
    },
    i64 roots,
    repeat char[] o `a\`,
    @calculatedFrom(""1"")
    repeatCount @lengthOf(falsey) `a\`,
    @lengthOf(stringy)
    char[] As `" ++ [233]%N ++ runes_of_ascii "`,
    asx {
        match msg_type as chars {
            //	t
            00 : metadata,
        },
        i8 pack @calculatedFrom(""x y""),//	t
        match u8x as rootA {
            ""1"" : a1,
            [4294967296] : msg_type,
        },
    },
    @calculatedFrom(""" ++ [233]%N ++ runes_of_ascii "t" ++ [233]%N ++ runes_of_ascii """)
    int16 roots,
    @tag(1)
    @leftPad('0')
    @rightPad('\x00')
    i32 asx `tab	here`,
    char Logon `u8 x,`,
}

root packet string_ {
    // @lengthOf(
}

packet Z9_ {
    int8 _x,
    repeat u8 uint8x `" ++ [233]%N ++ runes_of_ascii "`,
    float64 x_y_z @calculatedFrom(""x y""),
    @calculatedFrom(""a\""b"")
    @calculatedFrom(""a\""b"")
    int {
        zchar[255] msg_type,
        i64_ {
            stringy @lengthOf(x_y_z),
            u options1 `tab	here`,
            char[0123456789] msg_type,
            float32 Foo `{ , }`,
        },
    },
    @tag(0)
    @calculatedFrom(""CRC32"")
    charz,
    @tag(4294967296)
    i64 packetx,
}//	t")).
Eval vm_compute in ("<<<M62>>>" ++ check (runes_of_ascii "MetaData Packet { // `tick` ""quote"" 'q'
Header
// " ++ [27880; 37322]%N ++ runes_of_ascii "
// c
uint8x
`{ , }`, x_y_z u8x `it's`
// packet A { u8 x, }
// packet A { u8 x, }
,
} // trailing space 
root packet packetx { repeat char[]  packetx , string zchar@lengthOf( a1
)	`tab	here`
    // @lengthOf(
    ,
match
    string_ as float { ""a\""b""  : Logon , 00
    :
    Foo 42 : stringy	[ 255
    , 0, ""a\\""] :f32a // @lengthOf(
[7 ,	""`tick`""
] : float , 0 : // c
len //	t
,} , @lengthOf( Header	)
    //
    len`doc`
, repeat
Pad { // " ++ [27880; 37322]%N ++ runes_of_ascii "
repeat	Pad `it's`,// @lengthOf(
char[ 65535
    ]i64_
    @calculatedFrom( //
""1"" )
    `a\` , crc
    // `tick` ""quote"" 'q'
    `two words` , match len
// a // b
/// triple
as
BodyLength { ""abc""
    // " ++ [27880; 37322]%N ++ runes_of_ascii "
    :a1, [ ""packet""
    /// triple
    ,
    7
    ]
    : crc
,
    // c
    3 :
    asx , }	,	} ,
int8 rootA @lengthOf(crc ),@lengthOf( chars)
    // trailing space 
    @tag( 7 ) @tag(7 ) repeat char[ 10 ] packetx	, }

")).
Eval vm_compute in ("<<<M2068>>>" ++ check (runes_of_ascii "packet

    zchar{ 
msg_type  ,
//

	// `tick` ""quote"" 'q'

  @tag(
65535 )
	repeat	float32
len ,@lengthOf( 
    // " ++ [27880; 37322]%N ++ runes_of_ascii "

// `tick` ""quote"" 'q'
crc
) 
lengthOf
        //
    { repeat float

`say ""hi""`
	,	}
,
    u32// a // b
      Packet @lengthOf(

    i8i8 	 // a // b
  ) `
`
	    // packet A { u8 x, }
// packet A { u8 x, }
    ,i8i8	// a // b
    	, u32  calculatedFrom

@lengthOf(	BodyLength  //x
) 
`a\` ,	@lengthOf(
    Logon  // " ++ [128512]%N ++ runes_of_ascii " emoji

  )

    match
	MetaDataX as
    Foo

    {	[ ""\n"" ,
255  ]	:
Packet
,

    3
	:

o
	,  [
007
	]	:  T	,
    }	,
match pack

as
A { 
""" ++ [28040; 24687]%N ++ runes_of_ascii """
:
	_x 007
	:
    //x

// " ++ [128512]%N ++ runes_of_ascii " emoji
	metadata
, 
255
	: As	,7	:

    charz
	,
10 : len 
,  },f32  len ,
@leftPad
    (
'\x00'
)

float32
	trueish
,
    } ")).
Eval vm_compute in ("<<<M1682>>>" ++ check (runes_of_ascii "
packet msg_type 
      // packet A { u8 x, }
{//	t
  string packetx  @lengthOf( charz ) ,
@calculatedFrom( 
"""") repeat
	char[
0123456789
] 
// c
  int
`it's` 
, 
@rightPad
(  // packet A { u8 x, }
		) @tag( 
42

    ) @calculatedFrom(""`tick`"" )  repeat
uint16
falsey
	`" ++ [233]%N ++ runes_of_ascii "` ,i32

Foo,
@tag(
7) 
u64

chars

    @lengthOf(
BodyLength  ),	i16 Z9_  @lengthOf( /// triple

a1
    )

, @lengthOf( leftPad

)
    lengthOf
    body``
, @tag(

007
    )

char[

    10//x
  ]
	_x 
      // a // b
    // " ++ [27880; 37322]%N ++ runes_of_ascii "
    @lengthOf( roots ) `
`
	,	// a // b
@calculatedFrom(
""a\\"" ) float64//	t
  rootA `doc`
,

    string T	@calculatedFrom("""" )	,

    }

")).
Eval vm_compute in ("<<<M1984>>>" ++ check (runes_of_ascii "

  packet
T { 
@lengthOf( 
MetaDataX
	) match Packet as a1

{	[
""1""  ]
	:zchar	""{,}""
    :

    _x ,

}
,// @lengthOf(
  	char[
	007]	// a // b
  u128  @lengthOf( zchar )
	    // a // b
    // packet A { u8 x, }
	,string_ , @leftPad
(	' '  )

    match

    MetaDataX as 
u128 {  [""it's"" , 7
    , 
65535 ,
	65535

    ]
: chars

,  """ ++ [28040; 24687]%N ++ runes_of_ascii """ 	 // c
:
u
,

    42 : zchar, 
}
	,
} options 	 // `tick` ""quote"" 'q'
  {
    matchKey
=""a\""b""  }  MetaData

options1  {i16 len 
,
    char[
    7 ]	// packet A { u8 x, }
crc
,u16
    asx`say ""hi""`,
i64
zchar ,	} 	 // " ++ [27880; 37322]%N ++ runes_of_ascii "
")).
Eval vm_compute in ("<<<M1545>>>" ++ check (runes_of_ascii "
options{ StringPrefixLenType =
	u8

;ArrayPrefixLenType = u32 ; }	packet

    Quote{ u32 Ref  ,InNote74
	{
u8 
pad0
	,	}

    ,

    } packet
Ack	{

    repeat
	string OrderId	,
}
packet
Logout { zchar[ 7

    ]  venue 
, 
char[
12
    ] 
Px

    ,string	count 
,char[]
Tail

,
char[]
Qty
,	Quote

    ,
	} root 
packet

Trade
	{
zchar[ 2 ]
price	,

    u32 x	, u32	lastPx

@lengthOf(Body
),  match
x

as

    Body  { 148

:
    Ack
, 
171	: Quote	, 15  :

Logout  , 
}	,  } ")).
Eval vm_compute in ("<<<M148>>>" ++ check (runes_of_ascii "packet Foo  { Logon A`a\`, a1 A
, @lengthOf(
//	t
// trailing space 
tag ) // trailing space 
x_y_z
@lengthOf( leftPad
    ) `it's`, @tag( 255 ) match crc// @lengthOf(
as  roots {
""" ++ [233]%N ++ runes_of_ascii "t" ++ [233]%N ++ runes_of_ascii """	:Foo ,[ 10 , 007 //
, // a // b
""" ++ [233]%N ++ runes_of_ascii "t" ++ [233]%N ++ runes_of_ascii """ ,
// c
// @lengthOf(
""a	b""]
    :x_y_z}
    , // @lengthOf(
}  root packet As { }	MetaData calculatedFrom // trailing space 
{ Z9_ _x ``	,
} MetaData tag { // " ++ [27880; 37322]%N ++ runes_of_ascii "
string body , string options1 ,i8i8 pack, }
")).
Eval vm_compute in ("<<<M94>>>" ++ check (runes_of_ascii "options { o =
    ' ' ; lengthOf= ""it's"" string_= """ ++ [28040; 24687]%N ++ runes_of_ascii """	;i8i8 // c
=  uint32 } packet Logon{	Pad	@lengthOf(
    stringy),@rightPad (	'\x00'
) Header stringy `a\` , T { match	a1
    as Logon{  42 :
chars }	, },stringy {
zchar[ 7 // trailing space 
] x_y_z, }, uint8x BodyLength
, repeat zchar ,	@tag( 7 ) repeat // packet A { u8 x, }
u64 u128`" ++ [28040; 24687; 31867; 22411]%N ++ runes_of_ascii "` // packet A { u8 x, }
, }")).
Eval vm_compute in ("<<<M1884>>>" ++ check (runes_of_ascii "root packet roots {
    @rightPad('0')
    char[255] T `line1
        line2`,
}

packet msg_type {
    Logon {
        f64 x_y_z ``,
    },
    i8 pack @lengthOf(stringy),
    @tag(4294967296)
    char[] msg_type,
    stringy {
        match x as roots {
            1 : options1,
            ""it's"" : BodyLength,
        },
    },
}")).
Eval vm_compute in ("<<<M1537>>>" ++ check (runes_of_ascii "options {
    LittleEndian = true;
    StringPrefixLenType = u8;
    ArrayPrefixLenType = u8;
}
packet Ack {
}
root packet Quote {
    Ack,
    InSym94 {
        repeat Ack,
    },
    u16 msgKind,
    u16 OrderId @lengthOf(Body),
    match msgKind as Body {
        [110, 48] : Ack,
    },
}
")).
Eval vm_compute in ("<<<M544>>>" ++ check (runes_of_ascii "root packet tag { }  packet MetaDataX{char[007	]
// c
/// triple
asx  @calculatedFrom( ""a\""b"" ""a\""b""
) `say ""hi""`// " ++ [27880; 37322]%N ++ runes_of_ascii "
,  @tag(4294967296 )
    char[1//x
] packetx @calculatedFrom(""a\""b""
    ) ,
// " ++ [128512]%N ++ runes_of_ascii " emoji
// a // b
@calculatedFrom(""" ++ [233]%N ++ runes_of_ascii "t" ++ [233]%N ++ runes_of_ascii """  ) repeat pack // " ++ [27880; 37322]%N ++ runes_of_ascii "
,
    } // c")).
Eval vm_compute in ("<<<M663>>>" ++ check (runes_of_ascii "root packet tag { }  packet MetaDataX{char[007	]
// c
/// triple
asx  @calculatedFrom( ""a\""b""
) `say ""hi""`// " ++ [27880; 37322]%N ++ runes_of_ascii "
,  @tag(4294967296 )
    '' char[1//x
] packetx @calculatedFrom(""a\""b""
    ) ,
// " ++ [128512]%N ++ runes_of_ascii " emoji
// a // b
@calculatedFrom(""" ++ [233]%N ++ runes_of_ascii "t" ++ [233]%N ++ runes_of_ascii """  ) repeat pack // " ++ [27880; 37322]%N ++ runes_of_ascii "
,
    } // c")).
Eval vm_compute in ("<<<M591>>>" ++ check (runes_of_ascii "root packet tag { }  packet MetaDataX{char[007	]
// c
/// triple
asx  @calculatedFrom( ""a\""b""
) `say ""hi""`// " ++ [27880; 37322]%N ++ runes_of_ascii "
,  @tag(4294967296 )
    char[1//x
as packetx @calculatedFrom(""a\""b""
    ) ,
// " ++ [128512]%N ++ runes_of_ascii " emoji
// a // b
@calculatedFrom(""" ++ [233]%N ++ runes_of_ascii "t" ++ [233]%N ++ runes_of_ascii """  ) repeat pack // " ++ [27880; 37322]%N ++ runes_of_ascii "
,
    } // c")).
Eval vm_compute in ("<<<M595>>>" ++ check (runes_of_ascii "root packet tag { }  packet MetaDataX{char[007	]
// c
/// triple
asx  @calculatedFrom( ""a\""b""
) `say ""hi""`// " ++ [27880; 37322]%N ++ runes_of_ascii "
,  @tag(4294967296 )
    char[1//x
] @calculatedFrom( packetx""a\""b""
    ) ,
// " ++ [128512]%N ++ runes_of_ascii " emoji
// a // b
@calculatedFrom(""" ++ [233]%N ++ runes_of_ascii "t" ++ [233]%N ++ runes_of_ascii """  ) repeat pack // " ++ [27880; 37322]%N ++ runes_of_ascii "
,
    } // c")).
Eval vm_compute in ("<<<M636>>>" ++ check (runes_of_ascii "root packet tag { }  packet MetaDataX{char[007	]
// c
/// triple
asx  @calculatedFrom( ""a\""b""
) `say ""hi""`// " ++ [27880; 37322]%N ++ runes_of_ascii "
,  @tag(4294967296 )
    char[1//x
] packetx @calculatedFrom(""a\""b""
    ) ,
// " ++ [128512]%N ++ runes_of_ascii " emoji
// a // b
@calculatedFrom(""" ++ [233]%N ++ runes_of_ascii "t" ++ [233]%N ++ runes_of_ascii """  ) int8 pack // " ++ [27880; 37322]%N ++ runes_of_ascii "
,
    } // c")).
Eval vm_compute in ("<<<M73>>>" ++ check (runes_of_ascii "packet MetaDataX
{ @calculatedFrom(
    ""CRC32""
    ) @tag(	255 //
) zchar[ 007
// c
// trailing space 
] Logon , } MetaData
// " ++ [27880; 37322]%N ++ runes_of_ascii "
// `tick` ""quote"" 'q'
u8x{ char[0123456789
    // @lengthOf(
    ]	Foo , i64 x_y_z , o msg_type
    , }
// packet A { u8 x, }
")).
Eval vm_compute in ("<<<M1927>>>" ++ check (runes_of_ascii "  // top
  MetaData // c0
	body 	 // c1
    {// c2

i64 // c3
	pack // c4
		`it's`  // c5
    ,// c6
}	// c7
  packet  // c8
  stringy 	 // c9
    	{ // c10
    int16 	 // c11
	  calculatedFrom// c12
  , 	 // c13
	} 	 // c14
 
")).
Eval vm_compute in ("<<<M9>>>" ++ check (runes_of_ascii "options
    {
As= ""1"" ; matchKey = 0123456789 options1
    =
0123456789 ;// a // b
asx// c
=
    ""CRC32"" ;
    tag =00;
}// trailing space 
packet
matchKey { @calculatedFrom(
    ""abc""	) int32 repeatCount ,
}
")).
Eval vm_compute in ("<<<M2088>>>" ++ check (runes_of_ascii "root packet Foo {
    i16 BodyLength `// not a comment`,
    //x
}

options {
    // packet A { u8 x, }
}

options {
    Z9_ = false
    msg_type = true
    f32a = ' '
    zchar = ""`tick`"";
}")).
Eval vm_compute in ("<<<M187>>>" ++ check (runes_of_ascii "root packet u128 { char[  7 ]tag@calculatedFrom(
""\" ++ [233]%N ++ runes_of_ascii """
    ) // " ++ [128512]%N ++ runes_of_ascii " emoji
`" ++ [233]%N ++ runes_of_ascii "`, @rightPad ( )
    packetx , @lengthOf(  o
    )	lengthOf
@lengthOf( float )
`// not a comment`,
}
")).
Eval vm_compute in ("<<<M397>>>" ++ check (runes_of_ascii "packet
    // `tick` ""quote"" 'q'
    crc
// packet A { u8 x, }
//	t
u32
u32 a1 ,
    // trailing space 
    roots
charz //
`two words`,	}
    MetaData int {
} /// triple")).
Eval vm_compute in ("<<<M706>>>" ++ check (runes_of_ascii "root packet len // trailing space 
{
// " ++ [27880; 37322]%N ++ runes_of_ascii "
//	t
char[10
] metadata	@lengthOf( o ) `crlf
" ++ [8232]%N ++ runes_of_ascii "line`,
    @rightPad
( ' '
) string
    Header @calculatedFrom( ""a\\""
    ), }
")).
Eval vm_compute in ("<<<M2109>>>" ++ check (runes_of_ascii "packet u128 {
    @calculatedFrom(""a	b"")
    repeat uint8x u128 `line1
        line2`,
}

packet string_ {
    @calculatedFrom(""" ++ [128512]%N ++ runes_of_ascii """)
    uint8 Pad @lengthOf(o) `{ , }`,
}")).
Eval vm_compute in ("<<<M146>>>" ++ check (runes_of_ascii "root packet	BodyLength
    {
    // " ++ [27880; 37322]%N ++ runes_of_ascii "
    @lengthOf( asx) repeat char[ 007
] matchKey ,char[]
MetaDataX @lengthOf(
Foo) `tab	here` ,
repeat uint64 //	t
f32a
, }")).
Eval vm_compute in ("<<<M1740>>>" ++ check (runes_of_ascii "MetaData As {
    // " ++ [128512]%N ++ runes_of_ascii " emoji
    // @lengthOf(
    a1 Pad,
    zchar[00] body `// not a comment`,
    crc uint8x `// not a comment`,
    uint32 packetx ``,
}")).
Eval vm_compute in ("<<<M15>>>" ++ check (runes_of_ascii "options { matchKey
    =
10 } MetaData options1{
    matchKey o `doc` , rootA tag
,uint32 _x /// triple
`line1
line2`, char[] chars `say ""hi""`,  }")).
Eval vm_compute in ("<<<M2089>>>" ++ check (runes_of_ascii "packet u128 {
    @lengthOf(options1)
    repeat int `" ++ [28040; 24687; 31867; 22411]%N ++ runes_of_ascii "`,
    @calculatedFrom("""")
    repeat f32 Z9_,
    zchar[007] msg_type `doc`,
}")).
Eval vm_compute in ("<<<M1892>>>" ++ check (runes_of_ascii "packet A {
    match k as n {
        [
            1, 22, ""c c"", 4, 5,
            ""f"", 7
        ] : B,
        2 : C,
    },
}")).
Eval vm_compute in ("<<<M1225>>>" ++ check (runes_of_ascii "root packet // c
matchKey { zchar[ 3 ] pack @calculatedFrom( ""a	b"" ) `doc` , } options { } MetaData A { int8 msg_type , }")).
Eval vm_compute in ("<<<M1257>>>" ++ check (runes_of_ascii "root packet matchKey { zchar[ 3 ] pack @calculatedFrom( ""a	b"" ) `doc` , } options { } MetaData // c
A { int8 msg_type , }")).
Eval vm_compute in ("<<<M1732>>>" ++ check (runes_of_ascii "packet A {
    Inner {
        u8 x `
        `,
        Deep {
            u8 y `
            `,
        },
    },
}")).
Eval vm_compute in ("<<<M2030>>>" ++ check (runes_of_ascii "packet A {
    B b `a
        b
      c`,
    B `a
        b
      c`,
    repeat B bs `a
        b
      c`,
}")).
Eval vm_compute in ("<<<M896>>>" ++ check (runes_of_ascii "packet A {
  match k as n {
    [""a"", ""bb"", 007, ""d"", ""e"", 66, ""g"", ""h"", 9, ""j"", ""k""] : B,
    2 : C
  },
}")).
Eval vm_compute in ("<<<M289>>>" ++ check (runes_of_ascii "packet a1 {
}
options{
MetaDataX = ""`tick`"" uint8x = false; f32a = zchar[	00] ; } // `tick` ""quote"" 'q'")).
Eval vm_compute in ("<<<M18>>>" ++ check (runes_of_ascii "// packet A { u8 x, }
options{lengthOf= 255 // " ++ [27880; 37322]%N ++ runes_of_ascii "
; /// triple
}packet MetaDataX {int32  body
, }")).
Eval vm_compute in ("<<<M1881>>>" ++ check (runes_of_ascii "packet B {
    u8 a,
    string s,
}

root packet P {
    u16 L @lengthOf(B),
    B,
    u8 t,
}")).
Eval vm_compute in ("<<<M837>>>" ++ check (runes_of_ascii "packet A {
  match k as n {
    [""a"", ""bb"", ""c c"", ""d"", ""e"", ""f"", ""g""] : B
    2 : C
  },
}")).
Eval vm_compute in ("<<<M1184>>>" ++ check (runes_of_ascii "MetaData float { // c
float64 charz `
` , } root packet chars { @rightPad ( '0' ) Foo , }")).
Eval vm_compute in ("<<<M1394>>>" ++ check (runes_of_ascii "// c
packet chars { } packet MetaDataX { @tag( 42 ) i16 string_ , repeat x `say ""hi""` , }")).
Eval vm_compute in ("<<<M1427>>>" ++ check (runes_of_ascii "packet chars { } packet MetaDataX { @tag( 42 ) i16 string_ , repeat x `say ""hi""`
// c
, }")).
Eval vm_compute in ("<<<M1125>>>" ++ check (runes_of_ascii "packet
// c
metadata { Logon { A `" ++ [28040; 24687; 31867; 22411]%N ++ runes_of_ascii "` , tag o , } , zchar len `// not a comment` , }")).
Eval vm_compute in ("<<<M1157>>>" ++ check (runes_of_ascii "packet metadata { Logon { A `" ++ [28040; 24687; 31867; 22411]%N ++ runes_of_ascii "` , tag o , } , zchar len `// not a comment` ,
// c
}")).
Eval vm_compute in ("<<<M1362>>>" ++ check (runes_of_ascii "packet o { repeat Logon uint8x , } options { asx = // c
zchar[ 3 ] stringy = '\x00' }")).
Eval vm_compute in ("<<<M270>>>" ++ check (runes_of_ascii "MetaData _x{ } packet calculatedFrom {
}MetaData
_x	{i32
    body
    , uint8 x , }")).
Eval vm_compute in ("<<<M1323>>>" ++ check (runes_of_ascii "MetaData body { i64 pack `it's` , } packet stringy // c
{ int16 calculatedFrom , }")).
Eval vm_compute in ("<<<M819>>>" ++ check (runes_of_ascii "packet A {
  match k as n {
    [""a"", ""bb"", 007, ""d"", ""e""] : B
    2 : C
  },
}")).
Eval vm_compute in ("<<<M1444>>>" ++ check (runes_of_ascii "packet Inner {
    u8 a,
}
root packet P {
    Inner ref_obj,
    u8 x,
}
")).
Eval vm_compute in ("<<<M872>>>" ++ check (runes_of_ascii "packet A { Inner { match k as n { [1,22,007,4,5,66,7,8,9] : B, }, }, }")).
Eval vm_compute in ("<<<M1485>>>" ++ check (runes_of_ascii "root packet P {
    u8 s_u8,
    repeat u8 r_u8,
    u16 b_len,
}
")).
Eval vm_compute in ("<<<M22>>>" ++ check (runes_of_ascii "options
    // a // b
    {
float	= char[ 4294967296 ] ; }
")).
Eval vm_compute in ("<<<M1283>>>" ++ check (runes_of_ascii "packet x { @rightPad
// c
( ) repeat roots Logon `doc` , }")).
Eval vm_compute in ("<<<M781>>>" ++ check (runes_of_ascii "packet A { Inner { match k as n { [1,22] : B, }, }, }")).
Eval vm_compute in ("<<<M922>>>" ++ check (runes_of_ascii "MetaData M {
    u8 x `a
b`,
    T t `a
b`,
}")).
Eval vm_compute in ("<<<M1090>>>" ++ check (runes_of_ascii "packet A { char[ // a
 3 // b
 ] // c
 x, }")).
Eval vm_compute in ("<<<M1111>>>" ++ check (runes_of_ascii "root packet u128 { chars `it's`
// c
, }")).
Eval vm_compute in ("<<<M2091>>>" ++ check (runes_of_ascii "

  packet o{

    } // " ++ [128512]%N ++ runes_of_ascii " emoji
 
")).
Eval vm_compute in ("<<<M1979>>>" ++ check (runes_of_ascii "packet A {
    u8 x `d" ++ [6158]%N ++ runes_of_ascii "`,// c" ++ [6158]%N ++ runes_of_ascii "
}")).
Eval vm_compute in ("<<<M918>>>" ++ check (runes_of_ascii "packet A {
    u8 x `a
b`,
}")).
Eval vm_compute in ("<<<M1165>>>" ++ check (runes_of_ascii "root // c
packet pack { }")).
Eval vm_compute in ("<<<M1829>>>" ++ check (runes_of_ascii "
packet i64_
	{	}

")).
Eval vm_compute in ("<<<M1002>>>" ++ check (runes_of_ascii "// c" ++ [8202]%N ++ runes_of_ascii "
packet A {
}")).
Eval vm_compute in ("<<<M994>>>" ++ check (runes_of_ascii "packet A {
}// c" ++ [8192]%N)).
Eval vm_compute in ("<<<M308>>>" ++ check (runes_of_ascii "options{
}")).
Eval vm_compute in ("<<<M1000>>>" ++ check (runes_of_ascii "// c" ++ [8202]%N)).
