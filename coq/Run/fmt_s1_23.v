From FP Require Import Lexer Parser ShowPT Digest Formatter.
From Coq Require Import String List NArith.
Import ListNotations.
Open Scope string_scope.
Set Printing Width 100000000.
Set Printing Depth 100000000.
Definition show_fres (r : fres) : string :=
  match r with
  | FOk s => "OK:" ++ sh_escaped s ""
  | FErr s => "ERR:" ++ sh_escaped s ""
  | FPanic p => "PANIC:" ++ p
  end.
Definition check (rs : list rune) : string := digest (show_fres (format_res rs)).
Definition full (rs : list rune) : string := show_fres (format_res rs).
Eval vm_compute in ("<<<M4567>>>" ++ check (runes_of_ascii "/// triple
packet

options1  { 
@leftPad
( '\x00'
    )

    @rightPad  ( ) @rightPad

(	'0')
repeat BodyLength {a1 
falsey `u8 x,` //x

, }	,  float32 calculatedFrom,match
trueish as 
len{

""a	b""
:	//x
Packet
    7

    :
options1
,
    7
	    // trailing space 
//x
    :
_x

, [

    ""`tick`""
    ,
	3

    ,
""" ++ [128512]%N ++ runes_of_ascii """
	,  
      // packet A { u8 x, }
// @lengthOf(
  1

    ,
	""" ++ [28040; 24687]%N ++ runes_of_ascii """	, 0123456789

,
""{,}""

    ,

""1""
    ] : pack 
, 
""CRC32""
:

    i8i8

,
""// no comment""	: trueish } ,
metadata

    rootA

`" ++ [28040; 24687; 31867; 22411]%N ++ runes_of_ascii "` 
,i32

x_y_z	`two words`	,repeat  i32
    x_y_z
`" ++ [28040; 24687; 31867; 22411]%N ++ runes_of_ascii "`

,  @leftPad
    (

'0'
)

@leftPad(

'0')

    x@calculatedFrom(
	    /// triple
	// trailing space 
""\n""	)
`{ , }`
,
	@tag(1
)
    //
  repeat
u32 asx  ,  u8x	@lengthOf( packetx	)

`two words`	, }

packet int
    {
zchar[ 
	// `tick` ""quote"" 'q'
	// c
  65535 ]
	leftPad
,
@lengthOf(  /// triple

  repeatCount)	@tag(

0123456789 )match lengthOf
as // a // b
    calculatedFrom  {[ 
""a\\"" ]

    :
    trueish
    ,""x y""  :A	,

""" ++ [233]%N ++ runes_of_ascii "t" ++ [233]%N ++ runes_of_ascii """:
	options1,

    }
	, string	uint8x
`it's` ,repeat
    uint16	u8x ,  }
packet
zchar

    {// a // b

  zchar[

255
	] chars@calculatedFrom(
""packet"")

    ,
match  BodyLength

as 	 //x
	x_y_z
{ ""\n"":	u128,

    00  : 
Packet ,

    }  ,  @leftPad  ( '\x00'

)

    repeat	o	{	Z9_

    @lengthOf(

    asx  )
    ,
	} , // trailing space 
	@calculatedFrom( """ ++ [28040; 24687]%N ++ runes_of_ascii """

    )repeat
    // `tick` ""quote"" 'q'
    	u64

trueish ,	i32
charz ,
x

    `tab	here` ,

    string  // c
u128 	 // a // b
  `// not a comment`
,	len{match
	chars

    as
    Foo
	    // @lengthOf(
	// packet A { u8 x, }
{ """" 
:

    u ""packet""
: matchKey
	,""// no comment""

    :

    packetx

[ 
65535 ,
	""it's""
	,

""" ++ [128512]%N ++ runes_of_ascii """
    , 
0123456789 // trailing space 
    ,""a\\""
,	""a\\"" ,
""" ++ [28040; 24687]%N ++ runes_of_ascii """,  ""{,}""] : len
, 

// " ++ [27880; 37322]%N ++ runes_of_ascii "
  	""\" ++ [233]%N ++ runes_of_ascii """  :msg_type 
,
	""abc""

: o  // @lengthOf(
} , }	,	@calculatedFrom( 
"""" )
match	// trailing space 
    falsey as calculatedFrom { // `tick` ""quote"" 'q'
		[
	1
, """ ++ [233]%N ++ runes_of_ascii "t" ++ [233]%N ++ runes_of_ascii """

]

:body  ,
""`tick`""
	:

calculatedFrom 
, 3
    :
	x_y_z , ""it's"" :

Packet

,
	[ 007]	: 
Foo,
""" ++ [128512]%N ++ runes_of_ascii """ :Foo,  } ,// " ++ [27880; 37322]%N ++ runes_of_ascii "
	match leftPad
    as
stringy{""a\\""

:
    T

, }  ,
}")).
Eval vm_compute in ("<<<M578>>>" ++ check (runes_of_ascii "packet u128 {
@calculatedFrom(
""" ++ [28040; 24687]%N ++ runes_of_ascii """ )
stringy { match falsey
as Z9_ { // @lengthOf(
""packet"": float
    //	t
    , } , match uint8x as x_y_z
{ 3 :i64_ ,
//
// " ++ [128512]%N ++ runes_of_ascii " emoji
""CRC32"" :float
    , 007 : falsey ,  0123456789 : //x
Packet , [
    ""it's""
// packet A { u8 x, }
// " ++ [128512]%N ++ runes_of_ascii " emoji
, ""\" ++ [233]%N ++ runes_of_ascii """ ] : calculatedFrom,}
,uint16
uint8x `it's`
, repeat i8 repeatCount,} ,
u8 string_
,
    // trailing space 
    @lengthOf(
    body ) @rightPad (
    '\x00' ) zchar[ 65535 ] trueish @calculatedFrom(
""`tick`"" ) , @rightPad ( ) charz @lengthOf(
A) , MetaDataX,
@tag(
    3) char[ 3 ] x	`doc`
,repeat
    i8i8 {
    string Z9_,  } ,
} // @lengthOf(
root packet chars
    // " ++ [27880; 37322]%N ++ runes_of_ascii "
    {
    string_ , u16
trueish `
` , float32 Pad
@lengthOf(metadata )
`" ++ [28040; 24687; 31867; 22411]%N ++ runes_of_ascii "`,repeatCount ,  @lengthOf( x )	char[]uint8x @lengthOf( T )// a // b
`tab	here`	, A	{ char rootA // packet A { u8 x, }
`
` // a // b
, int64 f32a
    //	t
    ,
    Packet { repeat i16
    Foo
`it's` , /// triple
zchar[65535 ]
stringy
    @calculatedFrom( ""1"" )`
` , // trailing space 
}  , int
    // " ++ [128512]%N ++ runes_of_ascii " emoji
    ,
    } , // trailing space 
charz
// `tick` ""quote"" 'q'
//	t
metadata,
@calculatedFrom( ""\" ++ [233]%N ++ runes_of_ascii """
)
match o
as matchKey {	""abc""
: zchar , // " ++ [27880; 37322]%N ++ runes_of_ascii "
""CRC32"": As// packet A { u8 x, }
""packet"": Packet// `tick` ""quote"" 'q'
,
    ""x y"" :pack
[0 , 10 , 00 ,  ""\n"",65535,""1"" ]:
As // trailing space 
, } /// triple
, //
}options
{ } packet leftPad {@calculatedFrom( ""a\\""
    ) @lengthOf(len
    ) @tag(
1)
char[
255] u8x,
    @calculatedFrom( ""// no comment"" )
    int32 //	t
len@lengthOf( _x ) // " ++ [27880; 37322]%N ++ runes_of_ascii "
,@calculatedFrom(
""" ++ [28040; 24687]%N ++ runes_of_ascii """ ) repeat Logon int `" ++ [28040; 24687; 31867; 22411]%N ++ runes_of_ascii "`
    ,
    match As as
packetx {
    ""a	b"" : uint8x ,
    // a // b
    }
, char[ 0
    ] charz @lengthOf( i8i8) , chars
metadata , @tag( 0123456789)
//
// trailing space 
BodyLength // packet A { u8 x, }
, }
")).
Eval vm_compute in ("<<<M939>>>" ++ check (runes_of_ascii "MetaData
Logon {
    string_ MetaDataX
`
` ,}root packet Pad
{ asx
@lengthOf(BodyLength )
,
}
    packet
Pad {
@calculatedFrom( ""a	b""
) zchar[ 7]x	`a\` , @lengthOf(msg_type
// " ++ [27880; 37322]%N ++ runes_of_ascii "
// trailing space 
) int32 Logon  @lengthOf(u128//	t
)
`two words`,	@lengthOf(asx)
match o
    as
    asx {1 : crc , 00:f32a, }
    ,
char[ 1
    ]
leftPad @lengthOf(
    string_ ) `
` , f32
    // a // b
    trueish @calculatedFrom(//x
"""" )``
    // " ++ [128512]%N ++ runes_of_ascii " emoji
    ,As ,
x_y_z
{ match	Packet as int { 007: x , // packet A { u8 x, }
""" ++ [28040; 24687]%N ++ runes_of_ascii """  :
    options1 , ""packet""
:// packet A { u8 x, }
repeatCount ""\n"" :
x
, }
    //
    ,char[]
    i8i8 @lengthOf( x_y_z )
`two words` ,match crc as
x_y_z{""CRC32"" : Z9_, } , packetx ,
} ,
repeat
    char[0
// packet A { u8 x, }
// `tick` ""quote"" 'q'
] asx , @calculatedFrom(
""1"" ) char[
00 ] float,repeat i32 msg_type	,
} packet x_y_z { // `tick` ""quote"" 'q'
@calculatedFrom(
    ""a\\"")
    @calculatedFrom( ""packet""  ) uint8x @calculatedFrom( """" ) ,
    //	t
    @lengthOf( x )	u8x x, @calculatedFrom(
    ""a	b"" ) int16 pack
// packet A { u8 x, }
//x
, match  Pad as
T
//	t
// @lengthOf(
{
    [ 00 ] : leftPad ,
    ""CRC32""
    : body	, //x
3 :
    zchar
1:  u8x  7 : options1	,
4294967296 :falsey
    /// triple
    , } , }
    packet T {
    zchar[
65535 ]//x
roots ,
    int x`crlf
line`
,@lengthOf( //	t
int)charz {	i64_
    `" ++ [28040; 24687; 31867; 22411]%N ++ runes_of_ascii "` ,zchar[
    // `tick` ""quote"" 'q'
    42 ]
    len
    // @lengthOf(
    @calculatedFrom( // " ++ [128512]%N ++ runes_of_ascii " emoji
""" ++ [233]%N ++ runes_of_ascii "t" ++ [233]%N ++ runes_of_ascii """ ),	repeat
i8 o , // " ++ [27880; 37322]%N ++ runes_of_ascii "
char[0 ] // a // b
options1`doc` , } ,
@lengthOf( roots ) string
Header, }")).
Eval vm_compute in ("<<<M469>>>" ++ check (runes_of_ascii "root
    packet Header { /// triple
repeat// " ++ [128512]%N ++ runes_of_ascii " emoji
int64 _x
`crlf
line`//x
, int16 leftPad , @rightPad( ) uint64 Packet @calculatedFrom( ""abc"" ) `doc` , @rightPad
    (
    '0') uint8x
{ u8 Logon
    , repeat x_y_z	{	a1 Header `it's`,
    char[0  ]
    /// triple
    pack
// @lengthOf(
// trailing space 
@calculatedFrom(
    ""a	b""	) `line1
line2` ,
o @lengthOf( Header
    ) `tab	here`
    ,
} , rootA zchar ,u128 , } ,@lengthOf( // trailing space 
string_ )
    //	t
    match Foo as calculatedFrom { 0123456789: chars ,007 : string_
    ,[
    ""\n"", 4294967296 ] :  leftPad ,""\n"" : u , }, f64 packetx `
` // c
,	}
    packet o
    {@rightPad// trailing space 
(
) // " ++ [128512]%N ++ runes_of_ascii " emoji
repeat
    chars `it's`
// @lengthOf(
// `tick` ""quote"" 'q'
,
    } MetaData
A
// trailing space 
// c
{ // c
uint64 i64_ `" ++ [233]%N ++ runes_of_ascii "`,  } root packet	int
    { @tag(
10
) //x
repeat a1 body  , @lengthOf( options1// packet A { u8 x, }
) falsey
    //
    { repeat zchar[ 0
    ]
    // c
    i64_ ,repeat u
{ char[42 ] u8x
@calculatedFrom( ""a\""b"") ,char[ 255 ] lengthOf @lengthOf( body
)
    `u8 x,`	, },repeat
    pack {
    trueish body
`u8 x,`,
match Logon as charz { [ 7] : x_y_z """ ++ [233]%N ++ runes_of_ascii "t" ++ [233]%N ++ runes_of_ascii """ : int ,
""abc"" : u ,
    42 : // trailing space 
metadata, 10 : leftPad , }
    ,//x
char[ 10
]trueish `tab	here` ,} ,
}, }
// @lengthOf(
// " ++ [27880; 37322]%N ++ runes_of_ascii "
options
    //x
    { rootA = ""`tick`"" As
    =
7 ;}
")).
Eval vm_compute in ("<<<M4372>>>" ++ check (runes_of_ascii "MetaData falsey {
    char[] f32a `" ++ [28040; 24687; 31867; 22411]%N ++ runes_of_ascii "`,
    u8x len `" ++ [233]%N ++ runes_of_ascii "`,
    char[] uint8x,
    f32 trueish,
    char[10] len `two words`,
    rootA int,
}

root packet A {
    Z9_,
    repeat MetaDataX `it's`,
    @tag(007)
    repeat options1 A,
    repeat x `line1
    line2`,
    MetaDataX @lengthOf(options1) `say ""hi""`,
}

// trailing space 
// " ++ [27880; 37322]%N ++ runes_of_ascii "
root packet rootA {
    @tag(255)
    char[10] Foo @lengthOf(metadata) ``,
    @leftPad('\x00')
    msg_type {
        //x
        // a // b
        float32 Pad,
        repeat uint32 Logon,
    },
    @leftPad()
    stringy @calculatedFrom(""" ++ [128512]%N ++ runes_of_ascii """) `" ++ [28040; 24687; 31867; 22411]%N ++ runes_of_ascii "`,
    @tag(4294967296)
    @tag(4294967296)
    @lengthOf(i8i8)
    BodyLength {
        zchar[42] u128,
        crc {
            char[255] Z9_ @lengthOf(int),
        },
    },
    @tag(10)
    zchar[3] stringy @calculatedFrom(""\n""),
    a1 calculatedFrom,
}

packet u8x {
    x_y_z @lengthOf(lengthOf) `crlf
    line`,
    match uint8x as repeatCount {
        [""a\""b"", ""// no comment""] : Header,
        [4294967296, ""a\\""] : roots,
        // " ++ [128512]%N ++ runes_of_ascii " emoji
        // @lengthOf(
        42 : rootA,
        [1, """", ""`tick`"", ""a	b""] : tag,
        ""1"" : u8x,
    },
    f32a `a\`,
    @lengthOf(u8x)
    pack asx,
    uint64 leftPad,
    repeat char[0] Pad,
}")).
Eval vm_compute in ("<<<M1323>>>" ++ check (runes_of_ascii "packet// c
lengthOf
{ matchKey `doc` , i8i8
{ match crc  as zchar
    {	[ 1, ""abc"" ,	0 ,
    0123456789,
65535 ]
    :chars , ""\n"" : uint8x ""a\""b"":  int ,[
""`tick`""
    ,""a	b"" , ""a	b""
    ,4294967296 , 4294967296	, """" , ""a\""b"" ] :
string_ ,
0123456789 :// @lengthOf(
A
    ,""packet""
    // a // b
    :asx  } ,char[00
//
//
] u8x
`u8 x,`, u8x { uint32 float
@calculatedFrom( ""{,}"")
,
//	t
// " ++ [128512]%N ++ runes_of_ascii " emoji
char[
0
// trailing space 
// `tick` ""quote"" 'q'
] zchar
    ,	}, falsey@calculatedFrom( """ ++ [128512]%N ++ runes_of_ascii """ )
    ,} // packet A { u8 x, }
, @calculatedFrom( ""1"" )
zchar[
255
    ]
// @lengthOf(
//
metadata
@lengthOf(	packetx	) , Header @calculatedFrom(
""CRC32"" ) ,
// c
// trailing space 
float @lengthOf(crc ) ``, @tag(42 )@lengthOf(
    A ) @lengthOf( u128) stringy// " ++ [27880; 37322]%N ++ runes_of_ascii "
`" ++ [233]%N ++ runes_of_ascii "` ,	@leftPad ( '0')
    char[4294967296  ]
float , u`" ++ [233]%N ++ runes_of_ascii "` ,@lengthOf(falsey ) // @lengthOf(
@lengthOf( /// triple
lengthOf
) repeat f32 matchKey `line1
line2`
    ,
}
options
    { lengthOf= string;}packet falsey{
@tag( 1
)int16 repeatCount
@lengthOf( charz
)
`a\` // @lengthOf(
, repeat u64 MetaDataX `say ""hi""` , } options {  x
    = // packet A { u8 x, }
""abc"" }
MetaData BodyLength {zchar[ 4294967296]	zchar ,}")).
Eval vm_compute in ("<<<M598>>>" ++ check (runes_of_ascii "
packet o
    // packet A { u8 x, }
    { @tag(
42 )	@tag( 7) @rightPad ( ' ' ) match i8i8 as rootA {// trailing space 
[	""1""
,
1]:  crc , }
    ,
    i16
    u8x/// triple
@calculatedFrom(
""\" ++ [233]%N ++ runes_of_ascii """ ), pack @calculatedFrom(
""a	b"" ),repeat f32
calculatedFrom ,zchar[ 00 ]  calculatedFrom , u8
trueish`doc`, zchar[ 0123456789] int @calculatedFrom( ""packet"" )//x
, } options { packetx =//
""CRC32"" ;  } root packet matchKey {match Header as T {[ ""abc""
,
    """ ++ [233]%N ++ runes_of_ascii "t" ++ [233]%N ++ runes_of_ascii """]  : f32a 00	:calculatedFrom,00
: _x } ,
    char[]
pack`{ , }` ,
    u32
BodyLength
    ,	@leftPad
( )
    @lengthOf(
o )
    @lengthOf( MetaDataX ) rootA
    { match int
as Logon
    { [ 3
]:
    f32a  ,} , zchar //x
@lengthOf( a1
)
, }
,// packet A { u8 x, }
@calculatedFrom( ""{,}"" // " ++ [128512]%N ++ runes_of_ascii " emoji
)
    repeat BodyLength
    { match Pad
// @lengthOf(
//x
as charz {
""x y"" :lengthOf  ,
},repeat Foo
{zchar[0
    ] Header `" ++ [28040; 24687; 31867; 22411]%N ++ runes_of_ascii "` , } , char[ 7// " ++ [128512]%N ++ runes_of_ascii " emoji
] packetx `// not a comment` , a1 @calculatedFrom(
    ""1"" ) ,}
,
    @leftPad()
zchar[ // c
65535 ] u128 `say ""hi""` , } root// " ++ [128512]%N ++ runes_of_ascii " emoji
packet int {	@leftPad (	'0' ) repeat char Packet
, } 	 ")).
Eval vm_compute in ("<<<M756>>>" ++ check (runes_of_ascii "packet BodyLength{
//
// " ++ [27880; 37322]%N ++ runes_of_ascii "
char[ 1
    ]
    packetx ,// " ++ [27880; 37322]%N ++ runes_of_ascii "
} MetaData	Logon{	msg_type
    chars`crlf
line`
/// triple
//x
, u64  msg_type ,	} options
{ // trailing space 
A =
    // trailing space 
    007 x
= // `tick` ""quote"" 'q'
0 ;i8i8
= true T =char}packet tag {  int64 Foo@calculatedFrom( ""it's""
    // packet A { u8 x, }
    ) ,	f32  Pad , packetx @lengthOf( msg_type
)
, @calculatedFrom( ""`tick`"" ) zchar[255
    ]
float
    `" ++ [28040; 24687; 31867; 22411]%N ++ runes_of_ascii "`
, } packet trueish {  repeat pack// `tick` ""quote"" 'q'
roots , @leftPad
    ( '\x00' ) repeat u64
A , MetaDataX string_
    `
`, float
    @calculatedFrom( ""// no comment"" ) ,@lengthOf(
i8i8 ) a1
{
int64 body@lengthOf(
leftPad ) ,
match charz as u128 {1 :MetaDataX	,  }
    , match
//
//	t
crc as
i64_{ ""abc""
: calculatedFrom ,
3 :
    //
    body,
    ""\n""// a // b
: uint8x ,
[  42, 10 ,
    255 , ""packet""
,""" ++ [233]%N ++ runes_of_ascii "t" ++ [233]%N ++ runes_of_ascii """]
: u8x , } ,
    string x, } , falsey
,@calculatedFrom( ""packet"" )  match
falsey as u8x
{
4294967296: Z9_ , """ ++ [233]%N ++ runes_of_ascii "t" ++ [233]%N ++ runes_of_ascii """:
int
,
} , match roots as matchKey  { [
1]	:
    trueish },
} 	 ")).
Eval vm_compute in ("<<<M4031>>>" ++ check (runes_of_ascii "packet leftPad {
    char[4294967296] Pad,
}

packet Z9_ {
    repeat int,
    i64_ @lengthOf(float),
    repeat leftPad {
        string _x,
        char[65535] x @calculatedFrom(""it's"") `crlf
                line`,
    },
    @calculatedFrom(""" ++ [28040; 24687]%N ++ runes_of_ascii """)
    i32 tag,
    string body @lengthOf(body) ``,
    @tag(4294967296)
    uint16 Logon @lengthOf(leftPad) ``,
}

root packet repeatCount {
}

root packet options1 {
    @lengthOf(Z9_)
    @calculatedFrom(""// no comment"")
    @calculatedFrom(""1"")
    zchar {
        u8 repeatCount @calculatedFrom(""it's""),
        Packet @lengthOf(_x),
    },
    @calculatedFrom(""// no comment"")
    repeat A {
        int32 crc @calculatedFrom(""// no comment"") `{ , }`,
        //x
        repeat u64 packetx `// not a comment`,
    },
    i16 packetx @calculatedFrom(""abc"") `" ++ [28040; 24687; 31867; 22411]%N ++ runes_of_ascii "`,
    // packet A { u8 x, }
    u16 Foo @calculatedFrom(""CRC32""),//
}

options {
    Header = '\x00';// " ++ [27880; 37322]%N ++ runes_of_ascii "
    MetaDataX = 007;
    lengthOf = false;
    As = '\x00'
}/// triple")).
Eval vm_compute in ("<<<M131>>>" ++ check (runes_of_ascii "packet u128 {@lengthOf( x_y_z )	@lengthOf( stringy )
@lengthOf( _x) zchar[
// c
// c
4294967296 ] asx @calculatedFrom(
    ""\" ++ [233]%N ++ runes_of_ascii """	)
    `
` ,char[0 ] matchKey
, rootA
    u128
    ,
    metadata metadata ,	zchar[	3 ]
    string_ `" ++ [233]%N ++ runes_of_ascii "`
,
// `tick` ""quote"" 'q'
// " ++ [27880; 37322]%N ++ runes_of_ascii "
@calculatedFrom(""a	b""
)
char roots `" ++ [28040; 24687; 31867; 22411]%N ++ runes_of_ascii "` , repeat zchar[10]
pack
    `
`, @calculatedFrom( ""{,}"" )
@lengthOf( //	t
Foo )  packetx {// " ++ [128512]%N ++ runes_of_ascii " emoji
match i8i8 as Header
{ 255	: Z9_  """ ++ [233]%N ++ runes_of_ascii "t" ++ [233]%N ++ runes_of_ascii """ :tag
, [ 7,	1, ""// no comment"", ""// no comment"" , 3
,
    """" , // `tick` ""quote"" 'q'
1 ] :lengthOf 3 :  asx , [ 42	,
0 , 1 ] :Z9_ , 10 :
    A}, } , }root packet T {/// triple
int32 roots `two words`, stringy, @rightPad ( '\x00')float64 len	@lengthOf( o )
    ,match body // `tick` ""quote"" 'q'
as	uint8x { 10
    :
tag , }
    ,
    repeat u8
    Pad
    `" ++ [28040; 24687; 31867; 22411]%N ++ runes_of_ascii "`
    , repeat char[]
    float // c
, @calculatedFrom(	""packet"" ) u16 x
    @lengthOf(
u8x)
// c
// a // b
, } //x")).
Eval vm_compute in ("<<<M4026>>>" ++ check (runes_of_ascii "  root
packet  As	{
repeat 
      //	t
  x
	msg_type

,}

MetaData
	crc

{// c
  u8 x 
,
} root packet 

    // " ++ [128512]%N ++ runes_of_ascii " emoji
	  Logon {	@calculatedFrom(""1""
    )
@rightPad (
    ' ' ) @leftPad ()string
msg_type @lengthOf(

uint8x

    )  `a\`

    ,	match
	calculatedFrom as

    i8i8 {
    [
""\" ++ [233]%N ++ runes_of_ascii """]
:  options1  ,	// c
	1

    :

    asx
	, 
[ 42 
, 42
//
	,//	t
  """ ++ [28040; 24687]%N ++ runes_of_ascii """	// `tick` ""quote"" 'q'
  ,""""
,  // " ++ [128512]%N ++ runes_of_ascii " emoji
  	7
	] 	 // @lengthOf(
	:x_y_z 
, 
[ // " ++ [27880; 37322]%N ++ runes_of_ascii "

0 	 //x

] :

    // packet A { u8 x, }
    	asx
    //
	7: 
u8x
[ 7
]

:
u ,
	} ,
	} MetaData repeatCount
	{ float
    Foo

, As 	 //	t
    i8i8 ,} packet	tag{
@leftPad  ( 
' '
    )match Z9_

as  msg_type
{
        //
[
    10 ,  ""a\""b"" ,0
,
255
    ,7,	0123456789 ,
10

    ]
    :  Logon	, """ ++ [233]%N ++ runes_of_ascii "t" ++ [233]%N ++ runes_of_ascii """

: 
a1

    ,
7 

    // packet A { u8 x, }
    	/// triple
    : i64_ , 255 :
leftPad

    }, }
")).
Eval vm_compute in ("<<<M3726>>>" ++ check (runes_of_ascii "MetaData Packet {
    x_y_z lengthOf `tab	here`,
    rootA u128 `" ++ [28040; 24687; 31867; 22411]%N ++ runes_of_ascii "`,
    char[10] u8x `say ""hi""`,
    zchar[7] i64_,
}

packet charz {
    @tag(0)
    match float as T {
        //	t
        ""packet"" : i8i8,
        ""CRC32"" : string_,
        65535 : pack,
        // @lengthOf(
    },
    i32 matchKey @calculatedFrom(""a\""b""),
    @tag(65535)
    repeat int {
        match u8x as zchar {
            ""\" ++ [233]%N ++ runes_of_ascii """ : BodyLength,
        },
    },
    uint16 roots,
    @rightPad(' ')
    int8 i64_ @calculatedFrom(""it's""),
    @tag(255)
    repeat rootA {
        repeat string Z9_,
        lengthOf roots `" ++ [233]%N ++ runes_of_ascii "`,
        zchar @calculatedFrom(""x y"") `{ , }`,
    },
    @tag(0)
    calculatedFrom Logon,
}

packet leftPad {
    uint64 A,
    match pack as u {
        ""`tick`"" : f32a,
        ""1"" : i8i8,
        ""\" ++ [233]%N ++ runes_of_ascii """ : A,
    },
}")).
Eval vm_compute in ("<<<M571>>>" ++ check (runes_of_ascii "// packet A { u8 x, }
packet packetx { @tag( 7 ) f64 o @calculatedFrom(
""" ++ [233]%N ++ runes_of_ascii "t" ++ [233]%N ++ runes_of_ascii """ ) , repeat MetaDataX {i8 Logon
    ,}	, char[ 7] string_  , repeat	o	{	u16	Foo ,repeat i16
packetx
    ,	match matchKey as As { ""packet""
: roots , 42
:
falsey 0123456789
    // c
    : matchKey , ""\" ++ [233]%N ++ runes_of_ascii """ :
    zchar """ ++ [233]%N ++ runes_of_ascii "t" ++ [233]%N ++ runes_of_ascii """ : stringy, [ 65535]:rootA ,} ,repeat char[]  lengthOf ,} ,match
    x // c
as
//	t
//
falsey
    { ""1"" :
    Packet , 1 : u ,
    0 : charz  [ ""1"" ] : pack ,""a\""b"" : options1 ,} ,
@tag(
0)
// trailing space 
// " ++ [128512]%N ++ runes_of_ascii " emoji
repeat int16
matchKey , uint16 rootA`` , // c
match string_
as
A {[ 3  , """ ++ [28040; 24687]%N ++ runes_of_ascii """ ]:zchar
,
    } , } packet f32a { } MetaData falsey { char[] Header ,metadata
    Pad `two words` , zchar[ 10 ] calculatedFrom ,char[] lengthOf
,
float32 u
`line1
line2`  ,}")).
Eval vm_compute in ("<<<M1256>>>" ++ check (runes_of_ascii "MetaData stringy {string
zchar, zchar
uint8x  , string BodyLength `{ , }`
// @lengthOf(
// " ++ [128512]%N ++ runes_of_ascii " emoji
,
    zchar[  1 ]
crc `doc` ,	zchar[ 7
] T//	t
`two words`, char[] A `a\`,
} packet
    string_{
repeat len `a\` ,
zchar
    `" ++ [233]%N ++ runes_of_ascii "` ,	}
    MetaData
x_y_z { stringy
    metadata
    , char[]Z9_
`it's` ,}
packet // a // b
falsey {
    @calculatedFrom(
// " ++ [27880; 37322]%N ++ runes_of_ascii "
// @lengthOf(
""" ++ [233]%N ++ runes_of_ascii "t" ++ [233]%N ++ runes_of_ascii """
)match Pad as u
{0123456789
    //	t
    :	trueish,	} , // " ++ [128512]%N ++ runes_of_ascii " emoji
repeat
    char[] calculatedFrom `u8 x,`, f64
    A ,
    body @calculatedFrom( ""`tick`"" // `tick` ""quote"" 'q'
) , }root
packet roots  { zchar[ 10 ]roots
`crlf
line`	,
Z9_
{ zchar[ 7 ] leftPad`" ++ [233]%N ++ runes_of_ascii "` ,} ,
int64 calculatedFrom `a\` , crc
    u128 ,
char[
1	] A@calculatedFrom( ""{,}"") `doc`  , }
")).
Eval vm_compute in ("<<<M36>>>" ++ check (runes_of_ascii "packet  int {@tag( 00
) float	,
@leftPad( '0'
)@calculatedFrom(""" ++ [28040; 24687]%N ++ runes_of_ascii """ ) match crc
as body
    {""`tick`"" : msg_type} // @lengthOf(
,
Logon
,repeat u8x, // " ++ [27880; 37322]%N ++ runes_of_ascii "
} packet MetaDataX { }packet string_ {
repeat //
Header Header
, // trailing space 
} packet
A{ @rightPad // " ++ [27880; 37322]%N ++ runes_of_ascii "
( '\x00' // trailing space 
) @leftPad (
    ' ' ) repeat uint64
    matchKey // trailing space 
, f32 len // @lengthOf(
, // trailing space 
repeat
tag
{i64
// @lengthOf(
// " ++ [27880; 37322]%N ++ runes_of_ascii "
roots
    // " ++ [27880; 37322]%N ++ runes_of_ascii "
    @lengthOf( metadata ), }
, @tag(
65535
    ) char[ //
00 ]
// a // b
/// triple
a1
    ,repeat i16 i8i8 ,char[
3 ]int @calculatedFrom(
""a\\"" ) , // a // b
@calculatedFrom( """ ++ [28040; 24687]%N ++ runes_of_ascii """) Pad// " ++ [128512]%N ++ runes_of_ascii " emoji
@lengthOf(
stringy ) ,/// triple
}
")).
Eval vm_compute in ("<<<M655>>>" ++ check (runes_of_ascii "  packet i8i8 { } options { options1//	t
=true ; // " ++ [27880; 37322]%N ++ runes_of_ascii "
}	packet pack{
    //	t
    lengthOf{ char[	10
]	len@calculatedFrom(
""\" ++ [233]%N ++ runes_of_ascii """
)
// " ++ [27880; 37322]%N ++ runes_of_ascii "
// " ++ [27880; 37322]%N ++ runes_of_ascii "
`a\` , }
,
    } root packet repeatCount{u128 len `line1
line2` ,
@calculatedFrom( ""// no comment"" // `tick` ""quote"" 'q'
) repeat char[]zchar`// not a comment` ,	a1 , repeat zchar[  1
]	u `crlf
line` , } packet
lengthOf{@calculatedFrom(
    //
    ""packet"" ) // a // b
float64
trueish
@lengthOf( Z9_
) , @leftPad
    ( )
    match options1 as A
    //x
    {""it's"":len
    ,
    ["""" ] :T // " ++ [128512]%N ++ runes_of_ascii " emoji
,	[
    //
    00
// c
// `tick` ""quote"" 'q'
] : calculatedFrom, 1:MetaDataX	, 4294967296 :
    u , } // a // b
,}
//
")).
Eval vm_compute in ("<<<M1278>>>" ++ check (runes_of_ascii "//x
packet	_x { repeat
    charz { repeat asx,//x
string metadata ,//x
uint64	a1 @calculatedFrom(	""it's"") `a\`
    , }
,
    @rightPad//
() msg_type len
``,MetaDataX asx // " ++ [128512]%N ++ runes_of_ascii " emoji
,@rightPad
(
    '\x00' )zchar[ 3] int,
}packet Packet
    { @leftPad(
    )
string_{ repeat
    calculatedFrom// a // b
`it's` , }
    // " ++ [128512]%N ++ runes_of_ascii " emoji
    , @calculatedFrom(""a	b""
    ) @tag( 00 )@rightPad(
' ')
u64 stringy // " ++ [128512]%N ++ runes_of_ascii " emoji
@calculatedFrom( ""a	b"" // @lengthOf(
)
, @leftPad
    (
'\x00' ) options1 `" ++ [233]%N ++ runes_of_ascii "`
    , @rightPad ( ) repeat char[ 007
]Foo `line1
line2`
,
} options
{len
    = '\x00' ;
    roots  =
""{,}""packetx =i64 ;
    }
")).
Eval vm_compute in ("<<<M4263>>>" ++ check (runes_of_ascii "packet As {
    char[42] chars @calculatedFrom(""a\""b"") `it's`,
    f32a falsey `// not a comment`,// " ++ [128512]%N ++ runes_of_ascii " emoji
    string trueish `" ++ [28040; 24687; 31867; 22411]%N ++ runes_of_ascii "`,
    @lengthOf(metadata)
    @tag(65535)
    @calculatedFrom(""`tick`"")
    repeat Logon {
        x_y_z @lengthOf(lengthOf),
        uint32 u,
        i64_ @calculatedFrom(""CRC32"") `a\`,
        asx @calculatedFrom("""") `u8 x,`,
    },
    u16 _x ``,
    repeat string_,
    options1 f32a,
    @calculatedFrom(""\n"")
    Packet @lengthOf(zchar),
}// `tick` ""quote"" 'q'

options {
}

packet a1 {
    @tag(0123456789)
    u8 uint8x `{ , }`,
    u32 x_y_z `say ""hi""`,
}")).
Eval vm_compute in ("<<<M4301>>>" ++ check (runes_of_ascii "options {
    o = '0';
}

packet u128 {
    @calculatedFrom(""{,}"")
    uint16 pack @calculatedFrom(""" ++ [233]%N ++ runes_of_ascii "t" ++ [233]%N ++ runes_of_ascii """),
}

packet A {
    //x
    u8 chars @lengthOf(BodyLength),
    lengthOf @calculatedFrom(""// no comment""),
    x_y_z {
        string Pad `" ++ [233]%N ++ runes_of_ascii "`,
        // " ++ [27880; 37322]%N ++ runes_of_ascii "
        len {
            zchar[0123456789] T,
            match u128 as metadata {
                3 : u128,
                ""\n"" : x,
                [""" ++ [233]%N ++ runes_of_ascii "t" ++ [233]%N ++ runes_of_ascii """, ""packet""] : tag,
                10 : options1,
                ""abc"" : u,
            },
        },
        tag @calculatedFrom("""") `it's`,
    },
}// " ++ [27880; 37322]%N)).
Eval vm_compute in ("<<<M1045>>>" ++ check (runes_of_ascii "MetaData pack
{} // trailing space 
MetaData
    u { zchar[
    7 ] lengthOf `say ""hi""`
    , }packet // trailing space 
metadata {
    @leftPad ()
    stringy chars ,
    repeat
    int {
uint8  A , zchar[ 4294967296]Packet @lengthOf( x
)`
`
    ,
repeat
    crc zchar , }
// " ++ [128512]%N ++ runes_of_ascii " emoji
//x
, repeat options1 { u16 u
, string_ { string_
    MetaDataX,repeat char[	0123456789
]  uint8x ,
repeat uint32 T ,
// packet A { u8 x, }
//x
}, uint16 packetx , }
// packet A { u8 x, }
// `tick` ""quote"" 'q'
, @leftPad (
' ' ) rootA `crlf
line` ,}
// " ++ [27880; 37322]%N ++ runes_of_ascii "
")).
Eval vm_compute in ("<<<M145>>>" ++ check (runes_of_ascii "root //	t
packet
BodyLength { zchar[ 10
]
u128
    ,
uint8 zchar ``
    , repeat falsey ,float64 chars@calculatedFrom( """ ++ [128512]%N ++ runes_of_ascii """
) , char[]matchKey, repeat //x
uint16 matchKey ,
@calculatedFrom( ""CRC32"" ) char[ 3 ] u `" ++ [28040; 24687; 31867; 22411]%N ++ runes_of_ascii "` , @leftPad ( '0'
    //	t
    ) u64  charz @calculatedFrom(""" ++ [128512]%N ++ runes_of_ascii """), }
root packet chars //
{} MetaData Z9_{ zchar[ 255 ] _x,int32 f32a , int8
asx `` ,
o
packetx // `tick` ""quote"" 'q'
, }
    options
// trailing space 
// c
{	A
=
4294967296
//
// packet A { u8 x, }
;
Foo = ""x y"" ;Foo =  ' ' } //	t")).
Eval vm_compute in ("<<<M4119>>>" ++ check (runes_of_ascii "  packet x {

repeat string_	{ repeat
	asx Foo
	    /// triple
	,
int16 i8i8 ,char[] matchKey,
	// @lengthOf(
	  // trailing space 
    match 
calculatedFrom as // a // b
	roots  {
	3
	:
	x_y_z ,
    }  ,

}
,
@lengthOf( 
x)  repeat o`say ""hi""` , 	 //	t
  	char[]string_
`" ++ [28040; 24687; 31867; 22411]%N ++ runes_of_ascii "`	,@lengthOf(f32a
    )

    match Pad
	as A 	 //	t
      {""a	b"":  u128
    ,
[ ""\" ++ [233]%N ++ runes_of_ascii """ 
, 
65535
,
    255
,
	""CRC32""

    ,1 
] :
	i8i8
0123456789 :
	falsey//	t

	,
}
    , }

packet
    zchar

    {

}

")).
Eval vm_compute in ("<<<M3636>>>" ++ check (runes_of_ascii "  options  {	LittleEndian =
	false	; ArrayPrefixLenType = u8	;
FixedStringPadChar= 
'0';
	} packet Order{
InNote94
{f32 f1 ,

    f64
	Side2, repeat

    InTail47
    {char[]	seqNo
,

char[]
Tail,char[]  lastPx,  }
    ,} , 
zchar[
7
]
f1  ,u8
    Side2
    ,	}
	root 
packet
	Reject{ repeat char[ 4
]
Flags ,	InPrice63{ InSeqno41

{ 
repeat
	i8

OrderId,repeat
	i32

clOrdID ,

char[
9]
tag7

    ,	char[]

    lastPx,}

,
Order
,
	uint8
	Side2 
,}
    ,  } ")).
Eval vm_compute in ("<<<M628>>>" ++ check (runes_of_ascii "  root packet tag {
@lengthOf( uint8x )@calculatedFrom(""1"" ) options1	,
    } MetaData
    Z9_ {string options1 `crlf
line` //	t
,charz string_ ,	} root packet float {@calculatedFrom( ""packet"" )chars{ //x
repeat chars{
i8 matchKey `a\` ,
} ,	}//	t
, i32 len
    @lengthOf( u8x )
// trailing space 
// " ++ [128512]%N ++ runes_of_ascii " emoji
, @lengthOf(repeatCount )
@tag(
// @lengthOf(
//	t
0123456789 )@tag( 007
) uint64
    //	t
    o @calculatedFrom( """ ++ [28040; 24687]%N ++ runes_of_ascii """// a // b
) ,
    }
")).
Eval vm_compute in ("<<<M3731>>>" ++ check (runes_of_ascii "// packet A { u8 x, }
options {
}

options {
    matchKey = 00
    metadata = float64
    u8x = 42
}

packet uint8x {
    @lengthOf(matchKey)
    float32 options1,
    @lengthOf(packetx)
    repeat zchar[7] As,
    @rightPad()
    // `tick` ""quote"" 'q'
    uint64 repeatCount @lengthOf(leftPad),
    @lengthOf(As)
    @leftPad('\x00')
    // @lengthOf(
    Header options1,
    @lengthOf(packetx)
    repeat zchar[255] zchar `it's`,
}")).
Eval vm_compute in ("<<<M4052>>>" ++ check (runes_of_ascii "root packet string_ {
    @tag(65535)
    u8 u8x @calculatedFrom(""it's""),
    zchar[10] pack,
    string f32a,
    Pad x `say ""hi""`,
    @calculatedFrom(""`tick`"")
    @rightPad(' ')
    @calculatedFrom(""" ++ [128512]%N ++ runes_of_ascii """)
    match tag as u128 {
        [
            255, 4294967296, 65535, ""packet"", ""// no comment"",
            ""\n"", """", """ ++ [28040; 24687]%N ++ runes_of_ascii """
        ] : falsey,
        ""CRC32"" : uint8x,
        [007, 3, """ ++ [28040; 24687]%N ++ runes_of_ascii """] : As,
    },
}")).
Eval vm_compute in ("<<<M328>>>" ++ check (runes_of_ascii "packet string_ { @lengthOf( int) BodyLength u8x,i64_ `tab	here`
// " ++ [128512]%N ++ runes_of_ascii " emoji
// @lengthOf(
,char[  3 ] /// triple
string_  ,repeat leftPad `" ++ [28040; 24687; 31867; 22411]%N ++ runes_of_ascii "`  ,
repeat int32
/// triple
// `tick` ""quote"" 'q'
BodyLength`u8 x,`, // `tick` ""quote"" 'q'
@tag( 4294967296
) BodyLength	`crlf
line`
    ,  msg_type Packet `" ++ [233]%N ++ runes_of_ascii "`
    , float32 string_ // trailing space 
@calculatedFrom(""""  )
, asx int
    `it's` , }
")).
Eval vm_compute in ("<<<M1089>>>" ++ check (runes_of_ascii "packet	u8x /// triple
{ @calculatedFrom( ""\" ++ [233]%N ++ runes_of_ascii """ ) zchar[
255 ]
A /// triple
@calculatedFrom( ""a	b"" )
    ,string MetaDataX @lengthOf( Pad  ) , f32a @calculatedFrom(
""a\""b""
    ) ,  zchar[
4294967296 ] tag @calculatedFrom( """ ++ [28040; 24687]%N ++ runes_of_ascii """ // `tick` ""quote"" 'q'
)
,@tag( 0123456789 )
    @lengthOf(  Header)int64 A `` ,
char[]
/// triple
// packet A { u8 x, }
x_y_z ,} packet	Logon {	}
")).
Eval vm_compute in ("<<<M4451>>>" ++ check (runes_of_ascii "

  MetaData

    u {
}options{

    // c
	// @lengthOf(

  float

= 
int8
	;
    rootA
= false ;
	As=
    int16// `tick` ""quote"" 'q'
repeatCount 

// trailing space 
	= 
int16
;
u8x

=
    //	t
	string
;
}  options { repeatCount = 0  u128

//
	= 
false

    ;
    i64_
        // trailing space 
  // `tick` ""quote"" 'q'
      = '0'	; //	t
	  } ")).
Eval vm_compute in ("<<<M199>>>" ++ check (runes_of_ascii "
root packet
    tag { f64
len ,
char[
    4294967296 ] A@calculatedFrom( """"  )`it's`, @tag( 65535
    )
match charz// a // b
as tag	{
    [ ""// no comment"" , """ ++ [128512]%N ++ runes_of_ascii """ ]:
zchar	,
    ""\n"":falsey  , },} packet float {f32a { repeat  packetx{
    //x
    char[ 255 ] int `it's`  ,} , uint32 x_y_z @lengthOf( pack ) // " ++ [27880; 37322]%N ++ runes_of_ascii "
,}, } // `tick` ""quote"" 'q'")).
Eval vm_compute in ("<<<M829>>>" ++ check (runes_of_ascii "options {	msg_type = 007 ; //
u8x =""`tick`""}// @lengthOf(
packet body { match o as
    /// triple
    options1
    {
//
//x
""{,}"" :// trailing space 
x_y_z 7
:
Foo,4294967296
: len
, ""// no comment""
: i64_,	} , @lengthOf(
matchKey
)repeat
u32 x_y_z `say ""hi""` , } MetaData a1 {// a // b
options1 options1	`doc` , }
// " ++ [128512]%N ++ runes_of_ascii " emoji
")).
Eval vm_compute in ("<<<M1971>>>" ++ check (runes_of_ascii "MetaData
    u { }  options {
// c
// @lengthOf(
float = int8 ;rootA =false ; As =	int16 // `tick` ""quote"" 'q'
repeatCount
    // trailing space 
    =
    int16
; u8x =
    //	t
    '\x00' '\x00' ; } options	{
    repeatCount
= 0
u128
    //
    = false ; i64_
// trailing space 
// `tick` ""quote"" 'q'
= '0' ; //	t
}
")).
Eval vm_compute in ("<<<M2041>>>" ++ check (runes_of_ascii "MetaData
    u { }  options {
// c
// @lengthOf(
float = int8 ;rootA =false ; As =	int16 // `tick` ""quote"" 'q'
repeatCount
    // trailing space 
    =
    int16
; u8x =
    //	t
    '\x00' ; } options	{
    repeatCount
= 0
u128
    //
    = false ; i64_
// trailing space 
// `tick` ""quote"" 'q'
= '0' '0' ; //	t
}
")).
Eval vm_compute in ("<<<M2036>>>" ++ check (runes_of_ascii "MetaData
    u { }  options {
// c
// @lengthOf(
float = int8 ;rootA =false ; As =	int16 // `tick` ""quote"" 'q'
repeatCount
    // trailing space 
    =
    int16
; u8x =
    //	t
    '\x00' ; } options	{
    repeatCount
= 0
u128
    //
    = false ; i64_
// trailing space 
// `tick` ""quote"" 'q'
= = '0' ; //	t
}
")).
Eval vm_compute in ("<<<M1872>>>" ++ check (runes_of_ascii "MetaData
    u { options  } {
// c
// @lengthOf(
float = int8 ;rootA =false ; As =	int16 // `tick` ""quote"" 'q'
repeatCount
    // trailing space 
    =
    int16
; u8x =
    //	t
    '\x00' ; } options	{
    repeatCount
= 0
u128
    //
    = false ; i64_
// trailing space 
// `tick` ""quote"" 'q'
= '0' ; //	t
}
")).
Eval vm_compute in ("<<<M2022>>>" ++ check (runes_of_ascii "MetaData
    u { }  options {
// c
// @lengthOf(
float = int8 ;rootA =false ; As =	int16 // `tick` ""quote"" 'q'
repeatCount
    // trailing space 
    =
    int16
; u8x =
    //	t
    '\x00' ; } options	{
    repeatCount
= 0
u128
    //
    = ; false i64_
// trailing space 
// `tick` ""quote"" 'q'
= '0' ; //	t
}
")).
Eval vm_compute in ("<<<M2045>>>" ++ check (runes_of_ascii "MetaData
    u { }  options {
// c
// @lengthOf(
float = int8 ;rootA =false ; As =	int16 // `tick` ""quote"" 'q'
repeatCount
    // trailing space 
    =
    int16
; u8x =
    //	t
    '\x00' ; } options	{
    repeatCount
= 0
u128
    //
    = false ; i64_
// trailing space 
// `tick` ""quote"" 'q'
= '0'  //	t
}
")).
Eval vm_compute in ("<<<M1875>>>" ++ check (runes_of_ascii "MetaData
    u { }   {
// c
// @lengthOf(
float = int8 ;rootA =false ; As =	int16 // `tick` ""quote"" 'q'
repeatCount
    // trailing space 
    =
    int16
; u8x =
    //	t
    '\x00' ; } options	{
    repeatCount
= 0
u128
    //
    = false ; i64_
// trailing space 
// `tick` ""quote"" 'q'
= '0' ; //	t
}
")).
Eval vm_compute in ("<<<M1200>>>" ++ check (runes_of_ascii "root packet msg_type{
repeat
char[ 7 ]
    o  `doc`,
    @calculatedFrom( // packet A { u8 x, }
""x y""
    )repeat packetx tag ,
char[]A
    `doc`,
    repeat
// " ++ [128512]%N ++ runes_of_ascii " emoji
// trailing space 
BodyLength {
//
//
int8
As , i16 stringy , x_y_z {
zchar[ 65535 ] matchKey
@lengthOf( zchar ) ,}
, }, } //")).
Eval vm_compute in ("<<<M3600>>>" ++ check (runes_of_ascii "  packet

    MDSnapshotZZ

{

u8  a
	,

}
	packet OrderACK
    {
u16 b	, 
} 
packet
	HTTPServerInfo	{

    string
s ,

    }

root packet FIXMsg{
u8 KType,  MDSnapshotZZ ,

    repeat OrderACK,

    match KType
	as	Body{  1 :
HTTPServerInfo

,
	2 :
    OrderACK  ,}
    ,}

")).
Eval vm_compute in ("<<<M3808>>>" ++ check (runes_of_ascii "// top
options {
    // c1a
    // c1b
    FixedStringPadChar = '0';// c5
}// c6

packet Q {
    // c9
    zchar[4] z,
    @rightPad('\x00')
    // c18
    char[3] n,
    char[5] d,
}

root packet R {
    // c33
    Q,// c35
    zchar[8] top,
    repeat zchar[2] zs,// c46
}")).
Eval vm_compute in ("<<<M25>>>" ++ check (runes_of_ascii "
root packet  calculatedFrom { repeat Header
, } MetaData Header{ zchar[// packet A { u8 x, }
10
]	As
    ,// trailing space 
string
chars, crc Logon `u8 x,`  , Z9_ Logon ,	}packet trueish
    {}
    MetaData
A { }  options { options1
=
' '
    //
    ; //	t
}
")).
Eval vm_compute in ("<<<M1583>>>" ++ check (runes_of_ascii "packet
//	t
// trailing space 
_x {
// packet A { u8 x, }
// c
char[
3
    ] u8x @lengthOf(
u8x ) , @calculatedFrom(""" ++ [128512]%N ++ runes_of_ascii """ // @lengthOf(
)
i16	Foo
@lengthOf(	string_
    )`doc` `doc`	, repeat	i64 metadata , @lengthOf( string_
) i8 // c
u  `line1
line2`	,
}
")).
Eval vm_compute in ("<<<M1560>>>" ++ check (runes_of_ascii "packet
//	t
// trailing space 
_x {
// packet A { u8 x, }
// c
char[
3
    ] u8x @lengthOf(
u8x ) , @calculatedFrom(""" ++ [128512]%N ++ runes_of_ascii """ // @lengthOf(
)
false	Foo
@lengthOf(	string_
    )`doc`	, repeat	i64 metadata , @lengthOf( string_
) i8 // c
u  `line1
line2`	,
}
")).
Eval vm_compute in ("<<<M811>>>" ++ check (runes_of_ascii "packet trueish{ body Logon , }packet  len
{ @leftPad ( '0' // packet A { u8 x, }
) @rightPad ()repeat calculatedFrom`u8 x,`
    ,repeatCount {repeat
    Logon tag
    `u8 x,`
,
} // " ++ [128512]%N ++ runes_of_ascii " emoji
, repeat  char[ 65535	] Header`two words` , float32 Pad, }
")).
Eval vm_compute in ("<<<M1624>>>" ++ check (runes_of_ascii "packet
//	t
// trailing space 
_x {
// packet A { u8 x, }
// c
char[
3
    ] u8x @lengthOf(
u8x ) , @calculatedFrom(""" ++ [128512]%N ++ runes_of_ascii """ // @lengthOf(
)
i16	Foo
@lengthOf(	string_
    )`doc`	, repeat	i64 metadata , @lengthOf( string_
i8 ) // c
u  `line1
line2`	,
}
")).
Eval vm_compute in ("<<<M2029>>>" ++ check (runes_of_ascii "MetaData
    u { }  options {
// c
// @lengthOf(
float = int8 ;rootA =false ; As =	int16 // `tick` ""quote"" 'q'
repeatCount
    // trailing space 
    =
    int16
; u8x =
    //	t
    '\x00' ; } options	{
    repeatCount
= 0
u128
    //
    = false")).
Eval vm_compute in ("<<<M850>>>" ++ check (runes_of_ascii "
MetaData Header { } root// " ++ [128512]%N ++ runes_of_ascii " emoji
packet i8i8{ @rightPad // trailing space 
(
'0' )	u16
u8x @lengthOf( Header )
`u8 x,`,
}
    MetaData
u128
{  zchar[ 00 ]falsey, body repeatCount , len
    repeatCount
    ,
u8 chars  `line1
line2`
    , }")).
Eval vm_compute in ("<<<M590>>>" ++ check (runes_of_ascii "MetaData
As  {BodyLength roots	, uint8x
    uint8x
    , } packet pack
    /// triple
    { lengthOf `crlf
line` , char
i8i8 ,
@tag( 4294967296) zchar[ 1 ] Header `say ""hi""` , @tag(4294967296 )
    string chars,	}
// trailing space 
")).
Eval vm_compute in ("<<<M3656>>>" ++ check (runes_of_ascii "packet Sub {
    u8 a,
    @calculatedFrom(""CRC16"") u16 SubSum,
}
root packet Frame {
    u16 MsgType,
    u16 BodyLen @lengthOf(Body),
    Sub Body,
    string note,
    @calculatedFrom(""CRC16"") u16 Checksum,
    u8 tail,
}
")).
Eval vm_compute in ("<<<M1626>>>" ++ check (runes_of_ascii "packet
//	t
// trailing space 
_x {
// packet A { u8 x, }
// c
char[
3
    ] u8x @lengthOf(
u8x ) , @calculatedFrom(""" ++ [128512]%N ++ runes_of_ascii """ // @lengthOf(
)
i16	Foo
@lengthOf(	string_
    )`doc`	, repeat	i64 metadata , @lengthOf( string_")).
Eval vm_compute in ("<<<M1822>>>" ++ check (runes_of_ascii "options { trueish = ""`tick`"" ; string_= """ ++ [233]%N ++ runes_of_ascii "t" ++ [233]%N ++ runes_of_ascii """
    // c
    } root
    packet body { stringy @calculatedFrom(
""a	b"" ) `line1
line2` , }
packet Logon {
    @leftPad(
    ' ' ) //	t
u16 string_ `u8 x,` `u8 x,` ,
}
")).
Eval vm_compute in ("<<<M1812>>>" ++ check (runes_of_ascii "options { trueish = ""`tick`"" ; string_= """ ++ [233]%N ++ runes_of_ascii "t" ++ [233]%N ++ runes_of_ascii """
    // c
    } root
    packet body { stringy @calculatedFrom(
""a	b"" ) `line1
line2` , }
packet Logon {
    @leftPad(
    ' ' ) //	t
u16 u16 string_ `u8 x,` ,
}
")).
Eval vm_compute in ("<<<M1851>>>" ++ check (runes_of_ascii "options { trueish = ""`tick`"" ; string_= """ ++ [233]%N ++ runes_of_ascii "t" ++ [233]%N ++ runes_of_ascii """
    // c
    } root
    packet body { stringy @calculatedFrom(
""a	b"" ) `line1
line2` , }
packet Logon {
    @leftPad(
    ' ' ) //	t
u16 " ++ [233]%N ++ runes_of_ascii " string_ `u8 x,` ,
}
")).
Eval vm_compute in ("<<<M1728>>>" ++ check (runes_of_ascii "options { trueish = ""`tick`"" ; string_= """ ++ [233]%N ++ runes_of_ascii "t" ++ [233]%N ++ runes_of_ascii """
    // c
    } root
    body packet { stringy @calculatedFrom(
""a	b"" ) `line1
line2` , }
packet Logon {
    @leftPad(
    ' ' ) //	t
u16 string_ `u8 x,` ,
}
")).
Eval vm_compute in ("<<<M1706>>>" ++ check (runes_of_ascii "options { trueish = ""`tick`"" ; string_ """ ++ [233]%N ++ runes_of_ascii "t" ++ [233]%N ++ runes_of_ascii """
    // c
    } root
    packet body { stringy @calculatedFrom(
""a	b"" ) `line1
line2` , }
packet Logon {
    @leftPad(
    ' ' ) //	t
u16 string_ `u8 x,` ,
}
")).
Eval vm_compute in ("<<<M1751>>>" ++ check (runes_of_ascii "options { trueish = ""`tick`"" ; string_= """ ++ [233]%N ++ runes_of_ascii "t" ++ [233]%N ++ runes_of_ascii """
    // c
    } root
    packet body { stringy @calculatedFrom(
 ) `line1
line2` , }
packet Logon {
    @leftPad(
    ' ' ) //	t
u16 string_ `u8 x,` ,
}
")).
Eval vm_compute in ("<<<M52>>>" ++ check (runes_of_ascii "  root packet _x// " ++ [128512]%N ++ runes_of_ascii " emoji
{@lengthOf(// c
Packet ) float32 stringy  @calculatedFrom(
""x y"" ) `say ""hi""`, match Pad as
x_y_z{ ""a\\"" : float , 65535 : stringy 007: /// triple
uint8x ,
    } , }
")).
Eval vm_compute in ("<<<M727>>>" ++ check (runes_of_ascii "packet
tag// a // b
{ repeat string
msg_type ,
// `tick` ""quote"" 'q'
// `tick` ""quote"" 'q'
i64
float  `crlf
line` ,@rightPad
( '0'
) @lengthOf(
MetaDataX
)	body ,} // trailing space ")).
Eval vm_compute in ("<<<M767>>>" ++ check (runes_of_ascii "MetaData
msg_type { float32 metadata `line1
line2`,
    uint16 msg_type `// not a comment` ,
    float
    Pad, float64 trueish`{ , }`, x
    stringy
    // " ++ [128512]%N ++ runes_of_ascii " emoji
    `tab	here` ,}")).
Eval vm_compute in ("<<<M430>>>" ++ check (runes_of_ascii "root packet i8i8 { @tag(
3) @tag( // " ++ [128512]%N ++ runes_of_ascii " emoji
42 )repeat zchar[ 0123456789 ]
    options1 // a // b
, string	charz
`say ""hi""` ,
    }
MetaData int{
    uint16 uint8x,
    }")).
Eval vm_compute in ("<<<M4241>>>" ++ check (runes_of_ascii "
MetaData
uint8x {
}
	packet
	i8i8{ // a // b

  repeat
uint64 roots
	, string

    falsey
	,// trailing space 

	}

    options{

repeatCount

    = 007 ;	}

")).
Eval vm_compute in ("<<<M1048>>>" ++ check (runes_of_ascii "packet falsey { }
    packet
    stringy
    { repeatCount //	t
@calculatedFrom(  ""a	b"" //x
) ,
@lengthOf( string_ )
    repeat i64_ metadata
`
` /// triple
, }
")).
Eval vm_compute in ("<<<M2336>>>" ++ check (runes_of_ascii "// c
packet x { @lengthOf( metadata ) repeat lengthOf
,a1{
trueish	,// c
repeat//	t
MetaDataX , } , zchar[
    options	] rootA // `tick` ""quote"" 'q'
,
    }
")).
Eval vm_compute in ("<<<M3362>>>" ++ check (runes_of_ascii "// top
packet // c0a
  // c0b
x
    // c1
{ @rightPad
    // c3
( // c4a
  // c4b
) repeat roots
    // c7
Logon // c8
`doc`
    // c9
, } // c11a
  // c11b
")).
Eval vm_compute in ("<<<M2343>>>" ++ check (runes_of_ascii "// c
packet x { @lengthOf( metadata ) repeat lengthOf
,a1{
trueish	,// c
repeat//	t
MetaDataX , } , zchar[
    42	] rootA // `tick` ""quote"" 'q'
,
    '}
")).
Eval vm_compute in ("<<<M2379>>>" ++ check (runes_of_ascii "// c
packet x { @lengthOf( ) metadata repeat lengthOf
,a1{
trueish	,// c
repeat//	t
MetaDataX , } , zchar[
    42	] rootA // `tick` ""quote"" 'q'
,
    }
")).
Eval vm_compute in ("<<<M2396>>>" ++ check (runes_of_ascii "// c
packet  { @lengthOf( metadata ) repeat lengthOf
,a1{
trueish	,// c
repeat//	t
MetaDataX , } , zchar[
    42	] rootA // `tick` ""quote"" 'q'
,
    }
")).
Eval vm_compute in ("<<<M2206>>>" ++ check (runes_of_ascii "options{
x" ++ [178]%N ++ runes_of_ascii "
= true
} options
{ o	= /// triple
false
    ; chars
= ""\n"" } root packet	Pad
/// triple
// packet A { u8 x, }
{	chars
    // a // b
    ,}")).
Eval vm_compute in ("<<<M4150>>>" ++ check (runes_of_ascii "

  root packet  matchKey{

zchar[ 3

]
    pack @calculatedFrom( ""a	b"" )

    `doc`
    ,	}
    options { 
} MetaData  // c
	A	{ int8	msg_type ,}

")).
Eval vm_compute in ("<<<M843>>>" ++ check (runes_of_ascii "options
{
crc
//
// a // b
=
    // packet A { u8 x, }
    ""abc""
    ; stringy =
    '0' ;
Logon
= zchar[
10  ]
    float// a // b
=
    false	}
")).
Eval vm_compute in ("<<<M856>>>" ++ check (runes_of_ascii "root packet Header
{ match leftPad as Foo
    {// c
7 : o
// @lengthOf(
//x
,
0 : u8x 65535: leftPad  ,
    00:
asx  , ""it's"" : //
o , },
    }
")).
Eval vm_compute in ("<<<M710>>>" ++ check (runes_of_ascii "root packet options1 {
    }	options { u
    =  4294967296
    As=
""abc""  f32a = ' ' ; len // packet A { u8 x, }
=char[] ; uint8x
= true}
")).
Eval vm_compute in ("<<<M4174>>>" ++ check (runes_of_ascii "packet A {
    B b `a
            b
          c`,
    B `a
            b
          c`,
    repeat B bs `a
            b
          c`,
}")).
Eval vm_compute in ("<<<M3864>>>" ++ check (runes_of_ascii "packet A {
    match k as n {
        [
            22, 4, 66, ""a"", ""c c"",
            ""e""
        ] : B,
        2 : C,
    },
}")).
Eval vm_compute in ("<<<M523>>>" ++ check (runes_of_ascii "//
MetaData i8i8 { } root packet
    roots {
repeat u16 BodyLength `
` ,
    } options {	string_ = """ ++ [233]%N ++ runes_of_ascii "t" ++ [233]%N ++ runes_of_ascii """ ; }
packet i64_
{}
")).
Eval vm_compute in ("<<<M2321>>>" ++ check (runes_of_ascii "// c
packet x { @lengthOf( metadata ) repeat lengthOf
,a1{
trueish	,// c
repeat//	t
MetaDataX , } , zchar[
    42	] rootA")).
Eval vm_compute in ("<<<M3328>>>" ++ check (runes_of_ascii "root packet matchKey { zchar[ 3 ] pack @calculatedFrom( // c
""a	b"" ) `doc` , } options { } MetaData A { int8 msg_type , }")).
Eval vm_compute in ("<<<M4590>>>" ++ check (runes_of_ascii "packet	A
	{
    match 
k  as
	n
	{ 
[ ""a"" 
, 22 ,""c c"" ,
4
,""e""

    ,66,
""g""	,8 
,
""i"" ]

    : B	,	2 : C
	}

,
	}")).
Eval vm_compute in ("<<<M3054>>>" ++ check (runes_of_ascii "packet A {
    match k as n {
        ""x\
y"" : B,
        [""x\
y"", 1] : C,
        [1,2,3,4,5,""x\
y""] : D,
    },
}")).
Eval vm_compute in ("<<<M1210>>>" ++ check (runes_of_ascii "
MetaData chars
    { // " ++ [128512]%N ++ runes_of_ascii " emoji
trueish
rootA `say ""hi""` , uint8 Packet , zchar[ 0123456789
    //
    ] Z9_
,	}

")).
Eval vm_compute in ("<<<M1362>>>" ++ check (runes_of_ascii "options {
    x =
    0  ;
/// triple
/// triple
Header = ""1"" ; zchar
    ='0' Pad= float64
;
} MetaData u128{	}
")).
Eval vm_compute in ("<<<M996>>>" ++ check (runes_of_ascii "
MetaData // `tick` ""quote"" 'q'
Foo { char[
    4294967296
    ] // packet A { u8 x, }
string_ , T float , }
")).
Eval vm_compute in ("<<<M24>>>" ++ check (runes_of_ascii "root packet
    metadata// " ++ [128512]%N ++ runes_of_ascii " emoji
{ } packet // c
u
{@leftPad (
) repeat char[  4294967296 ] A
`a\`  ,
}
")).
Eval vm_compute in ("<<<M3669>>>" ++ check (runes_of_ascii "  packet

metadata { Logon

{A
    `" ++ [28040; 24687; 31867; 22411]%N ++ runes_of_ascii "`  // c
	,  tag	o ,	}
    ,
zchar 
len

`// not a comment`
,	}
")).
Eval vm_compute in ("<<<M4256>>>" ++ check (runes_of_ascii "options {
    _x = true
}

options {
    o = false;
    chars = ""\n""
}

root packet Pad {
    chars,
}")).
Eval vm_compute in ("<<<M642>>>" ++ check (runes_of_ascii "packet
//	t
//x
As
{ matchKey@lengthOf(string_)
    , matchKey `say ""hi""`// packet A { u8 x, }
,}")).
Eval vm_compute in ("<<<M3551>>>" ++ check (runes_of_ascii "packet B {
    u8 a,
    string s,
}
root packet P {
    u16 L @lengthOf(B),
    B,
    u8 t,
}
")).
Eval vm_compute in ("<<<M721>>>" ++ check (runes_of_ascii "MetaData A  {zchar[42 ]string_ ,}MetaData u{
    // a // b
    } options {
o
= ""CRC32""
;  }

")).
Eval vm_compute in ("<<<M2926>>>" ++ check (runes_of_ascii "packet A {
  match k as n {
    [""a"", ""bb"", ""c c"", ""d"", ""e"", ""f"", ""g""] : B
    2 : C
  },
}")).
Eval vm_compute in ("<<<M2940>>>" ++ check (runes_of_ascii "packet A {
  match k as n {
    [1, ""bb"", 007, ""d"", 5, ""f"", 7, ""h""] : B,
    2 : C
  },
}")).
Eval vm_compute in ("<<<M3296>>>" ++ check (runes_of_ascii "MetaData float { float64 charz `
` , } root packet chars { @rightPad (
// c
'0' ) Foo , }")).
Eval vm_compute in ("<<<M3507>>>" ++ check (runes_of_ascii "packet chars { } packet MetaDataX { @tag( 42 ) i16 string_ // c
, repeat x `say ""hi""` , }")).
Eval vm_compute in ("<<<M2934>>>" ++ check (runes_of_ascii "packet A {
  match k as n {
    [""a"", ""bb"", 007, ""d"", ""e"", 66, ""g""] : B
    2 : C
  },
}")).
Eval vm_compute in ("<<<M3874>>>" ++ check (runes_of_ascii "options {
    repeatCount = ""a	b"";
    As = ' ';
    len = true;
    string_ = int16;
}")).
Eval vm_compute in ("<<<M3214>>>" ++ check (runes_of_ascii "packet
// c
metadata { Logon { A `" ++ [28040; 24687; 31867; 22411]%N ++ runes_of_ascii "` , tag o , } , zchar len `// not a comment` , }")).
Eval vm_compute in ("<<<M3246>>>" ++ check (runes_of_ascii "packet metadata { Logon { A `" ++ [28040; 24687; 31867; 22411]%N ++ runes_of_ascii "` , tag o , } , zchar len `// not a comment` ,
// c
}")).
Eval vm_compute in ("<<<M3434>>>" ++ check (runes_of_ascii "packet o {
// c
repeat Logon uint8x , } options { asx = zchar[ 3 ] stringy = '\x00' }")).
Eval vm_compute in ("<<<M3914>>>" ++ check (runes_of_ascii "packet A {
    match k as n {
        [1, 22, 007, 4, 5] : B,
        2 : C,
    },
}")).
Eval vm_compute in ("<<<M3422>>>" ++ check (runes_of_ascii "MetaData body { i64 pack `it's` , } packet stringy { int16 calculatedFrom , } // c
")).
Eval vm_compute in ("<<<M3411>>>" ++ check (runes_of_ascii "MetaData body { i64 pack `it's` , } packet
// c
stringy { int16 calculatedFrom , }")).
Eval vm_compute in ("<<<M2246>>>" ++ check (runes_of_ascii "options
{ } options { BodyLength= u16 = f64 ; u128 =
    true
    ; } // a // b")).
Eval vm_compute in ("<<<M3250>>>" ++ check (runes_of_ascii "// top
root
    // c0
packet
    // c1
pack
    // c2
{
    // c3
}
    // c4
")).
Eval vm_compute in ("<<<M2895>>>" ++ check (runes_of_ascii "packet A {
  match k as n {
    [""a"", ""bb"", 007, ""d""] : B
    2 : C
  },
}")).
Eval vm_compute in ("<<<M1119>>>" ++ check (runes_of_ascii "MetaData
    // a // b
    options1 { Pad
options1	,// " ++ [27880; 37322]%N ++ runes_of_ascii "
}
// " ++ [128512]%N ++ runes_of_ascii " emoji
")).
Eval vm_compute in ("<<<M692>>>" ++ check (runes_of_ascii "options {
T
= false // a // b
;
    tag =
    char[ 0 ]
    ;
    }
")).
Eval vm_compute in ("<<<M3182>>>" ++ check (runes_of_ascii "packet A {
    match k as n {
        1 : B,
        // c
    },
}")).
Eval vm_compute in ("<<<M922>>>" ++ check (runes_of_ascii "
packet _x  {repeat int8
    trueish
,// packet A { u8 x, }
}

")).
Eval vm_compute in ("<<<M1904>>>" ++ check (runes_of_ascii "MetaData
    u { }  options {
// c
// @lengthOf(
float = int8")).
Eval vm_compute in ("<<<M1295>>>" ++ check (runes_of_ascii "options { matchKey
= 0 Header =
// " ++ [128512]%N ++ runes_of_ascii " emoji
// c
""CRC32"" }
")).
Eval vm_compute in ("<<<M3386>>>" ++ check (runes_of_ascii "packet x { @rightPad ( ) repeat roots Logon `doc` ,
// c
}")).
Eval vm_compute in ("<<<M4512>>>" ++ check (runes_of_ascii "MetaData M {
    u8 x `a
    b`,
    T t `a
    b`,
}")).
Eval vm_compute in ("<<<M4101>>>" ++ check (runes_of_ascii "MetaData  uint8x 	 // trailing space 
    {

    }")).
Eval vm_compute in ("<<<M1096>>>" ++ check (runes_of_ascii "options { body= false ; }
// `tick` ""quote"" 'q'
")).
Eval vm_compute in ("<<<M3823>>>" ++ check (runes_of_ascii "packet	u128
{repeat string As`say ""hi""`
	,  }
")).
Eval vm_compute in ("<<<M3052>>>" ++ check (runes_of_ascii "options {
    a = ""x\
y"";
    b = ""x\
y""
}")).
Eval vm_compute in ("<<<M4136>>>" ++ check (runes_of_ascii "options {a =
	1 // c
		b
= 2
	;	// d
	}
")).
Eval vm_compute in ("<<<M3195>>>" ++ check (runes_of_ascii "root packet u128 { // c
chars `it's` , }")).
Eval vm_compute in ("<<<M2655>>>" ++ check (runes_of_ascii "MetaData M { match k as n { 1 : B }, }")).
Eval vm_compute in ("<<<M3019>>>" ++ check (runes_of_ascii "packet A {
    u8 x `a
    b
  c`,
}")).
Eval vm_compute in ("<<<M56>>>" ++ check (runes_of_ascii "// `tick` ""quote"" 'q'

/// triple
")).
Eval vm_compute in ("<<<M2731>>>" ++ check (runes_of_ascii "( '\x00' = _x root , ] string ( (")).
Eval vm_compute in ("<<<M4336>>>" ++ check (runes_of_ascii "packet A {
    u8 x `d" ++ [6158]%N ++ runes_of_ascii "`,// c" ++ [6158]%N ++ runes_of_ascii "
}")).
Eval vm_compute in ("<<<M3077>>>" ++ check (runes_of_ascii "packet A {
 u8 x `d" ++ [133]%N ++ runes_of_ascii "`, // c" ++ [133]%N ++ runes_of_ascii "
}")).
Eval vm_compute in ("<<<M1700>>>" ++ check (runes_of_ascii "options { trueish = ""`tick`""")).
Eval vm_compute in ("<<<M4385>>>" ++ check (runes_of_ascii "root 
packet pack {// c

	}")).
Eval vm_compute in ("<<<M2766>>>" ++ check (runes_of_ascii "root u8 @tag( ) @rightPad")).
Eval vm_compute in ("<<<M840>>>" ++ check (runes_of_ascii "packet matchKey
{
} //x")).
Eval vm_compute in ("<<<M2705>>>" ++ check (runes_of_ascii "u64 MetaData char , ]")).
Eval vm_compute in ("<<<M4389>>>" ++ check (runes_of_ascii "
packet  body 
{
} ")).
Eval vm_compute in ("<<<M3476>>>" ++ check (runes_of_ascii "MetaData o { // c
}")).
Eval vm_compute in ("<<<M3090>>>" ++ check (runes_of_ascii "packet A {
}
// c" ++ [8202]%N)).
Eval vm_compute in ("<<<M2568>>>" ++ check (runes_of_ascii "packet A { u8 , }")).
Eval vm_compute in ("<<<M532>>>" ++ check (runes_of_ascii "MetaData Z9_ { }")).
Eval vm_compute in ("<<<M2630>>>" ++ check (runes_of_ascii "packet A { } }")).
Eval vm_compute in ("<<<M4418>>>" ++ check (runes_of_ascii "
options {}
")).
Eval vm_compute in ("<<<M2489>>>" ++ check (runes_of_ascii "@lengthOf")).
Eval vm_compute in ("<<<M2459>>>" ++ check (runes_of_ascii "strings")).
Eval vm_compute in ("<<<M3124>>>" ++ check (runes_of_ascii "// c 	")).
Eval vm_compute in ("<<<M3089>>>" ++ check (runes_of_ascii "// c" ++ [8202]%N)).
Eval vm_compute in ("<<<M2542>>>" ++ check (runes_of_ascii "{}{}")).
Eval vm_compute in ("<<<M2534>>>" ++ check (runes_of_ascii "a_b")).
Eval vm_compute in ("<<<M2548>>>" ++ check (runes_of_ascii "	a")).
