From FP Require Import Lexer Parser ShowPT Digest Formatter.
From Coq Require Import String List NArith.
Import ListNotations.
Open Scope string_scope.
Set Printing Width 100000000.
Set Printing Depth 100000000.
Definition show_fres (r : fres) : string :=
  match r with
  | FOk s => "OK:" ++ sh_escaped s ""
  | FErr s => "ERR:" ++ sh_escaped s ""
  | FPanic p => "PANIC:" ++ p
  end.
Definition check (rs : list rune) : string := digest (show_fres (format_res rs)).
Definition full (rs : list rune) : string := show_fres (format_res rs).
Eval vm_compute in ("<<<M4238>>>" ++ check (runes_of_ascii "
packet

    repeatCount{	// `tick` ""quote"" 'q'
u 
{ 
  /// triple
		repeat
	char[] packetx  , x_y_z
	{
repeat Foo
Z9_  , match
	asx// " ++ [128512]%N ++ runes_of_ascii " emoji
		as 
Logon
	{  1	:  stringy

    ,  [  ""abc""
,
7 
,""abc"", 10 ,
""1"" 	 /// triple
  ]	:

    charz 
,  }	,uint8x
{MetaDataX
roots

    // packet A { u8 x, }
  //x
	,	// 50% %s
		u8 
pack @calculatedFrom(
    ""\n"") 
      // c

	// @lengthOf(

  ,
	}
,
	x  body , 
    // " ++ [27880; 37322]%N ++ runes_of_ascii "
    	}

,
},

@lengthOf( tag
	)asx	/// triple
,
    zchar[
00 ] x_y_z
	@calculatedFrom(
	""\" ++ [233]%N ++ runes_of_ascii """

)	// trailing space 
	`tab	here`
    ,
    @calculatedFrom(""CRC32"" 
)

    int32
	// @lengthOf(
	// @lengthOf(
	A
, 
@calculatedFrom(
""it's""
)  @leftPad (
' ')
@rightPad
    ('\x00'
)

match
    leftPad as	roots

{ [
	255	,
    007 
        //	t
    , 00 //

, ""packet""
    ] // " ++ [128512]%N ++ runes_of_ascii " emoji
		:
trueish  , // " ++ [27880; 37322]%N ++ runes_of_ascii "
      },
    @tag(3)

    string
	options1

    @calculatedFrom(""`tick`""  )`100% of %d`  // trailing space 
	,@leftPad	( 
'\x00' )  string  uint8x
, @leftPad	( 
' ') 
@calculatedFrom(""// no comment"" 
)  // " ++ [27880; 37322]%N ++ runes_of_ascii "
@tag( 
00
	)
metadata  @calculatedFrom(
	""1"" ),
    } root packet a1
    { chars

    @calculatedFrom(	""\" ++ [233]%N ++ runes_of_ascii """
) ,	@tag( 
0123456789

    // packet A { u8 x, }
  )	repeatCount i64_
	,repeat

len{

    repeat

zchar[
	255
    ]

A  `" ++ [233]%N ++ runes_of_ascii "` ,
    string
	calculatedFrom
`100% of %d`
    ,	f32  asx 
,

    },
@leftPad (

    ) uint64 crc `a\`
	, @tag( 0123456789 
    // 50% %s
  )string  string_,  T {

    char[ 255	]

    T

, }
, calculatedFrom
    string_  ,
}
MetaData

    leftPad
	{o
f32a
    ,  
      //	t
	//	t
} 
MetaData

lengthOf  {
    string charz
	,

u64  len`{ , }`
	    //x
    	//	t
  , u16

    T
`tab	here`
,
char[] Foo ,  }
	packet
f32a 
    // `tick` ""quote"" 'q'
  	{

    match 
string_ as
	crc 
  // @lengthOf(
    // `tick` ""quote"" 'q'

  { 
255: Z9_,
    [  """ ++ [128512]%N ++ runes_of_ascii """
,7	]

    :
leftPad
, 
    // trailing space 

	""\n"" :float
    """ ++ [233]%N ++ runes_of_ascii "t" ++ [233]%N ++ runes_of_ascii """  :f32a,
}, repeat 
u128 { string
int 
/// triple
	//	t
  @lengthOf(
rootA  ),

    },

u ,

    }
")).
Eval vm_compute in ("<<<M3993>>>" ++ check (runes_of_ascii "options { u128

    = 
	/// triple
  /// triple
  ""x y"";  Logon = '\x00'
    Foo  //x
=
""CRC32""  // a // b
  ;

    } options { u
    =	// a // b
		""1""  ;u =
	float64;Logon

    = false ; } root
packet
Header
    {  @tag(	0

)	@lengthOf(
	metadata	)

    Pad { 
T

    @calculatedFrom(

    ""// no comment""
), 
repeat

char[  //	t
  255 ]
    metadata ``,
} , @lengthOf(metadata ) 	 //
repeat string	asx 
`two words` , 
        //
  @tag(

    1

)As

    {/// triple
  tag 
@lengthOf( 
u8x
    )
,
Z9_
	`tab	here`

    ,
zchar[1
// packet A { u8 x, }

	] 
string_// packet A { u8 x, }
  	@calculatedFrom(
    // " ++ [27880; 37322]%N ++ runes_of_ascii "
  	// a // b
    ""packet"") ,match 	 // a // b

stringy
as As
    {
""a\\"" :

    metadata
, [ ""abc"" ,
    ""x y""  ]// trailing space 
    	:
Header 255	:
    u  ,
7  :

    msg_type  [ 
	// @lengthOf(
	""x y"" ,
    ""a\\""  //x
    ,
	10 
	// c
  // " ++ [128512]%N ++ runes_of_ascii " emoji
	,

""packet""
]	: chars

    } ,},@leftPad
( 
'\x00'  )i64_ {

x
`say ""hi""`,
	} ,
    repeat 
Foo  {len  {match
    u 
as
_x
        // trailing space 
  { 42  : tag 
	    // c
  // a // b
,[	""" ++ [233]%N ++ runes_of_ascii "t" ++ [233]%N ++ runes_of_ascii """ ]

    : 	 //x
    _x	[
	7  ,	// " ++ [128512]%N ++ runes_of_ascii " emoji
	  4294967296

]
    :

    Packet	// `tick` ""quote"" 'q'

	, 	 //	t

  }

    ,

float64

o `a\`,
	f32a  Pad `crlf
line`
	,  }

, 

    /// triple

	} , match 
options1 as
	uint8x { 42  :
    len
    // " ++ [128512]%N ++ runes_of_ascii " emoji
  ,255 :o, 255 :
    Logon , 0 
//
  // a // b
:	Header
    // " ++ [128512]%N ++ runes_of_ascii " emoji
,
007 : msg_type,

    } // @lengthOf(
      ,
	@rightPad (

'\x00'
    ) @calculatedFrom(""a\\""
)@calculatedFrom( ""\" ++ [233]%N ++ runes_of_ascii """ )
	repeat
Foo 	 // `tick` ""quote"" 'q'
  {char[ 
    // 50% %s
	00

    ]rootA ,
},

repeat

charz

    T

`" ++ [233]%N ++ runes_of_ascii "`
, 
string

BodyLength 
	// 50% %s
,
repeat	u128// packet A { u8 x, }
  ,

    }
")).
Eval vm_compute in ("<<<M1119>>>" ++ check (runes_of_ascii "packet
Packet{string stringy
    `two words` , } //
packet roots{ @calculatedFrom( ""\n""  )
match u8x as packetx
// 50% %s
// " ++ [128512]%N ++ runes_of_ascii " emoji
{ 7 :
/// triple
// " ++ [27880; 37322]%N ++ runes_of_ascii "
uint8x 65535
    // @lengthOf(
    : int 1
//	t
// @lengthOf(
:
    //x
    T
    , ""{,}"" : Foo ,0123456789// " ++ [128512]%N ++ runes_of_ascii " emoji
: Logon
, [ 65535 ] :len
    ,
// " ++ [128512]%N ++ runes_of_ascii " emoji
// " ++ [27880; 37322]%N ++ runes_of_ascii "
} ,
repeat
lengthOf metadata // a // b
, @calculatedFrom( """ ++ [233]%N ++ runes_of_ascii "t" ++ [233]%N ++ runes_of_ascii """) repeat /// triple
zchar[
65535
] As
    // @lengthOf(
    `` // `tick` ""quote"" 'q'
, char[7 //	t
]
    float @calculatedFrom( """"
) ,float32
a1`" ++ [233]%N ++ runes_of_ascii "` ,  i64
    Pad
    @lengthOf(
BodyLength
    )  `say ""hi""`
// " ++ [128512]%N ++ runes_of_ascii " emoji
// @lengthOf(
, match
    int as asx
// " ++ [27880; 37322]%N ++ runes_of_ascii "
// `tick` ""quote"" 'q'
{ [ """ ++ [28040; 24687]%N ++ runes_of_ascii """ , 0
    ]:
    x_y_z  ,1:Packet , ""{,}"" :falsey , 255
: charz ,// trailing space 
[ ""{,}"" , // @lengthOf(
0123456789
    //
    ] :
    uint8x , },crc @calculatedFrom(
""\" ++ [233]%N ++ runes_of_ascii """	) `it's`
,// @lengthOf(
match packetx as Pad{ ""packet"":BodyLength,
} , @lengthOf( BodyLength
) @tag( 00 )	@lengthOf( As )  match charz as len
    { [ ""x y"" ]
    : _x ""it's""
: i64_ , 0123456789 : metadata
""" ++ [128512]%N ++ runes_of_ascii """ :
    trueish
    // " ++ [128512]%N ++ runes_of_ascii " emoji
    ,1
    :	Logon,
} , } MetaData _x//
{crc calculatedFrom , char[ 1] stringy
// packet A { u8 x, }
//x
,
string BodyLength ,char[4294967296]  calculatedFrom`` ,string//x
i8i8`100% of %d`,BodyLength //x
MetaDataX, } options {uint8x =
// packet A { u8 x, }
//x
int32 packetx =i32 ;lengthOf =
char[] ;
    Logon = string
    ; }")).
Eval vm_compute in ("<<<M4296>>>" ++ check (runes_of_ascii "  options{StringPrefixLenType
    =u16
;  ArrayPrefixLenType
=	u16

    ;
    }	packet

    SampleBinary	{  uint16 MsgType

`" ++ [28040; 24687; 31867; 22411]%N ++ runes_of_ascii "`
,
    u16
	BodyLenght 
@lengthOf(Body) `" ++ [28040; 24687; 20307; 38271; 24230]%N ++ runes_of_ascii "` ,  match MsgType	as  Body	{	1
:

Logon  ,	2	:Logout, 3

:Heartbeat ,

4:
RiskControlRequest,	5 
:	RiskControlResponse
,}
, @calculatedFrom(
""CRC32"" )u32	Ckecksum
`" ++ [26657; 39564; 21644]%N ++ runes_of_ascii "` 
,	}
	packet
Logon {  @leftPad (
'0'
) char[ 10
	]

    UserName
	`" ++ [29992; 25143; 21517]%N ++ runes_of_ascii "`

    , string
	Password

    `" ++ [23494; 30721]%N ++ runes_of_ascii "`
,uint64
ClientId`" ++ [23458; 25143; 31471]%N ++ runes_of_ascii "ID` 
, u16
HeartbeatInterval `" ++ [24515; 36339; 38388; 38548]%N ++ runes_of_ascii "`
    ,
}packet
Logout
	{ @rightPad

    ('0')  char[

10 ] UserName  `" ++ [29992; 25143; 21517]%N ++ runes_of_ascii "` 
,
	uint64 ClientId
`" ++ [23458; 25143; 31471]%N ++ runes_of_ascii "ID` ,
}

    packet
Heartbeat
    { 
} packet

RiskControlRequest
{
	string

    UniqueOrderId
	`" ++ [21807; 19968; 35746; 21333; 21495]%N ++ runes_of_ascii "`
,	char[

    16

    ]
	ClOrdID
	`" ++ [23458; 25143; 35746; 21333; 21495]%N ++ runes_of_ascii "`
    ,

char[
    3 ]
MarketID  `" ++ [24066; 22330]%N ++ runes_of_ascii "id`,char[
	12 ]SecurityID 
`" ++ [35777; 21048; 20195; 30721]%N ++ runes_of_ascii "`,

    char
    Side	`" ++ [20080; 21334; 26041; 21521]%N ++ runes_of_ascii "`  , char

OrderType`" ++ [35746; 21333; 31867; 22411]%N ++ runes_of_ascii "`, u64
    Price`" ++ [20215; 26684]%N ++ runes_of_ascii "` 
, u32
    Qty
    `" ++ [25968; 37327]%N ++ runes_of_ascii "`,  repeat

    string
ExtraInfo 
`" ++ [38468; 21152; 20449; 24687]%N ++ runes_of_ascii "` 
,repeat 
SubOrder
    { char[16 
]
    ClOrdID	`" ++ [23376; 35746; 21333; 21495]%N ++ runes_of_ascii "`
,

    u64

Price  `" ++ [23376; 35746; 21333; 20215; 26684]%N ++ runes_of_ascii "` ,	u32 
Qty
`" ++ [23376; 35746; 21333; 25968; 37327]%N ++ runes_of_ascii "`
,
    }
,}

packet  RiskControlResponse  {	string

UniqueOrderId`" ++ [21807; 19968; 35746; 21333; 21495]%N ++ runes_of_ascii "` ,
i32
Status	`" ++ [29366; 24577]%N ++ runes_of_ascii "`
,string

    Msg

`" ++ [32467; 26524; 20449; 24687]%N ++ runes_of_ascii "`
	, repeat
	Detail , 
}packet
	Detail

    { string	RuleName `" ++ [35268; 21017; 21517; 31216]%N ++ runes_of_ascii "` 
,u16 Code
    `" ++ [21407; 22240; 20195; 30721]%N ++ runes_of_ascii "`,
}
")).
Eval vm_compute in ("<<<M3899>>>" ++ check (runes_of_ascii "

  packet 
trueish 
{
	@tag(65535

    )

    float @lengthOf(
As
	)	`" ++ [233]%N ++ runes_of_ascii "`

    , i32
	lengthOf
	,
repeat
    float64  stringy `" ++ [28040; 24687; 31867; 22411]%N ++ runes_of_ascii "`

, @lengthOf( A

)	//	t
	@calculatedFrom(  ""a\\"" 	 // 50% %s
) 	 // @lengthOf(
	@leftPad  (

'\x00' )

repeat u32
    crc 
,
    chars 
    /// triple
	, 
repeat
string
    lengthOf`two words`

, 
}	// @lengthOf(

	packet
metadata { @leftPad (

    '0'	)

    A 
{ 
      // `tick` ""quote"" 'q'
	asx	// trailing space 
{ metadata
	`crlf
line` ,	a1@lengthOf( 
zchar )	, 
      // " ++ [27880; 37322]%N ++ runes_of_ascii "
i32
    _x

    ,
	T 
{
    match
repeatCount as 
  /// triple
    	//	t
charz	{ // c

0123456789
:

metadata
	}
	,

    float64
    rootA `" ++ [28040; 24687; 31867; 22411]%N ++ runes_of_ascii "` , 
      /// triple
  	// " ++ [128512]%N ++ runes_of_ascii " emoji
  }

    , 
}	,roots

    @lengthOf(
falsey )

`doc`, 
	//x
  	// a // b
  	}

, 
int32

x  ,
float32
calculatedFrom ,  //
@lengthOf( charz)
@calculatedFrom(

    ""x y""  )

@lengthOf(
rootA )  char[ 
00

    ] f32a
    @calculatedFrom(  ""a\\""

)
	`crlf
line` , zchar[
	10  ]
metadata
    ,zchar[

007
    ] 
leftPad ,
    repeat	i8i8
	rootA 

// @lengthOf(
		//
  ,
uint64 calculatedFrom  // " ++ [128512]%N ++ runes_of_ascii " emoji

  @calculatedFrom( 
""x y"" )
    `tab	here`,}

")).
Eval vm_compute in ("<<<M367>>>" ++ check (runes_of_ascii "packet
    // " ++ [128512]%N ++ runes_of_ascii " emoji
    x { A Foo
`doc`  , zchar[ 0123456789
    ] Header `line1
line2` ,
    } packet  int { trueish @calculatedFrom(""x y""), }packet metadata {asx @lengthOf( Packet ) ,
    match a1//x
as x_y_z {255 : crc 00
:
x , [ 0123456789] : MetaDataX ,
255 :
    x ,
    },
f64 crc
`two words` ,
    @tag( 4294967296 ) Z9_	, Header
    `crlf
line`
    ,	charz Foo
    `" ++ [28040; 24687; 31867; 22411]%N ++ runes_of_ascii "` ,match	trueish as trueish{ 1:
chars ,7
    :
calculatedFrom	, ""a	b"" :u8x
// 50% %s
// 50% %s
, 65535 : msg_type	,  007 :
    Logon , }, // " ++ [27880; 37322]%N ++ runes_of_ascii "
o int , @calculatedFrom(""CRC32"" )string
    Logon //
@lengthOf(trueish) ,
    } MetaData
    asx{
} packet As{zchar{match len	as zchar { 00 : repeatCount ,
[""\n""] : rootA ,	[
""a\""b""	, 10 ] :x_y_z
//	t
// c
, } ,},@tag( 0123456789
    )
    @tag( 0 ) // " ++ [27880; 37322]%N ++ runes_of_ascii "
@leftPad //
( )repeat string	MetaDataX
    ,
    repeat
    // " ++ [128512]%N ++ runes_of_ascii " emoji
    zchar[
    10// @lengthOf(
]  tag //
, @calculatedFrom(  """ ++ [233]%N ++ runes_of_ascii "t" ++ [233]%N ++ runes_of_ascii """ )
int@lengthOf( x )
// trailing space 
// a // b
,
packetx As `100% of %d` , @lengthOf(packetx ) string
matchKey
, u8x i64_ `say ""hi""`
    , i8 repeatCount , x_y_z @lengthOf( u ) ,
    }")).
Eval vm_compute in ("<<<M848>>>" ++ check (runes_of_ascii "packet _x { @leftPad( )
    @tag(
// packet A { u8 x, }
// a // b
7 ) @lengthOf( calculatedFrom
    )
u32
    Packet
, @tag(1 )@rightPad ( '\x00')	repeat
u32 Header , repeat  u //
, @calculatedFrom(
    ""x y"") char[	42 // trailing space 
] uint8x @calculatedFrom( ""a\\"" ) // 50% %s
,
@calculatedFrom(
    ""abc""
    // 50% %s
    )@tag( 65535 ) repeat uint8 f32a`say ""hi""`, string zchar
    `u8 x,`
, char[ 3 ]
    // " ++ [128512]%N ++ runes_of_ascii " emoji
    pack`` , @lengthOf(packetx
) // `tick` ""quote"" 'q'
tag @lengthOf(repeatCount) `100% of %d` ,	match asx
as u128 {// c
0 : len  [ """ ++ [128512]%N ++ runes_of_ascii """ , 255 , ""x y"" , 0
    , ""x y"" ] :x ,""a	b""	: u128 3 : Packet
,[  ""a\\"" ,  007 ,
// a // b
// 50% %s
65535
,	7] // @lengthOf(
: zchar
    , },} options
{ packetx = ' '
; As
= 00 // packet A { u8 x, }
;
} options {	leftPad =
' '
    //	t
    ;
    // @lengthOf(
    } packet
float {@tag(4294967296 // trailing space 
)	char[ 1 ]
    A `two words`, @tag( // 50% %s
65535 )
@calculatedFrom(
""packet"" )@lengthOf(
Header ) Pad , Pad @lengthOf(
    // 50% %s
    falsey ) ,
} // c")).
Eval vm_compute in ("<<<M4069>>>" ++ check (runes_of_ascii "options {
    A = f64;
    Z9_ = '\x00'
    // packet A { u8 x, }
    //
    Packet = ""{,}"";
    Header = ' ';
    rootA = i32
}

packet Logon {
}

root packet x {
    @lengthOf(Packet)
    @rightPad('\x00')
    @leftPad(' ')
    // trailing space 
    repeat zchar[7] Pad `a\`,
    f32a charz,
    //	t
    zchar[65535] x @calculatedFrom(""\n""),// trailing space 
    zchar @lengthOf(x_y_z) ``,
}

packet x_y_z {
    int64 len ``,
    @calculatedFrom(""`tick`"")
    string lengthOf `crlf
        line`,
    @rightPad()
    match msg_type as BodyLength {
        [""// no comment""] : tag,
    },
    //	t
    //
    @tag(10)
    zchar[42] Z9_,
    zchar[65535] matchKey @calculatedFrom(""\" ++ [233]%N ++ runes_of_ascii """) `a\`,
    @lengthOf(tag)
    // " ++ [128512]%N ++ runes_of_ascii " emoji
    float `// not a comment`,
    @leftPad(' ')
    @tag(00)
    @tag(007)
    repeat char[] asx `line1
        line2`,
    @lengthOf(rootA)
    repeat repeatCount As,
}

packet zchar {
    @lengthOf(As)
    repeat i16 calculatedFrom,
    @tag(1)
    uint16 len,
}")).
Eval vm_compute in ("<<<M4046>>>" ++ check (runes_of_ascii "packet tag {
    // a // b
    // " ++ [27880; 37322]%N ++ runes_of_ascii "
    u64 body @calculatedFrom(""x y"") `crlf
    line`,
}

root packet As {
    @tag(4294967296)
    i8 int,
    f64 u128 @lengthOf(packetx),
    @calculatedFrom(""" ++ [233]%N ++ runes_of_ascii "t" ++ [233]%N ++ runes_of_ascii """)
    @tag(0)
    @lengthOf(falsey)
    lengthOf {
        uint32 f32a,
        repeat roots {
            char MetaDataX,
            i32 pack,
            string metadata,
        },
    },
    int8 T,
    /// triple
    // c
    @tag(007)
    @lengthOf(metadata)
    repeat uint8x {
        char[] As `" ++ [28040; 24687; 31867; 22411]%N ++ runes_of_ascii "`,
        match Logon as calculatedFrom {
            [4294967296] : metadata,
            ""1"" : len,
            0 : Logon,
            ""x y"" : stringy,
            ""it's"" : falsey,
            ""1"" : string_,
        },//
        Foo MetaDataX `crlf
        line`,
    },
    @rightPad()
    float32 tag @lengthOf(charz),
    char[255] x_y_z,
    @calculatedFrom(""it's"")
    // " ++ [27880; 37322]%N ++ runes_of_ascii "
    x_y_z,
}

options {
    msg_type = '0';
}")).
Eval vm_compute in ("<<<M3728>>>" ++ check (runes_of_ascii "root packet
A 
  // packet A { u8 x, }
	// `tick` ""quote"" 'q'
	  {
int64 
	    //	t
  Header
	@calculatedFrom(""packet"" ), f32 o 
`it's` ,@calculatedFrom(  // @lengthOf(
""""
	)
	zchar[
0123456789 
]
A	@calculatedFrom( ""\" ++ [233]%N ++ runes_of_ascii """
	) , @calculatedFrom(

    ""abc"" 
	// a // b
	  //	t
    	)repeat 
    // `tick` ""quote"" 'q'
char[]
	a1

,repeat
    int trueish

, @rightPad

( '\x00' )zchar[4294967296	] 
_x
, } root
    packet  Z9_  {

}
packet 
calculatedFrom
    { @lengthOf(

    int
)repeat
	chars // trailing space 
    body

    ,
options1  // " ++ [27880; 37322]%N ++ runes_of_ascii "
    	@lengthOf(
	int
    )
, @lengthOf(a1
    ) repeat
	char[ 
	//x
1 ]Pad
`" ++ [28040; 24687; 31867; 22411]%N ++ runes_of_ascii "` ,
    @calculatedFrom("""" )

    rootA

    u
        // " ++ [27880; 37322]%N ++ runes_of_ascii "
    	//
`doc`
    ,
    int8 matchKey@calculatedFrom(
	""CRC32""
)	, @lengthOf(
	packetx
) @lengthOf(

    msg_type ) 
u16 Foo  ,
packetx
crc
`u8 x,`	,
zchar[255 ]A
,

    } ")).
Eval vm_compute in ("<<<M4251>>>" ++ check (runes_of_ascii "

  root
packet 
uint8x
{ 	 // " ++ [27880; 37322]%N ++ runes_of_ascii "
  MetaDataX // " ++ [27880; 37322]%N ++ runes_of_ascii "
	`doc`,
char A`line1
line2`
,

    match 
BodyLength as	roots	{
	[
""// no comment""
,  4294967296 , """ ++ [128512]%N ++ runes_of_ascii """
	]  :
    falsey,	// @lengthOf(
""" ++ [233]%N ++ runes_of_ascii "t" ++ [233]%N ++ runes_of_ascii """
: o

[
7 
] 
:
	o	,  65535:

int

    ,
	3	:
int
	,
65535 
:
Foo
	,	// packet A { u8 x, }
	},
@lengthOf(
	MetaDataX
    // c
  // @lengthOf(
	)

repeat Packet	chars,
@calculatedFrom(
	""abc""  ) 
@lengthOf(uint8x) @leftPad (
)  
  // " ++ [27880; 37322]%N ++ runes_of_ascii "
    	i8 x	, repeat As  {_x  @calculatedFrom( 
// @lengthOf(
""x y"")	`100% of %d`

, i16

    options1

@lengthOf(
	o  ) 
,repeat
string

    i8i8

    ,
    char[
255

    ]
	packetx

`a\`  , } 
,
@leftPad

    ( 	 // 50% %s
    '\x00')u32 u128 @lengthOf(

msg_type )
	`// not a comment` ,
zchar

@lengthOf(

crc )	, char[ 0

    ]
a1, 
@leftPad	(

    ' '

)
char[

4294967296  ] int , }")).
Eval vm_compute in ("<<<M783>>>" ++ check (runes_of_ascii "packet  BodyLength{ Pad	{Foo i64_ `say ""hi""`
, Header {// a // b
zchar[
10
    ] o ,} ,
repeat zchar[ 007 ]crc // trailing space 
, u16 i64_ //x
@calculatedFrom( ""1"" )/// triple
`a\` ,
} , } packet	uint8x{
@calculatedFrom( // packet A { u8 x, }
""a	b"") char[0123456789] x, i16
    repeatCount @calculatedFrom( // " ++ [27880; 37322]%N ++ runes_of_ascii "
""x y""
    ), repeat u32 roots	,@lengthOf( string_ )
    @lengthOf(	len
) @rightPad ( '\x00'
    ) repeat x_y_z{ repeat BodyLength , repeatCount
@lengthOf(
    charz // @lengthOf(
) `line1
line2`
,} ,
string u128 @calculatedFrom(
""// no comment"" ) `doc`
, char[]rootA `// not a comment` ,  }	packet T
{rootA
@lengthOf( tag ) `{ , }`, repeatCount x_y_z
`it's` ,
@tag(10 ) o options1,// " ++ [27880; 37322]%N ++ runes_of_ascii "
match zchar as Pad
{ """ ++ [233]%N ++ runes_of_ascii "t" ++ [233]%N ++ runes_of_ascii """ : trueish , 1 :	x_y_z ""packet"" : float 255 //x
:
    tag }
,}")).
Eval vm_compute in ("<<<M173>>>" ++ check (runes_of_ascii "
packet int{ @tag(	4294967296 )string// trailing space 
int , match string_
//
// 50% %s
as
matchKey
{ ""it's"":
    uint8x 10 : u128	,
    // 50% %s
    007: lengthOf	, }  ,
    // packet A { u8 x, }
    @calculatedFrom( ""{,}"" )
int64 stringy
@calculatedFrom( ""CRC32""
)
    , f64
    f32a ,  u @lengthOf( lengthOf )
`u8 x,`	, // " ++ [128512]%N ++ runes_of_ascii " emoji
match
Packet
    as	rootA
// @lengthOf(
// " ++ [128512]%N ++ runes_of_ascii " emoji
{ 42 :
stringy
    // c
    , } , trueish , @calculatedFrom( ""x y"" )@tag(
    42
) char[
    255 ]x@lengthOf(int ) , }
    packet T {  match
    float	as
o { ""a\""b""
:T
,
// trailing space 
// trailing space 
65535 : roots ,  }
    , }packet pack { // trailing space 
@leftPad(
'\x00'
) // 50% %s
@calculatedFrom(//
""" ++ [233]%N ++ runes_of_ascii "t" ++ [233]%N ++ runes_of_ascii """ )  string As // a // b
@calculatedFrom(""CRC32"" ) , }
")).
Eval vm_compute in ("<<<M512>>>" ++ check (runes_of_ascii "options
{
matchKey =
    ' '; } root packet options1 {  @tag(
    1 // trailing space 
) char[]
repeatCount // a // b
`tab	here` ,
@lengthOf( rootA )
zchar[ 42 //	t
]// c
o,
match Header as
i64_
{[ ""x y"" , ""1"", 3
] : int,""" ++ [128512]%N ++ runes_of_ascii """
: options1, [
    ""abc"" ] // a // b
: body , 65535 : roots
//	t
// a // b
, // " ++ [128512]%N ++ runes_of_ascii " emoji
} , msg_type /// triple
charz ,string f32a
`// not a comment`  ,repeat
int ,
char[
0 ] _x`two words` ,  i16 metadata// packet A { u8 x, }
@lengthOf(  metadata ) `two words`
    ,
    }
MetaData uint8x { len stringy `{ , }`
, } options { u128
=
/// triple
// a // b
00;// `tick` ""quote"" 'q'
Pad =
char[ 7 ] ; calculatedFrom
=
    """ ++ [28040; 24687]%N ++ runes_of_ascii """crc=
    char[]	; Z9_ =	'0';
} packet rootA{
    // a // b
    repeat
    x_y_z
    , }
")).
Eval vm_compute in ("<<<M4332>>>" ++ check (runes_of_ascii "options {
    LittleEndian = false;
    StringPrefixLenType = u32;
    ArrayPrefixLenType = u32;
    FixedStringPadChar = ' ';
}

packet Order {
    InX16 {
        i64 Tail,
        char[4] price,
        repeat char[4] Qty,
    },
    InSym89 {
        int8 x,
        char[8] clOrdID,
        i32 tag7,
        char[7] venue,
        int64 Ref,
    },
    zchar[7] Flags,
}

packet Logon {
    zchar[3] sym,
}

packet Leg {
    InCount34 {
        char[10] OrderId,
    },
}

packet Party {
}

root packet Ack {
    repeat Leg,
    char[8] Flags,
    u8 seqNo,
    u16 Qty @lengthOf(Body),
    match seqNo as Body {
        21 : Order,
        56 : Logon,
        138 : Leg,
        73 : Party,
    },
}")).
Eval vm_compute in ("<<<M3961>>>" ++ check (runes_of_ascii "packet uint8x {
    char[] crc `" ++ [233]%N ++ runes_of_ascii "`,
    u8 BodyLength `crlf
    line`,
    @tag(65535)
    @calculatedFrom(""packet"")
    uint8x {
        lengthOf {
            match u8x as msg_type {
                ""{,}"" : metadata,
                4294967296 : float,
                10 : a1,
                65535 : len,
                """ ++ [128512]%N ++ runes_of_ascii """ : zchar,
                [""" ++ [128512]%N ++ runes_of_ascii """] : Pad,
            },
            zchar[42] leftPad,
            f64 crc,
            u64 A @calculatedFrom(""CRC32""),
        },
    },
    @lengthOf(crc)
    repeat u128 Pad,
    stringy trueish `say ""hi""`,
    As matchKey,
    @tag(10)
    charz @calculatedFrom(""it's""),// " ++ [128512]%N ++ runes_of_ascii " emoji
    @rightPad(' ')
    a1 float,
}")).
Eval vm_compute in ("<<<M986>>>" ++ check (runes_of_ascii "packet options1
    { Z9_ `
`
    // " ++ [27880; 37322]%N ++ runes_of_ascii "
    , @calculatedFrom( """" )float64 // a // b
_x,string len @calculatedFrom(
    // trailing space 
    ""`tick`""
)
    `// not a comment` ,
    match body as
charz
{
    ""a\""b"" :	f32a
    , [  ""\n""] : roots , 3 :
u128,
[	4294967296]
: i8i8 }
    ,
@lengthOf( chars
    ) char[
65535] len@calculatedFrom(
""// no comment""	) ,} options {
trueish = true
; Packet= 4294967296 o= char[] }
MetaData
metadata { trueish float
`a\` , tag float	, // packet A { u8 x, }
} root packet _x	{zchar[ 0123456789 ]
// `tick` ""quote"" 'q'
// " ++ [128512]%N ++ runes_of_ascii " emoji
BodyLength @calculatedFrom(
""a\""b"" )
, }options {
matchKey = // c
' '	} // 50% %s")).
Eval vm_compute in ("<<<M318>>>" ++ check (runes_of_ascii "packet Pad {@lengthOf(
int  ) // c
charz@calculatedFrom(
    // " ++ [27880; 37322]%N ++ runes_of_ascii "
    """" ) ,
    }// " ++ [27880; 37322]%N ++ runes_of_ascii "
packet
    pack { // 50% %s
u8
    pack
    , @tag( 0
    ) @tag( 00  ) string rootA @calculatedFrom( ""CRC32"" ) , // " ++ [27880; 37322]%N ++ runes_of_ascii "
@tag(  65535
) stringy @calculatedFrom( ""a	b"" // a // b
) , match  o as f32a { [0123456789 ]:Header 7
:
Pad
,	[ ""a\\"", ""1"" , 65535
    ,// trailing space 
""\n"" , ""\n"" ,
3 ,""CRC32"" ,	00 ] :
    packetx,	[
""`tick`"" , ""packet"" ,  ""x y""
, 7 , 00 , //	t
""x y"" , 10 ]:
// packet A { u8 x, }
// trailing space 
matchKey ,
""{,}"" : // @lengthOf(
body
    ""a\""b"" : tag
} ,
// trailing space 
// trailing space 
} /// triple")).
Eval vm_compute in ("<<<M3966>>>" ++ check (runes_of_ascii "packet
    i8i8{ match Pad
as
	u8x
{
	""CRC32""
// @lengthOf(
	: metadata

, 
[ 7 ,65535 // c

] 
: matchKey/// triple
      ,
}
    ,
metadata@calculatedFrom(
//	t
""// no comment"" 	 // a // b

) 
,
	uint32

f32a

`
`	// 50% %s
  ,
@tag(
255

) @tag(

1 )

@leftPad ( 	 //
	' ' )

    int32
Foo
`100% of %d`

,	string
falsey
    @lengthOf(i64_  ) 
,

@calculatedFrom(
""\n"" )i8i8	`{ , }`,

    lengthOf
    u8x,
@lengthOf(  
  // @lengthOf(
    uint8x)
	MetaDataX	// " ++ [128512]%N ++ runes_of_ascii " emoji
	{

repeat A i64_
`" ++ [233]%N ++ runes_of_ascii "`
	,
}
,
a1

`u8 x,`
,
    Z9_

    @calculatedFrom( 
	// c
	/// triple
    ""\" ++ [233]%N ++ runes_of_ascii """

)// a // b

,
}")).
Eval vm_compute in ("<<<M3545>>>" ++ check (runes_of_ascii "
root

    packet

    string_

    {	@lengthOf(
	roots )

char[007
]	zchar	``,} packet Logon {
int64 Z9_	@calculatedFrom(
""a\\"" 
) ,}  MetaData  options1  {
	zchar[ 65535

]
	i64_

    ,
	msg_type

packetx`crlf
line`
    ,
    char[
0123456789
	]
	Packet	,
    options1  // packet A { u8 x, }
	As

    ,

f32	pack
    ,

    }  options

    { // " ++ [27880; 37322]%N ++ runes_of_ascii "
		}	root 
packet 
uint8x{	// trailing space 

	lengthOf	{
f64

    trueish `" ++ [233]%N ++ runes_of_ascii "`  , },

    @rightPad

('0' )	match 
A
    as options1 
      //
    	//	t
	  { 
""CRC32""	:// " ++ [27880; 37322]%N ++ runes_of_ascii "
	  MetaDataX ,

    }  ,

    }
")).
Eval vm_compute in ("<<<M648>>>" ++ check (runes_of_ascii "packet u { @lengthOf( metadata )
    repeat Foo{
    match
    //	t
    Logon
    as
    string_// c
{
    [ """ ++ [28040; 24687]%N ++ runes_of_ascii """	,
""x y""
    ,""a	b"" ] :Foo
,""\n""
    :
    pack
, 00:metadata , [ ""a	b"" , 42	,  ""a\\""	, ""a\\""
    , ""x y"" , ""packet""
//
/// triple
]:
//	t
//x
MetaDataX
, },i32 u8x
    , BodyLength ,// packet A { u8 x, }
MetaDataX,  }
, repeat body trueish,tag {
    repeat	u64 u128`{ , }` , zchar[0
] int@lengthOf( rootA
    ) , }
// trailing space 
// trailing space 
,// `tick` ""quote"" 'q'
@rightPad (
) @tag( 42
    )@calculatedFrom(""a\""b""
)repeat Z9_  Z9_ ,	}
")).
Eval vm_compute in ("<<<M91>>>" ++ check (runes_of_ascii "MetaData rootA
    {}
options{ rootA= '\x00' zchar
    ='0' rootA= float64 ;  trueish	= 3 i64_
= float64 ; } options{
    body
= '0'
    ;T= ""CRC32"";matchKey = char[] ; }	packet
rootA {
    // " ++ [128512]%N ++ runes_of_ascii " emoji
    @lengthOf( //
Z9_)
    @rightPad('0' ) Packet calculatedFrom , }packet
body
    { match metadata
as asx {
    3 : Header 3: packetx	, [  10]
:	Packet, """"
// 50% %s
// " ++ [27880; 37322]%N ++ runes_of_ascii "
:
pack
//x
// packet A { u8 x, }
, 10  : // `tick` ""quote"" 'q'
pack // `tick` ""quote"" 'q'
[
    255 , // a // b
"""",00 ,
""it's"" ] :
x }
// c
/// triple
,
    }
")).
Eval vm_compute in ("<<<M288>>>" ++ check (runes_of_ascii "MetaData asx
{  char[ 00
]u8x , trueish tag `it's`,
} root packet i64_ {  repeat	repeatCount// trailing space 
msg_type , char[
7 ] asx
//x
/// triple
, } options { BodyLength = true
; } packet x {
    @tag( 1
    ) @rightPad( '\x00'
)// trailing space 
@lengthOf(f32a )int16
pack `
` ,repeat char[] options1
,// c
string options1	@lengthOf(	calculatedFrom) `" ++ [233]%N ++ runes_of_ascii "`
,// @lengthOf(
@tag(	1 )Packet // packet A { u8 x, }
string_
, As {
matchKey
chars , } , repeat string
crc `// not a comment`	, repeat T  ,}
//x
")).
Eval vm_compute in ("<<<M3533>>>" ++ check (runes_of_ascii "
packet
	metadata
	{ }
MetaData
trueish 
    // 50% %s
  	//
    {

metadata

Logon`a\`, 
} packet 
rootA

{@tag(

255)  len
@calculatedFrom(  /// triple
""a	b""
)
, repeat f32a, repeat
body
	// " ++ [128512]%N ++ runes_of_ascii " emoji
	// `tick` ""quote"" 'q'
	{ char[] repeatCount ,

    }

    ,
    string
u
	@lengthOf( _x ) , @tag(
255 
)Packet 
@lengthOf(	// c
	packetx ) ,
	metadata
@lengthOf(
    float
), MetaDataX

@calculatedFrom(

""" ++ [233]%N ++ runes_of_ascii "t" ++ [233]%N ++ runes_of_ascii """ ), repeat zchar[
	0
] u8x

, repeat float64 calculatedFrom 
, }
")).
Eval vm_compute in ("<<<M4088>>>" ++ check (runes_of_ascii "packet i8i8 {
    match Pad as u8x {
        ""CRC32"" : metadata,
        [7, 65535] : matchKey,
    },
    metadata @calculatedFrom(""// no comment""),
    uint32 f32a `
    `,
    @tag(255)
    @tag(1)
    @leftPad(' ')
    int32 Foo `100% of %d`,
    string falsey @lengthOf(i64_),
    @calculatedFrom(""\n"")
    i8i8 `{ , }`,
    lengthOf u8x,
    @lengthOf(uint8x)
    MetaDataX {
        repeat A i64_ `" ++ [233]%N ++ runes_of_ascii "`,
    },
    a1 `u8 x,`,
    Z9_ @calculatedFrom(""\" ++ [233]%N ++ runes_of_ascii """),
}")).
Eval vm_compute in ("<<<M1088>>>" ++ check (runes_of_ascii "packet // 50% %s
matchKey {	}
packet int { match
body
as
Header {
"""" :
Header [ 0
    // " ++ [27880; 37322]%N ++ runes_of_ascii "
    , ""`tick`"", ""a\""b"" ]:asx , } , repeat
// `tick` ""quote"" 'q'
// " ++ [128512]%N ++ runes_of_ascii " emoji
uint8 leftPad
    //	t
    , string uint8x	, f64
    u@lengthOf( matchKey )
    `u8 x,` /// triple
, } root
packet  x { @lengthOf(	crc )
@rightPad () zchar `u8 x,`, @calculatedFrom(
""" ++ [233]%N ++ runes_of_ascii "t" ++ [233]%N ++ runes_of_ascii """ ) int16	i8i8 @lengthOf( u
    ) `tab	here`,
    char[
    7
    ] // c
o
`" ++ [28040; 24687; 31867; 22411]%N ++ runes_of_ascii "` , }
")).
Eval vm_compute in ("<<<M4239>>>" ++ check (runes_of_ascii "//	t
packet int {
    chars falsey `u8 x,`,
    char[3] asx @lengthOf(string_) `say ""hi""`,
    @calculatedFrom(""" ++ [128512]%N ++ runes_of_ascii """)
    u64 x_y_z `line1
    line2`,
}

packet leftPad {
    @calculatedFrom(""it's"")
    uint8 chars `two words`,
    @calculatedFrom(""CRC32"")
    @lengthOf(o)
    repeat char[4294967296] x,
    @calculatedFrom(""CRC32"")
    float64 Packet `it's`,
    @tag(65535)
    char[] f32a @calculatedFrom(""x y"") `doc`,// c
}")).
Eval vm_compute in ("<<<M102>>>" ++ check (runes_of_ascii "packet body
    { zchar[ 4294967296 ] uint8x
@lengthOf(
leftPad )
,
@tag( 1	) // " ++ [128512]%N ++ runes_of_ascii " emoji
@tag( 3 ) match i8i8	as string_ { [
""a	b"" ,""1"", 4294967296
    ,	007 , ""a\\""	, 3	]
:
string_ , } , @lengthOf(
    //	t
    Foo)match a1 as
    Pad { 00 :trueish
, [
65535 ,
    0  , ""1"" , ""it's"" ] : uint8x
    ""CRC32"": A ,  } , u16 matchKey ,o@calculatedFrom(  """ ++ [28040; 24687]%N ++ runes_of_ascii """	), a1 { repeat // packet A { u8 x, }
i64_ ,} ,}
")).
Eval vm_compute in ("<<<M4191>>>" ++ check (runes_of_ascii "options
	{leftPad = '\x00'

}

options
	{  }
packet i64_ {	char[
	255
]
matchKey
@lengthOf( trueish

    )

    `tab	here`

    ,Pad
	`line1
line2`
,
    repeat

    string_
, trueish

    @calculatedFrom(
	""1""	//
    )

    ``	,
    @leftPad 
(

'\x00'

    )	zchar[
	0	] string_
`two words` 

// packet A { u8 x, }
    	,
@tag(

3

    )	// packet A { u8 x, }
x
    , }

")).
Eval vm_compute in ("<<<M180>>>" ++ check (runes_of_ascii "root //x
packet
    charz //	t
{ repeat
zchar[ 65535
]
Packet ,} MetaData
u128
{string uint8x//
, rootA
_x , char[007
    ] uint8x ,
As A
,Header u`line1
line2` , rootA chars `100% of %d` ,}MetaData trueish{ uint8 Logon ,
    // c
    uint8 // `tick` ""quote"" 'q'
float
,//
u/// triple
As
,/// triple
falsey packetx
//	t
// " ++ [128512]%N ++ runes_of_ascii " emoji
, i8i8
    rootA,
    i16 roots `
` ,}")).
Eval vm_compute in ("<<<M144>>>" ++ check (runes_of_ascii "
root packet matchKey {  repeat x{ trueish calculatedFrom, match leftPad
as _x
{ 1
:i64_
,  """ ++ [28040; 24687]%N ++ runes_of_ascii """
    :	options1
    // c
    }  ,repeat char[]  uint8x ,A{repeat metadata
roots `a\` , //
char[10 ] x_y_z@calculatedFrom( ""\" ++ [233]%N ++ runes_of_ascii """ ) `tab	here` ,leftPad, float32 f32a @calculatedFrom(
""" ++ [233]%N ++ runes_of_ascii "t" ++ [233]%N ++ runes_of_ascii """ ) `{ , }`
,
} // `tick` ""quote"" 'q'
, }
    ,
// trailing space 
// c
}
")).
Eval vm_compute in ("<<<M143>>>" ++ check (runes_of_ascii "MetaData
Logon {string //x
a1`{ , }`
    , string
a1,Logon charz,zchar[ 42 ]Z9_ ,
// packet A { u8 x, }
//
} options { packetx =
    00; tag = zchar[
    0123456789]
    i64_	=
    ""\" ++ [233]%N ++ runes_of_ascii """ As
    =""CRC32"" ;body
=
255 ;}// 50% %s
MetaData Packet { u64
    // 50% %s
    x
, zchar[ 7 ] matchKey
`" ++ [28040; 24687; 31867; 22411]%N ++ runes_of_ascii "` ,
    string_
    As ,	} // @lengthOf(")).
Eval vm_compute in ("<<<M3849>>>" ++ check (runes_of_ascii "options 
{

    calculatedFrom  =

""\n""
    ;}

root
packet  lengthOf
    { 	 /// triple
	@calculatedFrom(

    ""\" ++ [233]%N ++ runes_of_ascii """	)
	repeatCount
	@calculatedFrom(	""\" ++ [233]%N ++ runes_of_ascii """)  `
`
,Logon
    , 
u @calculatedFrom(
	""it's""
), metadata
	rootA	//	t
	,

char[  // 50% %s
  	42
	]

u
@calculatedFrom(""a	b"")
, }
    packet 
Header

    {

}")).
Eval vm_compute in ("<<<M4167>>>" ++ check (runes_of_ascii "
root
	packet
    BodyLength	{
@tag(	65535 )
zchar[
7 ]
	msg_type

,
MetaDataX

    @calculatedFrom(""// no comment""	) ,

// packet A { u8 x, }
	// c
  }

    root
packet stringy

{ 
@tag( 
00	)	repeat

    pack 
leftPad  // packet A { u8 x, }
    `tab	here` , 
repeat

body

,

}	MetaData
a1  {

    } ")).
Eval vm_compute in ("<<<M732>>>" ++ check (runes_of_ascii "packet x_y_z
    { @leftPad ( ' ') match packetx
as _x  { ""\n"" :zchar
, 3 // @lengthOf(
: options1 // c
,	7
    :
roots
    // a // b
    ,
""a	b""
    :	pack, ""\" ++ [233]%N ++ runes_of_ascii """
: // a // b
BodyLength , } , char[ 255]
body
,  @tag( 007)  Packet A ,
@calculatedFrom( """ ++ [28040; 24687]%N ++ runes_of_ascii """) zchar[
// " ++ [27880; 37322]%N ++ runes_of_ascii "
//
255
    ] x_y_z	, }
")).
Eval vm_compute in ("<<<M863>>>" ++ check (runes_of_ascii "packet As // `tick` ""quote"" 'q'
{ lengthOf{
crc{i16 stringy @calculatedFrom(""packet""
) , Z9_	{MetaDataX @calculatedFrom( ""a\\"" ) , }
,
repeat char[3]	Packet , /// triple
}
,
} ,	@tag(
// `tick` ""quote"" 'q'
//x
1
)	repeat Z9_
// " ++ [128512]%N ++ runes_of_ascii " emoji
// packet A { u8 x, }
, char[] // c
falsey ,}
")).
Eval vm_compute in ("<<<M542>>>" ++ check (runes_of_ascii "root	packet chars { @leftPad('0' ) f32
options1 @lengthOf(
x )
    `it's`  , } packet i8i8{// trailing space 
uint8 //x
body
,zchar[ 65535 ] pack	@lengthOf( leftPad
) , @lengthOf( lengthOf
    ) u8 i8i8 @lengthOf(
f32a ),	}
    packet u8x
    // packet A { u8 x, }
    { }")).
Eval vm_compute in ("<<<M3597>>>" ++ check (runes_of_ascii "packet A {
    @rightPad(' ')
    uint32 o @calculatedFrom(""""),
}// a // b

packet matchKey {
    repeat chars,
    string chars `crlf
        line`,
    string x_y_z,
    A roots,
    @lengthOf(body)
    repeat zchar[10] x,
}

options {
    pack = ""abc""
}// @lengthOf(")).
Eval vm_compute in ("<<<M1706>>>" ++ check (runes_of_ascii "// 50% %s
packet	a1
    { zchar[
// a // b
// 50% %s
007]
T `it's`
    ,@rightPad
    // a // b
    (
'\x00')
    o repeatCount , }  packet '1'Logon {  }packet	Logon //x
{ repeat // " ++ [128512]%N ++ runes_of_ascii " emoji
uint16 u128
    //
    `a\`,
falsey
@calculatedFrom(""packet"" ) ,
    } 	 ")).
Eval vm_compute in ("<<<M1654>>>" ++ check (runes_of_ascii "// 50% %s
packet	a1
    { zchar[
// a // b
// 50% %s
007]
T `it's`
    ,@rightPad
    // a // b
    (
'\x00')
    o repeatCount , }  packet Logon {  }packet	Logon //x
{ repeat // " ++ [128512]%N ++ runes_of_ascii " emoji
uint16 u128
    //
    ""a\\"",
falsey
@calculatedFrom(""packet"" ) ,
    } 	 ")).
Eval vm_compute in ("<<<M1623>>>" ++ check (runes_of_ascii "// 50% %s
packet	a1
    { zchar[
// a // b
// 50% %s
007]
T `it's`
    ,@rightPad
    // a // b
    (
'\x00')
    o repeatCount , }  packet Logon {  }Logon	packet //x
{ repeat // " ++ [128512]%N ++ runes_of_ascii " emoji
uint16 u128
    //
    `a\`,
falsey
@calculatedFrom(""packet"" ) ,
    } 	 ")).
Eval vm_compute in ("<<<M1681>>>" ++ check (runes_of_ascii "// 50% %s
packet	a1
    { zchar[
// a // b
// 50% %s
007]
T `it's`
    ,@rightPad
    // a // b
    (
'\x00')
    o repeatCount , }  packet Logon {  }packet	Logon //x
{ repeat // " ++ [128512]%N ++ runes_of_ascii " emoji
uint16 u128
    //
    `a\`,
falsey
@calculatedFrom(""packet"" ) 
    } 	 ")).
Eval vm_compute in ("<<<M666>>>" ++ check (runes_of_ascii "MetaData
Header {// trailing space 
i64 pack,}
root packet
charz
{
repeat string BodyLength /// triple
`// not a comment`,// " ++ [128512]%N ++ runes_of_ascii " emoji
@calculatedFrom( // trailing space 
""{,}"" )zchar[ 1] i8i8@lengthOf( // 50% %s
uint8x
) ,zchar[	00] a1,
uint64
    u , } 	 ")).
Eval vm_compute in ("<<<M707>>>" ++ check (runes_of_ascii "packet u { i16 options1
// @lengthOf(
// a // b
`u8 x,`
,
    }	MetaData
pack	{// a // b
string // packet A { u8 x, }
int ,int8
    calculatedFrom
    , x_y_z zchar // packet A { u8 x, }
, string
    /// triple
    uint8x `` ,	lengthOf  a1`" ++ [28040; 24687; 31867; 22411]%N ++ runes_of_ascii "` ,
}")).
Eval vm_compute in ("<<<M1154>>>" ++ check (runes_of_ascii "MetaData
    Z9_ { u8x A , } MetaData As
{ string zchar ,
    trueish
Pad  ,
    uint16 o ,rootA
// trailing space 
// c
falsey
    ,
    tag rootA,  } packet As{
@lengthOf( string_)u8x
    roots
    `100% of %d`// `tick` ""quote"" 'q'
,
    }
")).
Eval vm_compute in ("<<<M639>>>" ++ check (runes_of_ascii "
packet uint8x{ char[] a1@calculatedFrom(
    """ ++ [28040; 24687]%N ++ runes_of_ascii """ )
`tab	here` ,  } options {
roots = ""a\""b""	BodyLength
    = char[ 4294967296 ] i64_
    =char[]; roots =
false charz=
// @lengthOf(
// packet A { u8 x, }
""it's""// " ++ [27880; 37322]%N ++ runes_of_ascii "
; }
// " ++ [128512]%N ++ runes_of_ascii " emoji
")).
Eval vm_compute in ("<<<M4132>>>" ++ check (runes_of_ascii "
/// triple
	options
	{ 
Logon	=""a	b""; }
	options

    { falsey=""" ++ [233]%N ++ runes_of_ascii "t" ++ [233]%N ++ runes_of_ascii """ ;u128 =' '  _x =//	t
""" ++ [128512]%N ++ runes_of_ascii """
	;  Foo
=
        // @lengthOf(

	00	pack=
' '	;
    }
    packet  i64_  {

} 
packet
    As  {char 
o
@lengthOf(
u  )
	,}
")).
Eval vm_compute in ("<<<M309>>>" ++ check (runes_of_ascii "// 50% %s
packet Logon { match charz as	uint8x
    {7 :
a1 ,"""" : Header , // " ++ [27880; 37322]%N ++ runes_of_ascii "
""packet""
    : rootA  ,
    }, } packet o{ }options
{// " ++ [128512]%N ++ runes_of_ascii " emoji
} options  {Z9_
=
true
    float=
    char[]
    As=1
;// a // b
}
")).
Eval vm_compute in ("<<<M3240>>>" ++ check (runes_of_ascii "// top
MetaData // c0
Foo // c1
{ // c2
zchar[ // c3
0 // c4
] // c5
matchKey // c6
, // c7
} // c8
options // c9
{ // c10
lengthOf // c11
= // c12
i32 // c13
u // c14
= // c15
00 // c16
; // c17
} // c18
")).
Eval vm_compute in ("<<<M3589>>>" ++ check (runes_of_ascii "packet zchar {
    stringy a1 `
        `,
    int16 falsey @lengthOf(MetaDataX) `say ""hi""`,
    @lengthOf(zchar)
    zchar[65535] _x `u8 x,`,
    i64 Foo,
}

packet uint8x {
}

MetaData u8x {
}")).
Eval vm_compute in ("<<<M356>>>" ++ check (runes_of_ascii "packet
// " ++ [128512]%N ++ runes_of_ascii " emoji
//x
leftPad {	} MetaData trueish  { i64_ roots// @lengthOf(
,} root packet i8i8 { @leftPad ('0'
) _x _x // " ++ [128512]%N ++ runes_of_ascii " emoji
`` , // packet A { u8 x, }
} // packet A { u8 x, }")).
Eval vm_compute in ("<<<M1038>>>" ++ check (runes_of_ascii "
MetaData
    _x  {
    char[ 10 // c
] A, string
    u128 ,  char[ 42 ] int, zchar[
    65535 // 50% %s
] MetaDataX ,
char[
    42
] u
    `line1
line2` , }
// @lengthOf(
")).
Eval vm_compute in ("<<<M4252>>>" ++ check (runes_of_ascii "options { metadata

    =	'0' 
} 
options {
u =1 ;	msg_type	=  string
; As= 
""{,}""
; 
i8i8=
    string
    ;

    crc// `tick` ""quote"" 'q'
    =char[
4294967296 ]} ")).
Eval vm_compute in ("<<<M1117>>>" ++ check (runes_of_ascii "packet Packet
    {u32
    a1 , @rightPad
()
    repeat i32 repeatCount , repeat i32 tag// packet A { u8 x, }
, @lengthOf( Pad )  repeat // " ++ [128512]%N ++ runes_of_ascii " emoji
matchKey , }")).
Eval vm_compute in ("<<<M3725>>>" ++ check (runes_of_ascii "packet A {
    match k as n {
        ""%d%s"" : B,
        [""%d%s"", 1] : C,
        [
            1, 2, 3, 4, 5,
            ""%d%s""
        ] : D,
    },
}")).
Eval vm_compute in ("<<<M1620>>>" ++ check (runes_of_ascii "// 50% %s
packet	a1
    { zchar[
// a // b
// 50% %s
007]
T `it's`
    ,@rightPad
    // a // b
    (
'\x00')
    o repeatCount , }  packet Logon {")).
Eval vm_compute in ("<<<M2056>>>" ++ check (runes_of_ascii "MetaData BodyLength
{ { int8 Foo
, string
    MetaDataX , float zchar ,pack options1
,asx string_, }
packet u8x {Foo@lengthOf(charz )
`" ++ [28040; 24687; 31867; 22411]%N ++ runes_of_ascii "`,  }
")).
Eval vm_compute in ("<<<M2147>>>" ++ check (runes_of_ascii "MetaData BodyLength
{ int8 Foo
, string
    MetaDataX , float zchar ,pack options1
,asx string_, }
packet { u8x Foo@lengthOf(charz )
`" ++ [28040; 24687; 31867; 22411]%N ++ runes_of_ascii "`,  }
")).
Eval vm_compute in ("<<<M2103>>>" ++ check (runes_of_ascii "MetaData BodyLength
{ int8 Foo
, string
    MetaDataX , float zchar ;pack options1
,asx string_, }
packet u8x {Foo@lengthOf(charz )
`" ++ [28040; 24687; 31867; 22411]%N ++ runes_of_ascii "`,  }
")).
Eval vm_compute in ("<<<M2115>>>" ++ check (runes_of_ascii "MetaData BodyLength
{ int8 Foo
, string
    MetaDataX , float zchar ,pack options1
asx string_, }
packet u8x {Foo@lengthOf(charz )
`" ++ [28040; 24687; 31867; 22411]%N ++ runes_of_ascii "`,  }
")).
Eval vm_compute in ("<<<M854>>>" ++ check (runes_of_ascii "  MetaData
    //	t
    u8x
    //	t
    {u8x packetx `say ""hi""`, // trailing space 
char[]
options1
`100% of %d`, char[ 00 ]	i64_ `" ++ [28040; 24687; 31867; 22411]%N ++ runes_of_ascii "` ,}")).
Eval vm_compute in ("<<<M2264>>>" ++ check (runes_of_ascii "options
    {
x_y_z// " ++ [27880; 37322]%N ++ runes_of_ascii "
= 10 ; }
packet body {
    @calculatedFrom(
// trailing space 
// " ++ [27880; 37322]%N ++ runes_of_ascii "
""1"" ""1""
)	match T as Foo
    {
255 :T , }
,}")).
Eval vm_compute in ("<<<M1937>>>" ++ check (runes_of_ascii "
packet leftPad { {
@leftPad( '0')
u32
i64_ `100% of %d` ,repeat// 50% %s
i8 chars
    ,
} MetaData
    f32a
{ // packet A { u8 x, }
}")).
Eval vm_compute in ("<<<M2324>>>" ++ check (runes_of_ascii "options
    {
x_y_z// " ++ [27880; 37322]%N ++ runes_of_ascii "
= 10 ; }
packet body {
    @calculatedFrom(
// trailing space 
// " ++ [27880; 37322]%N ++ runes_of_ascii "
""1""
)	match T as Foo
    {
255 :T , }
, ,}")).
Eval vm_compute in ("<<<M1929>>>" ++ check (runes_of_ascii "
leftPad packet {
@leftPad( '0')
u32
i64_ `100% of %d` ,repeat// 50% %s
i8 chars
    ,
} MetaData
    f32a
{ // packet A { u8 x, }
}")).
Eval vm_compute in ("<<<M2230>>>" ++ check (runes_of_ascii "options
    {
x_y_z// " ++ [27880; 37322]%N ++ runes_of_ascii "
= ; 10 }
packet body {
    @calculatedFrom(
// trailing space 
// " ++ [27880; 37322]%N ++ runes_of_ascii "
""1""
)	match T as Foo
    {
255 :T , }
,}")).
Eval vm_compute in ("<<<M1976>>>" ++ check (runes_of_ascii "
packet leftPad {
@leftPad( '0')
u32
i64_ `100% of %d` repeat// 50% %s
i8 chars
    ,
} MetaData
    f32a
{ // packet A { u8 x, }
}")).
Eval vm_compute in ("<<<M574>>>" ++ check (runes_of_ascii "MetaData  options1{ float Packet
    /// triple
    ,string
    zchar `// not a comment`	,
char[ 4294967296// a // b
] asx
,  } // c")).
Eval vm_compute in ("<<<M1984>>>" ++ check (runes_of_ascii "
packet leftPad {
@leftPad( '0')
u32
i64_ `100% of %d` ,(// 50% %s
i8 chars
    ,
} MetaData
    f32a
{ // packet A { u8 x, }
}")).
Eval vm_compute in ("<<<M1247>>>" ++ check (runes_of_ascii "packet x_y_z{ int len `" ++ [233]%N ++ runes_of_ascii "`
// " ++ [128512]%N ++ runes_of_ascii " emoji
/// triple
,
}MetaData Logon {
    //x
    char
    int // " ++ [27880; 37322]%N ++ runes_of_ascii "
, f64 body
, i64 falsey ,
}")).
Eval vm_compute in ("<<<M362>>>" ++ check (runes_of_ascii "
MetaData tag
{ f32 float , char[ 0123456789] a1 , len	metadata`line1
line2` ,
    char[]body ,matchKey A // 50% %s
,
    }
")).
Eval vm_compute in ("<<<M2422>>>" ++ check (runes_of_ascii "MetaData
    calculatedFrom
{ zchar[  10 ]
    As`tab	here`,
    }// trailing space 
options  { roots ='\x00' ; }  A
{ }
")).
Eval vm_compute in ("<<<M2431>>>" ++ check (runes_of_ascii "MetaData
    calculatedFrom
{ zchar[  10 ]
    As,
    }// trailing space 
options  { roots ='\x00' ; } packet A
{ }
")).
Eval vm_compute in ("<<<M1904>>>" ++ check (runes_of_ascii "packet o {
    roots `it's`
// trailing space 
//x
, char[ 42
    ]  A, // " ++ [27880; 37322]%N ++ runes_of_ascii "
f64
repeatCount
    `crlf
line`
,i64")).
Eval vm_compute in ("<<<M1100>>>" ++ check (runes_of_ascii "options {
// packet A { u8 x, }
// a // b
u128
=""1"" uint8x= i64 ; stringy = 00 chars// @lengthOf(
=  char[ 00 ]}
")).
Eval vm_compute in ("<<<M1877>>>" ++ check (runes_of_ascii "packet o {
    roots `it's`
// trailing space 
//x
, char[ 42
    ]  A // " ++ [27880; 37322]%N ++ runes_of_ascii "
f64
repeatCount
    `crlf
line`
,}")).
Eval vm_compute in ("<<<M1901>>>" ++ check (runes_of_ascii "packet o {
    roots `it's`
// trailing space 
//x
, char[ 42
    ]  A, // " ++ [27880; 37322]%N ++ runes_of_ascii "
f64
repeatCount
    `crlf
line`")).
Eval vm_compute in ("<<<M1847>>>" ++ check (runes_of_ascii "packet o {
    roots 
// trailing space 
//x
, char[ 42
    ]  A, // " ++ [27880; 37322]%N ++ runes_of_ascii "
f64
repeatCount
    `crlf
line`
,}")).
Eval vm_compute in ("<<<M2282>>>" ++ check (runes_of_ascii "options
    {
x_y_z// " ++ [27880; 37322]%N ++ runes_of_ascii "
= 10 ; }
packet body {
    @calculatedFrom(
// trailing space 
// " ++ [27880; 37322]%N ++ runes_of_ascii "
""1""
)	match")).
Eval vm_compute in ("<<<M1433>>>" ++ check (runes_of_ascii "packet
T
{ match repeatCount repeatCount as	calculatedFrom
{ [65535 ]	: As	,
} ,}
// trailing space 
")).
Eval vm_compute in ("<<<M2277>>>" ++ check (runes_of_ascii "options
    {
x_y_z// " ++ [27880; 37322]%N ++ runes_of_ascii "
= 10 ; }
packet body {
    @calculatedFrom(
// trailing space 
// " ++ [27880; 37322]%N ++ runes_of_ascii "
""1""
)")).
Eval vm_compute in ("<<<M1428>>>" ++ check (runes_of_ascii "packet
T
{ match match repeatCount as	calculatedFrom
{ [65535 ]	: As	,
} ,}
// trailing space 
")).
Eval vm_compute in ("<<<M549>>>" ++ check (runes_of_ascii "root packet
    a1
{
    @tag( 0 )
    @leftPad	('0'
)uint16 msg_type// trailing space 
, }
")).
Eval vm_compute in ("<<<M259>>>" ++ check (runes_of_ascii "options
    {Header// trailing space 
= """ ++ [233]%N ++ runes_of_ascii "t" ++ [233]%N ++ runes_of_ascii """ ; Z9_= true //x
; options1= int8
    ; //	t
}")).
Eval vm_compute in ("<<<M1416>>>" ++ check (runes_of_ascii "options
T
{ match repeatCount as	calculatedFrom
{ [65535 ]	: As	,
} ,}
// trailing space 
")).
Eval vm_compute in ("<<<M1450>>>" ++ check (runes_of_ascii "packet
T
{ match repeatCount as	calculatedFrom
[ [65535 ]	: As	,
} ,}
// trailing space 
")).
Eval vm_compute in ("<<<M1467>>>" ++ check (runes_of_ascii "packet
T
{ match repeatCount as	calculatedFrom
{ [65535 ]	 As	,
} ,}
// trailing space 
")).
Eval vm_compute in ("<<<M1390>>>" ++ check (runes_of_ascii "MetaData Logon// " ++ [128512]%N ++ runes_of_ascii " emoji
{pack body
//
//
`say ""hi""`
,}/// triple
packet MetaDataX { }")).
Eval vm_compute in ("<<<M1806>>>" ++ check (runes_of_ascii "options{  lengthOf =//x
i16;
    BodyLength = 0 ; pack
= false;
    A = char[ 3 ] } }")).
Eval vm_compute in ("<<<M4127>>>" ++ check (runes_of_ascii "MetaData

packetx  {	zchar
    T , u128 x ,
	}  options// `tick` ""quote"" 'q'
  {
	}

")).
Eval vm_compute in ("<<<M3579>>>" ++ check (runes_of_ascii "options {
    lengthOf = i16;
    BodyLength = 0;
    pack = false
    A = char[3]
}")).
Eval vm_compute in ("<<<M1808>>>" ++ check (runes_of_ascii "options{  lengthOf =//x
i16;
    BodyLength = 0 ; pack
= false;
    A = char[ 3 ]")).
Eval vm_compute in ("<<<M3210>>>" ++ check (runes_of_ascii "packet A { u16 // a
 len // b
 @lengthOf( // c
 body // d
 ) // e
 `d` // f
 , }")).
Eval vm_compute in ("<<<M3252>>>" ++ check (runes_of_ascii "MetaData Foo { zchar[
// c
0 ] matchKey , } options { lengthOf = i32 u = 00 ; }")).
Eval vm_compute in ("<<<M4450>>>" ++ check (runes_of_ascii "options {
    crc = 00;
    Packet = uint32;
    MetaDataX = '\x00';
}// a // b")).
Eval vm_compute in ("<<<M3852>>>" ++ check (runes_of_ascii "
root

    packet
A

{	int64 
Z9_ 
``
	,

    }	// `tick` ""quote"" 'q'
")).
Eval vm_compute in ("<<<M2917>>>" ++ check (runes_of_ascii "packet A {
  match k as n {
    [1, 22, ""c c"", 4, 5] : B
    2 : C
  },
}")).
Eval vm_compute in ("<<<M2909>>>" ++ check (runes_of_ascii "packet A {
  match k as n {
    [1, 22, 007, 4, 5] : B
    2 : C
  },
}")).
Eval vm_compute in ("<<<M3995>>>" ++ check (runes_of_ascii "root 
packet

    u128	{
	@tag( 7

    )

matchKey	pack
    ,
}

")).
Eval vm_compute in ("<<<M942>>>" ++ check (runes_of_ascii "packet
x_y_z{ match
Header as MetaDataX {
    ""x y""
: float ,} ,}")).
Eval vm_compute in ("<<<M1784>>>" ++ check (runes_of_ascii "options{  lengthOf =//x
i16;
    BodyLength = 0 ; pack
= false;")).
Eval vm_compute in ("<<<M4100>>>" ++ check (runes_of_ascii "packet u8x {
}// c

MetaData crc {
    char[4294967296] Foo,
}")).
Eval vm_compute in ("<<<M3308>>>" ++ check (runes_of_ascii "packet u8x { } MetaData crc { char[ 4294967296
// c
] Foo , }")).
Eval vm_compute in ("<<<M2870>>>" ++ check (runes_of_ascii "packet A {
  match k as n {
    [""a""] : B,
    2 : C
  },
}")).
Eval vm_compute in ("<<<M2894>>>" ++ check (runes_of_ascii "packet A { Inner { match k as n { [1,22,007] : B, }, }, }")).
Eval vm_compute in ("<<<M1769>>>" ++ check (runes_of_ascii "options{  lengthOf =//x
i16;
    BodyLength = 0 ; pack")).
Eval vm_compute in ("<<<M2725>>>" ++ check (runes_of_ascii "( u64 } int64 : root uint64 @lengthOf( root { u64 [")).
Eval vm_compute in ("<<<M562>>>" ++ check (runes_of_ascii "packet
x_y_z {As @lengthOf(repeatCount
    ) ,}
")).
Eval vm_compute in ("<<<M4399>>>" ++ check (runes_of_ascii "root packet u128 {
    // c
    chars `doc`,
}")).
Eval vm_compute in ("<<<M803>>>" ++ check (runes_of_ascii "
packet crc{ charz @lengthOf( Header )
, }")).
Eval vm_compute in ("<<<M1145>>>" ++ check (runes_of_ascii "
options { u128 =
    char[]; } // a // b")).
Eval vm_compute in ("<<<M3679>>>" ++ check (runes_of_ascii "root packet A {
    u8 x `x
        `,
}")).
Eval vm_compute in ("<<<M3954>>>" ++ check (runes_of_ascii "packet A
    {

u8 x `a
    b
  c` ,}

")).
Eval vm_compute in ("<<<M2394>>>" ++ check (runes_of_ascii "MetaData
Foo {Header //
pack ,	} 	 | ")).
Eval vm_compute in ("<<<M2867>>>" ++ check (runes_of_ascii "A" ++ [65533; 22]%N ++ runes_of_ascii "E" ++ [6]%N ++ runes_of_ascii "Q~" ++ [65533; 14; 65533]%N ++ runes_of_ascii "eu" ++ [6]%N ++ runes_of_ascii "x," ++ [65533]%N ++ runes_of_ascii "T" ++ [65533; 20]%N ++ runes_of_ascii "C" ++ [8; 65533; 18]%N ++ runes_of_ascii "c" ++ [65533]%N ++ runes_of_ascii "e" ++ [65533]%N ++ runes_of_ascii "i" ++ [17; 65533]%N ++ runes_of_ascii """" ++ [65533; 19]%N ++ runes_of_ascii "}8" ++ [65533]%N)).
Eval vm_compute in ("<<<M3900>>>" ++ check (runes_of_ascii "packet packetx {
    packetx asx,
}")).
Eval vm_compute in ("<<<M2659>>>" ++ check (runes_of_ascii "MetaData M { u8 x @lengthOf(y), }")).
Eval vm_compute in ("<<<M4050>>>" ++ check (runes_of_ascii "packet A {
    u8 x `d" ++ [8192]%N ++ runes_of_ascii "`,// c" ++ [8192]%N ++ runes_of_ascii "
}")).
Eval vm_compute in ("<<<M2610>>>" ++ check (runes_of_ascii "packet A { match k as n { }, }")).
Eval vm_compute in ("<<<M3018>>>" ++ check (runes_of_ascii "packet A {
    u8 x `a
b`,
}")).
Eval vm_compute in ("<<<M3346>>>" ++ check (runes_of_ascii "options { u8x = // c
false }")).
Eval vm_compute in ("<<<M917>>>" ++ check (runes_of_ascii "MetaData uint8x {
} // " ++ [27880; 37322]%N)).
Eval vm_compute in ("<<<M3777>>>" ++ check (runes_of_ascii "root packet rootA {
}// c")).
Eval vm_compute in ("<<<M2600>>>" ++ check (runes_of_ascii "packet A { x @tag(1), }")).
Eval vm_compute in ("<<<M847>>>" ++ check (runes_of_ascii "options{ tag= i32; }
")).
Eval vm_compute in ("<<<M3600>>>" ++ check (runes_of_ascii "options {
    // a
}")).
Eval vm_compute in ("<<<M4276>>>" ++ check (runes_of_ascii "packet metadata {
}")).
Eval vm_compute in ("<<<M3137>>>" ++ check (runes_of_ascii "packet A {
}
// c" ++ [8239]%N)).
Eval vm_compute in ("<<<M2654>>>" ++ check (runes_of_ascii "MetaData M { x, }")).
Eval vm_compute in ("<<<M1525>>>" ++ check (runes_of_ascii "// 50% %s
packet")).
Eval vm_compute in ("<<<M798>>>" ++ check (runes_of_ascii "packet crc {}
")).
Eval vm_compute in ("<<<M2560>>>" ++ check ([65279]%N ++ runes_of_ascii "packet A {}")).
Eval vm_compute in ("<<<M2805>>>" ++ check (runes_of_ascii "<7|}ru[t;i")).
Eval vm_compute in ("<<<M2442>>>" ++ check (runes_of_ascii "zchar [")).
Eval vm_compute in ("<<<M2731>>>" ++ check (runes_of_ascii "A7QC4#")).
Eval vm_compute in ("<<<M2813>>>" ++ check (runes_of_ascii "l:~DC")).
Eval vm_compute in ("<<<M2523>>>" ++ check (runes_of_ascii """\\""")).
Eval vm_compute in ("<<<M2532>>>" ++ check (runes_of_ascii "`""`")).
Eval vm_compute in ("<<<M2538>>>" ++ check (runes_of_ascii "-1")).
