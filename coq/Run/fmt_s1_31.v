From FP Require Import Lexer Parser ShowPT Digest Formatter.
From Coq Require Import String List NArith.
Import ListNotations.
Open Scope string_scope.
Set Printing Width 100000000.
Set Printing Depth 100000000.
Definition show_fres (r : fres) : string :=
  match r with
  | FOk s => "OK:" ++ sh_escaped s ""
  | FErr s => "ERR:" ++ sh_escaped s ""
  | FPanic p => "PANIC:" ++ p
  end.
Definition check (rs : list rune) : string := digest (show_fres (format_res rs)).
Definition full (rs : list rune) : string := show_fres (format_res rs).
Eval vm_compute in ("<<<M1>>>" ++ check (runes_of_ascii "
packet
body { chars //x
`two words` , match crc as	metadata {65535
    :
    // c
    trueish ""\" ++ [233]%N ++ runes_of_ascii """ : charz , ""abc""	: MetaDataX [""packet"" , ""// no comment"",0
, 00
,
    ""// no comment"" ,""{,}"" , 00 ]:  i64_
// @lengthOf(
//	t
, """ ++ [233]%N ++ runes_of_ascii "t" ++ [233]%N ++ runes_of_ascii """ :f32a
, [
    """ ++ [128512]%N ++ runes_of_ascii """  , ""it's""
]
: Foo
}
    ,@rightPad
(  ' '
    /// triple
    ) repeat char[ 1]
    body `it's`
,
@tag( 007) @calculatedFrom(
    """ ++ [233]%N ++ runes_of_ascii "t" ++ [233]%N ++ runes_of_ascii """ )
// @lengthOf(
//
@calculatedFrom( ""a\""b""// trailing space 
)
repeat
i64_
{ roots /// triple
{ i16 // packet A { u8 x, }
Header`two words`, repeatCount `{ , }`,  f64
x @calculatedFrom( ""a	b"")
    // a // b
    ,repeatCount @calculatedFrom(// " ++ [27880; 37322]%N ++ runes_of_ascii "
"""" ) ,} ,repeat u8
BodyLength
    `crlf
line`	,
    // `tick` ""quote"" 'q'
    char As
@lengthOf(
    Foo) , } ,	char[] roots
    `line1
line2`,//
int a1, string_{ char[]Logon `line1
line2` , repeat float32 trueish
    ,
},
@leftPad ( '0' ) repeat metadata  {	rootA@lengthOf( // trailing space 
falsey	) ``
    ,
// " ++ [128512]%N ++ runes_of_ascii " emoji
// packet A { u8 x, }
} ,
} packet float
{u16
// trailing space 
// trailing space 
Logon // a // b
`tab	here`// @lengthOf(
,
// @lengthOf(
// c
u128 {zchar[255
// packet A { u8 x, }
//
]	charz`doc` , }
,
@tag(0 )	repeat Foo { i32 body
    @calculatedFrom( ""`tick`"" )
`" ++ [233]%N ++ runes_of_ascii "` ,} /// triple
,char[] o @calculatedFrom(""1"" ) `line1
line2` ,
@lengthOf(
// a // b
//x
zchar) i16 BodyLength
    @lengthOf(
    // " ++ [27880; 37322]%N ++ runes_of_ascii "
    BodyLength )
    , @lengthOf( T) @rightPad(
' ' )@lengthOf( T
)
repeat
u64 _x// " ++ [27880; 37322]%N ++ runes_of_ascii "
, match MetaDataX as // trailing space 
options1// trailing space 
{ //x
0123456789 :
    options1  , } , repeat u8 charz
, repeat i8i8 {// c
a1 ,len  { repeat string
o	,
    // a // b
    } ,	match zchar
as Logon {"""" : matchKey """ ++ [128512]%N ++ runes_of_ascii """	: u 007 :
repeatCount ,}  , // c
}
    ,
}
")).
Eval vm_compute in ("<<<M174>>>" ++ check (runes_of_ascii "root
packet charz {// a // b
@rightPad
    //	t
    (
) @lengthOf(
    Pad ) @rightPad ( ' '
) MetaDataX @lengthOf( BodyLength
) `" ++ [28040; 24687; 31867; 22411]%N ++ runes_of_ascii "`
,
    repeatCount /// triple
A
`
`,	@tag(
    4294967296) // trailing space 
metadata u8x ,
    @calculatedFrom( ""packet"" ) repeat Pad // @lengthOf(
`say ""hi""`
,  } root packet// trailing space 
rootA {// " ++ [27880; 37322]%N ++ runes_of_ascii "
rootA	{ string trueish ,
}
    ,
} MetaData
lengthOf {
    } packet _x { repeat msg_type { char[ 65535 ]
crc ,	lengthOf
    {
    Packet ,
    // c
    string_
    @calculatedFrom(""a\""b""),
f32 rootA//
,
}	,
// " ++ [27880; 37322]%N ++ runes_of_ascii "
// `tick` ""quote"" 'q'
} ,i16 int  , @lengthOf( matchKey) //	t
i8i8 int `two words` ,
// packet A { u8 x, }
// @lengthOf(
repeat Logon{
repeat
    //	t
    uint8	f32a ,
    a1
    //
    { repeat char[1
] Foo , }  , uint8x
// @lengthOf(
// packet A { u8 x, }
{ char[ 4294967296 ]
T `{ , }`
, u32
    repeatCount `" ++ [28040; 24687; 31867; 22411]%N ++ runes_of_ascii "`
    // c
    ,} , }
    ,
repeat MetaDataX
, char[ 4294967296 ] i8i8//
@lengthOf( _x ) ,}
packet falsey {
    tag
{ char[ // " ++ [27880; 37322]%N ++ runes_of_ascii "
00
    // `tick` ""quote"" 'q'
    ] int@lengthOf( u128
    ) ,
}
,roots body ,u16 stringy
// trailing space 
// @lengthOf(
@lengthOf( Pad ) `line1
line2` ,
stringy
@lengthOf(  chars ) ,uint8 lengthOf
`" ++ [233]%N ++ runes_of_ascii "` ,
    // " ++ [128512]%N ++ runes_of_ascii " emoji
    }")).
Eval vm_compute in ("<<<M1504>>>" ++ check (runes_of_ascii "// top
packet // c0
A // c1a
  // c1b
{
    // c2
u8
    // c3
a // c4a
  // c4b
, } packet // c7a
  // c7b
B // c8a
  // c8b
{ // c9a
  // c9b
u16
    // c10
b
    // c11
, // c12a
  // c12b
} packet
    // c14
C // c15a
  // c15b
{ // c16
u32 c
    // c18
, // c19a
  // c19b
}
    // c20
root // c21
packet // c22a
  // c22b
M
    // c23
{ // c24a
  // c24b
u16 // c25
Kc // c26
,
    // c27
u16
    // c28
Kb // c29
, // c30a
  // c30b
u16
    // c31
Ka
    // c32
,
    // c33
match // c34
Kc as
    // c36
X // c37
{
    // c38
9 // c39
:
    // c40
A
    // c41
, 10 // c43
: // c44a
  // c44b
B // c45a
  // c45b
, // c46a
  // c46b
}
    // c47
, // c48a
  // c48b
match Kb // c50
as Y // c52a
  // c52b
{ 2
    // c54
: // c55
C
    // c56
, // c57
1 : A // c60
, // c61
} // c62a
  // c62b
, match // c64a
  // c64b
Ka as
    // c66
Z
    // c67
{ // c68a
  // c68b
1 // c69a
  // c69b
: // c70a
  // c70b
B
    // c71
,
    // c72
} , // c74a
  // c74b
A // c75
, // c76
B , // c78a
  // c78b
C // c79a
  // c79b
, // c80a
  // c80b
} // c81
")).
Eval vm_compute in ("<<<M258>>>" ++ check (runes_of_ascii "
packet leftPad
    {}	packet u{@leftPad
( ' ' )
    char[65535 ]leftPad, int8
packetx ,
string stringy `crlf
line` ,@leftPad
( // @lengthOf(
' ' // " ++ [27880; 37322]%N ++ runes_of_ascii "
) // " ++ [128512]%N ++ runes_of_ascii " emoji
i64 x
@lengthOf( u )
    `" ++ [28040; 24687; 31867; 22411]%N ++ runes_of_ascii "`	,@lengthOf( pack )
// a // b
//
u64 asx  @lengthOf( repeatCount )
    `u8 x,` , o A ,}	root packet charz{
char[]repeatCount
    //x
    @lengthOf( tag ) ``
,
    repeat pack	`a\` , @calculatedFrom( ""// no comment""
    //x
    ) T { string rootA // " ++ [27880; 37322]%N ++ runes_of_ascii "
@calculatedFrom(""{,}"" )  ,
    }, repeat As
    Foo
, char[
3] trueish ,@calculatedFrom(""""
    )@lengthOf(
metadata)@leftPad ('0'
/// triple
//x
) repeat u64 float `{ , }`
// " ++ [27880; 37322]%N ++ runes_of_ascii "
// " ++ [128512]%N ++ runes_of_ascii " emoji
, stringy {
// packet A { u8 x, }
// c
metadata
    { u8 f32a `two words` , repeat  char[ 007 ] f32a
`
` ,
    } ,  u32 asx @calculatedFrom(""" ++ [233]%N ++ runes_of_ascii "t" ++ [233]%N ++ runes_of_ascii """
) ,float64 i8i8 ,//x
} ,
// c
// " ++ [27880; 37322]%N ++ runes_of_ascii "
match lengthOf as zchar
    /// triple
    {
    00 :o,  } , }")).
Eval vm_compute in ("<<<M2034>>>" ++ check (runes_of_ascii "packet

    BodyLength // " ++ [27880; 37322]%N ++ runes_of_ascii "
{ char[  255// " ++ [27880; 37322]%N ++ runes_of_ascii "
  ]_x,match

body

    as repeatCount

    {""{,}"": len
} ,

    char[

0]

    Logon	@calculatedFrom( ""{,}""	)
    , 
// a // b
  @rightPad	(
	)i64_	//x
  @calculatedFrom(

    ""it's"" 
) `crlf
line`,} 
packet	Header
{ match
As as chars {7 :
	packetx

    ,
[
    ""it's""

]

    :u128 ,[ 4294967296 
, ""{,}"" ]
    :	f32a ,  } ,
} packet
    asx
    {
	@calculatedFrom(
	""1""
)
a1  
  // @lengthOf(
    	//
    , 
    //
    	//x
		match
x_y_z as 
crc	/// triple

  { 
	// `tick` ""quote"" 'q'
	  // `tick` ""quote"" 'q'
    	""CRC32""
    : As , 7 : 
o, //x
} ,match
    msg_type  as 
Packet
    {
    """ ++ [233]%N ++ runes_of_ascii "t" ++ [233]%N ++ runes_of_ascii """ :
metadata
}

    ,

repeat u8
    i64_
,// a // b
    }")).
Eval vm_compute in ("<<<M1639>>>" ++ check (runes_of_ascii "root packet u128 {
    @calculatedFrom(""// no comment"")
    @tag(10)
    @calculatedFrom(""packet"")
    BodyLength ``,
    char BodyLength `two words`,
    repeat uint32 f32a,
    crc {
        repeat repeatCount Packet,
        MetaDataX @lengthOf(chars),
        options1 _x,
        repeat float64 T,
    },
    @tag(3)
    @leftPad('\x00')
    @rightPad()
    match string_ as MetaDataX {
        ""packet"" : float,
        [
            ""abc"", """", 3, 65535, ""a	b"",
            42, 1, ""packet""
        ] : i64_,
        // " ++ [27880; 37322]%N ++ runes_of_ascii "
        // trailing space 
        7 : lengthOf,
        0 : len,
        10 : len,
        [0] : A,
    },
}")).
Eval vm_compute in ("<<<M364>>>" ++ check (runes_of_ascii "
packet chars  { repeat
    u64 As`" ++ [233]%N ++ runes_of_ascii "` ,@tag( 0 )repeat
T metadata
    ``	,
    }packet Z9_{
    @rightPad
    (//
'0'
    // " ++ [128512]%N ++ runes_of_ascii " emoji
    )
    match u as
lengthOf
    {
""abc""/// triple
: T
, ""CRC32"" //x
:  matchKey
[ """ ++ [233]%N ++ runes_of_ascii "t" ++ [233]%N ++ runes_of_ascii """ ,  """ ++ [28040; 24687]%N ++ runes_of_ascii """, 65535, 65535 , ""x y""
    ]
: metadata""it's"" : i8i8, // packet A { u8 x, }
255 : trueish , """":u128 ,	} , } MetaData u8x {
zchar[ 255
]  zchar ,
    // `tick` ""quote"" 'q'
    uint32 uint8x
`" ++ [233]%N ++ runes_of_ascii "`, uint8 trueish ,
    // packet A { u8 x, }
    i64	falsey
,
_x MetaDataX ,string
_x
// trailing space 
//
, } //	t")).
Eval vm_compute in ("<<<M1543>>>" ++ check (runes_of_ascii "options {
    StringPrefixLenType = u8;
    ArrayPrefixLenType = u32;
}
packet Quote {
    u32 Ref,
    InNote74 {
        u8 pad0,
    },
}
packet Ack {
    repeat string OrderId,
}
packet Logout {
    zchar[7] venue,
    char[12] Px,
    string count,
    char[] Tail,
    char[] Qty,
    Quote,
}
root packet Trade {
    zchar[2] price,
    u32 x,
    u32 lastPx @lengthOf(Body),
    match x as Body {
        148 : Ack,
        171 : Quote,
        15 : Logout,
    },
}
")).
Eval vm_compute in ("<<<M284>>>" ++ check (runes_of_ascii "MetaData
Header { int64
zchar
`u8 x,` , Header u8x ,  zchar[ 65535]u ,	A options1
`it's` , zchar[  007 ] MetaDataX , zchar[// `tick` ""quote"" 'q'
0] As , }
    MetaData Logon	{char[] rootA,
} packet int
{
f32 falsey, } MetaData float { len
leftPad ,
    A
    Foo
`tab	here`
    , char[ 65535
] T
`line1
line2` ,	} options // " ++ [128512]%N ++ runes_of_ascii " emoji
{
// " ++ [128512]%N ++ runes_of_ascii " emoji
// " ++ [27880; 37322]%N ++ runes_of_ascii "
float
    ='0'
//x
// a // b
;float
= true
    ;	Foo = ""\n""}")).
Eval vm_compute in ("<<<M74>>>" ++ check (runes_of_ascii "root packet x	{ @calculatedFrom(""a\\"" ) zchar[42 ]float @calculatedFrom(""a\""b""  ) `
` ,
    } MetaData o
    {
int8
BodyLength,string len ,
    string len , float falsey ,T float
    , }	MetaData pack { /// triple
charz o
`// not a comment`	,	float64 f32a `tab	here`  , int32  u8x  `// not a comment` ,char[10 ]
a1
, float32 options1  ,
} // `tick` ""quote"" 'q'")).
Eval vm_compute in ("<<<M38>>>" ++ check (runes_of_ascii "  packet
    i64_
    {
    Z9_ @lengthOf(
charz)	`doc`
    , Pad {  body @lengthOf( string_ ) //
`say ""hi""`	, uint64 metadata@lengthOf(Logon )`say ""hi""` ,
    zchar[ 3
    ] f32a`{ , }` ,repeat uint8	leftPad
/// triple
/// triple
,  }
,char[] _x @lengthOf( As)
    `
` ,  char[ 65535
    ]matchKey  `// not a comment`
,}")).
Eval vm_compute in ("<<<M1511>>>" ++ check (runes_of_ascii "  packet

    MDSnapshotZZ

{

u8  a
	,

}
	packet OrderACK
    {
u16 b	, 
} 
packet
	HTTPServerInfo	{

    string
s ,

    }

root packet FIXMsg{
u8 KType,  MDSnapshotZZ ,

    repeat OrderACK,

    match KType
	as	Body{  1 :
HTTPServerInfo

,
	2 :
    OrderACK  ,}
    ,}

")).
Eval vm_compute in ("<<<M586>>>" ++ check (runes_of_ascii "root packet tag { }  packet MetaDataX{char[007	]
// c
/// triple
asx  @calculatedFrom( ""a\""b""
) `say ""hi""`// " ++ [27880; 37322]%N ++ runes_of_ascii "
,  @tag(4294967296 )
    char[packetx//x
] packetx @calculatedFrom(""a\""b""
    ) ,
// " ++ [128512]%N ++ runes_of_ascii " emoji
// a // b
@calculatedFrom(""" ++ [233]%N ++ runes_of_ascii "t" ++ [233]%N ++ runes_of_ascii """  ) repeat pack // " ++ [27880; 37322]%N ++ runes_of_ascii "
,
    } // c")).
Eval vm_compute in ("<<<M584>>>" ++ check (runes_of_ascii "root packet tag { }  packet MetaDataX{char[007	]
// c
/// triple
asx  @calculatedFrom( ""a\""b""
) `say ""hi""`// " ++ [27880; 37322]%N ++ runes_of_ascii "
,  @tag(4294967296 )
    char[1 1//x
] packetx @calculatedFrom(""a\""b""
    ) ,
// " ++ [128512]%N ++ runes_of_ascii " emoji
// a // b
@calculatedFrom(""" ++ [233]%N ++ runes_of_ascii "t" ++ [233]%N ++ runes_of_ascii """  ) repeat pack // " ++ [27880; 37322]%N ++ runes_of_ascii "
,
    } // c")).
Eval vm_compute in ("<<<M670>>>" ++ check (runes_of_ascii "root packet tag { }  packet MetaDataX{char[007	]
// c""
/// triple
asx  @calculatedFrom( ""a\""b""
) `say ""hi""`// " ++ [27880; 37322]%N ++ runes_of_ascii "
,  @tag(4294967296 )
    char[1//x
] packetx @calculatedFrom(""a\""b""
    ) ,
// " ++ [128512]%N ++ runes_of_ascii " emoji
// a // b
@calculatedFrom(""" ++ [233]%N ++ runes_of_ascii "t" ++ [233]%N ++ runes_of_ascii """  ) repeat pack // " ++ [27880; 37322]%N ++ runes_of_ascii "
,
    } // c")).
Eval vm_compute in ("<<<M635>>>" ++ check (runes_of_ascii "root packet tag { }  packet MetaDataX{char[007	]
// c
/// triple
asx  @calculatedFrom( ""a\""b""
) `say ""hi""`// " ++ [27880; 37322]%N ++ runes_of_ascii "
,  @tag(4294967296 )
    char[1//x
] packetx @calculatedFrom(""a\""b""
    ) ,
// " ++ [128512]%N ++ runes_of_ascii " emoji
// a // b
@calculatedFrom(""" ++ [233]%N ++ runes_of_ascii "t" ++ [233]%N ++ runes_of_ascii """  ) pack repeat // " ++ [27880; 37322]%N ++ runes_of_ascii "
,
    } // c")).
Eval vm_compute in ("<<<M523>>>" ++ check (runes_of_ascii "root packet tag { }  packet MetaDataX{char[	]
// c
/// triple
asx  @calculatedFrom( ""a\""b""
) `say ""hi""`// " ++ [27880; 37322]%N ++ runes_of_ascii "
,  @tag(4294967296 )
    char[1//x
] packetx @calculatedFrom(""a\""b""
    ) ,
// " ++ [128512]%N ++ runes_of_ascii " emoji
// a // b
@calculatedFrom(""" ++ [233]%N ++ runes_of_ascii "t" ++ [233]%N ++ runes_of_ascii """  ) repeat pack // " ++ [27880; 37322]%N ++ runes_of_ascii "
,
    } // c")).
Eval vm_compute in ("<<<M541>>>" ++ check (runes_of_ascii "root packet tag { }  packet MetaDataX{char[007	]
// c
/// triple
asx  root ""a\""b""
) `say ""hi""`// " ++ [27880; 37322]%N ++ runes_of_ascii "
,  @tag(4294967296 )
    char[1//x
] packetx @calculatedFrom(""a\""b""
    ) ,
// " ++ [128512]%N ++ runes_of_ascii " emoji
// a // b
@calculatedFrom(""" ++ [233]%N ++ runes_of_ascii "t" ++ [233]%N ++ runes_of_ascii """  ) repeat pack // " ++ [27880; 37322]%N ++ runes_of_ascii "
,
    } // c")).
Eval vm_compute in ("<<<M2055>>>" ++ check (runes_of_ascii "root packet tag {
}

packet MetaDataX {
    char[007] asx @calculatedFrom(""a\""b""),
    @tag(4294967296)
    char[1] packetx @calculatedFrom(""a\""b""),
    // " ++ [128512]%N ++ runes_of_ascii " emoji
    // a // b
    @calculatedFrom(""" ++ [233]%N ++ runes_of_ascii "t" ++ [233]%N ++ runes_of_ascii """)
    repeat pack,
}// c")).
Eval vm_compute in ("<<<M117>>>" ++ check (runes_of_ascii "root packet // packet A { u8 x, }
f32a
{ @lengthOf( int )char[]
    //x
    o, a1 @lengthOf( packetx
) // " ++ [27880; 37322]%N ++ runes_of_ascii "
`u8 x,`
/// triple
/// triple
,
// " ++ [128512]%N ++ runes_of_ascii " emoji
// @lengthOf(
@calculatedFrom( ""1""
)u8
Header ,
    }")).
Eval vm_compute in ("<<<M617>>>" ++ check (runes_of_ascii "root packet tag { }  packet MetaDataX{char[007	]
// c
/// triple
asx  @calculatedFrom( ""a\""b""
) `say ""hi""`// " ++ [27880; 37322]%N ++ runes_of_ascii "
,  @tag(4294967296 )
    char[1//x
] packetx @calculatedFrom(""a\""b""
    )")).
Eval vm_compute in ("<<<M701>>>" ++ check (runes_of_ascii "root packet len // trailing space 
{
// " ++ [27880; 37322]%N ++ runes_of_ascii "
//	t
char[10
] metadata	@lengthOf( o ) `crlf
line`,
    @rightPad
( ' '
) string
    Header @calculatedFrom( ""a\\"" ""a\\""
    ), }
")).
Eval vm_compute in ("<<<M455>>>" ++ check (runes_of_ascii "packet
    // `tick` ""quote"" 'q'
    crc
// packet A { u8 x, }
//	t
{
u32 a1 ,
    // trailing space 
    roots
charz //
`two words`,	}
    MetaData int {
} } /// triple")).
Eval vm_compute in ("<<<M411>>>" ++ check (runes_of_ascii "packet
    // `tick` ""quote"" 'q'
    crc
// packet A { u8 x, }
//	t
{
u32 a1 roots
    // trailing space 
    ,
charz //
`two words`,	}
    MetaData int {
} /// triple")).
Eval vm_compute in ("<<<M454>>>" ++ check (runes_of_ascii "packet
    // `tick` ""quote"" 'q'
    crc
// packet A { u8 x, }
//	t
{
u32 a1 ,
    // trailing space 
    roots
charz //
`two words`,	}
    MetaData int {
 /// triple")).
Eval vm_compute in ("<<<M700>>>" ++ check (runes_of_ascii "root packet len // trailing space 
{
// " ++ [27880; 37322]%N ++ runes_of_ascii "
//	t
char[10
] metadata	@lengthOf( o ) `crlf
line`,
    @rightPad
( ' '
) 3
    Header @calculatedFrom( ""a\\""
    ), }
")).
Eval vm_compute in ("<<<M1873>>>" ++ check (runes_of_ascii "
packet A {

match	k
	as n	{ [
""a"" ,
""bb""  , 
""c c"" ,  ""d""

, ""e""
    ,""f""
    ,
    ""g""

    , 
""h"" , 
""i"" , 
""j"",
    ""k""

,

""l""
	] :B 
2

:

C} 
, }")).
Eval vm_compute in ("<<<M1792>>>" ++ check (runes_of_ascii "packet A {
    match k as n {
        [
            1, ""bb"", 007, ""d"", 5,
            ""f"", 7, ""h"", 9, ""j""
        ] : B,
        2 : C,
    },
}")).
Eval vm_compute in ("<<<M438>>>" ++ check (runes_of_ascii "packet
    // `tick` ""quote"" 'q'
    crc
// packet A { u8 x, }
//	t
{
u32 a1 ,
    // trailing space 
    roots
charz //
`two words`,")).
Eval vm_compute in ("<<<M1776>>>" ++ check (runes_of_ascii "packet A {
    u16 len @lengthOf(body) `a
    
    b`,
    u32 crc @calculatedFrom(""CRC32"") `a
    
    b`,
    string body,
}")).
Eval vm_compute in ("<<<M1233>>>" ++ check (runes_of_ascii "root packet matchKey { zchar[ 3 // c
] pack @calculatedFrom( ""a	b"" ) `doc` , } options { } MetaData A { int8 msg_type , }")).
Eval vm_compute in ("<<<M1265>>>" ++ check (runes_of_ascii "root packet matchKey { zchar[ 3 ] pack @calculatedFrom( ""a	b"" ) `doc` , } options { } MetaData A { int8 msg_type // c
, }")).
Eval vm_compute in ("<<<M2128>>>" ++ check (runes_of_ascii "
packet o
    {repeat 
Logon

    uint8x  
  // c

,

    }options{ asx = zchar[3	]
    stringy
    = '\x00' }

")).
Eval vm_compute in ("<<<M1602>>>" ++ check (runes_of_ascii "packet

o

{
	repeat
Logon uint8x  ,

    }
options
    { asx = zchar[3 ]	stringy 
  // c
  = '\x00'
    }
")).
Eval vm_compute in ("<<<M876>>>" ++ check (runes_of_ascii "packet A {
  match k as n {
    [""a"", ""bb"", ""c c"", ""d"", ""e"", ""f"", ""g"", ""h"", ""i"", ""j""] : B
    2 : C
  },
}")).
Eval vm_compute in ("<<<M1889>>>" ++ check (runes_of_ascii "packet A {
    u32 crc @calculatedFrom(""x\
        y""),
    @calculatedFrom(""x\
        y"")
    u8 y,
}")).
Eval vm_compute in ("<<<M880>>>" ++ check (runes_of_ascii "packet A {
  match k as n {
    [""a"", 22, ""c c"", 4, ""e"", 66, ""g"", 8, ""i"", 10] : B
    2 : C
  },
}")).
Eval vm_compute in ("<<<M2096>>>" ++ check (runes_of_ascii "// c
packet o {
    repeat Logon uint8x,
}

options {
    asx = zchar[3]
    stringy = '\x00'
}")).
Eval vm_compute in ("<<<M853>>>" ++ check (runes_of_ascii "packet A {
  match k as n {
    [""a"", 22, ""c c"", 4, ""e"", 66, ""g"", 8] : B,
    2 : C
  },
}")).
Eval vm_compute in ("<<<M1192>>>" ++ check (runes_of_ascii "MetaData float { float64 charz `
` , // c
} root packet chars { @rightPad ( '0' ) Foo , }")).
Eval vm_compute in ("<<<M1403>>>" ++ check (runes_of_ascii "packet chars { }
// c
packet MetaDataX { @tag( 42 ) i16 string_ , repeat x `say ""hi""` , }")).
Eval vm_compute in ("<<<M845>>>" ++ check (runes_of_ascii "packet A {
  match k as n {
    [""a"", ""bb"", 007, ""d"", ""e"", 66, ""g""] : B
    2 : C
  },
}")).
Eval vm_compute in ("<<<M1133>>>" ++ check (runes_of_ascii "packet metadata { Logon {
// c
A `" ++ [28040; 24687; 31867; 22411]%N ++ runes_of_ascii "` , tag o , } , zchar len `// not a comment` , }")).
Eval vm_compute in ("<<<M964>>>" ++ check (runes_of_ascii "packet A {
    u32 crc @calculatedFrom(""x\
y""),
    @calculatedFrom(""x\
y"") u8 y,
}")).
Eval vm_compute in ("<<<M1370>>>" ++ check (runes_of_ascii "packet o { repeat Logon uint8x , } options { asx = zchar[ 3 ] stringy // c
= '\x00' }")).
Eval vm_compute in ("<<<M369>>>" ++ check (runes_of_ascii "MetaData repeatCount
    {
    } options { // packet A { u8 x, }
}
// @lengthOf(
")).
Eval vm_compute in ("<<<M1331>>>" ++ check (runes_of_ascii "MetaData body { i64 pack `it's` , } packet stringy { int16 calculatedFrom , // c
}")).
Eval vm_compute in ("<<<M1741>>>" ++ check (runes_of_ascii "packet A 
{match
k as n{ 
[""a""
	,""bb""  ,007
, ""d""
]:

B
2
	: C

    }	,
} ")).
Eval vm_compute in ("<<<M885>>>" ++ check (runes_of_ascii "packet A { Inner { match k as n { [1,22,007,4,5,66,7,8,9,10] : B, }, }, }")).
Eval vm_compute in ("<<<M1478>>>" ++ check (runes_of_ascii "root packet P {
    u16 a,
    u32 Sum @calculatedFrom(""CR\
C32""),
}
")).
Eval vm_compute in ("<<<M321>>>" ++ check (runes_of_ascii "MetaData // " ++ [128512]%N ++ runes_of_ascii " emoji
Header { // trailing space 
u64 falsey ,
}")).
Eval vm_compute in ("<<<M759>>>" ++ check (runes_of_ascii "u8 u16 int8 repeat , `it's` true match `a\` root false char")).
Eval vm_compute in ("<<<M1291>>>" ++ check (runes_of_ascii "packet x { @rightPad ( ) repeat roots
// c
Logon `doc` , }")).
Eval vm_compute in ("<<<M1440>>>" ++ check (runes_of_ascii "root packet P
	{

    repeat char cs, u8 x

,  }

")).
Eval vm_compute in ("<<<M112>>>" ++ check (runes_of_ascii "MetaData crc { uint8x float
,}
// @lengthOf(
")).
Eval vm_compute in ("<<<M31>>>" ++ check (runes_of_ascii "root
packet uint8x {}root packet  Pad
{}")).
Eval vm_compute in ("<<<M371>>>" ++ check (runes_of_ascii "//
packet u8x{
    }	packet
    crc { }")).
Eval vm_compute in ("<<<M761>>>" ++ check (runes_of_ascii "z;iRL9nW5y;Gl&OOeJQ#l^I{o>x:,gyNu{")).
Eval vm_compute in ("<<<M169>>>" ++ check (runes_of_ascii "packet
body { // @lengthOf(
}")).
Eval vm_compute in ("<<<M1700>>>" ++ check (runes_of_ascii "root
packet pack {
}  // c
")).
Eval vm_compute in ("<<<M1706>>>" ++ check (runes_of_ascii "root packet pack {
}
// c")).
Eval vm_compute in ("<<<M1383>>>" ++ check (runes_of_ascii "MetaData // c
o { }")).
Eval vm_compute in ("<<<M1022>>>" ++ check (runes_of_ascii "// c" ++ [8287]%N ++ runes_of_ascii "
packet A {
}")).
Eval vm_compute in ("<<<M1039>>>" ++ check (runes_of_ascii "packet A {
}// c" ++ [8203]%N)).
Eval vm_compute in ("<<<M743>>>" ++ check (runes_of_ascii "char[] (")).
Eval vm_compute in ("<<<M1045>>>" ++ check (runes_of_ascii "// c" ++ [65279]%N)).
