From FP Require Import Lexer Parser ShowPT Digest Formatter.
From Coq Require Import String List NArith.
Import ListNotations.
Open Scope string_scope.
Set Printing Width 100000000.
Set Printing Depth 100000000.
Definition show_fres (r : fres) : string :=
  match r with
  | FOk s => "OK:" ++ sh_escaped s ""
  | FErr s => "ERR:" ++ sh_escaped s ""
  | FPanic p => "PANIC:" ++ p
  end.
Definition check (rs : list rune) : string := digest (show_fres (format_res rs)).
Definition full (rs : list rune) : string := show_fres (format_res rs).
Eval vm_compute in ("<<<M3479>>>" ++ check (runes_of_ascii "// top
options // c0a
  // c0b
{
    // c1
ArrayPrefixLenType = // c3
u64
    // c4
; FixedStringPadFromLeft // c6
= // c7a
  // c7b
false // c8a
  // c8b
; // c9a
  // c9b
} // c10
packet // c11
Trade // c12a
  // c12b
{ } // c14a
  // c14b
packet Reject
    // c16
{ // c17a
  // c17b
InPx94 {
    // c19
repeat
    // c20
Trade
    // c21
,
    // c22
string count , // c25a
  // c25b
InFlags14 // c26a
  // c26b
{ u8 pad0
    // c29
, // c30
} ,
    // c32
repeat InSide239 { // c35a
  // c35b
char[ 8
    // c37
] // c38a
  // c38b
lastPx // c39
, // c40a
  // c40b
repeat // c41
i64 // c42a
  // c42b
clOrdID // c43
, // c44
i64 // c45
Acct , // c47
} // c48a
  // c48b
,
    // c49
} // c50
,
    // c51
repeat
    // c52
string clOrdID // c54a
  // c54b
, // c55
zchar[ // c56a
  // c56b
5 ] sym // c59
, } // c61a
  // c61b
packet Quote
    // c63
{ repeat Reject // c66a
  // c66b
,
    // c67
} // c68a
  // c68b
packet
    // c69
Logon // c70a
  // c70b
{ repeat // c72a
  // c72b
Reject // c73
, char[] // c75a
  // c75b
Acct
    // c76
, // c77a
  // c77b
@leftPad ( // c79a
  // c79b
'0'
    // c80
)
    // c81
char[
    // c82
4
    // c83
] tag7 // c85a
  // c85b
,
    // c86
} // c87a
  // c87b
root // c88
packet Fill // c90a
  // c90b
{
    // c91
@rightPad ( // c93a
  // c93b
'0' // c94
) // c95
char[ // c96
1 ] // c98a
  // c98b
count // c99
, u8 // c101
f1 // c102a
  // c102b
,
    // c103
u32 Qty // c105a
  // c105b
@lengthOf( // c106a
  // c106b
Body // c107
)
    // c108
, // c109
match // c110
f1 // c111
as
    // c112
Body
    // c113
{
    // c114
[ // c115a
  // c115b
195 // c116a
  // c116b
, // c117a
  // c117b
3
    // c118
] // c119
: // c120
Reject
    // c121
, 110 : Quote // c125a
  // c125b
,
    // c126
141 // c127a
  // c127b
: Logon
    // c129
, // c130
21 // c131a
  // c131b
:
    // c132
Trade ,
    // c134
} // c135a
  // c135b
,
    // c136
u32 // c137a
  // c137b
Flags // c138
@calculatedFrom( ""CRC32"" // c140
) // c141
, // c142a
  // c142b
} ")).
Eval vm_compute in ("<<<M4366>>>" ++ check (runes_of_ascii "//	t
packet asx {
    repeat i32 u8x,
    @calculatedFrom(""it's"")
    match uint8x as matchKey {
        1 : chars,
        // `tick` ""quote"" 'q'
        [255] : matchKey,
        ""a	b"" : pack,
        """" : trueish,
    },
    @leftPad('\x00')
    char[] A @calculatedFrom(""a\\""),
    // trailing space 
    match MetaDataX as uint8x {
        [""a	b""] : As,
    },
    uint8x {
        matchKey {
            int x_y_z,
        },//
    },
    u8 Logon @lengthOf(matchKey),
    float64 msg_type @lengthOf(zchar),
    float x_y_z,
    @rightPad('\x00')
    match matchKey as lengthOf {
        [
            """ ++ [233]%N ++ runes_of_ascii "t" ++ [233]%N ++ runes_of_ascii """, ""{,}"", 3, ""\n"", 0,
            ""1"", ""x y""
        ] : u,
        10 : f32a,
        1 : chars,
        42 : Foo,
        65535 : Header,
        [""""] : body,
    },
    //x
    match metadata as trueish {
        """" : metadata,
        ""`tick`"" : float,
        255 : x,
    },
}

packet trueish {
    @lengthOf(stringy)
    zchar[7] x `crlf
        line`,
    repeat MetaDataX {
        i16 Z9_ `two words`,
    },
    @lengthOf(zchar)
    match metadata as a1 {
        [""CRC32""] : i8i8,
        ""a	b"" : x_y_z,
        [
            ""1"", ""abc"", 007, 4294967296, 00,
            ""// no comment"", ""a\""b""
        ] : chars,
        [
            ""`tick`"", ""\" ++ [233]%N ++ runes_of_ascii """, ""x y"", ""a	b"", ""a\""b"",
            ""`tick`"", 00
        ] : leftPad,
        65535 : Z9_,
    },
    @lengthOf(falsey)
    repeat i8i8,
    @calculatedFrom(""\n"")
    // a // b
    char[42] charz @calculatedFrom(""" ++ [128512]%N ++ runes_of_ascii """),
    repeat char[] stringy `tab	here`,
    Packet @lengthOf(BodyLength) `" ++ [28040; 24687; 31867; 22411]%N ++ runes_of_ascii "`,
    string u128,
    i8 o `
        `,// 50% %s
    @leftPad('0')
    repeat string Header,
}

options {
    crc = char[007]
    packetx = 7;
}")).
Eval vm_compute in ("<<<M882>>>" ++ check (runes_of_ascii "
root packet
    Packet  { repeat u8
    Header ,Header
, char
msg_type,float64 msg_type`two words` ,
//	t
// packet A { u8 x, }
@leftPad ( ) repeat metadata {
    matchKey { match MetaDataX
    as
float
// `tick` ""quote"" 'q'
//
{
""a	b"" :	zchar	, 0123456789 : msg_type ,
""a\""b"": msg_type ,
    // @lengthOf(
    [ 3
    ] : BodyLength, """ ++ [128512]%N ++ runes_of_ascii """:
    Pad
, ""`tick`"" : lengthOf , } ,u64
BodyLength `100% of %d` , u8x@calculatedFrom(""it's"") ,
    }
, uint8 len@calculatedFrom(
""\" ++ [233]%N ++ runes_of_ascii """ )
    // a // b
    , T , Z9_ ,	} ,
match
    Pad// 50% %s
as f32a { 65535
    : _x } , repeat matchKey `crlf
line` ,
@lengthOf( i8i8 )
    f64 A
@calculatedFrom( ""// no comment"" ) , repeat zchar[ 255 ] float , }
options {rootA=
    i64// " ++ [128512]%N ++ runes_of_ascii " emoji
; } packet
    Pad
    {
MetaDataX {
Z9_
@lengthOf(
// " ++ [27880; 37322]%N ++ runes_of_ascii "
/// triple
Packet) ``  ,
x tag ,
    char[
//x
// `tick` ""quote"" 'q'
0123456789 ] matchKey,  zchar[
0 ] u8x@calculatedFrom(
""\" ++ [233]%N ++ runes_of_ascii """ // 50% %s
) `" ++ [28040; 24687; 31867; 22411]%N ++ runes_of_ascii "`
    // 50% %s
    , }
// c
//
,
    @calculatedFrom(""\" ++ [233]%N ++ runes_of_ascii """
)
body @lengthOf(  roots ) , f32a	x
    , roots
    //	t
    @lengthOf( MetaDataX )`crlf
line` , @lengthOf(
    u8x	)
    f64
    Logon @lengthOf(	asx ) , repeat zchar[ 3]
Packet
    `say ""hi""`  ,
i16 // " ++ [27880; 37322]%N ++ runes_of_ascii "
x @calculatedFrom(
""packet"" ) ,
    @rightPad
    (  ' ' ) @lengthOf(
a1 ) stringy packetx ,// 50% %s
As @lengthOf(  u128) , }	root packet
Logon
    // c
    { Pad @calculatedFrom( """"
    ), }
")).
Eval vm_compute in ("<<<M1389>>>" ++ check (runes_of_ascii "options	{ x = '0'  } packet calculatedFrom
{
    repeat len
{ f64
    //	t
    zchar `
` ,
    } ,
    @rightPad (
    ' '
// " ++ [128512]%N ++ runes_of_ascii " emoji
// 50% %s
) @calculatedFrom( ""\" ++ [233]%N ++ runes_of_ascii """ )@lengthOf(
    Header )
    char[]
rootA `say ""hi""`,repeat u8
    // c
    chars
    `say ""hi""` ,
@tag( 42  )
    @leftPad ('\x00' )@calculatedFrom(  ""\" ++ [233]%N ++ runes_of_ascii """ ) string len @calculatedFrom(  ""x y""
    )`it's` , u @calculatedFrom( ""a\\"" )
// " ++ [27880; 37322]%N ++ runes_of_ascii "
// @lengthOf(
`two words` // @lengthOf(
,  @leftPad
( ) match	x as	Logon { 00
    :
    //
    metadata, [
    // a // b
    ""a\""b""  , 0
    ,
// `tick` ""quote"" 'q'
// trailing space 
007 , 007 ,007 //	t
] //
: body ,
    007 : As } ,// @lengthOf(
options1@calculatedFrom( """ ++ [233]%N ++ runes_of_ascii "t" ++ [233]%N ++ runes_of_ascii """
    )`" ++ [233]%N ++ runes_of_ascii "`
,/// triple
repeat
char[] //x
x `100% of %d`	,@calculatedFrom(// " ++ [27880; 37322]%N ++ runes_of_ascii "
""`tick`""  )
o @calculatedFrom( """ ++ [128512]%N ++ runes_of_ascii """ ) `
`, } options { // @lengthOf(
stringy= float32 metadata
=
    uint16 repeatCount
    =""" ++ [28040; 24687]%N ++ runes_of_ascii """; leftPad =	false } packet Z9_// packet A { u8 x, }
{ @tag(
00
//
//x
) repeat
    int
{ u16// packet A { u8 x, }
chars
, }
,x
{
    //	t
    repeat
roots,// `tick` ""quote"" 'q'
}
, @tag( 0123456789 ) repeat zchar{ char[ 007]i8i8
    @lengthOf( crc //	t
) // a // b
`crlf
line`, calculatedFrom metadata ,
//	t
//	t
char[ 0123456789 // " ++ [27880; 37322]%N ++ runes_of_ascii "
]x
    // " ++ [27880; 37322]%N ++ runes_of_ascii "
    , } , }

")).
Eval vm_compute in ("<<<M4028>>>" ++ check (runes_of_ascii "packet len {
    repeat Pad {
        match A as x {
            [
                ""1"", 42, 0123456789, ""abc"", ""it's"",
                """ ++ [233]%N ++ runes_of_ascii "t" ++ [233]%N ++ runes_of_ascii """, 7, 10
            ] : calculatedFrom,
            0 : len,
        },
        int8 string_,// a // b
        repeat repeatCount,
    },
    f64 As,
    zchar[7] x `" ++ [233]%N ++ runes_of_ascii "`,
    @calculatedFrom(""a\\"")
    Header {
        //x
        /// triple
        repeat char[255] metadata,
        pack @lengthOf(T),
    },
}

packet T {
    float64 u8x `// not a comment`,
    match u128 as roots {
        [""" ++ [128512]%N ++ runes_of_ascii """] : msg_type,
        ""\n"" : u8x,
        00 : crc,
    },
    u16 lengthOf @calculatedFrom(""" ++ [233]%N ++ runes_of_ascii "t" ++ [233]%N ++ runes_of_ascii """),
    @tag(1)
    zchar[7] falsey `doc`,
    char[] metadata,
    Packet @calculatedFrom(""`tick`""),//	t
    @tag(42)
    A,
    // " ++ [128512]%N ++ runes_of_ascii " emoji
    // packet A { u8 x, }
    Packet @calculatedFrom(""{,}""),
}

options {
    Pad = false
    T = '\x00';
    asx = false;
    _x = ""\" ++ [233]%N ++ runes_of_ascii """;
}

packet float {
    uint8x {
        repeatCount,
        u32 lengthOf @calculatedFrom(""a	b"") `" ++ [233]%N ++ runes_of_ascii "`,
        i16 u,
    },
}

root packet Foo {
    match asx as Foo {
        [""" ++ [128512]%N ++ runes_of_ascii """, ""1""] : roots,
        ""`tick`"" : a1,
        0123456789 : string_,
    },
}")).
Eval vm_compute in ("<<<M1046>>>" ++ check (runes_of_ascii "packet crc{ repeat
zchar[
    7] Foo , repeat // c
u64
    pack
`u8 x,`	, u8x
{ char[]charz @lengthOf(
i8i8
    ) ,repeat crc , metadata { charz
, options1 string_
    // `tick` ""quote"" 'q'
    `crlf
line`
, } , char[
255] trueish , },
@lengthOf( As )@tag( 65535 )
u64 i64_ `it's` , len// @lengthOf(
{
    metadata
    {  zchar[ 00
    ]
trueish ,// c
}
, zchar[
65535 ]chars ,
match
    string_
as int
// 50% %s
// packet A { u8 x, }
{
65535 :  metadata	, """ ++ [128512]%N ++ runes_of_ascii """: u
,	[
    3// " ++ [27880; 37322]%N ++ runes_of_ascii "
, 3]
:
    As ,  42
    :int
, 1 : o , }
,
// " ++ [128512]%N ++ runes_of_ascii " emoji
// @lengthOf(
}
    ,	@calculatedFrom(
""a\""b""
) char[
65535 ] _x`
`	,  @calculatedFrom( ""1""  ) u128 rootA, // packet A { u8 x, }
int64
    i64_@lengthOf(charz )
    `crlf
line`, repeat roots,
@lengthOf(
    _x
    )
float
    @calculatedFrom(""x y"" ) `doc`,}root
packet  packetx{@rightPad ( )
    repeat u64 uint8x // @lengthOf(
,
@calculatedFrom(  """" )
@calculatedFrom(
""" ++ [233]%N ++ runes_of_ascii "t" ++ [233]%N ++ runes_of_ascii """ ) i32 pack// trailing space 
,
repeat /// triple
f64 T
    `say ""hi""`	, }MetaData	Logon
{ u8x
// " ++ [27880; 37322]%N ++ runes_of_ascii "
// " ++ [128512]%N ++ runes_of_ascii " emoji
Foo ,
char[ // `tick` ""quote"" 'q'
65535]// " ++ [27880; 37322]%N ++ runes_of_ascii "
int // " ++ [27880; 37322]%N ++ runes_of_ascii "
, }")).
Eval vm_compute in ("<<<M734>>>" ++ check (runes_of_ascii "root// 50% %s
packet
    // @lengthOf(
    Foo{ char[] lengthOf ,@rightPad (
    // c
    '0' ) string i8i8 ,
    repeat uint32 u8x
    // trailing space 
    ,
    @tag( 255 ) char[]  leftPad`" ++ [28040; 24687; 31867; 22411]%N ++ runes_of_ascii "` ,falsey @calculatedFrom( ""a	b"")	`crlf
line` ,	@rightPad
(
    ' ' ) zchar[ 65535 ]
matchKey ,}
root
    packet f32a {  repeat packetx
    ,
//
// " ++ [27880; 37322]%N ++ runes_of_ascii "
@lengthOf( matchKey ) match MetaDataX as i8i8 // trailing space 
{ 7 :u8x// " ++ [128512]%N ++ runes_of_ascii " emoji
,
""a	b""
// a // b
// a // b
: calculatedFrom, }  ,  @calculatedFrom( ""1"" )
    // `tick` ""quote"" 'q'
    lengthOf@lengthOf(
    f32a
    // trailing space 
    ) , len A ,
    chars
/// triple
// @lengthOf(
@lengthOf(calculatedFrom ) ,	zchar[ 0123456789 ] f32a
, char[]
// " ++ [128512]%N ++ runes_of_ascii " emoji
// " ++ [128512]%N ++ runes_of_ascii " emoji
metadata
`tab	here` , As @lengthOf( _x
    )
    `say ""hi""`  , }
root packet
As { int32 metadata
`" ++ [233]%N ++ runes_of_ascii "`
//x
// trailing space 
, x , } options{ x=
char[ 10 // a // b
] ;  x_y_z	= zchar[ // " ++ [27880; 37322]%N ++ runes_of_ascii "
007 ] // a // b
; matchKey =
zchar[
00 ]
asx
// packet A { u8 x, }
// a // b
= zchar[ 0123456789  ]
    //
    }
")).
Eval vm_compute in ("<<<M4201>>>" ++ check (runes_of_ascii "
root	packet Header

{@lengthOf( x_y_z	// packet A { u8 x, }
    )	// packet A { u8 x, }

@tag( 
  //x
  // 50% %s

  0123456789)@lengthOf( As

)	string
    len `two words` ,  match

    Pad as
	_x

    {
	""\" ++ [233]%N ++ runes_of_ascii """ :Z9_
    ,} , i8i8 @lengthOf( repeatCount 	 // trailing space 
	) 
    //x

//x
`doc` 
, char[ 0  // trailing space 
]
    chars
,@leftPad ( ' ' )Logon `tab	here`	,  // c
  	@calculatedFrom(""\" ++ [233]%N ++ runes_of_ascii """	) 
repeat 
zchar
    {
zchar[
4294967296] A
`
`

    ,
    repeat a1

    { //	t

	repeat
    Header
,	zchar[ 7 ] packetx

    `{ , }`

    ,

char[ 
007 ]

_x
, } ,

match
	chars
as o {
""\" ++ [233]%N ++ runes_of_ascii """

    :	// " ++ [27880; 37322]%N ++ runes_of_ascii "
	calculatedFrom ""\n""
:u8x ,

""a	b""
    :Pad 	 //
	,	65535:int

    ,
	}  , char[] float 	 // @lengthOf(
  @lengthOf(  lengthOf

)	,
}
	,

    uint32

asx`
`

    ,
    char[] uint8x

@calculatedFrom( //x

	""abc"" 
) ,
//

  @tag(

255 )

    @calculatedFrom( 
""a\\""  ) zchar[ 
3  ]

    options1

    ,  charz 
`two words` , 
// c
} ")).
Eval vm_compute in ("<<<M4267>>>" ++ check (runes_of_ascii "
packet
u
	{match Z9_ as  Z9_ { 7
:

    packetx ,

    } // packet A { u8 x, }
, uint8x	`// not a comment` , @lengthOf( 
	    // @lengthOf(
	x)pack
	`line1
line2`

    ,@tag(
65535)
x_y_z

    `a\`

,float32	tag `100% of %d`
, 
leftPad  leftPad

    ,@calculatedFrom( ""CRC32"" 
)
	@rightPad
(
' ' 
)string 
x
	    // " ++ [27880; 37322]%N ++ runes_of_ascii "
		// " ++ [128512]%N ++ runes_of_ascii " emoji
    	, // " ++ [128512]%N ++ runes_of_ascii " emoji
      @leftPad  (' ' )i8  
      // `tick` ""quote"" 'q'
    // packet A { u8 x, }
		T @lengthOf( Z9_)

    ,packetx
	@calculatedFrom(""packet""

    )

,
} options
{ u8x =
007;
x_y_z

=  ""a	b""; }	packet
    falsey { @lengthOf(
int

) @calculatedFrom(  ""// no comment"" )	@calculatedFrom(
	""" ++ [28040; 24687]%N ++ runes_of_ascii """
) 
        // @lengthOf(
	zchar[ 4294967296 	 //
]//	t
  u 
,
	int8

BodyLength@lengthOf(	f32a
	)	,
	@tag(4294967296)

uint16 calculatedFrom

`doc`
, float32  As

,} packet

tag

{ }

packet

    leftPad	{ @rightPad 
(

    )  repeat char[42 ]	i8i8  ,	}
")).
Eval vm_compute in ("<<<M4192>>>" ++ check (runes_of_ascii "options {
    asx = int64;
    f32a = """ ++ [28040; 24687]%N ++ runes_of_ascii """;
}

options {
    // trailing space 
    repeatCount = ""a	b"";
}

options {
    Packet = ""\n""
}

root packet stringy {
    char[007] metadata,
    i8i8 @calculatedFrom(""a\\""),
    @tag(4294967296)
    match stringy as msg_type {
        // trailing space 
        /// triple
        [""a	b"", 1, 1, 42, 007] : string_,
        """ ++ [28040; 24687]%N ++ runes_of_ascii """ : string_,
        42 : lengthOf,
        [""a\\"", 65535] : _x,
    },
    zchar leftPad `a\`,
    Foo {
        u64 falsey `" ++ [233]%N ++ runes_of_ascii "`,
    },
    @calculatedFrom(""CRC32"")
    @tag(65535)
    i16 leftPad @calculatedFrom(""" ++ [28040; 24687]%N ++ runes_of_ascii """),// " ++ [27880; 37322]%N ++ runes_of_ascii "
    asx,
    repeat matchKey,
    @rightPad(' ')
    int32 metadata `{ , }`,
    match options1 as Foo {
        255 : i64_,
        [""a\\""] : lengthOf,
        ""it's"" : int,
        3 : zchar,
        // c
    },
}

MetaData As {
    //
    chars calculatedFrom `crlf
    line`,
}")).
Eval vm_compute in ("<<<M1031>>>" ++ check (runes_of_ascii "MetaData leftPad { // `tick` ""quote"" 'q'
calculatedFrom
    T,
float64  roots `say ""hi""`, uint32 leftPad
    `100% of %d`,	zchar[
00] _x
//x
//x
,
// " ++ [128512]%N ++ runes_of_ascii " emoji
/// triple
} packet string_ { }
    MetaData calculatedFrom{float
Z9_ , Z9_ T`tab	here`,zchar[
    3
    // " ++ [128512]%N ++ runes_of_ascii " emoji
    ]
leftPad `{ , }`  ,string T `" ++ [233]%N ++ runes_of_ascii "`
, char[] lengthOf
    `" ++ [28040; 24687; 31867; 22411]%N ++ runes_of_ascii "`
, }root packet Header
    {repeat zchar[0123456789]x
, char[ 3 ] options1
    @lengthOf( i8i8
)  ,repeatCount ,@lengthOf(BodyLength ) i16 f32a ,	char  leftPad
@lengthOf(  uint8x )	,@lengthOf( repeatCount  ) char[]
    falsey // a // b
@lengthOf( Foo )`tab	here`, @tag(
    1)string// `tick` ""quote"" 'q'
rootA // packet A { u8 x, }
, repeat
    u16 crc `doc` , } root packet // " ++ [128512]%N ++ runes_of_ascii " emoji
BodyLength
{@tag( 3) // c
@lengthOf(
rootA) match Pad as//
zchar { ""a\\"": /// triple
options1 , } , }
")).
Eval vm_compute in ("<<<M3626>>>" ++ check (runes_of_ascii "
// top

packet
    // c0
  A
	// c1
    { 
      // c2
		match 
// c3
  packetx 
    // c4

  as 
    // c5
      BodyLength 
    // c6
  { 
  // c7
      007

    // c8
    :
	// c9
  A 

    // c10
      """ ++ [28040; 24687]%N ++ runes_of_ascii """
// c11
	:  
      // c12
x_y_z 
    // c13
	, 

    // c14
    """ ++ [128512]%N ++ runes_of_ascii """
        // c15
  : 
	// c16
  	crc

// c17
  [  
  // c18

	""{,}"" 

// c19
    , 

    // c20
""\n"" 
// c21
	,  
  // c22

""" ++ [233]%N ++ runes_of_ascii "t" ++ [233]%N ++ runes_of_ascii """ 
	    // c23
    ,  
  // c24
""x y""  
  // c25
  ,
    // c26
""a\""b""

    // c27
  ] 

    // c28
:
        // c29

	stringy 
    // c30

  ,
        // c31
  } 
        // c32
,  
      // c33
    }
    // c34
  root
// c35

	packet
// c36
i64_

// c37
	  {

// c38
    	repeat 
// c39
	  pack
    // c40
`100% of %d`
        // c41
  	,  
  // c42
} 

    // c43
")).
Eval vm_compute in ("<<<M609>>>" ++ check (runes_of_ascii "
packet o
{
    repeat
uint16
    chars
    ,
    // " ++ [27880; 37322]%N ++ runes_of_ascii "
    }
    /// triple
    options { x=	char[ 42] ;}packet	u8x // packet A { u8 x, }
{
    repeat lengthOf `a\`,// 50% %s
matchKey leftPad`{ , }`, @tag(7 ) //
char[00 ] tag `" ++ [28040; 24687; 31867; 22411]%N ++ runes_of_ascii "` , match
    msg_type as	x_y_z
    {	255 :
    calculatedFrom
    // " ++ [128512]%N ++ runes_of_ascii " emoji
    , 7
:
    charz
    [ """ ++ [233]%N ++ runes_of_ascii "t" ++ [233]%N ++ runes_of_ascii """
,	""it's"" ] : uint8x ,
    ""\" ++ [233]%N ++ runes_of_ascii """: u8x ,
    /// triple
    [ 3 , 42 , """ ++ [28040; 24687]%N ++ runes_of_ascii """, 00 ,
    00 , """ ++ [233]%N ++ runes_of_ascii "t" ++ [233]%N ++ runes_of_ascii """ , ""1""
]: crc , }	,repeat
    // " ++ [27880; 37322]%N ++ runes_of_ascii "
    a1// " ++ [27880; 37322]%N ++ runes_of_ascii "
u128//
, @calculatedFrom( """ ++ [233]%N ++ runes_of_ascii "t" ++ [233]%N ++ runes_of_ascii """ ) repeat
// " ++ [27880; 37322]%N ++ runes_of_ascii "
// 50% %s
calculatedFrom
len`` , u16 x  `say ""hi""` ,
uint32
rootA @lengthOf(
    Header	) `crlf
line` , @rightPad (' ') @leftPad
    //x
    ( ) @calculatedFrom(	""a\""b"" )zchar[3] Foo@calculatedFrom( ""`tick`"" ) , len roots
,
}")).
Eval vm_compute in ("<<<M508>>>" ++ check (runes_of_ascii "root packet // @lengthOf(
Foo { @lengthOf(
    Logon )	@calculatedFrom(  ""{,}"" )
@calculatedFrom( ""`tick`""
) match
    roots as charz { 7 :
// a // b
/// triple
string_ } , u64 u @calculatedFrom( //x
""\" ++ [233]%N ++ runes_of_ascii """ ),
@tag(  007 ) @lengthOf( zchar) match body// 50% %s
as trueish{ [	10
,// @lengthOf(
""packet""
, 3//	t
,0 ,
    00 , """" ]
    //	t
    :  repeatCount , [4294967296 ]	: Logon
[ ""CRC32""  ,""it's""  ] :
    x_y_z ,}
    , }	packet/// triple
repeatCount	{matchKey{
    repeat  char crc
    ,char[  10 ]u8x @calculatedFrom(
""1""
    ) ,	char[]matchKey
    @lengthOf( o ) , } , i32 T @lengthOf(	crc
    )`" ++ [233]%N ++ runes_of_ascii "` , @lengthOf( Foo )calculatedFrom
// trailing space 
// @lengthOf(
@lengthOf(
options1 ),	Packet //x
@lengthOf(
repeatCount )
,
}")).
Eval vm_compute in ("<<<M586>>>" ++ check (runes_of_ascii "packet repeatCount
{ char[
    00 ] uint8x ,
    // a // b
    @calculatedFrom(
""a\\"" ) asx
    @lengthOf( charz ) ,} packet string_
{ @calculatedFrom( ""it's"" )repeat
// 50% %s
//
char[]BodyLength , @calculatedFrom(
""abc"") int32	x,@tag( 255 ) @calculatedFrom( """ ++ [28040; 24687]%N ++ runes_of_ascii """ ) @tag(
0123456789	) char[ 65535 // `tick` ""quote"" 'q'
] len	, @tag( 0123456789	) @lengthOf( stringy ) int
/// triple
/// triple
, @tag(
// `tick` ""quote"" 'q'
//	t
65535) MetaDataX { A `it's`,
float64 options1
@calculatedFrom(
""// no comment"" )
    , } , @rightPad ( '\x00'
    ) zchar[ 007
    ] rootA @lengthOf( lengthOf )
`" ++ [28040; 24687; 31867; 22411]%N ++ runes_of_ascii "`
/// triple
// @lengthOf(
,	@lengthOf( crc ) repeat	string charz,
    @tag(1 ) repeat a1 ,
    }")).
Eval vm_compute in ("<<<M4039>>>" ++ check (runes_of_ascii "options
{ Header
=  ""a\\""}packet x 
{
}  packet
repeatCount  {
zchar[
	00 ]

asx ,

    @calculatedFrom(
""// no comment"")

    match body

    as
Logon

{ ""abc"" : 
chars  42 :A,
""// no comment"" : crc ,	[
""""	]

    :
f32a
,4294967296  : falsey
	""x y"" :
u8x  } , 
@rightPad (
' '
) u32 stringy@lengthOf(

    lengthOf )
	, Foo `say ""hi""`	// packet A { u8 x, }
,crc
`100% of %d`
,@leftPad

    (

'\x00' )
	u8x o,zchar[ 255
] tag `u8 x,`
, 
} packet f32a {}
    // @lengthOf(
		// @lengthOf(
    root  packet 
      // packet A { u8 x, }
	// 50% %s
	msg_type	{@calculatedFrom( ""`tick`"" )char[]

    crc

,
    int

    options1
, //
      asx,

} ")).
Eval vm_compute in ("<<<M482>>>" ++ check (runes_of_ascii "packet chars { // " ++ [27880; 37322]%N ++ runes_of_ascii "
@tag( 1 )crc,repeat
    T
{ lengthOf
@lengthOf(	chars)
`{ , }` , repeat zchar[0123456789 ]
int , } , repeat // " ++ [27880; 37322]%N ++ runes_of_ascii "
zchar[ 42] x
`two words` ,	zchar[ 65535 ]
asx
    // @lengthOf(
    , calculatedFrom , _x
leftPad
    // trailing space 
    ,//x
Pad
    { int16 x `tab	here` ,
    } , i64 charz @calculatedFrom(""abc""  ) , }options {a1
= 42 Packet
    =true ; // packet A { u8 x, }
Foo
= '0'
    As = true
; /// triple
Foo	= zchar[ 3
    ]
; }
packet
    a1{@calculatedFrom(
""abc"" //x
)metadata , @rightPad ( '0' ) Z9_
    ,
@lengthOf(packetx ) o @lengthOf( Header  ) `it's`
    , char[]
int
    @lengthOf( msg_type )
    ,
}")).
Eval vm_compute in ("<<<M637>>>" ++ check (runes_of_ascii "root packet
// " ++ [27880; 37322]%N ++ runes_of_ascii "
// trailing space 
crc
// `tick` ""quote"" 'q'
//x
{
int8 Header `a\`
    ,
// c
// @lengthOf(
@leftPad (
    ' '
    )repeat calculatedFrom`
`
    , int32 matchKey
, @leftPad ( )@lengthOf(
    u ) @calculatedFrom(// a // b
""""  )repeat // @lengthOf(
char[]
    string_ , uint64 _x ,@leftPad (' ' )  string body // trailing space 
@calculatedFrom( ""a\\"" )
`{ , }` , @calculatedFrom( ""a	b"" ) @calculatedFrom(
    ""// no comment"" )char[]
Packet// packet A { u8 x, }
@calculatedFrom( ""a\""b"" ) `say ""hi""` ,
    // @lengthOf(
    crc
tag
// " ++ [128512]%N ++ runes_of_ascii " emoji
//
,@leftPad
    ( '\x00' //x
) @calculatedFrom( ""\n""	) _x
, }
")).
Eval vm_compute in ("<<<M109>>>" ++ check (runes_of_ascii "packet
calculatedFrom { Header @lengthOf( T
    )
    `" ++ [233]%N ++ runes_of_ascii "`
,}
root
packet T
{
    @tag( 4294967296) // a // b
string
    string_
// packet A { u8 x, }
// `tick` ""quote"" 'q'
@calculatedFrom(
// trailing space 
/// triple
""""), zchar[
007 ]  i64_, // " ++ [27880; 37322]%N ++ runes_of_ascii "
@tag( 4294967296) msg_type	@calculatedFrom( ""1""	) ,
x
{
    // c
    Packet, }, repeat u8 T
// c
/// triple
`a\` ,f32a
// trailing space 
//	t
@lengthOf( float
    // packet A { u8 x, }
    ) , @calculatedFrom( """ ++ [233]%N ++ runes_of_ascii "t" ++ [233]%N ++ runes_of_ascii """ )match crc
as
repeatCount{ ""a	b"": pack, } , @calculatedFrom(
    ""it's""
)f64
uint8x @lengthOf(crc ) `two words` ,
char[] tag ,}
")).
Eval vm_compute in ("<<<M68>>>" ++ check (runes_of_ascii "// packet A { u8 x, }
MetaData len { uint16 stringy	`tab	here` , char  msg_type ,}packet Header{leftPad{ trueish , u
, repeat crc asx ,
} , @calculatedFrom(""" ++ [128512]%N ++ runes_of_ascii """
) // packet A { u8 x, }
uint32
int ,calculatedFrom @calculatedFrom( ""\n"") , @leftPad (
    ' ' )@calculatedFrom( """ ++ [233]%N ++ runes_of_ascii "t" ++ [233]%N ++ runes_of_ascii """ )@tag( 007 )
    // packet A { u8 x, }
    char[ 00] As , } packet _x { /// triple
@calculatedFrom( """ ++ [128512]%N ++ runes_of_ascii """	) repeat calculatedFrom
`" ++ [28040; 24687; 31867; 22411]%N ++ runes_of_ascii "`,@tag( 10
)
// a // b
// c
repeat
    Foo, @calculatedFrom(
    // @lengthOf(
    ""abc"") @calculatedFrom(""x y"") @lengthOf( i64_) repeat Z9_
    int
    `u8 x,` ,
}")).
Eval vm_compute in ("<<<M134>>>" ++ check (runes_of_ascii "root
packet // packet A { u8 x, }
MetaDataX	{
    match msg_type as _x{ ""CRC32"": pack //
, } ,@calculatedFrom( ""1""	) repeat
charz { chars{ u64 tag `u8 x,` ,
    repeat
    a1
{match
charz // " ++ [128512]%N ++ runes_of_ascii " emoji
as Logon { 0 : // " ++ [27880; 37322]%N ++ runes_of_ascii "
Packet , 4294967296 :
    f32a[""\" ++ [233]%N ++ runes_of_ascii """ , 4294967296 , ""x y"" , 65535
,  """ ++ [128512]%N ++ runes_of_ascii """, 7 ]:
    trueish , 007:Foo, ""packet""
: rootA , } ,
falsey
    @calculatedFrom(""1""
    // `tick` ""quote"" 'q'
    )
, } , // `tick` ""quote"" 'q'
char[]len  ,} ,match trueish as crc { 42
: chars } , int64 MetaDataX@calculatedFrom( ""`tick`"" )	`100% of %d` , } ,
}
")).
Eval vm_compute in ("<<<M3489>>>" ++ check (runes_of_ascii "packet Sub
    // c1
{
    // c2
u8 // c3a
  // c3b
a // c4
, // c5
u16
    // c6
SubSum // c7a
  // c7b
@calculatedFrom( ""CRC16"" // c9a
  // c9b
) // c10
,
    // c11
} // c12a
  // c12b
root packet Frame
    // c15
{
    // c16
u16
    // c17
MsgType // c18
,
    // c19
u16 BodyLen // c21
@lengthOf( // c22
Body ) // c24a
  // c24b
, // c25a
  // c25b
Sub
    // c26
Body , string // c29
note ,
    // c31
u16 // c32
Checksum @calculatedFrom(
    // c34
""CRC16"" // c35
) // c36
, // c37
u8 tail ,
    // c40
} // c41a
  // c41b
")).
Eval vm_compute in ("<<<M486>>>" ++ check (runes_of_ascii "packet lengthOf { @calculatedFrom(""`tick`"" ) @calculatedFrom( ""x y"" )@tag(
    42 ) i8i8`` , match MetaDataX
    as len { 4294967296
: roots	, """ ++ [28040; 24687]%N ++ runes_of_ascii """
: u128
, """ ++ [233]%N ++ runes_of_ascii "t" ++ [233]%N ++ runes_of_ascii """ // 50% %s
:	packetx } ,	@tag(255 ) match i64_ as	Z9_
    { [ ""a	b""
]
    :stringy , // " ++ [27880; 37322]%N ++ runes_of_ascii "
""abc""
    :
matchKey // `tick` ""quote"" 'q'
[	00
,
    42 , """ ++ [233]%N ++ runes_of_ascii "t" ++ [233]%N ++ runes_of_ascii """ ,""""
,	""abc""
] :  i8i8
,	65535 // trailing space 
: body ,
""x y"" : zchar ,[
""" ++ [233]%N ++ runes_of_ascii "t" ++ [233]%N ++ runes_of_ascii """]
    : packetx } ,
    @lengthOf(
matchKey )int`
`, @lengthOf(  chars //x
) float32
matchKey //x
, }")).
Eval vm_compute in ("<<<M1178>>>" ++ check (runes_of_ascii "root packet
// `tick` ""quote"" 'q'
// packet A { u8 x, }
chars
    {  } packet
rootA {
    repeat x_y_z{ BodyLength
{repeat Z9_ {
    crc	falsey `it's`// a // b
,
i64 len
// c
/// triple
@calculatedFrom(
""{,}"" ) , }
, } ,	body _x , zchar[ 42
] asx
`two words` , repeat string u `" ++ [233]%N ++ runes_of_ascii "`
    // packet A { u8 x, }
    , } ,
float64 // " ++ [128512]%N ++ runes_of_ascii " emoji
uint8x `it's`
, Pad	, @tag( 007	)
    /// triple
    Foo
    @calculatedFrom(
    ""// no comment"" ) `100% of %d`
// `tick` ""quote"" 'q'
//x
, }
")).
Eval vm_compute in ("<<<M598>>>" ++ check (runes_of_ascii "packet
    u8x {
pack	@calculatedFrom( ""a	b"") , }packet u // @lengthOf(
{ calculatedFrom @calculatedFrom(
""\" ++ [233]%N ++ runes_of_ascii """ )  `say ""hi""`
    , trueish @lengthOf( calculatedFrom
), u8 trueish `` ,
    zchar[
    0123456789 ]
int @calculatedFrom(
""packet"")
    ,	@leftPad (
'0'
    )
// trailing space 
/// triple
@tag( 007 ) match matchKey // " ++ [27880; 37322]%N ++ runes_of_ascii "
as _x{ ""packet"" : Header , } , char[]
    asx@lengthOf(	f32a ) , options1@lengthOf(
matchKey )// c
`a\`
    ,
} // " ++ [128512]%N ++ runes_of_ascii " emoji")).
Eval vm_compute in ("<<<M1167>>>" ++ check (runes_of_ascii "
packet
i8i8
{ // 50% %s
@rightPad
( ' ' )
@lengthOf( i64_ )@calculatedFrom(
""abc""
)
string crc	@calculatedFrom( """ ++ [128512]%N ++ runes_of_ascii """
) ,	char[
7 ] float  @calculatedFrom( ""{,}""
    )
    ,@rightPad( '\x00')match _x
as As	{
// " ++ [27880; 37322]%N ++ runes_of_ascii "
// `tick` ""quote"" 'q'
""\n""
:	asx[ 7 , """ ++ [28040; 24687]%N ++ runes_of_ascii """
    , ""\n""	, 0
    , 1 ] : leftPad,	0123456789	: len """ ++ [128512]%N ++ runes_of_ascii """ : Header
,
""a\\""
: // " ++ [27880; 37322]%N ++ runes_of_ascii "
u
, 4294967296 /// triple
:
    a1 } , @calculatedFrom(""\n"" ) float32 Header``
,// " ++ [128512]%N ++ runes_of_ascii " emoji
}
")).
Eval vm_compute in ("<<<M469>>>" ++ check (runes_of_ascii "packet f32a // c
{
    @calculatedFrom( """ ++ [128512]%N ++ runes_of_ascii """
) char[
65535
    ] Logon , } packet calculatedFrom {
/// triple
//
char[ /// triple
00
] x`{ , }` ,
    // 50% %s
    @lengthOf(A  )
@tag( 00) @lengthOf( MetaDataX)repeat chars
{
repeat Logon {
zchar[
    007	]	uint8x
    ,	}
,	len @lengthOf( charz)`` //
,/// triple
}
, @calculatedFrom(// 50% %s
""{,}"" ) repeat Logon  { uint64
len @lengthOf(u8x ) ,
}	, }
packet u128 { }")).
Eval vm_compute in ("<<<M3761>>>" ++ check (runes_of_ascii "packet metadata {
    uint8x {
        repeat u16 string_,
    },
}

packet MetaDataX {
    @rightPad(' ')
    tag {
        zchar[007] tag @calculatedFrom(""1""),
        string u,
        repeat A T,
        // 50% %s
        // packet A { u8 x, }
        roots @lengthOf(Logon),
    },
    @calculatedFrom(""" ++ [28040; 24687]%N ++ runes_of_ascii """)
    repeat string_ `tab	here`,
}

packet x {
    float32 BodyLength @lengthOf(Header) `doc`,
}")).
Eval vm_compute in ("<<<M3932>>>" ++ check (runes_of_ascii "// `tick` ""quote"" 'q'
packet u {
}

MetaData Packet {
    int64 u128,
    x crc `
        `,
    float64 len,
    f32 A `
        `,// 50% %s
}

//x
// `tick` ""quote"" 'q'
root packet crc {
    body {
        f64 leftPad,
        a1,
    },
    repeat uint8x {
        repeat f32 string_ `
                `,
        int8 T @calculatedFrom("""") `say ""hi""`,
        uint8 repeatCount,
    },
}")).
Eval vm_compute in ("<<<M159>>>" ++ check (runes_of_ascii "MetaData A // a // b
{
    uint32 T
`doc` , uint32 BodyLength `{ , }`
    ,
    Foo f32a, i32 falsey , }
    root	packet _x {
repeat float32 pack  `doc`
// packet A { u8 x, }
// packet A { u8 x, }
,	char[ // @lengthOf(
3 ] float //
`` , match x as int{ ""`tick`"" :string_ ,}, repeat
repeatCount // `tick` ""quote"" 'q'
asx`say ""hi""` ,
zchar[
    10]roots, // 50% %s
}
")).
Eval vm_compute in ("<<<M4164>>>" ++ check (runes_of_ascii "MetaData chars// trailing space 

{	zchar[	255
]  uint8x
,
    u8

    body , // " ++ [27880; 37322]%N ++ runes_of_ascii "
  char[

1
] // packet A { u8 x, }
    	A 
    //	t
    // a // b
	, 
float32

As`` 	 // @lengthOf(

,	BodyLength  roots //
  `// not a comment`
	, } options
{ 
Pad =
    42

; pack

    = 
true 
pack
=	false

    ; // 50% %s
	len=	' '// trailing space 
	;
	} ")).
Eval vm_compute in ("<<<M267>>>" ++ check (runes_of_ascii "packet As { // c
repeat int32
charz `doc` , }
MetaData options1 //x
{ } MetaData BodyLength { falsey u8x
// a // b
// packet A { u8 x, }
`two words`, string_ u8x
`{ , }` , string_	i64_
//x
// " ++ [128512]%N ++ runes_of_ascii " emoji
`100% of %d`,
int8 asx
`tab	here`
    ,
    } packet f32a{ @leftPad ( ' ') char[ 1 ] msg_type
@calculatedFrom( ""it's"" ),  msg_type, }
")).
Eval vm_compute in ("<<<M1288>>>" ++ check (runes_of_ascii "// c
options{
chars = '\x00' ; pack = true
float
=0123456789// c
}packet i64_ { string lengthOf
    @lengthOf(
    u8x // " ++ [128512]%N ++ runes_of_ascii " emoji
)
    `it's`	, msg_type	`" ++ [233]%N ++ runes_of_ascii "` ,
    f32 body `line1
line2`,A // " ++ [27880; 37322]%N ++ runes_of_ascii "
{zchar[0] Foo // 50% %s
@lengthOf( x ) ,
i32 body @calculatedFrom(""`tick`"" )`doc`
,
} ,u8	i8i8 @lengthOf( Logon //
) `a\`, } 	 ")).
Eval vm_compute in ("<<<M266>>>" ++ check (runes_of_ascii "
packet stringy
    { // c
u8 Header// 50% %s
@calculatedFrom(
""it's""), calculatedFrom f32a, zchar[
    /// triple
    7
] chars
@lengthOf( x ),repeat
As //x
{ u8x crc
`
` ,	} , @tag(7) //x
i16 rootA `it's`	, @calculatedFrom( """ ++ [128512]%N ++ runes_of_ascii """ ) i8 i8i8 `line1
line2` ,
repeat  char charz `say ""hi""` , } options
    { }")).
Eval vm_compute in ("<<<M1132>>>" ++ check (runes_of_ascii "
root // " ++ [128512]%N ++ runes_of_ascii " emoji
packet MetaDataX {  @leftPad(
' ' )  crc @calculatedFrom( """ ++ [128512]%N ++ runes_of_ascii """ )
    , @tag( 4294967296 )
    @leftPad( )
@lengthOf( body ) // " ++ [27880; 37322]%N ++ runes_of_ascii "
Header
    `doc` , }
    options
{ chars='0'
    Packet =
'0'
    // `tick` ""quote"" 'q'
    int =
    ""a\\"" tag =
'0'
//
// packet A { u8 x, }
; }
")).
Eval vm_compute in ("<<<M54>>>" ++ check (runes_of_ascii "options { /// triple
BodyLength =
// a // b
// c
""`tick`"" ;  }
packet Header
{// c
u8x { T
    {i64_ ,
} ,match tag as//
u128 // a // b
{
00	: crc ,""\n""	:metadata 255 :
    trueish [ 0 ]
    : msg_type , [
""a\\""] :u
, } , f32
i64_`" ++ [233]%N ++ runes_of_ascii "`	, repeat u
,}
,
u16
T ,
f64 BodyLength , } 	 ")).
Eval vm_compute in ("<<<M1562>>>" ++ check (runes_of_ascii "// 50% %s
packet	a1
    { zchar[
// a // b
// 50% %s
007]
T `it's`
    ,@rightPad @rightPad
    // a // b
    (
'\x00')
    o repeatCount , }  packet Logon {  }packet	Logon //x
{ repeat // " ++ [128512]%N ++ runes_of_ascii " emoji
uint16 u128
    //
    `a\`,
falsey
@calculatedFrom(""packet"" ) ,
    } 	 ")).
Eval vm_compute in ("<<<M1627>>>" ++ check (runes_of_ascii "// 50% %s
packet	a1
    { zchar[
// a // b
// 50% %s
007]
T `it's`
    ,@rightPad
    // a // b
    (
'\x00')
    o repeatCount , }  packet Logon {  }packet	Logon Logon //x
{ repeat // " ++ [128512]%N ++ runes_of_ascii " emoji
uint16 u128
    //
    `a\`,
falsey
@calculatedFrom(""packet"" ) ,
    } 	 ")).
Eval vm_compute in ("<<<M1549>>>" ++ check (runes_of_ascii "// 50% %s
packet	a1
    { zchar[
// a // b
// 50% %s
007]
f64 `it's`
    ,@rightPad
    // a // b
    (
'\x00')
    o repeatCount , }  packet Logon {  }packet	Logon //x
{ repeat // " ++ [128512]%N ++ runes_of_ascii " emoji
uint16 u128
    //
    `a\`,
falsey
@calculatedFrom(""packet"" ) ,
    } 	 ")).
Eval vm_compute in ("<<<M1703>>>" ++ check (runes_of_ascii "// 50% %s
packet	a1
    { zchar[
// a // b
// 50% %s
007]
T `it's`
    ,@rightPad
    // a // b
    (
'\x00')
    o repeatCount , }  packet Logon {  }packet	Logon //x
{ repeat // " ++ [128512]%N ++ runes_of_ascii " emoji
u%int16 u128
    //
    `a\`,
falsey
@calculatedFrom(""packet"" ) ,
    } 	 ")).
Eval vm_compute in ("<<<M1663>>>" ++ check (runes_of_ascii "// 50% %s
packet	a1
    { zchar[
// a // b
// 50% %s
007]
T `it's`
    ,@rightPad
    // a // b
    (
'\x00')
    o repeatCount , }  packet Logon {  }packet	Logon //x
{ repeat // " ++ [128512]%N ++ runes_of_ascii " emoji
uint16 u128
    //
    `a\`,
@calculatedFrom(
falsey""packet"" ) ,
    } 	 ")).
Eval vm_compute in ("<<<M1257>>>" ++ check (runes_of_ascii "root packet
metadata {
}// " ++ [128512]%N ++ runes_of_ascii " emoji
packet tag { @leftPad
    ('0'
)	@lengthOf(	asx//
) @rightPad ( // " ++ [128512]%N ++ runes_of_ascii " emoji
'\x00') repeat u16 stringy`
`
    , } options{ Foo =
    ""// no comment""leftPad
= false
; }
    packet
chars{ string
uint8x @lengthOf(float
) , }
")).
Eval vm_compute in ("<<<M1636>>>" ++ check (runes_of_ascii "// 50% %s
packet	a1
    { zchar[
// a // b
// 50% %s
007]
T `it's`
    ,@rightPad
    // a // b
    (
'\x00')
    o repeatCount , }  packet Logon {  }packet	Logon //x
{  // " ++ [128512]%N ++ runes_of_ascii " emoji
uint16 u128
    //
    `a\`,
falsey
@calculatedFrom(""packet"" ) ,
    } 	 ")).
Eval vm_compute in ("<<<M3933>>>" ++ check (runes_of_ascii "root packet//

metadata// " ++ [27880; 37322]%N ++ runes_of_ascii "
	  { // 50% %s
@calculatedFrom(

    ""1"" ) repeat i16  body 
, 
  // @lengthOf(

// c
    @calculatedFrom(	// 50% %s
""a	b""  // 50% %s
    )

char roots  `{ , }`, 
repeat	zchar[	10]  pack 	 // a // b
    `doc`	,}  //
")).
Eval vm_compute in ("<<<M576>>>" ++ check (runes_of_ascii "  packet
    zchar
    {	stringy
a1
/// triple
//	t
`
`
    , int16 falsey  @lengthOf( MetaDataX ) `say ""hi""` , @lengthOf(zchar ) zchar[ 65535] _x
`u8 x,`
,i64
// trailing space 
// " ++ [128512]%N ++ runes_of_ascii " emoji
Foo ,
} packet uint8x {} MetaData // c
u8x {
}
")).
Eval vm_compute in ("<<<M638>>>" ++ check (runes_of_ascii "options	{ MetaDataX =uint8 } root packet
leftPad
    { @calculatedFrom(
    ""{,}""
    ) @lengthOf(	charz
    ) repeat
    char[]
    // " ++ [128512]%N ++ runes_of_ascii " emoji
    tag  ,uint8 Header `say ""hi""`	, } packet i8i8	{ @lengthOf(
    string_ ) Z9_ o
,}")).
Eval vm_compute in ("<<<M1373>>>" ++ check (runes_of_ascii "
root packet chars{
@lengthOf(As ) @tag(4294967296 ) string tag
@calculatedFrom(
//x
// @lengthOf(
""{,}"" ) `tab	here`
,
} options { u128
=
    true
}packet trueish // a // b
{}MetaData len
{ int16 crc`100% of %d`,	}")).
Eval vm_compute in ("<<<M55>>>" ++ check (runes_of_ascii "options {
leftPad
=""x y""
    T
    =
true ;
    } options	{ _x=u8; } options  { u8x // `tick` ""quote"" 'q'
= char[ 1 ]	;
    // trailing space 
    metadata
    =float32 charz
= false ;
int = true
} // a // b")).
Eval vm_compute in ("<<<M4159>>>" ++ check (runes_of_ascii "packet calculatedFrom {
    @calculatedFrom(""" ++ [128512]%N ++ runes_of_ascii """)
    // @lengthOf(
    repeat zchar[007] i8i8,
    @calculatedFrom(""// no comment"")
    char[] x_y_z,
}

root packet u128 {
    i64 int @lengthOf(f32a),
}")).
Eval vm_compute in ("<<<M976>>>" ++ check (runes_of_ascii "// " ++ [27880; 37322]%N ++ runes_of_ascii "
packet rootA{string
    // 50% %s
    Pad `{ , }` , } root
packet// trailing space 
repeatCount { @lengthOf( Header //x
)int64 As
    `{ , }` ,}
options
    { charz =false } /// triple")).
Eval vm_compute in ("<<<M910>>>" ++ check (runes_of_ascii "MetaData i64_ {	string // " ++ [27880; 37322]%N ++ runes_of_ascii "
T ,i64 Logon , string_ repeatCount `a\` ,	T	i8i8 , asx o , } packet Foo
// c
// c
{ char[]
    body @calculatedFrom(
    """"
) , }
// packet A { u8 x, }
")).
Eval vm_compute in ("<<<M3405>>>" ++ check (runes_of_ascii "packet A {
    u8 a,
}
packet B {
    u16 b,
}
root packet P {
    u8 K1,
    u8 K2,
    match K1 as M1 {
        1 : A,
    },
    match K2 as M2 {
        1 : B,
    },
}
")).
Eval vm_compute in ("<<<M3618>>>" ++ check (runes_of_ascii "root packet len {
    stringy @calculatedFrom(""\n"") `line1
        line2`,
    i32 As `" ++ [233]%N ++ runes_of_ascii "`,
    @calculatedFrom(""\" ++ [233]%N ++ runes_of_ascii """)
    repeat uint64 tag,
    repeat i32 pack,
}// c")).
Eval vm_compute in ("<<<M990>>>" ++ check (runes_of_ascii "root packet len {
string_, @rightPad (	' '
) string int @lengthOf( x_y_z ) , } root packet	u128{match u8x as charz
{ 10
: options1
, 0123456789 :
charz} ,	}
")).
Eval vm_compute in ("<<<M4065>>>" ++ check (runes_of_ascii "//
options {
    MetaDataX = """ ++ [28040; 24687]%N ++ runes_of_ascii """;
    chars = f64
    options1 = 42
}

root packet roots {
    u8 metadata `tab	here`,
    BodyLength @lengthOf(body),
}")).
Eval vm_compute in ("<<<M2061>>>" ++ check (runes_of_ascii "MetaData BodyLength
{ int8 int8 Foo
, string
    MetaDataX , float zchar ,pack options1
,asx string_, }
packet u8x {Foo@lengthOf(charz )
`" ++ [28040; 24687; 31867; 22411]%N ++ runes_of_ascii "`,  }
")).
Eval vm_compute in ("<<<M2131>>>" ++ check (runes_of_ascii "MetaData BodyLength
{ int8 Foo
, string
    MetaDataX , float zchar ,pack options1
,asx string_, , }
packet u8x {Foo@lengthOf(charz )
`" ++ [28040; 24687; 31867; 22411]%N ++ runes_of_ascii "`,  }
")).
Eval vm_compute in ("<<<M2202>>>" ++ check (runes_of_ascii "MetaData BodyLength
{ int8 Foo
, string
    MetaDataX , float zchar ,pack options1
,asx string_, }
%packet u8x {Foo@lengthOf(charz )
`" ++ [28040; 24687; 31867; 22411]%N ++ runes_of_ascii "`,  }
")).
Eval vm_compute in ("<<<M2142>>>" ++ check (runes_of_ascii "MetaData BodyLength
{ int8 Foo
, string
    MetaDataX , float zchar ,pack options1
,asx string_, }
u8x packet {Foo@lengthOf(charz )
`" ++ [28040; 24687; 31867; 22411]%N ++ runes_of_ascii "`,  }
")).
Eval vm_compute in ("<<<M2209>>>" ++ check (runes_of_ascii "MetaData BodyLength
{ int8 Foo
, string
    MetaDataX , float zchar ,pack options1
,asx string_, }
packet u8x {" ++ [21517; 23383]%N ++ runes_of_ascii "@lengthOf(charz )
`" ++ [28040; 24687; 31867; 22411]%N ++ runes_of_ascii "`,  }
")).
Eval vm_compute in ("<<<M2120>>>" ++ check (runes_of_ascii "MetaData BodyLength
{ int8 Foo
, string
    MetaDataX , float zchar ,pack options1
, string_, }
packet u8x {Foo@lengthOf(charz )
`" ++ [28040; 24687; 31867; 22411]%N ++ runes_of_ascii "`,  }
")).
Eval vm_compute in ("<<<M4348>>>" ++ check (runes_of_ascii "options {
    Packet = 00;
    u128 = true
    Pad = '0'
}

MetaData a1 {
    Z9_ Foo,
    string tag,
    msg_type chars,
    i8 uint8x,
}")).
Eval vm_compute in ("<<<M2029>>>" ++ check (runes_of_ascii "
packet leftPad {
@leftPad( '0')
u32
i64_ `100% of %d` ,repeat// 50% %s
i8 chars
    ,
} MetaData
    f32a
" ++ [0]%N ++ runes_of_ascii " { // packet A { u8 x, }
}")).
Eval vm_compute in ("<<<M2030>>>" ++ check (runes_of_ascii "
packet leftPad {
@leftPad( '0')
u32
i64_ `100% of %d` ,repeat// 50% %s
i8 chars
    ,
} MetaData
    f32a
{ /~/ packet A { u8 x, }
}")).
Eval vm_compute in ("<<<M1953>>>" ++ check (runes_of_ascii "
packet leftPad {
@leftPad( )'0'
u32
i64_ `100% of %d` ,repeat// 50% %s
i8 chars
    ,
} MetaData
    f32a
{ // packet A { u8 x, }
}")).
Eval vm_compute in ("<<<M2266>>>" ++ check (runes_of_ascii "options
    {
x_y_z// " ++ [27880; 37322]%N ++ runes_of_ascii "
= 10 ; }
packet body {
    @calculatedFrom(
// trailing space 
// " ++ [27880; 37322]%N ++ runes_of_ascii "
' '
)	match T as Foo
    {
255 :T , }
,}")).
Eval vm_compute in ("<<<M2213>>>" ++ check (runes_of_ascii "uint16
    {
x_y_z// " ++ [27880; 37322]%N ++ runes_of_ascii "
= 10 ; }
packet body {
    @calculatedFrom(
// trailing space 
// " ++ [27880; 37322]%N ++ runes_of_ascii "
""1""
)	match T as Foo
    {
255 :T , }
,}")).
Eval vm_compute in ("<<<M2349>>>" ++ check (runes_of_ascii "options
    {
x_y_z// " ++ [27880; 37322]%N ++ runes_of_ascii "
= 10 ; }
packet x" ++ [178]%N ++ runes_of_ascii " {
    @calculatedFrom(
// trailing space 
// " ++ [27880; 37322]%N ++ runes_of_ascii "
""1""
)	match T as Foo
    {
255 :T , }
,}")).
Eval vm_compute in ("<<<M2423>>>" ++ check (runes_of_ascii "MetaData
    calculatedFrom
{ { zchar[  10 ]
    As`tab	here`,
    }// trailing space 
options  { roots ='\x00' ; } packet A
{ }
")).
Eval vm_compute in ("<<<M2424>>>" ++ check (runes_of_ascii "MetaData
    calculatedFrom
{ zchar[  10 ]
    As`tab	here`,
    }// trailing space 
options  { roots ='\x00' ; } packet A
} {
")).
Eval vm_compute in ("<<<M4439>>>" ++ check (runes_of_ascii "MetaData

    trueish	{
	int
f32a

    , }
root
packet  
  // @lengthOf(
	zchar

{

    trueish
	`line1
line2`
	, 
}")).
Eval vm_compute in ("<<<M1848>>>" ++ check (runes_of_ascii "packet o {
    roots `it's` `it's`
// trailing space 
//x
, char[ 42
    ]  A, // " ++ [27880; 37322]%N ++ runes_of_ascii "
f64
repeatCount
    `crlf
line`
,}")).
Eval vm_compute in ("<<<M1590>>>" ++ check (runes_of_ascii "// 50% %s
packet	a1
    { zchar[
// a // b
// 50% %s
007]
T `it's`
    ,@rightPad
    // a // b
    (
'\x00')
    o")).
Eval vm_compute in ("<<<M3700>>>" ++ check (runes_of_ascii "packet A {
    u16 len @lengthOf(body) `a
    b`,
    u32 crc @calculatedFrom(""CRC32"") `a
    b`,
    string body,
}")).
Eval vm_compute in ("<<<M1854>>>" ++ check (runes_of_ascii "packet o {
    roots `it's`
// trailing space 
//x
char[ , 42
    ]  A, // " ++ [27880; 37322]%N ++ runes_of_ascii "
f64
repeatCount
    `crlf
line`
,}")).
Eval vm_compute in ("<<<M4190>>>" ++ check (runes_of_ascii "

  // " ++ [27880; 37322]%N ++ runes_of_ascii "
  options{	x= // packet A { u8 x, }
    ""abc"" 
;  chars

    =
    false

} options {
uint8x 
= 
00}")).
Eval vm_compute in ("<<<M126>>>" ++ check (runes_of_ascii "// 50% %s
options {u8x
=  ""\n"" u128 = '\x00' ; x = float32 ;	msg_type=
    ""\n""
    // " ++ [128512]%N ++ runes_of_ascii " emoji
    ; crc = 7 }")).
Eval vm_compute in ("<<<M4358>>>" ++ check (runes_of_ascii "options {pack 
=
""`tick`""	; pack

    = 
0123456789 
i64_

    = 	 // `tick` ""quote"" 'q'

zchar[42
	]}

")).
Eval vm_compute in ("<<<M1360>>>" ++ check (runes_of_ascii "packet o {
    } root
    packet falsey	{
// " ++ [128512]%N ++ runes_of_ascii " emoji
// 50% %s
char[
3] Z9_ `two words` ,  }options { }
")).
Eval vm_compute in ("<<<M876>>>" ++ check (runes_of_ascii "packet
u8x { match u as zchar{
    42  :
body ,
}
,
    int8 BodyLength `" ++ [28040; 24687; 31867; 22411]%N ++ runes_of_ascii "`, } // trailing space ")).
Eval vm_compute in ("<<<M2144>>>" ++ check (runes_of_ascii "MetaData BodyLength
{ int8 Foo
, string
    MetaDataX , float zchar ,pack options1
,asx string_, }")).
Eval vm_compute in ("<<<M3503>>>" ++ check (runes_of_ascii "packet
    A 
{

    match 
k as 
n
{
	[  ""a"",	""bb"" ,

    007
    ] 
: B
	2
:	C }
, 
}

")).
Eval vm_compute in ("<<<M4066>>>" ++ check (runes_of_ascii "  MetaData  // c
	Foo
	{ zchar[ 0

]

matchKey ,}options  {lengthOf=i32  u

= 00
	;

    }
")).
Eval vm_compute in ("<<<M1448>>>" ++ check (runes_of_ascii "packet
T
{ match repeatCount as	calculatedFrom
{ { [65535 ]	: As	,
} ,}
// trailing space 
")).
Eval vm_compute in ("<<<M1510>>>" ++ check (runes_of_ascii "packet~
T
{ match repeatCount as	calculatedFrom
{ [65535 ]	: As	,
} ,}
// trailing space 
")).
Eval vm_compute in ("<<<M1484>>>" ++ check (runes_of_ascii "packet
T
{ match repeatCount as	calculatedFrom
{ [65535 ]	: As	,
, }}
// trailing space 
")).
Eval vm_compute in ("<<<M2944>>>" ++ check (runes_of_ascii "packet A {
  match k as n {
    [""a"", ""bb"", 007, ""d"", ""e"", 66, ""g""] : B,
    2 : C
  },
}")).
Eval vm_compute in ("<<<M2129>>>" ++ check (runes_of_ascii "MetaData BodyLength
{ int8 Foo
, string
    MetaDataX , float zchar ,pack options1
,asx")).
Eval vm_compute in ("<<<M3644>>>" ++ check (runes_of_ascii "root

packet
P { u16

    a ,

    u32	Sum
	@calculatedFrom(
	""CR\
C32"") ,
    } ")).
Eval vm_compute in ("<<<M1713>>>" ++ check (runes_of_ascii "{options  lengthOf =//x
i16;
    BodyLength = 0 ; pack
= false;
    A = char[ 3 ] }")).
Eval vm_compute in ("<<<M1735>>>" ++ check (runes_of_ascii "options{  lengthOf =//x
i16
    BodyLength = 0 ; pack
= false;
    A = char[ 3 ] }")).
Eval vm_compute in ("<<<M1050>>>" ++ check (runes_of_ascii "root // a // b
packet _x
    { char[] float @lengthOf( Logon )`u8 x,` ,
    } 	 ")).
Eval vm_compute in ("<<<M320>>>" ++ check (runes_of_ascii "root	packet msg_type	{
//
// @lengthOf(
}
MetaData u{ // `tick` ""quote"" 'q'
}
")).
Eval vm_compute in ("<<<M3260>>>" ++ check (runes_of_ascii "MetaData Foo { zchar[ 0 ] matchKey ,
// c
} options { lengthOf = i32 u = 00 ; }")).
Eval vm_compute in ("<<<M3937>>>" ++ check (runes_of_ascii "packet A {
    // a
    @tag(1)
    u8 x,// b
    // c
    @tag(2)
    u8 y,
}")).
Eval vm_compute in ("<<<M3651>>>" ++ check (runes_of_ascii "  packet

A  {match

    k

as	n
    {1 :
    B// c
	,  // d
  	} ,

}
")).
Eval vm_compute in ("<<<M2884>>>" ++ check (runes_of_ascii "packet A {
  match k as n {
    [""a"", ""bb"", ""c c""] : B,
    2 : C
  },
}")).
Eval vm_compute in ("<<<M1789>>>" ++ check (runes_of_ascii "options{  lengthOf =//x
i16;
    BodyLength = 0 ; pack
= false;
    A")).
Eval vm_compute in ("<<<M3203>>>" ++ check (runes_of_ascii "packet A { match k as n { [ // a
 1 // b
 , // c
 2 ] // d
 : B }, }")).
Eval vm_compute in ("<<<M3214>>>" ++ check (runes_of_ascii "packet A {
    match k as n {
        1 : B,
        // c
    },
}")).
Eval vm_compute in ("<<<M1074>>>" ++ check (runes_of_ascii "// packet A { u8 x, }
MetaData chars { stringy falsey  ,
    }
")).
Eval vm_compute in ("<<<M1871>>>" ++ check (runes_of_ascii "packet o {
    roots `it's`
// trailing space 
//x
, char[ 42")).
Eval vm_compute in ("<<<M3649>>>" ++ check (runes_of_ascii "MetaData float {
    int16 options1,
    int8 u128 `{ , }`,
}")).
Eval vm_compute in ("<<<M4160>>>" ++ check (runes_of_ascii "MetaData MetaDataX {
    u64 f32a,
    metadata lengthOf,
}")).
Eval vm_compute in ("<<<M297>>>" ++ check (runes_of_ascii "root // `tick` ""quote"" 'q'
packet crc // " ++ [27880; 37322]%N ++ runes_of_ascii "
{ }
// " ++ [27880; 37322]%N ++ runes_of_ascii "
")).
Eval vm_compute in ("<<<M891>>>" ++ check (runes_of_ascii "MetaData Logon {
    zchar[ 0123456789
]
metadata, }
")).
Eval vm_compute in ("<<<M2872>>>" ++ check (runes_of_ascii "packet A { Inner { match k as n { [1] : B, }, }, }")).
Eval vm_compute in ("<<<M700>>>" ++ check (runes_of_ascii "MetaData x_y_z {
char[
0 ] calculatedFrom , }
")).
Eval vm_compute in ("<<<M2618>>>" ++ check (runes_of_ascii "packet A { match k as n { [1,""a"",2] : B, }, }")).
Eval vm_compute in ("<<<M2748>>>" ++ check (runes_of_ascii "f32 @leftPad root i8 @lengthOf( i8 MetaData")).
Eval vm_compute in ("<<<M3070>>>" ++ check (runes_of_ascii "MetaData M {
    u8 x `%`,
    T t `%`,
}")).
Eval vm_compute in ("<<<M1179>>>" ++ check (runes_of_ascii "MetaData pack{ i8i8
    Pad `doc`
,  }")).
Eval vm_compute in ("<<<M2359>>>" ++ check (runes_of_ascii "MetaData
char[] {Header //
pack ,	} 	 ")).
Eval vm_compute in ("<<<M3191>>>" ++ check (runes_of_ascii "MetaData M {
}// c
MetaData N {
}// d")).
Eval vm_compute in ("<<<M4003>>>" ++ check (runes_of_ascii "
packet  Packet  {char[]
	len , }
")).
Eval vm_compute in ("<<<M2380>>>" ++ check (runes_of_ascii "MetaData
Foo {Header //
pack ,	 	 ")).
Eval vm_compute in ("<<<M382>>>" ++ check (runes_of_ascii "MetaData Foo
// " ++ [27880; 37322]%N ++ runes_of_ascii "
// 50% %s
{ }")).
Eval vm_compute in ("<<<M2242>>>" ++ check (runes_of_ascii "options
    {
x_y_z// " ++ [27880; 37322]%N ++ runes_of_ascii "
= 10 ;")).
Eval vm_compute in ("<<<M3109>>>" ++ check (runes_of_ascii "packet A {
 u8 x `d" ++ [133]%N ++ runes_of_ascii "`, // c" ++ [133]%N ++ runes_of_ascii "
}")).
Eval vm_compute in ("<<<M4411>>>" ++ check (runes_of_ascii "

  options
{ // a // b
	}
")).
Eval vm_compute in ("<<<M1351>>>" ++ check (runes_of_ascii "packet
Logon
{	} // a // b")).
Eval vm_compute in ("<<<M2630>>>" ++ check (runes_of_ascii "packet A { @tag(x) u8 x, }")).
Eval vm_compute in ("<<<M1810>>>" ++ check (runes_of_ascii "options{  lengthOf =//x
")).
Eval vm_compute in ("<<<M4236>>>" ++ check (runes_of_ascii "packet A {
    x `d`,
}")).
Eval vm_compute in ("<<<M2795>>>" ++ check (runes_of_ascii "uint32 packet { f32 :")).
Eval vm_compute in ("<<<M1401>>>" ++ check (runes_of_ascii "packet Header { }

")).
Eval vm_compute in ("<<<M2670>>>" ++ check (runes_of_ascii "options { a = 1, }")).
Eval vm_compute in ("<<<M3155>>>" ++ check (runes_of_ascii "packet A {
}// c 	")).
Eval vm_compute in ("<<<M3100>>>" ++ check (runes_of_ascii "packet A {
}// c" ++ [160]%N)).
Eval vm_compute in ("<<<M2717>>>" ++ check (runes_of_ascii "int8 i16 char[ =")).
Eval vm_compute in ("<<<M2753>>>" ++ check ([65533]%N ++ runes_of_ascii ">" ++ [65533]%N ++ runes_of_ascii "E" ++ [65533]%N ++ runes_of_ascii "vjh" ++ [24]%N ++ runes_of_ascii "GwlfT")).
Eval vm_compute in ("<<<M329>>>" ++ check (runes_of_ascii "
 // 50% %s")).
Eval vm_compute in ("<<<M2781>>>" ++ check ([65533; 65533]%N ++ runes_of_ascii "rj" ++ [65533; 65533; 28; 65533; 994]%N)).
Eval vm_compute in ("<<<M2511>>>" ++ check (runes_of_ascii "// a
b")).
Eval vm_compute in ("<<<M838>>>" ++ check (runes_of_ascii "
//x
")).
Eval vm_compute in ("<<<M3116>>>" ++ check (runes_of_ascii "// c" ++ [8192]%N)).
Eval vm_compute in ("<<<M2553>>>" ++ check (runes_of_ascii "a
b")).
Eval vm_compute in ("<<<M2552>>>" ++ check (runes_of_ascii "ab")).
Eval vm_compute in ("<<<M2773>>>" ++ check ([65533]%N ++ runes_of_ascii "{")).
