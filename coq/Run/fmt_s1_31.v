From FP Require Import Lexer Parser ShowPT Digest Formatter.
From Coq Require Import String List NArith.
Import ListNotations.
Open Scope string_scope.
Set Printing Width 100000000.
Set Printing Depth 100000000.
Definition show_fres (r : fres) : string :=
  match r with
  | FOk s => "OK:" ++ sh_escaped s ""
  | FErr s => "ERR:" ++ sh_escaped s ""
  | FPanic p => "PANIC:" ++ p
  end.
Definition check (rs : list rune) : string := digest (show_fres (format_res rs)).
Definition full (rs : list rune) : string := show_fres (format_res rs).
Eval vm_compute in ("<<<M1350>>>" ++ check (runes_of_ascii "root packet Header
{repeat
zchar[
10 ]charz `two words`
    , repeat
    u8 uint8x
`" ++ [233]%N ++ runes_of_ascii "`
    //	t
    , T@calculatedFrom(
""{,}"" )
    `u8 x,` ,
char[1	] trueish
    @lengthOf( x_y_z )
    `crlf
line` , repeat Pad
    Foo ,
    @lengthOf(  roots )repeat asx	,@rightPad
( '0' ) @leftPad ('0' ) @leftPad('0'	) uint8  x @lengthOf( body) `crlf
line` ,match body
    as rootA {[ // " ++ [128512]%N ++ runes_of_ascii " emoji
0 // " ++ [27880; 37322]%N ++ runes_of_ascii "
, ""\n""] :
x_y_z
,
    10
    : packetx , 1 : BodyLength , """ ++ [233]%N ++ runes_of_ascii "t" ++ [233]%N ++ runes_of_ascii """ :zchar 3  :
// `tick` ""quote"" 'q'
// packet A { u8 x, }
As
""" ++ [233]%N ++ runes_of_ascii "t" ++ [233]%N ++ runes_of_ascii """ : asx	, },
    match packetx as	lengthOf { """ ++ [233]%N ++ runes_of_ascii "t" ++ [233]%N ++ runes_of_ascii """ :
    roots , 42 :
lengthOf [ ""a\""b"" ] :asx // trailing space 
,},
}packet calculatedFrom {@calculatedFrom( ""abc"" ) repeat
u64
//x
// @lengthOf(
stringy , @calculatedFrom(
""" ++ [233]%N ++ runes_of_ascii "t" ++ [233]%N ++ runes_of_ascii """
) i32 i8i8 @lengthOf(
f32a
    )
,i8 Pad // a // b
@calculatedFrom(""a\\"") ,
char charz`" ++ [28040; 24687; 31867; 22411]%N ++ runes_of_ascii "`,@calculatedFrom(	""" ++ [233]%N ++ runes_of_ascii "t" ++ [233]%N ++ runes_of_ascii """// c
)
@tag(4294967296 )rootA //
msg_type
    , @calculatedFrom(
    ""CRC32"" //	t
)	@tag( 007) @tag( 0
    )
uint8 A
    `crlf
line` ,
    char[ 0123456789 ]// " ++ [128512]%N ++ runes_of_ascii " emoji
repeatCount	`" ++ [233]%N ++ runes_of_ascii "`, packetx@lengthOf( tag
)	`it's` , @lengthOf(// c
leftPad  ) @calculatedFrom( ""\n""
) @leftPad	( )Foo
    @calculatedFrom( ""a\\"" ) `" ++ [28040; 24687; 31867; 22411]%N ++ runes_of_ascii "` ,} packet metadata
{ packetx `" ++ [28040; 24687; 31867; 22411]%N ++ runes_of_ascii "`
, u16 i64_
@calculatedFrom( ""a\""b"" ) `
`
    ,}
    //	t
    packet falsey{ //
@lengthOf(
//
// " ++ [128512]%N ++ runes_of_ascii " emoji
int// @lengthOf(
)
// trailing space 
// " ++ [27880; 37322]%N ++ runes_of_ascii "
Packet  , @calculatedFrom(
""packet"" ) @lengthOf( trueish
    //	t
    ) @leftPad // " ++ [128512]%N ++ runes_of_ascii " emoji
()
A repeatCount
    ,A `
`// " ++ [128512]%N ++ runes_of_ascii " emoji
, repeat  trueish
    `{ , }` , zchar[
    /// triple
    42
/// triple
//	t
] rootA @lengthOf( A ),} root
    packet u { repeat char[]i8i8 , @tag( 007) body
    // c
    { repeat u8x`tab	here`, } ,	@rightPad(
    // @lengthOf(
    '\x00'
    ) i16
matchKey`it's` ,@lengthOf( trueish
)
metadata  @lengthOf(
lengthOf)
    ,// `tick` ""quote"" 'q'
int
@calculatedFrom( ""`tick`"" ) ,@tag(
3) match x_y_z	as BodyLength {1 //	t
:options1
//	t
// c
,
    } , repeat i64_
string_	,
    //
    u8 trueish , f64
calculatedFrom ,}")).
Eval vm_compute in ("<<<M911>>>" ++ check (runes_of_ascii "
root
packet
    u
{ @tag(
    4294967296	) // packet A { u8 x, }
@rightPad( '0' ) @tag(
    7 ) repeat x , char[ // packet A { u8 x, }
42	]
charz
    @lengthOf(Z9_) `line1
line2`,zchar[ 65535 ] // `tick` ""quote"" 'q'
crc @lengthOf( string_// a // b
),
    char[ 65535
]// trailing space 
trueish `crlf
line` ,repeat x_y_z leftPad `" ++ [233]%N ++ runes_of_ascii "` ,T
@calculatedFrom(
""\n"")
,  A ,
char[]  crc @lengthOf( matchKey ) , repeat
// @lengthOf(
/// triple
rootA // @lengthOf(
`tab	here` , @rightPad
//
//	t
( ' ' ) match roots as charz {
""{,}""	: len ,
    """" :
Z9_ ,// trailing space 
""abc""
    : roots
    ,
} ,} packet _x {	@leftPad(// a // b
'\x00' )
    match tag	as u8x { """ ++ [128512]%N ++ runes_of_ascii """ : asx // packet A { u8 x, }
, 4294967296
:
// a // b
// `tick` ""quote"" 'q'
u,
    [
""" ++ [28040; 24687]%N ++ runes_of_ascii """ , 7 , 7 ,
    ""{,}"" , ""a	b"" //x
]// `tick` ""quote"" 'q'
:
metadata
    ,} ,
match
uint8x	as // a // b
x_y_z // c
{	[ 3 //x
, 42
    , // @lengthOf(
""\" ++ [233]%N ++ runes_of_ascii """ ,""\" ++ [233]%N ++ runes_of_ascii """,
""a	b"",007 ,42// packet A { u8 x, }
, ""{,}"" // c
]
: u128
    // trailing space 
    , //	t
""a\\""
    : Foo
,} ,i16 metadata,@leftPad ( ' '	)  u8 Logon
// c
// @lengthOf(
`// not a comment` , Pad {
zchar[  0//x
] int @calculatedFrom( ""it's"" ) , } ,char[
65535
    // trailing space 
    ]
    //x
    i8i8`crlf
line` , string_
, } packet x_y_z {u8 uint8x, match pack as Pad
    { ""it's"" : asx ""`tick`"" :a1 , [  0
    ] : // `tick` ""quote"" 'q'
u128
    , 42 : o
    ,	""" ++ [128512]%N ++ runes_of_ascii """  :	tag // " ++ [27880; 37322]%N ++ runes_of_ascii "
,	} , repeat
i8
    // packet A { u8 x, }
    MetaDataX,@lengthOf( charz ) asx @lengthOf(
    A
) ,  @calculatedFrom(
""{,}"" )@lengthOf( leftPad )@rightPad (
) stringy
    // @lengthOf(
    Z9_ `` ,
calculatedFrom `" ++ [28040; 24687; 31867; 22411]%N ++ runes_of_ascii "`, }	packet // " ++ [27880; 37322]%N ++ runes_of_ascii "
matchKey {@calculatedFrom( ""\n"" ) f32 msg_type , zchar[	10	] chars ,}
")).
Eval vm_compute in ("<<<M3748>>>" ++ check (runes_of_ascii "packet
uint8x 
{ match
    Pad as	// " ++ [128512]%N ++ runes_of_ascii " emoji

repeatCount
	{ [ 
0 ]  :	lengthOf	,

    [ 
""// no comment"" ]
:metadata 
,}
,
metadata
    // trailing space 
	//
  ,

    zchar[ 	 /// triple
  1 ]
    trueish  //	t

, 
@calculatedFrom(  ""a\""b""
)

match	//x
  roots

as	f32a
{
4294967296  :i64_ 
, 
""it's""
    : a1
    ,[
	// trailing space 
    	00,  0123456789	]
    : 
As,
    255:
	Packet
, ""{,}""
:
T/// triple
	0 :  falsey	}
    ,

body@calculatedFrom( ""\n"" 
    // trailing space 
  ),	@calculatedFrom(

""" ++ [128512]%N ++ runes_of_ascii """) @tag( 10

)
char[ 
10] trueish  `doc` ,
@tag(255
    )
	repeat  Z9_	{asx
chars 
`// not a comment`
,
}  ,  @lengthOf(
Packet
)
u16 crc , } 
	    // `tick` ""quote"" 'q'
		options
{ BodyLength = i32  ;  x 	 // " ++ [128512]%N ++ runes_of_ascii " emoji
=255;
u=3 
}
options{} packet
	calculatedFrom { }  
      //x
	root 
packet

Header
{

Pad {
repeatCount

    ,	uint16 zchar
, match

msg_type
	as pack

    /// triple
	{
""abc""
:repeatCount ,

""{,}"" :

repeatCount
    ""a	b"": calculatedFrom  } ,repeat  string
	Logon `a\`

, }	, @lengthOf(
x_y_z
    )	match 
tag  as
    repeatCount {  007

    :	BodyLength
	, [ 
        //	t
      """ ++ [28040; 24687]%N ++ runes_of_ascii """
] :BodyLength 42
    :
string_""// no comment""  
  // trailing space 
	/// triple
	:	//
  	Z9_
    ,
	4294967296

    : 

// " ++ [128512]%N ++ runes_of_ascii " emoji
  _x }
,f64
u `it's`	, 
zchar[
    00 ]
	f32a

    `doc`	,	match
    i64_  as Logon{

    4294967296 	 // a // b
    :metadata , },
	char[	1]Pad ,

zchar[

    0123456789 ] float// @lengthOf(
    `` ,	}")).
Eval vm_compute in ("<<<M875>>>" ++ check (runes_of_ascii "packet Z9_ {  @tag( 4294967296
) char[255
    ]msg_type @calculatedFrom(
    ""abc""	),
uint16 x  `" ++ [28040; 24687; 31867; 22411]%N ++ runes_of_ascii "`, @rightPad (
'0' ) match len as Logon {
    7 : metadata , ""{,}"": u8x
,[ ""\n"", 65535 ,
65535 ]
// " ++ [128512]%N ++ runes_of_ascii " emoji
// " ++ [27880; 37322]%N ++ runes_of_ascii "
: int
    ,""a\""b"" :	leftPad} , zchar[ 42] rootA, @calculatedFrom(
// @lengthOf(
// " ++ [128512]%N ++ runes_of_ascii " emoji
""a\\"" ) zchar[42] A , Packet// trailing space 
{
    repeat //
u128 {repeat
chars{ tag  BodyLength , float32 calculatedFrom	`doc` ,match x as string_ {
""{,}""
:
x """"
: packetx	, } , }, } /// triple
,  }
// trailing space 
/// triple
,
    // `tick` ""quote"" 'q'
    @rightPad( ) options1
`u8 x,`
, repeat//
i32 repeatCount,@lengthOf(Foo )@calculatedFrom( ""packet"" )int32 As
    @lengthOf( Pad )
, }
packet As {@tag(  65535 /// triple
)int asx
    `line1
line2` , @calculatedFrom( """ ++ [28040; 24687]%N ++ runes_of_ascii """) @rightPad (
// " ++ [27880; 37322]%N ++ runes_of_ascii "
//	t
)int32
    // c
    leftPad
`" ++ [28040; 24687; 31867; 22411]%N ++ runes_of_ascii "` ,char[] zchar , string x_y_z
,  f64
// a // b
/// triple
repeatCount
    @calculatedFrom(
// trailing space 
// @lengthOf(
""x y"") ,
    @leftPad () match falsey as
int  { """ ++ [28040; 24687]%N ++ runes_of_ascii """ : MetaDataX 007
: msg_type , ""CRC32""
: Header ,//
4294967296 : charz , 255
:trueish
    1  : Header , } ,@lengthOf(// packet A { u8 x, }
leftPad // c
)_x , }
packet chars //
{match string_ as A { /// triple
""`tick`""
: Foo ,  3:trueish
    ,} ,
match Header
    as	repeatCount{ """ ++ [128512]%N ++ runes_of_ascii """
: asx ,42	:leftPad , } , }
")).
Eval vm_compute in ("<<<M905>>>" ++ check (runes_of_ascii "  options	{
    i64_ =
    007; asx= ' '
;/// triple
}MetaData	tag { float32 uint8x , } packet  len { @tag( 7
) repeat uint8x {
    match zchar as	As { [ 00
,""" ++ [28040; 24687]%N ++ runes_of_ascii """
, 00 ,
    0123456789 , 0 , 3 ,
""\n""] :
    // " ++ [128512]%N ++ runes_of_ascii " emoji
    uint8x ,
},} , u8x @lengthOf(
    falsey ),
    @calculatedFrom( // a // b
""x y""
) // `tick` ""quote"" 'q'
int16 A `{ , }`
    ,	lengthOf { o
//x
// " ++ [128512]%N ++ runes_of_ascii " emoji
@lengthOf( repeatCount
    ) ,
uint16 // packet A { u8 x, }
i8i8 @calculatedFrom( """ ++ [28040; 24687]%N ++ runes_of_ascii """ ) ,
    char[ 42  ]
repeatCount , }
    ,@calculatedFrom(""{,}""
)//
repeat
    BodyLength
    ,
char[]
    lengthOf/// triple
@calculatedFrom(""{,}""	)
// `tick` ""quote"" 'q'
// packet A { u8 x, }
`
`	, @tag(  00 )
    repeat	u128
`a\` , } options {
}packet lengthOf { match MetaDataX as pack
{[
    ""\" ++ [233]%N ++ runes_of_ascii """ ] :	Packet // `tick` ""quote"" 'q'
, 42 :
lengthOf , ""// no comment"" : i64_ // @lengthOf(
,
    [ """ ++ [128512]%N ++ runes_of_ascii """
    ,
255
    , ""abc""
    , ""{,}"", ""{,}"" ,
    1 ]
    :Pad [ 3 // c
, 3 , 255
] : BodyLength	, }
//	t
// a // b
, repeatCount	asx ,falsey ,zchar[ 0123456789 ]a1 @calculatedFrom( // " ++ [128512]%N ++ runes_of_ascii " emoji
""it's""
    ) `// not a comment`
, @leftPad
    // " ++ [27880; 37322]%N ++ runes_of_ascii "
    ( '\x00' )f32a ,rootA@lengthOf( Pad ) ,
    match As as int { 0: calculatedFrom ,}
    ,
    }

")).
Eval vm_compute in ("<<<M1024>>>" ++ check (runes_of_ascii "/// triple
packet string_{ repeat As
u128 ,
    @lengthOf( Header  ) i8i8@lengthOf(len )`" ++ [28040; 24687; 31867; 22411]%N ++ runes_of_ascii "` , uint8x { match i8i8
as// trailing space 
msg_type
{ 65535 :
    Foo	, [ ""abc"" ,	00 ,
    ""// no comment"" ,0 ,0123456789,
    ""// no comment"" ]
// `tick` ""quote"" 'q'
// " ++ [128512]%N ++ runes_of_ascii " emoji
:	int,
""" ++ [128512]%N ++ runes_of_ascii """ : u8x , ""x y"" :x_y_z , 7
    :
len , 42 : As // c
, } , } , @tag(
    4294967296
// packet A { u8 x, }
// packet A { u8 x, }
)zchar[
    255
] repeatCount , repeat int16 x ,u16 Foo `two words` ,repeat char[42 ] f32a ,string msg_type
    /// triple
    , @rightPad  (
    ' ' ) Z9_@calculatedFrom(//
""it's""	)  ,} packet stringy// packet A { u8 x, }
{
    // `tick` ""quote"" 'q'
    float32 metadata ,}
packet// @lengthOf(
body{match leftPad
as
falsey { """ ++ [233]%N ++ runes_of_ascii "t" ++ [233]%N ++ runes_of_ascii """ :	len  ,
} ,
    // trailing space 
    @calculatedFrom( ""CRC32""
    ) f32a { uint32 body @lengthOf(
    Z9_ ) /// triple
`line1
line2` ,
    // @lengthOf(
    f64 u `line1
line2`, trueish @lengthOf( rootA )
    ,char[ 255
    ]	u@calculatedFrom( ""a	b""
// `tick` ""quote"" 'q'
// @lengthOf(
) ,
} , @tag(  42 )
options1  a1
    //
    ,
    char[]	Z9_	@calculatedFrom( ""\n""// c
) , }
//
")).
Eval vm_compute in ("<<<M812>>>" ++ check (runes_of_ascii "
MetaData Packet //
{ stringy body ,
    //	t
    x_y_z
    matchKey , zchar[
// " ++ [27880; 37322]%N ++ runes_of_ascii "
// `tick` ""quote"" 'q'
007 ] MetaDataX , // " ++ [128512]%N ++ runes_of_ascii " emoji
u16 u128
    `u8 x,`, stringy i64_
    , char[]	Z9_  `two words` , } MetaData body { float32 Header
    , }options
    {trueish //x
= false ; x_y_z = // c
7 Packet =	false i8i8=
//x
// " ++ [128512]%N ++ runes_of_ascii " emoji
zchar[255 ] tag =
    char[] ; } packet// c
crc { repeat  char[
    0 ]
    x ,
    repeat float64 packetx , match	As as len{	[255 ]
:
Z9_
    , // " ++ [27880; 37322]%N ++ runes_of_ascii "
""{,}"" :
//
// " ++ [27880; 37322]%N ++ runes_of_ascii "
MetaDataX ,  [ 00 , ""a	b"", 255 ] :Pad , 3:
    body , }  , u128 @calculatedFrom(
    ""CRC32"")  , // `tick` ""quote"" 'q'
@tag(10) metadata {  repeat trueish x`line1
line2`// " ++ [27880; 37322]%N ++ runes_of_ascii "
,
    u @calculatedFrom(""it's"" )
, match
// packet A { u8 x, }
// " ++ [27880; 37322]%N ++ runes_of_ascii "
trueish as _x { 42 :
    /// triple
    o [
""CRC32""]
: rootA  , } /// triple
, } , tag
    {Z9_{
zchar[
    // trailing space 
    3  ]stringy`tab	here` , } , } //x
, matchKey u8x,  repeat
int64	metadata `{ , }`
, @leftPad( '\x00')
T int
    , @calculatedFrom( ""abc"" ) zchar[ 4294967296 ] charz
    ,// " ++ [128512]%N ++ runes_of_ascii " emoji
}")).
Eval vm_compute in ("<<<M367>>>" ++ check (runes_of_ascii "
options {  Packet = ""packet""len
=
""packet"" ;
    charz =true} packet calculatedFrom// c
{
//	t
// a // b
repeat// " ++ [27880; 37322]%N ++ runes_of_ascii "
Packet, uint8x @calculatedFrom(
// @lengthOf(
// `tick` ""quote"" 'q'
""\n""
    ) , @calculatedFrom( ""// no comment""	)
@rightPad /// triple
(	' ') match
    x
//x
//	t
as Packet
{
00 : Pad [
0	] :// @lengthOf(
As , }
,
@lengthOf( chars )
a1 `it's` , match Logon as int { ""packet"": int [ """ ++ [28040; 24687]%N ++ runes_of_ascii """ ,0123456789 // trailing space 
, ""x y"" , 65535
    //	t
    ] : lengthOf, 10:asx, [  ""// no comment"" ] :  zchar, ""// no comment"": a1
//
// `tick` ""quote"" 'q'
, 0 :len
    ,} // " ++ [27880; 37322]%N ++ runes_of_ascii "
,
match u8x as
    MetaDataX
{
    [
255 ]
    :
string_ // packet A { u8 x, }
, [ ""// no comment"" ,	""CRC32""]: metadata,// packet A { u8 x, }
""a\""b""	:
    // " ++ [27880; 37322]%N ++ runes_of_ascii "
    leftPad }, Header `tab	here`, } packet u128 {
    char[10//x
] trueish `tab	here`, repeat asx {
match
len as chars {1 : MetaDataX ,
42 :
    roots ,
    10:
BodyLength,
""// no comment"" :
    o , ""a\\"" :	i64_ ,
    }
    ,	} ,
    }
")).
Eval vm_compute in ("<<<M356>>>" ++ check (runes_of_ascii "packet
Header { trueish @calculatedFrom(
""a	b"")
,
    Header@calculatedFrom(
    ""a\\"" //
)
,//	t
@calculatedFrom(  ""a\\"" )/// triple
i16	body
@lengthOf( f32a  ) , // packet A { u8 x, }
match // packet A { u8 x, }
stringy as _x{ ""`tick`""
// trailing space 
//
: string_ ,42:u8x , ""\n""
    :
    repeatCount, ""a\\"" : options1 ,	[ 4294967296 , ""{,}""
/// triple
//x
,
    4294967296 ,  """ ++ [28040; 24687]%N ++ runes_of_ascii """ , 3//	t
,
""abc"" ]
:
    //	t
    u8x , } , zchar[0123456789
    ] MetaDataX,@calculatedFrom(
    ""x y"" //	t
) @lengthOf( A )	zchar[ //x
00 ] a1 , match
// " ++ [128512]%N ++ runes_of_ascii " emoji
// `tick` ""quote"" 'q'
options1 as calculatedFrom // packet A { u8 x, }
{
    [ ""// no comment""
    // " ++ [27880; 37322]%N ++ runes_of_ascii "
    ,  ""abc"" , 65535,	""CRC32""
, 0
, ""CRC32"" ]
: uint8x
    , ""// no comment"" :
// " ++ [128512]%N ++ runes_of_ascii " emoji
// trailing space 
chars	,	[ """ ++ [233]%N ++ runes_of_ascii "t" ++ [233]%N ++ runes_of_ascii """ , ""a	b"" ]
    :
    pack , 10 :	tag ,}  , @tag( 42 )repeat
    // trailing space 
    len,
    @lengthOf( u )char[] f32a
, // packet A { u8 x, }
}
")).
Eval vm_compute in ("<<<M431>>>" ++ check (runes_of_ascii "// a // b
packet
body{ @lengthOf( tag
    // trailing space 
    ) char[
255 ] Packet
    , @leftPad
() @rightPad ('0'
) repeat Pad
    { repeat char[007 ]	As ,
    } ,
match Header	as crc
{007
: Logon[""a\""b"" , 0
] :_x,255
:
    _x// trailing space 
, 3 :
    pack
,""a\\""	:
    _x  , ""CRC32"" : repeatCount// trailing space 
,
}
// `tick` ""quote"" 'q'
// " ++ [128512]%N ++ runes_of_ascii " emoji
,
    @lengthOf( MetaDataX
    )	charz
    chars // @lengthOf(
`it's` ,@tag(
    10//
) match a1 as x_y_z {
    ""// no comment"":Foo
    , [ ""// no comment"" ,10 ]
: roots , } , }	packet options1 {
}  packet asx { @rightPad (' '
) match string_ as MetaDataX//x
{[ 42 , // trailing space 
3 ,  ""abc"" ,	7  ]: rootA
, 0123456789 :BodyLength
""abc"" :BodyLength , ""x y"" :
    metadata ,}
,}MetaData
u128
    { string  rootA	,	}
MetaData _x {i8i8 matchKey `it's`
//	t
// a // b
, uint32 len ,	tag options1 ,char[ 1
    ] x,}")).
Eval vm_compute in ("<<<M3962>>>" ++ check (runes_of_ascii "packet Pad {
    @tag(65535)
    repeat char[4294967296] o `u8 x,`,
    @calculatedFrom(""x y"")
    metadata @lengthOf(repeatCount) `tab	here`,
}

packet u128 {
    // packet A { u8 x, }
    // " ++ [128512]%N ++ runes_of_ascii " emoji
    repeat zchar[10] _x,/// triple
}

options {
    /// triple
    msg_type = true;
}

packet tag {
    // c
    @tag(7)
    i32 f32a @lengthOf(u8x) `two words`,
    string Foo @lengthOf(Foo),
    @rightPad('0')
    match As as crc {
        """" : float,
        //	t
    },
    repeat i16 i8i8,
    @rightPad('0')
    repeat u128 {
        i64 tag @calculatedFrom(""" ++ [28040; 24687]%N ++ runes_of_ascii """),
        i8i8 @calculatedFrom(""{,}"") `it's`,
        repeat string rootA,
    },
    repeat string chars,
    asx,
    match calculatedFrom as calculatedFrom {
        ""a\""b"" : Logon,
        ""a	b"" : asx,
    },
    char zchar @calculatedFrom(""1"") `say ""hi""`,
}")).
Eval vm_compute in ("<<<M1071>>>" ++ check (runes_of_ascii "packet Logon {string rootA	, rootA
    {	match
    repeatCount as int {
    ""{,}"" :	zchar , 65535  : repeatCount // packet A { u8 x, }
,
// " ++ [128512]%N ++ runes_of_ascii " emoji
/// triple
007 //	t
://
i8i8 007 : x,007: matchKey
, }  ,zchar[ 0123456789] float ,} ,uint64 // @lengthOf(
string_	`// not a comment` ,	repeat MetaDataX ,	} options { Z9_= '0' ;
    A // " ++ [128512]%N ++ runes_of_ascii " emoji
= 1 ;x_y_z = true ;// a // b
T = false  ;
    }  packet crc{
//x
// `tick` ""quote"" 'q'
@lengthOf(
    repeatCount )
    char[] calculatedFrom @lengthOf( lengthOf
// @lengthOf(
// " ++ [128512]%N ++ runes_of_ascii " emoji
) `a\`
, } packet Foo {
    //
    match uint8x as tag { [ 3 ,""`tick`"" ,	""packet""
    , ""// no comment""
// trailing space 
// " ++ [27880; 37322]%N ++ runes_of_ascii "
,	""a	b"" ,
    007
    ] :
    Header	,
7 :	_x , // a // b
10 :
    falsey ,
""\n"" :
    falsey	,255	: rootA , } ,
    }

")).
Eval vm_compute in ("<<<M10>>>" ++ check (runes_of_ascii "
options{
crc
// " ++ [128512]%N ++ runes_of_ascii " emoji
// trailing space 
= uint8} packet len {uint8x @calculatedFrom( ""x y"" ), @lengthOf(
    rootA  )
    @lengthOf( body
// `tick` ""quote"" 'q'
// `tick` ""quote"" 'q'
)@calculatedFrom(  ""x y""
) Packet  @calculatedFrom(// `tick` ""quote"" 'q'
""\n"" )
`
`
, Packet ,  repeat
    // trailing space 
    i8	Z9_ , @tag(255 )
falsey `
` ,	i64 int `line1
line2` ,@calculatedFrom(
    ""\n""
// packet A { u8 x, }
/// triple
) @leftPad()
@calculatedFrom(//	t
""abc"" )// packet A { u8 x, }
BodyLength ,uint8 u , @calculatedFrom(
    ""a\""b""
) @lengthOf( metadata ) @rightPad (' ') // packet A { u8 x, }
char[10] f32a , }  packet repeatCount { }options  {
string_ =  i32 ;
o =	""a	b"" ;
    i8i8	=
    ""a\""b"" ; uint8x =
uint16
    // " ++ [128512]%N ++ runes_of_ascii " emoji
    ;
}")).
Eval vm_compute in ("<<<M3783>>>" ++ check (runes_of_ascii "packet falsey {
    uint64 calculatedFrom @lengthOf(msg_type),
    i16 zchar,
    f32 a1,
    // " ++ [27880; 37322]%N ++ runes_of_ascii "
    @calculatedFrom(""// no comment"")
    a1 `say ""hi""`,
    As Z9_,
    // packet A { u8 x, }
    repeatCount @lengthOf(uint8x),
    u8 o @calculatedFrom(""`tick`"") `say ""hi""`,
    f32 A @lengthOf(packetx) `line1
        line2`,
}

MetaData len {
    As rootA,
    zchar[10] BodyLength `it's`,
    int32 crc `
        `,
    zchar u8x,
    leftPad BodyLength,
}

MetaData zchar {
    options1 calculatedFrom,
    zchar[7] trueish,
}// " ++ [27880; 37322]%N ++ runes_of_ascii "

root packet Foo {
    @lengthOf(i8i8)
    repeat zchar[255] u `// not a comment`,
}

MetaData int {
    uint16 matchKey,
    int16 x_y_z `say ""hi""`,
    leftPad Logon,
}")).
Eval vm_compute in ("<<<M1298>>>" ++ check (runes_of_ascii "MetaData
    Foo	{  }	packet x_y_z  {	a1
    u8x, /// triple
x
`it's`
    ,} packet
    Foo
{
@lengthOf(
    o) T @calculatedFrom( """ ++ [28040; 24687]%N ++ runes_of_ascii """ ) `two words`  ,
@lengthOf( i8i8 ) repeat metadata{u
{ repeat char[ 0
]// trailing space 
string_ ``, repeat
body {
    //
    zchar[	0123456789	]
Pad
    ,
    match
Pad as matchKey{
00
:_x
, [
    65535 , 7 , 10 , 3// `tick` ""quote"" 'q'
,// trailing space 
""" ++ [128512]%N ++ runes_of_ascii """
, 42
, ""\" ++ [233]%N ++ runes_of_ascii """ ,""a	b""
] : i8i8
    , } ,	int8 charz , match packetx
    as lengthOf	{
    [
    1/// triple
, 4294967296
, 1 ] :
As
},
}
    //
    , repeat zchar[ 4294967296]_x
, }, string o `` , }	, Header
Header
// @lengthOf(
// c
`u8 x,`
,charz
    i8i8 `crlf
line` ,}")).
Eval vm_compute in ("<<<M4400>>>" ++ check (runes_of_ascii "packet A {
    repeatCount {
        // " ++ [27880; 37322]%N ++ runes_of_ascii "
        repeat string falsey `" ++ [233]%N ++ runes_of_ascii "`,
        x Z9_,
        rootA repeatCount `a\`,
        repeat char[] x_y_z ``,
    },
}

root packet int {
    @calculatedFrom(""\n"")
    @calculatedFrom(""a\\"")
    repeat lengthOf repeatCount `two words`,
}

root packet BodyLength {
    @calculatedFrom(""`tick`"")
    repeat asx {
        zchar[10] MetaDataX,
        repeat char[4294967296] rootA `say ""hi""`,
        uint64 As `" ++ [233]%N ++ runes_of_ascii "`,
        chars u,
    },
    @tag(0123456789)
    @tag(0)
    string roots `" ++ [28040; 24687; 31867; 22411]%N ++ runes_of_ascii "`,
    u8 crc `{ , }`,// a // b
    @calculatedFrom(""CRC32"")
    repeat i64_ _x,
    char Packet,
}")).
Eval vm_compute in ("<<<M269>>>" ++ check (runes_of_ascii "// trailing space 
packet
// packet A { u8 x, }
// packet A { u8 x, }
o {
@calculatedFrom(
""`tick`""
    //	t
    )repeat i8 rootA
, @calculatedFrom( ""`tick`""	)Logon
body`line1
line2` , // " ++ [128512]%N ++ runes_of_ascii " emoji
@lengthOf(crc )@tag( 0
) repeat
falsey string_ , @calculatedFrom(
"""" )
    lengthOf/// triple
, u16 calculatedFrom ,
    i8i8//x
tag `two words` , @tag( 1)	string rootA`u8 x,`
,match pack as int { [
""" ++ [233]%N ++ runes_of_ascii "t" ++ [233]%N ++ runes_of_ascii """
, ""\" ++ [233]%N ++ runes_of_ascii """	, 10 ,  0,
4294967296 , ""packet"" ,""" ++ [28040; 24687]%N ++ runes_of_ascii """
,""" ++ [233]%N ++ runes_of_ascii "t" ++ [233]%N ++ runes_of_ascii """ ] : int
//x
// trailing space 
, 3
    :zchar , """ ++ [128512]%N ++ runes_of_ascii """
:
options1, 00 // c
:x_y_z , 4294967296 :
chars , } ,float32 matchKey
    //x
    ,
T
,}
")).
Eval vm_compute in ("<<<M3896>>>" ++ check (runes_of_ascii "// top
packet P1 {
    u8 a,// c5a
    // c5b
}

packet P2 {
    // c9
    P1,// c11a
    // c11b
}

// c12
packet P3 {
    // c15
    P2,
    // c17
    P1,// c19
}// c20a

// c20b
packet P4 {
    // c23
    repeat P3,
    // c26
    P2,
    // c28
}

// c29
root packet P5 {
    // c33a
    // c33b
    P4,// c35a
    // c35b
    P3,// c37
    P1,// c39
    u8 K,
    match K as Body {
        // c47a
        // c47b
        4 : P4,
        // c51a
        // c51b
        3 : P3,
        // c55a
        // c55b
        2 : P2,
        1 : P1,
        // c63
    },
}
// c66")).
Eval vm_compute in ("<<<M42>>>" ++ check (runes_of_ascii "packet	BodyLength { repeat f32a Pad`// not a comment` ,
// " ++ [128512]%N ++ runes_of_ascii " emoji
// c
}
MetaData As { }options { crc
    // packet A { u8 x, }
    =
""a\\""
float= '\x00'
    a1 // c
= ' ';i8i8 =
    4294967296
}	packet u128 {
// `tick` ""quote"" 'q'
//
match //x
stringy as o{ ""`tick`""  : Foo  , [ 4294967296 ]	: x_y_z ,} ,zchar[ /// triple
10 ] // `tick` ""quote"" 'q'
Packet@lengthOf(u8x
),
@lengthOf(
roots) // " ++ [27880; 37322]%N ++ runes_of_ascii "
x
    `// not a comment` , i64
    asx @lengthOf( rootA ) , metadata ,
i64_ @calculatedFrom(  ""\" ++ [233]%N ++ runes_of_ascii """ ) ,	@lengthOf(u128
) repeat o `two words` , }
")).
Eval vm_compute in ("<<<M1106>>>" ++ check (runes_of_ascii "packet string_  {
BodyLength u128 ,
}	MetaData
matchKey
{}
packet f32a
{
    repeat uint32
// trailing space 
// `tick` ""quote"" 'q'
matchKey
,}
    root packet trueish // `tick` ""quote"" 'q'
{ leftPad
    {match BodyLength as i8i8{255 : metadata
""CRC32"" // `tick` ""quote"" 'q'
: metadata ,
""packet"" : a1 } ,}, } packet
    asx { leftPad
//	t
// packet A { u8 x, }
{
    // `tick` ""quote"" 'q'
    char[	10 ]options1	, char[ 4294967296
    ]
//	t
//
Packet	`a\` ,
o `{ , }` , Z9_ {
match Foo as	T
    { 3 :
a1 ,
} , } ,} ,}
")).
Eval vm_compute in ("<<<M3646>>>" ++ check (runes_of_ascii "options {
    LittleEndian = false;
    ArrayPrefixLenType = u64;
    FixedStringPadChar = '0';
}
packet Quote {
    repeat InFlags37 {
        char[] lastPx,
    },
    i16 tag7,
    char[] f1,
    zchar[6] Note,
}
packet Order {
    u8 Ref,
    repeat Quote,
    repeat string Acct,
}
root packet Heartbeat {
    repeat Quote,
    @leftPad('0') char[11] OrderId,
    zchar[8] Ref,
    u32 Flags,
    u32 Tail @lengthOf(Body),
    match Flags as Body {
        156 : Order,
        7 : Quote,
    },
}
")).
Eval vm_compute in ("<<<M489>>>" ++ check (runes_of_ascii "//
packet
o {
repeat
chars//	t
{ falsey leftPad `two words` , zchar[ 4294967296 ] packetx
    @lengthOf( i64_ ) `
` ,
repeat msg_type
    { zchar[ 007
]	matchKey , i16 falsey@calculatedFrom( ""packet"" ) `crlf
line` , }  ,
} , @tag( 00 ) zchar[
    007
    ]
    uint8x `u8 x,` //x
, char metadata , //x
match rootA
// a // b
// `tick` ""quote"" 'q'
as
zchar
{	10 :
    float ,42:
a1 ,
    } , int  @lengthOf(Packet
) , charz{i8i8 /// triple
rootA//
`doc` , }	,  } options { }
")).
Eval vm_compute in ("<<<M1222>>>" ++ check (runes_of_ascii "root packet metadata {
@calculatedFrom( ""abc""
    ) // a // b
repeat charz	metadata `two words` , zchar[0 ]
    packetx`u8 x,`, i16
    Pad @lengthOf(
BodyLength
    )
`a\`,string int @lengthOf(  leftPad )`a\` , char[] leftPad @calculatedFrom(	""1"" ) //	t
, @lengthOf(u128)repeat char[ 10] A `{ , }`
    , leftPad i64_ , @tag(007
    )
x u128 ,
// packet A { u8 x, }
// @lengthOf(
uint32	options1	`it's`// packet A { u8 x, }
,
// packet A { u8 x, }
//x
}")).
Eval vm_compute in ("<<<M869>>>" ++ check (runes_of_ascii "packet roots {
    repeat u8x `two words` ,
repeat roots // " ++ [128512]%N ++ runes_of_ascii " emoji
{ // " ++ [27880; 37322]%N ++ runes_of_ascii "
char[ 1 ] Z9_`it's`, // " ++ [128512]%N ++ runes_of_ascii " emoji
char[ // trailing space 
42
] float`" ++ [28040; 24687; 31867; 22411]%N ++ runes_of_ascii "` ,
    } , char[]	As  `a\` ,calculatedFrom {repeat uint64
trueish , } , repeat i64
MetaDataX ,
repeat string uint8x `say ""hi""` , _x A
`
` , @lengthOf( // `tick` ""quote"" 'q'
Packet )	@tag(7 )
@leftPad ( // packet A { u8 x, }
) Header { u128 , repeat
    char[] trueish  `a\`, },
    }
")).
Eval vm_compute in ("<<<M3898>>>" ++ check (runes_of_ascii "options {
    tag = false;
    charz = char[4294967296];
    float = ' ';
    u = zchar[255]
    x = ""a\""b""
}

packet leftPad {
    match As as falsey {
        [
            10, 0123456789, 007, """ ++ [28040; 24687]%N ++ runes_of_ascii """, ""packet"",
            ""`tick`"", ""1""
        ] : calculatedFrom,
    },
    @calculatedFrom(""it's"")
    float64 x_y_z @lengthOf(leftPad),
    trueish @lengthOf(packetx),
}

options {
    string_ = ""a\""b"";
    _x = false
}")).
Eval vm_compute in ("<<<M715>>>" ++ check (runes_of_ascii "MetaData  len{
}
packet BodyLength{ char[
42
    ]A@calculatedFrom(""// no comment"" ) `crlf
line`// a // b
,  match //
Header as calculatedFrom {
/// triple
// packet A { u8 x, }
""`tick`"" :
//x
//	t
o
,
// packet A { u8 x, }
// c
},
repeat packetx , }packet u { }packet
x_y_z { @lengthOf( repeatCount
    ) // trailing space 
char[] charz @calculatedFrom(
""it's"" ) `doc` , } packet	calculatedFrom {}
")).
Eval vm_compute in ("<<<M661>>>" ++ check (runes_of_ascii "MetaData u8x
{ char[]a1 , int16 zchar `tab	here` , u16 charz `
`, stringy Pad
, i32 // @lengthOf(
Header ,zchar[ 7// c
]//	t
crc , }options// packet A { u8 x, }
{
    } packet charz{ repeat int16 packetx
, matchKey o ,
@calculatedFrom( ""it's"" ) MetaDataX @lengthOf( tag)
`a\`
// trailing space 
// " ++ [27880; 37322]%N ++ runes_of_ascii "
, zchar[
    255	] _x , i8	i64_ @lengthOf( Header
    )
    , } // trailing space ")).
Eval vm_compute in ("<<<M3546>>>" ++ check (runes_of_ascii "// top
packet
    // c0
B
    // c1
{ // c2
u8 // c3
a // c4
, } // c6
root packet
    // c8
P {
    // c10
u8 K , // c13a
  // c13b
u64
    // c14
L // c15a
  // c15b
@lengthOf(
    // c16
Body // c17
)
    // c18
, match // c20a
  // c20b
K // c21a
  // c21b
as // c22a
  // c22b
Body
    // c23
{ 1 : // c26a
  // c26b
B , // c28a
  // c28b
} , // c30
}
    // c31
")).
Eval vm_compute in ("<<<M4316>>>" ++ check (runes_of_ascii "packet matchKey {
    @calculatedFrom(""" ++ [28040; 24687]%N ++ runes_of_ascii """)
    @lengthOf(lengthOf)
    @calculatedFrom(""" ++ [28040; 24687]%N ++ runes_of_ascii """)
    match trueish as options1 {
        42 : matchKey,
    },// " ++ [128512]%N ++ runes_of_ascii " emoji
    i64 u8x,
}

MetaData float {
    options1 u8x,
    options1 x,
    string u `it's`,
    pack Header `u8 x,`,
    char[] i64_,
}

options {
}

packet o {
}//

MetaData MetaDataX {
}")).
Eval vm_compute in ("<<<M622>>>" ++ check (runes_of_ascii "packet Pad
    { @lengthOf(MetaDataX )
roots a1	, }packet
tag { uint8 packetx ,@calculatedFrom( """") @rightPad( )string Z9_ @calculatedFrom(""x y""
/// triple
// " ++ [27880; 37322]%N ++ runes_of_ascii "
)`two words`
,f32
falsey
    // packet A { u8 x, }
    , }
    //
    root packet
Pad { len Z9_
, // " ++ [27880; 37322]%N ++ runes_of_ascii "
@lengthOf( o
    ) u32
    x
, A	`// not a comment` , // a // b
}
")).
Eval vm_compute in ("<<<M1857>>>" ++ check (runes_of_ascii "MetaData MetaData
    u { }  options {
// c
// @lengthOf(
float = int8 ;rootA =false ; As =	int16 // `tick` ""quote"" 'q'
repeatCount
    // trailing space 
    =
    int16
; u8x =
    //	t
    '\x00' ; } options	{
    repeatCount
= 0
u128
    //
    = false ; i64_
// trailing space 
// `tick` ""quote"" 'q'
= '0' ; //	t
}
")).
Eval vm_compute in ("<<<M2023>>>" ++ check (runes_of_ascii "MetaData
    u { }  options {
// c
// @lengthOf(
float = int8 ;rootA =false ; As =	int16 // `tick` ""quote"" 'q'
repeatCount
    // trailing space 
    =
    int16
; u8x =
    //	t
    '\x00' ; } options	{
    repeatCount
= 0
u128
    //
    = MetaDataX ; i64_
// trailing space 
// `tick` ""quote"" 'q'
= '0' ; //	t
}
")).
Eval vm_compute in ("<<<M2008>>>" ++ check (runes_of_ascii "MetaData
    u { }  options {
// c
// @lengthOf(
float = int8 ;rootA =false ; As =	int16 // `tick` ""quote"" 'q'
repeatCount
    // trailing space 
    =
    int16
; u8x =
    //	t
    '\x00' ; } options	{
    repeatCount
= f64
u128
    //
    = false ; i64_
// trailing space 
// `tick` ""quote"" 'q'
= '0' ; //	t
}
")).
Eval vm_compute in ("<<<M1858>>>" ++ check (runes_of_ascii "u
    MetaData { }  options {
// c
// @lengthOf(
float = int8 ;rootA =false ; As =	int16 // `tick` ""quote"" 'q'
repeatCount
    // trailing space 
    =
    int16
; u8x =
    //	t
    '\x00' ; } options	{
    repeatCount
= 0
u128
    //
    = false ; i64_
// trailing space 
// `tick` ""quote"" 'q'
= '0' ; //	t
}
")).
Eval vm_compute in ("<<<M2002>>>" ++ check (runes_of_ascii "MetaData
    u { }  options {
// c
// @lengthOf(
float = int8 ;rootA =false ; As =	int16 // `tick` ""quote"" 'q'
repeatCount
    // trailing space 
    =
    int16
; u8x =
    //	t
    '\x00' ; } options	{
    repeatCount
0 =
u128
    //
    = false ; i64_
// trailing space 
// `tick` ""quote"" 'q'
= '0' ; //	t
}
")).
Eval vm_compute in ("<<<M2000>>>" ++ check (runes_of_ascii "MetaData
    u { }  options {
// c
// @lengthOf(
float = int8 ;rootA =false ; As =	int16 // `tick` ""quote"" 'q'
repeatCount
    // trailing space 
    =
    int16
; u8x =
    //	t
    '\x00' ; } options	{
    repeatCount
 0
u128
    //
    = false ; i64_
// trailing space 
// `tick` ""quote"" 'q'
= '0' ; //	t
}
")).
Eval vm_compute in ("<<<M551>>>" ++ check (runes_of_ascii "packet options1 {
    @calculatedFrom(// trailing space 
""" ++ [233]%N ++ runes_of_ascii "t" ++ [233]%N ++ runes_of_ascii """
)
@calculatedFrom(""packet"") repeat
int16
calculatedFrom
,
    @rightPad( ) Z9_
// `tick` ""quote"" 'q'
// `tick` ""quote"" 'q'
@calculatedFrom( """ ++ [128512]%N ++ runes_of_ascii """ )
`line1
line2` , int64
    rootA
,
_x@calculatedFrom( ""a	b""
// `tick` ""quote"" 'q'
//	t
)
    ,	}
")).
Eval vm_compute in ("<<<M435>>>" ++ check (runes_of_ascii "// " ++ [27880; 37322]%N ++ runes_of_ascii "
packet// @lengthOf(
roots {	int64 Packet ,}
/// triple
// c
packet trueish
    { @calculatedFrom(
    """" )  msg_type @calculatedFrom(
    ""a\""b"")  ,
    // " ++ [27880; 37322]%N ++ runes_of_ascii "
    u16 trueish
, f32a	, uint64 //x
lengthOf
    @lengthOf( Foo
) , }options { repeatCount = true ; x = false
    chars=zchar[ 007]
;}")).
Eval vm_compute in ("<<<M3265>>>" ++ check (runes_of_ascii "// top
MetaData
    // c0
float
    // c1
{
    // c2
float64
    // c3
charz
    // c4
`
`
    // c5
,
    // c6
}
    // c7
root
    // c8
packet
    // c9
chars
    // c10
{
    // c11
@rightPad
    // c12
(
    // c13
'0'
    // c14
)
    // c15
Foo
    // c16
,
    // c17
}
    // c18
")).
Eval vm_compute in ("<<<M556>>>" ++ check (runes_of_ascii "options {
    uint8x= 3	;
    crc= 42 Logon  = '\x00' falsey= false }  root
    packet zchar {int16// trailing space 
u, } root packet
Header {@rightPad ( ' ' )@lengthOf( a1 )repeat body, zchar[
65535 ] string_ // `tick` ""quote"" 'q'
@lengthOf( MetaDataX ) , // @lengthOf(
}
")).
Eval vm_compute in ("<<<M702>>>" ++ check (runes_of_ascii "packet float { @leftPad (' '
)
@calculatedFrom(// `tick` ""quote"" 'q'
""a\""b"")@calculatedFrom( ""packet""
) u32 msg_type
//
// a // b
`" ++ [233]%N ++ runes_of_ascii "`	,
@tag( 00 ) @rightPad (' ' )
    repeat chars
metadata// " ++ [128512]%N ++ runes_of_ascii " emoji
,@rightPad ('0'	) tag string_	, repeat f64 int `u8 x,`  , }
// c
")).
Eval vm_compute in ("<<<M73>>>" ++ check (runes_of_ascii "packet MetaDataX
{ @calculatedFrom(
    ""CRC32""
    ) @tag(	255 //
) zchar[ 007
// c
// trailing space 
] Logon , } MetaData
// " ++ [27880; 37322]%N ++ runes_of_ascii "
// `tick` ""quote"" 'q'
u8x{ char[0123456789
    // @lengthOf(
    ]	Foo , i64 x_y_z , o msg_type
    , }
// packet A { u8 x, }
")).
Eval vm_compute in ("<<<M1575>>>" ++ check (runes_of_ascii "packet
//	t
// trailing space 
_x {
// packet A { u8 x, }
// c
char[
3
    ] u8x @lengthOf(
u8x ) , @calculatedFrom(""" ++ [128512]%N ++ runes_of_ascii """ // @lengthOf(
)
i16	Foo
@lengthOf(	@lengthOf(
    )`doc`	, repeat	i64 metadata , @lengthOf( string_
) i8 // c
u  `line1
line2`	,
}
")).
Eval vm_compute in ("<<<M1649>>>" ++ check (runes_of_ascii "packet
//	t
// trailing space 
_x {
// packet A { u8 x, }
// c
char[
3
    ] u8x @lengthOf(
u8x ) , @calculatedFrom(""" ++ [128512]%N ++ runes_of_ascii """ // @lengthOf(
)
i16	Foo
@lengthOf(	string_
    )`doc`	, repeat	i64 metadata , @lengthOf( string_
) i8 // c
u  `line1
line2`	,
as
")).
Eval vm_compute in ("<<<M1569>>>" ++ check (runes_of_ascii "packet
//	t
// trailing space 
_x {
// packet A { u8 x, }
// c
char[
3
    ] u8x @lengthOf(
u8x ) , @calculatedFrom(""" ++ [128512]%N ++ runes_of_ascii """ // @lengthOf(
)
i16	Foo
string_	@lengthOf(
    )`doc`	, repeat	i64 metadata , @lengthOf( string_
) i8 // c
u  `line1
line2`	,
}
")).
Eval vm_compute in ("<<<M1587>>>" ++ check (runes_of_ascii "packet
//	t
// trailing space 
_x {
// packet A { u8 x, }
// c
char[
3
    ] u8x @lengthOf(
u8x ) , @calculatedFrom(""" ++ [128512]%N ++ runes_of_ascii """ // @lengthOf(
)
i16	Foo
@lengthOf(	string_
    )`doc`	 repeat	i64 metadata , @lengthOf( string_
) i8 // c
u  `line1
line2`	,
}
")).
Eval vm_compute in ("<<<M848>>>" ++ check (runes_of_ascii "packet// `tick` ""quote"" 'q'
zchar { // c
} MetaData Header {Z9_ // a // b
pack , } MetaData asx { //	t
u Header
    ,
    zchar[ 3
    ]o
,
    As repeatCount
`" ++ [28040; 24687; 31867; 22411]%N ++ runes_of_ascii "`	,
//	t
//	t
rootA
tag //x
`u8 x,`
    , float64 options1 , char[] uint8x , }
")).
Eval vm_compute in ("<<<M3266>>>" ++ check (runes_of_ascii "// top
MetaData // c0a
  // c0b
float // c1
{
    // c2
float64 // c3
charz // c4a
  // c4b
`
`
    // c5
,
    // c6
} root // c8
packet // c9a
  // c9b
chars
    // c10
{ @rightPad ( '0' // c14
)
    // c15
Foo
    // c16
,
    // c17
} ")).
Eval vm_compute in ("<<<M301>>>" ++ check (runes_of_ascii "  MetaData // c
crc
{ i64 matchKey,
    _x msg_type//
, zchar zchar
    ,
    MetaDataX	matchKey
    `a\` ,
    u32 Header // " ++ [128512]%N ++ runes_of_ascii " emoji
, } MetaData
_x{
    } root packet
    calculatedFrom
// `tick` ""quote"" 'q'
// @lengthOf(
{	}
")).
Eval vm_compute in ("<<<M2004>>>" ++ check (runes_of_ascii "MetaData
    u { }  options {
// c
// @lengthOf(
float = int8 ;rootA =false ; As =	int16 // `tick` ""quote"" 'q'
repeatCount
    // trailing space 
    =
    int16
; u8x =
    //	t
    '\x00' ; } options	{
    repeatCount")).
Eval vm_compute in ("<<<M203>>>" ++ check (runes_of_ascii "packet u128  { @calculatedFrom(
""a	b"" ) repeat  uint8x u128
`line1
line2`  , }
    packet string_ { @calculatedFrom(
// `tick` ""quote"" 'q'
// packet A { u8 x, }
""" ++ [128512]%N ++ runes_of_ascii """ )
uint8 Pad
    @lengthOf(
    o )
`{ , }`, }")).
Eval vm_compute in ("<<<M1777>>>" ++ check (runes_of_ascii "options { trueish = ""`tick`"" ; string_= """ ++ [233]%N ++ runes_of_ascii "t" ++ [233]%N ++ runes_of_ascii """
    // c
    } root
    packet body { stringy @calculatedFrom(
""a	b"" ) `line1
line2` , }
packet packet Logon {
    @leftPad(
    ' ' ) //	t
u16 string_ `u8 x,` ,
}
")).
Eval vm_compute in ("<<<M4288>>>" ++ check (runes_of_ascii "root
packet  Z9_ 
{	repeatCount `a\`  ,

    char[255 ]
	Pad 
`" ++ [28040; 24687; 31867; 22411]%N ++ runes_of_ascii "` 
    // " ++ [27880; 37322]%N ++ runes_of_ascii "

	,

    char[ 	 // c
  0	]
    calculatedFrom
`it's`
	,MetaDataX msg_type
`line1
line2`	,  }

    // packet A { u8 x, }
")).
Eval vm_compute in ("<<<M1789>>>" ++ check (runes_of_ascii "options { trueish = ""`tick`"" ; string_= """ ++ [233]%N ++ runes_of_ascii "t" ++ [233]%N ++ runes_of_ascii """
    // c
    } root
    packet body { stringy @calculatedFrom(
""a	b"" ) `line1
line2` , }
packet Logon i8
    @leftPad(
    ' ' ) //	t
u16 string_ `u8 x,` ,
}
")).
Eval vm_compute in ("<<<M1763>>>" ++ check (runes_of_ascii "options { trueish = ""`tick`"" ; string_= """ ++ [233]%N ++ runes_of_ascii "t" ++ [233]%N ++ runes_of_ascii """
    // c
    } root
    packet body { stringy @calculatedFrom(
""a	b"" ) , `line1
line2` }
packet Logon {
    @leftPad(
    ' ' ) //	t
u16 string_ `u8 x,` ,
}
")).
Eval vm_compute in ("<<<M1786>>>" ++ check (runes_of_ascii "options { trueish = ""`tick`"" ; string_= """ ++ [233]%N ++ runes_of_ascii "t" ++ [233]%N ++ runes_of_ascii """
    // c
    } root
    packet body { stringy @calculatedFrom(
""a	b"" ) `line1
line2` , }
packet Logon 
    @leftPad(
    ' ' ) //	t
u16 string_ `u8 x,` ,
}
")).
Eval vm_compute in ("<<<M1684>>>" ++ check (runes_of_ascii "options { = = ""`tick`"" ; string_= """ ++ [233]%N ++ runes_of_ascii "t" ++ [233]%N ++ runes_of_ascii """
    // c
    } root
    packet body { stringy @calculatedFrom(
""a	b"" ) `line1
line2` , }
packet Logon {
    @leftPad(
    ' ' ) //	t
u16 string_ `u8 x,` ,
}
")).
Eval vm_compute in ("<<<M3887>>>" ++ check (runes_of_ascii "

  MetaData msg_type{
	Packet
	// @lengthOf(
  // trailing space 
	int	, 
char[
3
]
Foo
	`// not a comment` 
	    // `tick` ""quote"" 'q'
, zchar[ 
7 
] uint8x

    ,
	leftPad
crc	`
` ,
}")).
Eval vm_compute in ("<<<M3694>>>" ++ check (runes_of_ascii "MetaData Header {
    A float,
}

MetaData Pad {
    // trailing space 
    string float `a\`,
    char[] tag,
    // packet A { u8 x, }
    matchKey BodyLength,
    char[65535] Header,
}")).
Eval vm_compute in ("<<<M3684>>>" ++ check (runes_of_ascii "options{

_x

= true 
} options{
o
    =  /// triple
    false
	;chars = ""\n""
}  root packet

Pad
        /// triple
	// packet A { u8 x, }

{

chars

chars 
  // a // b

  , }

")).
Eval vm_compute in ("<<<M1290>>>" ++ check (runes_of_ascii "packet //	t
u8x
{ @leftPad (  '0' ) // trailing space 
@calculatedFrom( ""1""  )
@leftPad ('\x00' ) zchar[ 3
]  zchar
, // `tick` ""quote"" 'q'
}options {
    }
// @lengthOf(
")).
Eval vm_compute in ("<<<M4078>>>" ++ check (runes_of_ascii "MetaData Foo {
    zchar[10] i8i8,
    zchar[1] zchar,
    zchar lengthOf,
    string metadata `tab	here`,
    matchKey x,/// triple
    f32 leftPad `it's`,
    // c
}")).
Eval vm_compute in ("<<<M1007>>>" ++ check (runes_of_ascii "options  { x_y_z
= uint32
    ; x
= false ;len
= 0//
; }
root packet trueish {
    // `tick` ""quote"" 'q'
    @tag( 42// packet A { u8 x, }
) matchKey string_,
}
")).
Eval vm_compute in ("<<<M2387>>>" ++ check (runes_of_ascii "// c
packet x { @lengthOf( metadata ) repeat lengthOf
,a1 false
trueish	,// c
repeat//	t
MetaDataX , } , zchar[
    42	] rootA // `tick` ""quote"" 'q'
,
    }
")).
Eval vm_compute in ("<<<M548>>>" ++ check (runes_of_ascii "
packet
uint8x{
    @tag( 65535	)
char[
    //
    7 ] trueish
@lengthOf( options1)
    `{ , }` ,  } MetaData// @lengthOf(
rootA { } root
packet leftPad {}")).
Eval vm_compute in ("<<<M2410>>>" ++ check (runes_of_ascii "// c
packet x { @lengthOf( metadata ) repeat lengthOf
,a1{
trueish	?,// c
repeat//	t
MetaDataX , } , zchar[
    42	] rootA // `tick` ""quote"" 'q'
,
    }
")).
Eval vm_compute in ("<<<M2380>>>" ++ check (runes_of_ascii "// c
packet x { @lengthOf( metadata ) repeat lengthOf
,a1{
trueish	,// c
repeat//	t
MetaDataX , , } zchar[
    42	] rootA // `tick` ""quote"" 'q'
,
    }
")).
Eval vm_compute in ("<<<M4449>>>" ++ check (runes_of_ascii "packet tag {
    BodyLength @lengthOf(options1),
}

options {
    trueish = ""a\\""
    matchKey = 0123456789;
    BodyLength = '\x00'
    charz = """ ++ [233]%N ++ runes_of_ascii "t" ++ [233]%N ++ runes_of_ascii """;
}")).
Eval vm_compute in ("<<<M2359>>>" ++ check (runes_of_ascii "// c
packet x { @lengthOf( metadata ) repeat lengthOf
,a1{
trueish	,// c
repeat//	t
MetaDataX , } , zchar[
    42	] u64 // `tick` ""quote"" 'q'
,
    }
")).
Eval vm_compute in ("<<<M2167>>>" ++ check (runes_of_ascii "options{
_x
= true
} options
{ o	= /// triple
false
    ; chars
= ""\n"" } root packet	=
/// triple
// packet A { u8 x, }
{	chars
    // a // b
    ,}")).
Eval vm_compute in ("<<<M4463>>>" ++ check (runes_of_ascii "
root	packet

matchKey 
{ zchar[  3
	]

pack@calculatedFrom( ""a	b"" ) `doc` 
,
    }options {}

    MetaData
A

    {

int8 msg_type
,// c
  }

")).
Eval vm_compute in ("<<<M4038>>>" ++ check (runes_of_ascii "// top
MetaData float {
    // c2
    float64 charz `
    `,
    // c6
}

root packet chars {
    @rightPad('0')
    // c15
    Foo,
    // c17
}")).
Eval vm_compute in ("<<<M4502>>>" ++ check (runes_of_ascii "  packet 
A{
match k as
    n { 
[ 
1 ,22

    , ""c c"" ,

4  , 
5
    , 
""f""

, 7,
8
,
    ""i"" ,10 ,

    11 
] : B
,

2	:
	C
    }
	,
}")).
Eval vm_compute in ("<<<M564>>>" ++ check (runes_of_ascii "MetaData options1  { lengthOf As , char[ 255
]crc
    , char[] leftPad , As
//	t
//
leftPad , uint16 u128 , f32 //
x `{ , }` ,
}
//	t
")).
Eval vm_compute in ("<<<M298>>>" ++ check (runes_of_ascii "MetaData  metadata
{	char[65535]	x ,
    // c
    char[]
    u128, pack Z9_ , }
    packet // " ++ [27880; 37322]%N ++ runes_of_ascii "
a1{ repeat float repeatCount, }
")).
Eval vm_compute in ("<<<M4353>>>" ++ check (runes_of_ascii "MetaData metadata {
    char[65535] x,
    // c
    char[] u128,
    pack Z9_,
}

packet a1 {
    repeat float repeatCount,
}")).
Eval vm_compute in ("<<<M3311>>>" ++ check (runes_of_ascii "
// c
root packet matchKey { zchar[ 3 ] pack @calculatedFrom( ""a	b"" ) `doc` , } options { } MetaData A { int8 msg_type , }")).
Eval vm_compute in ("<<<M3330>>>" ++ check (runes_of_ascii "root packet matchKey { zchar[ 3 ] pack @calculatedFrom( ""a	b"" // c
) `doc` , } options { } MetaData A { int8 msg_type , }")).
Eval vm_compute in ("<<<M70>>>" ++ check (runes_of_ascii "
options {  MetaDataX= ""\" ++ [233]%N ++ runes_of_ascii """ }options {
// @lengthOf(
//	t
Logon = ""1""
    x_y_z = 65535  } MetaData
    //	t
    u8x {}
")).
Eval vm_compute in ("<<<M3054>>>" ++ check (runes_of_ascii "packet A {
    match k as n {
        ""x\
y"" : B,
        [""x\
y"", 1] : C,
        [1,2,3,4,5,""x\
y""] : D,
    },
}")).
Eval vm_compute in ("<<<M307>>>" ++ check (runes_of_ascii "
packet Logon // " ++ [27880; 37322]%N ++ runes_of_ascii "
{f32 _x
,} MetaData u8x {float32 leftPad, tag
    leftPad `say ""hi""`
    ,i16 tag `say ""hi""`,}
")).
Eval vm_compute in ("<<<M4507>>>" ++ check (runes_of_ascii "packet metadata {
    // c
    Logon {
        A `" ++ [28040; 24687; 31867; 22411]%N ++ runes_of_ascii "`,
        tag o,
    },
    zchar len `// not a comment`,
}")).
Eval vm_compute in ("<<<M1104>>>" ++ check (runes_of_ascii "root //	t
packet roots { // " ++ [27880; 37322]%N ++ runes_of_ascii "
} packet
    matchKey {
@calculatedFrom( ""a\""b"" )char[]tag // @lengthOf(
, }
")).
Eval vm_compute in ("<<<M2985>>>" ++ check (runes_of_ascii "packet A {
  match k as n {
    [""a"", ""bb"", 007, ""d"", ""e"", 66, ""g"", ""h"", 9, ""j"", ""k""] : B,
    2 : C
  },
}")).
Eval vm_compute in ("<<<M3906>>>" ++ check (runes_of_ascii "
packet metadata{	Logon {

    A

`" ++ [28040; 24687; 31867; 22411]%N ++ runes_of_ascii "`
,
	tag	o , },zchar len

`// not a comment`
    , // c
    }

")).
Eval vm_compute in ("<<<M4419>>>" ++ check (runes_of_ascii "options {
    _x = true
}

options {
    o = false;
    chars = ""\n""
}

root packet Pad {
    chars,
}")).
Eval vm_compute in ("<<<M4215>>>" ++ check (runes_of_ascii "options {
    _x = true
}

options {
    o = u64;
    chars = ""\n""
}

root packet Pad {
    chars,
}")).
Eval vm_compute in ("<<<M3016>>>" ++ check (runes_of_ascii "packet A {
    Inner {
        u8 x `
`,
        Deep {
            u8 y `
`,
        },
    },
}")).
Eval vm_compute in ("<<<M2327>>>" ++ check (runes_of_ascii "// c
packet x { @lengthOf( metadata ) repeat lengthOf
,a1{
trueish	,// c
repeat//	t
MetaDataX")).
Eval vm_compute in ("<<<M2925>>>" ++ check (runes_of_ascii "packet A {
  match k as n {
    [""a"", ""bb"", ""c c"", ""d"", ""e"", ""f"", ""g""] : B,
    2 : C
  },
}")).
Eval vm_compute in ("<<<M2942>>>" ++ check (runes_of_ascii "packet A {
  match k as n {
    [""a"", 22, ""c c"", 4, ""e"", 66, ""g"", 8] : B,
    2 : C
  },
}")).
Eval vm_compute in ("<<<M3278>>>" ++ check (runes_of_ascii "MetaData float { float64 charz
// c
`
` , } root packet chars { @rightPad ( '0' ) Foo , }")).
Eval vm_compute in ("<<<M3489>>>" ++ check (runes_of_ascii "packet chars { // c
} packet MetaDataX { @tag( 42 ) i16 string_ , repeat x `say ""hi""` , }")).
Eval vm_compute in ("<<<M4023>>>" ++ check (runes_of_ascii "MetaData	body  { i64
pack `it's` , } packet
	stringy{ 	 // c
int16  calculatedFrom
	, } ")).
Eval vm_compute in ("<<<M2295>>>" ++ check (runes_of_ascii "options
{ } options { BodyLength= u16 Header= f64 ; u128 =
    true
    ; } //' a // b")).
Eval vm_compute in ("<<<M2218>>>" ++ check (runes_of_ascii "options
{ options } { BodyLength= u16 Header= f64 ; u128 =
    true
    ; } // a // b")).
Eval vm_compute in ("<<<M3229>>>" ++ check (runes_of_ascii "packet metadata { Logon { A `" ++ [28040; 24687; 31867; 22411]%N ++ runes_of_ascii "` , tag // c
o , } , zchar len `// not a comment` , }")).
Eval vm_compute in ("<<<M2261>>>" ++ check (runes_of_ascii "options
{ } options { BodyLength= u16 Header= f64  u128 =
    true
    ; } // a // b")).
Eval vm_compute in ("<<<M3452>>>" ++ check (runes_of_ascii "packet o { repeat Logon uint8x , } options { asx =
// c
zchar[ 3 ] stringy = '\x00' }")).
Eval vm_compute in ("<<<M270>>>" ++ check (runes_of_ascii "MetaData _x{ } packet calculatedFrom {
}MetaData
_x	{i32
    body
    , uint8 x , }")).
Eval vm_compute in ("<<<M3395>>>" ++ check (runes_of_ascii "MetaData
// c
body { i64 pack `it's` , } packet stringy { int16 calculatedFrom , }")).
Eval vm_compute in ("<<<M4589>>>" ++ check (runes_of_ascii "packet zchar {
    @lengthOf(i8i8)
    int16 msg_type @lengthOf(As) `
        `,
}")).
Eval vm_compute in ("<<<M1456>>>" ++ check (runes_of_ascii "
packet
    falsey { Header@calculatedFrom(""packet""  ) , char[
    0123456789 ]")).
Eval vm_compute in ("<<<M1470>>>" ++ check (runes_of_ascii "
packet
    falsey { Header@calculatedFrom(""packet""  ) , char[
    012345678")).
Eval vm_compute in ("<<<M1291>>>" ++ check (runes_of_ascii "
root packet charz
    { @rightPad ( '0' )
_x	@lengthOf( asx
) `" ++ [233]%N ++ runes_of_ascii "`
, }
")).
Eval vm_compute in ("<<<M882>>>" ++ check (runes_of_ascii "packet// " ++ [27880; 37322]%N ++ runes_of_ascii "
pack {
    //	t
    repeat zchar As
    , i16 roots ,
    }")).
Eval vm_compute in ("<<<M1511>>>" ++ check (runes_of_ascii "packet
//	t
// trailing space 
_x {
// packet A { u8 x, }
// c
char[")).
Eval vm_compute in ("<<<M3797>>>" ++ check (runes_of_ascii "MetaData pack {
    // " ++ [27880; 37322]%N ++ runes_of_ascii "
    string float,
    char[] options1,
}")).
Eval vm_compute in ("<<<M2293>>>" ++ check (runes_of_ascii "options
{ } options { BodyLength= u16 Header= f64 ; u128 =
   ")).
Eval vm_compute in ("<<<M2909>>>" ++ check (runes_of_ascii "packet A { Inner { match k as n { [1,22,007,4,5] : B, }, }, }")).
Eval vm_compute in ("<<<M1295>>>" ++ check (runes_of_ascii "options { matchKey
= 0 Header =
// " ++ [128512]%N ++ runes_of_ascii " emoji
// c
""CRC32"" }
")).
Eval vm_compute in ("<<<M3386>>>" ++ check (runes_of_ascii "packet x { @rightPad ( ) repeat roots Logon `doc` ,
// c
}")).
Eval vm_compute in ("<<<M444>>>" ++ check (runes_of_ascii "// trailing space 
options{	tag =""1""	; } // @lengthOf(")).
Eval vm_compute in ("<<<M1215>>>" ++ check (runes_of_ascii "root packet calculatedFrom { char[] trueish `
` ,}
")).
Eval vm_compute in ("<<<M4147>>>" ++ check (runes_of_ascii "root packet 
u128

{ chars `it's`	, 
  // c
}
")).
Eval vm_compute in ("<<<M177>>>" ++ check (runes_of_ascii "root packet
repeatCount{ } // trailing space ")).
Eval vm_compute in ("<<<M2602>>>" ++ check (runes_of_ascii "packet A { B { match k as n { 1 : C }, }, }")).
Eval vm_compute in ("<<<M3204>>>" ++ check (runes_of_ascii "root packet u128 { chars `it's` , }
// c
")).
Eval vm_compute in ("<<<M4200>>>" ++ check (runes_of_ascii "MetaData f32a {
    char[42] zchar,//x
}")).
Eval vm_compute in ("<<<M2615>>>" ++ check (runes_of_ascii "packet A { match as as n { 1 : B }, }")).
Eval vm_compute in ("<<<M789>>>" ++ check (runes_of_ascii "root packet MetaDataX {	} // a // b")).
Eval vm_compute in ("<<<M2768>>>" ++ check (runes_of_ascii "cbXYPX~e2)CI,UYRj(FHGR'\b#6AQ*Q<F\")).
Eval vm_compute in ("<<<M2123>>>" ++ check (runes_of_ascii "options{
_x
= true
} options
{ o")).
Eval vm_compute in ("<<<M4538>>>" ++ check (runes_of_ascii "options {
    zchar = '\x00';
}")).
Eval vm_compute in ("<<<M3947>>>" ++ check (runes_of_ascii "

  packet A {}
	    // c" ++ [8232]%N ++ runes_of_ascii "
 
")).
Eval vm_compute in ("<<<M118>>>" ++ check (runes_of_ascii "options{
i64_ = ""`tick`""}

")).
Eval vm_compute in ("<<<M2594>>>" ++ check (runes_of_ascii "packet A { u8 x @tag(1), }")).
Eval vm_compute in ("<<<M3260>>>" ++ check (runes_of_ascii "root packet pack { // c
}")).
Eval vm_compute in ("<<<M2580>>>" ++ check (runes_of_ascii "packet A { char[ 3 y, }")).
Eval vm_compute in ("<<<M2706>>>" ++ check ([65533; 65533; 15; 65533]%N ++ runes_of_ascii "L" ++ [1963; 65533]%N ++ runes_of_ascii "B" ++ [65533; 26]%N ++ runes_of_ascii "h%" ++ [20]%N ++ runes_of_ascii "B" ++ [65533]%N ++ runes_of_ascii "k" ++ [65533]%N ++ runes_of_ascii "4" ++ [65533; 65533; 65533]%N)).
Eval vm_compute in ("<<<M4591>>>" ++ check (runes_of_ascii "root packet i64_ {
}")).
Eval vm_compute in ("<<<M3476>>>" ++ check (runes_of_ascii "MetaData o { // c
}")).
Eval vm_compute in ("<<<M3105>>>" ++ check (runes_of_ascii "packet A {
}
// c" ++ [8239]%N)).
Eval vm_compute in ("<<<M2658>>>" ++ check (runes_of_ascii "options { a = ; }")).
Eval vm_compute in ("<<<M2660>>>" ++ check (runes_of_ascii "options { a 1; }")).
Eval vm_compute in ("<<<M416>>>" ++ check (runes_of_ascii "
options { }
")).
Eval vm_compute in ("<<<M2369>>>" ++ check (runes_of_ascii "// c
packet")).
Eval vm_compute in ("<<<M2466>>>" ++ check (runes_of_ascii "metadata")).
Eval vm_compute in ("<<<M2434>>>" ++ check (runes_of_ascii "zchar[")).
Eval vm_compute in ("<<<M2474>>>" ++ check (runes_of_ascii "'\x0'")).
Eval vm_compute in ("<<<M2443>>>" ++ check (runes_of_ascii "uint")).
Eval vm_compute in ("<<<M2472>>>" ++ check (runes_of_ascii "' '")).
Eval vm_compute in ("<<<M1001>>>" ++ check (runes_of_ascii "  ")).
Eval vm_compute in ("<<<M2674>>>" ++ check (runes_of_ascii "}")).
