From FP Require Import Lexer Parser ShowPT Digest Formatter.
From Coq Require Import String List NArith.
Import ListNotations.
Open Scope string_scope.
Set Printing Width 100000000.
Set Printing Depth 100000000.
Definition show_fres (r : fres) : string :=
  match r with
  | FOk s => "OK:" ++ sh_escaped s ""
  | FErr s => "ERR:" ++ sh_escaped s ""
  | FPanic p => "PANIC:" ++ p
  end.
Definition check (rs : list rune) : string := digest (show_fres (format_res rs)).
Definition full (rs : list rune) : string := show_fres (format_res rs).
Eval vm_compute in ("<<<M3648>>>" ++ check (runes_of_ascii "options {
    ArrayPrefixLenType = u16;
    FixedStringPadFromLeft = true;
    JavaPackage = ""com.example.msg"";
    GoPackage = ""msg"";
    GoModule = ""example.com/msg"";
}
MetaData Meta {
    u32 SeqNum `sequence number`,
    char[8] Symbol `symbol`,
    zchar[5] ZSym `z symbol`,
    string Note,
    Symbol AltSymbol `alias of symbol`,
    f64 Price,
}
packet Inner {
    u8 a,
    i16 b,
    string c,
}
packet Inner2 {
    u8 a2,
    char[3] c2,
}
packet Logon {
    u8 x,
    string user,
    repeat u16 codes,
}
packet Logout {
    u16 reason,
}
packet Empty {
}
root packet Msg {
    u8 su8,
    uint8 luint8,
    u16 su16,
    uint16 luint16,
    u32 su32,
    uint32 luint32,
    u64 su64,
    uint64 luint64,
    i8 si8,
    int8 lint8,
    i16 si16,
    int16 lint16,
    i32 si32,
    int32 lint32,
    i64 si64,
    int64 lint64,
    f32 sf32,
    float32 lfloat32,
    f64 sf64,
    float64 lfloat64,
    char[6] fsplain,
    @leftPad('0') char[4] fs0,
    @rightPad('0') char[5] fs1,
    @leftPad(' ') char[6] fs2,
    @rightPad(' ') char[7] fs3,
    @leftPad('\x00') char[8] fs4,
    @rightPad('\x00') char[9] fs5,
    @leftPad() char[10] fs6,
    @rightPad() char[11] fs7,
    zchar[7] fz,
    @leftPad('0') zchar[3] fzl0,
    string s1 `doc`,
    char[] s2,
    Inner,
    Sub {
        u8 q,
        string w,
        Deep {
            u16 z,
            repeat i32 zs,
        },
    },
    repeat u8 ru8,
    repeat u16 ru16,
    repeat u32 ru32,
    repeat u64 ru64,
    repeat i8 ri8,
    repeat i16 ri16,
    repeat i32 ri32,
    repeat i64 ri64,
    repeat f32 rf32,
    repeat f64 rf64,
    repeat string rstr,
    repeat char[] rstr2,
    repeat char[3] rfs,
    repeat zchar[3] rfz,
    repeat Inner2,
    repeat Grp {
        u8 k,
        char[2] v,
    },
    SeqNum,
    SeqNum seq2,
    repeat SeqNum seqs,
    Symbol,
    AltSymbol alt,
    ZSym,
    Note,
    repeat Symbol syms,
    Price px,
    u16 MsgType,
    u32 BodyLen @lengthOf(Body),
    match MsgType as Body {
        1 : Logon,
        [2, 3] : Logout,
        7 : Logon,
        9 : Empty,
    },
    u32 Checksum @calculatedFrom(""CRC32""),
}
")).
Eval vm_compute in ("<<<M271>>>" ++ check (runes_of_ascii "// " ++ [27880; 37322]%N ++ runes_of_ascii "
options
    {
zchar // a // b
= ""x y""
; options1 = u16
;} packet
Pad{ Z9_@calculatedFrom(
"""")`
` , @tag( 42
    ) //
@tag( 00 ) @lengthOf( zchar	) match _x// packet A { u8 x, }
as metadata	{
007: As ""`tick`""// packet A { u8 x, }
: lengthOf,255 :lengthOf ""a	b""
// trailing space 
// " ++ [27880; 37322]%N ++ runes_of_ascii "
:
Packet 255: a1
    , // c
[ 00 ,
    0 , 10 ,	""a\\"" , ""it's"" ,
10, 7	]
: Foo , }
    , match Header
as  o{
[// packet A { u8 x, }
255 ]
    : zchar ,0123456789 :leftPad
    [	007	, 3 ] : leftPad , // c
0: packetx
, } , } MetaData
    Pad { // packet A { u8 x, }
} packet T
    // packet A { u8 x, }
    {
    // " ++ [27880; 37322]%N ++ runes_of_ascii "
    charz
    @lengthOf(asx) `` , }
packet
matchKey
{  @tag( 3
) @calculatedFrom( ""a	b""
/// triple
// c
)
@calculatedFrom("""" ) pack	rootA
    ,  repeat //	t
leftPad `` , repeat uint32 Foo `u8 x,` , @calculatedFrom(
""" ++ [233]%N ++ runes_of_ascii "t" ++ [233]%N ++ runes_of_ascii """) repeat char[ 65535 ] u , @lengthOf( _x )@lengthOf( u8x ) repeat zchar[ 0123456789 ] x
, match i64_ // " ++ [27880; 37322]%N ++ runes_of_ascii "
as falsey{ // trailing space 
255 :
f32a , ""{,}"" : x ,""\" ++ [233]%N ++ runes_of_ascii """	: matchKey
,
[	"""",
    // trailing space 
    ""{,}"" ,
    10 , """ ++ [128512]%N ++ runes_of_ascii """
// a // b
// packet A { u8 x, }
, ""a	b"", 0
,
""1"",65535
]: len , ""\" ++ [233]%N ++ runes_of_ascii """ :
    T
, [ ""CRC32"" ,
    // " ++ [128512]%N ++ runes_of_ascii " emoji
    1 , ""// no comment""
, 007,1 ,	""`tick`"", """ ++ [128512]%N ++ runes_of_ascii """
]// packet A { u8 x, }
: a1  },match
x as
As
{
    ""a	b"":	o , 007
:MetaDataX  ,  [
""a	b""
]:
falsey , ""// no comment""
    : Z9_""packet"":
    _x
    // " ++ [128512]%N ++ runes_of_ascii " emoji
    , },repeat rootA {	uint8 MetaDataX
    @calculatedFrom(
    ""abc""
    ) ,
    match // `tick` ""quote"" 'q'
int as// a // b
asx {	[10	,
10 , ""`tick`""  , 00 , 4294967296 ]
    :
    o ,
    ""CRC32"" :
string_ , [ 0
]
:	roots 65535 :
// " ++ [27880; 37322]%N ++ runes_of_ascii "
// trailing space 
_x //
, ""it's"" : Pad, 4294967296 : Pad , }
,	u16	chars
`line1
line2`
, //x
}
    ,
}")).
Eval vm_compute in ("<<<M681>>>" ++ check (runes_of_ascii "options {	leftPad = false
    ;
Packet  =//	t
int16 ;
    // c
    len = ' ' calculatedFrom =65535
; } MetaData Header{  int32 Z9_ , f32
zchar `u8 x,` , char[  10 // a // b
]x , asx
_x
`two words`
    /// triple
    , zchar[ 1 ]calculatedFrom `it's` ,}
// a // b
//	t
packet
    o{
    u msg_type
// " ++ [27880; 37322]%N ++ runes_of_ascii "
//
,@leftPad( '0' ) repeat BodyLength u
    `" ++ [233]%N ++ runes_of_ascii "` , @leftPad
('0'// " ++ [27880; 37322]%N ++ runes_of_ascii "
)@tag( 1 )zchar[ 1 ]i64_ @calculatedFrom( """ ++ [233]%N ++ runes_of_ascii "t" ++ [233]%N ++ runes_of_ascii """	)	`it's` , @lengthOf( x
    )
    @tag( 255  ) @tag(  7 )
repeat zchar[ 10
] chars
`two words` ,	@lengthOf(	Foo )rootA `" ++ [233]%N ++ runes_of_ascii "`
, } packet o {pack // " ++ [27880; 37322]%N ++ runes_of_ascii "
{repeat i8	lengthOf
    ,char int //	t
`u8 x,` ,
//	t
// a // b
i64 matchKey@lengthOf( x_y_z // @lengthOf(
), }
, zchar[ 007 ]
//x
// packet A { u8 x, }
metadata`say ""hi""`  , @rightPad ( ' ' )
    match //x
MetaDataX
    as
x_y_z { 0 : roots , """" : chars
    ,
    """ ++ [28040; 24687]%N ++ runes_of_ascii """ : T , 0 :
//x
// a // b
Foo
//	t
/// triple
,
    [ 0123456789, """ ++ [28040; 24687]%N ++ runes_of_ascii """ , 0 , """ ++ [233]%N ++ runes_of_ascii "t" ++ [233]%N ++ runes_of_ascii """ ,
    10 , ""a	b""
, """ ++ [233]%N ++ runes_of_ascii "t" ++ [233]%N ++ runes_of_ascii """ //	t
,""" ++ [128512]%N ++ runes_of_ascii """
]  :
options1 0123456789  :u ,// " ++ [128512]%N ++ runes_of_ascii " emoji
} , len @calculatedFrom(
""a\""b""
) // " ++ [27880; 37322]%N ++ runes_of_ascii "
, @tag(42 )
@lengthOf( x_y_z	)
// a // b
/// triple
leftPad chars , //	t
i8 options1
@lengthOf(i64_
    )	,
repeat
matchKey `
` , o	@calculatedFrom( ""`tick`"" ) ,
    @lengthOf( len ) len
{match float as
    rootA {
[ ""x y""  , ""a\""b"" ,7 , """"
, """ ++ [233]%N ++ runes_of_ascii "t" ++ [233]%N ++ runes_of_ascii """ , 4294967296
    ,
    ""abc"" , 65535
]: float
    , } ,	f32
    Packet ,
u16 a1	,	zchar[ 65535 ]
stringy, } ,	} root packet
    metadata // a // b
{
    @tag( 4294967296
    ) // " ++ [27880; 37322]%N ++ runes_of_ascii "
string	u8x
    `a\` , }
")).
Eval vm_compute in ("<<<M783>>>" ++ check (runes_of_ascii "MetaData
asx{ Packet i64_	, zchar[ 0 ] stringy ,
A tag , }
    options	{ } root packet
//x
// trailing space 
metadata { repeat x_y_z matchKey , repeat char[]
x_y_z
    // packet A { u8 x, }
    `crlf
line`	, @lengthOf(	As )  char[]x_y_z ,
@tag(  00)  @calculatedFrom(""" ++ [233]%N ++ runes_of_ascii "t" ++ [233]%N ++ runes_of_ascii """ )
    u8	pack @calculatedFrom( ""CRC32"" ) , roots
    // " ++ [27880; 37322]%N ++ runes_of_ascii "
    repeatCount ,	uint8x /// triple
`two words`,
}  options { Z9_ // `tick` ""quote"" 'q'
= string Z9_ =
    0 string_= true ; // c
crc =
i64 ; } packet packetx {  @leftPad (
'0' )// " ++ [128512]%N ++ runes_of_ascii " emoji
@rightPad
( '0' ) @lengthOf(
stringy )
char[]
body `" ++ [28040; 24687; 31867; 22411]%N ++ runes_of_ascii "` , // " ++ [27880; 37322]%N ++ runes_of_ascii "
match u as Foo
    { // " ++ [27880; 37322]%N ++ runes_of_ascii "
4294967296 :  Logon , } ,
match
stringy as BodyLength{  ""a\\"" :
    chars 4294967296 : Packet,
4294967296:	_x,255 :Foo , 1 : roots, }, @rightPad ( '0' ) //x
match
    // `tick` ""quote"" 'q'
    u8x
as f32a{
[  ""x y"", // a // b
""" ++ [128512]%N ++ runes_of_ascii """ ,
    ""`tick`"" ] : calculatedFrom ,
    ""a\""b""
: packetx
    // packet A { u8 x, }
    ,	[
    0 ]
: /// triple
As ,[ """ ++ [28040; 24687]%N ++ runes_of_ascii """
] :
    // `tick` ""quote"" 'q'
    Z9_ } ,	@lengthOf(// a // b
Logon	) match
    chars as
    len{[ 3 ,	""a\\""
    //x
    ]:string_[
// `tick` ""quote"" 'q'
// c
""it's""  ,// c
""a\\""	] : len ,
    [ ""\n""	,
3
,""" ++ [28040; 24687]%N ++ runes_of_ascii """ ]
: rootA , 10	: msg_type , }, char[]	chars@lengthOf( trueish )
`
` , //
@tag( 0
) repeat // " ++ [128512]%N ++ runes_of_ascii " emoji
zchar[ 7 ] A	,  char[
7 ] rootA  ,
// " ++ [128512]%N ++ runes_of_ascii " emoji
// c
}")).
Eval vm_compute in ("<<<M1189>>>" ++ check (runes_of_ascii "// " ++ [27880; 37322]%N ++ runes_of_ascii "
packet a1
    // " ++ [27880; 37322]%N ++ runes_of_ascii "
    { @calculatedFrom( """ ++ [233]%N ++ runes_of_ascii "t" ++ [233]%N ++ runes_of_ascii """)Logon { options1
falsey `// not a comment`, Z9_@calculatedFrom( ""packet"" ), int8
    // trailing space 
    Packet  `two words`
// " ++ [128512]%N ++ runes_of_ascii " emoji
// a // b
,
}
, @tag(	007 )
    char[] chars@lengthOf( Packet ) `crlf
line` ,
    match msg_type as Header { """ ++ [28040; 24687]%N ++ runes_of_ascii """ : _x //x
}, repeat
    //
    u128  { Logon @calculatedFrom( ""it's"" ) `{ , }` , }
// " ++ [128512]%N ++ runes_of_ascii " emoji
// c
,	int64
calculatedFrom // c
, repeat zchar[
0
    ] a1 `say ""hi""`
    , match options1	as repeatCount
{[
    //x
    ""1""
, ""`tick`"" ,
//
// " ++ [128512]%N ++ runes_of_ascii " emoji
10,
""\" ++ [233]%N ++ runes_of_ascii """,0123456789 , ""a\""b"" ]
    :pack,// @lengthOf(
0123456789
    // " ++ [128512]%N ++ runes_of_ascii " emoji
    :
    // packet A { u8 x, }
    Logon
, 255 :	x } ,
@calculatedFrom( ""abc"" )@lengthOf(
// packet A { u8 x, }
// " ++ [128512]%N ++ runes_of_ascii " emoji
x )
    repeat
Pad{ u8x
{
uint8	T @lengthOf(float )  ,match Header // `tick` ""quote"" 'q'
as // a // b
trueish { ""a	b"":
    body//	t
, }
,int8 MetaDataX @calculatedFrom(
    ""a	b"") ,	i8i8
    Pad `" ++ [28040; 24687; 31867; 22411]%N ++ runes_of_ascii "`
,} , repeat i8
    //
    A , // trailing space 
}	,
    uint32
    x@lengthOf(
Logon ) /// triple
`two words`
, } packet trueish { }MetaData
    // @lengthOf(
    msg_type
    { } packet
i8i8 {  @tag( 007)
    //x
    zchar[ 10
    ] /// triple
msg_type
    , }
")).
Eval vm_compute in ("<<<M50>>>" ++ check (runes_of_ascii "//x
packet Header
    {
    body
// " ++ [27880; 37322]%N ++ runes_of_ascii "
// " ++ [27880; 37322]%N ++ runes_of_ascii "
@calculatedFrom(
    ""CRC32"" )
`it's` ,repeat
int64//x
msg_type // " ++ [128512]%N ++ runes_of_ascii " emoji
,
//	t
//
@tag( 0 ) zchar[ 0 //
]
    int
//	t
// @lengthOf(
, }
    // " ++ [128512]%N ++ runes_of_ascii " emoji
    options { Packet=
true
    MetaDataX =
""" ++ [28040; 24687]%N ++ runes_of_ascii """ A
    = string} root packet	Logon {
    @leftPad // " ++ [27880; 37322]%N ++ runes_of_ascii "
('0' //x
)Header//
leftPad `doc` ,
    f32a
    {	rootA @lengthOf( calculatedFrom )	, int8
Packet `line1
line2` , } , repeat calculatedFrom
    { // `tick` ""quote"" 'q'
match
packetx as len { 1:matchKey ,
0123456789 :repeatCount ,
""\" ++ [233]%N ++ runes_of_ascii """ :
float , 255:
    MetaDataX
, },} ,
//x
// " ++ [27880; 37322]%N ++ runes_of_ascii "
leftPad {  repeat roots{ //	t
roots
@calculatedFrom(/// triple
""abc"" ),int32
BodyLength @calculatedFrom( ""packet"" )
,
}	, match repeatCount as
matchKey { ""abc"" : u128 , """ ++ [128512]%N ++ runes_of_ascii """ : a1
, ""a\\""
:rootA ,	[  3,3 ]// c
:
x_y_z	007 :Foo
    } ,
}
, // c
repeat rootA	matchKey	`it's` //	t
,	a1
    @calculatedFrom(""x y"" )  `line1
line2` ,int	,
    @tag(
// trailing space 
//x
65535) match metadata as	As
{ ""x y"": Foo	,//x
[ // `tick` ""quote"" 'q'
""x y"" ]:
    tag
//
// a // b
, 3
    : pack } ,repeat int8 charz ,char[] body , }
options {
    MetaDataX = char[ 0 ] ; } // a // b")).
Eval vm_compute in ("<<<M4322>>>" ++ check (runes_of_ascii "

  // a // b

  options {i64_ //
	= false ;	BodyLength

    =
	10

;
}

    packet
msg_type	{ @lengthOf(
msg_type)

    match rootA
    as
tag {""1"":  // `tick` ""quote"" 'q'
	  u8x ,

[
""x y"",	// " ++ [128512]%N ++ runes_of_ascii " emoji
  """ ++ [233]%N ++ runes_of_ascii "t" ++ [233]%N ++ runes_of_ascii """

,
0123456789 ,
    007 ,

    7
,

    255
, 7, 
65535	] :
matchKey

    ,
    4294967296
:

    chars
""packet"" 
:
charz	, 
""// no comment""
:// a // b

i64_ 
,
    10 :
    MetaDataX 
,}

    ,@lengthOf(  metadata
	)  MetaDataX @calculatedFrom(

""" ++ [233]%N ++ runes_of_ascii "t" ++ [233]%N ++ runes_of_ascii """
) 
`
`, f32a { matchKey ,

    },	zchar[
10
]
_x
`line1
line2` ,  metadata

    crc

,@lengthOf( body
	)char[

    3  ] string_

,repeat

T
	, 
trueish // @lengthOf(
  	i8i8, f32 Header
`
`
	,

    @leftPad ( ' ' 
)
    char[	00

] o
,

}packet 
zchar

{@lengthOf(
Packet )

@lengthOf(falsey	) 	 // " ++ [128512]%N ++ runes_of_ascii " emoji

repeat rootA  `doc`
,
	@leftPad  // " ++ [128512]%N ++ runes_of_ascii " emoji
    (
' ' 

    // @lengthOf(

// @lengthOf(

)  char[]float	@lengthOf(

    roots
),}

root	packet//x
      lengthOf {
rootA // trailing space 
    @calculatedFrom(
    ""it's"" ) ,  }
    root

packet
repeatCount  // a // b
  	{ }
")).
Eval vm_compute in ("<<<M705>>>" ++ check (runes_of_ascii "packet
As // trailing space 
{
match asx as Header {  10
:Packet ""abc""	:u ,
    42
:Header , [ ""a	b"" ,
    255,42
    ] // trailing space 
:  leftPad 00 : int  , [ ""x y"",
7] : packetx
    , } , repeat zchar[
007
]options1
, body // @lengthOf(
MetaDataX
    // " ++ [27880; 37322]%N ++ runes_of_ascii "
    ,
    @leftPad
()
string x_y_z ,
    @lengthOf(x )
@rightPad	('0' )match
    T as tag { ""CRC32""
:
    stringy  ,00://x
packetx [
    // `tick` ""quote"" 'q'
    255	,""packet"" // a // b
]: A
    , [ 255 ,
//x
//	t
1
//	t
// @lengthOf(
,
    // @lengthOf(
    ""abc"" , 1
// " ++ [27880; 37322]%N ++ runes_of_ascii "
//	t
,
""1"" , """ ++ [233]%N ++ runes_of_ascii "t" ++ [233]%N ++ runes_of_ascii """ , 10 , // packet A { u8 x, }
00] : i8i8
    ""\n"" // a // b
:
_x,
    } ,MetaDataX {match trueish as uint8x { 1
:x , 3
:
    a1 , ""a\""b"" : u128 ,  },
} , float64 calculatedFrom @calculatedFrom( """ ++ [28040; 24687]%N ++ runes_of_ascii """
//	t
//x
) // c
`u8 x,`	,u64
    float @lengthOf( // " ++ [128512]%N ++ runes_of_ascii " emoji
matchKey ), }options
{ metadata
= //x
""{,}""//
a1 =
    u8 ;
falsey=  1 ; _x =
zchar[65535 ] Header =	' ' }
    MetaData T {
} MetaData Z9_{  string
// " ++ [27880; 37322]%N ++ runes_of_ascii "
//	t
f32a
,
len zchar
    ,
    }
")).
Eval vm_compute in ("<<<M1297>>>" ++ check (runes_of_ascii "packet packetx{ stringy{ repeat  matchKey
    { match
    falsey as matchKey
{ 0123456789 :
float ,
[
""abc"" ] :u128
// " ++ [27880; 37322]%N ++ runes_of_ascii "
// " ++ [128512]%N ++ runes_of_ascii " emoji
""x y"" :// " ++ [27880; 37322]%N ++ runes_of_ascii "
i8i8 } , match  falsey as Foo { 65535// " ++ [128512]%N ++ runes_of_ascii " emoji
:trueish,
} ,
    },  char[]  roots@calculatedFrom(
    """ ++ [28040; 24687]%N ++ runes_of_ascii """), zchar[ 0123456789
// " ++ [27880; 37322]%N ++ runes_of_ascii "
// `tick` ""quote"" 'q'
]i64_ ,	zchar[ 42 ] MetaDataX
@lengthOf( len  )
,  }
, pack @lengthOf(  crc)//x
, @tag( 65535 )
    @leftPad	(
) @lengthOf(
    asx ) u8x {repeat uint64 Pad, x_y_z _x `
`, }
, MetaDataX stringy,
    // trailing space 
    @lengthOf( BodyLength ) string calculatedFrom
@calculatedFrom(""\n"" )
    `line1
line2` , u32
u8x , @tag(
    007
//
// c
)
//
//
@lengthOf( // packet A { u8 x, }
asx
    ) repeat uint8x { match  float
as // @lengthOf(
As{ [ ""1"" ,"""" , 255
,
255 ,
007 , ""1""// " ++ [27880; 37322]%N ++ runes_of_ascii "
]
: rootA""1""
    : msg_type // c
,
65535: f32a , ""x y""
:
    //
    leftPad}
    , }
    // trailing space 
    , u8 asx `u8 x,`, len `it's`,}
//x
/// triple
options {
falsey =
true }
")).
Eval vm_compute in ("<<<M735>>>" ++ check (runes_of_ascii "  root packet Packet{ @lengthOf( u128 ) match Foo
    as metadata{[ """ ++ [28040; 24687]%N ++ runes_of_ascii """, ""a	b"" ] :Z9_ ""packet""
: metadata	,[
    0123456789 , 10 ,
    // @lengthOf(
    ""1"" , ""1""
    /// triple
    , 4294967296	,""it's"" ,
    ""`tick`"" , ""{,}""]:
As ,
0 : repeatCount } , match rootA	as  zchar { 7
    // `tick` ""quote"" 'q'
    : // `tick` ""quote"" 'q'
Logon
    ,""a\\"" :
body""" ++ [128512]%N ++ runes_of_ascii """
: T// a // b
, [ ""1""
,
""a\\"" , 65535
    ,
""" ++ [233]%N ++ runes_of_ascii "t" ++ [233]%N ++ runes_of_ascii """ ,	""x y"" // c
, 3 // c
]
// a // b
// trailing space 
:
/// triple
// trailing space 
len // trailing space 
,""" ++ [128512]%N ++ runes_of_ascii """
: o , }  ,  @lengthOf( options1 ) A @calculatedFrom(
""a\""b"" )`" ++ [233]%N ++ runes_of_ascii "`
, /// triple
@rightPad
    ( // c
)  u64 i8i8 @calculatedFrom(""{,}"" ) `// not a comment`, repeat pack
{ char[] MetaDataX
, } , @lengthOf(
// c
// " ++ [128512]%N ++ runes_of_ascii " emoji
roots ) // packet A { u8 x, }
@lengthOf(	msg_type )
@calculatedFrom( ""// no comment"" ) char[ 3 ]
string_@lengthOf(
    pack
    ) // " ++ [27880; 37322]%N ++ runes_of_ascii "
`doc` , }
// `tick` ""quote"" 'q'
")).
Eval vm_compute in ("<<<M3810>>>" ++ check (runes_of_ascii "packet f32a {
    // c
    string len @lengthOf(As) `line1
    line2`,
    zchar[1] zchar `{ , }`,
    tag @lengthOf(rootA),// c
    string x_y_z `" ++ [28040; 24687; 31867; 22411]%N ++ runes_of_ascii "`,
}

packet crc {
    BodyLength @lengthOf(msg_type),
}

MetaData packetx {
}

root packet lengthOf {
    repeat uint32 zchar,// " ++ [27880; 37322]%N ++ runes_of_ascii "
    T {
        msg_type {
            f32a {
                charz stringy ``,
                uint16 u128,
                i16 BodyLength @lengthOf(x),
                int8 metadata `tab	here`,
            },
            repeat Packet `doc`,// packet A { u8 x, }
            int8 A @calculatedFrom(""CRC32""),
        },
        Pad asx,
        char[0] repeatCount,
    },
    u16 Z9_ `" ++ [233]%N ++ runes_of_ascii "`,
    @rightPad('\x00')
    repeat Header `line1
    line2`,
    @calculatedFrom(""\" ++ [233]%N ++ runes_of_ascii """)
    char[] rootA @calculatedFrom(""// no comment"") `doc`,// a // b
    calculatedFrom `a\`,
}

packet As {
}")).
Eval vm_compute in ("<<<M795>>>" ++ check (runes_of_ascii "packet
    roots { @calculatedFrom(
    ""1"")
repeat char f32a , zchar[
// " ++ [128512]%N ++ runes_of_ascii " emoji
// `tick` ""quote"" 'q'
42
/// triple
// " ++ [128512]%N ++ runes_of_ascii " emoji
] options1
`
` ,
/// triple
// " ++ [27880; 37322]%N ++ runes_of_ascii "
@calculatedFrom( """ ++ [233]%N ++ runes_of_ascii "t" ++ [233]%N ++ runes_of_ascii """ ) float64 uint8x `say ""hi""`  , packetx
    //	t
    @lengthOf( BodyLength	)  `a\`  ,	@calculatedFrom( ""\" ++ [233]%N ++ runes_of_ascii """ ) chars u8x	`{ , }`
, match _x as len {
    42 : crc, 4294967296 // packet A { u8 x, }
: uint8x ,  10 : BodyLength,
    } //
,@tag(0 )
    // @lengthOf(
    char[ 7] // trailing space 
metadata,
    /// triple
    @tag( 4294967296
)
    match BodyLength
as  chars { ""`tick`"":
x_y_z
    , 42
    //x
    : x_y_z ,0123456789: x },
char[
7 ] rootA`" ++ [28040; 24687; 31867; 22411]%N ++ runes_of_ascii "` ,}
    packet string_ { @calculatedFrom(
    """ ++ [128512]%N ++ runes_of_ascii """)@lengthOf( f32a
    // packet A { u8 x, }
    ) @lengthOf( Pad ) repeat
    //	t
    pack i64_
`line1
line2`,	}
")).
Eval vm_compute in ("<<<M1134>>>" ++ check (runes_of_ascii "MetaData
int
    { u32 pack
    , char f32a , trueish MetaDataX  `tab	here` /// triple
, }options {  T=3 }
    packet // trailing space 
a1
    { @calculatedFrom( ""1"" )
uint8x
Logon
    ,
    /// triple
    @leftPad ( '0' ) char Header ,@lengthOf( packetx ) u64 zchar @calculatedFrom(""" ++ [128512]%N ++ runes_of_ascii """) `line1
line2` , @tag( 007
    ) @lengthOf( float )
@tag(
    0 ) repeat
    uint8x { int16 // " ++ [27880; 37322]%N ++ runes_of_ascii "
metadata
@lengthOf( zchar
)
    , charz @calculatedFrom( //x
""// no comment""  ), u8  int @lengthOf( crc
) `
` ,
    }, @lengthOf(	zchar
    )repeat leftPad falsey , i8i8 { string
    T ``, } ,
@rightPad ()// `tick` ""quote"" 'q'
repeat
o { uint64  metadata @lengthOf( pack
    // " ++ [27880; 37322]%N ++ runes_of_ascii "
    ) ,  },
@leftPad
(
'\x00'
    ) //
repeat u128 leftPad // trailing space 
,} options {  }
")).
Eval vm_compute in ("<<<M511>>>" ++ check (runes_of_ascii "
MetaData BodyLength { // trailing space 
zchar[ 10
]trueish, }
packet f32a
    {@calculatedFrom(
    ""a\\"" ) @tag( 3
    )
@leftPad ( '\x00'	)
u128 { match u8x
    as len
    { [
"""",
0 ]
: chars
, 7
    :rootA
,}, // " ++ [128512]%N ++ runes_of_ascii " emoji
match zchar as matchKey { 00 :
repeatCount //	t
,""a	b"":Logon ,
[ """ ++ [233]%N ++ runes_of_ascii "t" ++ [233]%N ++ runes_of_ascii """
, 00 ]:packetx} ,
i64 tag,	}
, @leftPad
    ( '\x00'
) char[] u128 `// not a comment` ,
    float64 lengthOf @lengthOf( // " ++ [27880; 37322]%N ++ runes_of_ascii "
charz ) , @leftPad
(
    '\x00'
)As uint8x `crlf
line`, }packet	uint8x { char[
    255 ] calculatedFrom
    , roots @lengthOf( a1
) `tab	here`
    // trailing space 
    ,
//
/// triple
@rightPad
    (' ' )  repeat a1 a1, char
crc , i16 a1 , } //x
packet len{ //
zchar a1 // trailing space 
`u8 x,`,	}")).
Eval vm_compute in ("<<<M27>>>" ++ check (runes_of_ascii "root packet Packet{ char[]
    msg_type @calculatedFrom(""a\\"" ) , repeat
    u16 a1
`say ""hi""`
,f32a
stringy
`u8 x,` ,
    uint16 int	, @calculatedFrom( ""// no comment""
) repeat
// a // b
// c
u8 T, zchar[
// packet A { u8 x, }
// " ++ [27880; 37322]%N ++ runes_of_ascii "
65535
//x
//
]  T , // `tick` ""quote"" 'q'
repeat chars	{ char[] tag //x
`" ++ [233]%N ++ runes_of_ascii "`,int64 A	@calculatedFrom(	""\n"" )`// not a comment`
, match trueish as i8i8 {[ ""a\""b""]	: MetaDataX, } , len {zchar[ 65535 ]o
    @lengthOf( body  ) `a\`//
, string options1`two words`
    , tag
    // `tick` ""quote"" 'q'
    { T `{ , }`
    , charz
    ,i8 // trailing space 
uint8x ,} ,char[]packetx// @lengthOf(
@lengthOf(// c
roots ) ,} ,
    }
,//
string  x, } // trailing space ")).
Eval vm_compute in ("<<<M3599>>>" ++ check (runes_of_ascii "// top
packet
    // c0
MDSnapshotZZ // c1a
  // c1b
{ // c2
u8 // c3a
  // c3b
a
    // c4
, // c5
} packet // c7
OrderACK
    // c8
{
    // c9
u16 // c10
b // c11
, }
    // c13
packet // c14
HTTPServerInfo // c15a
  // c15b
{ // c16a
  // c16b
string // c17a
  // c17b
s // c18
, } // c20
root packet
    // c22
FIXMsg
    // c23
{ // c24a
  // c24b
u8 // c25a
  // c25b
KType
    // c26
, // c27
MDSnapshotZZ // c28
, repeat
    // c30
OrderACK // c31a
  // c31b
, // c32a
  // c32b
match KType as Body
    // c36
{ // c37a
  // c37b
1 // c38
: // c39
HTTPServerInfo , 2 : // c43a
  // c43b
OrderACK
    // c44
, // c45
} // c46
,
    // c47
} // c48
")).
Eval vm_compute in ("<<<M405>>>" ++ check (runes_of_ascii "options { options1 =
0 } packet _x { @tag( 3
    // trailing space 
    )
@lengthOf( packetx
)repeat
    zchar[ 255] roots,}	packet  Logon{ f64
float ,
matchKey	,
    f32a//
Pad
    `" ++ [233]%N ++ runes_of_ascii "` ,
    // `tick` ""quote"" 'q'
    @calculatedFrom( ""packet"" ) match u128 as
Pad{
    [// " ++ [27880; 37322]%N ++ runes_of_ascii "
00 ,""CRC32"" ]
    : msg_type
65535
:	stringy , [
""abc"" //	t
,00, """ ++ [233]%N ++ runes_of_ascii "t" ++ [233]%N ++ runes_of_ascii """ , ""// no comment""
    , // trailing space 
0
,""// no comment""
    , ""1"" ]
    : matchKey [ ""it's"" ,0] : A } , zchar[ 3] //x
uint8x , } options { _x = ' ' rootA = //x
char[] uint8x= //	t
""a	b"" ;
body= char[]
    // trailing space 
    }
    root
packet
    len  { }
")).
Eval vm_compute in ("<<<M3584>>>" ++ check (runes_of_ascii "// top
packet // c0a
  // c0b
A { // c2
u8 // c3a
  // c3b
a , } // c6a
  // c6b
packet // c7a
  // c7b
B // c8
{ // c9a
  // c9b
u16
    // c10
b // c11a
  // c11b
, // c12a
  // c12b
}
    // c13
root // c14a
  // c14b
packet // c15
P
    // c16
{
    // c17
u8 // c18
K // c19
, // c20a
  // c20b
match
    // c21
K
    // c22
as // c23a
  // c23b
M // c24
{ // c25
[
    // c26
1 // c27a
  // c27b
, // c28
2
    // c29
]
    // c30
: A // c32a
  // c32b
, // c33a
  // c33b
3 :
    // c35
B , // c37a
  // c37b
7 // c38a
  // c38b
: // c39a
  // c39b
A
    // c40
, } , } // c44a
  // c44b
")).
Eval vm_compute in ("<<<M3578>>>" ++ check (runes_of_ascii "// top
packet // c0a
  // c0b
A // c1a
  // c1b
{ // c2
u8 a // c4a
  // c4b
, // c5a
  // c5b
} packet
    // c7
B // c8a
  // c8b
{ // c9a
  // c9b
u16 // c10a
  // c10b
b
    // c11
,
    // c12
} // c13
root // c14
packet // c15a
  // c15b
P { // c17
u8 // c18a
  // c18b
K1 , // c20a
  // c20b
u8 // c21
K2 , // c23
match K1
    // c25
as M1 // c27
{ // c28a
  // c28b
1 // c29a
  // c29b
:
    // c30
A // c31a
  // c31b
, // c32a
  // c32b
} , match // c35
K2 as
    // c37
M2
    // c38
{ 1 // c40a
  // c40b
:
    // c41
B , } // c44
,
    // c45
}
    // c46
")).
Eval vm_compute in ("<<<M485>>>" ++ check (runes_of_ascii "packet	options1 { // " ++ [27880; 37322]%N ++ runes_of_ascii "
string
    stringy @lengthOf( u8x// trailing space 
)	`it's` ,  zchar[ 7] // a // b
Packet`tab	here` ,char[]  leftPad `" ++ [28040; 24687; 31867; 22411]%N ++ runes_of_ascii "` , f32 packetx
`a\`
    ,  char[]
    //	t
    len,
    metadata // trailing space 
{ float32 Pad @lengthOf(tag),
repeat string_ lengthOf`crlf
line`,
// `tick` ""quote"" 'q'
/// triple
} , @lengthOf(	asx ) char[]trueish @lengthOf(
Header ) `tab	here`  , @leftPad( '0'
    )char[] Foo,zchar[10
    ]packetx
, repeat leftPad `u8 x,` ,
    }
    packet pack
{
    } options {
    //
    }
")).
Eval vm_compute in ("<<<M802>>>" ++ check (runes_of_ascii "packet Logon // `tick` ""quote"" 'q'
{
    @rightPad
()
repeat
Z9_ , match i64_
//x
// @lengthOf(
as len { 65535
// " ++ [27880; 37322]%N ++ runes_of_ascii "
// @lengthOf(
:
    MetaDataX
, """ ++ [128512]%N ++ runes_of_ascii """: u128 , """ ++ [28040; 24687]%N ++ runes_of_ascii """ :lengthOf
""a	b"" : o , [
    255 // c
]  : As , [""\n""] :
// @lengthOf(
// trailing space 
o, } ,	@tag(
//	t
// trailing space 
42)
@tag( 1 ) //	t
string_ @calculatedFrom( ""1"" ) ,
    } root packet
matchKey
{ repeat u32
MetaDataX ,
    float32
As	@lengthOf(
charz	),
a1 repeatCount `
`	, } packet
    msg_type
    // trailing space 
    {
    }")).
Eval vm_compute in ("<<<M603>>>" ++ check (runes_of_ascii "// trailing space 
packet packetx { leftPad//
{ repeat msg_type // @lengthOf(
charz , char a1 @lengthOf( stringy )`` , repeat int16
//x
/// triple
u8x , int64
u
// packet A { u8 x, }
//	t
`" ++ [28040; 24687; 31867; 22411]%N ++ runes_of_ascii "`  ,
} , // trailing space 
@tag( 0 ) match Packet
    as u8x{
007 : u8x [0123456789,	""x y"" ]: u128 , 007 : // packet A { u8 x, }
u 65535	:o
,7
: u, }// @lengthOf(
,
    } // `tick` ""quote"" 'q'
root// " ++ [27880; 37322]%N ++ runes_of_ascii "
packet trueish { char[ 0  ] Logon ,@tag(
00 ) u32
    x_y_z @lengthOf( options1 ) , }
")).
Eval vm_compute in ("<<<M717>>>" ++ check (runes_of_ascii "packet// `tick` ""quote"" 'q'
A{ match packetx as As {	007 :body , [255
    ,
""\" ++ [233]%N ++ runes_of_ascii """,
65535 ,""a	b"" ]: float[255 , ""a\""b"" ]
:
i64_  } , @calculatedFrom( ""\" ++ [233]%N ++ runes_of_ascii """ ) @calculatedFrom(
""CRC32""
)//
Z9_@calculatedFrom( ""it's"" ) `
` ,} MetaData calculatedFrom
{
    i16 len // c
, zchar[
    42
    ]
    A
`{ , }`
,string tag `doc` ,float
    matchKey,
char[ 7
    ] len `
` ,
// `tick` ""quote"" 'q'
//
}root packet int {
@lengthOf(
int)  i8  u @lengthOf(len ),
} options { }
")).
Eval vm_compute in ("<<<M17>>>" ++ check (runes_of_ascii "root  packet
Pad {
@tag(65535 ) @lengthOf(
matchKey) //
int32 pack
    , // `tick` ""quote"" 'q'
zchar[65535  ]
charz @calculatedFrom(""""
    )
`crlf
line` , }
MetaData
options1
    {charz crc
//
// " ++ [27880; 37322]%N ++ runes_of_ascii "
, body packetx `// not a comment`, } packet string_ { char[	7 // @lengthOf(
]
T	@calculatedFrom(""\" ++ [233]%N ++ runes_of_ascii """) // c
, @leftPad ( '\x00')@calculatedFrom(
""packet"" )
@tag( 42
// " ++ [128512]%N ++ runes_of_ascii " emoji
// " ++ [128512]%N ++ runes_of_ascii " emoji
) string string_ @calculatedFrom( """ ++ [28040; 24687]%N ++ runes_of_ascii """ ) `a\` , }
")).
Eval vm_compute in ("<<<M1253>>>" ++ check (runes_of_ascii "root packet metadata{ @calculatedFrom( ""it's"")match
    Foo as a1{ ""{,}"" :
    len,
0123456789 :
pack ,
    4294967296
:len ,
0123456789 :matchKey
, [ ""it's"" ]	:o//	t
}, //
@calculatedFrom(""""
//	t
// " ++ [128512]%N ++ runes_of_ascii " emoji
) body {	repeat// trailing space 
float64  zchar `it's` , repeat float zchar// " ++ [27880; 37322]%N ++ runes_of_ascii "
`// not a comment` , } , } MetaData _x {
    crc A // a // b
, char[]repeatCount `two words`,
uint8x u128 , o rootA `two words`
    , }")).
Eval vm_compute in ("<<<M981>>>" ++ check (runes_of_ascii "packet msg_type { uint32// a // b
i8i8 `say ""hi""` ,
match packetx	as  asx
    {
0123456789:
    msg_type ,
    1
    :
    _x } ,
repeat As	{ f32 body ,string msg_type
, f64
    roots
//
// " ++ [27880; 37322]%N ++ runes_of_ascii "
, }
    // `tick` ""quote"" 'q'
    ,
char[] options1`say ""hi""`  ,	}	options { msg_type = true ;} packet	crc{
asx x_y_z , } MetaData T {T	i8i8
, int16
zchar
,int tag
,
    string x_y_z`
` ,
    float32
metadata , }
")).
Eval vm_compute in ("<<<M452>>>" ++ check (runes_of_ascii "root packet
    MetaDataX {} options {  int// " ++ [128512]%N ++ runes_of_ascii " emoji
=	false
    //	t
    } packet
    falsey {
    string tag  `say ""hi""` , leftPad // trailing space 
stringy
, @calculatedFrom( ""a	b"" ) As
@calculatedFrom(""packet""	)
// `tick` ""quote"" 'q'
// c
`line1
line2`
,
A@lengthOf(
// " ++ [27880; 37322]%N ++ runes_of_ascii "
//
body) , @calculatedFrom( """ ++ [28040; 24687]%N ++ runes_of_ascii """ ) calculatedFrom ,
calculatedFrom @lengthOf( calculatedFrom
)
`tab	here`,
}
")).
Eval vm_compute in ("<<<M99>>>" ++ check (runes_of_ascii "packet i8i8{ matchKey //x
, match trueish
//	t
// c
as roots
{  [ 00 ] : int , 255 :  u128  ,	3 : matchKey , [ 65535 ]
    :
// c
//
trueish , //	t
}
    , } packet packetx{ }
packet
u8x {@tag(
3
    )
    match x_y_z as
leftPad
{ [ 7 ]:  u8x }
    , @tag(  42
) int64 lengthOf ,@tag(
255 )	zchar[ 7 ]	o , A ,@tag( 0
    // @lengthOf(
    ) repeat lengthOf u8x, }
")).
Eval vm_compute in ("<<<M3933>>>" ++ check (runes_of_ascii "  MetaData
u
    { } options	{ 
    // c

// @lengthOf(
    float  = int8
rootA

    = false 
;

As
=  int16 // `tick` ""quote"" 'q'
  repeatCount 

    // trailing space 
= int16
;u8x

    = 
  //	t
	'\x00'  ; 
}
    options 
{repeatCount  = 0
	u128

    //
	= 
false;
    i64_

// trailing space 

  // `tick` ""quote"" 'q'
  = '0' 
; 	 //	t
}
")).
Eval vm_compute in ("<<<M3644>>>" ++ check (runes_of_ascii "options {
    FixedStringPadFromLeft = true;
    FixedStringPadChar = ' ';
}
packet Reject {
}
packet Fill {
    repeat i16 Tail,
}
root packet Trade {
    float64 Ref,
    Fill,
    u8 Note,
    u16 count @lengthOf(Body),
    match Note as Body {
        [98, 101] : Fill,
        34 : Reject,
    },
    u32 x @calculatedFrom(""CRC32""),
}
")).
Eval vm_compute in ("<<<M4549>>>" ++ check (runes_of_ascii "MetaData _x {
    body float,
    float64 x_y_z `tab	here`,
    char[00] o `a\`,
    Z9_ crc `doc`,
}

packet options1 {
    @lengthOf(T)
    @lengthOf(chars)
    @rightPad(' ')
    string_ falsey,
}

MetaData Pad {
    Foo Z9_ `crlf
    line`,
    x_y_z packetx,
    uint32 calculatedFrom,
    i64 falsey,
    packetx As ``,
}")).
Eval vm_compute in ("<<<M1913>>>" ++ check (runes_of_ascii "MetaData
    u { }  options {
// c
// @lengthOf(
float = int8 ;rootA uint16 false ; As =	int16 // `tick` ""quote"" 'q'
repeatCount
    // trailing space 
    =
    int16
; u8x =
    //	t
    '\x00' ; } options	{
    repeatCount
= 0
u128
    //
    = false ; i64_
// trailing space 
// `tick` ""quote"" 'q'
= '0' ; //	t
}
")).
Eval vm_compute in ("<<<M90>>>" ++ check (runes_of_ascii "packet charz {repeat char[ 3 ]
BodyLength,As stringy, match
    tag as uint8x { //
[ ""it's"" , 007
    , 4294967296
    // c
    ] : uint8x ,
}, // a // b
@tag( 0
)/// triple
repeat char[	7	] u	,}
    // packet A { u8 x, }
    MetaData options1
    { Z9_  _x ,	} packet BodyLength
{} MetaData chars { float Foo,
}")).
Eval vm_compute in ("<<<M2071>>>" ++ check (runes_of_ascii "MetaData
    u { }  options " ++ [65279]%N ++ runes_of_ascii " {
// c
// @lengthOf(
float = int8 ;rootA =false ; As =	int16 // `tick` ""quote"" 'q'
repeatCount
    // trailing space 
    =
    int16
; u8x =
    //	t
    '\x00' ; } options	{
    repeatCount
= 0
u128
    //
    = false ; i64_
// trailing space 
// `tick` ""quote"" 'q'
= '0' ; //	t
}
")).
Eval vm_compute in ("<<<M1922>>>" ++ check (runes_of_ascii "MetaData
    u { }  options {
// c
// @lengthOf(
float = int8 ;rootA =false As ; =	int16 // `tick` ""quote"" 'q'
repeatCount
    // trailing space 
    =
    int16
; u8x =
    //	t
    '\x00' ; } options	{
    repeatCount
= 0
u128
    //
    = false ; i64_
// trailing space 
// `tick` ""quote"" 'q'
= '0' ; //	t
}
")).
Eval vm_compute in ("<<<M182>>>" ++ check (runes_of_ascii "packet
// @lengthOf(
// " ++ [128512]%N ++ runes_of_ascii " emoji
Foo { @calculatedFrom( """" )
@calculatedFrom(""1""
) @rightPad () int32 As
@calculatedFrom( """"// a // b
)
    `say ""hi""` // c
, @calculatedFrom( ""\n""
)
// trailing space 
/// triple
char[// trailing space 
65535 ] asx ,
    repeat	int8 trueish `{ , }` ,
} root packet lengthOf{  }")).
Eval vm_compute in ("<<<M1960>>>" ++ check (runes_of_ascii "MetaData
    u { }  options {
// c
// @lengthOf(
float = int8 ;rootA =false ; As =	int16 // `tick` ""quote"" 'q'
repeatCount
    // trailing space 
    =
    int16
;  =
    //	t
    '\x00' ; } options	{
    repeatCount
= 0
u128
    //
    = false ; i64_
// trailing space 
// `tick` ""quote"" 'q'
= '0' ; //	t
}
")).
Eval vm_compute in ("<<<M3939>>>" ++ check (runes_of_ascii "options {
    i64_ = char[65535]
    T = '0'
}

packet crc {
    @calculatedFrom(""abc"")
    zchar[007] msg_type @lengthOf(Header),
    repeat int8 string_ `crlf
    line`,
    tag @lengthOf(BodyLength),
}

// trailing space 
options {
    //
    matchKey = """ ++ [128512]%N ++ runes_of_ascii """;/// triple
    asx = ' ';
    crc = true;
}")).
Eval vm_compute in ("<<<M679>>>" ++ check (runes_of_ascii "MetaData BodyLength { falsey
    // packet A { u8 x, }
    Logon  `{ , }` ,u8 int`" ++ [28040; 24687; 31867; 22411]%N ++ runes_of_ascii "`, zchar[7 ]// packet A { u8 x, }
len/// triple
,  }  MetaData// @lengthOf(
u
    {
Logon matchKey
`{ , }`	,	char[42 ]
// packet A { u8 x, }
/// triple
int
`line1
line2`,
    char[ 7
    ] x_y_z
    `doc` , }")).
Eval vm_compute in ("<<<M3307>>>" ++ check (runes_of_ascii "// top
root // c0
packet // c1
matchKey // c2
{ // c3
zchar[ // c4
3 // c5
] // c6
pack // c7
@calculatedFrom( // c8
""a	b"" // c9
) // c10
`doc` // c11
, // c12
} // c13
options // c14
{ // c15
} // c16
MetaData // c17
A // c18
{ // c19
int8 // c20
msg_type // c21
, // c22
} // c23
")).
Eval vm_compute in ("<<<M3881>>>" ++ check (runes_of_ascii "packet 
	    //	t

// trailing space 
_x
{ 
	    // packet A { u8 x, }
	// c
  	char[	3
]

u8x@lengthOf(
    u8x )
,

@calculatedFrom( """ ++ [128512]%N ++ runes_of_ascii """// @lengthOf(
    )
	i16 Foo @lengthOf( 
string_

) `doc`,
    repeat  i64 metadata
, @lengthOf( string_  )	i8// c
  	u 
,
}
")).
Eval vm_compute in ("<<<M4109>>>" ++ check (runes_of_ascii "packet P1 {
    u8 a,
}

packet P2 {
    P1,
}

packet P3 {
    P2,
    P1,
}

packet P4 {
    repeat P3,
    P2,
}

root packet P5 {
    P4,
    P3,
    P1,
    u8 K,
    match K as Body {
        4 : P4,
        3 : P3,
        2 : P2,
        1 : P1,
    },
}")).
Eval vm_compute in ("<<<M1518>>>" ++ check (runes_of_ascii "packet
//	t
// trailing space 
_x {
// packet A { u8 x, }
// c
char[
3
    ] u8x u8x @lengthOf(
u8x ) , @calculatedFrom(""" ++ [128512]%N ++ runes_of_ascii """ // @lengthOf(
)
i16	Foo
@lengthOf(	string_
    )`doc`	, repeat	i64 metadata , @lengthOf( string_
) i8 // c
u  `line1
line2`	,
}
")).
Eval vm_compute in ("<<<M1648>>>" ++ check (runes_of_ascii "packet
//	t
// trailing space 
_x {
// packet A { u8 x, }
// c
char[
3
    ] u8x @lengthOf(
u8x ) , @calculatedFrom(""" ++ [128512]%N ++ runes_of_ascii """ // @lengthOf(
)
i16	Foo
@lengthOf(	string_
    )`doc`	, repeat	i64 metadata , @lengthOf( string_
) i8 // c
u  `line1
line2`	,
} }
")).
Eval vm_compute in ("<<<M1514>>>" ++ check (runes_of_ascii "packet
//	t
// trailing space 
_x {
// packet A { u8 x, }
// c
char[
3
    u8x ] @lengthOf(
u8x ) , @calculatedFrom(""" ++ [128512]%N ++ runes_of_ascii """ // @lengthOf(
)
i16	Foo
@lengthOf(	string_
    )`doc`	, repeat	i64 metadata , @lengthOf( string_
) i8 // c
u  `line1
line2`	,
}
")).
Eval vm_compute in ("<<<M3653>>>" ++ check (runes_of_ascii "options {
    LittleEndian = true;
}
packet Logon {
    u8 x,
    string user,
}
packet Logout {
    u16 reason,
}
packet Empty {
}
root packet Frame {
    u16 MsgType,
    u16 BodyLen @lengthOf(Body),
    u8 flags,
    Logon Body,
    u32 trailer,
}
")).
Eval vm_compute in ("<<<M1597>>>" ++ check (runes_of_ascii "packet
//	t
// trailing space 
_x {
// packet A { u8 x, }
// c
char[
3
    ] u8x @lengthOf(
u8x ) , @calculatedFrom(""" ++ [128512]%N ++ runes_of_ascii """ // @lengthOf(
)
i16	Foo
@lengthOf(	string_
    )`doc`	, repeat	 metadata , @lengthOf( string_
) i8 // c
u  `line1
line2`	,
}
")).
Eval vm_compute in ("<<<M1615>>>" ++ check (runes_of_ascii "packet
//	t
// trailing space 
_x {
// packet A { u8 x, }
// c
char[
3
    ] u8x @lengthOf(
u8x ) , @calculatedFrom(""" ++ [128512]%N ++ runes_of_ascii """ // @lengthOf(
)
i16	Foo
@lengthOf(	string_
    )`doc`	, repeat	i64 metadata , [ string_
) i8 // c
u  `line1
line2`	,
}
")).
Eval vm_compute in ("<<<M4454>>>" ++ check (runes_of_ascii "
packet
Foo //	t
{  match 
      // a // b
	i64_//x
	as  x_y_z

    {	65535 
:BodyLength ,
[
	3  ,""CRC32""
]:
    u ,255 :T , [ ""x y"" 
] :leftPad	,
0123456789 
:	As ,}
,
	zchar[ 1	] int, }

packet
    float{ uint16 Packet,
    }
")).
Eval vm_compute in ("<<<M3597>>>" ++ check (runes_of_ascii "options
    {  FixedStringPadChar=	'0'
    ; 
}packet
Q {

zchar[
	4
] z , @rightPad
( '\x00'  ) char[3 ] 
n , char[ 5
] d

    ,  }root 
packet R {
    Q
,
	zchar[ 8
    ] 
top
, repeat zchar[
2

    ] zs,

    }

")).
Eval vm_compute in ("<<<M4511>>>" ++ check (runes_of_ascii "packet len {
    Logon,
    @tag(42)
    Logon {
        o @calculatedFrom(""CRC32"") `crlf
        line`,
        char[] Logon @calculatedFrom(""x y""),
    },
    @leftPad('0')
    body,
}

packet uint8x {
}// a // b")).
Eval vm_compute in ("<<<M3424>>>" ++ check (runes_of_ascii "// top
packet // c0
o // c1
{ // c2
repeat // c3
Logon // c4
uint8x // c5
, // c6
} // c7
options // c8
{ // c9
asx // c10
= // c11
zchar[ // c12
3 // c13
] // c14
stringy // c15
= // c16
'\x00' // c17
} // c18
")).
Eval vm_compute in ("<<<M3875>>>" ++ check (runes_of_ascii "packet u8x {
    @calculatedFrom(""" ++ [128512]%N ++ runes_of_ascii """)
    rootA @lengthOf(stringy),
    lengthOf,
    @lengthOf(u8x)
    i64_ @calculatedFrom(""a\""b""),
    @lengthOf(matchKey)
    @lengthOf(rootA)
    float32 trueish,
}// " ++ [27880; 37322]%N)).
Eval vm_compute in ("<<<M1789>>>" ++ check (runes_of_ascii "options { trueish = ""`tick`"" ; string_= """ ++ [233]%N ++ runes_of_ascii "t" ++ [233]%N ++ runes_of_ascii """
    // c
    } root
    packet body { stringy @calculatedFrom(
""a	b"" ) `line1
line2` , }
packet Logon i8
    @leftPad(
    ' ' ) //	t
u16 string_ `u8 x,` ,
}
")).
Eval vm_compute in ("<<<M1763>>>" ++ check (runes_of_ascii "options { trueish = ""`tick`"" ; string_= """ ++ [233]%N ++ runes_of_ascii "t" ++ [233]%N ++ runes_of_ascii """
    // c
    } root
    packet body { stringy @calculatedFrom(
""a	b"" ) , `line1
line2` }
packet Logon {
    @leftPad(
    ' ' ) //	t
u16 string_ `u8 x,` ,
}
")).
Eval vm_compute in ("<<<M1796>>>" ++ check (runes_of_ascii "options { trueish = ""`tick`"" ; string_= """ ++ [233]%N ++ runes_of_ascii "t" ++ [233]%N ++ runes_of_ascii """
    // c
    } root
    packet body { stringy @calculatedFrom(
""a	b"" ) `line1
line2` , }
packet Logon {
    @leftPad
    ' ' ) //	t
u16 string_ `u8 x,` ,
}
")).
Eval vm_compute in ("<<<M1726>>>" ++ check (runes_of_ascii "options { trueish = ""`tick`"" ; string_= """ ++ [233]%N ++ runes_of_ascii "t" ++ [233]%N ++ runes_of_ascii """
    // c
    } root
     body { stringy @calculatedFrom(
""a	b"" ) `line1
line2` , }
packet Logon {
    @leftPad(
    ' ' ) //	t
u16 string_ `u8 x,` ,
}
")).
Eval vm_compute in ("<<<M162>>>" ++ check (runes_of_ascii "MetaData
    lengthOf
{
char[0123456789] calculatedFrom ,
char[ 0
]
options1
    ,
    } MetaData  repeatCount
{ // packet A { u8 x, }
u64 len ,
    stringy x_y_z `it's` // a // b
, f32 As ,	}
")).
Eval vm_compute in ("<<<M513>>>" ++ check (runes_of_ascii "packet
u128 {
f64 chars ``
, @lengthOf(metadata ) @lengthOf(matchKey
    )// trailing space 
@tag(42
    )a1@lengthOf( MetaDataX ) `
` ,
}
    // c
    packet f32a	{
    // " ++ [128512]%N ++ runes_of_ascii " emoji
    }
")).
Eval vm_compute in ("<<<M3389>>>" ++ check (runes_of_ascii "// top
MetaData // c0
body // c1
{ // c2
i64 // c3
pack // c4
`it's` // c5
, // c6
} // c7
packet // c8
stringy // c9
{ // c10
int16 // c11
calculatedFrom // c12
, // c13
} // c14
")).
Eval vm_compute in ("<<<M1290>>>" ++ check (runes_of_ascii "packet //	t
u8x
{ @leftPad (  '0' ) // trailing space 
@calculatedFrom( ""1""  )
@leftPad ('\x00' ) zchar[ 3
]  zchar
, // `tick` ""quote"" 'q'
}options {
    }
// @lengthOf(
")).
Eval vm_compute in ("<<<M323>>>" ++ check (runes_of_ascii "MetaData As  {
// " ++ [128512]%N ++ runes_of_ascii " emoji
// @lengthOf(
a1 Pad , zchar[ 00 ] // `tick` ""quote"" 'q'
body`// not a comment` ,
crc uint8x `// not a comment` ,uint32
packetx ``
    ,}
")).
Eval vm_compute in ("<<<M318>>>" ++ check (runes_of_ascii "
MetaData roots {
As  asx , char[1 ] roots
,
    // c
    char[
    007]
    matchKey ,/// triple
zchar[ 1	] len ,x_y_z
// trailing space 
/// triple
u128 , }")).
Eval vm_compute in ("<<<M2135>>>" ++ check (runes_of_ascii "options{
_x
= true
} options
{ o	= /// triple
false
    ; chars chars
= ""\n"" } root packet	Pad
/// triple
// packet A { u8 x, }
{	chars
    // a // b
    ,}")).
Eval vm_compute in ("<<<M2320>>>" ++ check (runes_of_ascii "// c
packet x { @lengthOf( metadata ) repeat lengthOf
,a1{
trueish	, ,// c
repeat//	t
MetaDataX , } , zchar[
    42	] rootA // `tick` ""quote"" 'q'
,
    }
")).
Eval vm_compute in ("<<<M1242>>>" ++ check (runes_of_ascii "packet Z9_{
// trailing space 
// " ++ [128512]%N ++ runes_of_ascii " emoji
@calculatedFrom( ""1"" )// packet A { u8 x, }
matchKey @calculatedFrom(
""" ++ [128512]%N ++ runes_of_ascii """ ) `tab	here` ,}
// packet A { u8 x, }
")).
Eval vm_compute in ("<<<M2407>>>" ++ check (runes_of_ascii "// c
packet x { @lengthOf( metadata repeat ) lengthOf
,a1{
trueish	,// c
repeat//	t
MetaDataX , } , zchar[
    42	] rootA // `tick` ""quote"" 'q'
,
    }
")).
Eval vm_compute in ("<<<M2078>>>" ++ check (runes_of_ascii "{options
_x
= true
} options
{ o	= /// triple
false
    ; chars
= ""\n"" } root packet	Pad
/// triple
// packet A { u8 x, }
{	chars
    // a // b
    ,}")).
Eval vm_compute in ("<<<M2087>>>" ++ check (runes_of_ascii "options{
]
= true
} options
{ o	= /// triple
false
    ; chars
= ""\n"" } root packet	Pad
/// triple
// packet A { u8 x, }
{	chars
    // a // b
    ,}")).
Eval vm_compute in ("<<<M2205>>>" ++ check (runes_of_ascii "options{
_x
= true
} options
{ o	= /// triple
false
    ; " ++ [21517; 23383]%N ++ runes_of_ascii "
= ""\n"" } root packet	Pad
/// triple
// packet A { u8 x, }
{	chars
    // a // b
    ,}")).
Eval vm_compute in ("<<<M2403>>>" ++ check (runes_of_ascii "// c
packet x { @lengthOf( metadata ) repeat lengthOf
,a1{
	,// c
repeat//	t
MetaDataX , } , zchar[
    42	] rootA // `tick` ""quote"" 'q'
,
    }
")).
Eval vm_compute in ("<<<M708>>>" ++ check (runes_of_ascii "packet  As
{ char[] metadata
`doc`
, } root packet	int
{ // packet A { u8 x, }
zchar[ // @lengthOf(
007 ] leftPad ,
} // `tick` ""quote"" 'q'")).
Eval vm_compute in ("<<<M1651>>>" ++ check (runes_of_ascii "packet
//	t
// trailing space 
_x {
// packet A { u8 x, }
// c
char[
3
    ] u8x @lengthOf(
u8x ) , @calculatedFrom(""" ++ [128512]%N ++ runes_of_ascii """ // @lengthOf(
)
i1")).
Eval vm_compute in ("<<<M3554>>>" ++ check (runes_of_ascii "options {
    LittleEndian = true;
}
packet B {
    u8 a,
    string s,
}
root packet P {
    u16 L @lengthOf(B),
    B,
    u8 t,
}
")).
Eval vm_compute in ("<<<M828>>>" ++ check (runes_of_ascii "packet stringy
{
repeat
    roots  {
    u64 pack
`doc` , char[ 7 ] Z9_@calculatedFrom(""abc"" )
`` , zchar lengthOf  `
` ,
}
, }")).
Eval vm_compute in ("<<<M1413>>>" ++ check (runes_of_ascii "
packet
    falsey { Header Header@calculatedFrom(""packet""  ) , char[
    0123456789 ] packetx
    , } // `tick` ""quote"" 'q'")).
Eval vm_compute in ("<<<M3829>>>" ++ check (runes_of_ascii "  packet o  // c
	  {  repeat  Logon	uint8x
,
    }
options{
	asx
    =  zchar[
3 
]
stringy

    = 
'\x00'

    }")).
Eval vm_compute in ("<<<M3336>>>" ++ check (runes_of_ascii "root packet matchKey { zchar[ 3 ] pack @calculatedFrom( ""a	b"" ) `doc` , // c
} options { } MetaData A { int8 msg_type , }")).
Eval vm_compute in ("<<<M1428>>>" ++ check (runes_of_ascii "
packet
    falsey { Header@calculatedFrom(""packet""  ) ) , char[
    0123456789 ] packetx
    , } // `tick` ""quote"" 'q'")).
Eval vm_compute in ("<<<M1404>>>" ++ check (runes_of_ascii "
packet
    { falsey Header@calculatedFrom(""packet""  ) , char[
    0123456789 ] packetx
    , } // `tick` ""quote"" 'q'")).
Eval vm_compute in ("<<<M1487>>>" ++ check (runes_of_ascii "
packet
    na" ++ [239]%N ++ runes_of_ascii "ve { Header@calculatedFrom(""packet""  ) , char[
    0123456789 ] packetx
    , } // `tick` ""quote"" 'q'")).
Eval vm_compute in ("<<<M1486>>>" ++ check (runes_of_ascii "
packet
    falsey { Header@calculatedFrom(""packet""  ) , char[
    0123456789 ] " ++ [21517; 23383]%N ++ runes_of_ascii "
    , } // `tick` ""quote"" 'q'")).
Eval vm_compute in ("<<<M3009>>>" ++ check (runes_of_ascii "packet A {
    u16 len @lengthOf(body) `a
b`,
    u32 crc @calculatedFrom(""CRC32"") `a
b`,
    string body,
}")).
Eval vm_compute in ("<<<M3046>>>" ++ check (runes_of_ascii "packet A {
    Inner {
        u8 x `tab
	x`,
        Deep {
            u8 y `tab
	x`,
        },
    },
}")).
Eval vm_compute in ("<<<M3560>>>" ++ check (runes_of_ascii "options {
    LittleEndian = true;
}
root packet P {
    u16 a,
    u32 Sum @calculatedFrom(""CRC32""),
}
")).
Eval vm_compute in ("<<<M2979>>>" ++ check (runes_of_ascii "packet A {
  match k as n {
    [1, ""bb"", 007, ""d"", 5, ""f"", 7, ""h"", 9, ""j"", 11] : B,
    2 : C
  },
}")).
Eval vm_compute in ("<<<M4525>>>" ++ check (runes_of_ascii "// c
packet chars {
}

packet MetaDataX {
    @tag(42)
    i16 string_,
    repeat x `say ""hi""`,
}")).
Eval vm_compute in ("<<<M2372>>>" ++ check (runes_of_ascii "// c
packet x { @lengthOf( metadata ) repeat lengthOf
,a1{
trueish	,// c
repeat//	t
MetaDataX ")).
Eval vm_compute in ("<<<M2975>>>" ++ check (runes_of_ascii "packet A {
  match k as n {
    [1, 22, 007, 4, 5, 66, 7, 8, 9, 10, 11] : B,
    2 : C
  },
}")).
Eval vm_compute in ("<<<M984>>>" ++ check (runes_of_ascii "options{ string_ = ""CRC32""	; charz =
'\x00';
i64_	=' ' i64_ =""a\""b""  ;
uint8x= """"
    ;}
")).
Eval vm_compute in ("<<<M3272>>>" ++ check (runes_of_ascii "MetaData float
// c
{ float64 charz `
` , } root packet chars { @rightPad ( '0' ) Foo , }")).
Eval vm_compute in ("<<<M3304>>>" ++ check (runes_of_ascii "MetaData float { float64 charz `
` , } root packet chars { @rightPad ( '0' ) Foo ,
// c
}")).
Eval vm_compute in ("<<<M3515>>>" ++ check (runes_of_ascii "packet chars { } packet MetaDataX { @tag( 42 ) i16 string_ , repeat x `say ""hi""` // c
, }")).
Eval vm_compute in ("<<<M1264>>>" ++ check (runes_of_ascii "
MetaData i64_
{ A crc`crlf
line`, } options
// " ++ [27880; 37322]%N ++ runes_of_ascii "
// @lengthOf(
{ int =
    i8
    }")).
Eval vm_compute in ("<<<M1195>>>" ++ check (runes_of_ascii "// " ++ [27880; 37322]%N ++ runes_of_ascii "
MetaData msg_type{} MetaData Pad
    { int64 Header
,
} MetaData matchKey { } //")).
Eval vm_compute in ("<<<M3222>>>" ++ check (runes_of_ascii "packet metadata { Logon {
// c
A `" ++ [28040; 24687; 31867; 22411]%N ++ runes_of_ascii "` , tag o , } , zchar len `// not a comment` , }")).
Eval vm_compute in ("<<<M561>>>" ++ check (runes_of_ascii "MetaData body {
string asx
,
asx// a // b
int , u128 a1
    ,
int32 len
    ,
    }
")).
Eval vm_compute in ("<<<M3442>>>" ++ check (runes_of_ascii "packet o { repeat Logon uint8x ,
// c
} options { asx = zchar[ 3 ] stringy = '\x00' }")).
Eval vm_compute in ("<<<M2945>>>" ++ check (runes_of_ascii "packet A {
  match k as n {
    [1, 22, ""c c"", 4, 5, ""f"", 7, 8] : B
    2 : C
  },
}")).
Eval vm_compute in ("<<<M2266>>>" ++ check (runes_of_ascii "options
{ } options { BodyLength= u16 Header= f64 ;  =
    true
    ; } // a // b")).
Eval vm_compute in ("<<<M3419>>>" ++ check (runes_of_ascii "MetaData body { i64 pack `it's` , } packet stringy { int16 calculatedFrom
// c
, }")).
Eval vm_compute in ("<<<M834>>>" ++ check (runes_of_ascii "  packet //	t
crc {i32 Z9_
// packet A { u8 x, }
// " ++ [27880; 37322]%N ++ runes_of_ascii "
@lengthOf( Pad ) ``, }
")).
Eval vm_compute in ("<<<M1470>>>" ++ check (runes_of_ascii "
packet
    falsey { Header@calculatedFrom(""packet""  ) , char[
    012345678")).
Eval vm_compute in ("<<<M2692>>>" ++ check (runes_of_ascii "match , char uint64 MetaData @tag( @tag( uint16 [ packet int16 MetaData )")).
Eval vm_compute in ("<<<M1919>>>" ++ check (runes_of_ascii "MetaData
    u { }  options {
// c
// @lengthOf(
float = int8 ;rootA =")).
Eval vm_compute in ("<<<M2885>>>" ++ check (runes_of_ascii "packet A {
  match k as n {
    [1, 22, 007, 4] : B
    2 : C
  },
}")).
Eval vm_compute in ("<<<M1383>>>" ++ check (runes_of_ascii "root packet
//	t
/// triple
calculatedFrom { char[0 ]
Packet, }
")).
Eval vm_compute in ("<<<M2808>>>" ++ check (runes_of_ascii ": char[ uint32 float64 uint32 match as i8 uint32 @lengthOf( ' '")).
Eval vm_compute in ("<<<M144>>>" ++ check (runes_of_ascii "MetaData Pad{	x_y_z
    // packet A { u8 x, }
    T ,
    }
")).
Eval vm_compute in ("<<<M3173>>>" ++ check (runes_of_ascii "packet A { // a
 @tag(1) u8 x, // b
 // c
 @tag(2) u8 y, }")).
Eval vm_compute in ("<<<M1259>>>" ++ check (runes_of_ascii "packet float //	t
{ //
}
MetaData i8i8 {uint8x i8i8,
}")).
Eval vm_compute in ("<<<M1894>>>" ++ check (runes_of_ascii "MetaData
    u { }  options {
// c
// @lengthOf(
float")).
Eval vm_compute in ("<<<M3047>>>" ++ check (runes_of_ascii "MetaData M {
    u8 x `tab
	x`,
    T t `tab
	x`,
}")).
Eval vm_compute in ("<<<M66>>>" ++ check (runes_of_ascii "// c
MetaData calculatedFrom {Foo msg_type ,
}
")).
Eval vm_compute in ("<<<M810>>>" ++ check (runes_of_ascii "options
//	t
// @lengthOf(
{
roots
=""" ++ [28040; 24687]%N ++ runes_of_ascii """
; }")).
Eval vm_compute in ("<<<M1426>>>" ++ check (runes_of_ascii "
packet
    falsey { Header@calculatedFrom(")).
Eval vm_compute in ("<<<M3017>>>" ++ check (runes_of_ascii "MetaData M {
    u8 x `
`,
    T t `
`,
}")).
Eval vm_compute in ("<<<M3524>>>" ++ check (runes_of_ascii "root packet P {
    char c,
    u8 x,
}
")).
Eval vm_compute in ("<<<M757>>>" ++ check (runes_of_ascii "MetaData Pad { crc x_y_z`{ , }`,
} 	 ")).
Eval vm_compute in ("<<<M71>>>" ++ check (runes_of_ascii "// " ++ [27880; 37322]%N ++ runes_of_ascii "
packet  matchKey{
    }
// c
")).
Eval vm_compute in ("<<<M2585>>>" ++ check (runes_of_ascii "packet A { string x @lengthOf(y) }")).
Eval vm_compute in ("<<<M3813>>>" ++ check (runes_of_ascii "  options
    { falsey =	false  }")).
Eval vm_compute in ("<<<M2721>>>" ++ check (runes_of_ascii ";" ++ [65533; 1004; 28; 65533]%N ++ runes_of_ascii "K" ++ [26453]%N ++ runes_of_ascii ":qC" ++ [65533]%N ++ runes_of_ascii "mM" ++ [22; 65533; 65533]%N ++ runes_of_ascii "V" ++ [5; 65533; 17; 65533; 65533]%N ++ runes_of_ascii "	" ++ [65533; 65533; 65533; 65533]%N ++ runes_of_ascii "4" ++ [65533; 22; 65533]%N)).
Eval vm_compute in ("<<<M3117>>>" ++ check (runes_of_ascii "packet A {
 u8 x `d" ++ [11]%N ++ runes_of_ascii "`, // c" ++ [11]%N ++ runes_of_ascii "
}")).
Eval vm_compute in ("<<<M3828>>>" ++ check (runes_of_ascii "  packet A{

}	// a
	// b
")).
Eval vm_compute in ("<<<M2578>>>" ++ check (runes_of_ascii "packet A { u8 x `d` `e`, }")).
Eval vm_compute in ("<<<M3259>>>" ++ check (runes_of_ascii "root packet pack
// c
{ }")).
Eval vm_compute in ("<<<M2715>>>" ++ check (runes_of_ascii "U;|@OK7+-3OJxNfG`GF-D*L")).
Eval vm_compute in ("<<<M4334>>>" ++ check (runes_of_ascii "MetaData options1 {
}")).
Eval vm_compute in ("<<<M1695>>>" ++ check (runes_of_ascii "options { trueish =")).
Eval vm_compute in ("<<<M4384>>>" ++ check (runes_of_ascii "packet A { }// c" ++ [8239]%N ++ runes_of_ascii "
")).
Eval vm_compute in ("<<<M3110>>>" ++ check (runes_of_ascii "packet A {
}
// c" ++ [8287]%N)).
Eval vm_compute in ("<<<M2685>>>" ++ check (runes_of_ascii "// only a comment")).
Eval vm_compute in ("<<<M2660>>>" ++ check (runes_of_ascii "options { a 1; }")).
Eval vm_compute in ("<<<M1011>>>" ++ check (runes_of_ascii "packet len {}")).
Eval vm_compute in ("<<<M2488>>>" ++ check (runes_of_ascii "@lengthOf (")).
Eval vm_compute in ("<<<M2457>>>" ++ check (runes_of_ascii "optionss")).
Eval vm_compute in ("<<<M3967>>>" ++ check (runes_of_ascii "  // x
")).
Eval vm_compute in ("<<<M2432>>>" ++ check (runes_of_ascii "charz")).
Eval vm_compute in ("<<<M3134>>>" ++ check (runes_of_ascii "// c" ++ [65279]%N)).
Eval vm_compute in ("<<<M3663>>>" ++ check (runes_of_ascii "// c")).
Eval vm_compute in ("<<<M2679>>>" ++ check (runes_of_ascii """s""")).
Eval vm_compute in ("<<<M2455>>>" ++ check (runes_of_ascii "a")).
