From FP Require Import Lexer Parser ShowPT Digest Formatter.
From Coq Require Import String List NArith.
Import ListNotations.
Open Scope string_scope.
Set Printing Width 100000000.
Set Printing Depth 100000000.
Definition show_fres (r : fres) : string :=
  match r with
  | FOk s => "OK:" ++ sh_escaped s ""
  | FErr s => "ERR:" ++ sh_escaped s ""
  | FPanic p => "PANIC:" ++ p
  end.
Definition check (rs : list rune) : string := digest (show_fres (format_res rs)).
Definition full (rs : list rune) : string := show_fres (format_res rs).
Eval vm_compute in ("<<<M32>>>" ++ check (runes_of_ascii "packet Logon{
f32a
// " ++ [27880; 37322]%N ++ runes_of_ascii "
// " ++ [128512]%N ++ runes_of_ascii " emoji
@lengthOf(
x ) `u8 x,` ,
@calculatedFrom(
    // `tick` ""quote"" 'q'
    ""a\""b"" // trailing space 
) @rightPad( '0'
)repeat int8
u128`doc` , match packetx //x
as
a1 { [
    // " ++ [27880; 37322]%N ++ runes_of_ascii "
    65535, """ ++ [128512]%N ++ runes_of_ascii """ ]
: packetx	,00 : x
,
// c
// @lengthOf(
} ,
    @calculatedFrom(""" ++ [28040; 24687]%N ++ runes_of_ascii """ )match
leftPad as lengthOf /// triple
{ 0
: packetx, [
    ""{,}"" // `tick` ""quote"" 'q'
,  0,
""CRC32"" , 4294967296
]
    :
    // @lengthOf(
    int
, """ ++ [28040; 24687]%N ++ runes_of_ascii """:A, [ 7
, 0  ,
""abc"" ,""CRC32"" ,""x y""// c
,
    //	t
    255
// a // b
// " ++ [27880; 37322]%N ++ runes_of_ascii "
, 007
, 1 // @lengthOf(
]	: _x } ,matchKey@lengthOf(tag ) , string BodyLength
    @calculatedFrom( ""packet""	)
/// triple
// a // b
, As @lengthOf(i8i8 ) `a\`
,int16 A@lengthOf( tag ) `// not a comment`
// " ++ [128512]%N ++ runes_of_ascii " emoji
//
,
}
MetaData metadata
//	t
// " ++ [128512]%N ++ runes_of_ascii " emoji
{
u32
// c
// a // b
a1 ,  u16 BodyLength `tab	here` // " ++ [128512]%N ++ runes_of_ascii " emoji
, int8
lengthOf// " ++ [27880; 37322]%N ++ runes_of_ascii "
,
    // " ++ [128512]%N ++ runes_of_ascii " emoji
    trueish x_y_z ,charz leftPad //
,} MetaData leftPad {	} packet rootA
{ match
    x
as
    int
    {0123456789// `tick` ""quote"" 'q'
: u8x
    ,
    0123456789
    :  tag
    ,	} , @lengthOf(A )
repeat
f32 body `a\` ,// trailing space 
i64	rootA
    // packet A { u8 x, }
    , @tag(007 ) match // @lengthOf(
Logon as metadata
    {
[""a	b"", // `tick` ""quote"" 'q'
65535
, ""abc"", 3 ,
10 , ""\" ++ [233]%N ++ runes_of_ascii """
]
    // packet A { u8 x, }
    :u128, 7
: // packet A { u8 x, }
zchar, 7 : stringy
    , 007
    :  string_ , """" : //x
a1 , }
,// c
i8
lengthOf// trailing space 
, float64 pack @calculatedFrom(""" ++ [128512]%N ++ runes_of_ascii """
) ,  repeatCount @calculatedFrom(
""// no comment"") , float // c
string_ , @leftPad // c
(
    '0' ) @calculatedFrom( ""a	b"" )@calculatedFrom( ""\" ++ [233]%N ++ runes_of_ascii """ ) // `tick` ""quote"" 'q'
match
    Logon as
    // @lengthOf(
    msg_type {	255 : roots, 255: x_y_z
// c
// packet A { u8 x, }
,	""it's""  :
len,[00 ,
    // packet A { u8 x, }
    42
    , ""\n"" ,007
    , ""1""
,//
""a\\"" , ""a\\""] :
f32a [
    42,	""a	b""
/// triple
//
]  :
    Header, [ """" , ""\" ++ [233]%N ++ runes_of_ascii """// `tick` ""quote"" 'q'
]
    : //
tag , } , // packet A { u8 x, }
int , }
    options // c
{uint8x = // @lengthOf(
""\n"" ;}
")).
Eval vm_compute in ("<<<M2012>>>" ++ check (runes_of_ascii "  options

    { StringPrefixLenType = u16

;
	ArrayPrefixLenType
    =u16 
;
	}

    packet
SampleBinary
{ uint16 MsgType

    `" ++ [28040; 24687; 31867; 22411]%N ++ runes_of_ascii "`
    ,  u16 
BodyLenght @lengthOf(  Body
)

    `" ++ [28040; 24687; 20307; 38271; 24230]%N ++ runes_of_ascii "`
,

match
    MsgType  as  Body { 1
:Logon,
2
	: Logout ,3
:
	Heartbeat
    ,	4

:

RiskControlRequest  ,  5  :

    RiskControlResponse

,}
    ,@calculatedFrom(
""CRC32""	)
u32 Ckecksum `" ++ [26657; 39564; 21644]%N ++ runes_of_ascii "` ,

    }packet Logon{
	@leftPad ('0' 
)char[10  ]

    UserName
	`" ++ [29992; 25143; 21517]%N ++ runes_of_ascii "`
    ,
string

Password
	`" ++ [23494; 30721]%N ++ runes_of_ascii "`,

    uint64 ClientId`" ++ [23458; 25143; 31471]%N ++ runes_of_ascii "ID` 
,

u16	HeartbeatInterval

`" ++ [24515; 36339; 38388; 38548]%N ++ runes_of_ascii "`
,
}
packet

Logout
{@rightPad  (

'0'
	)char[
    10] 
UserName`" ++ [29992; 25143; 21517]%N ++ runes_of_ascii "` 
,	uint64
ClientId`" ++ [23458; 25143; 31471]%N ++ runes_of_ascii "ID` ,
}

packet	Heartbeat
{

    }packet 
RiskControlRequest{string
    UniqueOrderId
    `" ++ [21807; 19968; 35746; 21333; 21495]%N ++ runes_of_ascii "`
    ,char[

    16 
]ClOrdID
	`" ++ [23458; 25143; 35746; 21333; 21495]%N ++ runes_of_ascii "`

,char[
	3 ] MarketID 
`" ++ [24066; 22330]%N ++ runes_of_ascii "id` ,  char[ 
12
    ] SecurityID`" ++ [35777; 21048; 20195; 30721]%N ++ runes_of_ascii "` 
, char
    Side`" ++ [20080; 21334; 26041; 21521]%N ++ runes_of_ascii "`,
char
OrderType`" ++ [35746; 21333; 31867; 22411]%N ++ runes_of_ascii "` , u64

Price `" ++ [20215; 26684]%N ++ runes_of_ascii "`	, u32
Qty`" ++ [25968; 37327]%N ++ runes_of_ascii "`

    ,
repeat
    string
ExtraInfo

    `" ++ [38468; 21152; 20449; 24687]%N ++ runes_of_ascii "`
	, repeat	SubOrder	{ char[ 16  ] ClOrdID`" ++ [23376; 35746; 21333; 21495]%N ++ runes_of_ascii "`, u64
    Price

    `" ++ [23376; 35746; 21333; 20215; 26684]%N ++ runes_of_ascii "`	, u32
	Qty
`" ++ [23376; 35746; 21333; 25968; 37327]%N ++ runes_of_ascii "` , } ,} packet
RiskControlResponse{ string
UniqueOrderId  `" ++ [21807; 19968; 35746; 21333; 21495]%N ++ runes_of_ascii "`
,
    i32 Status  `" ++ [29366; 24577]%N ++ runes_of_ascii "` ,  string

    Msg

`" ++ [32467; 26524; 20449; 24687]%N ++ runes_of_ascii "`  ,

repeat	Detail , 
} packet

    Detail
	{

    string 
RuleName  `" ++ [35268; 21017; 21517; 31216]%N ++ runes_of_ascii "` , u16 Code 
`" ++ [21407; 22240; 20195; 30721]%N ++ runes_of_ascii "`

,}
")).
Eval vm_compute in ("<<<M245>>>" ++ check (runes_of_ascii "packet As { @lengthOf( // c
u8x )
    repeat u32 T ,
string Foo@calculatedFrom(
""it's"" ) `doc`  , @tag(
// a // b
// " ++ [27880; 37322]%N ++ runes_of_ascii "
00) //
@tag( 42 )	repeatCount { packetx { repeat// @lengthOf(
f64 x_y_z
    `doc` //x
,
repeat
    char[65535
] crc ,} ,
    u16 A , o @lengthOf( MetaDataX)  `// not a comment`
    , repeat string  BodyLength `
`
    /// triple
    , }, repeatCount
@lengthOf( chars)
,  match //	t
uint8x
    as As  {007 :
Packet """"  : Header 3
:zchar 7
// packet A { u8 x, }
// " ++ [27880; 37322]%N ++ runes_of_ascii "
:
u128 , [ 4294967296 ,	""x y"" // " ++ [128512]%N ++ runes_of_ascii " emoji
]
:
crc
[ ""1"" ,
    00]:
//x
// @lengthOf(
int ,	}
,
@lengthOf( Foo ) repeat // " ++ [128512]%N ++ runes_of_ascii " emoji
u
{string float
// packet A { u8 x, }
/// triple
,  string matchKey
    @calculatedFrom( ""it's"" // " ++ [128512]%N ++ runes_of_ascii " emoji
)  `it's` ,
    repeat Packet repeatCount
    ,
    }, @lengthOf( T)
A
    //x
    @lengthOf( rootA // c
) `` ,
    repeatCount // " ++ [128512]%N ++ runes_of_ascii " emoji
@calculatedFrom( ""packet"" ) , char[] x
// `tick` ""quote"" 'q'
// packet A { u8 x, }
@calculatedFrom( ""abc"" ) `crlf
line` , }packet
i8i8
// c
// trailing space 
{} options{ MetaDataX=true ;//x
charz	=
    true ; }
")).
Eval vm_compute in ("<<<M1847>>>" ++ check (runes_of_ascii "

  packet 
options1
{

repeat
matchKey`doc`

    ,  char[]
string_ 
// " ++ [27880; 37322]%N ++ runes_of_ascii "
    	`
`
, 	 // packet A { u8 x, }
    uint16
T
    , 
repeatCount
_x ,
} packet  msg_type	{ @lengthOf(  Pad
)

asx
	@calculatedFrom( 
""\" ++ [233]%N ++ runes_of_ascii """
)
,  @tag( 
4294967296

) Logon
    `a\`
,
@tag( 0
	) crc
@lengthOf( charz// " ++ [128512]%N ++ runes_of_ascii " emoji
    	)	`u8 x,`
,char[
	0 
]f32a  // " ++ [128512]%N ++ runes_of_ascii " emoji
,

u8
    A

`line1
line2`
,
	Z9_

    u 
`{ , }`
	,repeat
uint8x`" ++ [28040; 24687; 31867; 22411]%N ++ runes_of_ascii "`,

int8	Packet@calculatedFrom( ""{,}"" )
	,  
  // packet A { u8 x, }
  } packet
A 
{ 
    // trailing space 
// trailing space 

  @tag(
3	)	@tag(  
      /// triple
	1

) u16
    A // c
  ,
@tag(

1 )
match

//
      // @lengthOf(
  roots
	as
	pack {	// c
	[""CRC32""
]
	: 
i8i8""a\\""	: trueish
,[""{,}"",
	""" ++ [28040; 24687]%N ++ runes_of_ascii """
	]
:

    falsey
	// `tick` ""quote"" 'q'
    } // a // b
		,@rightPad // packet A { u8 x, }

(	' ')

int16

    Packet `
` , // `tick` ""quote"" 'q'
	  repeat
    zchar[1
]
	Pad

    ,// a // b
}

")).
Eval vm_compute in ("<<<M17>>>" ++ check (runes_of_ascii "  root
//
// `tick` ""quote"" 'q'
packet lengthOf {repeat char[]asx`// not a comment` // trailing space 
,	lengthOf{ string options1	, char[] A @calculatedFrom( ""\n"" )
    ,	int16 trueish , },repeat  int16	stringy  , string Logon `{ , }`
, @lengthOf(	metadata )
match trueish	as
    Foo { 00
:
T , 7
: Z9_ , } ,
string_ a1
`" ++ [28040; 24687; 31867; 22411]%N ++ runes_of_ascii "`// packet A { u8 x, }
, } packet zchar { @calculatedFrom(
    ""x y"" //x
) repeatCount`
`, match
    //
    stringy as u {255 // `tick` ""quote"" 'q'
:charz } , zchar[ 0123456789]
    // a // b
    Z9_
@lengthOf(
    crc )
`it's` , @leftPad
    ( '\x00' )zchar[
    0 ]rootA @calculatedFrom( ""CRC32"" ) , @lengthOf( leftPad )
    // packet A { u8 x, }
    Foo @calculatedFrom(
""{,}"" ) ,
uint32 Foo
`// not a comment` , f32 float , repeat matchKey ,
Logon @lengthOf(
    rootA
) `" ++ [28040; 24687; 31867; 22411]%N ++ runes_of_ascii "` ,
    }
")).
Eval vm_compute in ("<<<M2025>>>" ++ check (runes_of_ascii "root packet stringy {
    repeat u16 falsey `
    `,
    u16 Pad,
    @lengthOf(x)
    Logon {
        repeat zchar[65535] Packet `it's`,
    },
}

packet len {
    @leftPad()
    repeat metadata {
        match asx as asx {
            ""a\\"" : f32a,
        },
    },
    uint16 falsey,
    body,
    repeat string lengthOf `say ""hi""`,
}

packet i64_ {
    x,
    @lengthOf(i64_)
    @tag(7)
    // `tick` ""quote"" 'q'
    @calculatedFrom("""")
    repeat zchar[1] i8i8,
    i64 i64_ @calculatedFrom(""\" ++ [233]%N ++ runes_of_ascii """) `line1
    line2`,
    float `tab	here`,
    @calculatedFrom(""" ++ [128512]%N ++ runes_of_ascii """)
    char[] Logon ``,
    match leftPad as stringy {
        0 : float,
        ""\n"" : Pad,
    },
    i8i8 @lengthOf(roots),
}

root packet i8i8 {
    tag @lengthOf(T) `" ++ [28040; 24687; 31867; 22411]%N ++ runes_of_ascii "`,
}")).
Eval vm_compute in ("<<<M1838>>>" ++ check (runes_of_ascii "packet rootA {
    @tag(3)
    zchar[00] x_y_z `" ++ [28040; 24687; 31867; 22411]%N ++ runes_of_ascii "`,
    _x,
    // a // b
    float64 A @lengthOf(u8x),
    u8 rootA `line1
        line2`,
    zchar[7] stringy,
    match Header as f32a {
        ""\" ++ [233]%N ++ runes_of_ascii """ : o,
        [
            4294967296, 7, 4294967296, ""packet"", ""a	b"",
            ""CRC32"", 7, ""a	b""
        ] : repeatCount,
        ""a\""b"" : Header,
        [""a\""b""] : crc,
        [007, 007, ""abc""] : metadata,
        4294967296 : chars,
    },
    @tag(1)
    i8 matchKey `a\`,
    // @lengthOf(
    // " ++ [128512]%N ++ runes_of_ascii " emoji
    @lengthOf(body)
    tag,
    @lengthOf(matchKey)
    @lengthOf(o)
    @lengthOf(pack)
    repeat u {
        calculatedFrom @lengthOf(falsey),
    },
}")).
Eval vm_compute in ("<<<M1933>>>" ++ check (runes_of_ascii "// top
	packet

// c0
  trueish 
        // c1

{
    // c2

repeat
// c3

u32
	    // c4
MetaDataX
	// c5
    	`doc` 
	    // c6
  , 
	// c7
Header 
        // c8
		{ 
	    // c9
packetx 
// c10
		o 
      // c11
      `u8 x,` 
// c12
	,  
  // c13
		} 

// c14
  , 
	    // c15

@leftPad
    // c16

(
        // c17

  '\x00'

    // c18
  	) 
// c19

repeat
    // c20
  char[ 
	// c21

0123456789
        // c22

	] 

// c23
	repeatCount
    // c24
, 
// c25
  } 

// c26

	packet  
      // c27
		Packet  
      // c28
{ 

// c29
      } 
        // c30
")).
Eval vm_compute in ("<<<M1198>>>" ++ check (runes_of_ascii "// top
packet
    // c0
trueish
    // c1
{
    // c2
repeat
    // c3
u32
    // c4
MetaDataX
    // c5
`doc`
    // c6
,
    // c7
Header
    // c8
{
    // c9
packetx
    // c10
o
    // c11
`u8 x,`
    // c12
,
    // c13
}
    // c14
,
    // c15
@leftPad
    // c16
(
    // c17
'\x00'
    // c18
)
    // c19
repeat
    // c20
char[
    // c21
0123456789
    // c22
]
    // c23
repeatCount
    // c24
,
    // c25
}
    // c26
packet
    // c27
Packet
    // c28
{
    // c29
}
    // c30
")).
Eval vm_compute in ("<<<M1426>>>" ++ check (runes_of_ascii "  options
    { LittleEndian 
=false

    ; StringPrefixLenType 
=

u32 
;
ArrayPrefixLenType =u16
	;}	packet
	Party {
@leftPad(
'0'

)  char[
    12 ]
	Ref	, repeat
char[  6	]
x
,

    }  packet Logon  { uint32	clOrdID
,

Party
, 
}

    root
    packet Ack

    {
    zchar[
	2 ] f1 , u32 
seqNo ,

u32

Side2 @lengthOf(

Body	)
,
match
    seqNo
	as Body

    {

    43 :	Logon,93 
:
Party
,

    }	,
    }
")).
Eval vm_compute in ("<<<M1913>>>" ++ check (runes_of_ascii "// c
options {
    i8i8 = """ ++ [28040; 24687]%N ++ runes_of_ascii """;
    Pad = ' '
}

root packet i8i8 {
    i64 matchKey `" ++ [233]%N ++ runes_of_ascii "`,
    match repeatCount as x {
        //	t
        // a // b
        42 : float,
        007 : u,
    },
    @calculatedFrom(""a	b"")
    string_ {
        matchKey string_,// trailing space 
    },
    repeat char[] repeatCount,
}

options {
    msg_type = true;
    int = u16
    string_ = false;
}")).
Eval vm_compute in ("<<<M2031>>>" ++ check (runes_of_ascii "// " ++ [27880; 37322]%N ++ runes_of_ascii "
packet tag {
    repeat i64_ {
        zchar[007] Logon @calculatedFrom(""packet""),
        repeat char[] leftPad `a\`,
        zchar[3] float,
    },
}

packet pack {
    repeat i8 len `
    `,
}

root packet uint8x {
    // packet A { u8 x, }
    @leftPad()
    @calculatedFrom(""a\\"")
    @rightPad('\x00')
    repeat char[0] T,
}//	t")).
Eval vm_compute in ("<<<M1474>>>" ++ check (runes_of_ascii "options {
    LittleEndian = true;
}
packet Logon {
    u8 x,
}
packet Logout {
    u16 reason,
}
root packet Frame {
    i32 Kind,
    i32 Kind2,
    match Kind as Body {
        1 : Logon,
        [2, 3, 4] : Logout,
        100 : Logon,
    },
    match Kind2 as Trailer {
        0 : Logout,
    },
}
")).
Eval vm_compute in ("<<<M1479>>>" ++ check (runes_of_ascii "options

{ LittleEndian= 
true;
}
	packet
	Logon
	{ 
u8 x , 
string  user ,}
	packet
	Logout	{

    u16	reason,

    } packet Empty  {
	}  root packet

    Frame  {

u16  MsgType
,@lengthOf(Body ) 
u8 BodyLen
,

u8	flags,

    Logon
Body

,
u32
trailer ,

} ")).
Eval vm_compute in ("<<<M352>>>" ++ check (runes_of_ascii "
root packet
    // `tick` ""quote"" 'q'
    BodyLength { metadata
/// triple
// `tick` ""quote"" 'q'
{
calculatedFrom,zchar[ 007 ] msg_type@lengthOf( int )
`say ""hi""` , chars uint8x , string
As @calculatedFrom( ""a	b""
)`
` ,/// triple
} ,  }
")).
Eval vm_compute in ("<<<M529>>>" ++ check (runes_of_ascii "options
{
matchKey = 42/// triple
x='0' ;
// packet A { u8 x, }
//
charz
=
// packet A { u8 x, }
// trailing space 
true  ; } MetaData BodyLength
{
uint8
pack,zchar[ 1]float ,  float32 x_y_z `` float32 u32
_x,i16 body  , }
")).
Eval vm_compute in ("<<<M522>>>" ++ check (runes_of_ascii "options
{
matchKey = 42/// triple
x='0' ;
// packet A { u8 x, }
//
charz
=
// packet A { u8 x, }
// trailing space 
true  ; } MetaData BodyLength
{
uint8
pack,zchar[ 1]float ,  float32 x_y_z `` `` ,u32
_x,i16 body  , }
")).
Eval vm_compute in ("<<<M478>>>" ++ check (runes_of_ascii "options
{
matchKey = 42/// triple
x='0' ;
// packet A { u8 x, }
//
charz
=
// packet A { u8 x, }
// trailing space 
true  ; } MetaData BodyLength
{
uint8
,pack zchar[ 1]float ,  float32 x_y_z `` ,u32
_x,i16 body  , }
")).
Eval vm_compute in ("<<<M453>>>" ++ check (runes_of_ascii "options
{
matchKey = 42/// triple
x='0' ;
// packet A { u8 x, }
//
charz
=
// packet A { u8 x, }
// trailing space 
true  ; MetaData } BodyLength
{
uint8
pack,zchar[ 1]float ,  float32 x_y_z `` ,u32
_x,i16 body  , }
")).
Eval vm_compute in ("<<<M506>>>" ++ check (runes_of_ascii "options
{
matchKey = 42/// triple
x='0' ;
// packet A { u8 x, }
//
charz
=
// packet A { u8 x, }
// trailing space 
true  ; } MetaData BodyLength
{
uint8
pack,zchar[ 1]float   float32 x_y_z `` ,u32
_x,i16 body  , }
")).
Eval vm_compute in ("<<<M1974>>>" ++ check (runes_of_ascii "packet pack {
    @calculatedFrom(""CRC32"")
    i8i8 {
        MetaDataX @lengthOf(x),
        char As @lengthOf(len),
        // " ++ [128512]%N ++ runes_of_ascii " emoji
        //x
        chars metadata `say ""hi""`,
        char[0] int,
    },
}")).
Eval vm_compute in ("<<<M1>>>" ++ check (runes_of_ascii "// c
options {
    lengthOf = false Logon =
    false ;
} MetaData lengthOf
{ // " ++ [128512]%N ++ runes_of_ascii " emoji
float32 i8i8, }
root // `tick` ""quote"" 'q'
packet roots
{  zchar[
7	] f32a
    // trailing space 
    , }
")).
Eval vm_compute in ("<<<M692>>>" ++ check (runes_of_ascii "// c
packet i64_ i64_ {	char[] calculatedFrom , } packet
trueish  {@calculatedFrom(
""a\\"" ) o { i32 falsey@lengthOf( uint8x ),
} , } // `tick` ""quote"" 'q'
options {// c
Z9_ = ' '//
}
")).
Eval vm_compute in ("<<<M683>>>" ++ check (runes_of_ascii "// c
packet i64_ {	char[] calculatedFrom , } packet
trueish  {@calculatedFrom(
""a\\"" ) o { i32 @lengthOf(falsey uint8x ),
} , } // `tick` ""quote"" 'q'
options {// c
Z9_ = ' '//
}
")).
Eval vm_compute in ("<<<M673>>>" ++ check (runes_of_ascii "// c
 i64_ {	char[] calculatedFrom , } packet
trueish  {@calculatedFrom(
""a\\"" ) o { i32 falsey@lengthOf( uint8x ),
} , } // `tick` ""quote"" 'q'
options {// c
Z9_ = ' '//
}
")).
Eval vm_compute in ("<<<M247>>>" ++ check (runes_of_ascii "packet
Pad { } packet// packet A { u8 x, }
len // a // b
{ string u128 , } root packet o {
@tag( 7
) char[] msg_type @calculatedFrom( ""// no comment""
)
    ,}
")).
Eval vm_compute in ("<<<M1352>>>" ++ check (runes_of_ascii "packet
    B
{u8 a
    ,  }	root packet

    P{ u8

    K

    ,
	u64

    L@lengthOf(	Body
)  ,  match 
K
	as
    Body {	1 
:
B 
, 
},}
")).
Eval vm_compute in ("<<<M1829>>>" ++ check (runes_of_ascii "MetaData f32a {
    uint8 repeatCount,
    x_y_z i8i8,
    f32 msg_type,
    charz lengthOf `tab	here`,
    char[7] chars,
    float x,
}")).
Eval vm_compute in ("<<<M1349>>>" ++ check (runes_of_ascii "
packet	B
{
	u8 a	, 
}

    root

packet P {  u8  K , 
u8
    L @lengthOf(
Body)

,	match
K as Body
{  1

    :B,  }	,
	} ")).
Eval vm_compute in ("<<<M607>>>" ++ check (runes_of_ascii "MetaData
    // trailing space 
    matchKey
{ u64 chars chars // a // b
,char[] lengthOf `// not a comment`
    , //	t
}")).
Eval vm_compute in ("<<<M597>>>" ++ check (runes_of_ascii "MetaData
    // trailing space 
    matchKey
{ { u64 chars // a // b
,char[] lengthOf `// not a comment`
    , //	t
}")).
Eval vm_compute in ("<<<M24>>>" ++ check (runes_of_ascii "packet _x { int32 u , @tag(3)char[ 255]
    // @lengthOf(
    A
    @calculatedFrom( ""x y""
    )
`crlf
line`,
    }")).
Eval vm_compute in ("<<<M604>>>" ++ check (runes_of_ascii "MetaData
    // trailing space 
    matchKey
{ ; chars // a // b
,char[] lengthOf `// not a comment`
    , //	t
}")).
Eval vm_compute in ("<<<M1523>>>" ++ check (runes_of_ascii "packet Logon {
	@tag(	// c
	42	)

@rightPad
	( 
' '
) @leftPad
	(
	)
repeat  trueish 
{ string
T
, }
, }
")).
Eval vm_compute in ("<<<M1846>>>" ++ check (runes_of_ascii "
packet
    B
{
    u8

a  , string
    s
,} root packet
P

{
u16 L
@lengthOf(  B  )
	,B
    ,u8 t

,

} ")).
Eval vm_compute in ("<<<M1256>>>" ++ check (runes_of_ascii "packet calculatedFrom
// c
{ @tag( 4294967296 ) u msg_type , char[ 3 ] crc @lengthOf( len ) `u8 x,` , }")).
Eval vm_compute in ("<<<M1288>>>" ++ check (runes_of_ascii "packet calculatedFrom { @tag( 4294967296 ) u msg_type , char[ 3 ] crc @lengthOf( len ) `u8 x,` ,
// c
}")).
Eval vm_compute in ("<<<M1632>>>" ++ check (runes_of_ascii "
packet A{

match

k

    as 
n

    {
	[
1	, 22
, 007,
4,5 ,	66, 7 , 8
	]
    :	B

2
:C},

}")).
Eval vm_compute in ("<<<M1134>>>" ++ check (runes_of_ascii "packet Logon { // c
@tag( 42 ) @rightPad ( ' ' ) @leftPad ( ) repeat trueish { string T , } , }")).
Eval vm_compute in ("<<<M1166>>>" ++ check (runes_of_ascii "packet Logon { @tag( 42 ) @rightPad ( ' ' ) @leftPad ( ) repeat trueish { string T , // c
} , }")).
Eval vm_compute in ("<<<M841>>>" ++ check (runes_of_ascii "packet A {
  match k as n {
    [""a"", ""bb"", ""c c"", ""d"", ""e"", ""f"", ""g""] : B
    2 : C
  },
}")).
Eval vm_compute in ("<<<M1953>>>" ++ check (runes_of_ascii "packet A {
    match k as n {
        [""a"", ""bb"", 007, ""d""] : B,
        2 : C,
    },
}")).
Eval vm_compute in ("<<<M2024>>>" ++ check (runes_of_ascii "root packet x_y_z {
    // a // b
    // packet A { u8 x, }
    repeat falsey `" ++ [233]%N ++ runes_of_ascii "`,
}")).
Eval vm_compute in ("<<<M1217>>>" ++ check (runes_of_ascii "packet o { @tag( 42
// c
) repeat x { char[ 0123456789 ] i64_ , } , } options { }")).
Eval vm_compute in ("<<<M1690>>>" ++ check (runes_of_ascii "
root packet P
    {  u8	s_u8 ,
repeat 
u8

    r_u8

,

u16  b_len ,

    }")).
Eval vm_compute in ("<<<M1620>>>" ++ check (runes_of_ascii "packet A {
    match k as n {
        [""a"", ""bb""] : B,
        2 : C,
    },
}")).
Eval vm_compute in ("<<<M1646>>>" ++ check (runes_of_ascii "options {
}

packet repeatCount {
    // `tick` ""quote"" 'q'
}

options {
}")).
Eval vm_compute in ("<<<M1371>>>" ++ check (runes_of_ascii "
root
	packet
	P 
{ u16  a, u32
Sum@calculatedFrom( ""CRC32""
    ) 
,  }")).
Eval vm_compute in ("<<<M799>>>" ++ check (runes_of_ascii "packet A {
  match k as n {
    [1, 22, 007, 4] : B,
    2 : C
  },
}")).
Eval vm_compute in ("<<<M771>>>" ++ check (runes_of_ascii """a\\"" false i32 00 match @calculatedFrom( int8 f64 packet char[]")).
Eval vm_compute in ("<<<M366>>>" ++ check (runes_of_ascii "
packet Logon{ match
    float as trueish { 3 : int } , }

")).
Eval vm_compute in ("<<<M1069>>>" ++ check (runes_of_ascii "packet A { match k as n { 1 : B // a // b 2 : C }, }")).
Eval vm_compute in ("<<<M967>>>" ++ check (runes_of_ascii "options {
    a = ""x\
y"";
    b = ""x\
y""
}")).
Eval vm_compute in ("<<<M1109>>>" ++ check (runes_of_ascii "MetaData zchar {
// c
zchar[ 3 ] Pad , }")).
Eval vm_compute in ("<<<M420>>>" ++ check (runes_of_ascii "options
{
matchKey = 42/// triple
x")).
Eval vm_compute in ("<<<M1062>>>" ++ check (runes_of_ascii "packet A {
 u8 x `d x`, // c x
}")).
Eval vm_compute in ("<<<M1012>>>" ++ check (runes_of_ascii "packet A {
 u8 x `d" ++ [8232]%N ++ runes_of_ascii "`, // c" ++ [8232]%N ++ runes_of_ascii "
}")).
Eval vm_compute in ("<<<M288>>>" ++ check (runes_of_ascii "packet
repeatCount {
    }")).
Eval vm_compute in ("<<<M1297>>>" ++ check (runes_of_ascii "packet
// c
lengthOf { }")).
Eval vm_compute in ("<<<M131>>>" ++ check (runes_of_ascii "  packet float { }
")).
Eval vm_compute in ("<<<M1021>>>" ++ check (runes_of_ascii "// c" ++ [8239]%N ++ runes_of_ascii "
packet A {
}")).
Eval vm_compute in ("<<<M1018>>>" ++ check (runes_of_ascii "packet A {
}// c" ++ [8239]%N)).
Eval vm_compute in ("<<<M400>>>" ++ check (runes_of_ascii "options
{")).
Eval vm_compute in ("<<<M1054>>>" ++ check (runes_of_ascii "// c" ++ [6158]%N)).
