From FP Require Import Lexer Parser ShowPT Digest Formatter.
From Coq Require Import String List NArith.
Import ListNotations.
Open Scope string_scope.
Set Printing Width 100000000.
Set Printing Depth 100000000.
Definition show_fres (r : fres) : string :=
  match r with
  | FOk s => "OK:" ++ sh_escaped s ""
  | FErr s => "ERR:" ++ sh_escaped s ""
  | FPanic p => "PANIC:" ++ p
  end.
Definition check (rs : list rune) : string := digest (show_fres (format_res rs)).
Definition full (rs : list rune) : string := show_fres (format_res rs).
Eval vm_compute in ("<<<M3567>>>" ++ check (runes_of_ascii "// top
options // c0
{
    // c1
LittleEndian = // c3a
  // c3b
false
    // c4
; // c5a
  // c5b
StringPrefixLenType // c6
= // c7a
  // c7b
u16
    // c8
; // c9a
  // c9b
ArrayPrefixLenType = // c11
u16 // c12a
  // c12b
;
    // c13
FixedStringPadFromLeft
    // c14
= // c15a
  // c15b
false ; FixedStringPadChar // c18a
  // c18b
= ' '
    // c20
; // c21a
  // c21b
} // c22
packet // c23a
  // c23b
Heartbeat // c24
{ // c25a
  // c25b
i32
    // c26
f1 , // c28
} packet Cancel // c31a
  // c31b
{ char[] Note , // c35a
  // c35b
} packet // c37a
  // c37b
Fill // c38a
  // c38b
{ // c39
u32 price ,
    // c42
float64 Ref , // c45
zchar[ // c46
8 ]
    // c48
tag7 // c49a
  // c49b
, // c50
repeat
    // c51
Cancel ,
    // c53
int64 // c54
Acct // c55a
  // c55b
, // c56a
  // c56b
} // c57
packet Quote { // c60a
  // c60b
@rightPad // c61a
  // c61b
( // c62
'0' // c63
) char[ // c65a
  // c65b
12 ] // c67
count , char[]
    // c70
seqNo // c71
, // c72
} // c73
root
    // c74
packet // c75
Party
    // c76
{ // c77a
  // c77b
Fill
    // c78
,
    // c79
InMsgkind30 { repeat u16 // c83
Ref ,
    // c85
repeat InCount61 // c87
{ repeat i8 // c90
sym
    // c91
,
    // c92
char[]
    // c93
Ref
    // c94
, repeat // c96a
  // c96b
char[ // c97
4
    // c98
] Qty // c100
, // c101
repeat // c102a
  // c102b
Heartbeat
    // c103
, } ,
    // c106
u32 // c107a
  // c107b
venue ,
    // c109
uint16 Flags // c111
,
    // c112
} , u8
    // c115
Px // c116a
  // c116b
, // c117
repeat // c118
u16 // c119a
  // c119b
Side2 // c120a
  // c120b
, // c121a
  // c121b
@rightPad (
    // c123
'0' // c124a
  // c124b
) // c125a
  // c125b
char[
    // c126
10
    // c127
] // c128
Qty // c129a
  // c129b
, @rightPad ( '\x00' ) // c134a
  // c134b
char[
    // c135
1 // c136
]
    // c137
clOrdID // c138a
  // c138b
,
    // c139
u8 // c140a
  // c140b
Tail // c141a
  // c141b
, match // c143a
  // c143b
Tail as // c145a
  // c145b
Body
    // c146
{ // c147
[ // c148
159 // c149a
  // c149b
,
    // c150
182 // c151
] : Quote , // c155
155 // c156
:
    // c157
Heartbeat // c158
,
    // c159
178 // c160a
  // c160b
: // c161a
  // c161b
Fill
    // c162
, 49 : Cancel // c166a
  // c166b
, // c167a
  // c167b
} , // c169a
  // c169b
u16 // c170a
  // c170b
Ref
    // c171
@calculatedFrom( // c172a
  // c172b
""CRC32""
    // c173
) // c174a
  // c174b
, } // c176
")).
Eval vm_compute in ("<<<M4357>>>" ++ check (runes_of_ascii "packet roots {
    f64 len `crlf
        line`,
    @calculatedFrom(""x y"")
    //x
    u128 {
        match roots as As {
            [""" ++ [233]%N ++ runes_of_ascii "t" ++ [233]%N ++ runes_of_ascii """, 65535, 007] : msg_type,
            4294967296 : Packet,
            42 : As,
            ""// no comment"" : BodyLength,
            65535 : int,
        },
    },
    @lengthOf(int)
    char[0] Z9_,
    repeat charz {
        zchar[0] options1 `line1
                line2`,
    },
    repeat char[] msg_type `
        `,
    @calculatedFrom("""")
    @rightPad()
    _x len ``,
}

MetaData Pad {
    uint64 _x,
}

packet Foo {
    @calculatedFrom(""a\""b"")
    u16 asx `100% of %d`,
    @rightPad('0')
    zchar[007] MetaDataX @lengthOf(int) `line1
        line2`,
    A @calculatedFrom(""" ++ [28040; 24687]%N ++ runes_of_ascii """) `// not a comment`,
    @rightPad()
    match i8i8 as string_ {
        255 : i8i8,
        """ ++ [233]%N ++ runes_of_ascii "t" ++ [233]%N ++ runes_of_ascii """ : As,
        42 : T,
    },
    @calculatedFrom(""abc"")
    @leftPad(' ')
    @leftPad()
    // " ++ [27880; 37322]%N ++ runes_of_ascii "
    float32 lengthOf,
}

root packet tag {
    // a // b
    char[007] MetaDataX @calculatedFrom(""packet""),
    @leftPad()
    repeat u16 i64_,
    @rightPad('0')
    repeat uint32 matchKey `crlf
        line`,
    o {
        matchKey {
            repeat zchar[0123456789] BodyLength,
            metadata,
            u @lengthOf(rootA) `two words`,
            uint8 u128 @lengthOf(repeatCount) `tab	here`,
        },
        match options1 as asx {
            [
                ""\n"", ""\n"", ""abc"", ""`tick`"", ""x y"",
                1, ""packet""
            ] : pack,
            255 : u128,
            [""\" ++ [233]%N ++ runes_of_ascii """, ""packet"", 255, ""abc"", ""a\\""] : Z9_,
        },
        falsey {
            match rootA as u8x {
                [""a\\""] : T,
                ["""", """ ++ [128512]%N ++ runes_of_ascii """] : Pad,
                // " ++ [27880; 37322]%N ++ runes_of_ascii "
                3 : int,
                1 : leftPad,
                10 : int,
            },
        },
    },
    repeat o matchKey,
}/// triple")).
Eval vm_compute in ("<<<M4371>>>" ++ check (runes_of_ascii "

  MetaData

msg_type
    {
    char[] 

// trailing space 

  Logon `say ""hi""`,
}MetaData
a1 { a1	options1 
,zchar[
10 
]
    uint8x `two words`
, asx

As

    ,

    char[
	65535 ]
tag
,

uint8x
f32a  `a\` 
,
    zchar[
007
]

    calculatedFrom
	,

    } MetaData 
lengthOf {
	char[] metadata,

} root packet chars
	{
@tag(
	7 
) f32a
	,@rightPad ( ) x {
char
    tag	@calculatedFrom(

    ""`tick`""

) `crlf
line` ,

char[]
	u8x @calculatedFrom(

    ""CRC32""	)
,
	repeat Pad

Logon
, 
}
,@calculatedFrom(

""1""
)	// @lengthOf(
    _x _x``
,
}
        // trailing space 
packet

tag { int64
len @calculatedFrom(
    ""a\\""
)
`line1
line2`
	,
@tag(
	7 )
tag ,

    @lengthOf(  i64_  )uint16 T, f64

    falsey @lengthOf(
o
    ) ,@tag(
	    //
  // @lengthOf(
  0
	    // packet A { u8 x, }
    )
match o
as

// `tick` ""quote"" 'q'
  options1{
007

    : Logon,
	[255, 1 ]

    : uint8x

    , 
[
	""a\\""
    ,
""// no comment"" ] :

//x
	// `tick` ""quote"" 'q'
    rootA
, 
255
:  T

, [""" ++ [233]%N ++ runes_of_ascii "t" ++ [233]%N ++ runes_of_ascii """  ] :f32a
}
,  @tag(	4294967296
)
@tag( 4294967296) @rightPad
	(
	) match 
asx
	as As { 65535 :repeatCount,	""`tick`"" :

    tag

, """"

:	// 50% %s

	matchKey,  // packet A { u8 x, }
    ""packet"":As
7:metadata 
""" ++ [128512]%N ++ runes_of_ascii """ : Z9_}
, zchar { char[]
trueish 
,u16// c
    	o

`doc`	// `tick` ""quote"" 'q'
  , char[ 42 ]  
      // 50% %s

//x
	calculatedFrom 	 // " ++ [27880; 37322]%N ++ runes_of_ascii "
  @lengthOf( metadata

)	,int16 
	// c
		u8x , }
	,

    @leftPad  (
    // a // b
// `tick` ""quote"" 'q'
  '\x00')
	@leftPad(
) repeat uint16 MetaDataX`it's`, 

//x
      // @lengthOf(
    	}")).
Eval vm_compute in ("<<<M167>>>" ++ check (runes_of_ascii "packet
u8x { float64 tag
    ,repeat
    string As`it's` ,
@calculatedFrom(
    """ ++ [128512]%N ++ runes_of_ascii """ ) rootA
    , uint32 roots `" ++ [28040; 24687; 31867; 22411]%N ++ runes_of_ascii "`	, x_y_z @lengthOf( stringy  ),
@calculatedFrom(	""" ++ [128512]%N ++ runes_of_ascii """ // " ++ [27880; 37322]%N ++ runes_of_ascii "
)	repeat
u32 int `tab	here` ,
x @calculatedFrom(""" ++ [233]%N ++ runes_of_ascii "t" ++ [233]%N ++ runes_of_ascii """	) `line1
line2`, }options { // c
Pad = '\x00' float =0123456789
// trailing space 
// 50% %s
body = uint64 ;i8i8  =
""a\""b""
// " ++ [128512]%N ++ runes_of_ascii " emoji
//	t
;	x_y_z = ""packet"" // c
;// " ++ [128512]%N ++ runes_of_ascii " emoji
} root
packet
// a // b
// c
trueish {repeat
uint16 x `100% of %d`
    // a // b
    , uint32 // " ++ [128512]%N ++ runes_of_ascii " emoji
BodyLength , // @lengthOf(
@calculatedFrom(""" ++ [233]%N ++ runes_of_ascii "t" ++ [233]%N ++ runes_of_ascii """ ) @rightPad	('\x00' )  @tag(255 )
    chars
    `
` , char[ 3 ] packetx //	t
@lengthOf( matchKey ) ,
    repeat
    zchar[ 1
] u128`two words` ,int64 pack// a // b
,
    string As `line1
line2` ,
    @rightPad
    // c
    ( '\x00' )@rightPad
    ( // " ++ [27880; 37322]%N ++ runes_of_ascii "
'0' )
@tag( //x
10)	match  o
    as Logon {
00 :T ,
[""a	b""
]:Packet
, [""" ++ [28040; 24687]%N ++ runes_of_ascii """
, ""a\""b""// packet A { u8 x, }
, ""packet""
, 4294967296 , 10 ,//
4294967296
    // " ++ [27880; 37322]%N ++ runes_of_ascii "
    ,0
,
007 /// triple
] : // " ++ [128512]%N ++ runes_of_ascii " emoji
trueish	""\" ++ [233]%N ++ runes_of_ascii """ : crc ""// no comment"" :	rootA 42 /// triple
:// `tick` ""quote"" 'q'
msg_type } ,// " ++ [128512]%N ++ runes_of_ascii " emoji
match
u128 as u {255 :BodyLength ,
} ,	match Pad as
    trueish{4294967296
    // @lengthOf(
    : matchKey [ ""it's"" ,
    //x
    10 ,
65535 ,
""1"" ]
    :len 7 : len
    // packet A { u8 x, }
    , ""a	b""
:roots	, } // @lengthOf(
, }
")).
Eval vm_compute in ("<<<M1319>>>" ++ check (runes_of_ascii "  packet tag
{stringy  @calculatedFrom(
""a\\""
    )
`` // trailing space 
, @calculatedFrom( """ ++ [128512]%N ++ runes_of_ascii """
    ) zchar[
    007 ]  uint8x
    , zchar[255
] matchKey ,@leftPad ('\x00' )
char[]
tag	`{ , }` ,match len as stringy { ""\" ++ [233]%N ++ runes_of_ascii """: calculatedFrom
    //
    , }
, Packet @lengthOf( i64_
    ) ,/// triple
repeat uint16
leftPad `" ++ [233]%N ++ runes_of_ascii "` , }
/// triple
// 50% %s
root packet a1 {  repeat T
// @lengthOf(
// 50% %s
options1`{ , }` , @lengthOf( x_y_z ) @calculatedFrom(	""// no comment"" ) @tag(007
    ) lengthOf{
zchar[ 10 ]Pad `{ , }` ,chars { repeat char[4294967296 ] int ,  string repeatCount , char[]
    stringy @lengthOf( repeatCount ),o ,},
    uint8 roots
    @lengthOf( uint8x ) ,
    }, asx `100% of %d`	,  repeat	repeatCount ``
,@rightPad (
    ) @calculatedFrom(
    //
    ""a\\"")
@lengthOf( u128) repeat asx _x`// not a comment`
,	@lengthOf(
    Foo) char[ 1	]
trueish// @lengthOf(
@lengthOf(_x
) ,@tag(3
) char[] chars
// trailing space 
// " ++ [27880; 37322]%N ++ runes_of_ascii "
@lengthOf( options1 ) ,@calculatedFrom( ""// no comment""
    // @lengthOf(
    ) Pad uint8x //	t
`crlf
line` , @tag(007
    )repeat Packet Pad
,  @tag( 7 )repeat int32 MetaDataX `// not a comment`
    , }
MetaData Z9_
{
    // c
    uint32 int
`a\`
, char[] repeatCount
, _x falsey `tab	here` ,
    } 	 ")).
Eval vm_compute in ("<<<M3549>>>" ++ check (runes_of_ascii "// top
options // c0a
  // c0b
{
    // c1
StringPrefixLenType // c2
= // c3a
  // c3b
u8 ; // c5
ArrayPrefixLenType // c6a
  // c6b
=
    // c7
u16
    // c8
; // c9
FixedStringPadChar = // c11
'0' // c12a
  // c12b
; }
    // c14
packet Fill
    // c16
{
    // c17
char[ // c18
6 // c19a
  // c19b
] // c20a
  // c20b
Acct // c21a
  // c21b
,
    // c22
u64 // c23a
  // c23b
venue , // c25
} // c26
root // c27
packet // c28a
  // c28b
Logout // c29
{ // c30
char[]
    // c31
Tail , // c33
repeat // c34
i8 // c35a
  // c35b
f1 // c36a
  // c36b
,
    // c37
float64 msgKind // c39
, // c40a
  // c40b
zchar[ 3 // c42
] // c43a
  // c43b
Note // c44a
  // c44b
, uint64 // c46a
  // c46b
count // c47
, @leftPad // c49
( ' ' ) // c52
char[ // c53
12 // c54
] // c55
Px // c56
,
    // c57
u32 OrderId
    // c59
, // c60a
  // c60b
u16 // c61a
  // c61b
tag7 // c62
@lengthOf( // c63
Body
    // c64
) ,
    // c66
match OrderId
    // c68
as // c69
Body // c70
{ // c71a
  // c71b
[ // c72
35 // c73
, 107 // c75
] // c76
:
    // c77
Fill , } // c80
, u32
    // c82
Ref // c83
@calculatedFrom(
    // c84
""CRC32"" ) // c86
, // c87a
  // c87b
} // c88
")).
Eval vm_compute in ("<<<M456>>>" ++ check (runes_of_ascii "options{charz = f64 ; } packet int {	match x_y_z as int {	[""a\""b"" , // 50% %s
3 ,""" ++ [128512]%N ++ runes_of_ascii """ ] : Foo , ""\" ++ [233]%N ++ runes_of_ascii """
: //x
pack
, ""a	b"" : body 255
: pack ,
    65535
    : float
// packet A { u8 x, }
// 50% %s
[
    """ ++ [128512]%N ++ runes_of_ascii """ ,
    """"  ] :
leftPad	}  , u16  T @calculatedFrom(  ""\n"" )
, @tag( 42 ) repeat int { repeat u8 len , char[00 // trailing space 
] options1`crlf
line`
    , } , repeat
i64 charz , @leftPad( '0' )@lengthOf(
Header )repeat
    pack MetaDataX , @leftPad
    ( ' ' ) @lengthOf(float  ) @tag(
65535
    )repeat
//
// c
int16
a1,
repeat int { match repeatCount as zchar {  """ ++ [233]%N ++ runes_of_ascii "t" ++ [233]%N ++ runes_of_ascii """ : u8x , 0 : charz
    ,[7 ]	:
chars , [ ""a\""b"" , 3, 3 , """"
    , ""a\""b""
// trailing space 
// 50% %s
,
""it's"" , 7 , 007 ]:
    msg_type ,
    //	t
    }
    // a // b
    , char[255
] As
    @calculatedFrom( ""1""
)
    , } ,
    } packet
    pack { falsey
x , @tag(	10 )	string	i8i8 @lengthOf( pack
    )	,
@leftPad ( '0') repeat pack`crlf
line` ,@calculatedFrom( """ ++ [128512]%N ++ runes_of_ascii """
    )
@rightPad ( )i8i8
    @calculatedFrom( ""`tick`"" ) , } options// `tick` ""quote"" 'q'
{charz =  '\x00' uint8x
    ='\x00' ;As = '0' }
")).
Eval vm_compute in ("<<<M1298>>>" ++ check (runes_of_ascii "packet //
u { i8i8 @lengthOf(  rootA
) `// not a comment` ,
    @calculatedFrom( """ ++ [28040; 24687]%N ++ runes_of_ascii """ )
    @tag( 0123456789)@tag(
    7)
    tag
    @calculatedFrom(
""`tick`"" ) `u8 x,`// packet A { u8 x, }
, match string_
    as Pad { ""\" ++ [233]%N ++ runes_of_ascii """ : u
// 50% %s
// a // b
""`tick`"" : leftPad ,
255 : metadata
    ,
//x
// `tick` ""quote"" 'q'
10 :Header , 10 :  msg_type// " ++ [27880; 37322]%N ++ runes_of_ascii "
, [
""// no comment"", """"
,
    ""x y"" ,
    0 ,""// no comment"" ]: float, },@calculatedFrom(
    """" )
    @calculatedFrom( ""{,}""
) Header {uint64 pack `" ++ [28040; 24687; 31867; 22411]%N ++ runes_of_ascii "`
    , leftPad  {
    zchar[	007 ]
trueish @lengthOf(	BodyLength ) , repeat	lengthOf `
` , // trailing space 
match Foo as
    Pad	{
""\n"" : lengthOf
[ ""abc""
,""1"" ] : metadata,// packet A { u8 x, }
65535 : zchar [""abc"",
    42
    ] : string_// c
""1"" : falsey ,} ,
char[ 65535 ] o
    , }
    ,} , }
    options
    //	t
    { // a // b
lengthOf =
true // @lengthOf(
;
    rootA = true repeatCount = '\x00'A = false }
    options {u
    =""packet"" // " ++ [27880; 37322]%N ++ runes_of_ascii "
}	options
    {
repeatCount
=
""// no comment"" ; }

")).
Eval vm_compute in ("<<<M3594>>>" ++ check (runes_of_ascii "MetaData x_y_z {
    i16 Pad `line1
        line2`,
}

packet calculatedFrom {
    f64 options1 @calculatedFrom(""a\""b"") `it's`,
    @leftPad()
    @lengthOf(roots)
    x {
        // 50% %s
        repeat Header `it's`,
        char[0] calculatedFrom @lengthOf(zchar),// " ++ [128512]%N ++ runes_of_ascii " emoji
        repeat i8 f32a,
    },
    char[10] int,
    @leftPad()
    int16 Foo @lengthOf(Z9_),
    @calculatedFrom(""x y"")
    float64 i8i8,
    u8x @calculatedFrom(""packet""),
    @calculatedFrom(""\n"")
    char[65535] stringy,
    zchar[3] MetaDataX,
    repeat uint64 float,
}// trailing space 

packet tag {
    u @calculatedFrom(""1"") `it's`,// c
    zchar[0] i64_ @lengthOf(i64_),
    uint8 repeatCount,
    @lengthOf(leftPad)
    string int @lengthOf(As),
    @tag(65535)
    string i64_,
}

packet lengthOf {
    @rightPad('\x00')
    o {
        // 50% %s
        int @calculatedFrom(""a	b"") `doc`,
    },
}

root packet Logon {
    @tag(3)
    Z9_,
}// `tick` ""quote"" 'q'")).
Eval vm_compute in ("<<<M1302>>>" ++ check (runes_of_ascii "packet zchar {
repeat // packet A { u8 x, }
char[
10 ] /// triple
repeatCount
`line1
line2`
, zchar[ 10 ]
// packet A { u8 x, }
//
rootA @calculatedFrom( ""packet"" ), f32 crc `{ , }` // trailing space 
,repeat char[ 255 ] msg_type  ,}
options { u8x =	""\n"" ; }  packet trueish {repeat // a // b
i64_	,
@calculatedFrom( ""// no comment"" // trailing space 
)
    // `tick` ""quote"" 'q'
    @tag(
    // @lengthOf(
    4294967296
) repeat
matchKey { As
`
`, u8x	`it's`, Packet @lengthOf(	T )// `tick` ""quote"" 'q'
`a\`
, }
, // a // b
lengthOf packetx`" ++ [28040; 24687; 31867; 22411]%N ++ runes_of_ascii "` //	t
,  roots
{MetaDataX len ,
    zchar { match Packet
// 50% %s
// `tick` ""quote"" 'q'
as
MetaDataX {
// 50% %s
// `tick` ""quote"" 'q'
1 : // " ++ [128512]%N ++ runes_of_ascii " emoji
x_y_z 7
    :
o, 0123456789 : i64_
,}, }
,// a // b
}
, @calculatedFrom( ""// no comment"" ) repeat int16 charz`line1
line2`	, // c
@tag(
    0123456789
)
    u
`
`
    // @lengthOf(
    ,}
")).
Eval vm_compute in ("<<<M1238>>>" ++ check (runes_of_ascii "MetaData
    crc{ /// triple
}root
    packet
    uint8x
{ zchar[	10] As,MetaDataX , // 50% %s
uint64
Packet
@lengthOf(uint8x //
) ``, float32 //	t
Foo , char[0123456789] MetaDataX
    , repeat	char[]lengthOf , @lengthOf( T	) matchKey
    `two words`
    // 50% %s
    ,
} options
{ roots= string
; //
}
    packet trueish{} packet options1 { repeat uint32
BodyLength `say ""hi""`	,@leftPad
    ( // packet A { u8 x, }
'0' ) zchar // " ++ [27880; 37322]%N ++ runes_of_ascii "
pack `line1
line2` ,
    @calculatedFrom( /// triple
""a	b""
    )
i8i8 , u8x@calculatedFrom(
    """" /// triple
)
`{ , }` // " ++ [128512]%N ++ runes_of_ascii " emoji
, match Logon
    as T//	t
{ 1 : x_y_z } , match
    o	as  msg_type
{
65535
    :
    //x
    a1 42 :
    T
} ,  @tag( 3 ) repeat o // " ++ [27880; 37322]%N ++ runes_of_ascii "
x_y_z `// not a comment` // c
,
match As //x
as
//x
// c
Foo { 7 : T , } ,char[] calculatedFrom @lengthOf( metadata )	`say ""hi""` ,
} // trailing space ")).
Eval vm_compute in ("<<<M1334>>>" ++ check (runes_of_ascii "packet
x { zchar[ // " ++ [27880; 37322]%N ++ runes_of_ascii "
10]metadata @lengthOf(	tag )
// `tick` ""quote"" 'q'
// " ++ [27880; 37322]%N ++ runes_of_ascii "
, @rightPad
('0'
    ) repeat len {  repeat char[] T , int32
    // " ++ [27880; 37322]%N ++ runes_of_ascii "
    asx  @lengthOf(
msg_type )  , Logon `" ++ [233]%N ++ runes_of_ascii "` // " ++ [27880; 37322]%N ++ runes_of_ascii "
, falsey trueish`it's`
,}
, repeat int16	a1 `say ""hi""` ,
} root //	t
packet  As{ @tag(	10  )
    @calculatedFrom( ""CRC32"" )
@lengthOf(
repeatCount )  zchar[
42
    ]
f32a
    // " ++ [128512]%N ++ runes_of_ascii " emoji
    @lengthOf( tag // 50% %s
) `doc`
, match x as u8x {""" ++ [128512]%N ++ runes_of_ascii """ : stringy , """ ++ [128512]%N ++ runes_of_ascii """ :
    // 50% %s
    rootA,
    [ ""packet""
, 0] : // a // b
i8i8, [ ""`tick`""
,255 ,""\n"" , 3 ,""\n""]
:
u128
    ,[  00
// trailing space 
// `tick` ""quote"" 'q'
, ""1"" , 10,""`tick`""
    , 7 // trailing space 
,""CRC32"" ,
    0	] : Foo ,	""// no comment"" : o } , } root packet T{ @tag(
65535) char[ 42/// triple
]
    u128  @calculatedFrom( ""`tick`"" ) ,
} 	 ")).
Eval vm_compute in ("<<<M4432>>>" ++ check (runes_of_ascii "packet x {
    repeat packetx `
    `,
    Pad @calculatedFrom(""\" ++ [233]%N ++ runes_of_ascii """),
    @lengthOf(falsey)
    repeat u64 o,
    @tag(0123456789)
    Logon {
        match A as u {
            [
                1, """ ++ [233]%N ++ runes_of_ascii "t" ++ [233]%N ++ runes_of_ascii """, 4294967296, ""a	b"", 42,
                """ ++ [233]%N ++ runes_of_ascii "t" ++ [233]%N ++ runes_of_ascii """, """ ++ [233]%N ++ runes_of_ascii "t" ++ [233]%N ++ runes_of_ascii """, """ ++ [28040; 24687]%N ++ runes_of_ascii """
            ] : crc,
        },
        char[42] metadata `{ , }`,
        falsey,
        BodyLength `crlf
        line`,
    },
    @tag(65535)
    repeat zchar[1] Packet,
    @lengthOf(_x)
    uint64 o,
}

// 50% %s
//
options {
    asx = float64;
}

packet i8i8 {
    /// triple
    @calculatedFrom(""`tick`"")
    // a // b
    body {
        zchar[0] BodyLength `doc`,
        u `
        `,
    },
}

MetaData chars {
    char[42] o,// " ++ [27880; 37322]%N ++ runes_of_ascii "
    string_ As `" ++ [233]%N ++ runes_of_ascii "`,
}

MetaData Header {
    i64 matchKey,
    zchar[7] len,
}")).
Eval vm_compute in ("<<<M676>>>" ++ check (runes_of_ascii "//
MetaData pack {
    chars
    uint8x , } packet uint8x { @lengthOf( x ) uint8 float , } root // trailing space 
packet
roots { char[ 65535] BodyLength @calculatedFrom( """ ++ [128512]%N ++ runes_of_ascii """ )
, }// packet A { u8 x, }
MetaData metadata {
x_y_z Header
    `" ++ [233]%N ++ runes_of_ascii "` , i8i8 tag , // a // b
chars Z9_
`" ++ [28040; 24687; 31867; 22411]%N ++ runes_of_ascii "`
, zchar[ 10
]  metadata`it's` , rootA
    Foo, T
MetaDataX , } packet options1 { char[42
    ] falsey , @tag(
    7 )
@tag(
    7 ) @lengthOf(a1 ) zchar,match
len
as i64_ // `tick` ""quote"" 'q'
{ 10 :o
    },
repeat crc  , repeat len, u128 @lengthOf( Z9_
    )	`a\`// " ++ [27880; 37322]%N ++ runes_of_ascii "
,match tag
    as matchKey{ [ """ ++ [128512]%N ++ runes_of_ascii """ ,
    3, """ ++ [28040; 24687]%N ++ runes_of_ascii """]
: trueish , }	,
uint32 i64_ , @rightPad (
    ' ' ) @calculatedFrom(
    // " ++ [27880; 37322]%N ++ runes_of_ascii "
    ""{,}"" ) @calculatedFrom(
""a	b""
)Foo
tag `100% of %d`, }")).
Eval vm_compute in ("<<<M4468>>>" ++ check (runes_of_ascii "

  packet
    f32a

    {  match  /// triple

zchar as
	float{ 
1	:BodyLength 
,
	""CRC32""  :
int  }  , char[

007 ]zchar

    @lengthOf( 
/// triple
		Z9_  // " ++ [27880; 37322]%N ++ runes_of_ascii "
    	) `" ++ [233]%N ++ runes_of_ascii "` ,// trailing space 
    }
root  packet
options1

    {  @lengthOf(

    charz
) 
	    // c
      // @lengthOf(

  zchar[4294967296

    ]	Packet
``, 
@calculatedFrom(

""\" ++ [233]%N ++ runes_of_ascii """) @calculatedFrom(""a\""b"" )
    @tag(

4294967296 ) char

asx ,
	@lengthOf(  msg_type )@tag( 1

)

u16

leftPad `u8 x,`
	,	o{
repeat
int32

    zchar
        // " ++ [128512]%N ++ runes_of_ascii " emoji
	  ,
u128

    {
i8i8
	rootA
`a\`	//
, }
,
} 
,repeat	i8
	Logon

    `
` ,@tag( 
10
	)	@tag(

    7
    )

    repeat

a1

u128`100% of %d`,
packetx//	t
	i64_ , 
}

")).
Eval vm_compute in ("<<<M4063>>>" ++ check (runes_of_ascii "packet rootA {
    falsey @calculatedFrom(""it's""),
    chars @lengthOf(len),
    @calculatedFrom(""a\""b"")
    repeat uint8 msg_type `doc`,
}

root packet pack {
    @tag(3)
    metadata @lengthOf(string_) `tab	here`,
    string_ @calculatedFrom(""" ++ [128512]%N ++ runes_of_ascii """) `line1
        line2`,
    @lengthOf(uint8x)
    @lengthOf(tag)
    @tag(00)
    repeat uint8x {
        repeat char metadata,
        zchar[3] crc,
        u64 chars @lengthOf(u) `100% of %d`,
    },
    @lengthOf(metadata)
    // trailing space 
    @calculatedFrom(""x y"")
    @calculatedFrom("""")
    repeat float64 Logon `it's`,
}

packet uint8x {
    // trailing space 
    @tag(3)
    @tag(3)
    u32 Packet,
}
// " ++ [128512]%N ++ runes_of_ascii " emoji")).
Eval vm_compute in ("<<<M3872>>>" ++ check (runes_of_ascii "// " ++ [128512]%N ++ runes_of_ascii " emoji
packet trueish {
    u16 crc `line1
        line2`,
    // @lengthOf(
    // 50% %s
    roots,
    int {
        i64_ x_y_z,
        u8x `a\`,
        f32 A `it's`,
        // `tick` ""quote"" 'q'
    },
    calculatedFrom,
    char[] chars `{ , }`,
    zchar[10] BodyLength,
    @lengthOf(asx)
    @rightPad('\x00')
    @tag(10)
    calculatedFrom Z9_ `{ , }`,
    @lengthOf(MetaDataX)
    repeat string calculatedFrom `it's`,
    @tag(4294967296)
    packetx,
}

packet Header {
    @rightPad(' ')
    @calculatedFrom(""" ++ [28040; 24687]%N ++ runes_of_ascii """)
    repeat charz {
        repeat zchar[7] i64_ `tab	here`,
        u64 o,
        int MetaDataX `100% of %d`,
    },
}")).
Eval vm_compute in ("<<<M1362>>>" ++ check (runes_of_ascii "packet //x
trueish { // " ++ [128512]%N ++ runes_of_ascii " emoji
match // packet A { u8 x, }
falsey
    as	packetx
{ ""// no comment"" :
zchar
,
    7 :Logon// " ++ [128512]%N ++ runes_of_ascii " emoji
, [ ""// no comment""
//x
// @lengthOf(
, 65535 ,
""1"", 0	]
    : falsey[""" ++ [28040; 24687]%N ++ runes_of_ascii """//	t
, 42
, 10 ] :pack [ 007 ,
    4294967296
    ]: rootA , ""abc"" : len
}// packet A { u8 x, }
, @leftPad
    (	' '// a // b
) repeat  rootA
, char[] body
, @calculatedFrom( ""1""// " ++ [128512]%N ++ runes_of_ascii " emoji
)
match A//
as	o {""1""
    :Foo
,
}, @rightPad ( '\x00' )
BodyLength, @lengthOf( uint8x
) repeat uint32 /// triple
msg_type /// triple
,// " ++ [27880; 37322]%N ++ runes_of_ascii "
uint64 trueish `" ++ [233]%N ++ runes_of_ascii "` ,
    } packet x{ zchar[ 255] Pad @lengthOf( Logon ) , }
")).
Eval vm_compute in ("<<<M1326>>>" ++ check (runes_of_ascii "MetaData i64_	{ As asx`" ++ [28040; 24687; 31867; 22411]%N ++ runes_of_ascii "`,char
Foo ,
//	t
// " ++ [128512]%N ++ runes_of_ascii " emoji
}options {  }
// 50% %s
//
packet i8i8
    //	t
    { } root packet roots { @tag(  7
)f32 a1 `it's`,@tag( 255 )u8 Pad// c
`" ++ [233]%N ++ runes_of_ascii "` ,
//	t
// packet A { u8 x, }
@calculatedFrom(
""a	b""	) @lengthOf(
charz)@calculatedFrom(""\n"" ) pack
@lengthOf( leftPad	)	, } root packet chars
    {@lengthOf(	matchKey
)repeat
crc	,  zchar[ 7
// packet A { u8 x, }
// `tick` ""quote"" 'q'
] roots
`u8 x,` , @calculatedFrom(	""// no comment"" )
    i16 x@lengthOf(A )
, i8i8
    { string int `
`
    ,
//	t
// 50% %s
string
Packet @calculatedFrom(
""" ++ [233]%N ++ runes_of_ascii "t" ++ [233]%N ++ runes_of_ascii """ )
, },}")).
Eval vm_compute in ("<<<M1198>>>" ++ check (runes_of_ascii "packet asx
// @lengthOf(
//x
{ @tag( 65535 ) string_ @calculatedFrom( ""CRC32""
)	``
,
@calculatedFrom( ""`tick`""
)
    repeat
    int { repeat
    char[ 65535 ] Z9_ , u16 u128@lengthOf( // a // b
o// packet A { u8 x, }
) ``,}	,float64 zchar
    `a\` , //	t
@tag(
4294967296
    ) @calculatedFrom(""1"" ) @lengthOf( len
    // `tick` ""quote"" 'q'
    ) /// triple
falsey	@lengthOf( A) `say ""hi""`  ,
    } options // @lengthOf(
{Header =
    // packet A { u8 x, }
    true falsey=""" ++ [128512]%N ++ runes_of_ascii """
chars  = ""a\""b"" repeatCount =
uint64
    ; } root // c
packet
T
    // c
    { }
")).
Eval vm_compute in ("<<<M954>>>" ++ check (runes_of_ascii "MetaData asx {u8
    u128`100% of %d`
,
} root packet
packetx
    {  }
packet
options1 {@tag(  007 )  char[	0 // a // b
] lengthOf
    // trailing space 
    , char[
    4294967296 ] rootA, @tag(
/// triple
//
3 ) u @lengthOf( _x ) , i64 zchar
    @calculatedFrom( ""\n"" ) ,
lengthOf// trailing space 
int,@lengthOf(
Packet ) @lengthOf( Logon ) string f32a `tab	here` ,	repeat//x
string packetx ,
    @calculatedFrom( """ ++ [128512]%N ++ runes_of_ascii """)@calculatedFrom(	""\" ++ [233]%N ++ runes_of_ascii """)	repeat
    f32a
    // 50% %s
    calculatedFrom ,	} root
packet  len { }
// trailing space 
")).
Eval vm_compute in ("<<<M757>>>" ++ check (runes_of_ascii "  root  packet
u8x { }	MetaData metadata { chars As , float64 calculatedFrom `two words`  ,
    char[ 7
    //
    ] rootA `" ++ [28040; 24687; 31867; 22411]%N ++ runes_of_ascii "`
    ,	string _x , u // trailing space 
uint8x ,
    }  options { roots
=zchar[ 65535 ];
    // packet A { u8 x, }
    T = ""a\\"" leftPad =
00 ; BodyLength= true } root
packet
    o {@calculatedFrom(
// " ++ [128512]%N ++ runes_of_ascii " emoji
// " ++ [128512]%N ++ runes_of_ascii " emoji
""x y"" )i64 i64_ @calculatedFrom(""packet"" ) , // trailing space 
@tag( //
42
    ) string rootA @calculatedFrom(
/// triple
// packet A { u8 x, }
""" ++ [128512]%N ++ runes_of_ascii """ ) ,}packet uint8x { u128	, }")).
Eval vm_compute in ("<<<M3799>>>" ++ check (runes_of_ascii "
options {  // c1
		u  // c2
	= 
        // c3
00
// c4
    	stringy// c5

	= 
    // c6
'0' 	 // c7
    	}  // c8a
  // c8b
	packet// c9a

  // c9b
  stringy  // c10
{ // c11a
	// c11b
}
    // c12
  MetaData 	 // c13a

	// c13b

	repeatCount 	 // c14a

// c14b
    {
        // c15
	MetaDataX  
      // c16
	leftPad ,// c18a
	// c18b
  string // c19a
	// c19b
  body  // c20
		`
`// c21
	,
	    // c22
		metadata  // c23a

// c23b

options1	// c24
    ,
    // c25
} 	 // c26a
// c26b")).
Eval vm_compute in ("<<<M3784>>>" ++ check (runes_of_ascii "
root

    packet
tag  {
    repeat
    string_
    {
	lengthOf

{  //	t
	int64
	int
@lengthOf( uint8x
	)

    `
`

    ,  // trailing space 
	repeat

    zchar[  7  ] u 
// c
	,  zchar[0  //	t
      ]BodyLength

    ,// `tick` ""quote"" 'q'
} , 
} ,
	repeat	u8 Pad
`line1
line2`

// 50% %s
,
// `tick` ""quote"" 'q'
	//x
@leftPad (
' '	)
    zchar[4294967296
    ] // @lengthOf(

  repeatCount	,

repeat
options1 {
    float64
rootA @lengthOf(_x	),},
} 	 // c
")).
Eval vm_compute in ("<<<M630>>>" ++ check (runes_of_ascii "packet
leftPad {/// triple
char[]A , } packet // 50% %s
_x
{//	t
A
T , repeat char
    falsey `100% of %d` , @calculatedFrom( """") char[]body
    , As@lengthOf( asx )
`u8 x,` , Foo u128
`` ,	@lengthOf(	string_ // `tick` ""quote"" 'q'
) string a1// `tick` ""quote"" 'q'
`doc`, a1 `it's` ,@leftPad(' ' ) // packet A { u8 x, }
int8 asx, char[] uint8x,	@rightPad
(' '
// packet A { u8 x, }
// a // b
) repeat
    f64 _x
,
    /// triple
    } packet crc {	}
")).
Eval vm_compute in ("<<<M288>>>" ++ check (runes_of_ascii "packet a1 { match asx as f32a
{ 10  :	Z9_ 4294967296 :
len
// packet A { u8 x, }
// trailing space 
, ""`tick`"":repeatCount ""1""
: BodyLength  0123456789:
    As ,
},  repeatCount
leftPad
    , repeat  metadata{	repeat u chars , },
// a // b
//x
}	packet float { repeat x	x , repeat zchar[ 007
    //x
    ] i64_, u8 float
@lengthOf( string_ ),asx //
@calculatedFrom( ""\n""
    ) ,
    } options
    { trueish // @lengthOf(
= 65535
    ;}")).
Eval vm_compute in ("<<<M884>>>" ++ check (runes_of_ascii "
packet a1 {@calculatedFrom(""`tick`""	) rootA// `tick` ""quote"" 'q'
{ // c
BodyLength
// `tick` ""quote"" 'q'
// " ++ [128512]%N ++ runes_of_ascii " emoji
Z9_ , } ,
    match  Foo as int
// a // b
/// triple
{
    007
    :  x_y_z , """ ++ [128512]%N ++ runes_of_ascii """
: // `tick` ""quote"" 'q'
roots 0123456789 : // `tick` ""quote"" 'q'
uint8x,} , match A as
stringy { [ 0123456789
    ,
""CRC32""
    ]: Foo , },	@rightPad (
    '0' ) u8 Packet , u8 MetaDataX @calculatedFrom( ""`tick`""
) , }

")).
Eval vm_compute in ("<<<M140>>>" ++ check (runes_of_ascii "packet chars { @rightPad (
' ')uint8 Foo ,@lengthOf( // 50% %s
uint8x) string string_	, int16 MetaDataX ,  } packet body{ i64_ @calculatedFrom( """ ++ [128512]%N ++ runes_of_ascii """  ) `tab	here` ,repeat char[
    00 ] int `crlf
line`,	@calculatedFrom(""`tick`""
    // c
    )	i8 i8i8@calculatedFrom(	""a	b"" ) // a // b
,uint32 chars , } // " ++ [27880; 37322]%N ++ runes_of_ascii "
MetaData
// `tick` ""quote"" 'q'
// 50% %s
packetx {
calculatedFrom Header , } packet
    x_y_z	{  }")).
Eval vm_compute in ("<<<M393>>>" ++ check (runes_of_ascii "packet Logon{@calculatedFrom( ""1"" )  repeat T
trueish,
    @lengthOf( o
)	char[ 4294967296] repeatCount@lengthOf(
    i64_ ) `// not a comment`
    ,@tag(007) Logon , } MetaData asx
    { Packet leftPad, /// triple
uint64 Z9_ `// not a comment`,string metadata ,
}
packet u128 {
@tag(	007
) @calculatedFrom( """ ++ [28040; 24687]%N ++ runes_of_ascii """  )
@rightPad  (
'\x00'
    )	zchar[ 7 ] stringy`crlf
line` , } // " ++ [128512]%N ++ runes_of_ascii " emoji")).
Eval vm_compute in ("<<<M4178>>>" ++ check (runes_of_ascii "// @lengthOf(
packet Z9_ {
    @tag(7)
    @tag(10)
    @lengthOf(u)
    repeat metadata {
        repeat asx `100% of %d`,
        repeat x_y_z,
        repeat u16 Pad `" ++ [233]%N ++ runes_of_ascii "`,
        match leftPad as trueish {
            65535 : packetx,
            4294967296 : trueish,
            [""a\""b"", ""\" ++ [233]%N ++ runes_of_ascii """] : chars,
            7 : a1,
            [""" ++ [28040; 24687]%N ++ runes_of_ascii """] : falsey,
        },
    },
}")).
Eval vm_compute in ("<<<M362>>>" ++ check (runes_of_ascii "options// @lengthOf(
{ f32a= true } packet	MetaDataX { @calculatedFrom(
""" ++ [128512]%N ++ runes_of_ascii """ ) float32 lengthOf @calculatedFrom( ""\n""
) `` ,
    zchar[007 ]
    zchar //	t
@calculatedFrom( ""abc""
)  `{ , }` ,int32
    //
    roots // trailing space 
,match lengthOf as pack
    { [ ""// no comment"",	""""
,
    00
    , 0123456789 ] : leftPad
,	10 :	crc , ""{,}""
:
f32a, }
,} // c")).
Eval vm_compute in ("<<<M4354>>>" ++ check (runes_of_ascii "root packet roots {
    repeat uint8x {
        uint32 int `tab	here`,
        match zchar as calculatedFrom {
            [
                007, 0, 7, ""a\""b"", 0123456789,
                """ ++ [233]%N ++ runes_of_ascii "t" ++ [233]%N ++ runes_of_ascii """, 4294967296, ""1""
            ] : o,
        },
    },
    char uint8x `{ , }`,
}

packet rootA {
    @lengthOf(o)
    char _x,// " ++ [27880; 37322]%N ++ runes_of_ascii "
    u64 i8i8 `
    `,
}")).
Eval vm_compute in ("<<<M73>>>" ++ check (runes_of_ascii "root packet
    rootA { char[ 4294967296
] _x
    `say ""hi""` , repeat
    // " ++ [128512]%N ++ runes_of_ascii " emoji
    chars  i64_ // packet A { u8 x, }
,
@lengthOf(// " ++ [27880; 37322]%N ++ runes_of_ascii "
stringy //	t
)
// `tick` ""quote"" 'q'
//x
@lengthOf( chars
) repeat
char[] rootA
    ,
    // trailing space 
    float@lengthOf( zchar)
    `u8 x,` // a // b
, @calculatedFrom( ""a	b"" )
A,}
")).
Eval vm_compute in ("<<<M4361>>>" ++ check (runes_of_ascii "packet MetaDataX {
    @tag(10)
    i8 asx `crlf
        line`,
    @lengthOf(crc)
    match x_y_z as Foo {
        00 : u8x,
    },
    @tag(4294967296)
    int16 x_y_z,
    repeat int32 trueish,
    @calculatedFrom(""x y"")
    repeat u32 matchKey,
    repeat uint8x BodyLength `it's`,
    repeat i64 _x `100% of %d`,
}")).
Eval vm_compute in ("<<<M1100>>>" ++ check (runes_of_ascii "root  packet// c
chars { match//	t
MetaDataX as options1
{
    //
    [ 3 , 0123456789 ] : rootA 00	: Pad
,}
    ,
@lengthOf(
i8i8
) @tag( 255
)match /// triple
matchKey as asx
    {3 : A ,	42 :	Header	65535 :i64_  ,
7 : u8x }
    , @calculatedFrom( ""a\\"" )	@lengthOf( crc)uint8
i8i8 @lengthOf( f32a  ) ,}")).
Eval vm_compute in ("<<<M1251>>>" ++ check (runes_of_ascii "
packet
string_ { @calculatedFrom(""" ++ [128512]%N ++ runes_of_ascii """) match charz
as calculatedFrom { 7: charz //x
,// 50% %s
}
    // 50% %s
    , @lengthOf(  Z9_ // trailing space 
) uint16 calculatedFrom
,
match
// " ++ [27880; 37322]%N ++ runes_of_ascii "
// a // b
body as chars
{""""	: // " ++ [128512]%N ++ runes_of_ascii " emoji
lengthOf 255 : Z9_,
[ 0123456789]// " ++ [128512]%N ++ runes_of_ascii " emoji
:
    asx, }	,
}")).
Eval vm_compute in ("<<<M2044>>>" ++ check (runes_of_ascii "packet	packetx { // trailing space 
x_y_z
{
string
charz ,
string x// @lengthOf(
`two words`
    ,  u8x { // `tick` ""quote"" 'q'
charz `100% of %d` // packet A { u8 x, }
,}// " ++ [27880; 37322]%N ++ runes_of_ascii "
,} , }
    // a // b
    packet metadata {  @leftPad ( '0') repeat i32 options1 ,u64 uint8x , @leftpad }
")).
Eval vm_compute in ("<<<M1904>>>" ++ check (runes_of_ascii "packet	packetx { // trailing space 
x_y_z
{
string
charz ,
string x// @lengthOf(
`two words`
    int32  u8x { // `tick` ""quote"" 'q'
charz `100% of %d` // packet A { u8 x, }
,}// " ++ [27880; 37322]%N ++ runes_of_ascii "
,} , }
    // a // b
    packet metadata {  @leftPad ( '0') repeat i32 options1 ,u64 uint8x , }
")).
Eval vm_compute in ("<<<M1967>>>" ++ check (runes_of_ascii "packet	packetx { // trailing space 
x_y_z
{
string
charz ,
string x// @lengthOf(
`two words`
    ,  u8x { // `tick` ""quote"" 'q'
charz `100% of %d` // packet A { u8 x, }
,}// " ++ [27880; 37322]%N ++ runes_of_ascii "
,} , }
    // a // b
    packet metadata { {  @leftPad ( '0') repeat i32 options1 ,u64 uint8x , }
")).
Eval vm_compute in ("<<<M1898>>>" ++ check (runes_of_ascii "packet	packetx { // trailing space 
x_y_z
{
string
charz ,
string x// @lengthOf(
,
    `two words`  u8x { // `tick` ""quote"" 'q'
charz `100% of %d` // packet A { u8 x, }
,}// " ++ [27880; 37322]%N ++ runes_of_ascii "
,} , }
    // a // b
    packet metadata {  @leftPad ( '0') repeat i32 options1 ,u64 uint8x , }
")).
Eval vm_compute in ("<<<M4311>>>" ++ check (runes_of_ascii "options {
    // packet A { u8 x, }
}

options {
    uint8x = uint64;
    int = u64;
    tag = 007;
    int = 255;
    metadata = '\x00'
}

MetaData asx {
    u8 options1 ``,
    char charz `a\`,
    string_ Packet `
        `,
    uint8 As,//
    Logon As `it's`,
    u32 As,
}")).
Eval vm_compute in ("<<<M1964>>>" ++ check (runes_of_ascii "packet	packetx { // trailing space 
x_y_z
{
string
charz ,
string x// @lengthOf(
`two words`
    ,  u8x { // `tick` ""quote"" 'q'
charz `100% of %d` // packet A { u8 x, }
,}// " ++ [27880; 37322]%N ++ runes_of_ascii "
,} , }
    // a // b
    packet int32 {  @leftPad ( '0') repeat i32 options1 ,u64 uint8x , }
")).
Eval vm_compute in ("<<<M2049>>>" ++ check (runes_of_ascii "packet	packetx { // trailing space 
x_y_z
{
string
charz ,
string x// @lengthOf(
`two words`
    ,  u8x { // `tick` ""quote"" 'q'
charz `100% of %d` // packet A { u8 x, }
,}// " ++ [27880; 37322]%N ++ runes_of_ascii "
,} , }
    // a // b
    packet x" ++ [178]%N ++ runes_of_ascii " {  @leftPad ( '0') repeat i32 options1 ,u64 uint8x , }
")).
Eval vm_compute in ("<<<M2075>>>" ++ check (runes_of_ascii "packet// packet A { u8 x, }
repeatCount	{// packet A { u8 x, }
@leftPad ( '\x00' '\x00'
) repeat u8x MetaDataX `crlf
line`,
    repeat
    char[] MetaDataX
    ,
u64	uint8x@calculatedFrom(""a\""b""
// c
// packet A { u8 x, }
) `tab	here`
,//
}MetaData pack
    {
    }
")).
Eval vm_compute in ("<<<M4064>>>" ++ check (runes_of_ascii "packet Logon {
    @calculatedFrom(""x y"")
    @rightPad(' ')
    @lengthOf(crc)
    // `tick` ""quote"" 'q'
    i16 stringy @calculatedFrom(""`tick`""),
    match a1 as a1 {
        [0, 42] : falsey,
        1 : rootA,
        """ ++ [233]%N ++ runes_of_ascii "t" ++ [233]%N ++ runes_of_ascii """ : packetx,
        10 : x,
    },
}")).
Eval vm_compute in ("<<<M3592>>>" ++ check (runes_of_ascii "packet P1 {
    u8 a,
}

packet P2 {
    P1,
}

packet P3 {
    P2,
    P1,
}

packet P4 {
    repeat P3,
    P2,
}

root packet P5 {
    P4,
    P3,
    P1,
    u8 K,
    match K as Body {
        4 : P4,
        3 : P3,
        2 : P2,
        1 : P1,
    },
}")).
Eval vm_compute in ("<<<M2101>>>" ++ check (runes_of_ascii "packet// packet A { u8 x, }
repeatCount	{// packet A { u8 x, }
@leftPad ( '\x00'
) repeat u8x MetaDataX ,`crlf
line`
    repeat
    char[] MetaDataX
    ,
u64	uint8x@calculatedFrom(""a\""b""
// c
// packet A { u8 x, }
) `tab	here`
,//
}MetaData pack
    {
    }
")).
Eval vm_compute in ("<<<M2184>>>" ++ check (runes_of_ascii "packet// packet A { u8 x, }
repeatCount	{// packet A { u8 x, }
@leftPad ( '\x00'
) repeat u8x MetaDataX `crlf
line`,
    repeat
    char[] MetaDataX
    ,
u64	uint8x@calculatedFrom(""a\""b""
// c
// packet A { u8 x, }
) `tab	here`
,//
}MetaData pack
    {
    
")).
Eval vm_compute in ("<<<M2051>>>" ++ check (runes_of_ascii "// packet A { u8 x, }
repeatCount	{// packet A { u8 x, }
@leftPad ( '\x00'
) repeat u8x MetaDataX `crlf
line`,
    repeat
    char[] MetaDataX
    ,
u64	uint8x@calculatedFrom(""a\""b""
// c
// packet A { u8 x, }
) `tab	here`
,//
}MetaData pack
    {
    }
")).
Eval vm_compute in ("<<<M2169>>>" ++ check (runes_of_ascii "packet// packet A { u8 x, }
repeatCount	{// packet A { u8 x, }
@leftPad ( '\x00'
) repeat u8x MetaDataX `crlf
line`,
    repeat
    char[] MetaDataX
    ,
u64	uint8x@calculatedFrom(""a\""b""
// c
// packet A { u8 x, }
) `tab	here`
,//
} pack
    {
    }
")).
Eval vm_compute in ("<<<M1564>>>" ++ check (runes_of_ascii "packet calculatedFrom
{ @calculatedFrom( ""a\\"" ) zchar[ 4294967296 ]
calculatedFrom@lengthOf( pack )	`100% of %d` ,char[]body@calculatedFrom( ""// no comment"" )  ,
@tag( 007) //x
int8
leftPad`it's` , repeat pack
    { { repeat char[ 3] body
,},
}")).
Eval vm_compute in ("<<<M1632>>>" ++ check (runes_of_ascii "packet calculatedFrom
{ @calculatedFrom( ""a\\"" ) zchar[ 4294967296 ]
calculatedFrom@lengthOf( na" ++ [239]%N ++ runes_of_ascii "ve )	`100% of %d` ,char[]body@calculatedFrom( ""// no comment"" )  ,
@tag( 007) //x
int8
leftPad`it's` , repeat pack
    { repeat char[ 3] body
,},
}")).
Eval vm_compute in ("<<<M1525>>>" ++ check (runes_of_ascii "packet calculatedFrom
{ @calculatedFrom( ""a\\"" ) zchar[ 4294967296 ]
calculatedFrom@lengthOf( pack )	`100% of %d` ,char[]body@calculatedFrom( ""// no comment"" )  ,
@tag( )007 //x
int8
leftPad`it's` , repeat pack
    { repeat char[ 3] body
,},
}")).
Eval vm_compute in ("<<<M1583>>>" ++ check (runes_of_ascii "packet calculatedFrom
{ @calculatedFrom( ""a\\"" ) zchar[ 4294967296 ]
calculatedFrom@lengthOf( pack )	`100% of %d` ,char[]body@calculatedFrom( ""// no comment"" )  ,
@tag( 007) //x
int8
leftPad`it's` , repeat pack
    { repeat char[ 3 body
,},
}")).
Eval vm_compute in ("<<<M1446>>>" ++ check (runes_of_ascii "packet calculatedFrom
{ @calculatedFrom( ""a\\"" ) { 4294967296 ]
calculatedFrom@lengthOf( pack )	`100% of %d` ,char[]body@calculatedFrom( ""// no comment"" )  ,
@tag( 007) //x
int8
leftPad`it's` , repeat pack
    { repeat char[ 3] body
,},
}")).
Eval vm_compute in ("<<<M3313>>>" ++ check (runes_of_ascii "// top
MetaData // c0
float // c1
{ // c2
uint8 // c3
BodyLength // c4
, // c5
} // c6
MetaData // c7
charz // c8
{ // c9
float32 // c10
trueish // c11
`a\` // c12
, // c13
i16 // c14
metadata // c15
`say ""hi""` // c16
, // c17
} // c18
")).
Eval vm_compute in ("<<<M286>>>" ++ check (runes_of_ascii "packet
    BodyLength {
}
    MetaData stringy {
    // `tick` ""quote"" 'q'
    Z9_
packetx// c
`a\` , uint32
    Packet// 50% %s
`tab	here` , zchar[
0123456789 ] float , stringy
x_y_z `say ""hi""`
,  char[] u128	`crlf
line`  ,}
")).
Eval vm_compute in ("<<<M448>>>" ++ check (runes_of_ascii "packet
//
//
x_y_z { uint64 i64_ , }
// " ++ [27880; 37322]%N ++ runes_of_ascii "
// " ++ [128512]%N ++ runes_of_ascii " emoji
packet //x
A {  @lengthOf( // a // b
chars)
@rightPad
(  '0'
) a1	i8i8 // @lengthOf(
,
    }MetaData As { }
packet body {	@lengthOf(
    Logon ) string f32a , }")).
Eval vm_compute in ("<<<M3520>>>" ++ check (runes_of_ascii "packet Logon {
    string user,
}
root packet Frame {
    u8 K,
    match K as Body {
        1 : Logon,
        2 : Logout,
    },
    Tail,
}
packet Logout {
    u16 reason,
}
packet Tail {
    u32 crc,
}
")).
Eval vm_compute in ("<<<M3659>>>" ++ check (runes_of_ascii "
// top
  	packet  // c0a
	  // c0b
      o 	 // c1a
    // c1b

  {
    // c2
	  @tag(4294967296

    )
options1
    // c6

	@lengthOf(  // c7
	u8x 
      // c8
	) // c9
	  `" ++ [233]%N ++ runes_of_ascii "`
,	// c11
}

")).
Eval vm_compute in ("<<<M643>>>" ++ check (runes_of_ascii "
packet a1 {	x { char[]u128@calculatedFrom( ""`tick`""
    // @lengthOf(
    ) ,
trueish
`it's` , uint64
    As
@lengthOf( falsey )
, string Logon
@calculatedFrom( ""CRC32"" )  `it's` , }
, }")).
Eval vm_compute in ("<<<M1950>>>" ++ check (runes_of_ascii "packet	packetx { // trailing space 
x_y_z
{
string
charz ,
string x// @lengthOf(
`two words`
    ,  u8x { // `tick` ""quote"" 'q'
charz `100% of %d` // packet A { u8 x, }
,}// " ++ [27880; 37322]%N ++ runes_of_ascii "
,}")).
Eval vm_compute in ("<<<M4452>>>" ++ check (runes_of_ascii "root
	packet T  {
@calculatedFrom(
""" ++ [28040; 24687]%N ++ runes_of_ascii """
	) int8	Pad, 
repeat u16 int

`// not a comment`
	, u16
	int 
	    // a // b
	`a\` 
    // " ++ [128512]%N ++ runes_of_ascii " emoji
  	/// triple
	, /// triple
		}

")).
Eval vm_compute in ("<<<M1790>>>" ++ check (runes_of_ascii "options { } packet Packet{char[] i64_ ,
@tag(
    255) match
crc as i8i8{""{,}"" : trueish """" : Pad , ""a\\"" :
Foo ,
    1 :packetx
@calculatedFrom( """ ++ [128512]%N ++ runes_of_ascii """ : trueish , } , }")).
Eval vm_compute in ("<<<M124>>>" ++ check (runes_of_ascii "root packet i64_ { f32 string_ `// not a comment` , } options { msg_type//x
=
    ""// no comment""
    ; // 50% %s
matchKey// 50% %s
=
    ""packet""
; /// triple
}
")).
Eval vm_compute in ("<<<M1132>>>" ++ check (runes_of_ascii "root packet
roots { zchar[
    //
    7]
chars@lengthOf(
i8i8 )	`two words` , int32 BodyLength `// not a comment`, } MetaData
    Z9_ { }
// trailing space 
")).
Eval vm_compute in ("<<<M2396>>>" ++ check (runes_of_ascii "
packet MetaDataX
{
    @leftPad
( // a // b
'0'
) i8 u @lengthOf(
MetaDataX
    ) ) `say ""hi""` ,	} MetaData BodyLength {
    asx
x_y_z `" ++ [233]%N ++ runes_of_ascii "`
, uint64 u128 , }
")).
Eval vm_compute in ("<<<M1660>>>" ++ check (runes_of_ascii "options { } packet Packet as char[] i64_ ,
@tag(
    255) match
crc as i8i8{""{,}"" : trueish """" : Pad , ""a\\"" :
Foo ,
    1 :packetx
, """ ++ [128512]%N ++ runes_of_ascii """ : trueish , } , }")).
Eval vm_compute in ("<<<M1688>>>" ++ check (runes_of_ascii "options { } packet Packet{char[] i64_ ,
@tag(
    255) ) match
crc as i8i8{""{,}"" : trueish """" : Pad , ""a\\"" :
Foo ,
    1 :packetx
, """ ++ [128512]%N ++ runes_of_ascii """ : trueish , } , }")).
Eval vm_compute in ("<<<M3866>>>" ++ check (runes_of_ascii "packet A {
    match k as n {
        [
            1, 22, 007, 4, 5,
            66, 7, 8, 9, 10,
            11, 12
        ] : B,
        2 : C,
    },
}")).
Eval vm_compute in ("<<<M1650>>>" ++ check (runes_of_ascii "options { } Packet packet{char[] i64_ ,
@tag(
    255) match
crc as i8i8{""{,}"" : trueish """" : Pad , ""a\\"" :
Foo ,
    1 :packetx
, """ ++ [128512]%N ++ runes_of_ascii """ : trueish , } , }")).
Eval vm_compute in ("<<<M1804>>>" ++ check (runes_of_ascii "options { } packet Packet{char[] i64_ ,
@tag(
    255) match
crc as i8i8{""{,}"" : trueish """" : Pad , ""a\\"" :
Foo ,
    1 :packetx
, """ ++ [128512]%N ++ runes_of_ascii """ : , trueish } , }")).
Eval vm_compute in ("<<<M1817>>>" ++ check (runes_of_ascii "options { } packet Packet{char[] i64_ ,
@tag(
    255) match
crc as i8i8{""{,}"" : trueish """" : Pad , ""a\\"" :
Foo ,
    1 :packetx
, """ ++ [128512]%N ++ runes_of_ascii """ : trueish , }  }")).
Eval vm_compute in ("<<<M1248>>>" ++ check (runes_of_ascii "MetaData zchar
    { u16 // packet A { u8 x, }
packetx  `" ++ [28040; 24687; 31867; 22411]%N ++ runes_of_ascii "` ,
metadata
rootA, string trueish
`` , }// a // b
root packet
    Foo { }
// @lengthOf(
")).
Eval vm_compute in ("<<<M2393>>>" ++ check (runes_of_ascii "
packet MetaDataX
{
    @leftPad
( // a // b
'0'
) i8 u @lengthOf(
MetaDataX
    ) `say ""hi""` ,	} MetaData x" ++ [178]%N ++ runes_of_ascii " {
    asx
x_y_z `" ++ [233]%N ++ runes_of_ascii "`
, uint64 u128 , }
")).
Eval vm_compute in ("<<<M4413>>>" ++ check (runes_of_ascii "MetaData matchKey {
    //x
    char[] Packet,
    _x x_y_z,
    string_ matchKey `" ++ [233]%N ++ runes_of_ascii "`,
}

packet len {
    Foo {
        u @lengthOf(a1),
    },
}")).
Eval vm_compute in ("<<<M4153>>>" ++ check (runes_of_ascii "root packet T {
    string zchar,
    zchar[3] stringy,// 50% %s
}

packet rootA {
    u {
        repeatCount @lengthOf(o) `" ++ [28040; 24687; 31867; 22411]%N ++ runes_of_ascii "`,
    },
}")).
Eval vm_compute in ("<<<M1801>>>" ++ check (runes_of_ascii "options { } packet Packet{char[] i64_ ,
@tag(
    255) match
crc as i8i8{""{,}"" : trueish """" : Pad , ""a\\"" :
Foo ,
    1 :packetx
, """ ++ [128512]%N ++ runes_of_ascii """")).
Eval vm_compute in ("<<<M330>>>" ++ check (runes_of_ascii "MetaData T { zchar[4294967296 ]
calculatedFrom	, } options	{ trueish= ""packet"" ;
// `tick` ""quote"" 'q'
// @lengthOf(
u = """ ++ [28040; 24687]%N ++ runes_of_ascii """; } //x")).
Eval vm_compute in ("<<<M4380>>>" ++ check (runes_of_ascii "MetaData metadata {
    u128 f32a,
    i16 _x,
    float64 rootA `" ++ [28040; 24687; 31867; 22411]%N ++ runes_of_ascii "`,
    pack u,/// triple
    u32 Z9_,
    u16 float,
}// c")).
Eval vm_compute in ("<<<M3272>>>" ++ check (runes_of_ascii "MetaData metadata { } MetaData rootA // c
{ i8 i64_ , roots options1 `a\` , lengthOf Header , Z9_ Foo , int16 BodyLength , }")).
Eval vm_compute in ("<<<M3304>>>" ++ check (runes_of_ascii "MetaData metadata { } MetaData rootA { i8 i64_ , roots options1 `a\` , lengthOf Header , Z9_ Foo , int16 BodyLength // c
, }")).
Eval vm_compute in ("<<<M3801>>>" ++ check (runes_of_ascii "MetaData float {
    uint8 BodyLength,
}

MetaData charz {
    float32 trueish `a\`,
    i16 metadata `say ""hi""`,// c
}")).
Eval vm_compute in ("<<<M12>>>" ++ check (runes_of_ascii "
root packet metadata { u16
    len
@lengthOf( //x
As) `crlf
line`,// trailing space 
uint8 u8x `crlf
line` ,}")).
Eval vm_compute in ("<<<M420>>>" ++ check (runes_of_ascii "packet charz { roots //
@calculatedFrom(
    ""a\\"" ) `a\` , @tag(
7
)
len string_ , // a // b
} // @lengthOf(")).
Eval vm_compute in ("<<<M3343>>>" ++ check (runes_of_ascii "MetaData float { uint8 BodyLength , } MetaData charz { float32 trueish `a\`
// c
, i16 metadata `say ""hi""` , }")).
Eval vm_compute in ("<<<M944>>>" ++ check (runes_of_ascii "packet options1
{ repeat char[4294967296  ] //
i64_
, string
repeatCount `
`
    , } // packet A { u8 x, }")).
Eval vm_compute in ("<<<M3080>>>" ++ check (runes_of_ascii "packet A {
    u16 len @lengthOf(body) `%`,
    u32 crc @calculatedFrom(""CRC32"") `%`,
    string body,
}")).
Eval vm_compute in ("<<<M1082>>>" ++ check (runes_of_ascii "  packet// trailing space 
x_y_z	{
    trueish
    @lengthOf(
roots
// c
// packet A { u8 x, }
) , }
")).
Eval vm_compute in ("<<<M3006>>>" ++ check (runes_of_ascii "packet A {
  match k as n {
    [1, 22, ""c c"", 4, 5, ""f"", 7, 8, ""i"", 10, 11] : B,
    2 : C
  },
}")).
Eval vm_compute in ("<<<M4246>>>" ++ check (runes_of_ascii "MetaData	_x {	f64 charz
`tab	here`,
    }  // c
  	options
	{

    BodyLength
=

""" ++ [233]%N ++ runes_of_ascii "t" ++ [233]%N ++ runes_of_ascii """ ;
}

")).
Eval vm_compute in ("<<<M1741>>>" ++ check (runes_of_ascii "options { } packet Packet{char[] i64_ ,
@tag(
    255) match
crc as i8i8{""{,}"" : trueish """"")).
Eval vm_compute in ("<<<M1223>>>" ++ check (runes_of_ascii "root packet As
    {
    // trailing space 
    @calculatedFrom( ""1"" ) //x
body
len ,
}
")).
Eval vm_compute in ("<<<M2279>>>" ++ check (runes_of_ascii "MetaData _x {string x `// not a comment` , string
i64_ // trailing space 
" ++ [8232]%N ++ runes_of_ascii "`a\` ,
    }
")).
Eval vm_compute in ("<<<M2256>>>" ++ check (runes_of_ascii "MetaData _x {string x `// not a comment` , string
i64_ // trailing space 
, `a\`
    }
")).
Eval vm_compute in ("<<<M4079>>>" ++ check (runes_of_ascii "  packet A	{ 
match k
as n {[
""a""
    , 22
,	""c c""

, 
4
    ]:	B  2 
:

C
}

,

}

")).
Eval vm_compute in ("<<<M3676>>>" ++ check (runes_of_ascii "packet  rootA{
} packet
	zchar{ float64
	a1

    @calculatedFrom( ""{,}""

)
    ,}")).
Eval vm_compute in ("<<<M2267>>>" ++ check (runes_of_ascii "MetaData _x {string x `// not a comment` , string
i64_ // trailing space 
`a\` ,")).
Eval vm_compute in ("<<<M258>>>" ++ check (runes_of_ascii "
options {_x	=
true int
    = true ;Packet
= float32
    ; A
    =
    10 ; }
")).
Eval vm_compute in ("<<<M2870>>>" ++ check (runes_of_ascii "( @leftPad uint64 [ , @calculatedFrom( char } char[] : ] @tag( MetaData @tag(")).
Eval vm_compute in ("<<<M3376>>>" ++ check (runes_of_ascii "MetaData _x { f64 charz `tab	here` , // c
} options { BodyLength = """ ++ [233]%N ++ runes_of_ascii "t" ++ [233]%N ++ runes_of_ascii """ ; }")).
Eval vm_compute in ("<<<M1716>>>" ++ check (runes_of_ascii "options { } packet Packet{char[] i64_ ,
@tag(
    255) match
crc as i8i8")).
Eval vm_compute in ("<<<M1398>>>" ++ check (runes_of_ascii "packet
string_{ @tag( 10 )
u16 u8x @lengthOf(
uint8x ) `crlf
line`,}
")).
Eval vm_compute in ("<<<M3477>>>" ++ check (runes_of_ascii "root packet P {
    u16 a,
    u32 Sum @calculatedFrom(""CR\
C32""),
}
")).
Eval vm_compute in ("<<<M3422>>>" ++ check (runes_of_ascii "packet o { @tag( 4294967296 ) options1 @lengthOf( u8x ) `" ++ [233]%N ++ runes_of_ascii "` // c
, }")).
Eval vm_compute in ("<<<M2818>>>" ++ check (runes_of_ascii "@calculatedFrom( root float64 : f32 f64 ] = match ( @leftPad uint8")).
Eval vm_compute in ("<<<M4544>>>" ++ check (runes_of_ascii "packet metadata {
    // " ++ [27880; 37322]%N ++ runes_of_ascii "
    uint8x @lengthOf(len) `{ , }`,
}")).
Eval vm_compute in ("<<<M2932>>>" ++ check (runes_of_ascii "packet A { Inner { match k as n { [1,22,007,4,5] : B, }, }, }")).
Eval vm_compute in ("<<<M1170>>>" ++ check (runes_of_ascii "//	t
MetaData charz { Packet BodyLength `line1
line2` , }
")).
Eval vm_compute in ("<<<M3687>>>" ++ check (runes_of_ascii "MetaData M {
    u8 x `d`,
    y z `e`,
    char[3] w,
}")).
Eval vm_compute in ("<<<M847>>>" ++ check (runes_of_ascii "/// triple
options {charz=
false
; }	packet Logon	{ }")).
Eval vm_compute in ("<<<M2348>>>" ++ check (runes_of_ascii "
MetaData caf" ++ [233]%N ++ runes_of_ascii "_1{
u32 rootA `line1
line2` ,
    }
")).
Eval vm_compute in ("<<<M2335>>>" ++ check (runes_of_ascii "
MetaData Pad{
u32 rootA `line1
line2` ,
    " ++ [0]%N ++ runes_of_ascii "}
")).
Eval vm_compute in ("<<<M4136>>>" ++ check (runes_of_ascii "MetaData Foo {
    msg_type roots `two words`,
}")).
Eval vm_compute in ("<<<M2033>>>" ++ check (runes_of_ascii "packet	packetx { // trailing space 
x_y_z
{")).
Eval vm_compute in ("<<<M2308>>>" ++ check (runes_of_ascii "
MetaData Pad{
u32  `line1
line2` ,
    }
")).
Eval vm_compute in ("<<<M3040>>>" ++ check (runes_of_ascii "MetaData M {
    u8 x `
`,
    T t `
`,
}")).
Eval vm_compute in ("<<<M3244>>>" ++ check (runes_of_ascii "MetaData zchar { zchar[ 3 ]
// c
Pad , }")).
Eval vm_compute in ("<<<M4515>>>" ++ check (runes_of_ascii "  packet  A
	{
u8

x `d" ++ [5760]%N ++ runes_of_ascii "`,  // c" ++ [5760]%N ++ runes_of_ascii "
	} ")).
Eval vm_compute in ("<<<M2866>>>" ++ check (runes_of_ascii "@rightPad ; as ( float32 uint16 true")).
Eval vm_compute in ("<<<M595>>>" ++ check (runes_of_ascii "MetaData chars{ Pad BodyLength , }")).
Eval vm_compute in ("<<<M2859>>>" ++ check (runes_of_ascii "true { repeat MetaData ; ""packet""")).
Eval vm_compute in ("<<<M3066>>>" ++ check (runes_of_ascii "packet A {
    u8 x `tab
	x`,
}")).
Eval vm_compute in ("<<<M2465>>>" ++ check (runes_of_ascii "f32 f64 float32 float64 float")).
Eval vm_compute in ("<<<M2618>>>" ++ check (runes_of_ascii "packet A { B { u8 x, } C, }")).
Eval vm_compute in ("<<<M3078>>>" ++ check (runes_of_ascii "packet A {
    u8 x `%`,
}")).
Eval vm_compute in ("<<<M2600>>>" ++ check (runes_of_ascii "packet A { char[ 3 ] , }")).
Eval vm_compute in ("<<<M2804>>>" ++ check ([65533; 65533]%N ++ runes_of_ascii "K" ++ [29; 65533]%N ++ runes_of_ascii "EK" ++ [65533; 65533]%N ++ runes_of_ascii ":j}GX" ++ [8; 65533; 65533; 7; 65533; 65533]%N ++ runes_of_ascii "q" ++ [65533]%N)).
Eval vm_compute in ("<<<M2740>>>" ++ check (runes_of_ascii "<" ++ [65533; 65533]%N ++ runes_of_ascii "|" ++ [24; 65533; 65533; 65533; 1; 65533]%N ++ runes_of_ascii """" ++ [65533]%N ++ runes_of_ascii "u" ++ [65533; 1597; 65533; 65533; 65533; 65533; 22]%N)).
Eval vm_compute in ("<<<M3623>>>" ++ check (runes_of_ascii "packet lengthOf {
}")).
Eval vm_compute in ("<<<M3154>>>" ++ check (runes_of_ascii "packet A {
}
// c" ++ [8287]%N)).
Eval vm_compute in ("<<<M2666>>>" ++ check (runes_of_ascii "MetaData M { x, }")).
Eval vm_compute in ("<<<M2512>>>" ++ check (runes_of_ascii "@calculatedFrom(")).
Eval vm_compute in ("<<<M1860>>>" ++ check (runes_of_ascii "packet	packetx")).
Eval vm_compute in ("<<<M2672>>>" ++ check (runes_of_ascii "MetaData { }")).
Eval vm_compute in ("<<<M4337>>>" ++ check (runes_of_ascii "

  //	t
")).
Eval vm_compute in ("<<<M2448>>>" ++ check (runes_of_ascii "char[]x")).
Eval vm_compute in ("<<<M2532>>>" ++ check (runes_of_ascii """a\
b""")).
Eval vm_compute in ("<<<M3108>>>" ++ check (runes_of_ascii "// c" ++ [12288]%N)).
Eval vm_compute in ("<<<M2545>>>" ++ check (runes_of_ascii "12ab")).
Eval vm_compute in ("<<<M2548>>>" ++ check (runes_of_ascii "1 2")).
Eval vm_compute in ("<<<M2557>>>" ++ check (runes_of_ascii "1_")).
Eval vm_compute in ("<<<M2829>>>" ++ check (runes_of_ascii "X")).
