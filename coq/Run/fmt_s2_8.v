From FP Require Import Lexer Parser ShowPT Digest Formatter.
From Coq Require Import String List NArith.
Import ListNotations.
Open Scope string_scope.
Set Printing Width 100000000.
Set Printing Depth 100000000.
Definition show_fres (r : fres) : string :=
  match r with
  | FOk s => "OK:" ++ sh_escaped s ""
  | FErr s => "ERR:" ++ sh_escaped s ""
  | FPanic p => "PANIC:" ++ p
  end.
Definition check (rs : list rune) : string := digest (show_fres (format_res rs)).
Definition full (rs : list rune) : string := show_fres (format_res rs).
Eval vm_compute in ("<<<M1310>>>" ++ check (runes_of_ascii "
packet Packet	{ char[7
] rootA @lengthOf(// `tick` ""quote"" 'q'
msg_type // trailing space 
)`tab	here`
, @lengthOf( msg_type
)
    falsey Header `tab	here` , match u8x as options1
{ [ 42, ""1"", ""{,}"" ]: BodyLength , [ 1
, // c
""CRC32"" , 0 ,
    007] : u	[// " ++ [27880; 37322]%N ++ runes_of_ascii "
"""" ,
// " ++ [27880; 37322]%N ++ runes_of_ascii "
// @lengthOf(
""a\\""
// " ++ [128512]%N ++ runes_of_ascii " emoji
// a // b
,
""" ++ [233]%N ++ runes_of_ascii "t" ++ [233]%N ++ runes_of_ascii """ ,7 ,
""abc"",  """", 10 ,  ""abc""]
    : metadata
    , ""1"" :x_y_z
    , ""x y"" :Packet }
    ,
lengthOf {// trailing space 
match
repeatCount as
Packet
{007 : Z9_ ,[ 65535
, 65535 ] :msg_type
,""{,}""  : tag ,
}, repeat x
msg_type, f32 Logon , } ,
zchar[ 0
]
    //x
    As
    ,
@tag(
    42 //	t
)@calculatedFrom(
""\n"") f64 u128 @calculatedFrom( """ ++ [28040; 24687]%N ++ runes_of_ascii """ ) ,rootA ,
    chars
    u128
, zchar {i64//	t
i64_ ,
    int32 i64_ @calculatedFrom(
    ""// no comment""
) ,
    falsey	`doc`  ,	}
, @leftPad ( '0' ) char packetx  @calculatedFrom( ""\n"" ) // packet A { u8 x, }
`say ""hi""` , }
packet roots { @calculatedFrom( ""a\\""
    ) chars @calculatedFrom(
    ""\n"" )`a\` ,
    @calculatedFrom( ""CRC32"" )
char[ // `tick` ""quote"" 'q'
65535
]roots
,	@tag( 7 )  Logon u8x `{ , }`,match Foo
    as // " ++ [128512]%N ++ runes_of_ascii " emoji
Logon  {
    ""`tick`""// a // b
: uint8x,
    """"
    : leftPad /// triple
, 3 :
    leftPad ,
1 : options1, } ,@lengthOf(uint8x
    ) @leftPad ( '\x00' )
    @rightPad	(
    )
u128
``,
rootA { //x
match len as
    float { 42
    : trueish
    , ""`tick`"" :Packet
//x
// @lengthOf(
, 0123456789// a // b
:
    //
    As
, ""CRC32""
: Header,
} ,
repeat string Z9_
    `say ""hi""` , } , //	t
@rightPad (
' ') @lengthOf( repeatCount )i32 _x
    `
` , match
    // a // b
    Header
as crc {	007 :	Z9_[ 4294967296
    ,
4294967296
    ] : crc ,
    10
    :A
,  [
4294967296 , 3 ,
7	, 42, 1
    ,  7] : _x ,1 : uint8x
}
    , i8i8{ stringy
@lengthOf( _x
) `
` ,
    } ,
    } packet repeatCount{
@tag(	0)@calculatedFrom(""a\\"" )repeat
    u32 T`
`,matchKey pack, // `tick` ""quote"" 'q'
options1 {// trailing space 
match asx as
o {
    ""{,}"" : lengthOf,""a	b"" : lengthOf,10  :
    calculatedFrom } ,
    // a // b
    i8i8 ,Pad@calculatedFrom( // @lengthOf(
""{,}""
    ) `// not a comment`  ,},
    @tag(
0123456789 ) // " ++ [27880; 37322]%N ++ runes_of_ascii "
repeat int , uint32 asx	`a\` , } root
    packet trueish {
zchar[ 7 ] i64_ , } packet chars /// triple
{ @rightPad(
) //	t
repeat char[255] lengthOf
`line1
line2`	, }
")).
Eval vm_compute in ("<<<M956>>>" ++ check (runes_of_ascii "packet o { crc
{ string leftPad
@calculatedFrom(
""\n"" ) /// triple
`it's` , uint16
x_y_z ,Logon,
    string crc
    @lengthOf( crc // a // b
) ,} ,
    @calculatedFrom( //x
"""" ) u64
matchKey `` , match  leftPad as len {00
: //x
charz, }
    , @tag(
007 ) @tag( 65535 )
// a // b
//	t
repeat
// packet A { u8 x, }
//x
stringy crc, @lengthOf(
f32a)match tag  as leftPad{ ""1""
:// " ++ [128512]%N ++ runes_of_ascii " emoji
_x
    ,
// trailing space 
//x
} , roots { tag
    , float64 body , // packet A { u8 x, }
f64 As
@lengthOf( // trailing space 
tag)
`line1
line2`,
} , i64_ @calculatedFrom(
    // trailing space 
    ""x y"" // `tick` ""quote"" 'q'
) , // " ++ [128512]%N ++ runes_of_ascii " emoji
Packet @calculatedFrom(
""\n""), @lengthOf(
    BodyLength)
char[ 42
    // a // b
    ]int @lengthOf( lengthOf ) `say ""hi""` ,
} MetaData u{ f64 msg_type , uint8
As `say ""hi""`, leftPad
packetx
, int32 As // " ++ [27880; 37322]%N ++ runes_of_ascii "
`tab	here`,	i64 trueish	, uint16
    calculatedFrom ,} packet
f32a{ roots x_y_z , match body as  f32a
// @lengthOf(
//	t
{ [ 255, 10
]
// packet A { u8 x, }
// `tick` ""quote"" 'q'
: BodyLength , ""// no comment""
    :
packetx
    , [ ""{,}"" , 65535 ,
4294967296
, 255
, 7
, //x
""{,}"" // a // b
,"""" ,0 ]
: uint8x 255 : trueish , 7 : u128
    ,0123456789 :
    asx , } , // " ++ [128512]%N ++ runes_of_ascii " emoji
match
    //	t
    A as  o {  0
:
    trueish // `tick` ""quote"" 'q'
,""1""
: i8i8 , 42 : Z9_ ,
    }
    , options1  , @tag(	0123456789 )repeat
    /// triple
    zchar { Foo
    @lengthOf( float), /// triple
}// c
, match msg_type as u{// packet A { u8 x, }
0123456789
:
    repeatCount,
    } , @calculatedFrom( ""it's"" )i64_ @lengthOf( x_y_z  )
, char[  00
    ]Packet `" ++ [28040; 24687; 31867; 22411]%N ++ runes_of_ascii "` ,u16 // @lengthOf(
lengthOf `a\` ,
@calculatedFrom( ""\" ++ [233]%N ++ runes_of_ascii """) i64_ int , } packet uint8x{ string Header @lengthOf(matchKey )	`" ++ [28040; 24687; 31867; 22411]%N ++ runes_of_ascii "`
,}
    packet
crc {
// " ++ [128512]%N ++ runes_of_ascii " emoji
// `tick` ""quote"" 'q'
}
")).
Eval vm_compute in ("<<<M156>>>" ++ check (runes_of_ascii "packet  zchar
    { char[]  string_ ,
    // @lengthOf(
    msg_type , match
    roots // " ++ [27880; 37322]%N ++ runes_of_ascii "
as metadata { 3: Logon
, [""a\\"",""1"" , 3 ,
00
    , ""a\\"" ,7, 65535 , 3 ]
    :x_y_z
    , 0123456789 : o , ""\" ++ [233]%N ++ runes_of_ascii """ : x ""CRC32"" :
Foo,
    }, char Header`u8 x,` ,
    } //	t
options	{
    } packet
    //	t
    As{zchar[
    // @lengthOf(
    10	] roots ,
    char[7 ]
calculatedFrom //
@lengthOf( body ), char stringy	@lengthOf(metadata /// triple
) ,
Pad // trailing space 
u128 , @calculatedFrom( ""it's"") Z9_ ,  match
falsey	as /// triple
MetaDataX
    { 4294967296 : float,//x
3 :
    Pad 1
:T,} /// triple
,
    @tag(
3 ) char[]
A @calculatedFrom( ""it's""
) ,  o tag ,
@lengthOf( x // packet A { u8 x, }
) zchar[ 4294967296
    ]
    rootA // @lengthOf(
`
` , } root packet Logon {	repeat _x {leftPad  `crlf
line` ,
}
    , repeat i8 Packet  , MetaDataX`// not a comment`// " ++ [27880; 37322]%N ++ runes_of_ascii "
, asx`two words` ,
repeat lengthOf tag , @calculatedFrom( // `tick` ""quote"" 'q'
""CRC32"" ) // @lengthOf(
match repeatCount// packet A { u8 x, }
as
BodyLength { """ ++ [128512]%N ++ runes_of_ascii """ : len
[
    255
, ""a\\"", 0123456789 , ""CRC32"", // " ++ [128512]%N ++ runes_of_ascii " emoji
7, 42
    // a // b
    ]
: repeatCount
,
},
i64_ msg_type `crlf
line` , }
packet repeatCount{
    @calculatedFrom(
""a\""b"" )
    match
a1 as
    matchKey// packet A { u8 x, }
{00 : options1,
    4294967296
    : x_y_z , [3 ,
""a	b"" ,0123456789
] : i64_ ,
0 : leftPad ,""`tick`"" :int [""" ++ [28040; 24687]%N ++ runes_of_ascii """ // @lengthOf(
]
// trailing space 
/// triple
: Z9_, }
    , }
")).
Eval vm_compute in ("<<<M1271>>>" ++ check (runes_of_ascii "//	t
root	packet T { i8 //
roots, @lengthOf( Pad
    )
    @calculatedFrom( // @lengthOf(
""a	b"") @rightPad ('0' )
float @calculatedFrom( // " ++ [128512]%N ++ runes_of_ascii " emoji
""" ++ [28040; 24687]%N ++ runes_of_ascii """//	t
) `{ , }` ,	@lengthOf(	roots )
repeat
    tag {match
i8i8
    as packetx{
// a // b
/// triple
[""// no comment"" ] //x
: // " ++ [128512]%N ++ runes_of_ascii " emoji
packetx ,""\" ++ [233]%N ++ runes_of_ascii """  :  i8i8 ,""a\\"" : //x
Packet
    ,
    // packet A { u8 x, }
    00
/// triple
// @lengthOf(
: a1 ,
    ""1"" :
Foo
// a // b
// packet A { u8 x, }
, ""\" ++ [233]%N ++ runes_of_ascii """ :	rootA, }//
,
    uint8x
matchKey // " ++ [27880; 37322]%N ++ runes_of_ascii "
`two words`
,
char[ 0123456789 ]  i8i8, }	,  @lengthOf( calculatedFrom
    //x
    )
Foo a1 , @lengthOf( pack ) zchar[ 3  ]
trueish , } root packet o { /// triple
}	root packet // " ++ [128512]%N ++ runes_of_ascii " emoji
tag // `tick` ""quote"" 'q'
{// c
@lengthOf(A	)
uint16 i64_
    `it's`
    , // a // b
repeat roots{
string stringy
    ,
    match _x as int { 7
:// packet A { u8 x, }
leftPad , 65535  :lengthOf,
7 : Foo , ""a\\""
    //	t
    : float , 255
:
    leftPad
    007 :u128 ,} ,MetaDataX
@lengthOf(
leftPad ) , lengthOf @calculatedFrom( ""`tick`"" )
,}
, @rightPad
() @lengthOf( f32a )	zchar[ 00 ]  T // packet A { u8 x, }
@calculatedFrom(
""a\""b"" ) ,  repeat  Pad{ zchar[ 0 ]
msg_type`say ""hi""`// " ++ [27880; 37322]%N ++ runes_of_ascii "
,} , u64
    string_ @lengthOf(
    // packet A { u8 x, }
    T	)  `line1
line2`
    ,
    // packet A { u8 x, }
    }
")).
Eval vm_compute in ("<<<M4352>>>" ++ check (runes_of_ascii "packet BodyLength {
    match As as x {
        [""a	b"", ""it's"", 0] : float,
        42 : u128,
        ""a\\"" : BodyLength,
        0 : Packet,
        //	t
        //
        ""\" ++ [233]%N ++ runes_of_ascii """ : roots,
        ""\n"" : string_,
    },
    msg_type {
        char[4294967296] options1,
    },
    i8i8 {
        i64_ {
            match A as zchar {
                [
                    65535, """ ++ [128512]%N ++ runes_of_ascii """, ""`tick`"", ""x y"", ""a\""b"",
                    0, """ ++ [128512]%N ++ runes_of_ascii """, 42
                ] : float,
                ""a	b"" : Pad,
                007 : repeatCount,
                // " ++ [128512]%N ++ runes_of_ascii " emoji
            },
            //
            uint64 Z9_ `" ++ [233]%N ++ runes_of_ascii "`,
            crc,
        },/// triple
        repeat char[255] uint8x,
        uint32 pack @calculatedFrom(""{,}""),
    },
    @calculatedFrom(""a	b"")
    tag @lengthOf(Packet) `" ++ [233]%N ++ runes_of_ascii "`,
}

root packet lengthOf {
    i32 x,
    match i64_ as Logon {
        3 : rootA,
        [4294967296] : Packet,
        [""a	b"", ""{,}""] : calculatedFrom,
        [
            """ ++ [28040; 24687]%N ++ runes_of_ascii """, 0123456789, ""a	b"", 42, 255,
            ""\" ++ [233]%N ++ runes_of_ascii """
        ] : msg_type,
    },
    @lengthOf(Header)
    repeat float {
        string asx,
    },
    match string_ as u {
        """ ++ [233]%N ++ runes_of_ascii "t" ++ [233]%N ++ runes_of_ascii """ : uint8x,
    },
}

packet _x {
    char[] _x ``,
}")).
Eval vm_compute in ("<<<M929>>>" ++ check (runes_of_ascii "packet	string_ // packet A { u8 x, }
{ @lengthOf( x_y_z// " ++ [128512]%N ++ runes_of_ascii " emoji
) u8x // @lengthOf(
@lengthOf( MetaDataX
) , match u128 as calculatedFrom
    { ""// no comment"" :
    Foo } ,@tag(
255	)f32a body , f64 i64_
`two words`	, @tag( 7  ) @leftPad (
)
// c
// a // b
@calculatedFrom( """ ++ [233]%N ++ runes_of_ascii "t" ++ [233]%N ++ runes_of_ascii """ ) uint16 u @lengthOf( i64_	) `tab	here` , @lengthOf( options1 )
    roots {
string
    x@calculatedFrom( ""1""	)
,
len
`say ""hi""` ,
    rootA @lengthOf( crc )
    //	t
    , i64_ @lengthOf( Logon )
    // trailing space 
    `doc` , }
//
//
, Packet @calculatedFrom( ""abc"" )
,	@tag( 7
) @lengthOf( crc )match crc  as Z9_{42
    : u128 10: Packet
    ,
    ""packet"" : repeatCount[ """ ++ [128512]%N ++ runes_of_ascii """
, ""abc""// " ++ [27880; 37322]%N ++ runes_of_ascii "
] : u8x[
    ""a\""b"" /// triple
, 42
]:  rootA
,
[ 007
, ""1"" ,
    //	t
    """ ++ [233]%N ++ runes_of_ascii "t" ++ [233]%N ++ runes_of_ascii """ ] : chars
    ,
    }
    , }	root  packet	u {
    @calculatedFrom( ""CRC32"") _x
@calculatedFrom(""\" ++ [233]%N ++ runes_of_ascii """), calculatedFrom lengthOf  ,@rightPad
    (	)uint32 zchar
@calculatedFrom( """ ++ [233]%N ++ runes_of_ascii "t" ++ [233]%N ++ runes_of_ascii """) , A,
    } root packet int{
// `tick` ""quote"" 'q'
// `tick` ""quote"" 'q'
char stringy `a\` , // trailing space 
}
    options {Z9_//	t
= ""abc"";crc = ' '
; matchKey
= 00
    ;}
")).
Eval vm_compute in ("<<<M739>>>" ++ check (runes_of_ascii "MetaData	roots {
//
// " ++ [27880; 37322]%N ++ runes_of_ascii "
char[ //x
00 ]
    i8i8 // @lengthOf(
,
uint32
    metadata
`tab	here`// a // b
, } options  {
Header
/// triple
// a // b
=
    true metadata
=
    false Logon //x
=	42 ; T =
    // c
    '\x00'Header
    =// packet A { u8 x, }
""\" ++ [233]%N ++ runes_of_ascii """
} root // trailing space 
packet // c
uint8x
    {char[]// @lengthOf(
A`" ++ [233]%N ++ runes_of_ascii "`
    ,@tag( 65535
    ) uint32 i8i8 ,
@rightPad( '0'
    ) zchar[
// c
// " ++ [27880; 37322]%N ++ runes_of_ascii "
0123456789 ]leftPad ,float32 leftPad , @tag(
// a // b
// `tick` ""quote"" 'q'
42) @leftPad
(
)
    /// triple
    @tag( 0
) string
    f32a, @tag( 3
) char[
42]
MetaDataX ,string repeatCount @lengthOf( Foo)`tab	here` ,	@lengthOf(A)repeat roots { repeat len stringy`it's` ,A { zchar[ 42
] u128  @calculatedFrom( ""CRC32"" ) , } , char[]
u128 , // " ++ [128512]%N ++ runes_of_ascii " emoji
}  , @lengthOf(Z9_) u ,
// c
// " ++ [128512]%N ++ runes_of_ascii " emoji
}	MetaData
/// triple
//
len { float64 u8x ,
char[]
    //
    Header , char[ 65535 ] chars`{ , }` ,
}MetaData
Pad {
roots
a1 , i64 // `tick` ""quote"" 'q'
u128
    ,
    char[  255 ]	rootA , u16	packetx, i32 MetaDataX , u8 stringy
    , }

")).
Eval vm_compute in ("<<<M694>>>" ++ check (runes_of_ascii "packet Logon { @leftPad('0' )
    @calculatedFrom(	""CRC32"" )
match x_y_z as calculatedFrom
    {[
// trailing space 
// " ++ [128512]%N ++ runes_of_ascii " emoji
65535 ,
10 ]
:asx 0 :	BodyLength
,}
//
// a // b
, @lengthOf(	metadata
    )int16 leftPad , match charz
as i8i8 { [
    65535// a // b
] :
    repeatCount , ""CRC32""  : Packet
    ,
""a\""b""
: Z9_ , 00 :
    falsey , 7 :falsey ,
}
, // " ++ [27880; 37322]%N ++ runes_of_ascii "
@lengthOf( body  )
i32 i8i8
`two words`,
    @calculatedFrom( ""`tick`"") body
    { zchar[ 0 ]BodyLength `doc`
    ,  u
`
` , } ,@tag( 0123456789 ) @leftPad ( '\x00'  )@calculatedFrom(""a	b"" )
    match As as x_y_z	{ """ ++ [128512]%N ++ runes_of_ascii """ :
i64_, 0123456789:
Foo
,
65535  :matchKey , 65535 :lengthOf 4294967296 // a // b
:
    f32a
, },
zchar[
0] string_ @lengthOf( packetx ) `" ++ [233]%N ++ runes_of_ascii "`
,@calculatedFrom( ""x y"" )
    BodyLength { char[1 ] int,
f32a
    , repeat Pad	tag `say ""hi""` ,  } ,
    //x
    zchar[
    // `tick` ""quote"" 'q'
    0 ]
    Foo
@calculatedFrom(
""// no comment""
) ,
@tag( 00 ) u16 roots `it's`
,	}
root packet roots
{
    }
")).
Eval vm_compute in ("<<<M3971>>>" ++ check (runes_of_ascii "MetaData o {
    char[255] BodyLength,
}

packet crc {
    @tag(7)
    calculatedFrom @lengthOf(Header),
    len {
        float {
            i32 T,
            stringy string_,
            char[65535] Packet @lengthOf(a1) ``,
            falsey {
                u16 Logon `{ , }`,
            },
        },
        repeat falsey,
        repeat u8 Logon,
    },
    zchar[65535] lengthOf @lengthOf(asx) `line1
    line2`,
    @rightPad('0')
    int16 f32a,
    @rightPad('\x00')
    char[] len `" ++ [28040; 24687; 31867; 22411]%N ++ runes_of_ascii "`,
    match string_ as string_ {
        [""a\\"", 10, 007, 0123456789] : As,
        [""`tick`""] : metadata,
        ""\n"" : falsey,
        // `tick` ""quote"" 'q'
        [3, """ ++ [233]%N ++ runes_of_ascii "t" ++ [233]%N ++ runes_of_ascii """, ""CRC32""] : lengthOf,
        00 : x_y_z,
    },
    packetx {
        repeat a1 `it's`,
        stringy `{ , }`,
        match T as MetaDataX {
            ""CRC32"" : lengthOf,
        },
    },
}

MetaData tag {
    //x
}

packet Z9_ {
    i16 rootA `
    `,//	t
}")).
Eval vm_compute in ("<<<M583>>>" ++ check (runes_of_ascii "root packet crc  { repeat zchar[ 3
    // trailing space 
    ] Header`u8 x,` ,  @leftPad( ' ' )
char[]
    string_ `say ""hi""` ,
    @tag(
4294967296) repeat  f32a {
    MetaDataX { repeat u f32a
    // trailing space 
    ,  }
,
    } , char[ 3 ]	repeatCount //x
`it's`,	@tag( 255) Packet `u8 x,`
, @rightPad
    ( // a // b
) int32	i64_ `` ,@tag( 4294967296)i8
    o`{ , }`
    ,
    @tag(4294967296 ) @calculatedFrom(""a\""b""
) char[] trueish ,
@lengthOf(u8x )i8i8
    { metadata zchar ,
repeat a1 {	Header , }
,//
As
{ match Z9_ as matchKey {
    ""packet""	:calculatedFrom , [ // @lengthOf(
4294967296 , """ ++ [233]%N ++ runes_of_ascii "t" ++ [233]%N ++ runes_of_ascii """ , ""`tick`"" , 65535
    , """ ++ [28040; 24687]%N ++ runes_of_ascii """ ,""// no comment"" ,  65535] : trueish
    ,},
    repeat metadata	{ repeat _x body `
`	,  chars
    MetaDataX `crlf
line`
    , uint16 // trailing space 
u8x	@lengthOf(	As) `
`  , }//	t
, uint8
    /// triple
    f32a ,
},
    }
, char[] Logon
, }
")).
Eval vm_compute in ("<<<M974>>>" ++ check (runes_of_ascii "packet len { repeat char[ 0 ]
leftPad`{ , }` ,
@calculatedFrom( ""abc"" )  zchar[	65535
    ]Z9_ @lengthOf( tag)
`tab	here` , match
u128 as packetx { [ ""it's"" ,
""\" ++ [233]%N ++ runes_of_ascii """
    ]:o , ""\n""
:
    int  ""a\""b"" // a // b
: As,
""{,}"" : chars
42 : T""1"" : packetx /// triple
,}, x Pad
    , int8 Pad
`a\` ,
chars a1
    , char[ 0 ]
Z9_@calculatedFrom( ""// no comment"" )
    `" ++ [28040; 24687; 31867; 22411]%N ++ runes_of_ascii "`  ,  }
    packet x_y_z	{ repeat
    //	t
    stringy x_y_z , }root
packet charz { } // " ++ [128512]%N ++ runes_of_ascii " emoji
root packet	x{ _x msg_type
,@tag(
    0123456789
) i64  body
    `two words`
, @rightPad (
    // a // b
    '\x00'
    )
@lengthOf(charz)
//x
// @lengthOf(
zchar[
    0123456789 ] stringy,repeat Packet
    stringy , repeat A`tab	here` ,	@tag( 0)
match asx as Pad {	[
3,
""" ++ [233]%N ++ runes_of_ascii "t" ++ [233]%N ++ runes_of_ascii """ , ""\n"" ,"""",
    1
, 1
]: Packet 42
    // c
    : roots //	t
},} options	{float
    = true ;	} /// triple")).
Eval vm_compute in ("<<<M759>>>" ++ check (runes_of_ascii "// @lengthOf(
MetaData
uint8x{ char[	42
] packetx
    ,} packet
len {
}MetaData	Logon
{
    matchKey u128 `
`
,
    string
MetaDataX`" ++ [233]%N ++ runes_of_ascii "` , }	MetaData
//
//	t
rootA {
u32 i8i8 , }
root packet i64_// `tick` ""quote"" 'q'
{ u32
    calculatedFrom
// trailing space 
/// triple
,	@tag(10)@rightPad
    ( ) @leftPad(
' ' ) uint16
// c
// " ++ [128512]%N ++ runes_of_ascii " emoji
rootA ,
@lengthOf(
    //x
    Pad
)
    pack @calculatedFrom(	""x y"") `it's`
    , uint8 matchKey ,@tag(
1 // " ++ [128512]%N ++ runes_of_ascii " emoji
) match Pad as  calculatedFrom
    {
[ ""\n"" ,
7,  1 , """ ++ [233]%N ++ runes_of_ascii "t" ++ [233]%N ++ runes_of_ascii """ ] :len
    00:Packet, } ,@lengthOf( string_
    // @lengthOf(
    )match matchKey as MetaDataX {
[ ""`tick`""
, 42 ,
""x y"" ,
""" ++ [233]%N ++ runes_of_ascii "t" ++ [233]%N ++ runes_of_ascii """ ,
4294967296 ]
    : o // packet A { u8 x, }
,
}
    , uint8
charz
    @calculatedFrom( ""a	b"") ,
    @calculatedFrom( ""a\""b"") repeat
    u8x {pack , } ,
}
")).
Eval vm_compute in ("<<<M708>>>" ++ check (runes_of_ascii "  packet roots {
    @calculatedFrom(
    ""CRC32"" // " ++ [128512]%N ++ runes_of_ascii " emoji
) @tag(
    42
    )  Z9_ leftPad `line1
line2`
, @lengthOf( string_) @lengthOf(
Packet )	@calculatedFrom(  ""// no comment""
    )
repeat
chars len , @tag( //x
42 )
@tag( 3 )u8 u128 @lengthOf(	A
) , char T ,@lengthOf(
    charz )// `tick` ""quote"" 'q'
zchar lengthOf, repeat zchar[ 00 ] A
    ,char[ 4294967296 ] leftPad
`u8 x,` , @tag( 4294967296
    ) @tag(
    //	t
    007)
    repeat char[
    65535 ]
float
// packet A { u8 x, }
//
`two words`
    , } packet crc {msg_type @lengthOf(chars	) , string//	t
chars
@lengthOf(
u128 ) ,int64 Header ,match lengthOf//	t
as pack { [ 255
,
""packet"" ]
// c
// " ++ [27880; 37322]%N ++ runes_of_ascii "
:i64_// packet A { u8 x, }
,//x
1: u }
, trueish @lengthOf( packetx
) , charz @lengthOf( packetx), }
")).
Eval vm_compute in ("<<<M4494>>>" ++ check (runes_of_ascii "packet pack {
    @lengthOf(charz)
    repeat int64 x_y_z,
    @calculatedFrom(""abc"")
    Z9_ {
        options1 @lengthOf(i64_),
        string stringy `tab	here`,
    },
    @rightPad()
    chars uint8x `" ++ [233]%N ++ runes_of_ascii "`,
    @tag(1)
    match asx as string_ {
        00 : Header,
        [
            42, 1, ""\" ++ [233]%N ++ runes_of_ascii """, """ ++ [233]%N ++ runes_of_ascii "t" ++ [233]%N ++ runes_of_ascii """, 255,
            """ ++ [128512]%N ++ runes_of_ascii """
        ] : chars,
        // trailing space 
        """ ++ [28040; 24687]%N ++ runes_of_ascii """ : rootA,
        [
            0123456789, 4294967296, ""x y"", 7, ""\" ++ [233]%N ++ runes_of_ascii """,
            10, ""{,}"", 1
        ] : lengthOf,
    },
    @calculatedFrom(""packet"")
    zchar[65535] Foo `two words`,
    repeat zchar[255] msg_type,
    @lengthOf(rootA)
    char x @lengthOf(x_y_z),
    @tag(255)
    @calculatedFrom(""{,}"")
    int64 Packet `
    `,
    Foo,
}")).
Eval vm_compute in ("<<<M592>>>" ++ check (runes_of_ascii "options
{ len=int8 /// triple
Header
= '0' ; } packet
options1 { @calculatedFrom( ""{,}"" ) repeat//
body , } packet uint8x {  repeat int8 f32a
,} packet	As {
    match	u128 as
    o { 0  :
    len ,
    // c
    }, @calculatedFrom( """" )  zchar // @lengthOf(
As , zchar[00] u8x	, @lengthOf(u8x )match	stringy as o
    { [
    ""1"" , ""\" ++ [233]%N ++ runes_of_ascii """ ]// " ++ [128512]%N ++ runes_of_ascii " emoji
: repeatCount ,  [ 7,
    // " ++ [27880; 37322]%N ++ runes_of_ascii "
    3
, ""1""
, 007
, ""\n"" , 0]
    : metadata,//	t
""it's"" : o
,  00
    : roots
, 4294967296 :
    uint8x  , } , @calculatedFrom(""it's""
)
@tag(3 ) int @lengthOf( int ) , char[] asx @calculatedFrom( ""a\""b"" ) `a\` , int16	charz,
    //	t
    string x_y_z@lengthOf( int	) `a\`
    , i64 o
,} root
    packet zchar { }
")).
Eval vm_compute in ("<<<M3875>>>" ++ check (runes_of_ascii "packet As {
    @lengthOf(chars)
    @leftPad(' ')
    string leftPad @lengthOf(_x),
    @tag(00)
    match A as falsey {
        // `tick` ""quote"" 'q'
        0 : i64_,
        [
            ""x y"", ""a\""b"", ""it's"", ""x y"", 007,
            ""a	b""
        ] : roots,
        65535 : stringy,
    },
    zchar[4294967296] string_ `it's`,
    int16 Logon `it's`,
    @calculatedFrom(""" ++ [233]%N ++ runes_of_ascii "t" ++ [233]%N ++ runes_of_ascii """)
    repeat char[] stringy `a\`,
    repeat char[3] crc,
    @lengthOf(msg_type)
    x {
        u8x int `two words`,
        i8i8 _x `
                `,
        int8 Logon @lengthOf(Pad),
    },
    @tag(1)
    i64 string_ @calculatedFrom(""\" ++ [233]%N ++ runes_of_ascii """),// packet A { u8 x, }
    char[] Foo,
}")).
Eval vm_compute in ("<<<M419>>>" ++ check (runes_of_ascii "// `tick` ""quote"" 'q'
packet
    A {
// `tick` ""quote"" 'q'
// c
repeat lengthOf // " ++ [128512]%N ++ runes_of_ascii " emoji
{ As
metadata,match pack as// @lengthOf(
As {[ 7 ]://x
int
,""it's"" : i64_ ,""a\""b"": // " ++ [27880; 37322]%N ++ runes_of_ascii "
string_ ,
    [ 00 , 4294967296 , ""{,}"" , """ ++ [233]%N ++ runes_of_ascii "t" ++ [233]%N ++ runes_of_ascii """ ,
""" ++ [233]%N ++ runes_of_ascii "t" ++ [233]%N ++ runes_of_ascii """
, ""abc"",
1
, 1]
: Pad
    // @lengthOf(
    } , leftPad x
// @lengthOf(
//x
`" ++ [28040; 24687; 31867; 22411]%N ++ runes_of_ascii "` ,
char[ 65535
    ]metadata ,}
    ,
}packet	a1 {
} packet//x
pack
{ int {i64_  x_y_z,// " ++ [128512]%N ++ runes_of_ascii " emoji
u8x `say ""hi""` ,f32 A
    `u8 x,`  ,} ,
}
    root packet falsey { @tag( 255) repeat float64
Logon
    ,
float64
Foo @lengthOf( float )  , } options{ matchKey
    // packet A { u8 x, }
    = char[] ; tag =' ' ; i64_=
""1"" }
")).
Eval vm_compute in ("<<<M1015>>>" ++ check (runes_of_ascii "packet asx	{ options1 @calculatedFrom(
    """ ++ [128512]%N ++ runes_of_ascii """ )
,A // " ++ [128512]%N ++ runes_of_ascii " emoji
u, char[ 1 ]body,
} MetaData u // a // b
{
    zchar[ // packet A { u8 x, }
1 // @lengthOf(
]	options1 ,
    } packet falsey {repeat
Foo { zchar[4294967296 // " ++ [27880; 37322]%N ++ runes_of_ascii "
]  charz
@lengthOf(
    roots )
// @lengthOf(
//	t
,} //	t
, float , @lengthOf(	u8x )
    @calculatedFrom(
    ""{,}"" ) @leftPad	( '0'
)repeat	u128
    MetaDataX  `u8 x,` , @tag( 255 )@rightPad // a // b
()
    repeat calculatedFrom{ repeat string f32a // trailing space 
, match
// " ++ [27880; 37322]%N ++ runes_of_ascii "
// " ++ [128512]%N ++ runes_of_ascii " emoji
_x as x {""a	b""
    : A , }, float32 zchar `
` , string string_//x
`line1
line2` , } ,
}
")).
Eval vm_compute in ("<<<M3912>>>" ++ check (runes_of_ascii "packet	// a // b
      u8x {	// a // b
	len
{
    o
roots

    ,match

string_  // c
as

    repeatCount 
{
    [
	""`tick`"" ,  """ ++ [128512]%N ++ runes_of_ascii """	,  // " ++ [128512]%N ++ runes_of_ascii " emoji
  7 ,""" ++ [233]%N ++ runes_of_ascii "t" ++ [233]%N ++ runes_of_ascii """ ,
10 ,
	""packet""

    ,
""\" ++ [233]%N ++ runes_of_ascii """]

    : roots	,
	[  10
,	1] :	leftPad , } ,
    // c
  	// c
  u T  // packet A { u8 x, }
	,	zchar[ 3  // a // b
		]
	float`" ++ [28040; 24687; 31867; 22411]%N ++ runes_of_ascii "`
,
},}
MetaData
	asx	{ zchar[	10

]
BodyLength , roots

tag
	,  }  MetaData zchar { uint64 chars 
`" ++ [28040; 24687; 31867; 22411]%N ++ runes_of_ascii "`
    ,char[]  Logon
, Packet o
	`crlf
line`,  falsey
float
,
	// @lengthOf(
    char[]
	uint8x

,int

    A

    `it's`,

    } ")).
Eval vm_compute in ("<<<M539>>>" ++ check (runes_of_ascii "
root
packet
packetx {
charz `" ++ [233]%N ++ runes_of_ascii "`
    // " ++ [27880; 37322]%N ++ runes_of_ascii "
    , float64 x @calculatedFrom( ""// no comment""
)
    `{ , }`
// packet A { u8 x, }
/// triple
,
}
packet crc{ }packet x {
@tag(10)@rightPad ('\x00' ) repeat uint32 Z9_
    `
`, @lengthOf(
rootA ) @calculatedFrom(
    // @lengthOf(
    ""{,}"" // " ++ [128512]%N ++ runes_of_ascii " emoji
)
    stringy // c
``, @leftPad ( '0'
    )
@lengthOf( i64_ ) @lengthOf( zchar	) repeat zchar[0123456789]body,
//	t
// @lengthOf(
@rightPad (	)
    @lengthOf( leftPad )
@leftPad (  '\x00' )string
zchar // @lengthOf(
@lengthOf( T ) , } //	t")).
Eval vm_compute in ("<<<M4478>>>" ++ check (runes_of_ascii "packet u8x {
    match BodyLength as string_ {
        // c
        ""\" ++ [233]%N ++ runes_of_ascii """ : zchar,
    },
}

packet metadata {
    // `tick` ""quote"" 'q'
    @tag(0123456789)
    /// triple
    @leftPad('\x00')
    repeat char[] trueish,
    repeat metadata {
        char[] float `line1
                line2`,
        char[00] T,
        uint8x {
            repeat len string_ `doc`,
        },
        options1 @lengthOf(T) `say ""hi""`,
    },
    @calculatedFrom(""CRC32"")
    uint16 BodyLength @calculatedFrom(""" ++ [28040; 24687]%N ++ runes_of_ascii """),
}//	t")).
Eval vm_compute in ("<<<M3814>>>" ++ check (runes_of_ascii "root packet roots {
}

packet As {
    @calculatedFrom(""" ++ [28040; 24687]%N ++ runes_of_ascii """)
    i16 msg_type `" ++ [28040; 24687; 31867; 22411]%N ++ runes_of_ascii "`,
    repeat repeatCount {
        repeat pack msg_type `crlf
                line`,//
        match repeatCount as _x {
            ""`tick`"" : trueish,
            // c
            [""\n"", 65535, 255, ""abc"", 0123456789] : options1,
        },//x
    },
}

// trailing space 
//
MetaData x_y_z {
    options1 chars,
    int32 leftPad `{ , }`,
    string i64_ `say ""hi""`,
    int32 BodyLength `a\`,
}")).
Eval vm_compute in ("<<<M3934>>>" ++ check (runes_of_ascii "packet f32a {
}

packet trueish {
    @rightPad()
    rootA @lengthOf(Pad),
    @tag(0)
    Logon @lengthOf(trueish),
    As `
        `,
    repeat int8 Logon,
    @tag(255)
    // `tick` ""quote"" 'q'
    char A,
    i64 Header,
    match Z9_ as falsey {
        65535 : x_y_z,
        ""CRC32"" : float,
    },
    i8 len,
    @tag(7)
    // `tick` ""quote"" 'q'
    repeat rootA x_y_z,
    @tag(00)
    zchar[007] x_y_z `a\`,
}

MetaData roots {
}// `tick` ""quote"" 'q'")).
Eval vm_compute in ("<<<M1158>>>" ++ check (runes_of_ascii "packet// a // b
crc {@rightPad ( '0') int@calculatedFrom(""\n"" ) ,
o// trailing space 
, Header
`say ""hi""`	, @lengthOf( asx
// " ++ [27880; 37322]%N ++ runes_of_ascii "
//
)
    // c
    repeat packetx
{  match uint8x
    as o { 65535 /// triple
:
    _x// trailing space 
42 : x,  }, } ,repeat x_y_z	, char[ 00 ] crc@lengthOf(
    Z9_
)
    , u8x
    {uint32
float
    `" ++ [28040; 24687; 31867; 22411]%N ++ runes_of_ascii "`
, string_
    `
`, zchar[ 65535] u , falsey
    @lengthOf( MetaDataX) ,
    //
    } ,string A `two words`  , }")).
Eval vm_compute in ("<<<M129>>>" ++ check (runes_of_ascii "root packet options1
{ @lengthOf(	msg_type ) Logon @lengthOf( packetx )`
` , As  {
repeat	T
`
`
    ,float64 Foo	`crlf
line`
//x
// a // b
,repeat repeatCount x_y_z`a\` ,	int8 msg_type
,
    } , // `tick` ""quote"" 'q'
msg_type @lengthOf( body ) , u64 rootA @calculatedFrom(
""" ++ [128512]%N ++ runes_of_ascii """
    ) ,@calculatedFrom(""packet""	) i32
    Header ,	uint32 BodyLength @lengthOf(
trueish //x
)
, @lengthOf(
f32a ) f32
    Z9_ `{ , }`, } // a // b")).
Eval vm_compute in ("<<<M863>>>" ++ check (runes_of_ascii "packet // " ++ [27880; 37322]%N ++ runes_of_ascii "
u8x{  u64
    metadata `a\`,  @tag(  65535 ) @rightPad(
    )	repeat
int16 As
    , @rightPad ( )
match	lengthOf as body {7 :
// @lengthOf(
// @lengthOf(
chars	,  [ 255 ,
""// no comment"" ,
    //x
    0123456789
,""\n""
    , 7 ,	""a	b"" ] :
    x_y_z , ""abc"":
metadata
} , } packet
    lengthOf{char[] // " ++ [128512]%N ++ runes_of_ascii " emoji
As
@calculatedFrom(	""a\\"" )
// " ++ [128512]%N ++ runes_of_ascii " emoji
// `tick` ""quote"" 'q'
`a\`
    //
    , }
// c
")).
Eval vm_compute in ("<<<M905>>>" ++ check (runes_of_ascii "options{ Foo
    // " ++ [27880; 37322]%N ++ runes_of_ascii "
    = ' ' ; //
calculatedFrom =
'\x00' ; Logon//x
= 0 //
x=
    '\x00' ; // packet A { u8 x, }
} packet
    _x	{
@calculatedFrom( """ ++ [28040; 24687]%N ++ runes_of_ascii """  ) repeat int32 Z9_, Pad packetx , @lengthOf(
u128  )
    @tag( 1 ) match msg_type as
    x
{
    // @lengthOf(
    [
""" ++ [233]%N ++ runes_of_ascii "t" ++ [233]%N ++ runes_of_ascii """]
    :x , } // " ++ [27880; 37322]%N ++ runes_of_ascii "
,@lengthOf(	a1
    // " ++ [128512]%N ++ runes_of_ascii " emoji
    ) leftPad
// a // b
//x
As , i8i8
_x
    ,
    } // " ++ [128512]%N ++ runes_of_ascii " emoji")).
Eval vm_compute in ("<<<M1260>>>" ++ check (runes_of_ascii "root packet
roots { i8i8
@calculatedFrom( ""abc"" ) , repeat uint32 matchKey `doc` , char[255 ]
A @lengthOf( calculatedFrom
) `{ , }` // c
,
crc//x
{ A Header `
` , char[] o ,repeat zchar[ 1
]//x
body
`" ++ [233]%N ++ runes_of_ascii "` ,//	t
}, int8 u ,
    match packetx as	u
{ [ /// triple
0
    // a // b
    , ""`tick`"" ]:
Packet//
,""\" ++ [233]%N ++ runes_of_ascii """
    /// triple
    : Packet, [
4294967296 ]
: matchKey,}
    ,}
")).
Eval vm_compute in ("<<<M4089>>>" ++ check (runes_of_ascii "packet body {
}

packet Foo {
    int @lengthOf(x),
    float32 len `" ++ [28040; 24687; 31867; 22411]%N ++ runes_of_ascii "`,
    repeat f32a Packet,
    i8 stringy @calculatedFrom(""// no comment"") `line1
        line2`,
    @tag(0)
    match u as falsey {
        [10, 3, ""`tick`"", 42, 3] : Pad,
        7 : repeatCount,
        0 : Foo,
    },
}

MetaData Packet {
    string u,
}

options {
    uint8x = true;
}")).
Eval vm_compute in ("<<<M1056>>>" ++ check (runes_of_ascii "options {
}packet crc // " ++ [27880; 37322]%N ++ runes_of_ascii "
{ calculatedFrom{ zchar[7
    ] Logon , // @lengthOf(
trueish
rootA `say ""hi""`
// `tick` ""quote"" 'q'
/// triple
, repeat
    // packet A { u8 x, }
    calculatedFrom Z9_ , repeat
MetaDataX { repeat // " ++ [27880; 37322]%N ++ runes_of_ascii "
char[] int ,
},
    }
, rootA @calculatedFrom(
""it's""
    )
, match
    charz as body
{0123456789: chars ,
} ,
}
")).
Eval vm_compute in ("<<<M4293>>>" ++ check (runes_of_ascii "packet T {
    matchKey Header,
    //
    /// triple
    zchar[3] a1,
    // packet A { u8 x, }
    // trailing space 
}

MetaData matchKey {
    // " ++ [27880; 37322]%N ++ runes_of_ascii "
    f64 f32a `two words`,
    zchar[255] Logon `{ , }`,
    zchar[1] calculatedFrom,
    msg_type MetaDataX `{ , }`,
    a1 lengthOf `say ""hi""`,
}

root packet pack {
    x int,
}")).
Eval vm_compute in ("<<<M1082>>>" ++ check (runes_of_ascii "  options{ } options	{ x
=true }
    MetaData uint8x
{ i8i8 u8x `tab	here` , char[
0123456789
    ] calculatedFrom  `` , float64 uint8x
    , charz
    options1
,} options { i8i8 = char[	007 ]
// " ++ [27880; 37322]%N ++ runes_of_ascii "
// " ++ [27880; 37322]%N ++ runes_of_ascii "
;
    } options
    { options1 ='\x00'; // packet A { u8 x, }
zchar= '\x00' //
string_ //x
=//
""" ++ [128512]%N ++ runes_of_ascii """
;
body='0' } 	 ")).
Eval vm_compute in ("<<<M4093>>>" ++ check (runes_of_ascii "
options

{ 
uint8x 
=""{,}"" 
  // `tick` ""quote"" 'q'

  // " ++ [128512]%N ++ runes_of_ascii " emoji
	;

    } packet

    asx

    {	match
    f32a	as msg_type {""{,}""

: int

[ 
""" ++ [233]%N ++ runes_of_ascii "t" ++ [233]%N ++ runes_of_ascii """

,""a\\"" ,3
    , """ ++ [128512]%N ++ runes_of_ascii """ ,1,""a\""b""  ,
    """ ++ [128512]%N ++ runes_of_ascii """

    ]

    : repeatCount , } 
, string
Z9_  `{ , }`

    ,u128 {
	char[]Packet ,	}
, 	 //	t
    	} ")).
Eval vm_compute in ("<<<M1557>>>" ++ check (runes_of_ascii "root packet Foo // " ++ [128512]%N ++ runes_of_ascii " emoji
{ } options {
    // a // b
    tag // `tick` ""quote"" 'q'
= //	t
""""
    ; u8x = zchar[0  ] }
MetaData
    int {zchar[ 10]
lengthOf	`` , i64 u8x`// not a comment` repeat MetaDataX pack// `tick` ""quote"" 'q'
`crlf
line`
, Logon charz `crlf
line`
    ,
    // a // b
    }
")).
Eval vm_compute in ("<<<M1615>>>" ++ check (runes_of_ascii "root packet Foo // " ++ [128512]%N ++ runes_of_ascii " emoji
{ } options {
    // a // b
    tag // `tick` ""quote"" 'q'
= //	t
""""
    ; u8x'1' = zchar[0  ] }
MetaData
    int {zchar[ 10]
lengthOf	`` , i64 u8x`// not a comment` ,MetaDataX pack// `tick` ""quote"" 'q'
`crlf
line`
, Logon charz `crlf
line`
    ,
    // a // b
    }
")).
Eval vm_compute in ("<<<M1476>>>" ++ check (runes_of_ascii "root packet Foo // " ++ [128512]%N ++ runes_of_ascii " emoji
{ } options {
    // a // b
    tag // `tick` ""quote"" 'q'
= //	t
""""
    ; u8x = 0 zchar[  ] }
MetaData
    int {zchar[ 10]
lengthOf	`` , i64 u8x`// not a comment` ,MetaDataX pack// `tick` ""quote"" 'q'
`crlf
line`
, Logon charz `crlf
line`
    ,
    // a // b
    }
")).
Eval vm_compute in ("<<<M1502>>>" ++ check (runes_of_ascii "root packet Foo // " ++ [128512]%N ++ runes_of_ascii " emoji
{ } options {
    // a // b
    tag // `tick` ""quote"" 'q'
= //	t
""""
    ; u8x = zchar[0  ] }
MetaData
    i32 {zchar[ 10]
lengthOf	`` , i64 u8x`// not a comment` ,MetaDataX pack// `tick` ""quote"" 'q'
`crlf
line`
, Logon charz `crlf
line`
    ,
    // a // b
    }
")).
Eval vm_compute in ("<<<M1484>>>" ++ check (runes_of_ascii "root packet Foo // " ++ [128512]%N ++ runes_of_ascii " emoji
{ } options {
    // a // b
    tag // `tick` ""quote"" 'q'
= //	t
""""
    ; u8x = zchar[0   }
MetaData
    int {zchar[ 10]
lengthOf	`` , i64 u8x`// not a comment` ,MetaDataX pack// `tick` ""quote"" 'q'
`crlf
line`
, Logon charz `crlf
line`
    ,
    // a // b
    }
")).
Eval vm_compute in ("<<<M1572>>>" ++ check (runes_of_ascii "root packet Foo // " ++ [128512]%N ++ runes_of_ascii " emoji
{ } options {
    // a // b
    tag // `tick` ""quote"" 'q'
= //	t
""""
    ; u8x = zchar[0  ] }
MetaData
    int {zchar[ 10]
lengthOf	`` , i64 u8x`// not a comment` ,MetaDataX pack// `tick` ""quote"" 'q'
@rightPad
, Logon charz `crlf
line`
    ,
    // a // b
    }
")).
Eval vm_compute in ("<<<M341>>>" ++ check (runes_of_ascii "options { leftPad
    = 1
    ;	leftPad= char[]
    // c
    MetaDataX = false// @lengthOf(
u =
'\x00'roots =10
} packet
A { char[
    // packet A { u8 x, }
    10] o ,  match  a1 as T {
// @lengthOf(
//	t
65535 :	Z9_ 0 : _x ,} ,	}
    packet
    Foo {repeat i64_ `two words`//
, }
")).
Eval vm_compute in ("<<<M1602>>>" ++ check (runes_of_ascii "root packet Foo // " ++ [128512]%N ++ runes_of_ascii " emoji
{ } options {
    // a // b
    tag // `tick` ""quote"" 'q'
= //	t
""""
    ; u8x = zchar[0  ] }
MetaData
    int {zchar[ 10]
lengthOf	`` , i64 u8x`// not a comment` ,MetaDataX pack// `tick` ""quote"" 'q'
`crlf
line`
, Logon charz `crlf
line`
    ,")).
Eval vm_compute in ("<<<M65>>>" ++ check (runes_of_ascii "packet
    BodyLength { repeat char[
    1 ]
options1
`it's`
// c
// " ++ [128512]%N ++ runes_of_ascii " emoji
, x_y_z{
    packetx @lengthOf(zchar ) `tab	here` , repeat _x a1 ,
} , } packet roots{ // `tick` ""quote"" 'q'
}	options  { Foo	=char[ 1] // " ++ [27880; 37322]%N ++ runes_of_ascii "
;charz
=
1
; Packet = ""`tick`"" }
//x
")).
Eval vm_compute in ("<<<M464>>>" ++ check (runes_of_ascii "MetaData _x
    { BodyLength string_ `crlf
line`,
//x
//x
i64
    //
    zchar , calculatedFrom MetaDataX ,float32 Pad `it's`
,
    } packet As{
    repeat//	t
metadata BodyLength
`a\` ,	string
Packet`two words`
/// triple
// `tick` ""quote"" 'q'
, }")).
Eval vm_compute in ("<<<M788>>>" ++ check (runes_of_ascii "  root
packet i64_ {
    @calculatedFrom( ""\n"") repeat// packet A { u8 x, }
uint32	BodyLength ,@leftPad /// triple
( ' ' // @lengthOf(
) i32
falsey@lengthOf( i64_  )//x
`line1
line2`  , @rightPad
    ( ) repeat int64 int`" ++ [233]%N ++ runes_of_ascii "` ,
    }
// " ++ [27880; 37322]%N ++ runes_of_ascii "
")).
Eval vm_compute in ("<<<M4126>>>" ++ check (runes_of_ascii "MetaData Packet {
}

packet asx {
    @lengthOf(asx)
    falsey `crlf
        line`,
}

packet x {
    // @lengthOf(
    rootA,
    u32 options1 `say ""hi""`,
    @tag(7)
    // packet A { u8 x, }
    msg_type @lengthOf(stringy),
}")).
Eval vm_compute in ("<<<M2356>>>" ++ check (runes_of_ascii "MetaData Packet { }packet	asx  { @lengthOf( asx) falsey`crlf
line`
,
    }
    packet x	{uint32// @lengthOf(
rootA	,u32 options1 `say ""hi""` , @tag( 7
    )// packet A { u8 x, }
msg_type @lengthOf(
stringy stringy	)	, }

")).
Eval vm_compute in ("<<<M870>>>" ++ check (runes_of_ascii "
MetaData MetaDataX { stringy chars , Z9_ Foo ,
}options
{ }// " ++ [27880; 37322]%N ++ runes_of_ascii "
packet x_y_z{ } packet
stringy { uint64 packetx  , o , metadata // c
MetaDataX  , repeat float32 len// `tick` ""quote"" 'q'
, i64_
,	}
    options
{ }")).
Eval vm_compute in ("<<<M2363>>>" ++ check (runes_of_ascii "MetaData Packet { }packet	asx  { @lengthOf( asx) falsey`crlf
line`
,
    }
    packet x	{uint32// @lengthOf(
rootA	,u32 options1 `say ""hi""` , @tag( 7
    )// packet A { u8 x, }
msg_type @lengthOf(
stringy	as	, }

")).
Eval vm_compute in ("<<<M2307>>>" ++ check (runes_of_ascii "MetaData Packet { }packet	asx  { @lengthOf( asx) falsey`crlf
line`
,
    }
    packet x	{uint32// @lengthOf(
rootA	u32, options1 `say ""hi""` , @tag( 7
    )// packet A { u8 x, }
msg_type @lengthOf(
stringy	)	, }

")).
Eval vm_compute in ("<<<M2360>>>" ++ check (runes_of_ascii "MetaData Packet { }packet	asx  { @lengthOf( asx) falsey`crlf
line`
,
    }
    packet x	{uint32// @lengthOf(
rootA	,u32 options1 `say ""hi""` , @tag( 7
    )// packet A { u8 x, }
msg_type @lengthOf(
stringy		, }

")).
Eval vm_compute in ("<<<M2260>>>" ++ check (runes_of_ascii "MetaData Packet { }packet	asx  { @lengthOf( asx) `crlf
line`
,
    }
    packet x	{uint32// @lengthOf(
rootA	,u32 options1 `say ""hi""` , @tag( 7
    )// packet A { u8 x, }
msg_type @lengthOf(
stringy	)	, }

")).
Eval vm_compute in ("<<<M4399>>>" ++ check (runes_of_ascii "

  packet
	As	{u128 MetaDataX ,
    char[

3]
    falsey
    ,

}

options { falsey 
    /// triple
	=
""it's"" 
;
    }

    MetaData  a1  {  u8x
A ,
    matchKey
_x

    `" ++ [28040; 24687; 31867; 22411]%N ++ runes_of_ascii "`,

string T
    ,	} ")).
Eval vm_compute in ("<<<M895>>>" ++ check (runes_of_ascii "
packet zchar {	@rightPad (
) repeat char[]leftPad	, @calculatedFrom(""{,}"" )
    u ,
i64_ @calculatedFrom( ""// no comment"" ),
    // c
    }
// packet A { u8 x, }
// " ++ [128512]%N ++ runes_of_ascii " emoji
packet lengthOf{ }
")).
Eval vm_compute in ("<<<M4227>>>" ++ check (runes_of_ascii "
options	{ 
  // trailing space 
		A =
' ';
calculatedFrom
        // c

  // a // b

  =""a\""b""
    ;
    msg_type= char[

4294967296]
    ; 
    //
  rootA
	='\x00'msg_type

=
false }
")).
Eval vm_compute in ("<<<M3879>>>" ++ check (runes_of_ascii "  root packet  Packet  // packet A { u8 x, }
	{

leftPad

    As,
	char[]
string_
, }
    MetaData
    x
{  a1 u128
`u8 x,` , 
        // a // b
      // packet A { u8 x, }
	}")).
Eval vm_compute in ("<<<M3651>>>" ++ check (runes_of_ascii "// @lengthOf(
MetaData u {
    char[] float,
    u8 leftPad `
    `,
    // a // b
    // a // b
    metadata string_,
    char[] Header,
    zchar[0123456789] a1 `
    `,
}")).
Eval vm_compute in ("<<<M4005>>>" ++ check (runes_of_ascii "packet f32a {
    @calculatedFrom(""\" ++ [233]%N ++ runes_of_ascii """)
    @calculatedFrom(""" ++ [128512]%N ++ runes_of_ascii """)
    @lengthOf(int)
    u8x @calculatedFrom(""\" ++ [233]%N ++ runes_of_ascii """),
    float32 leftPad `doc`,
    crc MetaDataX `" ++ [233]%N ++ runes_of_ascii "`,
}")).
Eval vm_compute in ("<<<M4342>>>" ++ check (runes_of_ascii "
packet
i8i8//x
    	{

    int16 // trailing space 

stringy // " ++ [128512]%N ++ runes_of_ascii " emoji
@calculatedFrom(
""// no comment""

    ) ,
    }

    packet _x
    {

    } ")).
Eval vm_compute in ("<<<M422>>>" ++ check (runes_of_ascii "options { chars = ""abc"" ;}
    packet string_
{uint8x
x_y_z ,string
Header`
` , } packet pack// a // b
{ Z9_
@lengthOf( chars
    ) /// triple
`" ++ [233]%N ++ runes_of_ascii "` ,}
")).
Eval vm_compute in ("<<<M1373>>>" ++ check (runes_of_ascii "packet
As { char[
0123456789]
    repeatCount
    // `tick` ""quote"" 'q'
    , u32 _x `// not a comment` , @tag( 3 )repeat i64 len `say ""hi""`,  }
")).
Eval vm_compute in ("<<<M4513>>>" ++ check (runes_of_ascii "packet	A  {	match
k as n{	[ 
1
, 
22
	,

007 
,

    4,	5,

66
    ,
	7
    ,
	8

,
	9
	, 
10	, 11

    ,

12  ] :
	B 2

    : 
C },  }")).
Eval vm_compute in ("<<<M1658>>>" ++ check (runes_of_ascii "root packet /// triple
rootA {	i32
MetaDataX@calculatedFrom( ""CRC32"" ""CRC32"" ) `line1
line2` , } MetaData BodyLength {
u8
rootA, } // c")).
Eval vm_compute in ("<<<M3390>>>" ++ check (runes_of_ascii "// top
MetaData // c0
_x // c1
{ // c2
zchar[ // c3
4294967296 // c4
] // c5
lengthOf // c6
`// not a comment` // c7
, // c8
} // c9
")).
Eval vm_compute in ("<<<M1693>>>" ++ check (runes_of_ascii "root packet /// triple
rootA {	i32
MetaDataX@calculatedFrom( ""CRC32"" ) `line1
line2` , } MetaData BodyLength { {
u8
rootA, } // c")).
Eval vm_compute in ("<<<M1674>>>" ++ check (runes_of_ascii "root packet /// triple
rootA {	i32
MetaDataX@calculatedFrom( ""CRC32"" ) `line1
line2` } , MetaData BodyLength {
u8
rootA, } // c")).
Eval vm_compute in ("<<<M3983>>>" ++ check (runes_of_ascii "packet A {
    match k as n {
        [
            1, 22, ""c c"", 4, 5,
            ""f""
        ] : B,
        2 : C,
    },
}")).
Eval vm_compute in ("<<<M4420>>>" ++ check (runes_of_ascii "  packet B
{
u8 
a,
}  root packet
	P{ 
u8 K

, match  K  as  Body
	{

1
: B
,
    }
    , 
u16 L @lengthOf(

Body 
),
}

")).
Eval vm_compute in ("<<<M1657>>>" ++ check (runes_of_ascii "root packet /// triple
rootA {	i32
MetaDataX@calculatedFrom(  ) `line1
line2` , } MetaData BodyLength {
u8
rootA, } // c")).
Eval vm_compute in ("<<<M1647>>>" ++ check (runes_of_ascii "root packet /// triple
rootA {	i32
@calculatedFrom( ""CRC32"" ) `line1
line2` , } MetaData BodyLength {
u8
rootA, } // c")).
Eval vm_compute in ("<<<M1891>>>" ++ check (runes_of_ascii "packet
    Pad // a // b
{ " ++ [127]%N ++ runes_of_ascii "i8i8 @calculatedFrom( ""a	b"") `u8 x,` ,
} options{ float// " ++ [128512]%N ++ runes_of_ascii " emoji
= f64 i64_
=//	t
00 }
")).
Eval vm_compute in ("<<<M1857>>>" ++ check (runes_of_ascii "packet
    Pad // a // b
{ i8i8 @calculatedFrom( ""a	b"") `u8 x,` ,
} options{ float// " ++ [128512]%N ++ runes_of_ascii " emoji
= f64 =
i64_//	t
00 }
")).
Eval vm_compute in ("<<<M624>>>" ++ check (runes_of_ascii "packet Packet { uint8 options1	`a\` ,@rightPad
    (
    '0') u16 // packet A { u8 x, }
x_y_z
    `crlf
line` ,
}
")).
Eval vm_compute in ("<<<M4485>>>" ++ check (runes_of_ascii "packet
Logon  { @tag(
    42	)

// c
  	@rightPad ( ' ' ) @leftPad()

repeat
    trueish

{  string	T	,

}

,

}
")).
Eval vm_compute in ("<<<M3010>>>" ++ check (runes_of_ascii "packet A {
    u16 len @lengthOf(body) `a
b`,
    u32 crc @calculatedFrom(""CRC32"") `a
b`,
    string body,
}")).
Eval vm_compute in ("<<<M3976>>>" ++ check (runes_of_ascii "

  options {
matchKey =

0

    BodyLength=uint64 
; pack

=
""1"" ;

f32a

=
    i64 
Foo
	= 
""a	b"" 
} ")).
Eval vm_compute in ("<<<M3376>>>" ++ check (runes_of_ascii "packet calculatedFrom { @tag( 4294967296 ) u msg_type , char[ 3 ] crc @lengthOf( len ) `u8 x,` , }
// c
")).
Eval vm_compute in ("<<<M3357>>>" ++ check (runes_of_ascii "packet calculatedFrom { @tag( 4294967296 ) u msg_type , char[ // c
3 ] crc @lengthOf( len ) `u8 x,` , }")).
Eval vm_compute in ("<<<M4425>>>" ++ check (runes_of_ascii "packet

    lengthOf
	{

}
root packet  i64_ 
{ char[]

BodyLength  @lengthOf(

Header
	)	`doc` 
,}
")).
Eval vm_compute in ("<<<M1691>>>" ++ check (runes_of_ascii "root packet /// triple
rootA {	i32
MetaDataX@calculatedFrom( ""CRC32"" ) `line1
line2` , } MetaData")).
Eval vm_compute in ("<<<M4225>>>" ++ check (runes_of_ascii "packet
	A
{
    match k as
n {  [  ""a""

    ,  ""bb""
,

""c c"",
""d"" ]
: B	2: C

    }
, }
")).
Eval vm_compute in ("<<<M3233>>>" ++ check (runes_of_ascii "packet Logon { @tag( 42 ) @rightPad ( ' '
// c
) @leftPad ( ) repeat trueish { string T , } , }")).
Eval vm_compute in ("<<<M1463>>>" ++ check (runes_of_ascii "root packet Foo // " ++ [128512]%N ++ runes_of_ascii " emoji
{ } options {
    // a // b
    tag // `tick` ""quote"" 'q'
= //	t
""""")).
Eval vm_compute in ("<<<M4323>>>" ++ check (runes_of_ascii "

  options
	{FixedStringPadFromLeft
= 
true
    ; } 
root  packet  P
{
char[
	4
]
z,
	}

")).
Eval vm_compute in ("<<<M2023>>>" ++ check (runes_of_ascii "root
packet crc
    { f32a @calculatedFrom( """ ++ [233]%N ++ runes_of_ascii "t" ++ [233]%N ++ runes_of_ascii """ )
    `say ""hi""`, lengthOf `` ,  char[")).
Eval vm_compute in ("<<<M2036>>>" ++ check (runes_of_ascii "root
packet crc
    { f32a @calculatedFrom( """ ++ [233]%N ++ runes_of_ascii "t" ++ [233]%N ++ runes_of_ascii """ )
    `say ""hi""`, \ lengthOf `` ,  }")).
Eval vm_compute in ("<<<M2914>>>" ++ check (runes_of_ascii "packet A {
  match k as n {
    [""a"", ""bb"", ""c c"", ""d"", ""e"", ""f""] : B
    2 : C
  },
}")).
Eval vm_compute in ("<<<M4161>>>" ++ check (runes_of_ascii "packet A {
    match k as n {
        [1, 22, 007, 4, 5] : B,
        2 : C,
    },
}")).
Eval vm_compute in ("<<<M4444>>>" ++ check (runes_of_ascii "root packet rootA {
    i32 MetaDataX @calculatedFrom(""CRC32"") `line1
    line2`,
}")).
Eval vm_compute in ("<<<M3300>>>" ++ check (runes_of_ascii "packet o { @tag( // c
42 ) repeat x { char[ 0123456789 ] i64_ , } , } options { }")).
Eval vm_compute in ("<<<M3480>>>" ++ check (runes_of_ascii "packet orderItem {
    u8 a,
}
root packet newOrder {
    orderItem,
    u8 x,
}
")).
Eval vm_compute in ("<<<M3001>>>" ++ check (runes_of_ascii "packet A { Inner { match k as n { [1,22,007,4,5,66,7,8,9,10,11,12] : B, }, }, }")).
Eval vm_compute in ("<<<M4387>>>" ++ check (runes_of_ascii "root packet crc {
    f32a @calculatedFrom(""" ++ [233]%N ++ runes_of_ascii "t" ++ [233]%N ++ runes_of_ascii """) `say ""hi""`,
    lengthOf,
}")).
Eval vm_compute in ("<<<M1302>>>" ++ check (runes_of_ascii "MetaData f32a {
    int64 rootA
`tab	here`, }packet
    msg_type{
} // " ++ [27880; 37322]%N)).
Eval vm_compute in ("<<<M2892>>>" ++ check (runes_of_ascii "packet A {
  match k as n {
    [""a"", 22, ""c c"", 4] : B
    2 : C
  },
}")).
Eval vm_compute in ("<<<M2894>>>" ++ check (runes_of_ascii "packet A {
  match k as n {
    [1, 22, ""c c"", 4] : B
    2 : C
  },
}")).
Eval vm_compute in ("<<<M2211>>>" ++ check (runes_of_ascii "root
    // `tick` ""quote"" 'q'
    packet na" ++ [239]%N ++ runes_of_ascii "ve { trueish Packet , }
")).
Eval vm_compute in ("<<<M3172>>>" ++ check (runes_of_ascii "packet A { match k as n { [ // a
 1 // b
 , // c
 2 ] // d
 : B }, }")).
Eval vm_compute in ("<<<M2210>>>" ++ check (runes_of_ascii "root
    // `tick` ""quote"" 'q'
    packet " ++ [21517; 23383]%N ++ runes_of_ascii " { trueish Packet , }
")).
Eval vm_compute in ("<<<M1944>>>" ++ check (runes_of_ascii "
packet	As { @calculatedFrom(//@lengthOfx
""{,}""	)lengthOf , } 	 ")).
Eval vm_compute in ("<<<M2870>>>" ++ check (runes_of_ascii "packet A {
  match k as n {
    [""a"", 22] : B
    2 : C
  },
}")).
Eval vm_compute in ("<<<M133>>>" ++ check (runes_of_ascii "packet string_ // `tick` ""quote"" 'q'
{ u
//
// " ++ [128512]%N ++ runes_of_ascii " emoji
, }
")).
Eval vm_compute in ("<<<M4205>>>" ++ check (runes_of_ascii "root packet P {
    hdr {
        u8 a,
    },
    u8 x,
}")).
Eval vm_compute in ("<<<M1946>>>" ++ check (runes_of_ascii "
packet	As { @calculatedFrom(//x
""{,}""	')lengthOf , } 	 ")).
Eval vm_compute in ("<<<M1930>>>" ++ check (runes_of_ascii "
packet	As { @calculatedFrom(//x
""{,}""	)lengthOf  } 	 ")).
Eval vm_compute in ("<<<M529>>>" ++ check (runes_of_ascii "options{
BodyLength =	""" ++ [128512]%N ++ runes_of_ascii """// `tick` ""quote"" 'q'
; }
")).
Eval vm_compute in ("<<<M399>>>" ++ check (runes_of_ascii "
packet Pad
{ uint8 rootA`` ,
} packet Foo  { }
")).
Eval vm_compute in ("<<<M2418>>>" ++ check (runes_of_ascii "MetaData A
)
i64
chars	, } // `tick` ""quote"" 'q'")).
Eval vm_compute in ("<<<M3736>>>" ++ check (runes_of_ascii "packet i8i8 {
}

packet asx {
    uint8 pack,
}")).
Eval vm_compute in ("<<<M1749>>>" ++ check (runes_of_ascii "options { options} {  } // `tick` ""quote"" 'q'")).
Eval vm_compute in ("<<<M340>>>" ++ check (runes_of_ascii "packet int
    { }
    packet u128 {
    }
")).
Eval vm_compute in ("<<<M2785>>>" ++ check (runes_of_ascii "i64_ char = , packet [ ] @lengthOf( uint64")).
Eval vm_compute in ("<<<M1160>>>" ++ check (runes_of_ascii "packet tag
//x
// " ++ [128512]%N ++ runes_of_ascii " emoji
{ }
// a // b
")).
Eval vm_compute in ("<<<M3200>>>" ++ check (runes_of_ascii "MetaData zchar { zchar[ 3 ] // c
Pad , }")).
Eval vm_compute in ("<<<M412>>>" ++ check (runes_of_ascii "MetaData
// c
// @lengthOf(
T {
    }
")).
Eval vm_compute in ("<<<M348>>>" ++ check (runes_of_ascii "packet
    A
{} options {
T	=
'0' }
")).
Eval vm_compute in ("<<<M3020>>>" ++ check (runes_of_ascii "packet A {
    u8 x `a
    b
  c`,
}")).
Eval vm_compute in ("<<<M2799>>>" ++ check (runes_of_ascii "Y'; XMxS`r%e+3e8IXpIp]:H8_+-WZ@@1,")).
Eval vm_compute in ("<<<M2829>>>" ++ check ([127; 65533; 65533; 65533; 65533]%N ++ runes_of_ascii "Cx" ++ [65533]%N ++ runes_of_ascii "Z" ++ [20; 28; 65533; 65533]%N ++ runes_of_ascii "b" ++ [65533; 65533; 65533; 65533]%N ++ runes_of_ascii "g" ++ [65533]%N ++ runes_of_ascii "`P" ++ [3; 65533]%N ++ runes_of_ascii "j" ++ [65533; 65533]%N ++ runes_of_ascii "&" ++ [26; 65533]%N ++ runes_of_ascii "z" ++ [65533]%N)).
Eval vm_compute in ("<<<M1289>>>" ++ check (runes_of_ascii "
packet //x
Header // " ++ [27880; 37322]%N ++ runes_of_ascii "
{	}")).
Eval vm_compute in ("<<<M3772>>>" ++ check (runes_of_ascii "
// c" ++ [11]%N ++ runes_of_ascii "
    packet A

    {}
")).
Eval vm_compute in ("<<<M2708>>>" ++ check (runes_of_ascii "M#T%6 >pw-dCYhy71MjW^j+tv~#}")).
Eval vm_compute in ("<<<M3969>>>" ++ check (runes_of_ascii "options {
    u8x = 3
}// c")).
Eval vm_compute in ("<<<M4296>>>" ++ check (runes_of_ascii "
packet  repeatCount { }
")).
Eval vm_compute in ("<<<M550>>>" ++ check (runes_of_ascii "//	t
packet
f32a
    { }")).
Eval vm_compute in ("<<<M3380>>>" ++ check (runes_of_ascii "// c
packet lengthOf { }")).
Eval vm_compute in ("<<<M4246>>>" ++ check (runes_of_ascii "MetaData M {
    x y,
}")).
Eval vm_compute in ("<<<M1607>>>" ++ check (runes_of_ascii "root packet Foo // " ++ [65533; 65533]%N)).
Eval vm_compute in ("<<<M2642>>>" ++ check (runes_of_ascii "MetaData M { u8 x, }")).
Eval vm_compute in ("<<<M3127>>>" ++ check (runes_of_ascii "// c 	
packet A {
}")).
Eval vm_compute in ("<<<M3062>>>" ++ check (runes_of_ascii "// c 
packet A {
}")).
Eval vm_compute in ("<<<M3144>>>" ++ check (runes_of_ascii "packet A {
}// c x")).
Eval vm_compute in ("<<<M3099>>>" ++ check (runes_of_ascii "packet A {
}// c" ++ [8233]%N)).
Eval vm_compute in ("<<<M1188>>>" ++ check (runes_of_ascii "options {
    }")).
Eval vm_compute in ("<<<M755>>>" ++ check (runes_of_ascii "
 // " ++ [128512]%N ++ runes_of_ascii " emoji")).
Eval vm_compute in ("<<<M861>>>" ++ check (runes_of_ascii "// a // b
")).
Eval vm_compute in ("<<<M2752>>>" ++ check (runes_of_ascii "nz:c/H>Q")).
Eval vm_compute in ("<<<M2460>>>" ++ check (runes_of_ascii "repeat")).
Eval vm_compute in ("<<<M2511>>>" ++ check (runes_of_ascii """ab""")).
Eval vm_compute in ("<<<M2441>>>" ++ check (runes_of_ascii "uint")).
Eval vm_compute in ("<<<M2496>>>" ++ check (runes_of_ascii "/ /")).
Eval vm_compute in ("<<<M2493>>>" ++ check (runes_of_ascii "@@")).
Eval vm_compute in ("<<<M2678>>>" ++ check (runes_of_ascii " ")).
