From FP Require Import Lexer Parser ShowPT Digest Formatter.
From Coq Require Import String List NArith.
Import ListNotations.
Open Scope string_scope.
Set Printing Width 100000000.
Set Printing Depth 100000000.
Definition show_fres (r : fres) : string :=
  match r with
  | FOk s => "OK:" ++ sh_escaped s ""
  | FErr s => "ERR:" ++ sh_escaped s ""
  | FPanic p => "PANIC:" ++ p
  end.
Definition check (rs : list rune) : string := digest (show_fres (format_res rs)).
Definition full (rs : list rune) : string := show_fres (format_res rs).
Eval vm_compute in ("<<<M727>>>" ++ check (runes_of_ascii "packet lengthOf { @leftPad
( ' '
    )
// c
// packet A { u8 x, }
match len as As {
""1""
: leftPad
,255
: Pad	""1"" :
x // a // b
,4294967296:  u128
, // " ++ [27880; 37322]%N ++ runes_of_ascii "
}
    , @rightPad( ) crc  `line1
line2`, @lengthOf( leftPad
    )
@calculatedFrom( ""a\\"" ) repeat char[] _x`a\`	,repeatCount asx , repeat u	{match falsey as i8i8
    {
    //x
    """ ++ [233]%N ++ runes_of_ascii "t" ++ [233]%N ++ runes_of_ascii """ : float  ,
[ ""\n""] : _x
    , ""CRC32""// a // b
:
roots
, 7 :	matchKey
""packet"" : Foo
, ""1"":
int , } ,
}
    ,
    i8 x `" ++ [233]%N ++ runes_of_ascii "`	,@tag( 3
    ) f32a ,
    repeat
    lengthOf {
    //x
    int@lengthOf(
/// triple
// " ++ [128512]%N ++ runes_of_ascii " emoji
calculatedFrom )	,int64 falsey	`doc`
    ,},// @lengthOf(
@calculatedFrom( ""x y""
// @lengthOf(
//	t
) //	t
match x_y_z as
    //
    Z9_ {1 :
    lengthOf , 255
: u128
, ""it's"" : Z9_  ,
    // @lengthOf(
    42:
len }
    , match
calculatedFrom as crc  {	[ 0123456789 , 255 , ""packet"",""it's"" ,
0, ""\n"" ,1
    ,
    0123456789
] : calculatedFrom, 65535: _x ""CRC32""
    // a // b
    :
tag ,[//	t
""`tick`""
    // @lengthOf(
    ] : T
    , [ ""it's"" , ""it's""
// packet A { u8 x, }
// `tick` ""quote"" 'q'
, 0123456789 , """ ++ [128512]%N ++ runes_of_ascii """// " ++ [128512]%N ++ runes_of_ascii " emoji
,
4294967296, ""`tick`"" ] :
pack ,
} , }
    packet
//x
// packet A { u8 x, }
u8x { //x
} root
// " ++ [27880; 37322]%N ++ runes_of_ascii "
// @lengthOf(
packet
string_ { @tag( 3) char[]crc, @rightPad
    ( '\x00' )@leftPad// @lengthOf(
( ' ' )repeat char[ 42 ]Foo  ,
    @calculatedFrom( //
""{,}""
)
    string
stringy @lengthOf( chars	)  ,@tag(
1 // packet A { u8 x, }
)// " ++ [128512]%N ++ runes_of_ascii " emoji
zchar[ 007 ] charz`two words`,
    repeat
    msg_type
{ char uint8x
    `line1
line2` , char[ /// triple
00 ] // trailing space 
options1 @calculatedFrom( """ ++ [233]%N ++ runes_of_ascii "t" ++ [233]%N ++ runes_of_ascii """ ) `say ""hi""` ,
    matchKey @calculatedFrom(""1""
    ), //
} //x
, @tag( 0123456789
    )
    //	t
    zchar[
00
//
// a // b
]
    // packet A { u8 x, }
    lengthOf , @tag( 3 )
    falsey As , } packet
lengthOf{	chars { Packet
`tab	here`, metadata ,
    repeat zchar ,	} ,match matchKey  as roots { ""x y"" :  float }
    // packet A { u8 x, }
    , @tag(1 ) @tag( 4294967296)
T
{ int32
    // `tick` ""quote"" 'q'
    string_ `a\`
    ,i8
    // a // b
    Pad @calculatedFrom( ""a\""b""
) // packet A { u8 x, }
`u8 x,`
// a // b
// trailing space 
, repeat char[]
    //x
    zchar `" ++ [233]%N ++ runes_of_ascii "` , u8x { repeat char[]x_y_z ,
} , } , @rightPad
( '\x00' )
repeat zchar[// trailing space 
7  ] // @lengthOf(
i8i8//	t
, }")).
Eval vm_compute in ("<<<M88>>>" ++ check (runes_of_ascii "options  { BodyLength
=
    string; trueish	=""it's"" i8i8
    =  ""// no comment""
    // trailing space 
    roots
// a // b
// packet A { u8 x, }
=// `tick` ""quote"" 'q'
""" ++ [28040; 24687]%N ++ runes_of_ascii """ ;// a // b
falsey = '\x00' ; } packet metadata{
    packetx
    { repeat rootA x_y_z `tab	here` , repeat pack
, Logon {
    u16 msg_type , u8 BodyLength
`
`,
zchar[
3 ] int  ,} ,
a1
T, }
, // `tick` ""quote"" 'q'
repeat f32 o `crlf
line`
, i32 rootA, int32  matchKey , @leftPad
// a // b
// @lengthOf(
( )
x_y_z {	match body	as	u8x
    { [ ""{,}"" ]:u8x	, 3:
u8x , 4294967296: As ,
[ ""CRC32"" ]:A
,
255 // packet A { u8 x, }
: body
    //
    , // c
42
    :
x_y_z }
, } , repeat
body float
, } // trailing space 
packet trueish
{ stringy @lengthOf( float )	`{ , }`
,repeat// packet A { u8 x, }
i64_ ,
    uint16 string_
    // `tick` ""quote"" 'q'
    @calculatedFrom(
""\" ++ [233]%N ++ runes_of_ascii """)
`
`	, // a // b
@tag( 0123456789)char[
    //x
    4294967296 ]
    calculatedFrom @lengthOf( int )`line1
line2`	, // packet A { u8 x, }
match rootA as asx
{	""\" ++ [233]%N ++ runes_of_ascii """: f32a, ""\n"" :
    rootA [ ""a\\""
//
//
, 0123456789 ] : crc
,1 : msg_type , ""a	b"" :stringy// packet A { u8 x, }
, }
    // " ++ [27880; 37322]%N ++ runes_of_ascii "
    ,repeat len	{ string_{i16 _x , _x { repeat uint8x a1
, char[ 42
    ]	zchar
    `say ""hi""` , zchar[ 7  ] uint8x ,
}
    ,repeat i8i8 body, }
    // " ++ [128512]%N ++ runes_of_ascii " emoji
    , uint8
T	@lengthOf(
repeatCount ), } ,}root packet asx { @calculatedFrom(	""x y""
)
repeat pack ,repeat string_ { u8 metadata
,} ,  @calculatedFrom( ""abc"" )	roots
@lengthOf(
    T
) `` , match asx as uint8x
{ 3: u8x, }
    // a // b
    ,// trailing space 
u8x@calculatedFrom( ""{,}"" ) , } packet o // " ++ [128512]%N ++ runes_of_ascii " emoji
{ string Logon ,charz metadata , match// c
len as
float{
255
    :
    //	t
    uint8x , ""CRC32"": As ,
    1
    : body , 7
:	options1 ,[	""" ++ [128512]%N ++ runes_of_ascii """,""it's"" //
]:
    repeatCount}, @leftPad ( ) @calculatedFrom( ""x y"" )  @leftPad(  ' ' )repeat lengthOf,zchar[
42  ]
    Logon@calculatedFrom(// packet A { u8 x, }
"""" ), }
//x
")).
Eval vm_compute in ("<<<M3930>>>" ++ check (runes_of_ascii "// @lengthOf(
MetaData zchar {
    string o `crlf
        line`,
    char[] pack `crlf
        line`,
    char[] Foo,
}

options {
    stringy = ""`tick`""
}

packet leftPad {
    packetx @lengthOf(roots),
    @lengthOf(int)
    @calculatedFrom(""a\""b"")
    @calculatedFrom(""" ++ [28040; 24687]%N ++ runes_of_ascii """)
    int32 MetaDataX `" ++ [233]%N ++ runes_of_ascii "`,
    u8 int,
    @lengthOf(options1)
    repeat u8 BodyLength,
    @tag(1)
    Logon,
    repeat int32 u8x `say ""hi""`,
    match int as charz {
        ""abc"" : roots,
    },
    string_ {
        zchar @lengthOf(calculatedFrom) ``,
    },
}

root packet lengthOf {
    @tag(4294967296)
    A @lengthOf(i64_) `doc`,
    body @lengthOf(lengthOf) `it's`,
    zchar[10] i8i8,
    @calculatedFrom(""" ++ [233]%N ++ runes_of_ascii "t" ++ [233]%N ++ runes_of_ascii """)
    i64 int `u8 x,`,
    repeat trueish {
        string options1,
        zchar[0123456789] _x `tab	here`,
        Pad {
            repeat string repeatCount,
            repeat string _x,
            Packet @lengthOf(roots) `
                        `,
            string crc @calculatedFrom(""abc""),
        },
        match i8i8 as string_ {
            // c
            [""it's""] : options1,
            //
            // @lengthOf(
            ""a	b"" : string_,
            [00, ""a	b""] : metadata,
            0 : o,
            ""\" ++ [233]%N ++ runes_of_ascii """ : Pad,
        },
    },
    char[7] i8i8 `tab	here`,
    roots {
        repeat uint8 _x `tab	here`,
    },
    repeat int64 f32a,
    match asx as calculatedFrom {
        65535 : asx,
        [1] : uint8x,
        42 : x,
        [
            ""x y"", ""1"", ""`tick`"", ""1"", ""1"",
            ""a	b""
        ] : MetaDataX,
    },
}

MetaData chars {
}")).
Eval vm_compute in ("<<<M103>>>" ++ check (runes_of_ascii "packet
trueish {
@calculatedFrom(	"""" ) u
    @lengthOf( a1
) ,
} options //	t
{
    trueish =
42 }
options { //	t
}packet Foo {match matchKey
as body	{
    // `tick` ""quote"" 'q'
    [4294967296 ]	: Packet , 00 : A ,
    } , @calculatedFrom( ""x y"" ) // " ++ [27880; 37322]%N ++ runes_of_ascii "
@lengthOf(	a1)
    repeat f64	rootA , } packet len{ @calculatedFrom( ""// no comment"") string T @lengthOf(
f32a )
    , float32 chars
    , @rightPad ( ' ' ) repeat chars{ string A , string
i64_ `line1
line2`
,
float32
    //
    i8i8 ,uint64
    /// triple
    matchKey @calculatedFrom( ""abc"" )
/// triple
// `tick` ""quote"" 'q'
`" ++ [233]%N ++ runes_of_ascii "` , } , A
    `a\` ,
@tag( 00
)
    @tag( 0123456789 )
    @tag( 1	)
u128 {i64_
    {
// c
// trailing space 
BodyLength , i64 u
`{ , }` , match
    Z9_
    as
chars /// triple
{ ["""" ] : // `tick` ""quote"" 'q'
float , [ 0123456789  , 42
    , 3 ,
    //	t
    10  , 10 ]
// a // b
/// triple
: stringy , ""1"" :trueish , // packet A { u8 x, }
""packet"" : u128 [
""x y"" ,7 ] : A
} ,
    int32	a1 ,} , rootA
//x
/// triple
`doc` ,
//x
// `tick` ""quote"" 'q'
} , @rightPad ( ' ' ) repeat options1  { int
    @calculatedFrom( ""packet"" ) , // " ++ [128512]%N ++ runes_of_ascii " emoji
} , repeat char[65535]
    falsey
    // packet A { u8 x, }
    , @rightPad ( ) repeat char[] i8i8,
repeat calculatedFrom  msg_type ,@rightPad (	) @tag(
65535 ) repeat calculatedFrom crc , } 	 ")).
Eval vm_compute in ("<<<M4485>>>" ++ check (runes_of_ascii "packet BodyLength {
    match As as x {
        [0, ""a	b"", ""it's""] : float,
        42 : u128,
        ""a\\"" : BodyLength,
        0 : Packet,
        //	t
        //
        ""\" ++ [233]%N ++ runes_of_ascii """ : roots,
        ""\n"" : string_,
    },
    msg_type {
        char[4294967296] options1,
    },
    i8i8 {
        i64_ {
            match A as zchar {
                [
                    65535, 0, 42, """ ++ [128512]%N ++ runes_of_ascii """, ""`tick`"",
                    ""x y"", ""a\""b"", """ ++ [128512]%N ++ runes_of_ascii """
                ] : float,
                ""a	b"" : Pad,
                007 : repeatCount,
                // " ++ [128512]%N ++ runes_of_ascii " emoji
            },
            //
            uint64 Z9_ `" ++ [233]%N ++ runes_of_ascii "`,
            crc,
        },/// triple
        repeat char[255] uint8x,
        uint32 pack @calculatedFrom(""{,}""),
    },
    @calculatedFrom(""a	b"")
    tag @lengthOf(Packet) `" ++ [233]%N ++ runes_of_ascii "`,
}

root packet lengthOf {
    i32 x,
    match i64_ as Logon {
        3 : rootA,
        [4294967296] : Packet,
        [""a	b"", ""{,}""] : calculatedFrom,
        [
            0123456789, 42, 255, """ ++ [28040; 24687]%N ++ runes_of_ascii """, ""a	b"",
            ""\" ++ [233]%N ++ runes_of_ascii """
        ] : msg_type,
    },
    @lengthOf(Header)
    repeat float {
        string asx,
    },
    match string_ as u {
        """ ++ [233]%N ++ runes_of_ascii "t" ++ [233]%N ++ runes_of_ascii """ : uint8x,
    },
}

packet _x {
    char[] _x ``,
}")).
Eval vm_compute in ("<<<M450>>>" ++ check (runes_of_ascii "
packet BodyLength
{ match As as
x
    {	[	""a	b""
, ""it's"" , 0	] // trailing space 
: float , 42
:u128 , ""a\\"":
    BodyLength	0 :  Packet
//	t
//
""\" ++ [233]%N ++ runes_of_ascii """
:
    // " ++ [128512]%N ++ runes_of_ascii " emoji
    roots	""\n""	: string_ }
    // @lengthOf(
    , msg_type	{ char[
4294967296 ] options1 // " ++ [27880; 37322]%N ++ runes_of_ascii "
, } , i8i8{ i64_ { match
    A	as zchar
    {
[
65535 ,
""" ++ [128512]%N ++ runes_of_ascii """
// a // b
// `tick` ""quote"" 'q'
, ""`tick`"" , ""x y"",""a\""b"" ,	0 , """ ++ [128512]%N ++ runes_of_ascii """ ,
42 ] : float ""a	b""
:	Pad 007	: repeatCount
,// " ++ [128512]%N ++ runes_of_ascii " emoji
}	,
    //
    uint64 Z9_ `" ++ [233]%N ++ runes_of_ascii "` ,crc ,} , /// triple
repeat char[ 255 ] uint8x , uint32 pack @calculatedFrom( ""{,}""	)
    , }
,
@calculatedFrom( ""a	b"" // `tick` ""quote"" 'q'
)
    tag
@lengthOf( Packet )	`" ++ [233]%N ++ runes_of_ascii "`
//
// packet A { u8 x, }
, }
root
packet// c
lengthOf
    // @lengthOf(
    { i32 x ,
match i64_ as Logon
    // trailing space 
    {3 : rootA,[//x
4294967296]:Packet, [ ""a	b"" ,
    ""{,}""] :
calculatedFrom ,[  """ ++ [28040; 24687]%N ++ runes_of_ascii """ , 0123456789 ,
""a	b"" , 42 , 255 ,
""\" ++ [233]%N ++ runes_of_ascii """ ]	:msg_type
    ,  } // `tick` ""quote"" 'q'
, @lengthOf(Header)	repeat  float {
    string asx
    , }  ,match	string_ // " ++ [128512]%N ++ runes_of_ascii " emoji
as u {""" ++ [233]%N ++ runes_of_ascii "t" ++ [233]%N ++ runes_of_ascii """:  uint8x	} ,
    } packet _x // trailing space 
{
char[] _x`` , }
")).
Eval vm_compute in ("<<<M571>>>" ++ check (runes_of_ascii "root
    packet
BodyLength // `tick` ""quote"" 'q'
{x_y_z
@calculatedFrom(""" ++ [233]%N ++ runes_of_ascii "t" ++ [233]%N ++ runes_of_ascii """)
    //x
    , //	t
@lengthOf( A
    )int8	options1`u8 x,`
, @rightPad ( )
// " ++ [128512]%N ++ runes_of_ascii " emoji
// " ++ [27880; 37322]%N ++ runes_of_ascii "
repeat
zchar[1 ]// " ++ [128512]%N ++ runes_of_ascii " emoji
asx//	t
`
` ,
i8i8@lengthOf( asx) `it's` ,
uint64 i8i8
    , int32
// trailing space 
// @lengthOf(
Packet @lengthOf(  x_y_z  )
,	@tag(1 )	repeat uint8 len
    , char[] matchKey ,char[
7  ] chars
    @calculatedFrom( """ ++ [233]%N ++ runes_of_ascii "t" ++ [233]%N ++ runes_of_ascii """
), } packet i8i8 { match body
as	repeatCount { [ ""a\\"",""// no comment"",0123456789 , ""x y"",""// no comment"", 7 , 1  ]:
Foo 007 : T,[
""a\""b"" , 0] : BodyLength ,
    } ,	repeat Z9_ {
charz @calculatedFrom(""\n"" )
`tab	here` , // `tick` ""quote"" 'q'
repeatCount Pad `tab	here`, i32 asx @lengthOf(
i64_ )
    ,  }
    , } packet uint8x
    {
@calculatedFrom(""" ++ [233]%N ++ runes_of_ascii "t" ++ [233]%N ++ runes_of_ascii """ )
zchar[ 0 ] metadata
, } options{ msg_type= true string_  = 007 a1 = ""// no comment"" ; } MetaData packetx{ BodyLength
body
    `line1
line2`/// triple
, float tag,x_y_z string_`crlf
line` , BodyLength f32a`" ++ [28040; 24687; 31867; 22411]%N ++ runes_of_ascii "`
// a // b
// packet A { u8 x, }
,
    char[ 255
]  stringy , }
")).
Eval vm_compute in ("<<<M4139>>>" ++ check (runes_of_ascii "

  packet
Packet
{

match
	a1	as
    calculatedFrom	//
  {

    // `tick` ""quote"" 'q'
  00 :
falsey 
""" ++ [233]%N ++ runes_of_ascii "t" ++ [233]%N ++ runes_of_ascii """ :
string_  ,[
    00 ]
    :
o, 
""it's"" :	u ,//	t
	10
:  BodyLength
	""1""

: BodyLength
, }
,

}

    root 
packet calculatedFrom
	{ repeat
uint64
int `line1
line2` 
,string

    rootA `` ,
@lengthOf( i64_)
leftPad
    @calculatedFrom(
""\" ++ [233]%N ++ runes_of_ascii """)
`line1
line2`, uint8 x_y_z // `tick` ""quote"" 'q'
  `" ++ [28040; 24687; 31867; 22411]%N ++ runes_of_ascii "`, } 
options
    {} 
MetaData  crc  {pack 
asx
    `" ++ [233]%N ++ runes_of_ascii "`

    , }

packet
rootA { 
@lengthOf(
    x_y_z  ) repeat

T

Pad
// a // b
  	// " ++ [128512]%N ++ runes_of_ascii " emoji
,string len, 
match	float

    as

    matchKey {  ""a\""b""

:  x
//	t
    	, 
007 : calculatedFrom
,
	255 :	// @lengthOf(
    crc

    ,
	}
    ,
	int32 
  //x
  //
float
	, @leftPad ( 
' ')@lengthOf( stringy  )
	@calculatedFrom(  ""`tick`""
	)
    repeat float {

zchar[
00
]  crc	@calculatedFrom( ""1""

    )
    `// not a comment`
,
//x
    	string	stringy`doc` ,

}  ,

    i16
asx`doc` ,  
  // `tick` ""quote"" 'q'
} ")).
Eval vm_compute in ("<<<M3757>>>" ++ check (runes_of_ascii "// a // b
packet chars {
    i64_ tag `say ""hi""`,
}

// " ++ [128512]%N ++ runes_of_ascii " emoji
// `tick` ""quote"" 'q'
packet tag {
}// c

packet roots {
    repeat x_y_z `
    `,
}

packet lengthOf {
    // c
    i64 int `{ , }`,
    @lengthOf(trueish)
    @lengthOf(stringy)
    // @lengthOf(
    repeat x repeatCount `u8 x,`,
    char[] rootA,
    uint16 int @calculatedFrom(""\" ++ [233]%N ++ runes_of_ascii """) `say ""hi""`,
    @lengthOf(string_)
    char[] int @calculatedFrom(""a\\""),
    @tag(0)
    @calculatedFrom(""\n"")
    // " ++ [128512]%N ++ runes_of_ascii " emoji
    i32 string_ @lengthOf(falsey) `say ""hi""`,
    @tag(3)
    @lengthOf(BodyLength)
    repeat Z9_ {
        match T as charz {
            // packet A { u8 x, }
            [
                255, 00, 0123456789, ""a\""b"", """",
                ""\n"", ""\" ++ [233]%N ++ runes_of_ascii """
            ] : x_y_z,
            3 : Foo,
        },
        char[4294967296] calculatedFrom @lengthOf(Z9_),
    },
    i64 trueish @lengthOf(T) `" ++ [233]%N ++ runes_of_ascii "`,
    @lengthOf(body)
    @lengthOf(matchKey)
    tag trueish ``,
}

packet Foo {
}")).
Eval vm_compute in ("<<<M1222>>>" ++ check (runes_of_ascii "//	t
root packet Header{ @tag(
255  )
    float32 msg_type
// @lengthOf(
// packet A { u8 x, }
@lengthOf(u8x	) `" ++ [28040; 24687; 31867; 22411]%N ++ runes_of_ascii "` ,
    //x
    @calculatedFrom( ""a	b"" )
    repeat string i64_, repeat x_y_z {//x
asx , string i8i8 @lengthOf( float ) ,uint16 // `tick` ""quote"" 'q'
As// @lengthOf(
@calculatedFrom( ""x y""
    //
    )	, }	,//
@lengthOf( i8i8) msg_type { match
tag as Z9_ {
[1
    // " ++ [27880; 37322]%N ++ runes_of_ascii "
    , ""packet"" ] : Z9_ ,
[4294967296	] : options1
,""\n"" :
Pad,
} ,
    match calculatedFrom as packetx
{ 0123456789 /// triple
:	metadata [ """ ++ [233]%N ++ runes_of_ascii "t" ++ [233]%N ++ runes_of_ascii """
] :
    T , 1
    : i64_ , } , //	t
match BodyLength as chars{ 0
    : metadata
,""" ++ [128512]%N ++ runes_of_ascii """
: u128, ""a\""b"" :
    calculatedFrom ,
0
: As, """ ++ [128512]%N ++ runes_of_ascii """ :x_y_z 7
    :f32a,}//	t
,u trueish
    // " ++ [128512]%N ++ runes_of_ascii " emoji
    ,
} , } MetaData charz
{i32 // " ++ [128512]%N ++ runes_of_ascii " emoji
x `u8 x,`
,
char[]
calculatedFrom`two words`, int8
// packet A { u8 x, }
// trailing space 
packetx `crlf
line`	, } MetaData//	t
charz {
}
")).
Eval vm_compute in ("<<<M4231>>>" ++ check (runes_of_ascii "// top

options
	// c0
  {	LittleEndian
    // c2
  = 	 // c3

	true
    // c4
      ;
    // c5
		} 	 // c6
	packet // c7a
  	// c7b
	Logon
// c8
		{ 	 // c9a
    // c9b
u8
// c10
      x

    // c11

  ,// c12
    string
    // c13
      user
    ,  // c15a
    // c15b

  } 	 // c16a
	  // c16b
    	packet	// c17
	Logout// c18a

// c18b
		{ 
// c19
		u16 
        // c20
reason	,} // c23a

  // c23b
  packet

Empty// c25a
  // c25b
  	{ // c26
    }
// c27
root// c28a
	  // c28b
    	packet// c29a
  	// c29b
Frame
        // c30
		{	u16 
        // c32
	MsgType  , 
        // c34

@lengthOf(
// c35

  Body

    ) // c37a
  // c37b
	  u8  // c38
BodyLen 	 // c39a
    // c39b
  , 
    // c40
    u8
// c41
flags 
,Logon 
// c44
    Body 
    // c45
,	// c46a
// c46b
  u32

trailer
	    // c48
	, // c49a

	// c49b

	} 	 // c50a

// c50b
")).
Eval vm_compute in ("<<<M1103>>>" ++ check (runes_of_ascii "/// triple
packet // packet A { u8 x, }
asx{stringy BodyLength `doc`,
    @tag( 00 ) A
    {  f32a  , i32 // @lengthOf(
x_y_z @calculatedFrom( //
""1"" ) `doc`, u32 // packet A { u8 x, }
x_y_z
    `" ++ [28040; 24687; 31867; 22411]%N ++ runes_of_ascii "` , uint16
o `a\`
, // a // b
} ,
//x
// trailing space 
@leftPad ( ' ' )
x_y_z @calculatedFrom( ""x y"" ) `{ , }` ,
@calculatedFrom(
""{,}""
    // " ++ [27880; 37322]%N ++ runes_of_ascii "
    )	MetaDataX ,
    }packet x_y_z {
    @calculatedFrom(
""a\\"" )
repeat char[
    4294967296 ]	zchar
    // `tick` ""quote"" 'q'
    `it's` , @tag( 10
)
matchKey
    @calculatedFrom( ""CRC32"")  , @calculatedFrom( ""it's"") repeat uint8x
, zchar[ 7 ]  msg_type @lengthOf( crc )
    `line1
line2` ,falsey { x_y_z MetaDataX, int32 chars `" ++ [233]%N ++ runes_of_ascii "`
// " ++ [128512]%N ++ runes_of_ascii " emoji
// " ++ [128512]%N ++ runes_of_ascii " emoji
, char[]
stringy @calculatedFrom( """ ++ [128512]%N ++ runes_of_ascii """
    )`" ++ [233]%N ++ runes_of_ascii "`,} ,@calculatedFrom(  ""abc""
// a // b
// a // b
) repeat char Z9_ , }
")).
Eval vm_compute in ("<<<M1187>>>" ++ check (runes_of_ascii "packet len {	@tag( 007 ) @lengthOf(  calculatedFrom
    // @lengthOf(
    )
@rightPad
( '0' )
roots
asx `
` ,@calculatedFrom(
    ""\" ++ [233]%N ++ runes_of_ascii """ )
    //
    repeatCount @lengthOf(matchKey
) `it's` , @lengthOf(
int ) match
    repeatCount as rootA {  ""packet""
// `tick` ""quote"" 'q'
// " ++ [27880; 37322]%N ++ runes_of_ascii "
: x_y_z
[ ""1""
    // `tick` ""quote"" 'q'
    ,
65535 , 3, ""{,}"" ,//x
"""" ]
:
    Logon } ,repeat options1 ,
stringy@lengthOf(
/// triple
//	t
Header )
`
` ,
    repeat
zchar[ 7 ]msg_type `tab	here`
,/// triple
zchar[ 10] u8x, Pad
    {u8x
@calculatedFrom(	""packet"" )  ,},  i8i8 {
repeat uint8x lengthOf ,
    match Z9_
    as A
    // " ++ [128512]%N ++ runes_of_ascii " emoji
    { 0	:trueish , } ,
} , match
u128 as lengthOf //	t
{
    3	: //	t
Pad}
// c
//	t
, }
packet calculatedFrom
{
zchar[ // `tick` ""quote"" 'q'
10
]repeatCount
    ,}")).
Eval vm_compute in ("<<<M1343>>>" ++ check (runes_of_ascii "MetaData
    int	{ zchar[  3 ] matchKey ,  zchar[ //	t
3]
    Pad, zchar tag
    ,
    f64  Z9_`u8 x,`
, char[ 255 ] f32a ,	} packet
string_{ @tag(
    // @lengthOf(
    42) match metadata as uint8x {
    ""1"" : x_y_z [ ""\n""
// c
//
]
:chars ,} //
,	lengthOf// " ++ [27880; 37322]%N ++ runes_of_ascii "
{
    repeat
i64 pack , repeat
zchar[ 42
] body ,//	t
match metadata
// `tick` ""quote"" 'q'
// trailing space 
as Pad
{
1:u8x , [
    ""packet"" ] : Logon  , ""{,}"" : Header ""1"":// " ++ [128512]%N ++ runes_of_ascii " emoji
o ,""" ++ [233]%N ++ runes_of_ascii "t" ++ [233]%N ++ runes_of_ascii """ : leftPad ,
    """ ++ [233]%N ++ runes_of_ascii "t" ++ [233]%N ++ runes_of_ascii """ :
    As, }
    , }
    , @tag( 65535
)
repeat// trailing space 
uint8 chars
,@tag(	3 ) @rightPad /// triple
( ' ' ) @leftPad
    ( ' ') u64 stringy
//	t
// @lengthOf(
, @rightPad
    ( ' ' ) repeat Header `line1
line2` ,
@rightPad( ' '
)repeat string charz , } 	 ")).
Eval vm_compute in ("<<<M3993>>>" ++ check (runes_of_ascii "packet options1 {
    repeat matchKey `doc`,
    char[] string_ `
        `,// packet A { u8 x, }
    uint16 T,
    repeatCount _x,
}

packet msg_type {
    @lengthOf(Pad)
    asx @calculatedFrom(""\" ++ [233]%N ++ runes_of_ascii """),
    @tag(4294967296)
    Logon `a\`,
    @tag(0)
    crc @lengthOf(charz) `u8 x,`,
    char[0] f32a,
    u8 A `line1
        line2`,
    Z9_ u `{ , }`,
    repeat uint8x `" ++ [28040; 24687; 31867; 22411]%N ++ runes_of_ascii "`,
    int8 Packet @calculatedFrom(""{,}""),
}

packet A {
    @tag(3)
    @tag(1)
    u16 A,
    @tag(1)
    match roots as pack {
        // c
        [""CRC32""] : i8i8,
        ""a\\"" : trueish,
        [""{,}"", """ ++ [28040; 24687]%N ++ runes_of_ascii """] : falsey,
    },
    @rightPad(' ')
    int16 Packet `
        `,// `tick` ""quote"" 'q'
    repeat zchar[1] Pad,// a // b
}")).
Eval vm_compute in ("<<<M4269>>>" ++ check (runes_of_ascii "root packet T {
    @tag(0)
    u64 int,
    match rootA as BodyLength {
        ""it's"" : o,
        10 : int,
        ""packet"" : string_,
        [
            3, 0123456789, 007, 7, 3,
            007, ""abc""
        ] : int,
    },
    match i64_ as options1 {
        0123456789 : zchar,
        00 : pack,
    },
    match zchar as options1 {
        ""it's"" : matchKey,
        ""1"" : u128,
        ""`tick`"" : trueish,
        // packet A { u8 x, }
        255 : crc,
    },
}

packet Z9_ {
    BodyLength @calculatedFrom(""x y"") `" ++ [28040; 24687; 31867; 22411]%N ++ runes_of_ascii "`,
    @lengthOf(metadata)
    repeat i8i8 zchar `" ++ [28040; 24687; 31867; 22411]%N ++ runes_of_ascii "`,
    zchar[255] uint8x,
    int8 Z9_ @calculatedFrom(""""),
}// packet A { u8 x, }")).
Eval vm_compute in ("<<<M4054>>>" ++ check (runes_of_ascii "packet Logon {
    repeat char MetaDataX `say ""hi""`,
    @lengthOf(packetx)
    char[] repeatCount `doc`,
    @leftPad('0')
    @tag(7)
    Header @calculatedFrom(""""),
    @lengthOf(MetaDataX)
    match x as Header {
        ""x y"" : u8x,
        """ ++ [128512]%N ++ runes_of_ascii """ : charz,
        """ ++ [233]%N ++ runes_of_ascii "t" ++ [233]%N ++ runes_of_ascii """ : _x,
        [3, 00] : uint8x,
        ""it's"" : rootA,
        [00, 65535] : zchar,
    },
    @calculatedFrom(""// no comment"")
    int32 i64_,
    repeat body {
        zchar[10] BodyLength `line1
        line2`,
        lengthOf Logon,// @lengthOf(
        repeat float64 i8i8,
        char[0123456789] leftPad `
        `,
    },
    repeat char[255] a1 `" ++ [28040; 24687; 31867; 22411]%N ++ runes_of_ascii "`,
}")).
Eval vm_compute in ("<<<M4065>>>" ++ check (runes_of_ascii "packet falsey {
    @leftPad()
    zchar[1] f32a,
    _x {
        int32 u128,
        rootA,
    },
    @rightPad('\x00')
    // " ++ [27880; 37322]%N ++ runes_of_ascii "
    char matchKey,
    @lengthOf(As)
    match pack as BodyLength {
        ""1"" : tag,
        [65535] : msg_type,
        [""`tick`""] : falsey,
        ""// no comment"" : u128,
    },// " ++ [128512]%N ++ runes_of_ascii " emoji
    match len as Z9_ {
        [10, ""a	b""] : Foo,
        255 : int,
        0123456789 : tag,
        1 : metadata,
        [00, 4294967296, """ ++ [28040; 24687]%N ++ runes_of_ascii """] : roots,
        [42, 4294967296, 10, 00, 4294967296] : int,
    },
    @calculatedFrom(""{,}"")
    repeat _x {
        tag `doc`,
    },
}")).
Eval vm_compute in ("<<<M4104>>>" ++ check (runes_of_ascii "packet Packet {
    zchar[00] u @lengthOf(tag),
    repeat string u8x `u8 x,`,
    packetx {
        repeat uint8 leftPad `doc`,
    },// " ++ [27880; 37322]%N ++ runes_of_ascii "
    @tag(0123456789)
    char[] chars @lengthOf(rootA) `{ , }`,
    uint8 Packet,
    repeat a1 `two words`,
    @calculatedFrom(""it's"")
    string_ {
        u16 A `crlf
        line`,
        repeat string uint8x,
        string u128,
    },
}

packet MetaDataX {
    @tag(0123456789)
    char[3] Packet,
}

MetaData repeatCount {
}

root packet u8x {
    x_y_z @lengthOf(o) `two words`,// " ++ [27880; 37322]%N ++ runes_of_ascii "
    repeat zchar[0123456789] len `" ++ [233]%N ++ runes_of_ascii "`,
}")).
Eval vm_compute in ("<<<M3546>>>" ++ check (runes_of_ascii "// top
packet
    // c0
Sub // c1
{ // c2a
  // c2b
u8 // c3a
  // c3b
a // c4a
  // c4b
, @calculatedFrom(
    // c6
""CRC16"" )
    // c8
i16 // c9a
  // c9b
SubSum // c10
, } // c12
root // c13a
  // c13b
packet Frame
    // c15
{ u16 // c17a
  // c17b
MsgType ,
    // c19
u16 // c20a
  // c20b
BodyLen
    // c21
@lengthOf(
    // c22
Body // c23
) , // c25a
  // c25b
Sub
    // c26
Body , string // c29
note , // c31
@calculatedFrom(
    // c32
""CRC16"" ) // c34a
  // c34b
i16 Checksum , // c37
u8 tail
    // c39
, // c40a
  // c40b
} ")).
Eval vm_compute in ("<<<M36>>>" ++ check (runes_of_ascii "root packet
leftPad { match roots as packetx{
42 : chars, 255 : f32a , }
    , @rightPad
(	' ' ) // @lengthOf(
charz
    @lengthOf( packetx ) , i32 u8x  , uint8x
, } root packet x_y_z { u64 packetx
@lengthOf( stringy )
    ,
    @leftPad// " ++ [27880; 37322]%N ++ runes_of_ascii "
( ' '
    ) // packet A { u8 x, }
@rightPad ( '\x00'
    ) // trailing space 
@calculatedFrom(	""\" ++ [233]%N ++ runes_of_ascii """ ) uint8
MetaDataX@lengthOf(
    As
    ) ,@lengthOf(
rootA ) // c
float64 uint8x`say ""hi""` ,@leftPad ( ' ' ) repeat float64 Pad ,
    // packet A { u8 x, }
    }
")).
Eval vm_compute in ("<<<M813>>>" ++ check (runes_of_ascii "root packet
asx
    { match float	as float { 10
    :
    Z9_,
    [ 3,
0 ] //	t
: leftPad
, 7 :
    msg_type ,
}, BodyLength roots
, u32
    len  `tab	here`, @tag(42
) float64
charz @lengthOf( float)
    , u ,char[] T @calculatedFrom(
    ""a	b"") `// not a comment` , BodyLength ,
repeat MetaDataX
    ,
    @calculatedFrom(
""CRC32"" )@calculatedFrom(
// c
//	t
""packet"") @leftPad (// a // b
'\x00' ) msg_type	@lengthOf(
    /// triple
    _x
) ,} options{// c
crc =
    ""`tick`"" ; }")).
Eval vm_compute in ("<<<M211>>>" ++ check (runes_of_ascii "packet leftPad
    {  BodyLength
{ // a // b
rootA {
char[ 00]
leftPad,
    // trailing space 
    tag // " ++ [27880; 37322]%N ++ runes_of_ascii "
@calculatedFrom( ""abc""
    // " ++ [128512]%N ++ runes_of_ascii " emoji
    ) , char[	42 ] // c
len ,
string MetaDataX  ,}, match Z9_ as A { ""1""  : x, ""packet"" // trailing space 
: lengthOf	} , i64
    // trailing space 
    chars @lengthOf(	msg_type
    ) `
`
, },zchar[ 3 //
]  u128
    @lengthOf(//	t
packetx
) , @leftPad ( '\x00'
)char[] chars @calculatedFrom( ""`tick`"" ) //
, }
")).
Eval vm_compute in ("<<<M337>>>" ++ check (runes_of_ascii "packet
    // " ++ [128512]%N ++ runes_of_ascii " emoji
    Header {	@calculatedFrom( """" ) @calculatedFrom(
""" ++ [128512]%N ++ runes_of_ascii """ )  @calculatedFrom(
""it's"" ) tag
// trailing space 
//
{int32 repeatCount
,f32a //
@lengthOf(
    BodyLength ) , calculatedFrom{ i64_
    len, trueish @lengthOf( body ) `
` , i64 f32a `u8 x,`, //x
match  Foo as A { 007
: options1
//x
/// triple
,  255: charz ,""" ++ [233]%N ++ runes_of_ascii "t" ++ [233]%N ++ runes_of_ascii """ :zchar
, ""`tick`""	:
    u8x
    ,  1 : len },}, } ,
    repeat leftPad { uint32 packetx	`` , } // c
, }")).
Eval vm_compute in ("<<<M1163>>>" ++ check (runes_of_ascii "MetaData
    uint8x {
_x  stringy ,	i8i8
_x, char[
    1 ] a1
    `it's` ,
crc metadata
,
} packet Logon {/// triple
repeat Logon stringy
    , match falsey  as
T/// triple
{ [ 1  ]
    :packetx 65535 : pack	, [ """ ++ [28040; 24687]%N ++ runes_of_ascii """
, ""abc""] : metadata ,}// @lengthOf(
,
@calculatedFrom(	""x y""
//	t
//
)repeat	len {lengthOf @calculatedFrom(
""`tick`""), u8x msg_type,
},
    @calculatedFrom( ""\n"" ) repeat
    // @lengthOf(
    i64 BodyLength , }
")).
Eval vm_compute in ("<<<M1124>>>" ++ check (runes_of_ascii "MetaData
    // `tick` ""quote"" 'q'
    o { i64 crc , }
packet falsey{	@tag( 0 )
zchar @calculatedFrom(""x y"" ),crc // `tick` ""quote"" 'q'
{
char[ 7 ] Packet
@lengthOf( asx ) , } ,
@tag( 4294967296) @calculatedFrom(
""" ++ [128512]%N ++ runes_of_ascii """ ) x_y_z trueish ,
    @calculatedFrom(
    ""\n"") // c
falsey
    Packet
,float { T o
    ,	zchar[ 4294967296 ]chars
    , zchar[7] options1@calculatedFrom(  ""a\\"" ) ,
repeat float32 Pad
    , }
, }
")).
Eval vm_compute in ("<<<M945>>>" ++ check (runes_of_ascii "root packet// trailing space 
i64_ {@leftPad
    ( '\x00'
// a // b
// `tick` ""quote"" 'q'
)
match roots  as A { [ ""\n""
/// triple
//
,
10 , 00
    ] :asx ,} ,	zchar[
1] body
@calculatedFrom( ""abc"" ) `line1
line2`// c
, int8	Z9_ ,	u { falsey zchar ,
    repeat uint16 a1
,},repeat uint16 i64_ `crlf
line`
, pack  `crlf
line`
    , roots ,
match u128 as o	{00: /// triple
Header ,},repeat u A , }
")).
Eval vm_compute in ("<<<M1285>>>" ++ check (runes_of_ascii "
options { A
= ""it's""
} options { }packet	pack {
int16 zchar ,
    @tag( 007 )@lengthOf( Pad
)// trailing space 
@leftPad ( ' '
)match stringy as body{
    [255 ,
42
, // " ++ [128512]%N ++ runes_of_ascii " emoji
1
    // trailing space 
    , 00 ,
    """",
10
, ""{,}"" ] :
    repeatCount
, [ 1 ] : x_y_z ,
    ""`tick`""
:
packetx, 7 : u128,
    } // `tick` ""quote"" 'q'
,u32 body@lengthOf(	stringy )
, } 	 ")).
Eval vm_compute in ("<<<M933>>>" ++ check (runes_of_ascii "packet chars { @lengthOf(As )// packet A { u8 x, }
u128 Logon /// triple
`line1
line2`
,
//x
// `tick` ""quote"" 'q'
f32a
, //x
@rightPad  (
    '\x00' )zchar[
10] As
    /// triple
    `doc`, u8x
    @lengthOf(
// a // b
//
u128) ,
    @lengthOf(	matchKey// @lengthOf(
)@calculatedFrom(""CRC32""
) @calculatedFrom( ""a\\"" ) repeat Z9_
    // c
    uint8x `u8 x,` , }")).
Eval vm_compute in ("<<<M426>>>" ++ check (runes_of_ascii "
options
{A =' '_x
='\x00' /// triple
string_  =
""it's""
;
// trailing space 
// @lengthOf(
}
    options
{ u8x //
= ""it's""
    ;
lengthOf
= true ; }packet matchKey	{
    // trailing space 
    char[ 65535 ]
charz,
// " ++ [128512]%N ++ runes_of_ascii " emoji
//x
uint8x , @leftPad
    // a // b
    ('\x00') repeat tag Pad
    , i32 i8i8
@lengthOf(
    MetaDataX)/// triple
, }
")).
Eval vm_compute in ("<<<M748>>>" ++ check (runes_of_ascii "root packet BodyLength {
    @rightPad ( '\x00'  )
    repeat char[]len	`" ++ [233]%N ++ runes_of_ascii "`, int32	lengthOf `` //x
, } root packet matchKey{repeat string u8x `line1
line2` , Header// @lengthOf(
{ u128 T
, // trailing space 
} , }
packet
uint8x{
    @lengthOf(
    Header
)  a1@calculatedFrom( """" )
    // `tick` ""quote"" 'q'
    `" ++ [233]%N ++ runes_of_ascii "` ,
//
// " ++ [128512]%N ++ runes_of_ascii " emoji
}")).
Eval vm_compute in ("<<<M978>>>" ++ check (runes_of_ascii "packet
    calculatedFrom
{ @tag(
// packet A { u8 x, }
// trailing space 
007
//	t
// " ++ [27880; 37322]%N ++ runes_of_ascii "
)
/// triple
// `tick` ""quote"" 'q'
match
charz as
    Pad
    {[	""a	b""  ,
255 ]// c
: a1, 0  :
lengthOf
    , 4294967296 : charz
, [7 , ""a\\"" ,
    """"
,	007
, """ ++ [233]%N ++ runes_of_ascii "t" ++ [233]%N ++ runes_of_ascii """ , """ ++ [28040; 24687]%N ++ runes_of_ascii """, 7 ]:// a // b
trueish
, ""\" ++ [233]%N ++ runes_of_ascii """
    :
    BodyLength
}, }
")).
Eval vm_compute in ("<<<M3550>>>" ++ check (runes_of_ascii "
options  { LittleEndian 
= true
    ;

}
packet	Logon {
u8 
x,

} 
packet
Logout {u16

reason ,
}
	root packet Frame {i64
Kind
,	i64

    Kind2,match Kind as  Body{ 1  : Logon

,	[

    2 
,3  ,

    4
	]: 
Logout
,100: Logon

    ,}  ,
match
Kind2
as

    Trailer
    {0 
: Logout,

}

,}

")).
Eval vm_compute in ("<<<M3722>>>" ++ check (runes_of_ascii "options {
    A = ' '
    _x = '\x00'/// triple
    string_ = ""it's"";
}

options {
    u8x = ""it's"";
    lengthOf = true;
}

packet matchKey {
    // trailing space 
    char[65535] charz,
    // " ++ [128512]%N ++ runes_of_ascii " emoji
    //x
    uint8x,
    @leftPad('\x00')
    repeat tag Pad,
    i32 i8i8 @lengthOf(MetaDataX),
}")).
Eval vm_compute in ("<<<M265>>>" ++ check (runes_of_ascii "MetaData x { char[]crc , char[7 ]float, u64 //	t
f32a	,}
    packet
int
    {Pad/// triple
@lengthOf(Pad )
`{ , }`, }
    MetaData
/// triple
//
T {
A
i8i8`it's` ,
u8x options1 , roots zchar // `tick` ""quote"" 'q'
,	int16 u8x , char[] a1
`say ""hi""`, char
//	t
/// triple
Pad ,
    } // a // b")).
Eval vm_compute in ("<<<M1575>>>" ++ check (runes_of_ascii "root packet Foo // " ++ [128512]%N ++ runes_of_ascii " emoji
{ } options {
    // a // b
    tag // `tick` ""quote"" 'q'
= //	t
""""
    ; u8x = zchar[0  ] }
MetaData
    int {zchar[ 10]
lengthOf	`` , i64 u8x`// not a comment` ,MetaDataX pack// `tick` ""quote"" 'q'
`crlf
line`
, , Logon charz `crlf
line`
    ,
    // a // b
    }
")).
Eval vm_compute in ("<<<M1446>>>" ++ check (runes_of_ascii "root packet Foo // " ++ [128512]%N ++ runes_of_ascii " emoji
{ } options {
    // a // b
    = // `tick` ""quote"" 'q'
tag //	t
""""
    ; u8x = zchar[0  ] }
MetaData
    int {zchar[ 10]
lengthOf	`` , i64 u8x`// not a comment` ,MetaDataX pack// `tick` ""quote"" 'q'
`crlf
line`
, Logon charz `crlf
line`
    ,
    // a // b
    }
")).
Eval vm_compute in ("<<<M4018>>>" ++ check (runes_of_ascii "options {
    // c1a
    // c1b
    FixedStringPadChar = '0';// c5
}

packet Q {
    zchar[4] z,
    @rightPad('\x00')
    // c18
    char[3] n,
    // c23
    char[5] d,// c28a
}// c29a

// c29b
root packet R {
    // c33a
    // c33b
    Q,
    zchar[8] top,// c40
    repeat zchar[2] zs,
}")).
Eval vm_compute in ("<<<M1419>>>" ++ check (runes_of_ascii "root packet  // " ++ [128512]%N ++ runes_of_ascii " emoji
{ } options {
    // a // b
    tag // `tick` ""quote"" 'q'
= //	t
""""
    ; u8x = zchar[0  ] }
MetaData
    int {zchar[ 10]
lengthOf	`` , i64 u8x`// not a comment` ,MetaDataX pack// `tick` ""quote"" 'q'
`crlf
line`
, Logon charz `crlf
line`
    ,
    // a // b
    }
")).
Eval vm_compute in ("<<<M1434>>>" ++ check (runes_of_ascii "root packet Foo // " ++ [128512]%N ++ runes_of_ascii " emoji
{ }  {
    // a // b
    tag // `tick` ""quote"" 'q'
= //	t
""""
    ; u8x = zchar[0  ] }
MetaData
    int {zchar[ 10]
lengthOf	`` , i64 u8x`// not a comment` ,MetaDataX pack// `tick` ""quote"" 'q'
`crlf
line`
, Logon charz `crlf
line`
    ,
    // a // b
    }
")).
Eval vm_compute in ("<<<M578>>>" ++ check (runes_of_ascii "packet chars
    {  rootA i64_
, @calculatedFrom(
    ""1"" ) len @lengthOf(A )`two words`
,repeat float32 leftPad
    ,
match	Z9_ as Pad{
[
""" ++ [28040; 24687]%N ++ runes_of_ascii """ // a // b
, ""\" ++ [233]%N ++ runes_of_ascii """	,	00 ,  10 ] : As
, }  ,
    }MetaData matchKey {
    leftPad uint8x`a\` , body x_y_z  ,} packet
    tag
{}")).
Eval vm_compute in ("<<<M766>>>" ++ check (runes_of_ascii "root packet // trailing space 
crc { @lengthOf(
//	t
// " ++ [27880; 37322]%N ++ runes_of_ascii "
i8i8 )@tag( 42 ) @calculatedFrom( ""CRC32"" )
//	t
//x
repeat x uint8x ,	zchar[
    // a // b
    0 ]x_y_z @lengthOf(
    stringy ), As trueish ,
} // " ++ [27880; 37322]%N ++ runes_of_ascii "
root// packet A { u8 x, }
packet chars{
    } // " ++ [27880; 37322]%N)).
Eval vm_compute in ("<<<M4012>>>" ++ check (runes_of_ascii "packet crc {
    // " ++ [128512]%N ++ runes_of_ascii " emoji
    int `" ++ [28040; 24687; 31867; 22411]%N ++ runes_of_ascii "`,
    repeat Header `doc`,
    @tag(65535)
    leftPad BodyLength `// not a comment`,/// triple
    char[42] roots ``,
}

packet uint8x {
    @lengthOf(i8i8)
    // trailing space 
    //	t
    Pad MetaDataX,
}")).
Eval vm_compute in ("<<<M600>>>" ++ check (runes_of_ascii "MetaData Header
{ uint64 lengthOf , int32 packetx , matchKey u8x `say ""hi""`,char[]
T , packetx options1 , Packet falsey ,} // @lengthOf(
options// c
{ u128
//x
// " ++ [128512]%N ++ runes_of_ascii " emoji
=65535	Foo
    = true } /// triple
packet int{ }MetaData
    u {}

")).
Eval vm_compute in ("<<<M920>>>" ++ check (runes_of_ascii "packet len
    { repeat
metadata
    ,}
root packet
string_ { @calculatedFrom(""\n""	)  i16 Z9_ @calculatedFrom(
    // a // b
    ""a\\"") // packet A { u8 x, }
,
metadata @calculatedFrom( ""CRC32"")//
`u8 x,`,f64 options1 // " ++ [27880; 37322]%N ++ runes_of_ascii "
,	} 	 ")).
Eval vm_compute in ("<<<M2346>>>" ++ check (runes_of_ascii "MetaData Packet { }packet	asx  { @lengthOf( asx) falsey`crlf
line`
,
    }
    packet x	{uint32// @lengthOf(
rootA	,u32 options1 `say ""hi""` , @tag( 7
    )// packet A { u8 x, }
msg_type msg_type @lengthOf(
stringy	)	, }

")).
Eval vm_compute in ("<<<M2288>>>" ++ check (runes_of_ascii "MetaData Packet { }packet	asx  { @lengthOf( asx) falsey`crlf
line`
,
    }
    packet zchar[	{uint32// @lengthOf(
rootA	,u32 options1 `say ""hi""` , @tag( 7
    )// packet A { u8 x, }
msg_type @lengthOf(
stringy	)	, }

")).
Eval vm_compute in ("<<<M2326>>>" ++ check (runes_of_ascii "MetaData Packet { }packet	asx  { @lengthOf( asx) falsey`crlf
line`
,
    }
    packet x	{uint32// @lengthOf(
rootA	,u32 options1 `say ""hi""` , , @tag( 7
    )// packet A { u8 x, }
msg_type @lengthOf(
stringy	)	, }

")).
Eval vm_compute in ("<<<M2232>>>" ++ check (runes_of_ascii "MetaData Packet { }asx	packet  { @lengthOf( asx) falsey`crlf
line`
,
    }
    packet x	{uint32// @lengthOf(
rootA	,u32 options1 `say ""hi""` , @tag( 7
    )// packet A { u8 x, }
msg_type @lengthOf(
stringy	)	, }

")).
Eval vm_compute in ("<<<M2225>>>" ++ check (runes_of_ascii "MetaData Packet { packet	asx  { @lengthOf( asx) falsey`crlf
line`
,
    }
    packet x	{uint32// @lengthOf(
rootA	,u32 options1 `say ""hi""` , @tag( 7
    )// packet A { u8 x, }
msg_type @lengthOf(
stringy	)	, }

")).
Eval vm_compute in ("<<<M2219>>>" ++ check (runes_of_ascii "MetaData as { }packet	asx  { @lengthOf( asx) falsey`crlf
line`
,
    }
    packet x	{uint32// @lengthOf(
rootA	,u32 options1 `say ""hi""` , @tag( 7
    )// packet A { u8 x, }
msg_type @lengthOf(
stringy	)	, }

")).
Eval vm_compute in ("<<<M2268>>>" ++ check (runes_of_ascii "MetaData Packet { }packet	asx  { @lengthOf( asx) falsey i32
,
    }
    packet x	{uint32// @lengthOf(
rootA	,u32 options1 `say ""hi""` , @tag( 7
    )// packet A { u8 x, }
msg_type @lengthOf(
stringy	)	, }

")).
Eval vm_compute in ("<<<M1304>>>" ++ check (runes_of_ascii "packet
    u8x { int32 o
    , }  options {//x
options1 =
    10
    // a // b
    Header
= 1// " ++ [27880; 37322]%N ++ runes_of_ascii "
;	lengthOf = '\x00'; } root packet // packet A { u8 x, }
falsey { @lengthOf( Header ) Foo
`" ++ [28040; 24687; 31867; 22411]%N ++ runes_of_ascii "` ,}")).
Eval vm_compute in ("<<<M827>>>" ++ check (runes_of_ascii "packet _x{Pad``, f32 roots , i8 // " ++ [27880; 37322]%N ++ runes_of_ascii "
pack, @lengthOf(
    roots	)repeat
zchar[	65535 ] int,
@lengthOf( u8x )
repeat int16
msg_type , } // @lengthOf(
MetaData
BodyLength {char[] _x `doc`
, }
")).
Eval vm_compute in ("<<<M3425>>>" ++ check (runes_of_ascii "// top
packet
    // c0
Inner { // c2a
  // c2b
u8 a // c4a
  // c4b
, } root
    // c7
packet // c8a
  // c8b
P // c9
{ // c10
Inner ref_obj , u8 x
    // c15
,
    // c16
}
    // c17
")).
Eval vm_compute in ("<<<M162>>>" ++ check (runes_of_ascii "packet float {// a // b
@lengthOf(
    T ) repeat charz
    {
    // c
    packetx @calculatedFrom( """ ++ [28040; 24687]%N ++ runes_of_ascii """)
    `" ++ [233]%N ++ runes_of_ascii "` // " ++ [27880; 37322]%N ++ runes_of_ascii "
, char[
4294967296 //x
]Header	,  }
    , } /// triple")).
Eval vm_compute in ("<<<M295>>>" ++ check (runes_of_ascii "options{zchar
=7 ;
// c
// packet A { u8 x, }
msg_type =	uint8 falsey =	1 ;
}
    MetaData  Pad// @lengthOf(
{ f64	u `tab	here`
,// a // b
}	options {
    }
// " ++ [128512]%N ++ runes_of_ascii " emoji
")).
Eval vm_compute in ("<<<M1243>>>" ++ check (runes_of_ascii "
packet string_{metadata
// a // b
/// triple
@lengthOf(	T), @lengthOf( x ) Logon @calculatedFrom( """"
)
, @calculatedFrom( ""a	b""
) x_y_z
    `say ""hi""` ,
    }
")).
Eval vm_compute in ("<<<M963>>>" ++ check (runes_of_ascii "root packet int
{  trueish @calculatedFrom(  ""it's"" )
    `doc` , string T
`crlf
line`, repeat rootA {match chars as tag{ [  """ ++ [233]%N ++ runes_of_ascii "t" ++ [233]%N ++ runes_of_ascii """
] :	uint8x,
} , } , }
")).
Eval vm_compute in ("<<<M1528>>>" ++ check (runes_of_ascii "root packet Foo // " ++ [128512]%N ++ runes_of_ascii " emoji
{ } options {
    // a // b
    tag // `tick` ""quote"" 'q'
= //	t
""""
    ; u8x = zchar[0  ] }
MetaData
    int {zchar[ 10]")).
Eval vm_compute in ("<<<M1396>>>" ++ check (runes_of_ascii "root packet  BodyLength
{
}// `tick` ""quote"" 'q'
root
    // `tick` ""quote"" 'q'
    packet f32a// c
{
@leftPad ( '0')
    //
    int8	Z9_	,}

")).
Eval vm_compute in ("<<<M1078>>>" ++ check (runes_of_ascii "MetaData u128 { char[ 3
] leftPad
, char[] u8x	`{ , }` ,Header i8i8 , } options {
    //
    crc	= ""// no comment""asx
= ""CRC32"" ;
    }
")).
Eval vm_compute in ("<<<M1634>>>" ++ check (runes_of_ascii "root packet /// triple
rootA rootA {	i32
MetaDataX@calculatedFrom( ""CRC32"" ) `line1
line2` , } MetaData BodyLength {
u8
rootA, } // c")).
Eval vm_compute in ("<<<M1700>>>" ++ check (runes_of_ascii "root packet /// triple
rootA {	i32
MetaDataX@calculatedFrom( ""CRC32"" ) `line1
line2` , } MetaData BodyLength {
""a\\""
rootA, } // c")).
Eval vm_compute in ("<<<M1730>>>" ++ check (runes_of_ascii "root pac#ket /// triple
rootA {	i32
MetaDataX@calculatedFrom( ""CRC32"" ) `line1
line2` , } MetaData BodyLength {
u8
rootA, } // c")).
Eval vm_compute in ("<<<M1637>>>" ++ check (runes_of_ascii "root packet /// triple
rootA 	i32
MetaDataX@calculatedFrom( ""CRC32"" ) `line1
line2` , } MetaData BodyLength {
u8
rootA, } // c")).
Eval vm_compute in ("<<<M1642>>>" ++ check (runes_of_ascii "root packet /// triple
rootA {	
MetaDataX@calculatedFrom( ""CRC32"" ) `line1
line2` , } MetaData BodyLength {
u8
rootA, } // c")).
Eval vm_compute in ("<<<M1872>>>" ++ check (runes_of_ascii "packet
    Pad // a // b
{ i8i8 @calculatedFrom( ""a	b"") `u8 x,` ,
} options{ float// " ++ [128512]%N ++ runes_of_ascii " emoji
= f64 i64_
=//	t
00 float64
")).
Eval vm_compute in ("<<<M1195>>>" ++ check (runes_of_ascii "options /// triple
{ tag =char[ 00 ]
; } root
    packet
    // @lengthOf(
    Header { /// triple
repeat  packetx , }
")).
Eval vm_compute in ("<<<M3966>>>" ++ check (runes_of_ascii "
packet A
    {
    match k

as
n {

    [  ""a""

    ,

""bb""
    ,  ""c c"" ]
    :
B

    2 
: C

}

    ,  } ")).
Eval vm_compute in ("<<<M1812>>>" ++ check (runes_of_ascii "packet
    Pad // a // b
{ i8i8 @calculatedFrom( ""a	b""`u8 x,` ) ,
} options{ float// " ++ [128512]%N ++ runes_of_ascii " emoji
= f64 i64_
=//	t
00 }
")).
Eval vm_compute in ("<<<M2309>>>" ++ check (runes_of_ascii "MetaData Packet { }packet	asx  { @lengthOf( asx) falsey`crlf
line`
,
    }
    packet x	{uint32// @lengthOf(
rootA")).
Eval vm_compute in ("<<<M4102>>>" ++ check (runes_of_ascii "
packet

B
	{
u8 a

, 
string  s 
,	}root  packet
	P 
{
    u16

L

    @lengthOf(

B )	,B
    ,

u8
t , 
}

")).
Eval vm_compute in ("<<<M2999>>>" ++ check (runes_of_ascii "packet A {
  match k as n {
    [""a"", ""bb"", 007, ""d"", ""e"", 66, ""g"", ""h"", 9, ""j"", ""k"", 12] : B,
    2 : C
  },
}")).
Eval vm_compute in ("<<<M2995>>>" ++ check (runes_of_ascii "packet A {
  match k as n {
    [""a"", 22, ""c c"", 4, ""e"", 66, ""g"", 8, ""i"", 10, ""k"", 12] : B,
    2 : C
  },
}")).
Eval vm_compute in ("<<<M616>>>" ++ check (runes_of_ascii "packet
msg_type { @rightPad ( )	@leftPad ('\x00' ) @rightPad// @lengthOf(
(
'\x00'  )  rootA
    ``, }
")).
Eval vm_compute in ("<<<M3350>>>" ++ check (runes_of_ascii "packet calculatedFrom { @tag( 4294967296 )
// c
u msg_type , char[ 3 ] crc @lengthOf( len ) `u8 x,` , }")).
Eval vm_compute in ("<<<M1982>>>" ++ check (runes_of_ascii "root
packet crc
    { f32a @calculatedFrom( @calculatedFrom( """ ++ [233]%N ++ runes_of_ascii "t" ++ [233]%N ++ runes_of_ascii """ )
    `say ""hi""`, lengthOf `` ,  }")).
Eval vm_compute in ("<<<M697>>>" ++ check (runes_of_ascii "options
{ tag = 42 }root packet
pack { zchar[ 007
// `tick` ""quote"" 'q'
// @lengthOf(
]	Packet , }")).
Eval vm_compute in ("<<<M3259>>>" ++ check (runes_of_ascii "packet Logon { @tag( 42 ) @rightPad ( ' ' ) @leftPad ( ) repeat trueish { string T , } , }
// c
")).
Eval vm_compute in ("<<<M3232>>>" ++ check (runes_of_ascii "packet Logon { @tag( 42 ) @rightPad ( ' ' // c
) @leftPad ( ) repeat trueish { string T , } , }")).
Eval vm_compute in ("<<<M878>>>" ++ check (runes_of_ascii "options {  chars = 10  MetaDataX= 3 ;Header
    =//x
zchar[ 7 ]x_y_z = """";
    i64_ =' ' ; }

")).
Eval vm_compute in ("<<<M521>>>" ++ check (runes_of_ascii "options { i8i8 = ""// no comment"" ; o
=
    '0'
    Header
='0' ; a1 =
    zchar[
    1
] }
")).
Eval vm_compute in ("<<<M2959>>>" ++ check (runes_of_ascii "packet A {
  match k as n {
    [1, 22, ""c c"", 4, 5, ""f"", 7, 8, ""i""] : B
    2 : C
  },
}")).
Eval vm_compute in ("<<<M3267>>>" ++ check (runes_of_ascii "// top
options
    // c0
{
    // c1
u8x
    // c2
=
    // c3
3
    // c4
}
    // c5
")).
Eval vm_compute in ("<<<M1993>>>" ++ check (runes_of_ascii "root
packet crc
    { f32a @calculatedFrom( """ ++ [233]%N ++ runes_of_ascii "t" ++ [233]%N ++ runes_of_ascii """ `say ""hi""`
    ), lengthOf `` ,  }")).
Eval vm_compute in ("<<<M1079>>>" ++ check (runes_of_ascii "MetaData packetx { zchar[
42 //	t
] uint8x `doc`
    , uint16
string_`two words`,}")).
Eval vm_compute in ("<<<M2933>>>" ++ check (runes_of_ascii "packet A {
  match k as n {
    [1, 22, ""c c"", 4, 5, ""f"", 7] : B
    2 : C
  },
}")).
Eval vm_compute in ("<<<M3323>>>" ++ check (runes_of_ascii "packet o { @tag( 42 ) repeat x { char[ 0123456789 ] i64_ , }
// c
, } options { }")).
Eval vm_compute in ("<<<M946>>>" ++ check (runes_of_ascii "
MetaData As
    { } // @lengthOf(
MetaData  crc {
float64 lengthOf `it's` , }")).
Eval vm_compute in ("<<<M201>>>" ++ check (runes_of_ascii "packet A { Logon {
    repeat  char[ 42 ]falsey `a\`  ,repeat int32 T , } ,}")).
Eval vm_compute in ("<<<M1984>>>" ++ check (runes_of_ascii "root
packet crc
    { f32a char[ """ ++ [233]%N ++ runes_of_ascii "t" ++ [233]%N ++ runes_of_ascii """ )
    `say ""hi""`, lengthOf `` ,  }")).
Eval vm_compute in ("<<<M4121>>>" ++ check (runes_of_ascii "packet
    A
{

    u8  x
    ,}// a
// b
  packet
	B	{ } // c
  // d")).
Eval vm_compute in ("<<<M3395>>>" ++ check (runes_of_ascii "MetaData // c
_x { zchar[ 4294967296 ] lengthOf `// not a comment` , }")).
Eval vm_compute in ("<<<M3633>>>" ++ check (runes_of_ascii "  packet
A {
B	b`a
b`
	,

    B	`a
b`
,
	repeat B bs`a
b`	,}

")).
Eval vm_compute in ("<<<M1032>>>" ++ check (runes_of_ascii "options { Logon
=
    /// triple
    4294967296 metadata = """ ++ [28040; 24687]%N ++ runes_of_ascii """ }
")).
Eval vm_compute in ("<<<M2872>>>" ++ check (runes_of_ascii "packet A {
  match k as n {
    [1, 22, 007] : B,
    2 : C
  },
}")).
Eval vm_compute in ("<<<M2923>>>" ++ check (runes_of_ascii "packet A { Inner { match k as n { [1,22,007,4,5,66] : B, }, }, }")).
Eval vm_compute in ("<<<M112>>>" ++ check (runes_of_ascii "options { calculatedFrom  =// `tick` ""quote"" 'q'
""packet""; }
")).
Eval vm_compute in ("<<<M3893>>>" ++ check (runes_of_ascii "
packet
A
	{

@tag( 
1

    ) @tag(
    2
	)
u8 
x ,
	}
")).
Eval vm_compute in ("<<<M4206>>>" ++ check (runes_of_ascii "// c
      MetaData

    zchar {  zchar[  3
	] 
Pad

,}
")).
Eval vm_compute in ("<<<M1948>>>" ++ check (runes_of_ascii "
packet	As { @calculatedFrom(//x
""{,}""	)lengthO" ++ [0]%N ++ runes_of_ascii "f , } 	 ")).
Eval vm_compute in ("<<<M1905>>>" ++ check (runes_of_ascii "
packet	As  @calculatedFrom(//x
""{,}""	)lengthOf , } 	 ")).
Eval vm_compute in ("<<<M377>>>" ++ check (runes_of_ascii "// " ++ [27880; 37322]%N ++ runes_of_ascii "
MetaData u128 {  char[
    3 ] f32a `doc` , }")).
Eval vm_compute in ("<<<M3785>>>" ++ check (runes_of_ascii "packet x_y_z {
    i8 As @calculatedFrom(""a	b""),
}")).
Eval vm_compute in ("<<<M2402>>>" ++ check (runes_of_ascii "MetaData {
A
i64
chars	, } // `tick` ""quote"" 'q'")).
Eval vm_compute in ("<<<M3030>>>" ++ check (runes_of_ascii "MetaData M {
    u8 x `a

b`,
    T t `a

b`,
}")).
Eval vm_compute in ("<<<M1758>>>" ++ check (runes_of_ascii "options { }options }  { // `tick` ""quote"" 'q'")).
Eval vm_compute in ("<<<M1399>>>" ++ check (runes_of_ascii "  packet asx{
calculatedFrom lengthOf
,	}
")).
Eval vm_compute in ("<<<M60>>>" ++ check (runes_of_ascii "root packet u
    /// triple
    {
    }
")).
Eval vm_compute in ("<<<M1448>>>" ++ check (runes_of_ascii "root packet Foo // " ++ [128512]%N ++ runes_of_ascii " emoji
{ } options {")).
Eval vm_compute in ("<<<M3201>>>" ++ check (runes_of_ascii "MetaData zchar { zchar[ 3 ]
// c
Pad , }")).
Eval vm_compute in ("<<<M412>>>" ++ check (runes_of_ascii "MetaData
// c
// @lengthOf(
T {
    }
")).
Eval vm_compute in ("<<<M1362>>>" ++ check (runes_of_ascii "// " ++ [27880; 37322]%N ++ runes_of_ascii "
options {
crc
=false
    ; }
")).
Eval vm_compute in ("<<<M3049>>>" ++ check (runes_of_ascii "root packet A {
    u8 x `tab
	x`,
}")).
Eval vm_compute in ("<<<M2615>>>" ++ check (runes_of_ascii "packet A { match k as n { 1 B }, }")).
Eval vm_compute in ("<<<M2249>>>" ++ check (runes_of_ascii "MetaData Packet { }packet	asx  {")).
Eval vm_compute in ("<<<M3979>>>" ++ check (runes_of_ascii "root packet As {
    trueish,
}")).
Eval vm_compute in ("<<<M3123>>>" ++ check (runes_of_ascii "packet A {
 u8 x `d" ++ [12]%N ++ runes_of_ascii "`, // c" ++ [12]%N ++ runes_of_ascii "
}")).
Eval vm_compute in ("<<<M2062>>>" ++ check (runes_of_ascii "MetaData A { u64 u64 pack, }")).
Eval vm_compute in ("<<<M2778>>>" ++ check ([65533; 28]%N ++ runes_of_ascii "#" ++ [65533; 65533]%N ++ runes_of_ascii "]" ++ [65533]%N ++ runes_of_ascii "L)" ++ [65533; 65533]%N ++ runes_of_ascii "." ++ [65533; 127]%N ++ runes_of_ascii "t" ++ [65533; 65533; 16]%N ++ runes_of_ascii ":H""*" ++ [65533; 65533]%N ++ runes_of_ascii "S" ++ [65533; 65533]%N)).
Eval vm_compute in ("<<<M3014>>>" ++ check (runes_of_ascii "packet A {
    u8 x `
`,
}")).
Eval vm_compute in ("<<<M3697>>>" ++ check (runes_of_ascii "packet string_ {
    u,
}")).
Eval vm_compute in ("<<<M3278>>>" ++ check (runes_of_ascii "options { u8x =
// c
3 }")).
Eval vm_compute in ("<<<M4304>>>" ++ check (runes_of_ascii "

  //	t
	options { }
")).
Eval vm_compute in ("<<<M1301>>>" ++ check (runes_of_ascii "packet len {
    } 	 ")).
Eval vm_compute in ("<<<M2617>>>" ++ check (runes_of_ascii "packet A { @tag(1) }")).
Eval vm_compute in ("<<<M2849>>>" ++ check (runes_of_ascii "y+" ++ [65533; 65533; 65533]%N ++ runes_of_ascii "Y65x" ++ [1125; 65533; 65533; 0; 65533; 223]%N ++ runes_of_ascii "Q	" ++ [7; 65533]%N)).
Eval vm_compute in ("<<<M3072>>>" ++ check (runes_of_ascii "// c" ++ [160]%N ++ runes_of_ascii "
packet A {
}")).
Eval vm_compute in ("<<<M3805>>>" ++ check (runes_of_ascii "// @lengthOf(
//	t")).
Eval vm_compute in ("<<<M3114>>>" ++ check (runes_of_ascii "packet A {
}// c" ++ [11]%N)).
Eval vm_compute in ("<<<M1217>>>" ++ check (runes_of_ascii "MetaData o { }
")).
Eval vm_compute in ("<<<M753>>>" ++ check (runes_of_ascii "options { }
")).
Eval vm_compute in ("<<<M752>>>" ++ check (runes_of_ascii "options{}
")).
Eval vm_compute in ("<<<M2477>>>" ++ check (runes_of_ascii "@leftPad")).
Eval vm_compute in ("<<<M2423>>>" ++ check (runes_of_ascii "char[]")).
Eval vm_compute in ("<<<M2449>>>" ++ check (runes_of_ascii "false")).
Eval vm_compute in ("<<<M4184>>>" ++ check (runes_of_ascii "// " ++ [27880; 37322]%N)).
Eval vm_compute in ("<<<M2134>>>" ++ check (runes_of_ascii "Met")).
Eval vm_compute in ("<<<M56>>>" ++ check (runes_of_ascii "
")).
Eval vm_compute in ("<<<M2516>>>" ++ check (runes_of_ascii "`")).
