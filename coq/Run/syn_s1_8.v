From FP Require Import Lexer Parser ShowPT Digest.
From Coq Require Import String List NArith.
Import ListNotations.
Open Scope string_scope.
Set Printing Width 100000000.
Set Printing Depth 100000000.
Definition nl : string := String (Ascii.ascii_of_nat 10) EmptyString.
Definition model_lex (rs : list rune) : string := show_toks (lex rs).
Definition model_parse (rs : list rune) : string :=
  show_pt (match lex rs with Some ts => parse ts | None => None end).
(* coqc is slow at printing long strings: digests first (Digest.v), full texts on demand *)
Definition check (rs : list rune) : string :=
  digest (model_lex rs) ++ " " ++ digest (model_parse rs).
Definition full (rs : list rune) : string := model_lex rs ++ nl ++ model_parse rs.
Definition terms (ts : list tok) (t : pt) : string :=
  digest (show_toks (Some ts)) ++ " " ++ digest (show_pt (Some t)) ++ " " ++ digest (show_pt (parse ts)).
Definition terms_full (ts : list tok) (t : pt) : string :=
  show_toks (Some ts) ++ nl ++ show_pt (Some t) ++ nl ++ show_pt (parse ts).
Eval vm_compute in ("<<<M8>>>" ++ check (runes_of_ascii "options{ Packet
=  00 ;
u128= true
Pad // a // b
=  '0' }	MetaData a1
{ Z9_ Foo// 50% %s
,
string
    tag ,
msg_type
chars // a // b
, i8 uint8x, }")).
Eval vm_compute in ("<<<M18>>>" ++ check (runes_of_ascii "MetaData zchar
{ uint64 Z9_, As f32a  `" ++ [28040; 24687; 31867; 22411]%N ++ runes_of_ascii "` // " ++ [128512]%N ++ runes_of_ascii " emoji
, char[ 10 ]	options1 //	t
`tab	here` , rootA trueish //x
``, i32 Foo `{ , }` ,}
")).
Eval vm_compute in ("<<<M28>>>" ++ check (runes_of_ascii "options {
    i8i8 = ""1"" u=
    ""a	b"" //x
;a1=zchar[ 00
    // @lengthOf(
    ] ;
    // c
    o= ""a	b""
;  float
= char[]// a // b
;
} root packet chars{
}packet body // `tick` ""quote"" 'q'
{ repeat u8x {int16 zchar ,char[
1
] o `" ++ [233]%N ++ runes_of_ascii "`	,
    },}
    packet  BodyLength {
    // c
    @rightPad
    ('0' )u16 u8x@calculatedFrom( ""// no comment"" ),
    @tag(
1 )
// a // b
// " ++ [128512]%N ++ runes_of_ascii " emoji
match i8i8 as
u128 { 007 : len ,	""" ++ [128512]%N ++ runes_of_ascii """: u128
    ,
    } , repeat
    repeatCount// " ++ [128512]%N ++ runes_of_ascii " emoji
`u8 x,` , @calculatedFrom( // c
""x y""
)falsey {
char[ 255]  crc , Logon
`two words`  ,
roots options1
    , }	,
} root packet
calculatedFrom
    { }
")).
Eval vm_compute in ("<<<M38>>>" ++ check (runes_of_ascii "packet leftPad { @leftPad ( ' ')
    // a // b
    @calculatedFrom(
""abc"" )  @rightPad ('0'  )  repeat uint64
// `tick` ""quote"" 'q'
// @lengthOf(
x ,} // " ++ [27880; 37322]%N ++ runes_of_ascii "
packet x_y_z { int16 // @lengthOf(
crc @lengthOf( f32a
) `
`,
    @lengthOf(	a1
) char[ 0123456789 ] float `// not a comment` , int32 T @calculatedFrom( ""\" ++ [233]%N ++ runes_of_ascii """	) , }
")).
Eval vm_compute in ("<<<M48>>>" ++ check (runes_of_ascii "// c
MetaData Packet { i8i8 repeatCount , calculatedFrom
falsey `
` // 50% %s
, float32
tag//
,string Packet `line1
line2`
    ,	}
// c
")).
Eval vm_compute in ("<<<T48>>>" ++ terms [mkTok 44 "// c" 1 0 true; mkTok 37 "MetaData" 2 0 false; mkTok 42 "Packet" 2 9 false; mkTok 2 "{" 2 16 false; mkTok 42 "i8i8" 2 18 false; mkTok 42 "repeatCount" 2 23 false; mkTok 40 "," 2 35 false; mkTok 42 "calculatedFrom" 2 37 false; mkTok 42 "falsey" 3 0 false; mkTok 43 (string_of_bytes [96; 10; 96]%N) 3 7 false; mkTok 44 "// 50% %s" 4 2 true; mkTok 40 "," 5 0 false; mkTok 28 "float32" 5 2 false; mkTok 42 "tag" 6 0 false; mkTok 44 "//" 6 3 true; mkTok 40 "," 7 0 false; mkTok 15 "string" 7 1 false; mkTok 42 "Packet" 7 8 false; mkTok 43 (string_of_bytes [96; 108; 105; 110; 101; 49; 10; 108; 105; 110; 101; 50; 96]%N) 7 15 false; mkTok 40 "," 9 4 false; mkTok 3 "}" 9 6 false; mkTok 44 "// c" 10 0 true; mkTok 0 "<EOF>" 11 0 false] (mkPacket (mkPtok 37 "MetaData" 2 0 1) (Some (mkPtok 3 "}" 9 6 20)) [(DMeta (mkMetaDef (mkSpan (mkPtok 37 "MetaData" 2 0 1) (mkPtok 3 "}" 9 6 20)) (mkPtok 37 "MetaData" 2 0 1) (mkPtok 42 "Packet" 2 9 2) (mkPtok 2 "{" 2 16 3) [(MIRef (mkRefMetaDecl (mkSpan (mkPtok 42 "i8i8" 2 18 4) (mkPtok 40 "," 2 35 6)) (mkPtok 42 "i8i8" 2 18 4) (mkPtok 42 "repeatCount" 2 23 5) None (mkPtok 40 "," 2 35 6))); (MIRef (mkRefMetaDecl (mkSpan (mkPtok 42 "calculatedFrom" 2 37 7) (mkPtok 40 "," 5 0 11)) (mkPtok 42 "calculatedFrom" 2 37 7) (mkPtok 42 "falsey" 3 0 8) (Some (mkPtok 43 (string_of_bytes [96; 10; 96]%N) 3 7 9)) (mkPtok 40 "," 5 0 11))); (MIDecl (mkMetaDecl (mkSpan (mkPtok 28 "float32" 5 2 12) (mkPtok 40 "," 7 0 15)) (TyBasic (mkSpan (mkPtok 28 "float32" 5 2 12) (mkPtok 28 "float32" 5 2 12)) (mkBasicType (mkSpan (mkPtok 28 "float32" 5 2 12) (mkPtok 28 "float32" 5 2 12)) (mkPtok 28 "float32" 5 2 12))) (mkPtok 42 "tag" 6 0 13) None (mkPtok 40 "," 7 0 15))); (MIDecl (mkMetaDecl (mkSpan (mkPtok 15 "string" 7 1 16) (mkPtok 40 "," 9 4 19)) (TyDynamic (mkSpan (mkPtok 15 "string" 7 1 16) (mkPtok 15 "string" 7 1 16)) (mkDynamicString (mkSpan (mkPtok 15 "string" 7 1 16) (mkPtok 15 "string" 7 1 16)) (mkPtok 15 "string" 7 1 16))) (mkPtok 42 "Packet" 7 8 17) (Some (mkPtok 43 (string_of_bytes [96; 108; 105; 110; 101; 49; 10; 108; 105; 110; 101; 50; 96]%N) 7 15 18)) (mkPtok 40 "," 9 4 19)))] (mkPtok 3 "}" 9 6 20)))])).
Eval vm_compute in ("<<<M58>>>" ++ check (@nil rune)).
Eval vm_compute in ("<<<M68>>>" ++ check (runes_of_ascii "MetaData charz { } options { crc  =  ""a	b"" ; } packet	falsey
    { // trailing space 
} packet falsey //	t
{@lengthOf( uint8x
) uint32 asx, }
root packet
crc {
}
")).
Eval vm_compute in ("<<<M78>>>" ++ check (runes_of_ascii "packet
Foo
{repeat int16 u8x,
//
// packet A { u8 x, }
}	options {
// `tick` ""quote"" 'q'
//
x =// packet A { u8 x, }
0123456789 ; BodyLength
    = zchar[	00 ] f32a =false
    ;
    // 50% %s
    stringy = int32}
    packet
zchar {}
")).
Eval vm_compute in ("<<<M88>>>" ++ check (runes_of_ascii "MetaData uint8x { }
")).
Eval vm_compute in ("<<<M98>>>" ++ check (runes_of_ascii "root
packet	uint8x {// " ++ [27880; 37322]%N ++ runes_of_ascii "
MetaDataX// " ++ [27880; 37322]%N ++ runes_of_ascii "
`doc`,
char
A  `line1
line2` , match BodyLength as roots
    {
    [ ""// no comment"" , 4294967296,
""" ++ [128512]%N ++ runes_of_ascii """
] : falsey
, // @lengthOf(
""" ++ [233]%N ++ runes_of_ascii "t" ++ [233]%N ++ runes_of_ascii """
:o
[  7	] : o, 65535 :int ,
    3 :	int, 65535
:
    Foo , // packet A { u8 x, }
} , @lengthOf( MetaDataX
// c
// @lengthOf(
)
    repeat Packet  chars	, @calculatedFrom( ""abc""
)@lengthOf(
    uint8x )
@leftPad(
)
    // " ++ [27880; 37322]%N ++ runes_of_ascii "
    i8 x ,
    repeat
As{ _x	@calculatedFrom(
    // @lengthOf(
    ""x y"")`100% of %d` , i16
    options1 @lengthOf(
o ) , repeat string i8i8 ,
    char[ 255 ]packetx `a\` ,} ,	@leftPad( // 50% %s
'\x00' )u32 u128
@lengthOf(msg_type )
    `// not a comment` , zchar @lengthOf(crc
)
, char[0
    ]
a1, @leftPad
(' ') char[ 4294967296 ]	int , }
")).
Eval vm_compute in ("<<<M108>>>" ++ check (runes_of_ascii "root packet	repeatCount {
    // @lengthOf(
    @tag( 42 )
int64 lengthOf , }
")).
Eval vm_compute in ("<<<M118>>>" ++ check (runes_of_ascii "options
{ u // packet A { u8 x, }
=// 50% %s
int32 packetx	= ""`tick`"" ;
    matchKey= // trailing space 
'0'As = 3
// packet A { u8 x, }
//x
; Packet=true; } root packet
tag { // @lengthOf(
u64 stringy , repeat options1
{ zchar[ 4294967296
] f32a `` , match tag as
    //
    options1 {
    10 : A
// c
// c
,  007
    : Pad , 0123456789
    : calculatedFrom 7 :	stringy ,
[ // 50% %s
""a\""b"" ,// " ++ [27880; 37322]%N ++ runes_of_ascii "
0123456789 ] : options1 , 3
:
u8x,
    // packet A { u8 x, }
    } ,} ,
    }packet len {	@calculatedFrom(
// packet A { u8 x, }
// `tick` ""quote"" 'q'
""" ++ [233]%N ++ runes_of_ascii "t" ++ [233]%N ++ runes_of_ascii """ )i8
// `tick` ""quote"" 'q'
//	t
repeatCount @lengthOf(
// `tick` ""quote"" 'q'
// " ++ [128512]%N ++ runes_of_ascii " emoji
roots ) ,
int32 i64_//
@calculatedFrom( ""`tick`"" )  ,
    @rightPad ( ' ' ) repeat
char[] u8x// " ++ [128512]%N ++ runes_of_ascii " emoji
,	@rightPad('\x00'	) leftPad{ match lengthOf // c
as charz { ""1"" :tag  ""// no comment""	:
x, [
    """ ++ [233]%N ++ runes_of_ascii "t" ++ [233]%N ++ runes_of_ascii """ ,""CRC32"" ] :	pack 3: charz ,
}, } , } options
    {
}
    MetaData
matchKey {uint64 repeatCount,  roots
x_y_z
`say ""hi""`
, roots As , A crc , uint64 f32a // @lengthOf(
, }
")).
Eval vm_compute in ("<<<T118>>>" ++ terms [mkTok 1 "options" 1 0 false; mkTok 2 "{" 2 0 false; mkTok 42 "u" 2 2 false; mkTok 44 "// packet A { u8 x, }" 2 4 true; mkTok 4 "=" 3 0 false; mkTok 44 "// 50% %s" 3 1 true; mkTok 26 "int32" 4 0 false; mkTok 42 "packetx" 4 6 false; mkTok 4 "=" 4 14 false; mkTok 31 """`tick`""" 4 16 false; mkTok 41 ";" 4 25 false; mkTok 42 "matchKey" 5 4 false; mkTok 4 "=" 5 12 false; mkTok 44 "// trailing space " 5 14 true; mkTok 33 "'0'" 6 0 false; mkTok 42 "As" 6 3 false; mkTok 4 "=" 6 6 false; mkTok 30 "3" 6 8 false; mkTok 44 "// packet A { u8 x, }" 7 0 true; mkTok 44 "//x" 8 0 true; mkTok 41 ";" 9 0 false; mkTok 42 "Packet" 9 2 false; mkTok 4 "=" 9 8 false; mkTok 10 "true" 9 9 false; mkTok 41 ";" 9 13 false; mkTok 3 "}" 9 15 false; mkTok 34 "root" 9 17 false; mkTok 35 "packet" 9 22 false; mkTok 42 "tag" 10 0 false; mkTok 2 "{" 10 4 false; mkTok 44 "// @lengthOf(" 10 6 true; mkTok 23 "u64" 11 0 false; mkTok 42 "stringy" 11 4 false; mkTok 40 "," 11 12 false; mkTok 36 "repeat" 11 14 false; mkTok 42 "options1" 11 21 false; mkTok 2 "{" 12 0 false; mkTok 14 "zchar[" 12 2 false; mkTok 30 "4294967296" 12 9 false; mkTok 13 "]" 13 0 false; mkTok 42 "f32a" 13 2 false; mkTok 43 "``" 13 7 false; mkTok 40 "," 13 10 false; mkTok 38 "match" 13 12 false; mkTok 42 "tag" 13 18 false; mkTok 17 "as" 13 22 false; mkTok 44 "//" 14 4 true; mkTok 42 "options1" 15 4 false; mkTok 2 "{" 15 13 false; mkTok 30 "10" 16 4 false; mkTok 39 ":" 16 7 false; mkTok 42 "A" 16 9 false; mkTok 44 "// c" 17 0 true; mkTok 44 "// c" 18 0 true; mkTok 40 "," 19 0 false; mkTok 30 "007" 19 3 false; mkTok 39 ":" 20 4 false; mkTok 42 "Pad" 20 6 false; mkTok 40 "," 20 10 false; mkTok 30 "0123456789" 20 12 false; mkTok 39 ":" 21 4 false; mkTok 42 "calculatedFrom" 21 6 false; mkTok 30 "7" 21 21 false; mkTok 39 ":" 21 23 false; mkTok 42 "stringy" 21 25 false; mkTok 40 "," 21 33 false; mkTok 18 "[" 22 0 false; mkTok 44 "// 50% %s" 22 2 true; mkTok 31 """a\""b""" 23 0 false; mkTok 40 "," 23 7 false; mkTok 44 (string_of_bytes [47; 47; 32; 230; 179; 168; 233; 135; 138]%N) 23 8 true; mkTok 30 "0123456789" 24 0 false; mkTok 13 "]" 24 11 false; mkTok 39 ":" 24 13 false; mkTok 42 "options1" 24 15 false; mkTok 40 "," 24 24 false; mkTok 30 "3" 24 26 false; mkTok 39 ":" 25 0 false; mkTok 42 "u8x" 26 0 false; mkTok 40 "," 26 3 false; mkTok 44 "// packet A { u8 x, }" 27 4 true; mkTok 3 "}" 28 4 false; mkTok 40 "," 28 6 false; mkTok 3 "}" 28 7 false; mkTok 40 "," 28 9 false; mkTok 3 "}" 29 4 false; mkTok 35 "packet" 29 5 false; mkTok 42 "len" 29 12 false; mkTok 2 "{" 29 16 false; mkTok 5 "@calculatedFrom(" 29 18 false; mkTok 44 "// packet A { u8 x, }" 30 0 true; mkTok 44 "// `tick` ""quote"" 'q'" 31 0 true; mkTok 31 (string_of_bytes [34; 195; 169; 116; 195; 169; 34]%N) 32 0 false; mkTok 6 ")" 32 6 false; mkTok 24 "i8" 32 7 false; mkTok 44 "// `tick` ""quote"" 'q'" 33 0 true; mkTok 44 (string_of_bytes [47; 47; 9; 116]%N) 34 0 true; mkTok 42 "repeatCount" 35 0 false; mkTok 7 "@lengthOf(" 35 12 false; mkTok 44 "// `tick` ""quote"" 'q'" 36 0 true; mkTok 44 (string_of_bytes [47; 47; 32; 240; 159; 152; 128; 32; 101; 109; 111; 106; 105]%N) 37 0 true; mkTok 42 "roots" 38 0 false; mkTok 6 ")" 38 6 false; mkTok 40 "," 38 8 false; mkTok 26 "int32" 39 0 false; mkTok 42 "i64_" 39 6 false; mkTok 44 "//" 39 10 true; mkTok 5 "@calculatedFrom(" 40 0 false; mkTok 31 """`tick`""" 40 17 false; mkTok 6 ")" 40 26 false; mkTok 40 "," 40 29 false; mkTok 32 "@rightPad" 41 4 false; mkTok 8 "(" 41 14 false; mkTok 33 "' '" 41 16 false; mkTok 6 ")" 41 20 false; mkTok 36 "repeat" 41 22 false; mkTok 16 "char[]" 42 0 false; mkTok 42 "u8x" 42 7 false; mkTok 44 (string_of_bytes [47; 47; 32; 240; 159; 152; 128; 32; 101; 109; 111; 106; 105]%N) 42 10 true; mkTok 40 "," 43 0 false; mkTok 32 "@rightPad" 43 2 false; mkTok 8 "(" 43 11 false; mkTok 33 "'\x00'" 43 12 false; mkTok 6 ")" 43 19 false; mkTok 42 "leftPad" 43 21 false; mkTok 2 "{" 43 28 false; mkTok 38 "match" 43 30 false; mkTok 42 "lengthOf" 43 36 false; mkTok 44 "// c" 43 45 true; mkTok 17 "as" 44 0 false; mkTok 42 "charz" 44 3 false; mkTok 2 "{" 44 9 false; mkTok 31 """1""" 44 11 false; mkTok 39 ":" 44 15 false; mkTok 42 "tag" 44 16 false; mkTok 31 """// no comment""" 44 21 false; mkTok 39 ":" 44 37 false; mkTok 42 "x" 45 0 false; mkTok 40 "," 45 1 false; mkTok 18 "[" 45 3 false; mkTok 31 (string_of_bytes [34; 195; 169; 116; 195; 169; 34]%N) 46 4 false; mkTok 40 "," 46 10 false; mkTok 31 """CRC32""" 46 11 false; mkTok 13 "]" 46 19 false; mkTok 39 ":" 46 21 false; mkTok 42 "pack" 46 23 false; mkTok 30 "3" 46 28 false; mkTok 39 ":" 46 29 false; mkTok 42 "charz" 46 31 false; mkTok 40 "," 46 37 false; mkTok 3 "}" 47 0 false; mkTok 40 "," 47 1 false; mkTok 3 "}" 47 3 false; mkTok 40 "," 47 5 false; mkTok 3 "}" 47 7 false; mkTok 1 "options" 47 9 false; mkTok 2 "{" 48 4 false; mkTok 3 "}" 49 0 false; mkTok 37 "MetaData" 50 4 false; mkTok 42 "matchKey" 51 0 false; mkTok 2 "{" 51 9 false; mkTok 23 "uint64" 51 10 false; mkTok 42 "repeatCount" 51 17 false; mkTok 40 "," 51 28 false; mkTok 42 "roots" 51 31 false; mkTok 42 "x_y_z" 52 0 false; mkTok 43 "`say ""hi""`" 53 0 false; mkTok 40 "," 54 0 false; mkTok 42 "roots" 54 2 false; mkTok 42 "As" 54 8 false; mkTok 40 "," 54 11 false; mkTok 42 "A" 54 13 false; mkTok 42 "crc" 54 15 false; mkTok 40 "," 54 19 false; mkTok 23 "uint64" 54 21 false; mkTok 42 "f32a" 54 28 false; mkTok 44 "// @lengthOf(" 54 33 true; mkTok 40 "," 55 0 false; mkTok 3 "}" 55 2 false; mkTok 0 "<EOF>" 56 0 false] (mkPacket (mkPtok 1 "options" 1 0 0) (Some (mkPtok 3 "}" 55 2 178)) [(DOption (mkOptionDef (mkSpan (mkPtok 1 "options" 1 0 0) (mkPtok 3 "}" 9 15 25)) (mkPtok 1 "options" 1 0 0) (mkPtok 2 "{" 2 0 1) [(mkOptionDecl (mkSpan (mkPtok 42 "u" 2 2 2) (mkPtok 26 "int32" 4 0 6)) (mkPtok 42 "u" 2 2 2) (mkPtok 4 "=" 3 0 4) (VType (mkSpan (mkPtok 26 "int32" 4 0 6) (mkPtok 26 "int32" 4 0 6)) (TyBasic (mkSpan (mkPtok 26 "int32" 4 0 6) (mkPtok 26 "int32" 4 0 6)) (mkBasicType (mkSpan (mkPtok 26 "int32" 4 0 6) (mkPtok 26 "int32" 4 0 6)) (mkPtok 26 "int32" 4 0 6)))) None); (mkOptionDecl (mkSpan (mkPtok 42 "packetx" 4 6 7) (mkPtok 41 ";" 4 25 10)) (mkPtok 42 "packetx" 4 6 7) (mkPtok 4 "=" 4 14 8) (VString (mkSpan (mkPtok 31 """`tick`""" 4 16 9) (mkPtok 31 """`tick`""" 4 16 9)) (mkPtok 31 """`tick`""" 4 16 9)) (Some (mkPtok 41 ";" 4 25 10))); (mkOptionDecl (mkSpan (mkPtok 42 "matchKey" 5 4 11) (mkPtok 33 "'0'" 6 0 14)) (mkPtok 42 "matchKey" 5 4 11) (mkPtok 4 "=" 5 12 12) (VPaddingChar (mkSpan (mkPtok 33 "'0'" 6 0 14) (mkPtok 33 "'0'" 6 0 14)) (mkPtok 33 "'0'" 6 0 14)) None); (mkOptionDecl (mkSpan (mkPtok 42 "As" 6 3 15) (mkPtok 41 ";" 9 0 20)) (mkPtok 42 "As" 6 3 15) (mkPtok 4 "=" 6 6 16) (VDigits (mkSpan (mkPtok 30 "3" 6 8 17) (mkPtok 30 "3" 6 8 17)) (mkPtok 30 "3" 6 8 17)) (Some (mkPtok 41 ";" 9 0 20))); (mkOptionDecl (mkSpan (mkPtok 42 "Packet" 9 2 21) (mkPtok 41 ";" 9 13 24)) (mkPtok 42 "Packet" 9 2 21) (mkPtok 4 "=" 9 8 22) (VTrue (mkSpan (mkPtok 10 "true" 9 9 23) (mkPtok 10 "true" 9 9 23)) (mkPtok 10 "true" 9 9 23)) (Some (mkPtok 41 ";" 9 13 24)))] (mkPtok 3 "}" 9 15 25))); (DPacket (mkPacketDef (mkSpan (mkPtok 34 "root" 9 17 26) (mkPtok 3 "}" 29 4 85)) (Some (mkPtok 34 "root" 9 17 26)) (mkPtok 35 "packet" 9 22 27) (mkPtok 42 "tag" 10 0 28) (mkPtok 2 "{" 10 4 29) [(mkFieldWithAttr (mkSpan (mkPtok 23 "u64" 11 0 31) (mkPtok 40 "," 11 12 33)) [] (MetaField (mkSpan (mkPtok 23 "u64" 11 0 31) (mkPtok 40 "," 11 12 33)) None (mkMetaDecl (mkSpan (mkPtok 23 "u64" 11 0 31) (mkPtok 40 "," 11 12 33)) (TyBasic (mkSpan (mkPtok 23 "u64" 11 0 31) (mkPtok 23 "u64" 11 0 31)) (mkBasicType (mkSpan (mkPtok 23 "u64" 11 0 31) (mkPtok 23 "u64" 11 0 31)) (mkPtok 23 "u64" 11 0 31))) (mkPtok 42 "stringy" 11 4 32) None (mkPtok 40 "," 11 12 33)))); (mkFieldWithAttr (mkSpan (mkPtok 36 "repeat" 11 14 34) (mkPtok 40 "," 28 9 84)) [] (InerObjectField (mkSpan (mkPtok 36 "repeat" 11 14 34) (mkPtok 40 "," 28 9 84)) (Some (mkPtok 36 "repeat" 11 14 34)) (InerObjectDecl (mkSpan (mkPtok 42 "options1" 11 21 35) (mkPtok 3 "}" 28 7 83)) (mkPtok 42 "options1" 11 21 35) (mkPtok 2 "{" 12 0 36) [(MetaField (mkSpan (mkPtok 14 "zchar[" 12 2 37) (mkPtok 40 "," 13 10 42)) None (mkMetaDecl (mkSpan (mkPtok 14 "zchar[" 12 2 37) (mkPtok 40 "," 13 10 42)) (TyFixed (mkSpan (mkPtok 14 "zchar[" 12 2 37) (mkPtok 13 "]" 13 0 39)) (mkFixedString (mkSpan (mkPtok 14 "zchar[" 12 2 37) (mkPtok 13 "]" 13 0 39)) (mkPtok 14 "zchar[" 12 2 37) (mkPtok 30 "4294967296" 12 9 38) (mkPtok 13 "]" 13 0 39))) (mkPtok 42 "f32a" 13 2 40) (Some (mkPtok 43 "``" 13 7 41)) (mkPtok 40 "," 13 10 42))); (MatchField (mkSpan (mkPtok 38 "match" 13 12 43) (mkPtok 40 "," 28 6 82)) (mkMatchFieldDecl (mkSpan (mkPtok 38 "match" 13 12 43) (mkPtok 3 "}" 28 4 81)) (mkPtok 38 "match" 13 12 43) (mkPtok 42 "tag" 13 18 44) (mkPtok 17 "as" 13 22 45) (mkPtok 42 "options1" 15 4 47) (mkPtok 2 "{" 15 13 48) [(mkMatchPair (mkSpan (mkPtok 30 "10" 16 4 49) (mkPtok 40 "," 19 0 54)) (MKDigits (mkPtok 30 "10" 16 4 49)) (mkPtok 39 ":" 16 7 50) (mkPtok 42 "A" 16 9 51) (Some (mkPtok 40 "," 19 0 54))); (mkMatchPair (mkSpan (mkPtok 30 "007" 19 3 55) (mkPtok 40 "," 20 10 58)) (MKDigits (mkPtok 30 "007" 19 3 55)) (mkPtok 39 ":" 20 4 56) (mkPtok 42 "Pad" 20 6 57) (Some (mkPtok 40 "," 20 10 58))); (mkMatchPair (mkSpan (mkPtok 30 "0123456789" 20 12 59) (mkPtok 42 "calculatedFrom" 21 6 61)) (MKDigits (mkPtok 30 "0123456789" 20 12 59)) (mkPtok 39 ":" 21 4 60) (mkPtok 42 "calculatedFrom" 21 6 61) None); (mkMatchPair (mkSpan (mkPtok 30 "7" 21 21 62) (mkPtok 40 "," 21 33 65)) (MKDigits (mkPtok 30 "7" 21 21 62)) (mkPtok 39 ":" 21 23 63) (mkPtok 42 "stringy" 21 25 64) (Some (mkPtok 40 "," 21 33 65))); (mkMatchPair (mkSpan (mkPtok 18 "[" 22 0 66) (mkPtok 40 "," 24 24 75)) (MKList (mkKeyList (mkSpan (mkPtok 18 "[" 22 0 66) (mkPtok 13 "]" 24 11 72)) (mkPtok 18 "[" 22 0 66) (mkPtok 31 """a\""b""" 23 0 68) [((mkPtok 40 "," 23 7 69), (mkPtok 30 "0123456789" 24 0 71))] (mkPtok 13 "]" 24 11 72))) (mkPtok 39 ":" 24 13 73) (mkPtok 42 "options1" 24 15 74) (Some (mkPtok 40 "," 24 24 75))); (mkMatchPair (mkSpan (mkPtok 30 "3" 24 26 76) (mkPtok 40 "," 26 3 79)) (MKDigits (mkPtok 30 "3" 24 26 76)) (mkPtok 39 ":" 25 0 77) (mkPtok 42 "u8x" 26 0 78) (Some (mkPtok 40 "," 26 3 79)))] (mkPtok 3 "}" 28 4 81)) (mkPtok 40 "," 28 6 82))] (mkPtok 3 "}" 28 7 83)) (mkPtok 40 "," 28 9 84)))] (mkPtok 3 "}" 29 4 85))); (DPacket (mkPacketDef (mkSpan (mkPtok 35 "packet" 29 5 86) (mkPtok 3 "}" 47 7 154)) None (mkPtok 35 "packet" 29 5 86) (mkPtok 42 "len" 29 12 87) (mkPtok 2 "{" 29 16 88) [(mkFieldWithAttr (mkSpan (mkPtok 5 "@calculatedFrom(" 29 18 89) (mkPtok 40 "," 38 8 103)) [(FACalculatedFrom (mkSpan (mkPtok 5 "@calculatedFrom(" 29 18 89) (mkPtok 6 ")" 32 6 93)) (mkCalculatedFrom (mkSpan (mkPtok 5 "@calculatedFrom(" 29 18 89) (mkPtok 6 ")" 32 6 93)) (mkPtok 5 "@calculatedFrom(" 29 18 89) (mkPtok 31 (string_of_bytes [34; 195; 169; 116; 195; 169; 34]%N) 32 0 92) (mkPtok 6 ")" 32 6 93)))] (LengthField (mkSpan (mkPtok 24 "i8" 32 7 94) (mkPtok 40 "," 38 8 103)) (mkLengthFieldDecl (mkSpan (mkPtok 24 "i8" 32 7 94) (mkPtok 40 "," 38 8 103)) (Some (TyBasic (mkSpan (mkPtok 24 "i8" 32 7 94) (mkPtok 24 "i8" 32 7 94)) (mkBasicType (mkSpan (mkPtok 24 "i8" 32 7 94) (mkPtok 24 "i8" 32 7 94)) (mkPtok 24 "i8" 32 7 94)))) (mkPtok 42 "repeatCount" 35 0 97) (mkLengthOf (mkSpan (mkPtok 7 "@lengthOf(" 35 12 98) (mkPtok 6 ")" 38 6 102)) (mkPtok 7 "@lengthOf(" 35 12 98) (mkPtok 42 "roots" 38 0 101) (mkPtok 6 ")" 38 6 102)) None (mkPtok 40 "," 38 8 103)))); (mkFieldWithAttr (mkSpan (mkPtok 26 "int32" 39 0 104) (mkPtok 40 "," 40 29 110)) [] (CheckSumField (mkSpan (mkPtok 26 "int32" 39 0 104) (mkPtok 40 "," 40 29 110)) (mkChecksumFieldDecl (mkSpan (mkPtok 26 "int32" 39 0 104) (mkPtok 40 "," 40 29 110)) (Some (TyBasic (mkSpan (mkPtok 26 "int32" 39 0 104) (mkPtok 26 "int32" 39 0 104)) (mkBasicType (mkSpan (mkPtok 26 "int32" 39 0 104) (mkPtok 26 "int32" 39 0 104)) (mkPtok 26 "int32" 39 0 104)))) (mkPtok 42 "i64_" 39 6 105) (mkCalculatedFrom (mkSpan (mkPtok 5 "@calculatedFrom(" 40 0 107) (mkPtok 6 ")" 40 26 109)) (mkPtok 5 "@calculatedFrom(" 40 0 107) (mkPtok 31 """`tick`""" 40 17 108) (mkPtok 6 ")" 40 26 109)) None (mkPtok 40 "," 40 29 110)))); (mkFieldWithAttr (mkSpan (mkPtok 32 "@rightPad" 41 4 111) (mkPtok 40 "," 43 0 119)) [(FAPadding (mkSpan (mkPtok 32 "@rightPad" 41 4 111) (mkPtok 6 ")" 41 20 114)) (mkPaddingAttr (mkSpan (mkPtok 32 "@rightPad" 41 4 111) (mkPtok 6 ")" 41 20 114)) (mkPtok 32 "@rightPad" 41 4 111) (mkPtok 8 "(" 41 14 112) (Some (mkPtok 33 "' '" 41 16 113)) (mkPtok 6 ")" 41 20 114)))] (MetaField (mkSpan (mkPtok 36 "repeat" 41 22 115) (mkPtok 40 "," 43 0 119)) (Some (mkPtok 36 "repeat" 41 22 115)) (mkMetaDecl (mkSpan (mkPtok 16 "char[]" 42 0 116) (mkPtok 40 "," 43 0 119)) (TyDynamic (mkSpan (mkPtok 16 "char[]" 42 0 116) (mkPtok 16 "char[]" 42 0 116)) (mkDynamicString (mkSpan (mkPtok 16 "char[]" 42 0 116) (mkPtok 16 "char[]" 42 0 116)) (mkPtok 16 "char[]" 42 0 116))) (mkPtok 42 "u8x" 42 7 117) None (mkPtok 40 "," 43 0 119)))); (mkFieldWithAttr (mkSpan (mkPtok 32 "@rightPad" 43 2 120) (mkPtok 40 "," 47 5 153)) [(FAPadding (mkSpan (mkPtok 32 "@rightPad" 43 2 120) (mkPtok 6 ")" 43 19 123)) (mkPaddingAttr (mkSpan (mkPtok 32 "@rightPad" 43 2 120) (mkPtok 6 ")" 43 19 123)) (mkPtok 32 "@rightPad" 43 2 120) (mkPtok 8 "(" 43 11 121) (Some (mkPtok 33 "'\x00'" 43 12 122)) (mkPtok 6 ")" 43 19 123)))] (InerObjectField (mkSpan (mkPtok 42 "leftPad" 43 21 124) (mkPtok 40 "," 47 5 153)) None (InerObjectDecl (mkSpan (mkPtok 42 "leftPad" 43 21 124) (mkPtok 3 "}" 47 3 152)) (mkPtok 42 "leftPad" 43 21 124) (mkPtok 2 "{" 43 28 125) [(MatchField (mkSpan (mkPtok 38 "match" 43 30 126) (mkPtok 40 "," 47 1 151)) (mkMatchFieldDecl (mkSpan (mkPtok 38 "match" 43 30 126) (mkPtok 3 "}" 47 0 150)) (mkPtok 38 "match" 43 30 126) (mkPtok 42 "lengthOf" 43 36 127) (mkPtok 17 "as" 44 0 129) (mkPtok 42 "charz" 44 3 130) (mkPtok 2 "{" 44 9 131) [(mkMatchPair (mkSpan (mkPtok 31 """1""" 44 11 132) (mkPtok 42 "tag" 44 16 134)) (MKString (mkPtok 31 """1""" 44 11 132)) (mkPtok 39 ":" 44 15 133) (mkPtok 42 "tag" 44 16 134) None); (mkMatchPair (mkSpan (mkPtok 31 """// no comment""" 44 21 135) (mkPtok 40 "," 45 1 138)) (MKString (mkPtok 31 """// no comment""" 44 21 135)) (mkPtok 39 ":" 44 37 136) (mkPtok 42 "x" 45 0 137) (Some (mkPtok 40 "," 45 1 138))); (mkMatchPair (mkSpan (mkPtok 18 "[" 45 3 139) (mkPtok 42 "pack" 46 23 145)) (MKList (mkKeyList (mkSpan (mkPtok 18 "[" 45 3 139) (mkPtok 13 "]" 46 19 143)) (mkPtok 18 "[" 45 3 139) (mkPtok 31 (string_of_bytes [34; 195; 169; 116; 195; 169; 34]%N) 46 4 140) [((mkPtok 40 "," 46 10 141), (mkPtok 31 """CRC32""" 46 11 142))] (mkPtok 13 "]" 46 19 143))) (mkPtok 39 ":" 46 21 144) (mkPtok 42 "pack" 46 23 145) None); (mkMatchPair (mkSpan (mkPtok 30 "3" 46 28 146) (mkPtok 40 "," 46 37 149)) (MKDigits (mkPtok 30 "3" 46 28 146)) (mkPtok 39 ":" 46 29 147) (mkPtok 42 "charz" 46 31 148) (Some (mkPtok 40 "," 46 37 149)))] (mkPtok 3 "}" 47 0 150)) (mkPtok 40 "," 47 1 151))] (mkPtok 3 "}" 47 3 152)) (mkPtok 40 "," 47 5 153)))] (mkPtok 3 "}" 47 7 154))); (DOption (mkOptionDef (mkSpan (mkPtok 1 "options" 47 9 155) (mkPtok 3 "}" 49 0 157)) (mkPtok 1 "options" 47 9 155) (mkPtok 2 "{" 48 4 156) [] (mkPtok 3 "}" 49 0 157))); (DMeta (mkMetaDef (mkSpan (mkPtok 37 "MetaData" 50 4 158) (mkPtok 3 "}" 55 2 178)) (mkPtok 37 "MetaData" 50 4 158) (mkPtok 42 "matchKey" 51 0 159) (mkPtok 2 "{" 51 9 160) [(MIDecl (mkMetaDecl (mkSpan (mkPtok 23 "uint64" 51 10 161) (mkPtok 40 "," 51 28 163)) (TyBasic (mkSpan (mkPtok 23 "uint64" 51 10 161) (mkPtok 23 "uint64" 51 10 161)) (mkBasicType (mkSpan (mkPtok 23 "uint64" 51 10 161) (mkPtok 23 "uint64" 51 10 161)) (mkPtok 23 "uint64" 51 10 161))) (mkPtok 42 "repeatCount" 51 17 162) None (mkPtok 40 "," 51 28 163))); (MIRef (mkRefMetaDecl (mkSpan (mkPtok 42 "roots" 51 31 164) (mkPtok 40 "," 54 0 167)) (mkPtok 42 "roots" 51 31 164) (mkPtok 42 "x_y_z" 52 0 165) (Some (mkPtok 43 "`say ""hi""`" 53 0 166)) (mkPtok 40 "," 54 0 167))); (MIRef (mkRefMetaDecl (mkSpan (mkPtok 42 "roots" 54 2 168) (mkPtok 40 "," 54 11 170)) (mkPtok 42 "roots" 54 2 168) (mkPtok 42 "As" 54 8 169) None (mkPtok 40 "," 54 11 170))); (MIRef (mkRefMetaDecl (mkSpan (mkPtok 42 "A" 54 13 171) (mkPtok 40 "," 54 19 173)) (mkPtok 42 "A" 54 13 171) (mkPtok 42 "crc" 54 15 172) None (mkPtok 40 "," 54 19 173))); (MIDecl (mkMetaDecl (mkSpan (mkPtok 23 "uint64" 54 21 174) (mkPtok 40 "," 55 0 177)) (TyBasic (mkSpan (mkPtok 23 "uint64" 54 21 174) (mkPtok 23 "uint64" 54 21 174)) (mkBasicType (mkSpan (mkPtok 23 "uint64" 54 21 174) (mkPtok 23 "uint64" 54 21 174)) (mkPtok 23 "uint64" 54 21 174))) (mkPtok 42 "f32a" 54 28 175) None (mkPtok 40 "," 55 0 177)))] (mkPtok 3 "}" 55 2 178)))])).
Eval vm_compute in ("<<<M128>>>" ++ check (runes_of_ascii "// 50% %s
options {u8x
=  ""\n"" u128 = '\x00' ; x = float32 ;	msg_type=
    ""\n""
    // " ++ [128512]%N ++ runes_of_ascii " emoji
    ; crc = 7 }")).
Eval vm_compute in ("<<<M138>>>" ++ check (runes_of_ascii "MetaData//
uint8x { } packet
BodyLength{ @calculatedFrom( ""{,}"" ) zchar // packet A { u8 x, }
body ,
char // a // b
a1 `tab	here`	, match
    matchKey as rootA { 0123456789
    :float
    }, match packetx as	calculatedFrom {
    42//	t
: x_y_z , } ,
    } packet pack	{
    // " ++ [128512]%N ++ runes_of_ascii " emoji
    string// packet A { u8 x, }
x_y_z
    ,
    @calculatedFrom( ""a\\"" // " ++ [27880; 37322]%N ++ runes_of_ascii "
) repeat
u Foo
`` , //	t
}
")).
Eval vm_compute in ("<<<M148>>>" ++ check (runes_of_ascii "
root packet matchKey {  repeat x{ trueish calculatedFrom, match leftPad
as _x
{ 1
:i64_
,  """ ++ [28040; 24687]%N ++ runes_of_ascii """
    :	options1
    // c
    }  ,repeat char[]  uint8x ,A{repeat metadata
roots `a\` , //
char[10 ] x_y_z@calculatedFrom( ""\" ++ [233]%N ++ runes_of_ascii """ ) `tab	here` ,leftPad, float32 f32a @calculatedFrom(
""" ++ [233]%N ++ runes_of_ascii "t" ++ [233]%N ++ runes_of_ascii """ ) `{ , }`
,
} // `tick` ""quote"" 'q'
, }
    ,
// trailing space 
// c
}
")).
Eval vm_compute in ("<<<M158>>>" ++ check (runes_of_ascii "packet trueish {
zchar[ 65535
    ] x_y_z , repeat
char[
7
]
Foo`say ""hi""`, zchar[4294967296
] trueish ,@tag(
// " ++ [128512]%N ++ runes_of_ascii " emoji
// 50% %s
1	) matchKey
    { match uint8x
    as
Z9_ {
    // @lengthOf(
    [
10
] : matchKey}
    ,
}, } options { int = true }

")).
Eval vm_compute in ("<<<M168>>>" ++ check (runes_of_ascii "packet roots
{ match charz as u128  {
65535
:
calculatedFrom , } ,@lengthOf( T ) @lengthOf(
    len
    )
/// triple
//	t
@rightPad ( '0' )u64	repeatCount @calculatedFrom( ""abc""
    ) `line1
line2`
, } packet string_ { @tag(00 // trailing space 
) @tag( //x
4294967296 ) i8
msg_type ,f32 x	, @calculatedFrom( """ ++ [28040; 24687]%N ++ runes_of_ascii """ ) float32
// c
// trailing space 
leftPad
@lengthOf(  T ) ,repeatCount string_ ,
// packet A { u8 x, }
// " ++ [128512]%N ++ runes_of_ascii " emoji
}
MetaData o { // a // b
} 	 ")).
Eval vm_compute in ("<<<M178>>>" ++ check (runes_of_ascii "
packet int{ @tag(	4294967296 )string// trailing space 
int , match string_
//
// 50% %s
as
matchKey
{ ""it's"":
    uint8x 10 : u128	,
    // 50% %s
    007: lengthOf	, }  ,
    // packet A { u8 x, }
    @calculatedFrom( ""{,}"" )
int64 stringy
@calculatedFrom( ""CRC32""
)
    , f64
    f32a ,  u @lengthOf( lengthOf )
`u8 x,`	, // " ++ [128512]%N ++ runes_of_ascii " emoji
match
Packet
    as	rootA
// @lengthOf(
// " ++ [128512]%N ++ runes_of_ascii " emoji
{ 42 :
stringy
    // c
    , } , trueish , @calculatedFrom( ""x y"" )@tag(
    42
) char[
    255 ]x@lengthOf(int ) , }
    packet T {  match
    float	as
o { ""a\""b""
:T
,
// trailing space 
// trailing space 
65535 : roots ,  }
    , }packet pack { // trailing space 
@leftPad(
'\x00'
) // 50% %s
@calculatedFrom(//
""" ++ [233]%N ++ runes_of_ascii "t" ++ [233]%N ++ runes_of_ascii """ )  string As // a // b
@calculatedFrom(""CRC32"" ) , }
")).
Eval vm_compute in ("<<<M188>>>" ++ check (runes_of_ascii "MetaData  len {	trueish int ,  i64 charz
    // " ++ [128512]%N ++ runes_of_ascii " emoji
    ,	int32 chars , u16
    Logon `100% of %d`
, zchar[00
] zchar
    ,/// triple
}")).
Eval vm_compute in ("<<<T188>>>" ++ terms [mkTok 37 "MetaData" 1 0 false; mkTok 42 "len" 1 10 false; mkTok 2 "{" 1 14 false; mkTok 42 "trueish" 1 16 false; mkTok 42 "int" 1 24 false; mkTok 40 "," 1 28 false; mkTok 27 "i64" 1 31 false; mkTok 42 "charz" 1 35 false; mkTok 44 (string_of_bytes [47; 47; 32; 240; 159; 152; 128; 32; 101; 109; 111; 106; 105]%N) 2 4 true; mkTok 40 "," 3 4 false; mkTok 26 "int32" 3 6 false; mkTok 42 "chars" 3 12 false; mkTok 40 "," 3 18 false; mkTok 21 "u16" 3 20 false; mkTok 42 "Logon" 4 4 false; mkTok 43 "`100% of %d`" 4 10 false; mkTok 40 "," 5 0 false; mkTok 14 "zchar[" 5 2 false; mkTok 30 "00" 5 8 false; mkTok 13 "]" 6 0 false; mkTok 42 "zchar" 6 2 false; mkTok 40 "," 7 4 false; mkTok 44 "/// triple" 7 5 true; mkTok 3 "}" 8 0 false; mkTok 0 "<EOF>" 8 1 false] (mkPacket (mkPtok 37 "MetaData" 1 0 0) (Some (mkPtok 3 "}" 8 0 23)) [(DMeta (mkMetaDef (mkSpan (mkPtok 37 "MetaData" 1 0 0) (mkPtok 3 "}" 8 0 23)) (mkPtok 37 "MetaData" 1 0 0) (mkPtok 42 "len" 1 10 1) (mkPtok 2 "{" 1 14 2) [(MIRef (mkRefMetaDecl (mkSpan (mkPtok 42 "trueish" 1 16 3) (mkPtok 40 "," 1 28 5)) (mkPtok 42 "trueish" 1 16 3) (mkPtok 42 "int" 1 24 4) None (mkPtok 40 "," 1 28 5))); (MIDecl (mkMetaDecl (mkSpan (mkPtok 27 "i64" 1 31 6) (mkPtok 40 "," 3 4 9)) (TyBasic (mkSpan (mkPtok 27 "i64" 1 31 6) (mkPtok 27 "i64" 1 31 6)) (mkBasicType (mkSpan (mkPtok 27 "i64" 1 31 6) (mkPtok 27 "i64" 1 31 6)) (mkPtok 27 "i64" 1 31 6))) (mkPtok 42 "charz" 1 35 7) None (mkPtok 40 "," 3 4 9))); (MIDecl (mkMetaDecl (mkSpan (mkPtok 26 "int32" 3 6 10) (mkPtok 40 "," 3 18 12)) (TyBasic (mkSpan (mkPtok 26 "int32" 3 6 10) (mkPtok 26 "int32" 3 6 10)) (mkBasicType (mkSpan (mkPtok 26 "int32" 3 6 10) (mkPtok 26 "int32" 3 6 10)) (mkPtok 26 "int32" 3 6 10))) (mkPtok 42 "chars" 3 12 11) None (mkPtok 40 "," 3 18 12))); (MIDecl (mkMetaDecl (mkSpan (mkPtok 21 "u16" 3 20 13) (mkPtok 40 "," 5 0 16)) (TyBasic (mkSpan (mkPtok 21 "u16" 3 20 13) (mkPtok 21 "u16" 3 20 13)) (mkBasicType (mkSpan (mkPtok 21 "u16" 3 20 13) (mkPtok 21 "u16" 3 20 13)) (mkPtok 21 "u16" 3 20 13))) (mkPtok 42 "Logon" 4 4 14) (Some (mkPtok 43 "`100% of %d`" 4 10 15)) (mkPtok 40 "," 5 0 16))); (MIDecl (mkMetaDecl (mkSpan (mkPtok 14 "zchar[" 5 2 17) (mkPtok 40 "," 7 4 21)) (TyFixed (mkSpan (mkPtok 14 "zchar[" 5 2 17) (mkPtok 13 "]" 6 0 19)) (mkFixedString (mkSpan (mkPtok 14 "zchar[" 5 2 17) (mkPtok 13 "]" 6 0 19)) (mkPtok 14 "zchar[" 5 2 17) (mkPtok 30 "00" 5 8 18) (mkPtok 13 "]" 6 0 19))) (mkPtok 42 "zchar" 6 2 20) None (mkPtok 40 "," 7 4 21)))] (mkPtok 3 "}" 8 0 23)))])).
Eval vm_compute in ("<<<M198>>>" ++ check (runes_of_ascii "/// triple
root packet
    lengthOf
    { @lengthOf(
Header) @tag(
255 )lengthOf//x
MetaDataX ,
    @tag(// trailing space 
0
    ) match int // 50% %s
as // 50% %s
repeatCount {""a\""b"" : rootA ,007 :MetaDataX
    ,  42
    /// triple
    : uint8x , [ ""it's""// " ++ [128512]%N ++ runes_of_ascii " emoji
, //
3	] // a // b
:
a1 3 :_x, },// 50% %s
@calculatedFrom( ""\n"" ) zchar[//	t
42] zchar @calculatedFrom(
// " ++ [128512]%N ++ runes_of_ascii " emoji
// trailing space 
""" ++ [128512]%N ++ runes_of_ascii """ )// " ++ [128512]%N ++ runes_of_ascii " emoji
, @calculatedFrom(// trailing space 
""x y"") repeat float32
charz `" ++ [233]%N ++ runes_of_ascii "` ,
// c
// c
}
//	t
")).
Eval vm_compute in ("<<<M208>>>" ++ check (runes_of_ascii "MetaData
msg_type { options1 A, string metadata `tab	here`
    , uint32 BodyLength ,} packet
// trailing space 
// a // b
T {// packet A { u8 x, }
}
    packet
    charz { roots  @lengthOf( msg_type ) // 50% %s
`// not a comment` , int32 a1 `{ , }` ,	match leftPad as string_	{	65535 :f32a
, }
, } options
{ options1 = true ; }")).
Eval vm_compute in ("<<<M218>>>" ++ check (runes_of_ascii "MetaData Header{
}	root packet options1 {
crc metadata`" ++ [233]%N ++ runes_of_ascii "` , }packet A { }root packet
leftPad	{ } MetaData Header { MetaDataX
// packet A { u8 x, }
// 50% %s
i8i8 `u8 x,`,	}
")).
Eval vm_compute in ("<<<M228>>>" ++ check (runes_of_ascii "// 50% %s
packet rootA	{ @lengthOf(u8x )	Z9_ @lengthOf(charz
) , }
    packet
// " ++ [27880; 37322]%N ++ runes_of_ascii "
//
crc{	@calculatedFrom(
    // a // b
    ""a\""b"" )
    repeat
msg_type `{ , }`  ,
    @tag( 42 ) repeat char[ 42 ] packetx `{ , }`,options1/// triple
{
    //
    zchar[ 4294967296 ]packetx
    @calculatedFrom( ""CRC32""
// c
// `tick` ""quote"" 'q'
)
    , // `tick` ""quote"" 'q'
u128  {	u32
tag`doc`,
    },
} , @leftPad ( '0') falsey
{match f32a
as T{ ""a\""b"" : chars,// c
""a\\""
    :
    body,
    [ ""\n"" , ""CRC32"" , 0// c
, 10	,
""" ++ [233]%N ++ runes_of_ascii "t" ++ [233]%N ++ runes_of_ascii """
    ]
// " ++ [128512]%N ++ runes_of_ascii " emoji
// " ++ [27880; 37322]%N ++ runes_of_ascii "
:
    packetx	,
[""a\""b"" /// triple
] :
A
0
: leftPad
,
    /// triple
    4294967296 :
BodyLength, } ,msg_type
// " ++ [27880; 37322]%N ++ runes_of_ascii "
//
,
}
,}")).
Eval vm_compute in ("<<<M238>>>" ++ check (runes_of_ascii "root packet Header { @calculatedFrom( //
""abc""
) uint8 metadata ,
@tag(
65535
    ) @tag( 3 )
i8 charz , @calculatedFrom( """"
) @lengthOf( A ) @leftPad( ) uint16 Z9_ ,
repeat zchar[ // " ++ [27880; 37322]%N ++ runes_of_ascii "
1 ] metadata
``,u8x @calculatedFrom(	""" ++ [128512]%N ++ runes_of_ascii """ )
    //x
    `{ , }` //x
, repeat f32
    Foo , len
// " ++ [128512]%N ++ runes_of_ascii " emoji
// `tick` ""quote"" 'q'
@calculatedFrom( ""// no comment"" )
,repeat char[ 3  ]tag, repeat zchar[ 0123456789 ]
    asx
,
    u128, } options {	asx =007 ; calculatedFrom
    = false ; uint8x= zchar[ 65535
]
; A=
' '
    } packet len
    // `tick` ""quote"" 'q'
    { @leftPad
    ( ' ' )	string Pad
    // packet A { u8 x, }
    @calculatedFrom(""a\""b""  )	,
    }packet stringy  {@leftPad(
' ' ) repeat i64_ ,
    }
")).
Eval vm_compute in ("<<<M248>>>" ++ check (runes_of_ascii "root packet charz
    {
o A , } root packet charz
{char[] repeatCount  @lengthOf(  tag )	`line1
line2` , repeat pack`two words`
,	T { // packet A { u8 x, }
string rootA @calculatedFrom( ""{,}"" ) ,}, repeat
// " ++ [27880; 37322]%N ++ runes_of_ascii "
// " ++ [128512]%N ++ runes_of_ascii " emoji
As Foo ,
// packet A { u8 x, }
// c
char[
    3 ]trueish , @calculatedFrom( """"  ) @lengthOf( metadata )
@leftPad (
    '0' )  repeat u64 float`u8 x,`
, stringy{ metadata {//x
u8 f32a
// c
// " ++ [27880; 37322]%N ++ runes_of_ascii "
`" ++ [28040; 24687; 31867; 22411]%N ++ runes_of_ascii "`, repeat char[
    /// triple
    007
    ] f32a`two words`,  } , asx , float64
i8i8
    ,
//x
// packet A { u8 x, }
} , match lengthOf
as zchar {	00 // c
:
o
,
}, }options // packet A { u8 x, }
{
tag
    =65535;
/// triple
// 50% %s
float = 0}	packet T {
repeat
    // 50% %s
    x_y_z o
`it's` ,A { Pad@calculatedFrom(	""\n"" ),	zchar[00
    ]i64_
@lengthOf( Z9_ )
`u8 x,` ,
u64 u8x
@calculatedFrom(
    // trailing space 
    ""it's"" )
, }
, match
Header as f32a { [
    1
    , // " ++ [27880; 37322]%N ++ runes_of_ascii "
0123456789  ] : int } , // packet A { u8 x, }
char[]
    roots @calculatedFrom("""" )`say ""hi""` ,
    @leftPad ( ) a1 chars , }
//	t
")).
Eval vm_compute in ("<<<M258>>>" ++ check (runes_of_ascii "
MetaData	f32a { uint8x  zchar`" ++ [28040; 24687; 31867; 22411]%N ++ runes_of_ascii "` ,i32 Logon
    , }
options{
    repeatCount= ""\n""; trueish=
    zchar[ 4294967296 ]
    ; }
    // c
    MetaData body { char[] T
, x_y_z
    Packet `crlf
line` , uint32 matchKey ,
x tag ,}")).
Eval vm_compute in ("<<<T258>>>" ++ terms [mkTok 37 "MetaData" 2 0 false; mkTok 42 "f32a" 2 9 false; mkTok 2 "{" 2 14 false; mkTok 42 "uint8x" 2 16 false; mkTok 42 "zchar" 2 24 false; mkTok 43 (string_of_bytes [96; 230; 182; 136; 230; 129; 175; 231; 177; 187; 229; 158; 139; 96]%N) 2 29 false; mkTok 40 "," 2 36 false; mkTok 26 "i32" 2 37 false; mkTok 42 "Logon" 2 41 false; mkTok 40 "," 3 4 false; mkTok 3 "}" 3 6 false; mkTok 1 "options" 4 0 false; mkTok 2 "{" 4 7 false; mkTok 42 "repeatCount" 5 4 false; mkTok 4 "=" 5 15 false; mkTok 31 """\n""" 5 17 false; mkTok 41 ";" 5 21 false; mkTok 42 "trueish" 5 23 false; mkTok 4 "=" 5 30 false; mkTok 14 "zchar[" 6 4 false; mkTok 30 "4294967296" 6 11 false; mkTok 13 "]" 6 22 false; mkTok 41 ";" 7 4 false; mkTok 3 "}" 7 6 false; mkTok 44 "// c" 8 4 true; mkTok 37 "MetaData" 9 4 false; mkTok 42 "body" 9 13 false; mkTok 2 "{" 9 18 false; mkTok 16 "char[]" 9 20 false; mkTok 42 "T" 9 27 false; mkTok 40 "," 10 0 false; mkTok 42 "x_y_z" 10 2 false; mkTok 42 "Packet" 11 4 false; mkTok 43 (string_of_bytes [96; 99; 114; 108; 102; 13; 10; 108; 105; 110; 101; 96]%N) 11 11 false; mkTok 40 "," 12 6 false; mkTok 22 "uint32" 12 8 false; mkTok 42 "matchKey" 12 15 false; mkTok 40 "," 12 24 false; mkTok 42 "x" 13 0 false; mkTok 42 "tag" 13 2 false; mkTok 40 "," 13 6 false; mkTok 3 "}" 13 7 false; mkTok 0 "<EOF>" 13 8 false] (mkPacket (mkPtok 37 "MetaData" 2 0 0) (Some (mkPtok 3 "}" 13 7 41)) [(DMeta (mkMetaDef (mkSpan (mkPtok 37 "MetaData" 2 0 0) (mkPtok 3 "}" 3 6 10)) (mkPtok 37 "MetaData" 2 0 0) (mkPtok 42 "f32a" 2 9 1) (mkPtok 2 "{" 2 14 2) [(MIRef (mkRefMetaDecl (mkSpan (mkPtok 42 "uint8x" 2 16 3) (mkPtok 40 "," 2 36 6)) (mkPtok 42 "uint8x" 2 16 3) (mkPtok 42 "zchar" 2 24 4) (Some (mkPtok 43 (string_of_bytes [96; 230; 182; 136; 230; 129; 175; 231; 177; 187; 229; 158; 139; 96]%N) 2 29 5)) (mkPtok 40 "," 2 36 6))); (MIDecl (mkMetaDecl (mkSpan (mkPtok 26 "i32" 2 37 7) (mkPtok 40 "," 3 4 9)) (TyBasic (mkSpan (mkPtok 26 "i32" 2 37 7) (mkPtok 26 "i32" 2 37 7)) (mkBasicType (mkSpan (mkPtok 26 "i32" 2 37 7) (mkPtok 26 "i32" 2 37 7)) (mkPtok 26 "i32" 2 37 7))) (mkPtok 42 "Logon" 2 41 8) None (mkPtok 40 "," 3 4 9)))] (mkPtok 3 "}" 3 6 10))); (DOption (mkOptionDef (mkSpan (mkPtok 1 "options" 4 0 11) (mkPtok 3 "}" 7 6 23)) (mkPtok 1 "options" 4 0 11) (mkPtok 2 "{" 4 7 12) [(mkOptionDecl (mkSpan (mkPtok 42 "repeatCount" 5 4 13) (mkPtok 41 ";" 5 21 16)) (mkPtok 42 "repeatCount" 5 4 13) (mkPtok 4 "=" 5 15 14) (VString (mkSpan (mkPtok 31 """\n""" 5 17 15) (mkPtok 31 """\n""" 5 17 15)) (mkPtok 31 """\n""" 5 17 15)) (Some (mkPtok 41 ";" 5 21 16))); (mkOptionDecl (mkSpan (mkPtok 42 "trueish" 5 23 17) (mkPtok 41 ";" 7 4 22)) (mkPtok 42 "trueish" 5 23 17) (mkPtok 4 "=" 5 30 18) (VType (mkSpan (mkPtok 14 "zchar[" 6 4 19) (mkPtok 13 "]" 6 22 21)) (TyFixed (mkSpan (mkPtok 14 "zchar[" 6 4 19) (mkPtok 13 "]" 6 22 21)) (mkFixedString (mkSpan (mkPtok 14 "zchar[" 6 4 19) (mkPtok 13 "]" 6 22 21)) (mkPtok 14 "zchar[" 6 4 19) (mkPtok 30 "4294967296" 6 11 20) (mkPtok 13 "]" 6 22 21)))) (Some (mkPtok 41 ";" 7 4 22)))] (mkPtok 3 "}" 7 6 23))); (DMeta (mkMetaDef (mkSpan (mkPtok 37 "MetaData" 9 4 25) (mkPtok 3 "}" 13 7 41)) (mkPtok 37 "MetaData" 9 4 25) (mkPtok 42 "body" 9 13 26) (mkPtok 2 "{" 9 18 27) [(MIDecl (mkMetaDecl (mkSpan (mkPtok 16 "char[]" 9 20 28) (mkPtok 40 "," 10 0 30)) (TyDynamic (mkSpan (mkPtok 16 "char[]" 9 20 28) (mkPtok 16 "char[]" 9 20 28)) (mkDynamicString (mkSpan (mkPtok 16 "char[]" 9 20 28) (mkPtok 16 "char[]" 9 20 28)) (mkPtok 16 "char[]" 9 20 28))) (mkPtok 42 "T" 9 27 29) None (mkPtok 40 "," 10 0 30))); (MIRef (mkRefMetaDecl (mkSpan (mkPtok 42 "x_y_z" 10 2 31) (mkPtok 40 "," 12 6 34)) (mkPtok 42 "x_y_z" 10 2 31) (mkPtok 42 "Packet" 11 4 32) (Some (mkPtok 43 (string_of_bytes [96; 99; 114; 108; 102; 13; 10; 108; 105; 110; 101; 96]%N) 11 11 33)) (mkPtok 40 "," 12 6 34))); (MIDecl (mkMetaDecl (mkSpan (mkPtok 22 "uint32" 12 8 35) (mkPtok 40 "," 12 24 37)) (TyBasic (mkSpan (mkPtok 22 "uint32" 12 8 35) (mkPtok 22 "uint32" 12 8 35)) (mkBasicType (mkSpan (mkPtok 22 "uint32" 12 8 35) (mkPtok 22 "uint32" 12 8 35)) (mkPtok 22 "uint32" 12 8 35))) (mkPtok 42 "matchKey" 12 15 36) None (mkPtok 40 "," 12 24 37))); (MIRef (mkRefMetaDecl (mkSpan (mkPtok 42 "x" 13 0 38) (mkPtok 40 "," 13 6 40)) (mkPtok 42 "x" 13 0 38) (mkPtok 42 "tag" 13 2 39) None (mkPtok 40 "," 13 6 40)))] (mkPtok 3 "}" 13 7 41)))])).
Eval vm_compute in ("<<<M268>>>" ++ check (runes_of_ascii "root packet x_y_z{
    //
    T _x
,@lengthOf(
    uint8x
)i32 Pad
    // " ++ [128512]%N ++ runes_of_ascii " emoji
    `tab	here` , repeat
char[ 0]o `crlf
line`	,i8i8 {
int// packet A { u8 x, }
Header `
`  ,u8 f32a
,}
,
@lengthOf(
    crc)	match i8i8 as
Logon{  0123456789  :
float
,}
, int {
    x `line1
line2`,}
    ,
    // " ++ [128512]%N ++ runes_of_ascii " emoji
    repeat falsey{options1 x `doc`	, i8i8
    `u8 x,`
    ,
    } ,
    repeat // `tick` ""quote"" 'q'
zchar[ 0123456789// a // b
] a1	,}	options
{ } options  { } root packet metadata
    {
    @calculatedFrom( ""a\\""
    ) string_
{ pack { match
msg_type
as	MetaDataX { ""// no comment""
// " ++ [27880; 37322]%N ++ runes_of_ascii "
// 50% %s
:string_ , [ 65535
    ]:	roots
,
// packet A { u8 x, }
// " ++ [128512]%N ++ runes_of_ascii " emoji
10 :
    metadata
, 0 :_x ,
    [
0123456789
, 007 ,  7 , 00 ,
    4294967296 ] : trueish	, } // " ++ [128512]%N ++ runes_of_ascii " emoji
, char[]
//x
// " ++ [128512]%N ++ runes_of_ascii " emoji
u128
    ,u64 u8x@lengthOf( string_ ) `doc`, }, // packet A { u8 x, }
repeat
    uint8
    stringy  ,
    // 50% %s
    crc msg_type , } ,
// `tick` ""quote"" 'q'
// trailing space 
@calculatedFrom( """ ++ [28040; 24687]%N ++ runes_of_ascii """	) int32 packetx`" ++ [233]%N ++ runes_of_ascii "` , Logon { match  uint8x as options1{""\" ++ [233]%N ++ runes_of_ascii """
:
    Z9_ ,
// 50% %s
// 50% %s
} , } , } root packet // c
options1 { @tag( 0 )  @calculatedFrom(
""" ++ [233]%N ++ runes_of_ascii "t" ++ [233]%N ++ runes_of_ascii """ )
@lengthOf(
roots ) pack {i32
    msg_type
    , } ,	}")).
Eval vm_compute in ("<<<M278>>>" ++ check (runes_of_ascii "packet As { // c
repeat int32
charz `doc` , }
MetaData options1 //x
{ } MetaData BodyLength { falsey u8x
// a // b
// packet A { u8 x, }
`two words`, string_ u8x
`{ , }` , string_	i64_
//x
// " ++ [128512]%N ++ runes_of_ascii " emoji
`100% of %d`,
int8 asx
`tab	here`
    ,
    } packet f32a{ @leftPad ( ' ') char[ 1 ] msg_type
@calculatedFrom( ""it's"" ),  msg_type, }
")).
Eval vm_compute in ("<<<M288>>>" ++ check (runes_of_ascii "MetaData A {
    float32
u128
, metadata x_y_z	,zchar[// " ++ [27880; 37322]%N ++ runes_of_ascii "
3
    ] zchar , u16	u8x
    ,}
packet Packet {
@calculatedFrom(
"""" ) rootA float ``  , int32 rootA, repeat	float BodyLength
`crlf
line` , float  @lengthOf( u128 ) , }// `tick` ""quote"" 'q'
MetaData len { A Foo
    `100% of %d` ,	}")).
Eval vm_compute in ("<<<M298>>>" ++ check (runes_of_ascii "// `tick` ""quote"" 'q'
MetaData
string_ { uint8
asx
    ,
    string A //	t
, }
")).
Eval vm_compute in ("<<<M308>>>" ++ check (runes_of_ascii "root packet SimpleMessage {
	uint16 MsgType `" ++ [28040; 24687; 31867; 22411]%N ++ runes_of_ascii "`,
	string JsonBody `Json" ++ [23383; 31526; 20018; 28040; 24687; 20307]%N ++ runes_of_ascii "`,
}")).
Eval vm_compute in ("<<<M318>>>" ++ check (runes_of_ascii "MetaData")).
Eval vm_compute in ("<<<M328>>>" ++ check (runes_of_ascii "MetaData
crc	{")).
Eval vm_compute in ("<<<M338>>>" ++ check (runes_of_ascii "MetaData
crc	{ char[] Z9_")).
Eval vm_compute in ("<<<M348>>>" ++ check (runes_of_ascii "MetaData
crc	{ char[] Z9_`{ , }`,")).
Eval vm_compute in ("<<<M358>>>" ++ check (runes_of_ascii "MetaData
crc	{ char[] Z9_`{ , }`,} options")).
Eval vm_compute in ("<<<M368>>>" ++ check (runes_of_ascii "MetaData
crc	{ char[] Z9_`{ , }`,} options { tag")).
Eval vm_compute in ("<<<M378>>>" ++ check (runes_of_ascii "MetaData
crc	{ char[] Z9_`{ , }`,} options { tag =
    false")).
Eval vm_compute in ("<<<M388>>>" ++ check (runes_of_ascii "MetaData
crc	{ char[] Z9_`{ , }`,} options { tag =
    false } packet")).
Eval vm_compute in ("<<<M398>>>" ++ check (runes_of_ascii "MetaData
crc	{ char[] Z9_`{ , }`,} options { tag =
    false } packet
// a // b
// @lengthOf(
Pad {")).
Eval vm_compute in ("<<<M408>>>" ++ check (runes_of_ascii "MetaData
crc	{ char[] Z9_`{ , }`,} options { tag =
    false } packet
// a // b
// @lengthOf(
Pad {Foo @calculatedFrom(")).
Eval vm_compute in ("<<<M418>>>" ++ check (runes_of_ascii "MetaData
crc	{ char[] Z9_`{ , }`,} options { tag =
    false } packet
// a // b
// @lengthOf(
Pad {Foo @calculatedFrom( // `tick` ""quote"" 'q'
""a\\"" )")).
Eval vm_compute in ("<<<M428>>>" ++ check (runes_of_ascii "MetaData
crc	{ char[] Z9_`{ , }`,} options { tag =
    false } packet
// a // b
// @lengthOf(
Pad {Foo @calculatedFrom( // `tick` ""quote"" 'q'
""a\\"" ) ,
    trueish")).
Eval vm_compute in ("<<<M438>>>" ++ check (runes_of_ascii "MetaData
crc	{ char[] Z9_`{ , }`,} options { tag =
    false } packet
// a // b
// @lengthOf(
Pad {Foo @calculatedFrom( // `tick` ""quote"" 'q'
""a\\"" ) ,
    trueish ,
    char[")).
Eval vm_compute in ("<<<M448>>>" ++ check (runes_of_ascii "MetaData
crc	{ char[] Z9_`{ , }`,} options { tag =
    false } packet
// a // b
// @lengthOf(
Pad {Foo @calculatedFrom( // `tick` ""quote"" 'q'
""a\\"" ) ,
    trueish ,
    char[ 00]")).
Eval vm_compute in ("<<<M458>>>" ++ check (runes_of_ascii "MetaData
crc	{ char[] Z9_`{ , }`,} options { tag =
    false } packet
// a // b
// @lengthOf(
Pad ")).
Eval vm_compute in ("<<<M468>>>" ++ check (runes_of_ascii "MetaData
crc	{ char[] Z9_`{ , }`,} options { tag =
    false } packet
// a // b
// @lengthOf(
Pad {Foo @calculatedFrom( // `tick` ""quote"" 'q'
""a\\"" ) ,
   % trueish ,
    char[ 00]
    // " ++ [128512]%N ++ runes_of_ascii " emoji
    packetx , }
")).
Eval vm_compute in ("<<<M478>>>" ++ check (runes_of_ascii "MetaData
crc	{ char[] Z9_`{ , }`,} options { tag =
    false } packet
// a // b
// @lengthOf(
Pad {na" ++ [239]%N ++ runes_of_ascii "ve @calculatedFrom( // `tick` ""quote"" 'q'
""a\\"" ) ,
    trueish ,
    char[ 00]
    // " ++ [128512]%N ++ runes_of_ascii " emoji
    packetx , }
")).
Eval vm_compute in ("<<<M488>>>" ++ check (runes_of_ascii "root packet _x	{ @rightPad (
' ' ) string  @lengthOf(
    _x
) , repeat Pad  { // " ++ [128512]%N ++ runes_of_ascii " emoji
As
// `tick` ""quote"" 'q'
//x
{matchKey chars,
} , }, }")).
Eval vm_compute in ("<<<M498>>>" ++ check (runes_of_ascii "root packet _x	{ @rightPad (
' ' ) string u8x @lengthOf(
    _x
) , repeat Pad  { // " ++ [128512]%N ++ runes_of_ascii " emoji
As
// `tick` ""quote"" 'q'
//x
{matchKey ,chars
} , }, }")).
Eval vm_compute in ("<<<M508>>>" ++ check (runes_of_ascii "root packet `crlf
line`	{ @rightPad (
' ' ) string u8x @lengthOf(
    _x
) , repeat Pad  { // " ++ [128512]%N ++ runes_of_ascii " emoji
As
// `tick` ""quote"" 'q'
//x
{matchKey chars,
} , }, }")).
Eval vm_compute in ("<<<M518>>>" ++ check (runes_of_ascii "root packet _x	{ @rightPad (
' ' ) string u8x @lengthOf(
    _x
) , repeat Pad  { // " ++ [128512]%N ++ runes_of_ascii " emoji
As
// `tick` ""quote"" 'q'
//x
{matchKey chars,
} , repeat, }")).
Eval vm_compute in ("<<<M528>>>" ++ check (runes_of_ascii "root packet _x	{ @rightPad (
' ' ) string u8x @lengthOf(
    _x
) , repeat Pad  { // " ++ [128512]%N ++ runes_of_ascii " emoji
match
// `tick` ""quote"" 'q'
//x
{matchKey chars,
} , }, }")).
Eval vm_compute in ("<<<M538>>>" ++ check (runes_of_ascii "root packet _x	{ @rightPad (
' ' ) string u8x @lengthOf(
    _x
) , repeat Pad  { // " ++ [128512]%N ++ runes_of_ascii " emoji
As
// `tick` ""quote"" 'q'
//x
[matchKey chars,
} , }, }")).
Eval vm_compute in ("<<<M548>>>" ++ check (runes_of_ascii "root packet _x	{ @rightPad (
' ' ) string u8x @lengthOf(
    _x
) , repeat Pad  { // " ++ [128512]%N ++ runes_of_ascii " emoji
As
// `tick` ""quote"" 'q'
//x
{matchKey chars chars,
} , }, }")).
Eval vm_compute in ("<<<M558>>>" ++ check (runes_of_ascii "root packet _x	{ @rightPad (
' ' ) string u8x @lengthOf(
    _x
) , repeat Pad  { // " ++ [128512]%N ++ runes_of_ascii " emoji
As
// `tick` ""quote"" 'q'
//x
{matchKey chars,
} } ,, }")).
Eval vm_compute in ("<<<M568>>>" ++ check (runes_of_ascii "		")).
Eval vm_compute in ("<<<M578>>>" ++ check (runes_of_ascii "T23B$Sn2Nl} -DSJU[znVUK3aYgbLod-??]}bLSS")).
Eval vm_compute in ("<<<M588>>>" ++ check (runes_of_ascii "u64 `{ , }` char[] string packet packet @lengthOf( } options")).
Eval vm_compute in ("<<<M598>>>" ++ check (runes_of_ascii "xdN!@")).
