From FP Require Import Lexer Parser ShowPT Digest.
From Coq Require Import String List NArith.
Import ListNotations.
Open Scope string_scope.
Set Printing Width 100000000.
Set Printing Depth 100000000.
Definition nl : string := String (Ascii.ascii_of_nat 10) EmptyString.
Definition model_lex (rs : list rune) : string := show_toks (lex rs).
Definition model_parse (rs : list rune) : string :=
  show_pt (match lex rs with Some ts => parse ts | None => None end).
(* coqc is slow at printing long strings: digests first (Digest.v), full texts on demand *)
Definition check (rs : list rune) : string :=
  digest (model_lex rs) ++ " " ++ digest (model_parse rs).
Definition full (rs : list rune) : string := model_lex rs ++ nl ++ model_parse rs.
Definition terms (ts : list tok) (t : pt) : string :=
  digest (show_toks (Some ts)) ++ " " ++ digest (show_pt (Some t)) ++ " " ++ digest (show_pt (parse ts)).
Definition terms_full (ts : list tok) (t : pt) : string :=
  show_toks (Some ts) ++ nl ++ show_pt (Some t) ++ nl ++ show_pt (parse ts).
Eval vm_compute in ("<<<M8>>>" ++ check (runes_of_ascii "packet leftPad
    { @tag( 3 )
    @tag( // trailing space 
255 ) @tag( 7 ) Packet @calculatedFrom(
    ""\n"" )
    ,
    @calculatedFrom(
//x
/// triple
""abc""
)
    repeat
    f32a
    trueish `// not a comment` ,
    match
    /// triple
    calculatedFrom
as stringy { [	1
,
    // @lengthOf(
    65535 ] :
    u  ,}
// `tick` ""quote"" 'q'
/// triple
, zchar[ 10 ] o `` , @lengthOf(calculatedFrom
)
char x_y_z ,char[] BodyLength ,stringy o
`line1
line2` ,
@tag( 00 )options1  {// @lengthOf(
float32 asx
@lengthOf( roots ) ,
// " ++ [128512]%N ++ runes_of_ascii " emoji
// `tick` ""quote"" 'q'
match Z9_
as
int
    {""{,}""
: A [ // " ++ [27880; 37322]%N ++ runes_of_ascii "
""a\""b""  ,
""it's""
    ] :	repeatCount ,1 :
    float , ""a\\"": zchar// `tick` ""quote"" 'q'
[0 , ""abc"" ,0,  00,
0
    ,
""" ++ [128512]%N ++ runes_of_ascii """ ]: T
, 0123456789	: As , }
    , }, @lengthOf(
    msg_type ) i8
matchKey , repeat
len len `a\`
,	}")).
Eval vm_compute in ("<<<M18>>>" ++ check (runes_of_ascii "root  packet
Pad {
@tag(65535 ) @lengthOf(
matchKey) //
int32 pack
    , // `tick` ""quote"" 'q'
zchar[65535  ]
charz @calculatedFrom(""""
    )
`crlf
line` , }
MetaData
options1
    {charz crc
//
// " ++ [27880; 37322]%N ++ runes_of_ascii "
, body packetx `// not a comment`, } packet string_ { char[	7 // @lengthOf(
]
T	@calculatedFrom(""\" ++ [233]%N ++ runes_of_ascii """) // c
, @leftPad ( '\x00')@calculatedFrom(
""packet"" )
@tag( 42
// " ++ [128512]%N ++ runes_of_ascii " emoji
// " ++ [128512]%N ++ runes_of_ascii " emoji
) string string_ @calculatedFrom( """ ++ [28040; 24687]%N ++ runes_of_ascii """ ) `a\` , }
")).
Eval vm_compute in ("<<<M28>>>" ++ check (runes_of_ascii "root packet Packet{ char[]
    msg_type @calculatedFrom(""a\\"" ) , repeat
    u16 a1
`say ""hi""`
,f32a
stringy
`u8 x,` ,
    uint16 int	, @calculatedFrom( ""// no comment""
) repeat
// a // b
// c
u8 T, zchar[
// packet A { u8 x, }
// " ++ [27880; 37322]%N ++ runes_of_ascii "
65535
//x
//
]  T , // `tick` ""quote"" 'q'
repeat chars	{ char[] tag //x
`" ++ [233]%N ++ runes_of_ascii "`,int64 A	@calculatedFrom(	""\n"" )`// not a comment`
, match trueish as i8i8 {[ ""a\""b""]	: MetaDataX, } , len {zchar[ 65535 ]o
    @lengthOf( body  ) `a\`//
, string options1`two words`
    , tag
    // `tick` ""quote"" 'q'
    { T `{ , }`
    , charz
    ,i8 // trailing space 
uint8x ,} ,char[]packetx// @lengthOf(
@lengthOf(// c
roots ) ,} ,
    }
,//
string  x, } // trailing space ")).
Eval vm_compute in ("<<<M38>>>" ++ check (runes_of_ascii "MetaData
chars { f32 metadata , i64
    metadata
// trailing space 
//x
`
` // `tick` ""quote"" 'q'
,}")).
Eval vm_compute in ("<<<M48>>>" ++ check (runes_of_ascii "
")).
Eval vm_compute in ("<<<T48>>>" ++ terms [mkTok 0 "<EOF>" 2 0 false] (mkPacket (mkPtok 0 "<EOF>" 2 0 0) None [])).
Eval vm_compute in ("<<<M58>>>" ++ check (runes_of_ascii "// `tick` ""quote"" 'q'

/// triple
")).
Eval vm_compute in ("<<<M68>>>" ++ check (runes_of_ascii "// c
MetaData calculatedFrom {Foo msg_type ,
}
")).
Eval vm_compute in ("<<<M78>>>" ++ check (runes_of_ascii "MetaData
chars {
uint32 chars	`doc` , int64 float, // trailing space 
u8
pack `
` ,
    }
")).
Eval vm_compute in ("<<<M88>>>" ++ check (runes_of_ascii "MetaData rootA
    {}
options{ rootA= '\x00' zchar
    ='0' rootA= float64 ;  trueish	= 3 i64_
= float64 ; } options{
    body
= '0'
    ;T= ""CRC32"";matchKey = char[] ; }	packet
rootA {
    // " ++ [128512]%N ++ runes_of_ascii " emoji
    @lengthOf( //
Z9_)
    @rightPad('0' ) Packet calculatedFrom , }packet
body
    { match metadata
as asx {
    3 : Header 3: packetx	, [  10]
:	Packet, """"
// " ++ [27880; 37322]%N ++ runes_of_ascii "
// @lengthOf(
: pack
,
10  :
    // packet A { u8 x, }
    pack [  255 // `tick` ""quote"" 'q'
, // `tick` ""quote"" 'q'
""""
    , 00 // a // b
,""it's""] :
x } ,
}

")).
Eval vm_compute in ("<<<M98>>>" ++ check (runes_of_ascii "options { o =
    ' ' ; lengthOf= ""it's"" string_= """ ++ [28040; 24687]%N ++ runes_of_ascii """	;i8i8 // c
=  uint32 } packet Logon{	Pad	@lengthOf(
    stringy),@rightPad (	'\x00'
) Header stringy `a\` , T { match	a1
    as Logon{  42 :
chars }	, },stringy {
zchar[ 7 // trailing space 
] x_y_z, }, uint8x BodyLength
, repeat zchar ,	@tag( 7 ) repeat // packet A { u8 x, }
u64 u128`" ++ [28040; 24687; 31867; 22411]%N ++ runes_of_ascii "` // packet A { u8 x, }
, }")).
Eval vm_compute in ("<<<M108>>>" ++ check (runes_of_ascii "/// triple
options  { Header = 65535
    ; calculatedFrom =
""x y"" trueish = true i8i8 = false metadata // trailing space 
=	""" ++ [28040; 24687]%N ++ runes_of_ascii """ ;
}
")).
Eval vm_compute in ("<<<M118>>>" ++ check (runes_of_ascii "packet body { Pad {a1`crlf
line`
    , zchar[ 007] a1 ,char[10 ] x_y_z  ,
repeat
zchar[ 1  ] metadata `u8 x,` , } , string  trueish
,repeat uint8x u ,	@tag( /// triple
007 ) calculatedFrom
{repeat BodyLength
`doc` ,
    }/// triple
, int64 lengthOf,/// triple
@lengthOf(
leftPad) @calculatedFrom( ""x y"" ) @calculatedFrom( // " ++ [27880; 37322]%N ++ runes_of_ascii "
""\" ++ [233]%N ++ runes_of_ascii """ )  falsey a1 , }")).
Eval vm_compute in ("<<<T118>>>" ++ terms [mkTok 35 "packet" 1 0 false; mkTok 42 "body" 1 7 false; mkTok 2 "{" 1 12 false; mkTok 42 "Pad" 1 14 false; mkTok 2 "{" 1 18 false; mkTok 42 "a1" 1 19 false; mkTok 43 (string_of_bytes [96; 99; 114; 108; 102; 13; 10; 108; 105; 110; 101; 96]%N) 1 21 false; mkTok 40 "," 3 4 false; mkTok 14 "zchar[" 3 6 false; mkTok 30 "007" 3 13 false; mkTok 13 "]" 3 16 false; mkTok 42 "a1" 3 18 false; mkTok 40 "," 3 21 false; mkTok 12 "char[" 3 22 false; mkTok 30 "10" 3 27 false; mkTok 13 "]" 3 30 false; mkTok 42 "x_y_z" 3 32 false; mkTok 40 "," 3 39 false; mkTok 36 "repeat" 4 0 false; mkTok 14 "zchar[" 5 0 false; mkTok 30 "1" 5 7 false; mkTok 13 "]" 5 10 false; mkTok 42 "metadata" 5 12 false; mkTok 43 "`u8 x,`" 5 21 false; mkTok 40 "," 5 29 false; mkTok 3 "}" 5 31 false; mkTok 40 "," 5 33 false; mkTok 15 "string" 5 35 false; mkTok 42 "trueish" 5 43 false; mkTok 40 "," 6 0 false; mkTok 36 "repeat" 6 1 false; mkTok 42 "uint8x" 6 8 false; mkTok 42 "u" 6 15 false; mkTok 40 "," 6 17 false; mkTok 9 "@tag(" 6 19 false; mkTok 44 "/// triple" 6 25 true; mkTok 30 "007" 7 0 false; mkTok 6 ")" 7 4 false; mkTok 42 "calculatedFrom" 7 6 false; mkTok 2 "{" 8 0 false; mkTok 36 "repeat" 8 1 false; mkTok 42 "BodyLength" 8 8 false; mkTok 43 "`doc`" 9 0 false; mkTok 40 "," 9 6 false; mkTok 3 "}" 10 4 false; mkTok 44 "/// triple" 10 5 true; mkTok 40 "," 11 0 false; mkTok 27 "int64" 11 2 false; mkTok 42 "lengthOf" 11 8 false; mkTok 40 "," 11 16 false; mkTok 44 "/// triple" 11 17 true; mkTok 7 "@lengthOf(" 12 0 false; mkTok 42 "leftPad" 13 0 false; mkTok 6 ")" 13 7 false; mkTok 5 "@calculatedFrom(" 13 9 false; mkTok 31 """x y""" 13 26 false; mkTok 6 ")" 13 32 false; mkTok 5 "@calculatedFrom(" 13 34 false; mkTok 44 (string_of_bytes [47; 47; 32; 230; 179; 168; 233; 135; 138]%N) 13 51 true; mkTok 31 (string_of_bytes [34; 92; 195; 169; 34]%N) 14 0 false; mkTok 6 ")" 14 5 false; mkTok 42 "falsey" 14 8 false; mkTok 42 "a1" 14 15 false; mkTok 40 "," 14 18 false; mkTok 3 "}" 14 20 false; mkTok 0 "<EOF>" 14 21 false] (mkPacket (mkPtok 35 "packet" 1 0 0) (Some (mkPtok 3 "}" 14 20 64)) [(DPacket (mkPacketDef (mkSpan (mkPtok 35 "packet" 1 0 0) (mkPtok 3 "}" 14 20 64)) None (mkPtok 35 "packet" 1 0 0) (mkPtok 42 "body" 1 7 1) (mkPtok 2 "{" 1 12 2) [(mkFieldWithAttr (mkSpan (mkPtok 42 "Pad" 1 14 3) (mkPtok 40 "," 5 33 26)) [] (InerObjectField (mkSpan (mkPtok 42 "Pad" 1 14 3) (mkPtok 40 "," 5 33 26)) None (InerObjectDecl (mkSpan (mkPtok 42 "Pad" 1 14 3) (mkPtok 3 "}" 5 31 25)) (mkPtok 42 "Pad" 1 14 3) (mkPtok 2 "{" 1 18 4) [(ObjectField (mkSpan (mkPtok 42 "a1" 1 19 5) (mkPtok 40 "," 3 4 7)) None (mkPtok 42 "a1" 1 19 5) None (Some (mkPtok 43 (string_of_bytes [96; 99; 114; 108; 102; 13; 10; 108; 105; 110; 101; 96]%N) 1 21 6)) (mkPtok 40 "," 3 4 7)); (MetaField (mkSpan (mkPtok 14 "zchar[" 3 6 8) (mkPtok 40 "," 3 21 12)) None (mkMetaDecl (mkSpan (mkPtok 14 "zchar[" 3 6 8) (mkPtok 40 "," 3 21 12)) (TyFixed (mkSpan (mkPtok 14 "zchar[" 3 6 8) (mkPtok 13 "]" 3 16 10)) (mkFixedString (mkSpan (mkPtok 14 "zchar[" 3 6 8) (mkPtok 13 "]" 3 16 10)) (mkPtok 14 "zchar[" 3 6 8) (mkPtok 30 "007" 3 13 9) (mkPtok 13 "]" 3 16 10))) (mkPtok 42 "a1" 3 18 11) None (mkPtok 40 "," 3 21 12))); (MetaField (mkSpan (mkPtok 12 "char[" 3 22 13) (mkPtok 40 "," 3 39 17)) None (mkMetaDecl (mkSpan (mkPtok 12 "char[" 3 22 13) (mkPtok 40 "," 3 39 17)) (TyFixed (mkSpan (mkPtok 12 "char[" 3 22 13) (mkPtok 13 "]" 3 30 15)) (mkFixedString (mkSpan (mkPtok 12 "char[" 3 22 13) (mkPtok 13 "]" 3 30 15)) (mkPtok 12 "char[" 3 22 13) (mkPtok 30 "10" 3 27 14) (mkPtok 13 "]" 3 30 15))) (mkPtok 42 "x_y_z" 3 32 16) None (mkPtok 40 "," 3 39 17))); (MetaField (mkSpan (mkPtok 36 "repeat" 4 0 18) (mkPtok 40 "," 5 29 24)) (Some (mkPtok 36 "repeat" 4 0 18)) (mkMetaDecl (mkSpan (mkPtok 14 "zchar[" 5 0 19) (mkPtok 40 "," 5 29 24)) (TyFixed (mkSpan (mkPtok 14 "zchar[" 5 0 19) (mkPtok 13 "]" 5 10 21)) (mkFixedString (mkSpan (mkPtok 14 "zchar[" 5 0 19) (mkPtok 13 "]" 5 10 21)) (mkPtok 14 "zchar[" 5 0 19) (mkPtok 30 "1" 5 7 20) (mkPtok 13 "]" 5 10 21))) (mkPtok 42 "metadata" 5 12 22) (Some (mkPtok 43 "`u8 x,`" 5 21 23)) (mkPtok 40 "," 5 29 24)))] (mkPtok 3 "}" 5 31 25)) (mkPtok 40 "," 5 33 26))); (mkFieldWithAttr (mkSpan (mkPtok 15 "string" 5 35 27) (mkPtok 40 "," 6 0 29)) [] (MetaField (mkSpan (mkPtok 15 "string" 5 35 27) (mkPtok 40 "," 6 0 29)) None (mkMetaDecl (mkSpan (mkPtok 15 "string" 5 35 27) (mkPtok 40 "," 6 0 29)) (TyDynamic (mkSpan (mkPtok 15 "string" 5 35 27) (mkPtok 15 "string" 5 35 27)) (mkDynamicString (mkSpan (mkPtok 15 "string" 5 35 27) (mkPtok 15 "string" 5 35 27)) (mkPtok 15 "string" 5 35 27))) (mkPtok 42 "trueish" 5 43 28) None (mkPtok 40 "," 6 0 29)))); (mkFieldWithAttr (mkSpan (mkPtok 36 "repeat" 6 1 30) (mkPtok 40 "," 6 17 33)) [] (ObjectField (mkSpan (mkPtok 36 "repeat" 6 1 30) (mkPtok 40 "," 6 17 33)) (Some (mkPtok 36 "repeat" 6 1 30)) (mkPtok 42 "uint8x" 6 8 31) (Some (mkPtok 42 "u" 6 15 32)) None (mkPtok 40 "," 6 17 33))); (mkFieldWithAttr (mkSpan (mkPtok 9 "@tag(" 6 19 34) (mkPtok 40 "," 11 0 46)) [(FATag (mkSpan (mkPtok 9 "@tag(" 6 19 34) (mkPtok 6 ")" 7 4 37)) (mkTagAttr (mkSpan (mkPtok 9 "@tag(" 6 19 34) (mkPtok 6 ")" 7 4 37)) (mkPtok 9 "@tag(" 6 19 34) (mkPtok 30 "007" 7 0 36) (mkPtok 6 ")" 7 4 37)))] (InerObjectField (mkSpan (mkPtok 42 "calculatedFrom" 7 6 38) (mkPtok 40 "," 11 0 46)) None (InerObjectDecl (mkSpan (mkPtok 42 "calculatedFrom" 7 6 38) (mkPtok 3 "}" 10 4 44)) (mkPtok 42 "calculatedFrom" 7 6 38) (mkPtok 2 "{" 8 0 39) [(ObjectField (mkSpan (mkPtok 36 "repeat" 8 1 40) (mkPtok 40 "," 9 6 43)) (Some (mkPtok 36 "repeat" 8 1 40)) (mkPtok 42 "BodyLength" 8 8 41) None (Some (mkPtok 43 "`doc`" 9 0 42)) (mkPtok 40 "," 9 6 43))] (mkPtok 3 "}" 10 4 44)) (mkPtok 40 "," 11 0 46))); (mkFieldWithAttr (mkSpan (mkPtok 27 "int64" 11 2 47) (mkPtok 40 "," 11 16 49)) [] (MetaField (mkSpan (mkPtok 27 "int64" 11 2 47) (mkPtok 40 "," 11 16 49)) None (mkMetaDecl (mkSpan (mkPtok 27 "int64" 11 2 47) (mkPtok 40 "," 11 16 49)) (TyBasic (mkSpan (mkPtok 27 "int64" 11 2 47) (mkPtok 27 "int64" 11 2 47)) (mkBasicType (mkSpan (mkPtok 27 "int64" 11 2 47) (mkPtok 27 "int64" 11 2 47)) (mkPtok 27 "int64" 11 2 47))) (mkPtok 42 "lengthOf" 11 8 48) None (mkPtok 40 "," 11 16 49)))); (mkFieldWithAttr (mkSpan (mkPtok 7 "@lengthOf(" 12 0 51) (mkPtok 40 "," 14 18 63)) [(FALengthOf (mkSpan (mkPtok 7 "@lengthOf(" 12 0 51) (mkPtok 6 ")" 13 7 53)) (mkLengthOf (mkSpan (mkPtok 7 "@lengthOf(" 12 0 51) (mkPtok 6 ")" 13 7 53)) (mkPtok 7 "@lengthOf(" 12 0 51) (mkPtok 42 "leftPad" 13 0 52) (mkPtok 6 ")" 13 7 53))); (FACalculatedFrom (mkSpan (mkPtok 5 "@calculatedFrom(" 13 9 54) (mkPtok 6 ")" 13 32 56)) (mkCalculatedFrom (mkSpan (mkPtok 5 "@calculatedFrom(" 13 9 54) (mkPtok 6 ")" 13 32 56)) (mkPtok 5 "@calculatedFrom(" 13 9 54) (mkPtok 31 """x y""" 13 26 55) (mkPtok 6 ")" 13 32 56))); (FACalculatedFrom (mkSpan (mkPtok 5 "@calculatedFrom(" 13 34 57) (mkPtok 6 ")" 14 5 60)) (mkCalculatedFrom (mkSpan (mkPtok 5 "@calculatedFrom(" 13 34 57) (mkPtok 6 ")" 14 5 60)) (mkPtok 5 "@calculatedFrom(" 13 34 57) (mkPtok 31 (string_of_bytes [34; 92; 195; 169; 34]%N) 14 0 59) (mkPtok 6 ")" 14 5 60)))] (ObjectField (mkSpan (mkPtok 42 "falsey" 14 8 61) (mkPtok 40 "," 14 18 63)) None (mkPtok 42 "falsey" 14 8 61) (Some (mkPtok 42 "a1" 14 15 62)) None (mkPtok 40 "," 14 18 63)))] (mkPtok 3 "}" 14 20 64)))])).
Eval vm_compute in ("<<<M128>>>" ++ check (runes_of_ascii "
packet crc	{ u32 T@lengthOf( x ) `crlf
line` ,// a // b
}")).
Eval vm_compute in ("<<<M138>>>" ++ check (runes_of_ascii "

// c
")).
Eval vm_compute in ("<<<M148>>>" ++ check (runes_of_ascii "options // `tick` ""quote"" 'q'
{ repeatCount = 3/// triple
}")).
Eval vm_compute in ("<<<M158>>>" ++ check (runes_of_ascii "packet  float{ }
")).
Eval vm_compute in ("<<<M168>>>" ++ check (runes_of_ascii "// trailing space 
packet
Header { // c
repeat  char[] MetaDataX , }")).
Eval vm_compute in ("<<<M178>>>" ++ check (runes_of_ascii "packet options1 {  }

")).
Eval vm_compute in ("<<<M188>>>" ++ check (runes_of_ascii "MetaData a1 { Foo body
`{ , }`
    , int32
int`` ,i32 a1 `" ++ [28040; 24687; 31867; 22411]%N ++ runes_of_ascii "`
, int8 msg_type `` , }

")).
Eval vm_compute in ("<<<T188>>>" ++ terms [mkTok 37 "MetaData" 1 0 false; mkTok 42 "a1" 1 9 false; mkTok 2 "{" 1 12 false; mkTok 42 "Foo" 1 14 false; mkTok 42 "body" 1 18 false; mkTok 43 "`{ , }`" 2 0 false; mkTok 40 "," 3 4 false; mkTok 26 "int32" 3 6 false; mkTok 42 "int" 4 0 false; mkTok 43 "``" 4 3 false; mkTok 40 "," 4 6 false; mkTok 26 "i32" 4 7 false; mkTok 42 "a1" 4 11 false; mkTok 43 (string_of_bytes [96; 230; 182; 136; 230; 129; 175; 231; 177; 187; 229; 158; 139; 96]%N) 4 14 false; mkTok 40 "," 5 0 false; mkTok 24 "int8" 5 2 false; mkTok 42 "msg_type" 5 7 false; mkTok 43 "``" 5 16 false; mkTok 40 "," 5 19 false; mkTok 3 "}" 5 21 false; mkTok 0 "<EOF>" 7 0 false] (mkPacket (mkPtok 37 "MetaData" 1 0 0) (Some (mkPtok 3 "}" 5 21 19)) [(DMeta (mkMetaDef (mkSpan (mkPtok 37 "MetaData" 1 0 0) (mkPtok 3 "}" 5 21 19)) (mkPtok 37 "MetaData" 1 0 0) (mkPtok 42 "a1" 1 9 1) (mkPtok 2 "{" 1 12 2) [(MIRef (mkRefMetaDecl (mkSpan (mkPtok 42 "Foo" 1 14 3) (mkPtok 40 "," 3 4 6)) (mkPtok 42 "Foo" 1 14 3) (mkPtok 42 "body" 1 18 4) (Some (mkPtok 43 "`{ , }`" 2 0 5)) (mkPtok 40 "," 3 4 6))); (MIDecl (mkMetaDecl (mkSpan (mkPtok 26 "int32" 3 6 7) (mkPtok 40 "," 4 6 10)) (TyBasic (mkSpan (mkPtok 26 "int32" 3 6 7) (mkPtok 26 "int32" 3 6 7)) (mkBasicType (mkSpan (mkPtok 26 "int32" 3 6 7) (mkPtok 26 "int32" 3 6 7)) (mkPtok 26 "int32" 3 6 7))) (mkPtok 42 "int" 4 0 8) (Some (mkPtok 43 "``" 4 3 9)) (mkPtok 40 "," 4 6 10))); (MIDecl (mkMetaDecl (mkSpan (mkPtok 26 "i32" 4 7 11) (mkPtok 40 "," 5 0 14)) (TyBasic (mkSpan (mkPtok 26 "i32" 4 7 11) (mkPtok 26 "i32" 4 7 11)) (mkBasicType (mkSpan (mkPtok 26 "i32" 4 7 11) (mkPtok 26 "i32" 4 7 11)) (mkPtok 26 "i32" 4 7 11))) (mkPtok 42 "a1" 4 11 12) (Some (mkPtok 43 (string_of_bytes [96; 230; 182; 136; 230; 129; 175; 231; 177; 187; 229; 158; 139; 96]%N) 4 14 13)) (mkPtok 40 "," 5 0 14))); (MIDecl (mkMetaDecl (mkSpan (mkPtok 24 "int8" 5 2 15) (mkPtok 40 "," 5 19 18)) (TyBasic (mkSpan (mkPtok 24 "int8" 5 2 15) (mkPtok 24 "int8" 5 2 15)) (mkBasicType (mkSpan (mkPtok 24 "int8" 5 2 15) (mkPtok 24 "int8" 5 2 15)) (mkPtok 24 "int8" 5 2 15))) (mkPtok 42 "msg_type" 5 7 16) (Some (mkPtok 43 "``" 5 16 17)) (mkPtok 40 "," 5 19 18)))] (mkPtok 3 "}" 5 21 19)))])).
Eval vm_compute in ("<<<M198>>>" ++ check (runes_of_ascii "packet x
{ repeat
    string_
    { repeat asx	Foo
    /// triple
    ,int16 i8i8 , char[] matchKey ,
// @lengthOf(
// trailing space 
match calculatedFrom as // a // b
roots  { 3
: x_y_z , }
    , }
, @lengthOf(x ) repeat o `say ""hi""`
    ,//	t
char[] string_	`" ++ [28040; 24687; 31867; 22411]%N ++ runes_of_ascii "`
, @lengthOf( f32a )	match
    Pad as
    A //	t
{ ""a	b"": u128 , [""\" ++ [233]%N ++ runes_of_ascii """ ,
65535
    , 255
,""CRC32""
,
1 ]
    : i8i8
0123456789 : falsey //	t
, } , }packet zchar { }
")).
Eval vm_compute in ("<<<M208>>>" ++ check (runes_of_ascii "packet _x{
    u ,@lengthOf( len)
    match f32a as
    Pad{""packet"": metadata,
""CRC32"":x_y_z[ ""abc"" , ""{,}"" ] : Logon , }
    // c
    , zchar[ 7  ]	a1  ,
    @tag( 65535 ) @tag(
0123456789
    )
    //x
    @lengthOf(
asx ) repeat
i16 // @lengthOf(
tag `{ , }` // `tick` ""quote"" 'q'
,
    @leftPad	(
'\x00' ) match i64_ as x { 0 :crc , [
//	t
// trailing space 
""// no comment"" ] : uint8x ,
    42
// a // b
// trailing space 
:  string_	, 007 : trueish , [10 ]// " ++ [128512]%N ++ runes_of_ascii " emoji
: rootA
""" ++ [28040; 24687]%N ++ runes_of_ascii """
    : // trailing space 
len , } //
, @rightPad (
'\x00' // trailing space 
) @tag(
    //
    00 ) @calculatedFrom( """ ++ [233]%N ++ runes_of_ascii "t" ++ [233]%N ++ runes_of_ascii """ ) // c
char[]float
@calculatedFrom(	""\n"" ),repeat f32 trueish `crlf
line` ,} // @lengthOf(")).
Eval vm_compute in ("<<<M218>>>" ++ check (runes_of_ascii "packet _x
    {repeat
u8x {
    repeat pack
    body,
    } ,
@calculatedFrom( ""x y"" ) A { match msg_type as f32a {4294967296
    : crc 1
// c
/// triple
: uint8x , // a // b
[ 255, 0
    ] : // " ++ [27880; 37322]%N ++ runes_of_ascii "
pack , [7 ,
// `tick` ""quote"" 'q'
// packet A { u8 x, }
00 ] :	roots , [ 255
    ]
:	rootA
    , } ,
    char packetx
@calculatedFrom( ""{,}""
    // trailing space 
    )
, } ,
    match
    BodyLength //
as u8x {""a	b"" : u,
    00 // @lengthOf(
: msg_type,// " ++ [27880; 37322]%N ++ runes_of_ascii "
}, match metadata as As{[ 0123456789, 3 ,// a // b
0
, ""it's""
, ""it's"" , ""1"" ] :
int
,
    ""packet"": leftPad}, char[] Pad `say ""hi""` , }

")).
Eval vm_compute in ("<<<M228>>>" ++ check (runes_of_ascii "MetaData _x
{As	f32a `doc` // " ++ [128512]%N ++ runes_of_ascii " emoji
, }
packet// @lengthOf(
x {	zchar[  255
    ]	calculatedFrom  ,string_@calculatedFrom( ""a	b"" ) , @calculatedFrom(""" ++ [128512]%N ++ runes_of_ascii """)@tag(
4294967296 )@calculatedFrom(""a	b""
) char[ 0 ]i64_
`" ++ [28040; 24687; 31867; 22411]%N ++ runes_of_ascii "` ,
    @leftPad(' '  ) repeat
// c
// c
MetaDataX
    ,}")).
Eval vm_compute in ("<<<M238>>>" ++ check (runes_of_ascii "packet float { }	packet
body
    { }
//x
")).
Eval vm_compute in ("<<<M248>>>" ++ check (runes_of_ascii "packet
//
// " ++ [128512]%N ++ runes_of_ascii " emoji
body	{ @calculatedFrom(""" ++ [233]%N ++ runes_of_ascii "t" ++ [233]%N ++ runes_of_ascii """
) body {o@calculatedFrom(  """ ++ [233]%N ++ runes_of_ascii "t" ++ [233]%N ++ runes_of_ascii """ ), }
,  char  i8i8 @lengthOf(	int ) `doc` ,	@rightPad ( )
char[0 ] tag@lengthOf( repeatCount ), @calculatedFrom("""" ) x
@calculatedFrom(""" ++ [28040; 24687]%N ++ runes_of_ascii """ )
, @calculatedFrom( """"
)// c
Packet `u8 x,`
    , // trailing space 
string x_y_z, string_ charz
    `doc` ,	match packetx as
string_ {
    00  : asx , [  ""\n""] // " ++ [128512]%N ++ runes_of_ascii " emoji
: float , [""" ++ [28040; 24687]%N ++ runes_of_ascii """
// @lengthOf(
/// triple
, 3
] :
    Foo, [ 0123456789 ,  ""1""
] : o	""\" ++ [233]%N ++ runes_of_ascii """
    : _x  ,  0123456789
: matchKey
} , @rightPad (
' ')stringy
    { match calculatedFrom as o	{// c
1
:
x_y_z
, 007:pack
    ,3 : asx
    // trailing space 
    , // " ++ [27880; 37322]%N ++ runes_of_ascii "
} ,
} , @calculatedFrom( """"
    ) @tag(  4294967296 ) repeat i64// packet A { u8 x, }
chars  ,	} packet roots { }root
packet	rootA { @tag( 255 ) pack
`it's`, @lengthOf( f32a ) @tag(
    // a // b
    1 )
    @tag(
    7)
    // " ++ [128512]%N ++ runes_of_ascii " emoji
    Foo	@calculatedFrom(
//x
//
""" ++ [128512]%N ++ runes_of_ascii """ ) , repeat calculatedFrom { string leftPad
    `doc` ,repeat
crc{ pack @calculatedFrom( ""\" ++ [233]%N ++ runes_of_ascii """) ,
    } , }, string_ { match
i64_ as u8x  { 0 :
    _x
, } ,
}	, @lengthOf( u128
    ) // trailing space 
match asx as charz
{ [ """" ,	4294967296 ] : A,// trailing space 
1 : options1 , 4294967296 :  pack 42 :charz
, [ ""`tick`"" , // a // b
""x y"" /// triple
, // " ++ [27880; 37322]%N ++ runes_of_ascii "
255
] // packet A { u8 x, }
: stringy ,} ,
@rightPad (' ' ) @lengthOf(// c
Packet
    ) repeat uint8x trueish ,
} MetaData i8i8
    { zchar[
10]Z9_ , zchar[ 0 ] Header
    `a\`, stringy roots // " ++ [27880; 37322]%N ++ runes_of_ascii "
,}
    packet options1 // c
{
    char[10
] Pad @calculatedFrom( ""\n"") `// not a comment` , roots , @calculatedFrom( ""x y""
)	zchar, @rightPad ( '0' )
    repeat
string
//x
//
roots`say ""hi""` ,}
")).
Eval vm_compute in ("<<<M258>>>" ++ check (runes_of_ascii "
options
{}")).
Eval vm_compute in ("<<<T258>>>" ++ terms [mkTok 1 "options" 2 0 false; mkTok 2 "{" 3 0 false; mkTok 3 "}" 3 1 false; mkTok 0 "<EOF>" 3 2 false] (mkPacket (mkPtok 1 "options" 2 0 0) (Some (mkPtok 3 "}" 3 1 2)) [(DOption (mkOptionDef (mkSpan (mkPtok 1 "options" 2 0 0) (mkPtok 3 "}" 3 1 2)) (mkPtok 1 "options" 2 0 0) (mkPtok 2 "{" 3 0 1) [] (mkPtok 3 "}" 3 1 2)))])).
Eval vm_compute in ("<<<M268>>>" ++ check (runes_of_ascii "
packet leftPad
    {}	packet u{@leftPad
( ' ' )
    char[65535 ]leftPad, int8
packetx ,
string stringy `crlf
line` ,@leftPad
( // @lengthOf(
' ' // " ++ [27880; 37322]%N ++ runes_of_ascii "
) // " ++ [128512]%N ++ runes_of_ascii " emoji
i64 x
@lengthOf( u )
    `" ++ [28040; 24687; 31867; 22411]%N ++ runes_of_ascii "`	,@lengthOf( pack )
// a // b
//
u64 asx  @lengthOf( repeatCount )
    `u8 x,` , o A ,}	root packet charz{
char[]repeatCount
    //x
    @lengthOf( tag ) ``
,
    repeat pack	`a\` , @calculatedFrom( ""// no comment""
    //x
    ) T { string rootA // " ++ [27880; 37322]%N ++ runes_of_ascii "
@calculatedFrom(""{,}"" )  ,
    }, repeat As
    Foo
, char[
3] trueish ,@calculatedFrom(""""
    )@lengthOf(
metadata)@leftPad ('0'
/// triple
//x
) repeat u64 float `{ , }`
// " ++ [27880; 37322]%N ++ runes_of_ascii "
// " ++ [128512]%N ++ runes_of_ascii " emoji
, stringy {
// packet A { u8 x, }
// c
metadata
    { u8 f32a `two words` , repeat  char[ 007 ] f32a
`
` ,
    } ,  u32 asx @calculatedFrom(""" ++ [233]%N ++ runes_of_ascii "t" ++ [233]%N ++ runes_of_ascii """
) ,float64 i8i8 ,//x
} ,
// c
// " ++ [27880; 37322]%N ++ runes_of_ascii "
match lengthOf as zchar
    /// triple
    {
    00 :o,  } , }")).
Eval vm_compute in ("<<<M278>>>" ++ check (runes_of_ascii "packet asx { Logon{ body
@calculatedFrom( // trailing space 
""it's"" ) , // @lengthOf(
char[ 3] MetaDataX , string
    leftPad `crlf
line` , u128@calculatedFrom( ""packet""
    ),} , } //x
packet
x_y_z
    // packet A { u8 x, }
    { len {
    match leftPad// c
as
rootA {[007 // trailing space 
, ""a\\"" , 0123456789,
    ""\" ++ [233]%N ++ runes_of_ascii """ , ""`tick`"" , ""{,}""
    ] : falsey , 4294967296:	matchKey
, // packet A { u8 x, }
}
    , int32 //	t
Z9_ // " ++ [27880; 37322]%N ++ runes_of_ascii "
,a1
{
    x_y_z ,
    repeat	_x `doc` , char[]falsey
    @lengthOf(u128) `doc` ,
    }/// triple
,match Foo as
stringy {7 : asx // " ++ [128512]%N ++ runes_of_ascii " emoji
, ""x y""	:
    calculatedFrom
, }
    , }, @lengthOf(i64_ ) @rightPad ( /// triple
'\x00'// @lengthOf(
)@tag( 42 )  char[]
repeatCount ,
match	Z9_ //x
as  int {[//x
""a	b"" ,	""abc""
    , 255 , 7 // " ++ [128512]%N ++ runes_of_ascii " emoji
] :asx
""1"" : chars , [ ""a	b"", 00 ,4294967296 ] :
leftPad , [
65535
, //x
0 , //	t
""abc"" // a // b
, ""it's"", 007 ,
    ""x y"" ,
    255,3 ]  :
leftPad
    , [
    //x
    4294967296]: u
,
// " ++ [128512]%N ++ runes_of_ascii " emoji
// " ++ [128512]%N ++ runes_of_ascii " emoji
0123456789 :a1  } ,
x_y_z  u8x ,  asx{ repeat
Header float `crlf
line`
    , rootA
charz// " ++ [128512]%N ++ runes_of_ascii " emoji
`a\` , } , @calculatedFrom(""CRC32"" ) string string_
,  @tag(
65535 )  @rightPad ( '\x00' ) u8x	a1 `{ , }` , } options { // c
float = // " ++ [27880; 37322]%N ++ runes_of_ascii "
007 }
root // c
packet
metadata {
}
")).
Eval vm_compute in ("<<<M288>>>" ++ check (runes_of_ascii "options {BodyLength=	""abc"" ;
int	=
""""
; chars
    = true	body
    =
// c
//
'\x00'
}
")).
Eval vm_compute in ("<<<M298>>>" ++ check (runes_of_ascii "MetaData
Header { int64
zchar
`u8 x,` , Header u8x ,  zchar[ 65535]u ,	A options1
`it's` , zchar[  007 ] MetaDataX , zchar[// `tick` ""quote"" 'q'
0] As , }
    MetaData Logon	{char[] rootA,
} packet int
{
f32 falsey, } MetaData float { len
leftPad ,
    A
    Foo
`tab	here`
    , char[ 65535
] T
`line1
line2` ,	} options // " ++ [128512]%N ++ runes_of_ascii " emoji
{
// " ++ [128512]%N ++ runes_of_ascii " emoji
// " ++ [27880; 37322]%N ++ runes_of_ascii "
float
    ='0'
//x
// a // b
;float
= true
    ;	Foo = ""\n""}")).
Eval vm_compute in ("<<<M308>>>" ++ check (runes_of_ascii "root packet SimpleMessage {
	uint16 MsgType `" ++ [28040; 24687; 31867; 22411]%N ++ runes_of_ascii "`,
	string JsonBody `Json" ++ [23383; 31526; 20018; 28040; 24687; 20307]%N ++ runes_of_ascii "`,
}")).
Eval vm_compute in ("<<<M318>>>" ++ check (runes_of_ascii "packet")).
Eval vm_compute in ("<<<M328>>>" ++ check (runes_of_ascii "packet
asx
{")).
Eval vm_compute in ("<<<M338>>>" ++ check (runes_of_ascii "packet
asx
{ Z9_ Header")).
Eval vm_compute in ("<<<M348>>>" ++ check (runes_of_ascii "packet
asx
{ Z9_ Header// " ++ [128512]%N ++ runes_of_ascii " emoji
,}")).
Eval vm_compute in ("<<<M358>>>" ++ check (runes_of_ascii "packet
asx
{ Z9_ Header// " ++ [128512]%N ++ runes_of_ascii " emoji
,} packet pack")).
Eval vm_compute in ("<<<M368>>>" ++ check (runes_of_ascii "\ packet
asx
{ Z9_ Header// " ++ [128512]%N ++ runes_of_ascii " emoji
,} packet pack
    { }
")).
Eval vm_compute in ("<<<M378>>>" ++ check (runes_of_ascii "packet
asx
{ Z9_ Header// " ++ [128512]%N ++ runes_of_ascii " emoji
\,} packet pack
    { }
")).
Eval vm_compute in ("<<<M388>>>" ++ check (runes_of_ascii "@leftPad o { char[ // `tick` ""quote"" 'q'
3] body, } packet o{
u8
charz ,
    }")).
Eval vm_compute in ("<<<M398>>>" ++ check (runes_of_ascii "MetaData o match char[ // `tick` ""quote"" 'q'
3] body, } packet o{
u8
charz ,
    }")).
Eval vm_compute in ("<<<M408>>>" ++ check (runes_of_ascii "MetaData o { char[ // `tick` ""quote"" 'q'
;] body, } packet o{
u8
charz ,
    }")).
Eval vm_compute in ("<<<M418>>>" ++ check (runes_of_ascii "MetaData o { char[ // `tick` ""quote"" 'q'
3] i16, } packet o{
u8
charz ,
    }")).
Eval vm_compute in ("<<<M428>>>" ++ check (runes_of_ascii "MetaData o { char[ // `tick` ""quote"" 'q'
3] body, @rightPad packet o{
u8
charz ,
    }")).
Eval vm_compute in ("<<<M438>>>" ++ check (runes_of_ascii "MetaData o { char[ // `tick` ""quote"" 'q'
3] body, } packet ={
u8
charz ,
    }")).
Eval vm_compute in ("<<<M448>>>" ++ check (runes_of_ascii "MetaData o { char[ // `tick` ""quote"" 'q'
3] body, } packet o{
root
charz ,
    }")).
Eval vm_compute in ("<<<M458>>>" ++ check (runes_of_ascii "MetaData o { char[ // `tick` ""quote"" 'q'
3] body, } packet o{
u8
charz int64
    }")).
Eval vm_compute in ("<<<M468>>>" ++ check (runes_of_ascii "MetaData o ")).
Eval vm_compute in ("<<<M478>>>" ++ check (runes_of_ascii "MetaData o { char[ // `tick` ""quote"" 'q'
3] body, } packet o{
u8
c''harz ,
    }")).
Eval vm_compute in ("<<<M488>>>" ++ check (runes_of_ascii "{ options calculatedFrom =	int8 ;}

")).
Eval vm_compute in ("<<<M498>>>" ++ check (runes_of_ascii "options {= calculatedFrom	int8 ;}

")).
Eval vm_compute in ("<<<M508>>>" ++ check (runes_of_ascii "options {calculatedFrom =	; int8}

")).
Eval vm_compute in ("<<<M518>>>" ++ check (runes_of_ascii "options {calculatedFrom =	int8 ;int8

")).
Eval vm_compute in ("<<<M528>>>" ++ check (runes_of_ascii "options {ca" ++ [65279]%N ++ runes_of_ascii "lculatedFrom =	int8 ;}

")).
Eval vm_compute in ("<<<M538>>>" ++ check (runes_of_ascii "options {calculat`edFrom =	int8 ;}

")).
Eval vm_compute in ("<<<M548>>>" ++ check (runes_of_ascii "
MetaData chars {packetx Logon,
    float calculatedFrom
,  u32 i64_ ,	}")).
Eval vm_compute in ("<<<M558>>>" ++ check (runes_of_ascii "
MetaData chars {Logon packetx,
    float calculatedFrom
,  u32 i64_ ,	")).
Eval vm_compute in ("<<<M568>>>" ++ check (runes_of_ascii "		")).
Eval vm_compute in ("<<<M578>>>" ++ check (runes_of_ascii """zI*sUjN%P95MCqfw;Z{.={R<""7D")).
Eval vm_compute in ("<<<M588>>>" ++ check (runes_of_ascii "string (")).
Eval vm_compute in ("<<<M598>>>" ++ check (runes_of_ascii "6oA=mnhAQiLRvqXCBP1ZG ePf,Mlj{,m,")).
