From FP Require Import PT Flatten ShowPT Visitor VisitorShow Faults Spelling NoPanic.
From FP Require BModel.
From Coq Require Import String List NArith.
Import ListNotations.
Open Scope string_scope.
Set Printing Width 100000000.
Set Printing Depth 100000000.
Fixpoint bs (l : list nat) : string := match l with [] => EmptyString | n :: r => String (Ascii.ascii_of_nat n) (bs r) end.
Definition T_ (b : bool) : string := if b then "T" else "F".
