From FP Require Import Lexer Parser ShowPT Digest Formatter.
From Coq Require Import String List NArith.
Import ListNotations.
Open Scope string_scope.
Set Printing Width 100000000.
Set Printing Depth 100000000.
Definition show_fres (r : fres) : string :=
  match r with
  | FOk s => "OK:" ++ sh_escaped s ""
  | FErr s => "ERR:" ++ sh_escaped s ""
  | FPanic p => "PANIC:" ++ p
  end.
Definition check (rs : list rune) : string := digest (show_fres (format_res rs)).
Definition full (rs : list rune) : string := show_fres (format_res rs).
Eval vm_compute in ("<<<M165>>>" ++ check (runes_of_ascii "packet falsey { char[7
    ]
Foo @calculatedFrom( ""CRC32"" ) , @tag(
    //
    10)	u8 Packet`" ++ [233]%N ++ runes_of_ascii "` ,repeat  stringy
,
@lengthOf( // a // b
float)tag { repeat
    u8x {
int16 charz@lengthOf(trueish ) , //	t
repeat  string calculatedFrom,
charz @calculatedFrom(  ""a\""b""
)	`line1
line2`
,
},u64
    MetaDataX @calculatedFrom( """ ++ [128512]%N ++ runes_of_ascii """
    ) `" ++ [233]%N ++ runes_of_ascii "`
    ,rootA
    // packet A { u8 x, }
    {
    repeat	u64 BodyLength
`" ++ [233]%N ++ runes_of_ascii "` , pack @calculatedFrom( //x
""{,}"" )
    `" ++ [28040; 24687; 31867; 22411]%N ++ runes_of_ascii "` ,repeat // c
x charz,
},
    // a // b
    char[] packetx, }	, // `tick` ""quote"" 'q'
calculatedFrom , u x_y_z
,repeat	int	i64_ ,@leftPad (
    ' '
)u32 T @calculatedFrom( ""{,}"" )
, repeat
    metadata , } root packet
chars
{ char[	65535
]  pack @lengthOf( As ) `tab	here` , char[
255] msg_type `// not a comment`
    ,@calculatedFrom(
    ""// no comment"" ) @tag( //	t
0 ) @tag(10 ) repeat Header {
    char[]
// @lengthOf(
// " ++ [27880; 37322]%N ++ runes_of_ascii "
i64_,repeat T//x
`` ,match uint8x	as i64_ {
00// `tick` ""quote"" 'q'
: _x ,	65535: //
Z9_,
""1""
: u8x ,
007 : Z9_
, 255
:
matchKey
""1"" :
crc , } , } ,
    @calculatedFrom(	""packet""	) match int as x_y_z{ 0123456789 :	Logon
    // @lengthOf(
    ,
    //	t
    [ 0123456789, ""it's"" ]
:
int
    , [""a	b"" , ""CRC32"" , 0, 4294967296 , """"	] :
pack , 0 : u , } , match // @lengthOf(
string_ as
int
{ 0: repeatCount [ ""abc""
    ] : // " ++ [27880; 37322]%N ++ runes_of_ascii "
float 007: msg_type , [
    ""a\""b""	]:
charz , } , i16 MetaDataX`say ""hi""`, repeat u `tab	here` , repeat falsey  { repeat i8 lengthOf `a\` ,
    repeatCount@lengthOf( o)
    `{ , }`,}, }packet rootA
    { calculatedFrom//	t
@calculatedFrom( ""x y"") ,
char Pad @calculatedFrom( ""a\""b"" ) `" ++ [233]%N ++ runes_of_ascii "`
    , @leftPad
( '\x00' )	repeat float64 tag ,
    // " ++ [27880; 37322]%N ++ runes_of_ascii "
    @calculatedFrom( ""1"") repeat Foo ,  } // " ++ [27880; 37322]%N)).
Eval vm_compute in ("<<<M324>>>" ++ check (runes_of_ascii "MetaData Pad { char[] Packet , f32a i64_
    `tab	here`
// c
// a // b
,
} root packet
    As { @calculatedFrom(""CRC32""	)@calculatedFrom(  ""1""  ) @calculatedFrom( ""// no comment""
// a // b
//
)	As
As `say ""hi""` , Foo  msg_type , calculatedFrom
@calculatedFrom( ""\n"" ) , zchar {	zchar[ 7 ] charz // `tick` ""quote"" 'q'
@calculatedFrom(""x y"" )
    , Z9_
    `{ , }` , repeat int { zchar[ 3
] i8i8
    @lengthOf( chars )
,
match zchar as
    o {1 : //
u128	,
    0
:
// trailing space 
//x
stringy
, 42
: charz""x y"": a1 3 : Header ,
4294967296 : o } , repeat
Header `two words`, match u8x  as u8x
{
[ 10] : pack ,	1 :
BodyLength
//
// " ++ [27880; 37322]%N ++ runes_of_ascii "
0 : MetaDataX
,42
:  calculatedFrom },	} /// triple
, } , // " ++ [27880; 37322]%N ++ runes_of_ascii "
}
// `tick` ""quote"" 'q'
/// triple
packet
    i64_ { }
    root packet x { Header
{char[ /// triple
0 ] _x `// not a comment`
    ,
}
    ,@lengthOf( A
)uint32 f32a
@calculatedFrom( ""abc""
    )
// `tick` ""quote"" 'q'
// " ++ [27880; 37322]%N ++ runes_of_ascii "
,
repeat i16 trueish `u8 x,` ,@rightPad	( ' ' )@calculatedFrom( ""a\\"" ) float,
    repeat char[ 7
]zchar,
    @tag( 10 ) repeat
    //	t
    a1 falsey	`say ""hi""`,
    @lengthOf(
len )repeat zchar[	00
    // `tick` ""quote"" 'q'
    ] uint8x ,}
MetaData  metadata {
u8 body
, }")).
Eval vm_compute in ("<<<M128>>>" ++ check (runes_of_ascii "root
packet // " ++ [27880; 37322]%N ++ runes_of_ascii "
crc
    {	@lengthOf(	As
)@calculatedFrom(""\" ++ [233]%N ++ runes_of_ascii """
    ) zchar[ 4294967296 ]MetaDataX `doc` ,/// triple
rootA @calculatedFrom( ""it's"" )	,@tag( 65535
    ) @tag( // c
7 )@tag( 00
//
// c
) len @lengthOf( A ) `two words` ,
// trailing space 
// " ++ [128512]%N ++ runes_of_ascii " emoji
string	rootA@lengthOf( pack
// trailing space 
//	t
) ,
// " ++ [128512]%N ++ runes_of_ascii " emoji
// trailing space 
repeat zchar ,
@calculatedFrom( ""abc"" )@leftPad ('\x00' ) @rightPad
( )match x_y_z
    as Z9_{
""it's""
    :
Logon//x
, ""x y"" : Packet,""abc""
: trueish 4294967296 // @lengthOf(
:
    repeatCount """ ++ [128512]%N ++ runes_of_ascii """:  x_y_z
} , char[ 10 // @lengthOf(
]
    stringy	`it's`
, @leftPad (
'\x00' )
rootA @lengthOf(  i64_  )
    , } MetaData falsey {
Packet repeatCount `tab	here` ,
}MetaData string_ {
    float64 roots `line1
line2` , char
As //
`
` , zchar[ 65535 ]falsey`a\` ,A
    T , _x metadata, } packet
_x // packet A { u8 x, }
{zchar[255 ] string_@lengthOf(
//	t
// @lengthOf(
u128 ) `{ , }`	,
}root packet Packet
    {repeat // " ++ [128512]%N ++ runes_of_ascii " emoji
lengthOf , }")).
Eval vm_compute in ("<<<M70>>>" ++ check (runes_of_ascii "packet pack { @lengthOf(
Foo
    // c
    )
    asx @lengthOf( _x ) /// triple
, u8	x_y_z `two words` ,repeat
    zchar[0
    ] roots `
`
    // `tick` ""quote"" 'q'
    , lengthOf @calculatedFrom( ""abc""
) ,
@tag( 3 ) @rightPad	( ' ')@calculatedFrom(
""1""
//x
// " ++ [27880; 37322]%N ++ runes_of_ascii "
)
repeat uint64 i64_ // trailing space 
`say ""hi""` // @lengthOf(
,	@tag( 007 ) match roots as float {	""a	b""
    : lengthOf,
    [1, // @lengthOf(
""\n""
,
""a\""b"" , ""\" ++ [233]%N ++ runes_of_ascii """ ,  ""1"",
    42 ]: msg_type, """ ++ [128512]%N ++ runes_of_ascii """: Foo} ,T//x
{
    match
Header
as trueish
{ [
// `tick` ""quote"" 'q'
// @lengthOf(
0 , 3// @lengthOf(
, ""{,}"" ,
""1"" ,
00  ,
0123456789
,
    ""// no comment"" ]
:As
    , }
    , } , repeat char[
    10
]
o `
`
, @calculatedFrom(
    //
    ""`tick`"" //x
) repeat crc {
    repeatCount o ,
    u8x
As, } ,
} packet pack{@calculatedFrom( """ ++ [233]%N ++ runes_of_ascii "t" ++ [233]%N ++ runes_of_ascii """ )  u32 f32a
,
}
    MetaData float
{u32 options1 , }
packet
f32a { }
")).
Eval vm_compute in ("<<<M141>>>" ++ check (runes_of_ascii "options // @lengthOf(
{zchar = char[] Z9_	='0' ;
} options
{ asx = char[] }root packet leftPad { T @lengthOf(
    f32a//
)
, } //
root
//x
// @lengthOf(
packet calculatedFrom {
u
    {//	t
char[] // packet A { u8 x, }
T `" ++ [233]%N ++ runes_of_ascii "`	,	match stringy /// triple
as //	t
chars { [
    0123456789 ]
: T ,
// `tick` ""quote"" 'q'
// " ++ [27880; 37322]%N ++ runes_of_ascii "
}	, uint16 a1 @lengthOf( x) , string
chars `two words` ,
} , @calculatedFrom(
    ""x y"")char[]
// " ++ [27880; 37322]%N ++ runes_of_ascii "
// " ++ [128512]%N ++ runes_of_ascii " emoji
body @lengthOf(
lengthOf )
    /// triple
    ,
    @lengthOf(	A	)rootA
,	@lengthOf(i64_ ) // packet A { u8 x, }
repeat f32a { lengthOf
    // " ++ [128512]%N ++ runes_of_ascii " emoji
    charz // a // b
`" ++ [28040; 24687; 31867; 22411]%N ++ runes_of_ascii "`, }
    // packet A { u8 x, }
    ,
match tag as
//x
//	t
T { [
3
] : falsey , }	,zchar[
    00
    ] charz@lengthOf(
    Pad
) ,
@tag( 3	) lengthOf{ i16 As ,
} ,
} root
packet	body{ }
")).
Eval vm_compute in ("<<<M354>>>" ++ check (runes_of_ascii "options {
} packet u8x{ string uint8x@calculatedFrom(""{,}"" )	`crlf
line`	,} MetaData falsey{
    Logon packetx `tab	here` , } root packet o
{ falsey@calculatedFrom(
//x
// " ++ [27880; 37322]%N ++ runes_of_ascii "
""" ++ [28040; 24687]%N ++ runes_of_ascii """ ) ,	@tag(0123456789) // `tick` ""quote"" 'q'
char[
    // `tick` ""quote"" 'q'
    0123456789
]	u128@calculatedFrom(
""{,}"" ) ,
    @tag(
    00)
@lengthOf( stringy
) @tag( 4294967296
)  rootA Header,  @lengthOf(As
    )
    repeat leftPad `// not a comment`// c
, i8 leftPad @calculatedFrom( """" ) , @tag( 10
) zchar[ 007
] packetx
@lengthOf( // packet A { u8 x, }
u8x )	`" ++ [28040; 24687; 31867; 22411]%N ++ runes_of_ascii "` ,
}packet	options1 {
//	t
// trailing space 
falsey// packet A { u8 x, }
{ //	t
zchar[ 3
    ]// " ++ [128512]%N ++ runes_of_ascii " emoji
roots
//
// a // b
,
    u32 Header // c
,
} ,// a // b
}")).
Eval vm_compute in ("<<<M288>>>" ++ check (runes_of_ascii "// packet A { u8 x, }
MetaData
    _x
{ //
char[] len
    ,}options
// @lengthOf(
//
{ repeatCount =""""
    ; }// c
root packet chars {
    char[ 255
]u8x,	repeat
/// triple
// c
string repeatCount
`" ++ [28040; 24687; 31867; 22411]%N ++ runes_of_ascii "` ,
repeat zchar[ 10
]
string_ , @tag( // trailing space 
255
    ) i8i8{// packet A { u8 x, }
options1
calculatedFrom `u8 x,`
,
    i64
len,
    roots // c
{ // @lengthOf(
repeat
    // a // b
    i64_ zchar //
,
    } ,
    }
, match chars as Packet	{
""a\""b"": Pad
,[ ""{,}""
    ]
:
calculatedFrom // a // b
,
""" ++ [233]%N ++ runes_of_ascii "t" ++ [233]%N ++ runes_of_ascii """
//x
// `tick` ""quote"" 'q'
: uint8x ,[ // packet A { u8 x, }
""`tick`"" ,0
    , 42
    ] : _x[ 0123456789	, ""\" ++ [233]%N ++ runes_of_ascii """
    ] :
i8i8,	} ,	}
")).
Eval vm_compute in ("<<<M131>>>" ++ check (runes_of_ascii "
root
packet
u8x{ char
// trailing space 
// @lengthOf(
i64_ ,repeat char[1
] Z9_ , @tag(
//x
// " ++ [128512]%N ++ runes_of_ascii " emoji
42
) repeat Logon MetaDataX , @leftPad
    //
    ( )
    Foo
@lengthOf( As
    ) // " ++ [128512]%N ++ runes_of_ascii " emoji
, match u128	as //	t
calculatedFrom {// " ++ [128512]%N ++ runes_of_ascii " emoji
4294967296:
BodyLength,
    3:  A , //
[ 4294967296//
, ""packet""] : o	, 65535 : roots } ,
repeat Pad { uint64 x @calculatedFrom( """ ++ [128512]%N ++ runes_of_ascii """
    ) , a1 @lengthOf( As)
    `line1
line2` ,	repeat string_{repeat uint32 _x	, f32
MetaDataX `it's`
    //	t
    , u64 As  @lengthOf( crc ) , } ,
    roots , }, zchar[  00] // @lengthOf(
u128, }
//	t
")).
Eval vm_compute in ("<<<M296>>>" ++ check (runes_of_ascii "MetaData u128
{  zchar[ 3 ] matchKey	`crlf
line` //
, } // packet A { u8 x, }
options
{ //x
} root	packet rootA
    { @calculatedFrom(
    ""{,}"" ) repeat u16 len ,repeat body,i8i8 @lengthOf( packetx),metadata int `line1
line2` ,  uint8x `two words` // c
, int16 //
x_y_z
, repeatCount , Logon {  repeat// trailing space 
i8 Packet `line1
line2`
, } ,}
options
{// " ++ [128512]%N ++ runes_of_ascii " emoji
lengthOf
//
// trailing space 
= ' ' ;
i64_ = ""{,}"" ; msg_type
= '0'
; u=
// packet A { u8 x, }
// " ++ [27880; 37322]%N ++ runes_of_ascii "
i32;_x = ""abc""
    // packet A { u8 x, }
    ; }
")).
Eval vm_compute in ("<<<M340>>>" ++ check (runes_of_ascii "packet leftPad//
{@rightPad () repeat chars	{crc /// triple
pack  ,
} ,
@calculatedFrom( """ ++ [28040; 24687]%N ++ runes_of_ascii """ )@lengthOf(options1  )@tag( 65535 ) Foo,match
matchKey
    as // " ++ [128512]%N ++ runes_of_ascii " emoji
tag	{
    // c
    [ ""{,}"",
""""
, ""`tick`"" ,
3 ,""it's"",  """ ++ [128512]%N ++ runes_of_ascii """	,
""it's""] :As
    , [
/// triple
//	t
""x y""]
    //x
    :
chars,""" ++ [233]%N ++ runes_of_ascii "t" ++ [233]%N ++ runes_of_ascii """	:uint8x,4294967296:	packetx
""// no comment""
:
calculatedFrom , }
,  @calculatedFrom( ""// no comment""// @lengthOf(
)
char[// trailing space 
007 ]	f32a ,} // a // b")).
Eval vm_compute in ("<<<M374>>>" ++ check (runes_of_ascii "MetaData BodyLength { zchar[ 65535 ]	As `crlf
line`
, u16 charz , body len,
zchar msg_type ,uint64 metadata
,}
root packet //
matchKey
    {
repeat i8i8  `{ , }` ,
} MetaData a1 { i8i8 Pad`it's`	,
// trailing space 
// `tick` ""quote"" 'q'
int64
    // " ++ [128512]%N ++ runes_of_ascii " emoji
    roots `doc` ,
Foo BodyLength `u8 x,` , } packet	_x
{ lengthOf
    {
pack `" ++ [28040; 24687; 31867; 22411]%N ++ runes_of_ascii "` ,
string_ // @lengthOf(
, repeat //
rootA len , zchar[ 1
] u8x,} , }
")).
Eval vm_compute in ("<<<M1817>>>" ++ check (runes_of_ascii "packet leftPad {
    @tag(10)
    @tag(007)
    @lengthOf(a1)
    // a // b
    //
    repeat metadata,
}// " ++ [128512]%N ++ runes_of_ascii " emoji

options {
    lengthOf = """ ++ [128512]%N ++ runes_of_ascii """;
}

packet T {
    A {
        //
        // `tick` ""quote"" 'q'
        tag @calculatedFrom(""abc""),
    },
    @lengthOf(matchKey)
    string Header @lengthOf(metadata),
    leftPad @calculatedFrom(""a\""b"") `crlf
    line`,
}")).
Eval vm_compute in ("<<<M110>>>" ++ check (runes_of_ascii "root // trailing space 
packet
leftPad { T
@lengthOf(A
) `" ++ [233]%N ++ runes_of_ascii "`,
    Header
    @lengthOf( As ) // " ++ [27880; 37322]%N ++ runes_of_ascii "
,
string	calculatedFrom `{ , }`
, @tag( 1) // trailing space 
u16  x_y_z ,
@tag( 4294967296
) x_y_z metadata// " ++ [128512]%N ++ runes_of_ascii " emoji
,asx { asx `it's`
    ,} , char[ 65535 ]
As@lengthOf(
    Logon ) `a\`
,@lengthOf(
Z9_
    ) string
BodyLength ,
}")).
Eval vm_compute in ("<<<M1277>>>" ++ check (runes_of_ascii "// top
options
    // c0
{
    // c1
LittleEndian // c2
=
    // c3
true
    // c4
;
    // c5
}
    // c6
root // c7a
  // c7b
packet P // c9a
  // c9b
{ u16
    // c11
a // c12
, // c13
u32 // c14a
  // c14b
Sum
    // c15
@calculatedFrom( ""CRC32"" ) // c18a
  // c18b
,
    // c19
} // c20a
  // c20b
")).
Eval vm_compute in ("<<<M1316>>>" ++ check (runes_of_ascii "  packet

    MDSnapshotZZ	{	u8

a 
, }  packet
    OrderACK  { u16
b, }packet
	HTTPServerInfo	{
string
s

    ,
}	root
    packet  FIXMsg
    { u8
KType
,MDSnapshotZZ  , repeat

    OrderACK,  match 
KType as Body{1 :

HTTPServerInfo  ,	2

:OrderACK	,

}

    ,}")).
Eval vm_compute in ("<<<M1671>>>" ++ check (runes_of_ascii "options {
    // c1a
    // c1b
    LittleEndian = true;
}// c6a

// c6b
packet B {
    u8 a,// c12a
    // c12b
    string s,
}// c16

root packet P {
    u16 L @lengthOf(B),// c26a
    // c26b
    B,
    // c28
    u8 t,// c31
}// c32a")).
Eval vm_compute in ("<<<M318>>>" ++ check (runes_of_ascii "options {Z9_ =// trailing space 
""packet"" ;float = false
; A =
' ' }
    // c
    MetaData pack
{ zchar[
3] leftPad
,zchar
    falsey `it's` , char[] repeatCount ,char[ 65535 // " ++ [128512]%N ++ runes_of_ascii " emoji
] Z9_, }
//	t
")).
Eval vm_compute in ("<<<M9>>>" ++ check (runes_of_ascii "
options {body = """ ++ [28040; 24687]%N ++ runes_of_ascii """ }	packet matchKey
{string_
// packet A { u8 x, }
// a // b
@lengthOf( f32a) ,	int32 int @lengthOf(u128 )	, tag x_y_z ,}packet BodyLength /// triple
{ }")).
Eval vm_compute in ("<<<M283>>>" ++ check (runes_of_ascii "
root packet /// triple
u8x {}options { o =	zchar[ 1 ]
    Packet
    // trailing space 
    =u32 ; uint8x =""a\\"";
    /// triple
    u8x
=0
;
    crc =""\n"" ; }")).
Eval vm_compute in ("<<<M511>>>" ++ check (runes_of_ascii "packet uint8x
{ match pack
    as msg_type	{
    0123456789 :	float
}
,
} packet //	t
a1
    { } options {packetx
    = '\x00'	; u128 u128= ""a	b""  ; }
")).
Eval vm_compute in ("<<<M486>>>" ++ check (runes_of_ascii "packet uint8x
{ match pack
    as msg_type	{
    0123456789 :	float
}
,
} packet //	t
a1
    { } options { {packetx
    = '\x00'	; u128= ""a	b""  ; }
")).
Eval vm_compute in ("<<<M402>>>" ++ check (runes_of_ascii "packet uint8x
match { pack
    as msg_type	{
    0123456789 :	float
}
,
} packet //	t
a1
    { } options {packetx
    = '\x00'	; u128= ""a	b""  ; }
")).
Eval vm_compute in ("<<<M1450>>>" ++ check (runes_of_ascii "
MetaData

    leftPad
{chars
MetaDataX
,  }

    packet
repeatCount { char[  // c
  	255 ] 
uint8x`" ++ [233]%N ++ runes_of_ascii "` 
, }

MetaData
	pack{ As Foo  ,

    }

")).
Eval vm_compute in ("<<<M652>>>" ++ check (runes_of_ascii "// @lengthOf(
packet i8i8 { u128 o , }
options { MetaDataX = true;
    BodyLength =""packet"" x_y_z= 007
crc crc //x
= ""abc"" ;
    msg_type =
i16 }")).
Eval vm_compute in ("<<<M460>>>" ++ check (runes_of_ascii "packet uint8x
{ match pack
    as msg_type	{
    0123456789 :	float
}
,
}  //	t
a1
    { } options {packetx
    = '\x00'	; u128= ""a	b""  ; }
")).
Eval vm_compute in ("<<<M1288>>>" ++ check (runes_of_ascii "// top
root
    // c0
packet P
    // c2
{ // c3a
  // c3b
repeat // c4
string // c5
ss , // c7
repeat u16 ns ,
    // c11
} // c12a
  // c12b
")).
Eval vm_compute in ("<<<M524>>>" ++ check (runes_of_ascii "packet uint8x
{ match pack
    as msg_type	{
    0123456789 :	float
}
,
} packet //	t
a1
    { } options {packetx
    = '\x00'	; u128=")).
Eval vm_compute in ("<<<M1296>>>" ++ check (runes_of_ascii "packet A {
    u8 a,
}
packet B {
    u16 b,
}
root packet P {
    u8 K,
    match K as M {
        1 : A,
        1 : B,
    },
}
")).
Eval vm_compute in ("<<<M173>>>" ++ check (runes_of_ascii "
options
    { zchar
    = 10 ; matchKey = char[ /// triple
1
    ]
u	= ""a\""b"" ;
    x_y_z =
    42 ; } MetaData Logon{ }")).
Eval vm_compute in ("<<<M1160>>>" ++ check (runes_of_ascii "MetaData leftPad { chars MetaDataX , } packet repeatCount
// c
{ char[ 255 ] uint8x `" ++ [233]%N ++ runes_of_ascii "` , } MetaData pack { As Foo , }")).
Eval vm_compute in ("<<<M218>>>" ++ check (runes_of_ascii "
MetaData
uint8x { char[ 007
    ]leftPad ,Pad
T ,u64 BodyLength , char[] int  ,float
Z9_ , float32 metadata
    , }
")).
Eval vm_compute in ("<<<M915>>>" ++ check (runes_of_ascii "packet A {
  match k as n {
    [""a"", ""bb"", 007, ""d"", ""e"", 66, ""g"", ""h"", 9, ""j"", ""k"", 12] : B
    2 : C
  },
}")).
Eval vm_compute in ("<<<M1278>>>" ++ check (runes_of_ascii "  options{ 
LittleEndian =	true
	; } root	packet
	P {	u16  a ,u32 
Sum
@calculatedFrom(
""CRC32""  )	, }

")).
Eval vm_compute in ("<<<M671>>>" ++ check (runes_of_ascii "// @lengthOf(
packet i8i8 { u128 o , }
options { MetaDataX = true;
    BodyLength =""packet"" x_y_z= 0")).
Eval vm_compute in ("<<<M876>>>" ++ check (runes_of_ascii "packet A {
  match k as n {
    [""a"", ""bb"", 007, ""d"", ""e"", 66, ""g"", ""h"", 9] : B
    2 : C
  },
}")).
Eval vm_compute in ("<<<M578>>>" ++ check (runes_of_ascii "
packet
    asx {match u128 as as lengthOf
{
//	t
// `tick` ""quote"" 'q'
255 : x ,
    } ,	}")).
Eval vm_compute in ("<<<M633>>>" ++ check (runes_of_ascii "
packet
    asx {match u128 as `lengthOf
{
//	t
// `tick` ""quote"" 'q'
255 : x ,
    } ,	}")).
Eval vm_compute in ("<<<M562>>>" ++ check (runes_of_ascii "
packet
    asx match u128 as lengthOf
{
//	t
// `tick` ""quote"" 'q'
255 : x ,
    } ,	}")).
Eval vm_compute in ("<<<M1745>>>" ++ check (runes_of_ascii "packet
order_item {

u8
	a 
,

} root
    packet  new_order	{order_item
,
u8	x  ,	}

")).
Eval vm_compute in ("<<<M469>>>" ++ check (runes_of_ascii "packet uint8x
{ match pack
    as msg_type	{
    0123456789 :	float
}
,
} packet")).
Eval vm_compute in ("<<<M1778>>>" ++ check (runes_of_ascii "// a // b
options {
    Foo = '\x00'
    pack = zchar[65535];
    int = ""\n"";
}")).
Eval vm_compute in ("<<<M1612>>>" ++ check (runes_of_ascii "packet A
	{ Inner{ 
u8 
x`x
`
,	Deep {  u8 y

    `x
`
    , }
,}	,
}

")).
Eval vm_compute in ("<<<M1887>>>" ++ check (runes_of_ascii "packet A
{

Inner	{ 
u8
x`
x`  ,Deep {  u8

    y 
`
x`
,	} ,}
	, }
")).
Eval vm_compute in ("<<<M851>>>" ++ check (runes_of_ascii "packet A { Inner { match k as n { [1,22,007,4,5,66,7] : B, }, }, }")).
Eval vm_compute in ("<<<M783>>>" ++ check (runes_of_ascii "packet A {
  match k as n {
    [1, ""bb""] : B
    2 : C
  },
}")).
Eval vm_compute in ("<<<M1089>>>" ++ check (runes_of_ascii "packet A { // a
 @tag(1) u8 x, // b
 // c
 @tag(2) u8 y, }")).
Eval vm_compute in ("<<<M1220>>>" ++ check (runes_of_ascii "packet body { i32 f32a `{ , }` , } options { }
// c
")).
Eval vm_compute in ("<<<M1850>>>" ++ check (runes_of_ascii "packet body {
    i32 f32a `{ , }`,
}

options {
}")).
Eval vm_compute in ("<<<M429>>>" ++ check (runes_of_ascii "packet uint8x
{ match pack
    as msg_type")).
Eval vm_compute in ("<<<M752>>>" ++ check (runes_of_ascii "repeatCount u32 as false uint64 0 @tag(")).
Eval vm_compute in ("<<<M424>>>" ++ check (runes_of_ascii "packet uint8x
{ match pack
    as")).
Eval vm_compute in ("<<<M36>>>" ++ check (runes_of_ascii "// c
packet asx  {} /// triple")).
Eval vm_compute in ("<<<M917>>>" ++ check (runes_of_ascii "packet A {
    u8 x `a
b`,
}")).
Eval vm_compute in ("<<<M1472>>>" ++ check (runes_of_ascii "
// c" ++ [160]%N ++ runes_of_ascii "
	packet

A{
}

")).
Eval vm_compute in ("<<<M1110>>>" ++ check (runes_of_ascii "MetaData tag {
// c
}")).
Eval vm_compute in ("<<<M112>>>" ++ check (runes_of_ascii "packet falsey { }
")).
Eval vm_compute in ("<<<M1051>>>" ++ check (runes_of_ascii "packet A {
}
// c" ++ [65279]%N)).
Eval vm_compute in ("<<<M1054>>>" ++ check (runes_of_ascii "packet A {
}// c" ++ [6158]%N)).
Eval vm_compute in ("<<<M319>>>" ++ check (runes_of_ascii "packet o
{
}
")).
Eval vm_compute in ("<<<M990>>>" ++ check (runes_of_ascii "// c" ++ [133]%N)).
Eval vm_compute in ("<<<M19>>>" ++ check (runes_of_ascii "
")).
