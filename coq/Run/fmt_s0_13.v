From FP Require Import Lexer Parser ShowPT Digest Formatter.
From Coq Require Import String List NArith.
Import ListNotations.
Open Scope string_scope.
Set Printing Width 100000000.
Set Printing Depth 100000000.
Definition show_fres (r : fres) : string :=
  match r with
  | FOk s => "OK:" ++ sh_escaped s ""
  | FErr s => "ERR:" ++ sh_escaped s ""
  | FPanic p => "PANIC:" ++ p
  end.
Definition check (rs : list rune) : string := digest (show_fres (format_res rs)).
Definition full (rs : list rune) : string := show_fres (format_res rs).
Eval vm_compute in ("<<<M1787>>>" ++ check (runes_of_ascii "
// top

options 
	// c0
    { // c1
LittleEndian // c2

= false 	 // c4
  ; 
ArrayPrefixLenType=  
  // c7
		u8
; 
FixedStringPadFromLeft 	 // c10a
// c10b
  = // c11
      true // c12
	; 
    // c13

FixedStringPadChar  // c14

  =	// c15
	'0'// c16
    ; // c17
  } 
    // c18

  packet

Heartbeat 
  // c20
  	{

    string  // c22a
// c22b
  lastPx

, 
    // c24
		uint8 // c25a
// c25b
  	Qty// c26a
    // c26b
,

    // c27
	i64 Acct// c29
, // c30a
// c30b

char[// c31
    	4  // c32a
	// c32b
  ]
	Ref
    , 	 // c35a
		// c35b
  }	// c36a

// c36b
	packet
    // c37
	Fill 	 // c38
	{// c39a
  // c39b
  uint8  // c40a
    // c40b
  Ref
	,	Heartbeat	// c43

	, 	 // c44a
	// c44b

	f32  OrderId 
,  // c47a
	// c47b
	  repeat
	f32 // c49
  x
    ,  // c51
  } 
root 
packet	// c54a
    // c54b
    Order 	 // c55a
    	// c55b
  { 	 // c56a
// c56b

	zchar[// c57a
  	// c57b
  2// c58
] 
      // c59

OrderId // c60a
      // c60b
  , 
zchar[ 
    // c62
	2  // c63a

  // c63b
      ] // c64
      Acct 	 // c65a
// c65b
	,

zchar[  // c67
  1 // c68a
    // c68b
    	]
    // c69

Note// c70
  , // c71a
	// c71b
	zchar[ 

    // c72
	9// c73
	] // c74a
	// c74b
      Qty 	 // c75a
// c75b
		,// c76
	string
// c77
	price ,

// c79
  string  // c80

tag7
// c81
    , 
        // c82
    	u32 	 // c83
  x  // c84
  	, 
        // c85
  match// c86a
    	// c86b

	x	// c87a
  	// c87b
    	as 

// c88
	Body

{  
  // c90

123  // c91
:
Fill 
    // c93
	,  112  // c95
:
	Heartbeat	// c97

,
}  // c99a

// c99b
,// c100a
  // c100b
    	u32  // c101a
	// c101b
      seqNo// c102

@calculatedFrom(// c103
    ""CRC32""// c104a
// c104b
  ) 	 // c105
    ,
	    // c106
} 	 // c107a
	// c107b
")).
Eval vm_compute in ("<<<M385>>>" ++ check (runes_of_ascii "options {
    StringPrefixLenType = u16;
    ArrayPrefixLenType = u16;
}

packet SampleBinary {
    uint16 MsgType `" ++ [28040; 24687; 31867; 22411]%N ++ runes_of_ascii "`,
    u16 BodyLenght @lengthOf(Body) `" ++ [28040; 24687; 20307; 38271; 24230]%N ++ runes_of_ascii "`,
    match MsgType as Body {
        1 : Logon,
        2 : Logout,
        3 : Heartbeat,
        4 : RiskControlRequest,
        5 : RiskControlResponse,
    },
    @calculatedFrom(""CRC32"")
    u32 Ckecksum `" ++ [26657; 39564; 21644]%N ++ runes_of_ascii "`,
}

packet Logon {
    @leftPad('0')
    char[10] UserName `" ++ [29992; 25143; 21517]%N ++ runes_of_ascii "`,
    string Password `" ++ [23494; 30721]%N ++ runes_of_ascii "`,
    uint64 ClientId `" ++ [23458; 25143; 31471]%N ++ runes_of_ascii "ID`,
    u16 HeartbeatInterval `" ++ [24515; 36339; 38388; 38548]%N ++ runes_of_ascii "`,
}

packet Logout {
    @rightPad('0')
    char[10] UserName `" ++ [29992; 25143; 21517]%N ++ runes_of_ascii "`,
    uint64 ClientId `" ++ [23458; 25143; 31471]%N ++ runes_of_ascii "ID`,
}

packet Heartbeat {
}

packet RiskControlRequest {
    string UniqueOrderId `" ++ [21807; 19968; 35746; 21333; 21495]%N ++ runes_of_ascii "`,
    char[16] ClOrdID `" ++ [23458; 25143; 35746; 21333; 21495]%N ++ runes_of_ascii "`,
    char[3] MarketID `" ++ [24066; 22330]%N ++ runes_of_ascii "id`,
    char[12] SecurityID `" ++ [35777; 21048; 20195; 30721]%N ++ runes_of_ascii "`,
    char Side `" ++ [20080; 21334; 26041; 21521]%N ++ runes_of_ascii "`,
    char OrderType `" ++ [35746; 21333; 31867; 22411]%N ++ runes_of_ascii "`,
    u64 Price `" ++ [20215; 26684]%N ++ runes_of_ascii "`,
    u32 Qty `" ++ [25968; 37327]%N ++ runes_of_ascii "`,
    repeat string ExtraInfo `" ++ [38468; 21152; 20449; 24687]%N ++ runes_of_ascii "`,
    repeat SubOrder {
        char[16] ClOrdID `" ++ [23376; 35746; 21333; 21495]%N ++ runes_of_ascii "`,
        u64 Price `" ++ [23376; 35746; 21333; 20215; 26684]%N ++ runes_of_ascii "`,
        u32 Qty `" ++ [23376; 35746; 21333; 25968; 37327]%N ++ runes_of_ascii "`,
    },
}

packet RiskControlResponse {
    string UniqueOrderId `" ++ [21807; 19968; 35746; 21333; 21495]%N ++ runes_of_ascii "`,
    i32 Status `" ++ [29366; 24577]%N ++ runes_of_ascii "`,
    string Msg `" ++ [32467; 26524; 20449; 24687]%N ++ runes_of_ascii "`,
    repeat Detail,
}

packet Detail {
    string RuleName `" ++ [35268; 21017; 21517; 31216]%N ++ runes_of_ascii "`,
    u16 Code `" ++ [21407; 22240; 20195; 30721]%N ++ runes_of_ascii "`,
}")).
Eval vm_compute in ("<<<M129>>>" ++ check (runes_of_ascii "packet
MetaDataX { metadata trueish`" ++ [233]%N ++ runes_of_ascii "`
//x
//x
,// trailing space 
@calculatedFrom(""`tick`"" )uint8x
    // c
    @calculatedFrom(  """ ++ [128512]%N ++ runes_of_ascii """  ) `{ , }`
    , @calculatedFrom( ""a\""b"" ) // packet A { u8 x, }
match Packet as
    body { 3
    : repeatCount
,""x y""
    /// triple
    :lengthOf// `tick` ""quote"" 'q'
4294967296 :
    packetx
    , [ ""abc""
, ""// no comment""
    ,
""abc"" ,
""\n"" //	t
, ""1""
]: u128 [ 00 , 65535 ,""x y"" ,""{,}""  ]
: calculatedFrom ,
    7 :	i8i8  }, u8x ,match int as	matchKey{
[1 ,""CRC32""]
    // trailing space 
    :// @lengthOf(
asx,	}
    , @lengthOf( // " ++ [128512]%N ++ runes_of_ascii " emoji
a1) string x `it's` , repeat // @lengthOf(
char matchKey  ,
    // a // b
    @leftPad // trailing space 
( )@rightPad ( ) match
metadata	as  Packet { [ 65535  ] : Header , }, @tag( 255)
zchar[ 3 ] crc `u8 x,` ,} MetaData
    rootA // trailing space 
{
i8i8	Pad , int8
packetx `{ , }`
,
    int8 stringy,
    // `tick` ""quote"" 'q'
    body _x  , body o , }")).
Eval vm_compute in ("<<<M1794>>>" ++ check (runes_of_ascii "
// top
	options 

    // c0
	{	// c1a

// c1b

LittleEndian  // c2a
// c2b
	= 	 // c3a
	// c3b
    false// c4a
// c4b
;  // c5a
	  // c5b
    StringPrefixLenType  // c6
		=  // c7a
      // c7b
    	u16
; } 	 // c10

  packet	Heartbeat// c12a
      // c12b
    { 	 // c13a

// c13b
		@rightPad

    ( '0' 
    // c16
	)  char[7// c19
] 	 // c20
  seqNo, // c22a
	// c22b
      uint64 // c23a
    // c23b
      Tail , // c25a
// c25b
  i16 	 // c26
Flags  // c27a
	// c27b
	,	// c28a
  // c28b
u16// c29a
// c29b
    msgKind
// c30

,
    // c31
  }// c32a
    // c32b
  	root // c33
	  packet	// c34a
// c34b
  Reject 	 // c35a
  // c35b
	{zchar[

3 	 // c38a
    // c38b
  ]	// c39
  tag7 	 // c40a
// c40b
		, 	 // c41
	repeat// c42a
    	// c42b
Heartbeat	, 
repeat
	string 
// c46
	clOrdID 
	// c47
  ,
// c48

  }
    // c49
")).
Eval vm_compute in ("<<<M1858>>>" ++ check (runes_of_ascii "

  packet charz

{  //	t
	repeat i64_
,
	trueish{
    repeat
	_x , 
repeatCount,repeat
u16 matchKey
`
`
    , 
        // " ++ [128512]%N ++ runes_of_ascii " emoji
		// a // b
    matchKey

@calculatedFrom(

""a\""b"" )`it's` ,

    }

, 
@tag(	007
	) @calculatedFrom(
	""a\\"" )@tag( 
3// @lengthOf(
) f32
f32a  @lengthOf(
asx	) `crlf
line` // packet A { u8 x, }

,
repeat i8 string_  ,  @lengthOf(  
      // @lengthOf(
      Logon

    )
@lengthOf(
	x_y_z) @lengthOf(zchar
	) repeat
    char[
    65535
    ]
Foo	`" ++ [233]%N ++ runes_of_ascii "` ,
	@calculatedFrom( 	 //

	""abc""	) trueish @lengthOf(A	) 

// " ++ [27880; 37322]%N ++ runes_of_ascii "
  // a // b

	,
    char[
	0 
]
	float  ,

Packet@calculatedFrom(
    ""a	b""	) 
, 
}MetaData
	Pad
	{
char[ 00

    ]
leftPad 
,
u8
rootA`
` , 
//
  // " ++ [128512]%N ++ runes_of_ascii " emoji
    	int32 
a1 `say ""hi""`, 
Z9_
float , 	 //x
	i32
    Pad
	,

}
")).
Eval vm_compute in ("<<<M1877>>>" ++ check (runes_of_ascii "// top
  options 	 // c0a

	// c0b
	{ // c1a
  	// c1b

FixedStringPadChar
=// c3
  '0'
;}packet  
      // c7
	Q 	 // c8
  {	// c9a
  // c9b
zchar[	// c10a
	// c10b
4 // c11
		] 	 // c12
	z 
,  // c14
      @rightPad (// c16
  '\x00'

) // c18a
    // c18b
      char[
3	// c20a
	// c20b
	]
// c21
n  , 
        // c23
	char[ 
	    // c24
      5
	    // c25
	]	// c26
    d // c27
  ,
} 	 // c29a
    // c29b
	  root
    // c30
packet R
	    // c32
	{// c33
    	Q
, 	 // c35a
    // c35b
  zchar[ 8 	 // c37
	]// c38
    	top
    , // c40a
	  // c40b
  	repeat
        // c41
	zchar[ 

// c42
    2
    // c43

]// c44a
    // c44b
zs 
      // c45
  ,	// c46a
  // c46b
    	}  // c47
 
")).
Eval vm_compute in ("<<<M164>>>" ++ check (runes_of_ascii "//x
packet x { @lengthOf(
string_ )
// `tick` ""quote"" 'q'
// trailing space 
msg_type{
int // a // b
@lengthOf( chars
    )
//x
// " ++ [27880; 37322]%N ++ runes_of_ascii "
`" ++ [28040; 24687; 31867; 22411]%N ++ runes_of_ascii "` , int`a\`  , }
    ,uint32 chars  @calculatedFrom(
""`tick`""
    )
    `
` , @lengthOf( packetx // trailing space 
)
match
    metadata as x_y_z
{ 65535	: x ,007
// `tick` ""quote"" 'q'
// " ++ [128512]%N ++ runes_of_ascii " emoji
: u [ 7 ,
""// no comment""	,  """ ++ [28040; 24687]%N ++ runes_of_ascii """] :x ""a\\""
: MetaDataX,0123456789 : lengthOf
10 :
//
// `tick` ""quote"" 'q'
float  }
    ,
    u16 Logon@calculatedFrom(""x y"") `tab	here`
//	t
//
,@lengthOf(Foo ) zchar /// triple
, }  packet
    tag { } root packet
x_y_z{ } MetaData int {
    string
A `" ++ [233]%N ++ runes_of_ascii "` ,
}
")).
Eval vm_compute in ("<<<M1912>>>" ++ check (runes_of_ascii "
packet Header {

    char[
    10	] A 
`it's`

,@calculatedFrom( """ ++ [28040; 24687]%N ++ runes_of_ascii """ )

    calculatedFrom // a // b
  @lengthOf(

    zchar
)  `tab	here`
    , 
u32 BodyLength,

@lengthOf(

    stringy )	//
@rightPad
	(

    ' '
)

@tag(
    0123456789 
)
body

    {

match
i8i8 as

    Foo 
{  [  7,
    ""CRC32""
] :
options1 ,
	[""a\""b""

,
	""" ++ [128512]%N ++ runes_of_ascii """ ,  ""it's"",
""a	b"" ,
""// no comment"" 
,	""it's"", 7 
, ""abc"" ] :
	As 
,
	1
    :_x  
      // " ++ [128512]%N ++ runes_of_ascii " emoji
//
	} ,

repeat
	uint8x

    {crc @calculatedFrom(
    ""a\\"")
    ,	}	,repeat
i8 tag, 	 // " ++ [128512]%N ++ runes_of_ascii " emoji
    	},}")).
Eval vm_compute in ("<<<M1735>>>" ++ check (runes_of_ascii "options {
    ArrayPrefixLenType = u64;
    FixedStringPadFromLeft = true;
    FixedStringPadChar = '0';
}

packet Quote {
}

packet Ack {
    repeat InNote66 {
        u8 pad0,
    },
}

packet Reject {
}

root packet Order {
    Quote,
    repeat Reject,
    string venue,
    string seqNo,
    uint32 Ref,
    u16 lastPx,
    u32 clOrdID @lengthOf(Body),
    match lastPx as Body {
        190 : Reject,
        186 : Quote,
        22 : Ack,
    },
    u16 Flags @calculatedFrom(""CRC32""),
}")).
Eval vm_compute in ("<<<M140>>>" ++ check (runes_of_ascii "
root packet int{	repeat
    float tag , char[] roots
, @lengthOf( repeatCount ) @lengthOf( // packet A { u8 x, }
rootA)
uint16 o
    `tab	here` ,
    //	t
    i16 Pad `line1
line2` , Pad{match Pad as
    _x
{ [00]
:
    Z9_
, } ,} , repeat zchar calculatedFrom`a\` ,	f64 // @lengthOf(
charz
    //x
    ,Pad
    Foo,@calculatedFrom(
    """ ++ [28040; 24687]%N ++ runes_of_ascii """ )
    charz
    @lengthOf( charz ), @lengthOf(
    rootA ) match o
as body {00 :
x_y_z// " ++ [128512]%N ++ runes_of_ascii " emoji
} ,}
")).
Eval vm_compute in ("<<<M1382>>>" ++ check (runes_of_ascii "
options
    {LittleEndian

=
	false

;

StringPrefixLenType =u8

    ;ArrayPrefixLenType 
=u64;
	FixedStringPadFromLeft=
    false
; FixedStringPadChar= ' '  ;}
    packet  Reject {  repeat
	char[4  ]seqNo,string

Px
    , }
    root
	packet Trade 
{@rightPad (
'0'
    )char[
2 ]msgKind,

repeat f64
price
,
InAcct79 {

    repeat Reject
, zchar[

    7	] 
OrderId

    , },  Reject ,
}")).
Eval vm_compute in ("<<<M114>>>" ++ check (runes_of_ascii "packet
a1 {@calculatedFrom(""`tick`"" ) uint32 charz	`crlf
line` ,
// c
//x
a1 `tab	here`, }
    options
    {
// " ++ [27880; 37322]%N ++ runes_of_ascii "
// " ++ [128512]%N ++ runes_of_ascii " emoji
stringy =
// c
// a // b
255 ;
    metadata =	4294967296 pack
    = /// triple
string	; crc= string
    ; }  root  packet
crc	{ @tag(  42  )
@calculatedFrom( ""abc""  )
@rightPad ( '0'
) u128 u8x
/// triple
//x
,@lengthOf(len) uint16 int, }
")).
Eval vm_compute in ("<<<M1910>>>" ++ check (runes_of_ascii "

  root	packet
chars{ string
T  `say ""hi""` , @tag( 1
)

body  {repeat
    o{
	f64 Packet
@calculatedFrom(
""a\\""  )
,

    } 
,
    }
,
	}

    packet  pack 
        // @lengthOf(
// a // b
{	@tag( 
4294967296// `tick` ""quote"" 'q'

	)
repeat
	char[] 
Logon 
// trailing space 

	, repeat
BodyLength
len	, 

// c
      }

")).
Eval vm_compute in ("<<<M1277>>>" ++ check (runes_of_ascii "// top
options
    // c0
{
    // c1
LittleEndian // c2
=
    // c3
true
    // c4
;
    // c5
}
    // c6
root // c7a
  // c7b
packet P // c9a
  // c9b
{ u16
    // c11
a // c12
, // c13
u32 // c14a
  // c14b
Sum
    // c15
@calculatedFrom( ""CRC32"" ) // c18a
  // c18b
,
    // c19
} // c20a
  // c20b
")).
Eval vm_compute in ("<<<M1316>>>" ++ check (runes_of_ascii "  packet

    MDSnapshotZZ	{	u8

a 
, }  packet
    OrderACK  { u16
b, }packet
	HTTPServerInfo	{
string
s

    ,
}	root
    packet  FIXMsg
    { u8
KType
,MDSnapshotZZ  , repeat

    OrderACK,  match 
KType as Body{1 :

HTTPServerInfo  ,	2

:OrderACK	,

}

    ,}")).
Eval vm_compute in ("<<<M1676>>>" ++ check (runes_of_ascii "packet rootA 
{ 
}  // trailing space 
  packet  f32a //	t
  	{
	match
zchar 
as
    zchar
    { 65535:
    f32a
,  7 :
charz 	 // trailing space 

,
    ""{,}"" 
	    //	t

//x
    : Header
, 42 
: a1  // packet A { u8 x, }
,

}
    ,
	} ")).
Eval vm_compute in ("<<<M1558>>>" ++ check (runes_of_ascii "MetaData x_y_z 
    //x
      //x
    	{ int32 
o

    ,
zchar[
65535
]

    Packet
,
	i64_	o , i64
    o
`
` ,
} 
options	{

x
=
    //x
    /// triple

u8

;  
  // " ++ [27880; 37322]%N ++ runes_of_ascii "
// a // b

}	// trailing space ")).
Eval vm_compute in ("<<<M1479>>>" ++ check (runes_of_ascii "// top
options {
    // c1
    f32a = 0
}

// c5
packet trueish {
}

MetaData _x {
    char[0123456789] zchar,
    string crc,
    char[1] options1,
    uint8 repeatCount,
}")).
Eval vm_compute in ("<<<M145>>>" ++ check (runes_of_ascii "MetaData //x
Packet
/// triple
// " ++ [27880; 37322]%N ++ runes_of_ascii "
{	u
/// triple
// c
lengthOf `say ""hi""`
    , } MetaData metadata {
    crc chars `crlf
line` , asx f32a /// triple
,
}

")).
Eval vm_compute in ("<<<M511>>>" ++ check (runes_of_ascii "packet uint8x
{ match pack
    as msg_type	{
    0123456789 :	float
}
,
} packet //	t
a1
    { } options {packetx
    = '\x00'	; u128 u128= ""a	b""  ; }
")).
Eval vm_compute in ("<<<M456>>>" ++ check (runes_of_ascii "packet uint8x
{ match pack
    as msg_type	{
    0123456789 :	float
}
,
} } packet //	t
a1
    { } options {packetx
    = '\x00'	; u128= ""a	b""  ; }
")).
Eval vm_compute in ("<<<M1685>>>" ++ check (runes_of_ascii "
packet	uint8x	{ match pack as 
msg_type{0123456789 
:
	float
    } , }
packet  //	t
a1
    {}

options {	packetx
	=

    char	;

u128= ""a	b"" ; 
}
")).
Eval vm_compute in ("<<<M527>>>" ++ check (runes_of_ascii "packet uint8x
{ match pack
    as msg_type	{
    0123456789 :	float
}
,
} packet //	t
a1
    { } options {packetx
    = '\x00'	; u128= ""a	b""  } ;
")).
Eval vm_compute in ("<<<M1669>>>" ++ check (runes_of_ascii "

  MetaData leftPad 
{	chars

MetaDataX	,
} packet
repeatCount 
{	char[

    255  
  // c
]uint8x `" ++ [233]%N ++ runes_of_ascii "`
,} MetaData

pack {
	As	Foo ,

    }

")).
Eval vm_compute in ("<<<M691>>>" ++ check (runes_of_ascii "// @lengthOf(
packet i8i8 { u128 o , }
options f64 MetaDataX = true;
    BodyLength =""packet"" x_y_z= 007
crc //x
= ""abc"" ;
    msg_type =
i16 }")).
Eval vm_compute in ("<<<M694>>>" ++ check (runes_of_ascii "// @lengthOf(
packet i8i8 { u128 o , }
options { MetaDataX = true;
    = BodyLength""packet"" x_y_z= 007
crc //x
= ""abc"" ;
    msg_type =
i16 }")).
Eval vm_compute in ("<<<M646>>>" ++ check (runes_of_ascii "// @lengthOf(
packet i8i8 { u128 o , }
options { MetaDataX = true;
    BodyLength =""packet"" x_y_z= 
crc //x
= ""abc"" ;
    msg_type =
i16 }")).
Eval vm_compute in ("<<<M1674>>>" ++ check (runes_of_ascii "packet
    A
    {u16  len

@lengthOf(	body)`a
    b
  c`  , u32	crc
@calculatedFrom(
    ""CRC32"" )
`a
    b
  c`, string

body

,}
")).
Eval vm_compute in ("<<<M1573>>>" ++ check (runes_of_ascii "

  packet  A {
	u16

len @lengthOf(body
	)
`tab
	x`	, u32
	crc
    @calculatedFrom(
""CRC32"" 
) `tab
	x`	,  string body , }
")).
Eval vm_compute in ("<<<M1144>>>" ++ check (runes_of_ascii "MetaData
// c
leftPad { chars MetaDataX , } packet repeatCount { char[ 255 ] uint8x `" ++ [233]%N ++ runes_of_ascii "` , } MetaData pack { As Foo , }")).
Eval vm_compute in ("<<<M1176>>>" ++ check (runes_of_ascii "MetaData leftPad { chars MetaDataX , } packet repeatCount { char[ 255 ] uint8x `" ++ [233]%N ++ runes_of_ascii "` , }
// c
MetaData pack { As Foo , }")).
Eval vm_compute in ("<<<M1456>>>" ++ check (runes_of_ascii "packet
A
{match
    k
	as

n
{
[  ""a""

,
	22, ""c c""
    ,
4
,
""e"" , 66 ]: B
    2
:

    C

}

    ,}

")).
Eval vm_compute in ("<<<M1279>>>" ++ check (runes_of_ascii "options {
    LittleEndian = true;
}
root packet P {
    u16 a,
    u32 Sum @calculatedFrom(""CR\
C32""),
}
")).
Eval vm_compute in ("<<<M895>>>" ++ check (runes_of_ascii "packet A {
  match k as n {
    [1, ""bb"", 007, ""d"", 5, ""f"", 7, ""h"", 9, ""j"", 11] : B,
    2 : C
  },
}")).
Eval vm_compute in ("<<<M554>>>" ++ check (runes_of_ascii "
packet packet
    asx {match u128 as lengthOf
{
//	t
// `tick` ""quote"" 'q'
255 : x ,
    } ,	}")).
Eval vm_compute in ("<<<M887>>>" ++ check (runes_of_ascii "packet A {
  match k as n {
    [1, 22, ""c c"", 4, 5, ""f"", 7, 8, ""i"", 10] : B
    2 : C
  },
}")).
Eval vm_compute in ("<<<M229>>>" ++ check (runes_of_ascii "// a // b
options{
Foo
= '\x00'
    pack
= zchar[ 65535]
// " ++ [128512]%N ++ runes_of_ascii " emoji
//x
;	int = ""\n"" ;	}
")).
Eval vm_compute in ("<<<M859>>>" ++ check (runes_of_ascii "packet A {
  match k as n {
    [""a"", 22, ""c c"", 4, ""e"", 66, ""g"", 8] : B
    2 : C
  },
}")).
Eval vm_compute in ("<<<M829>>>" ++ check (runes_of_ascii "packet A {
  match k as n {
    [""a"", ""bb"", ""c c"", ""d"", ""e"", ""f""] : B
    2 : C
  },
}")).
Eval vm_compute in ("<<<M844>>>" ++ check (runes_of_ascii "packet A {
  match k as n {
    [1, ""bb"", 007, ""d"", 5, ""f"", 7] : B
    2 : C
  },
}")).
Eval vm_compute in ("<<<M1252>>>" ++ check (runes_of_ascii "packet Inner {
    u8 a,
}
root packet P {
    repeat Inner items,
    u8 x,
}
")).
Eval vm_compute in ("<<<M606>>>" ++ check (runes_of_ascii "
packet
    asx {match u128 as lengthOf
{
//	t
// `tick` ""quote"" 'q'
255 :")).
Eval vm_compute in ("<<<M814>>>" ++ check (runes_of_ascii "packet A {
  match k as n {
    [1, 22, 007, 4, 5] : B
    2 : C
  },
}")).
Eval vm_compute in ("<<<M1280>>>" ++ check (runes_of_ascii "root packet P {
    u16 a,
    u32 Sum @calculatedFrom(""CRC32""),
}
")).
Eval vm_compute in ("<<<M1916>>>" ++ check (runes_of_ascii "// a // b
packet Pad {
    char[] Z9_ @lengthOf(Pad) `{ , }`,
}")).
Eval vm_compute in ("<<<M1091>>>" ++ check (runes_of_ascii "packet A { @leftPad() char[4] x, @rightPad( ) zchar[2] y, }")).
Eval vm_compute in ("<<<M1242>>>" ++ check (runes_of_ascii "root packet
    P {

    char
	c
    , u8  x 
,

}
")).
Eval vm_compute in ("<<<M1218>>>" ++ check (runes_of_ascii "packet body { i32 f32a `{ , }` , } options {
// c
}")).
Eval vm_compute in ("<<<M1544>>>" ++ check (runes_of_ascii "options {
    x = ""{,}""
    matchKey = true;
}")).
Eval vm_compute in ("<<<M1446>>>" ++ check (runes_of_ascii "  packet A {
u8  x

    `tab
	x` 
,
}
")).
Eval vm_compute in ("<<<M54>>>" ++ check (runes_of_ascii "options
{ T= '0' ;A= u8 ;
    } 	 ")).
Eval vm_compute in ("<<<M1424>>>" ++ check (runes_of_ascii "packet A {
    u8 x `x
    `,
}")).
Eval vm_compute in ("<<<M941>>>" ++ check (runes_of_ascii "packet A {
    u8 x `a

b`,
}")).
Eval vm_compute in ("<<<M1084>>>" ++ check (runes_of_ascii "packet A { // a
 u8 x, }")).
Eval vm_compute in ("<<<M1064>>>" ++ check (runes_of_ascii "packet A {
}// a// b")).
Eval vm_compute in ("<<<M1131>>>" ++ check (runes_of_ascii "MetaData
// c
u { }")).
Eval vm_compute in ("<<<M1031>>>" ++ check (runes_of_ascii "packet A {
}
// c" ++ [11]%N)).
Eval vm_compute in ("<<<M1014>>>" ++ check (runes_of_ascii "packet A {
}// c" ++ [8233]%N)).
Eval vm_compute in ("<<<M1763>>>" ++ check (runes_of_ascii "packet f32a {
}")).
Eval vm_compute in ("<<<M990>>>" ++ check (runes_of_ascii "// c" ++ [133]%N)).
Eval vm_compute in ("<<<M731>>>" ++ check (runes_of_ascii "/")).
