From FP Require Import Lexer Parser ShowPT Digest Formatter.
From Coq Require Import String List NArith.
Import ListNotations.
Open Scope string_scope.
Set Printing Width 100000000.
Set Printing Depth 100000000.
Definition show_fres (r : fres) : string :=
  match r with
  | FOk s => "OK:" ++ sh_escaped s ""
  | FErr s => "ERR:" ++ sh_escaped s ""
  | FPanic p => "PANIC:" ++ p
  end.
Definition check (rs : list rune) : string := digest (show_fres (format_res rs)).
Definition full (rs : list rune) : string := show_fres (format_res rs).
Eval vm_compute in ("<<<M165>>>" ++ check (runes_of_ascii "packet falsey { char[7
    ]
Foo @calculatedFrom( ""CRC32"" ) , @tag(
    //
    10)	u8 Packet`" ++ [233]%N ++ runes_of_ascii "` ,repeat  stringy
,
@lengthOf( // a // b
float)tag { repeat
    u8x {
int16 charz@lengthOf(trueish ) , //	t
repeat  string calculatedFrom,
charz @calculatedFrom(  ""a\""b""
)	`line1
line2`
,
},u64
    MetaDataX @calculatedFrom( """ ++ [128512]%N ++ runes_of_ascii """
    ) `" ++ [233]%N ++ runes_of_ascii "`
    ,rootA
    // packet A { u8 x, }
    {
    repeat	u64 BodyLength
`" ++ [233]%N ++ runes_of_ascii "` , pack @calculatedFrom( //x
""{,}"" )
    `" ++ [28040; 24687; 31867; 22411]%N ++ runes_of_ascii "` ,repeat // c
x charz,
},
    // a // b
    char[] packetx, }	, // `tick` ""quote"" 'q'
calculatedFrom , u x_y_z
,repeat	int	i64_ ,@leftPad (
    ' '
)u32 T @calculatedFrom( ""{,}"" )
, repeat
    metadata , } root packet
chars
{ char[	65535
]  pack @lengthOf( As ) `tab	here` , char[
255] msg_type `// not a comment`
    ,@calculatedFrom(
    ""// no comment"" ) @tag( //	t
0 ) @tag(10 ) repeat Header {
    char[]
// @lengthOf(
// " ++ [27880; 37322]%N ++ runes_of_ascii "
i64_,repeat T//x
`` ,match uint8x	as i64_ {
00// `tick` ""quote"" 'q'
: _x ,	65535: //
Z9_,
""1""
: u8x ,
007 : Z9_
, 255
:
matchKey
""1"" :
crc , } , } ,
    @calculatedFrom(	""packet""	) match int as x_y_z{ 0123456789 :	Logon
    // @lengthOf(
    ,
    //	t
    [ 0123456789, ""it's"" ]
:
int
    , [""a	b"" , ""CRC32"" , 0, 4294967296 , """"	] :
pack , 0 : u , } , match // @lengthOf(
string_ as
int
{ 0: repeatCount [ ""abc""
    ] : // " ++ [27880; 37322]%N ++ runes_of_ascii "
float 007: msg_type , [
    ""a\""b""	]:
charz , } , i16 MetaDataX`say ""hi""`, repeat u `tab	here` , repeat falsey  { repeat i8 lengthOf `a\` ,
    repeatCount@lengthOf( o)
    `{ , }`,}, }packet rootA
    { calculatedFrom//	t
@calculatedFrom( ""x y"") ,
char Pad @calculatedFrom( ""a\""b"" ) `" ++ [233]%N ++ runes_of_ascii "`
    , @leftPad
( '\x00' )	repeat float64 tag ,
    // " ++ [27880; 37322]%N ++ runes_of_ascii "
    @calculatedFrom( ""1"") repeat Foo ,  } // " ++ [27880; 37322]%N)).
Eval vm_compute in ("<<<M382>>>" ++ check (runes_of_ascii "options {
	StringPrefixLenType = u16;
	ArrayPrefixLenType = u16;
}

packet SampleBinary {
    uint16 MsgType `" ++ [28040; 24687; 31867; 22411]%N ++ runes_of_ascii "`,
    u16 BodyLenght @lengthOf(Body) `" ++ [28040; 24687; 20307; 38271; 24230]%N ++ runes_of_ascii "`,
    match MsgType as Body {
        1 : Logon,
        2 : Logout,
        3 : Heartbeat,
        4 : RiskControlRequest,
        5 : RiskControlResponse,
    },
        @calculatedFrom(""CRC32"")
    u32 Ckecksum `" ++ [26657; 39564; 21644]%N ++ runes_of_ascii "`,
}

packet Logon {
     @leftPad('0')
    char[10] UserName `" ++ [29992; 25143; 21517]%N ++ runes_of_ascii "`,
    string Password `" ++ [23494; 30721]%N ++ runes_of_ascii "`,
    uint64 ClientId `" ++ [23458; 25143; 31471]%N ++ runes_of_ascii "ID`,
    u16 HeartbeatInterval `" ++ [24515; 36339; 38388; 38548]%N ++ runes_of_ascii "`,
}

packet Logout {
      @rightPad('0')
    char[10] UserName `" ++ [29992; 25143; 21517]%N ++ runes_of_ascii "`,
    uint64 ClientId `" ++ [23458; 25143; 31471]%N ++ runes_of_ascii "ID`,
}

packet Heartbeat {
}

packet RiskControlRequest {
    string UniqueOrderId `" ++ [21807; 19968; 35746; 21333; 21495]%N ++ runes_of_ascii "`,
    char[16] ClOrdID `" ++ [23458; 25143; 35746; 21333; 21495]%N ++ runes_of_ascii "`,
    char[3] MarketID `" ++ [24066; 22330]%N ++ runes_of_ascii "id`,
    char[12] SecurityID `" ++ [35777; 21048; 20195; 30721]%N ++ runes_of_ascii "`,
    char Side `" ++ [20080; 21334; 26041; 21521]%N ++ runes_of_ascii "`,
    char OrderType `" ++ [35746; 21333; 31867; 22411]%N ++ runes_of_ascii "`,
    u64 Price `" ++ [20215; 26684]%N ++ runes_of_ascii "`,
    u32 Qty `" ++ [25968; 37327]%N ++ runes_of_ascii "`,
    repeat string ExtraInfo `" ++ [38468; 21152; 20449; 24687]%N ++ runes_of_ascii "`,
    repeat SubOrder {
    		char[16] ClOrdID `" ++ [23376; 35746; 21333; 21495]%N ++ runes_of_ascii "`,
    		u64 Price `" ++ [23376; 35746; 21333; 20215; 26684]%N ++ runes_of_ascii "`,
    		u32 Qty `" ++ [23376; 35746; 21333; 25968; 37327]%N ++ runes_of_ascii "`,
    	},
}

packet RiskControlResponse {
    string UniqueOrderId `" ++ [21807; 19968; 35746; 21333; 21495]%N ++ runes_of_ascii "`,
    i32 Status `" ++ [29366; 24577]%N ++ runes_of_ascii "`,
    string Msg `" ++ [32467; 26524; 20449; 24687]%N ++ runes_of_ascii "`,
    repeat Detail,
}

packet Detail {
    string RuleName `" ++ [35268; 21017; 21517; 31216]%N ++ runes_of_ascii "`,
    u16 Code `" ++ [21407; 22240; 20195; 30721]%N ++ runes_of_ascii "`,
}")).
Eval vm_compute in ("<<<M1336>>>" ++ check (runes_of_ascii "// top
options // c0a
  // c0b
{ // c1a
  // c1b
LittleEndian // c2
= false
    // c4
; StringPrefixLenType =
    // c7
u8 // c8
; // c9
ArrayPrefixLenType
    // c10
= // c11
u64 // c12
; // c13
FixedStringPadFromLeft // c14
=
    // c15
false ; // c17a
  // c17b
FixedStringPadChar // c18
= // c19
' ' ; // c21a
  // c21b
} packet Reject // c24a
  // c24b
{
    // c25
repeat // c26
char[ 4 // c28a
  // c28b
] // c29a
  // c29b
seqNo , string Px
    // c33
,
    // c34
} // c35
root // c36
packet // c37a
  // c37b
Trade { // c39a
  // c39b
@rightPad ( // c41a
  // c41b
'0' // c42a
  // c42b
) // c43a
  // c43b
char[ // c44a
  // c44b
2 ]
    // c46
msgKind // c47a
  // c47b
, // c48
repeat // c49
f64 price , // c52
InAcct79 { // c54a
  // c54b
repeat // c55
Reject // c56a
  // c56b
, // c57
zchar[ // c58a
  // c58b
7 // c59
] // c60
OrderId , // c62
} // c63
,
    // c64
Reject // c65
, // c66a
  // c66b
} // c67a
  // c67b
")).
Eval vm_compute in ("<<<M1447>>>" ++ check (runes_of_ascii "options {
    FixedStringPadFromLeft = true;
    FixedStringPadChar = '0';
}

packet Leg {
    repeat InSym93 {
        zchar[3] Acct,
        string Side2,
        i32 Flags,
        f32 Note,
        i32 msgKind,
    },
    f64 Note,
    uint16 Px,
}

packet Quote {
    zchar[2] OrderId,
}

packet Ack {
    repeat string lastPx,
    zchar[4] price,
    uint32 OrderId,
    Quote,
    int8 Acct,
}

packet Fill {
    repeat Leg,
    @rightPad('0')
    char[11] Note,
    f64 Px,
    @rightPad('\x00')
    char[5] Flags,
    zchar[9] x,
    string msgKind,
}

root packet Order {
    Leg,
    repeat Ack,
    @rightPad('\x00')
    char[3] Side2,
    repeat char[1] seqNo,
    u16 clOrdID,
    match clOrdID as Body {
        198 : Leg,
        23 : Quote,
        13 : Ack,
        159 : Fill,
    },
    u32 venue @calculatedFrom(""CRC32""),
}")).
Eval vm_compute in ("<<<M1383>>>" ++ check (runes_of_ascii "// top
options
    // c0
{ LittleEndian // c2a
  // c2b
= // c3
true // c4a
  // c4b
;
    // c5
}
    // c6
packet
    // c7
Logon // c8a
  // c8b
{ // c9a
  // c9b
u8 // c10
x
    // c11
, string
    // c13
user // c14a
  // c14b
, // c15a
  // c15b
} // c16
packet // c17
Logout // c18a
  // c18b
{ // c19
u16 // c20a
  // c20b
reason
    // c21
, }
    // c23
packet // c24a
  // c24b
Empty
    // c25
{ }
    // c27
root // c28
packet // c29a
  // c29b
Frame // c30a
  // c30b
{
    // c31
u16 MsgType // c33a
  // c33b
,
    // c34
u8
    // c35
BodyLen
    // c36
@lengthOf( Body
    // c38
) // c39
, // c40a
  // c40b
u8 // c41a
  // c41b
flags , // c43
Logon
    // c44
Body // c45
, // c46a
  // c46b
u32
    // c47
trailer // c48
, // c49a
  // c49b
} ")).
Eval vm_compute in ("<<<M1363>>>" ++ check (runes_of_ascii "options {
    StringPrefixLenType = u8;
    ArrayPrefixLenType = u32;
    FixedStringPadFromLeft = true;
    FixedStringPadChar = ' ';
}
packet Leg {
}
packet Heartbeat {
    zchar[6] msgKind,
    @rightPad('0') char[3] Qty,
    zchar[9] Side2,
    i8 Acct,
}
packet Logout {
    int8 x,
}
packet Order {
    char[] Acct,
    zchar[8] count,
    u32 OrderId,
    uint8 lastPx,
    u16 clOrdID,
    zchar[7] Note,
}
root packet Reject {
    @leftPad(' ') char[8] Side2,
    i8 clOrdID,
    repeat f32 x,
    u32 lastPx,
    match lastPx as Body {
        [30, 147] : Heartbeat,
        134 : Leg,
        183 : Logout,
        40 : Order,
    },
    u16 Ref @calculatedFrom(""CRC32""),
}
")).
Eval vm_compute in ("<<<M122>>>" ++ check (runes_of_ascii "
packet u128  { // trailing space 
string  Header `say ""hi""` , repeat crc
f32a,
    char[ 10
    ] _x	,	@calculatedFrom( ""x y""	) repeat
    //
    charz	{
    Logon @lengthOf(T) `crlf
line`
, repeat char[ // trailing space 
0123456789 ]Z9_
    `crlf
line` ,
    } ,
    match Packet
    as
// " ++ [128512]%N ++ runes_of_ascii " emoji
// `tick` ""quote"" 'q'
float // a // b
{
    1
:  lengthOf }  ,  MetaDataX , match x as
u8x { 10 :crc } , } root packet // `tick` ""quote"" 'q'
Header // a // b
{ @calculatedFrom( ""{,}"") a1
    {  char[
    // packet A { u8 x, }
    007 ] pack ,stringy //x
zchar
    , repeat
char[]
    // " ++ [128512]%N ++ runes_of_ascii " emoji
    o `it's`	, } , }")).
Eval vm_compute in ("<<<M1348>>>" ++ check (runes_of_ascii "options {
    LittleEndian = false;
    ArrayPrefixLenType = u8;
    FixedStringPadFromLeft = true;
    FixedStringPadChar = '0';
}
packet Heartbeat {
    string lastPx,
    uint8 Qty,
    i64 Acct,
    char[4] Ref,
}
packet Fill {
    uint8 Ref,
    Heartbeat,
    f32 OrderId,
    repeat f32 x,
}
root packet Order {
    zchar[2] OrderId,
    zchar[2] Acct,
    zchar[1] Note,
    zchar[9] Qty,
    string price,
    string tag7,
    u32 x,
    match x as Body {
        123 : Fill,
        112 : Heartbeat,
    },
    u32 seqNo @calculatedFrom(""CR\
C32""),
}
")).
Eval vm_compute in ("<<<M1377>>>" ++ check (runes_of_ascii "
options
{

    LittleEndian

= true
;StringPrefixLenType

= u64 ;

    ArrayPrefixLenType
	= u16
    ; FixedStringPadFromLeft	= false; FixedStringPadChar=
' ' ;
}	packet

    Logon
{

zchar[ 
5
    ] Side2
,	}	root 
packet
	Logout
    { repeat
    i64
Tail

,  Logon	,repeat
    i16 OrderId , 
char[] venue,

    uint64
x
,repeat
    i16	count , u8 
Flags , match Flags
as

    Body	{

    25

    :  Logon
,
	},  u16
    Qty  @calculatedFrom( ""CRC32""
)

    ,

} ")).
Eval vm_compute in ("<<<M1646>>>" ++ check (runes_of_ascii "options {
    float = char[]
}// packet A { u8 x, }

root packet Logon {
    @tag(1)
    // a // b
    @calculatedFrom(""packet"")
    zchar[3] Z9_,
    @lengthOf(charz)
    @calculatedFrom(""1"")
    match roots as int {
        ""a	b"" : MetaDataX,
    },
    @calculatedFrom(""a\""b"")
    match asx as lengthOf {
        """ ++ [128512]%N ++ runes_of_ascii """ : _x,
        [255] : BodyLength,
        3 : u8x,
        0123456789 : T,
    },
    len @lengthOf(leftPad) `u8 x,`,
}// @lengthOf(")).
Eval vm_compute in ("<<<M1705>>>" ++ check (runes_of_ascii "  packet float
    { 
char[42
] int	`say ""hi""`,

    @tag(255 // packet A { u8 x, }
  ) match 	 // a // b
      stringy	as
	x
	{

[
00, 42
]
    :
    i64_ 
42: matchKey
,
    [
	""1""

,1,

    42
,	""" ++ [28040; 24687]%N ++ runes_of_ascii """	,""abc""
,

// a // b
    //x

1 	 // trailing space 
  ] 
:	//
		roots
	,65535	:trueish	,} , @calculatedFrom(
""{,}"")  body@calculatedFrom(
    """ ++ [28040; 24687]%N ++ runes_of_ascii """

    ) ,
	zchar[ 
007 ]
    lengthOf
, }")).
Eval vm_compute in ("<<<M74>>>" ++ check (runes_of_ascii "options{ u = 7
    // " ++ [27880; 37322]%N ++ runes_of_ascii "
    roots
=zchar[
65535
    ]
msg_type = """ ++ [233]%N ++ runes_of_ascii "t" ++ [233]%N ++ runes_of_ascii """
; x =false
    } MetaData string_ { char[ // trailing space 
42
//x
// " ++ [128512]%N ++ runes_of_ascii " emoji
]
i8i8 `" ++ [28040; 24687; 31867; 22411]%N ++ runes_of_ascii "`	, u8
    x_y_z
, packetx lengthOf``
    // " ++ [27880; 37322]%N ++ runes_of_ascii "
    ,
T Header `line1
line2` ,
char[] // " ++ [27880; 37322]%N ++ runes_of_ascii "
u8x `two words` ,}packet
float //x
{
    calculatedFrom
    ,
@rightPad ( '0'
) char[
    3
] u128 , } 	 ")).
Eval vm_compute in ("<<<M178>>>" ++ check (runes_of_ascii "packet // c
As
{@tag( 42
    )
    repeat Logon	uint8x
// " ++ [128512]%N ++ runes_of_ascii " emoji
//
``, repeat int32
    x_y_z ,char[7 // trailing space 
]	pack , repeat string crc
/// triple
// c
`// not a comment`
, @calculatedFrom(
    ""`tick`""
    ) @tag( 1 )match
    // @lengthOf(
    chars as
MetaDataX { 4294967296 : // @lengthOf(
T ,
} /// triple
,
}
")).
Eval vm_compute in ("<<<M57>>>" ++ check (runes_of_ascii "packet	tag { }
packet falsey
    { string charz @lengthOf(
    zchar ) ,
string // trailing space 
u @calculatedFrom( """ ++ [233]%N ++ runes_of_ascii "t" ++ [233]%N ++ runes_of_ascii """	) `// not a comment`
, @leftPad( '0' )
char[] leftPad @calculatedFrom(
    ""a	b"")`// not a comment` , @calculatedFrom(
    ""`tick`"" )
    @lengthOf(roots
) repeat MetaDataX
, }

")).
Eval vm_compute in ("<<<M1847>>>" ++ check (runes_of_ascii "

  options {

    LittleEndian // c2a
	// c2b
= 	 // c3
		true 
	    // c4
;}  root

// c7
  packet P// c9a
	// c9b
  {	repeat

char// c12a
	// c12b

cs // c13a
    // c13b
, 	 // c14a
	  // c14b
		u8 
	    // c15
	  x 
// c16
	,  // c17

} 
    // c18
")).
Eval vm_compute in ("<<<M1747>>>" ++ check (runes_of_ascii "packet metadata {
    int32 calculatedFrom,
}

options {
}

options {
    u128 = '\x00';
    string_ = ""abc"";
}

root packet i8i8 {
    @rightPad('\x00')
    repeat metadata {
        string_,
        tag @lengthOf(falsey),
    },//x
}")).
Eval vm_compute in ("<<<M1952>>>" ++ check (runes_of_ascii "
MetaData// a // b
  o  {
    string Foo
	,
	}	MetaData

    msg_type
    { Header

    len `" ++ [28040; 24687; 31867; 22411]%N ++ runes_of_ascii "` ,} options
    {tag

    = 
'0';
    o  =

    ""CRC32"";

    Logon=  ""`tick`""

; 	 // a // b
}
")).
Eval vm_compute in ("<<<M1541>>>" ++ check (runes_of_ascii "
MetaData

msg_type
{}root	packet
A
    {
repeat	i32

leftPad
	`it's` 
, 
        //x
  	}root packet

    a1
{

    char[
        // c
  255 ]falsey // @lengthOf(

	, 
}

")).
Eval vm_compute in ("<<<M336>>>" ++ check (runes_of_ascii "
packet msg_type
{
    zchar[ 65535
    /// triple
    ]stringy // `tick` ""quote"" 'q'
@calculatedFrom( """ ++ [233]%N ++ runes_of_ascii "t" ++ [233]%N ++ runes_of_ascii """ )
,@tag( 0
) repeat i64_,
}
// packet A { u8 x, }
")).
Eval vm_compute in ("<<<M537>>>" ++ check (runes_of_ascii "packet uint8x
{ match pack
    as msg_type	{
    0123456789 :	float
}
,
} packet //	t
a1
    { } o'\x01'ptions {packetx
    = '\x00'	; u128= ""a	b""  ; }
")).
Eval vm_compute in ("<<<M451>>>" ++ check (runes_of_ascii "packet uint8x
{ match pack
    as msg_type	{
    0123456789 :	float
}
, ,
} packet //	t
a1
    { } options {packetx
    = '\x00'	; u128= ""a	b""  ; }
")).
Eval vm_compute in ("<<<M275>>>" ++ check (runes_of_ascii "MetaData
stringy { zchar[10 ] crc,  }
    packet u128
{ repeat uint16  BodyLength `// not a comment`, @lengthOf( falsey ) _x ,
char[ 42 ]  i8i8	, }

")).
Eval vm_compute in ("<<<M532>>>" ++ check (runes_of_ascii "packet uint8x
{ match pack
    as msg_type	{
    0123456789 :	float
}
,
} packet //	t
a1
    { } options {packetx
    = '\x00'	; u128= ""a	b""  ; )
")).
Eval vm_compute in ("<<<M394>>>" ++ check (runes_of_ascii "u32 uint8x
{ match pack
    as msg_type	{
    0123456789 :	float
}
,
} packet //	t
a1
    { } options {packetx
    = '\x00'	; u128= ""a	b""  ; }
")).
Eval vm_compute in ("<<<M1472>>>" ++ check (runes_of_ascii "MetaData leftPad
    // c
      {	chars
MetaDataX

,	}packet repeatCount  {

    char[  255	] 
uint8x
	`" ++ [233]%N ++ runes_of_ascii "` 
, 
} MetaData
pack{
As 
Foo,
    }")).
Eval vm_compute in ("<<<M1288>>>" ++ check (runes_of_ascii "// top
root
    // c0
packet P
    // c2
{ // c3a
  // c3b
repeat // c4
string // c5
ss , // c7
repeat u16 ns ,
    // c11
} // c12a
  // c12b
")).
Eval vm_compute in ("<<<M61>>>" ++ check (runes_of_ascii "packet
    i64_ { }
MetaData uint8x {Packet tag , u8	repeatCount
, x_y_z
_x `" ++ [233]%N ++ runes_of_ascii "`
    , zchar[
    42
    ]
    crc
`a\` ,
} options	{ }")).
Eval vm_compute in ("<<<M1785>>>" ++ check (runes_of_ascii "
packet B{

    u8
    a 
,
    } root
packet P{
u8
K
	,u8
L @lengthOf( Body
    ) 
, match  K as

Body

{
    1 : 
B	,}
,
}
")).
Eval vm_compute in ("<<<M223>>>" ++ check (runes_of_ascii "packet  u { repeat
    // " ++ [128512]%N ++ runes_of_ascii " emoji
    A , @lengthOf( lengthOf
)
    repeat
    i64
i64_
, //
zchar[
3// a // b
] body , }
")).
Eval vm_compute in ("<<<M1143>>>" ++ check (runes_of_ascii "MetaData // c
leftPad { chars MetaDataX , } packet repeatCount { char[ 255 ] uint8x `" ++ [233]%N ++ runes_of_ascii "` , } MetaData pack { As Foo , }")).
Eval vm_compute in ("<<<M1175>>>" ++ check (runes_of_ascii "MetaData leftPad { chars MetaDataX , } packet repeatCount { char[ 255 ] uint8x `" ++ [233]%N ++ runes_of_ascii "` , } // c
MetaData pack { As Foo , }")).
Eval vm_compute in ("<<<M1485>>>" ++ check (runes_of_ascii "packet A {
    B b `a
        
        b`,
    B `a
        
        b`,
    repeat B bs `a
        
        b`,
}")).
Eval vm_compute in ("<<<M881>>>" ++ check (runes_of_ascii "packet A {
  match k as n {
    [""a"", ""bb"", ""c c"", ""d"", ""e"", ""f"", ""g"", ""h"", ""i"", ""j""] : B
    2 : C
  },
}")).
Eval vm_compute in ("<<<M888>>>" ++ check (runes_of_ascii "packet A {
  match k as n {
    [""a"", ""bb"", 007, ""d"", ""e"", 66, ""g"", ""h"", 9, ""j""] : B,
    2 : C
  },
}")).
Eval vm_compute in ("<<<M882>>>" ++ check (runes_of_ascii "packet A {
  match k as n {
    [1, ""bb"", 007, ""d"", 5, ""f"", 7, ""h"", 9, ""j""] : B,
    2 : C
  },
}")).
Eval vm_compute in ("<<<M389>>>" ++ check (runes_of_ascii "root packet SimpleMessage {
    uint16 MsgType `" ++ [28040; 24687; 31867; 22411]%N ++ runes_of_ascii "`,
    string JsonBody `Json" ++ [23383; 31526; 20018; 28040; 24687; 20307]%N ++ runes_of_ascii "`,
}")).
Eval vm_compute in ("<<<M618>>>" ++ check (runes_of_ascii "
packet
    asx {match u128 as lengthOf
{
//	t
// `tick` ""quote"" 'q'
255 : x ,
    } , ,	}")).
Eval vm_compute in ("<<<M579>>>" ++ check (runes_of_ascii "
packet
    asx {match u128 lengthOf as
{
//	t
// `tick` ""quote"" 'q'
255 : x ,
    } ,	}")).
Eval vm_compute in ("<<<M595>>>" ++ check (runes_of_ascii "
packet
    asx {match u128 as lengthOf
{
//	t
// `tick` ""quote"" 'q'
: : x ,
    } ,	}")).
Eval vm_compute in ("<<<M836>>>" ++ check (runes_of_ascii "packet A {
  match k as n {
    [""a"", ""bb"", 007, ""d"", ""e"", 66] : B,
    2 : C
  },
}")).
Eval vm_compute in ("<<<M823>>>" ++ check (runes_of_ascii "packet A {
  match k as n {
    [""a"", ""bb"", 007, ""d"", ""e""] : B,
    2 : C
  },
}")).
Eval vm_compute in ("<<<M1563>>>" ++ check (runes_of_ascii "  packet
    body
	{

    i32
	f32a 	 // c
	`{ , }` , 
}
    options { 
} ")).
Eval vm_compute in ("<<<M1874>>>" ++ check (runes_of_ascii "// top
    MetaData 
    // c0

tag
        // c1
  {	// c2
} 

// c3
")).
Eval vm_compute in ("<<<M1087>>>" ++ check (runes_of_ascii "packet A { match k as n { [ // a
 1 // b
 , // c
 2 ] // d
 : B }, }")).
Eval vm_compute in ("<<<M784>>>" ++ check (runes_of_ascii "packet A {
  match k as n {
    [""a"", 22] : B,
    2 : C
  },
}")).
Eval vm_compute in ("<<<M812>>>" ++ check (runes_of_ascii "packet A { Inner { match k as n { [1,22,007,4] : B, }, }, }")).
Eval vm_compute in ("<<<M1607>>>" ++ check (runes_of_ascii "packet body {
    i32 f32a `{ , }`,
}

options {
}// c")).
Eval vm_compute in ("<<<M1215>>>" ++ check (runes_of_ascii "packet body { i32 f32a `{ , }` , } options // c
{ }")).
Eval vm_compute in ("<<<M434>>>" ++ check (runes_of_ascii "packet uint8x
{ match pack
    as msg_type	{")).
Eval vm_compute in ("<<<M1480>>>" ++ check (runes_of_ascii "MetaData lengthOf {
    Header o `doc`,
}")).
Eval vm_compute in ("<<<M1740>>>" ++ check (runes_of_ascii "
packet A  {  u8

x
	`x
`
,
    }

")).
Eval vm_compute in ("<<<M1043>>>" ++ check (runes_of_ascii "packet A {
 u8 x `d 	`, // c 	
}")).
Eval vm_compute in ("<<<M1008>>>" ++ check (runes_of_ascii "packet A {
 u8 x `d" ++ [8202]%N ++ runes_of_ascii "`, // c" ++ [8202]%N ++ runes_of_ascii "
}")).
Eval vm_compute in ("<<<M1065>>>" ++ check (runes_of_ascii "packet A {
}// a// b// c
")).
Eval vm_compute in ("<<<M286>>>" ++ check (runes_of_ascii " // `tick` ""quote"" 'q'")).
Eval vm_compute in ("<<<M59>>>" ++ check (runes_of_ascii "packet
int {
}
//	t
")).
Eval vm_compute in ("<<<M981>>>" ++ check (runes_of_ascii "packet A {
}
// c" ++ [12288]%N)).
Eval vm_compute in ("<<<M1074>>>" ++ check (runes_of_ascii "MetaData M {
}// c")).
Eval vm_compute in ("<<<M1229>>>" ++ check (runes_of_ascii "packet x
// c
{ }")).
Eval vm_compute in ("<<<M1548>>>" ++ check (runes_of_ascii "packet x {
}")).
Eval vm_compute in ("<<<M1025>>>" ++ check (runes_of_ascii "// c" ++ [8287]%N)).
