From FP Require Import Lexer Parser ShowPT Digest Formatter.
From Coq Require Import String List NArith.
Import ListNotations.
Open Scope string_scope.
Set Printing Width 100000000.
Set Printing Depth 100000000.
Definition show_fres (r : fres) : string :=
  match r with
  | FOk s => "OK:" ++ sh_escaped s ""
  | FErr s => "ERR:" ++ sh_escaped s ""
  | FPanic p => "PANIC:" ++ p
  end.
Definition check (rs : list rune) : string := digest (show_fres (format_res rs)).
Definition full (rs : list rune) : string := show_fres (format_res rs).
Eval vm_compute in ("<<<M1730>>>" ++ check (runes_of_ascii "MetaData
chars {int8

    Z9_

,  float	rootA

`tab	here` 	 // @lengthOf(
	  , 
      //x
		// @lengthOf(
	  T

o`it's`

,
	roots  int	,  // c
    repeatCount MetaDataX
	, float32
	falsey `say ""hi""`, 
}  packet
msg_type
	{  repeat	f32
o  // `tick` ""quote"" 'q'
	, @tag(

0
) 
char[]A

,repeat 
char[] tag`say ""hi""`
,	repeat char[

0 ]
	Z9_ ,

    zchar[ 
1
	]  lengthOf
	,

    i64 
T  , 
match
	float
    as leftPad{ 
007 :
len/// triple
    ,
""it's"" : 
len

    , ""it's""  :// @lengthOf(
		float[

255	,
00	,
    ""abc"" , ""abc""
,

    1

,
	""" ++ [28040; 24687]%N ++ runes_of_ascii """ 	 // `tick` ""quote"" 'q'
      ,

""x y"" , """"  // a // b
]  :	_x

,	"""" 
:len ,
""\" ++ [233]%N ++ runes_of_ascii """
	: // a // b

i64_
, //	t
      }
    , roots{ 
char[1
	] 	 // @lengthOf(
  Header

    @lengthOf(
x_y_z ), 
body
u128 , 	 // `tick` ""quote"" 'q'
  char[]
float
, chars

@lengthOf( x

    )
`doc` ,

} ,
    crc`it's` 
    // `tick` ""quote"" 'q'
  ,
    @calculatedFrom(	""" ++ [128512]%N ++ runes_of_ascii """ ) BodyLength 
`" ++ [28040; 24687; 31867; 22411]%N ++ runes_of_ascii "` 
,

    } packet	u128
{

lengthOf
    ,	pack
@lengthOf( u8x// c
  )

    `// not a comment`  // " ++ [27880; 37322]%N ++ runes_of_ascii "
,@leftPad (' '
	)float
	{match
asx  as

charz{ 
[ 
4294967296  , """"
    , 255,

42
,
""1"" 
] :u8x ""{,}"" :

Foo 42 :
leftPad [	// trailing space 
255 
, 
	    // " ++ [128512]%N ++ runes_of_ascii " emoji

""a\""b"" ,
""it's"",
4294967296
	] :
stringy
,3
:Header
,} 
,
	match
o// `tick` ""quote"" 'q'
  as 
Pad 
    // trailing space 

  {3	:
    i64_	//x

	, 
} , repeat string msg_type ,
	match packetx// " ++ [27880; 37322]%N ++ runes_of_ascii "
as
	lengthOf { 
[""x y"" ,
    """"
	]
:x_y_z 
// " ++ [27880; 37322]%N ++ runes_of_ascii "

  // c
} ,

} ,
i64
    float

    , 
repeat	zchar[ 3
	]rootA  `crlf
line`
, 
match
	msg_type
    as

len { ""CRC32"" : MetaDataX  ,
}	,f32

A ,  char[ 
0123456789

]	chars	// " ++ [27880; 37322]%N ++ runes_of_ascii "
	`{ , }`
,/// triple

@calculatedFrom(	""a\""b"")
string	string_ `" ++ [233]%N ++ runes_of_ascii "`,
}")).
Eval vm_compute in ("<<<M156>>>" ++ check (runes_of_ascii "packet
A { @rightPad ( '0' ) repeat	i8i8
    { zchar[ 007 ]
    packetx,
    metadata `" ++ [28040; 24687; 31867; 22411]%N ++ runes_of_ascii "` ,	repeat float64  T ,}, @tag(0)Z9_ { int
@lengthOf( tag
)`line1
line2`
, repeat i8i8 // packet A { u8 x, }
{  zchar[  00 ]stringy
,
repeat f32a{ match i64_ //
as
    string_ {[ 255 , ""{,}"" , 0123456789 ]
: x_y_z
, """ ++ [233]%N ++ runes_of_ascii "t" ++ [233]%N ++ runes_of_ascii """ : A
, ""`tick`"" : len ,} , } ,
    //
    repeat u8x {u16 Z9_
@calculatedFrom(""" ++ [128512]%N ++ runes_of_ascii """ ) `line1
line2` ,f32 matchKey
    ,} ,// " ++ [27880; 37322]%N ++ runes_of_ascii "
float64 u8x `
`,
    },//
} , // `tick` ""quote"" 'q'
a1	{ repeat
    // trailing space 
    zchar[ 007
] Foo `two words`
,f32a	@calculatedFrom( """ ++ [28040; 24687]%N ++ runes_of_ascii """// trailing space 
) ,int64 i64_  @calculatedFrom( // trailing space 
""`tick`"" ) , } ,
    @lengthOf(
    // c
    Header )	f32
stringy @calculatedFrom(
""x y"" )`say ""hi""` , Foo , float64
BodyLength@calculatedFrom( // " ++ [27880; 37322]%N ++ runes_of_ascii "
""packet"") ,
    uint32
// packet A { u8 x, }
//
int
//
//x
, } packet string_{ @tag( 4294967296
) repeat u
`two words` , repeat zchar[ 0 ]
BodyLength
, @tag( 255 )/// triple
int `line1
line2` ,	uint8x`it's`,@tag(
65535 )
int8
    metadata
`" ++ [233]%N ++ runes_of_ascii "` ,/// triple
match
options1
//x
// " ++ [128512]%N ++ runes_of_ascii " emoji
as
    float// packet A { u8 x, }
{ 3: f32a , """ ++ [28040; 24687]%N ++ runes_of_ascii """
    : charz
,}
,match uint8x	as
string_ { ""CRC32"" //x
:
x
, } , uint8	packetx`crlf
line` ,
@leftPad (
)
    zchar[
0
] Foo `say ""hi""`, }
")).
Eval vm_compute in ("<<<M331>>>" ++ check (runes_of_ascii "packet o
// trailing space 
//x
{	repeat pack stringy `two words`	,
    char[	1 ]
leftPad , }
/// triple
// @lengthOf(
MetaData msg_type{ zchar[  1] Pad`" ++ [28040; 24687; 31867; 22411]%N ++ runes_of_ascii "` , uint32 //x
charz//
`a\`
,  A u8x `// not a comment` ,
    // `tick` ""quote"" 'q'
    } packet
options1
    {@calculatedFrom( """ ++ [233]%N ++ runes_of_ascii "t" ++ [233]%N ++ runes_of_ascii """
) @rightPad( )
Pad
@lengthOf(// packet A { u8 x, }
pack ) `` ,
match
    A
as
    a1 { 255  :
msg_type  ,
}
,
// " ++ [27880; 37322]%N ++ runes_of_ascii "
//
@lengthOf( tag )  @tag( 00 )@rightPad(' '
) match Header	as f32a { """" : float , } // @lengthOf(
, char[] T@calculatedFrom(
    // packet A { u8 x, }
    ""packet""	) , repeat asx /// triple
msg_type`crlf
line` , @calculatedFrom( ""\" ++ [233]%N ++ runes_of_ascii """ ) @tag( // trailing space 
7
)
int64 o
`line1
line2`,
    // trailing space 
    } // " ++ [128512]%N ++ runes_of_ascii " emoji
root
packet// packet A { u8 x, }
crc  { int8
body
@lengthOf( matchKey ) `two words` ,
    //	t
    @lengthOf( u8x )
zchar[
0123456789
    ] i8i8,
} MetaData  a1 { falsey _x
`
` ,
char[] body`" ++ [28040; 24687; 31867; 22411]%N ++ runes_of_ascii "` ,
// packet A { u8 x, }
//
zchar[ 42] trueish `
` , float trueish,  metadata //x
o `{ , }`, }")).
Eval vm_compute in ("<<<M1938>>>" ++ check (runes_of_ascii "

  options{
StringPrefixLenType

    = 
u64 ; 
ArrayPrefixLenType =u32 ;
FixedStringPadFromLeft	=false 
;}
packet  Party
{

zchar[

7  ] OrderId

    ,
    InTail6
	{

repeat	char[ 1  ]

msgKind ,  char[3
	]Tail ,char[3  ] 
Flags

    ,	i16 tag7 
, },
    @rightPad

(	'0' )char[
12 
]
clOrdID,

} packet

    Quote  { @leftPad
    (
'0'
    ) char[	11 ] price,
repeat  InCount7	{ i32 x
    ,	Party,	u8 Ref
	, u8 tag7
	,},char[] seqNo ,

    Party ,	}
packet  Logon
	{ @rightPad
    ('\x00' ) char[5]Note	,
i16

    sym

    ,

    InPrice72{
	char[9 
]

Ref 
, zchar[
1  ]  venue 
,  }
,

    char[]
clOrdID, }root	packet Reject{

    repeat
	Logon
    , @leftPad  (
' '
)	char[ 
4
	]

    seqNo, 
zchar[

    5

]

Acct  ,  u32	x
,
u16	f1 @lengthOf( Body
),	match x
as Body

{ [
	169
,
74
    ]:  Quote,
    45 
:
	Party , 7

    :

    Logon,

    }
,
	}")).
Eval vm_compute in ("<<<M1321>>>" ++ check (runes_of_ascii "// top
packet // c0
P1
    // c1
{ // c2
u8
    // c3
a // c4a
  // c4b
,
    // c5
} // c6
packet
    // c7
P2 // c8
{ // c9a
  // c9b
P1 // c10
, } // c12a
  // c12b
packet // c13a
  // c13b
P3
    // c14
{
    // c15
P2
    // c16
, // c17
P1 , // c19
} // c20a
  // c20b
packet // c21
P4 // c22
{ // c23
repeat // c24a
  // c24b
P3
    // c25
, P2 , } root // c30a
  // c30b
packet // c31
P5 { // c33
P4
    // c34
,
    // c35
P3 // c36a
  // c36b
, P1
    // c38
,
    // c39
u8 K // c41
, // c42
match // c43
K // c44a
  // c44b
as
    // c45
Body // c46a
  // c46b
{ // c47a
  // c47b
4 : // c49a
  // c49b
P4 // c50
, // c51
3 :
    // c53
P3 // c54a
  // c54b
, // c55a
  // c55b
2 // c56a
  // c56b
:
    // c57
P2 ,
    // c59
1 : // c61a
  // c61b
P1 // c62
, // c63a
  // c63b
}
    // c64
, }
    // c66
")).
Eval vm_compute in ("<<<M1799>>>" ++ check (runes_of_ascii "

  root packet matchKey

{ match 
Foo as 
Z9_ 
{ // c
  [
	""x y""
    , ""1""  ,
007, 7
]:

    pack	,

""`tick`""
    : 
u128	,
    ""a	b"" :  msg_type,
	[  
      //

  //
	  00
,
65535
]

: a1
,""it's""
:

Foo 
,	// " ++ [128512]%N ++ runes_of_ascii " emoji
	[	//x

""""

]	: u , }
	,}	packet calculatedFrom	// c
  { msg_type 
{ T @calculatedFrom(
""\n"" )
	, float64
	i8i8 ,
	As

    `
` ,u32 rootA 
@lengthOf( 
    // c
	// `tick` ""quote"" 'q'
    float )
, }  ,	}
packet
// " ++ [27880; 37322]%N ++ runes_of_ascii "
  	x_y_z
{  @tag(	//x
    	0
) i64_
	    // " ++ [27880; 37322]%N ++ runes_of_ascii "
  	@lengthOf(  
      //
	MetaDataX

),	}  packet A 
{ @calculatedFrom( ""a\\"")

@calculatedFrom( ""abc""	)_x

    u	`say ""hi""` 
,
	} 
options
    // `tick` ""quote"" 'q'
	{// trailing space 
  	metadata
	=""a\\""
; // a // b
}

")).
Eval vm_compute in ("<<<M184>>>" ++ check (runes_of_ascii "packet options1{@leftPad	( '0' )	@rightPad ( // a // b
'\x00'
) @tag(
255
) /// triple
repeat string As `
`,
@calculatedFrom(
"""" )@calculatedFrom(//x
""x y"" )
a1
{ Foo {trueish { tag
@lengthOf(  i8i8 ) `doc`
, }
, zchar[
00 ] f32a @lengthOf( calculatedFrom) , repeat
zchar[ 1
    ] stringy`{ , }`
    , },uint64  repeatCount	@lengthOf(// `tick` ""quote"" 'q'
asx
    ) , char[ 42
] lengthOf @calculatedFrom(// c
""packet""), char[ 10 ] calculatedFrom @lengthOf( BodyLength ), } ,
asx`// not a comment`,  } options { matchKey =""" ++ [128512]%N ++ runes_of_ascii """ falsey = ""a\""b"" ; A // a // b
= ""CRC32"" msg_type
    =
    //x
    """ ++ [233]%N ++ runes_of_ascii "t" ++ [233]%N ++ runes_of_ascii """	; } MetaData o//	t
{
} packet
Pad{  }")).
Eval vm_compute in ("<<<M260>>>" ++ check (runes_of_ascii "packet metadata{ @rightPad
    (	) zchar[
//	t
// `tick` ""quote"" 'q'
0123456789] i64_
    // @lengthOf(
    @calculatedFrom( ""\n"" ) , @leftPad (
    ' '// " ++ [27880; 37322]%N ++ runes_of_ascii "
) zchar[ // `tick` ""quote"" 'q'
255
]
    MetaDataX `{ , }`// a // b
, @rightPad (
' ' )@calculatedFrom(""abc"" ) // " ++ [128512]%N ++ runes_of_ascii " emoji
@lengthOf(
matchKey
// `tick` ""quote"" 'q'
// `tick` ""quote"" 'q'
)
repeat char[ 42 ] packetx // packet A { u8 x, }
`" ++ [233]%N ++ runes_of_ascii "` ,  trueish@calculatedFrom( ""packet"" )
`a\` , matchKey int `" ++ [28040; 24687; 31867; 22411]%N ++ runes_of_ascii "` ,	@tag(
    // c
    0
) len{ char[65535 ] Header,
}
,@lengthOf( f32a ) zchar[	10  ]
    trueish `crlf
line` ,  }
")).
Eval vm_compute in ("<<<M1736>>>" ++ check (runes_of_ascii "packet u128 {
    // trailing space 
    string Header `say ""hi""`,
    repeat crc f32a,
    char[10] _x,
    @calculatedFrom(""x y"")
    repeat charz {
        Logon @lengthOf(T) `crlf
        line`,
        repeat char[0123456789] Z9_ `crlf
        line`,
    },
    match Packet as float {
        1 : lengthOf,
    },
    MetaDataX,
    match x as u8x {
        10 : crc,
    },
}

root packet Header {
    @calculatedFrom(""{,}"")
    a1 {
        char[007] pack,
        stringy zchar,
        repeat char[] o `it's`,
    },
}")).
Eval vm_compute in ("<<<M1392>>>" ++ check (runes_of_ascii "packet Logon {
    repeatCount {
        BodyLength `crlf
                line`,
    },
    zchar a1 `u8 x,`,
    match Foo as Foo {
        ""\n"" : i8i8,
        [""abc"", ""CRC32""] : crc,
        [
            3, ""x y"", 42, ""`tick`"", 1,
            ""a\""b"", ""CRC32"", 255
        ] : repeatCount,
        [
            1, 007, ""\n"", 007, 7,
            ""// no comment"", 255
        ] : uint8x,
        00 : f32a,
    },
    // a // b
    uint16 Pad @lengthOf(uint8x) `doc`,
}")).
Eval vm_compute in ("<<<M1569>>>" ++ check (runes_of_ascii "
// top
	  options  // c0
	{  // c1
    	f32a// c2
      = 	 // c3
0  // c4
	} 	 // c5

packet// c6
	trueish// c7

	{  // c8

}// c9
  MetaData 	 // c10
  _x // c11
	{// c12
    char[  // c13
	0123456789 // c14
    ] // c15
	zchar // c16
,  // c17
    string 	 // c18
		crc 	 // c19

,// c20
	  char[	// c21

1  // c22
]// c23

	options1	// c24
  ,  // c25
    uint8  // c26
    	repeatCount	// c27
,  // c28
  }// c29
")).
Eval vm_compute in ("<<<M76>>>" ++ check (runes_of_ascii "packet rootA { repeat uint16 stringy `" ++ [233]%N ++ runes_of_ascii "`
,body
@lengthOf( stringy ) , int32 matchKey // " ++ [27880; 37322]%N ++ runes_of_ascii "
,
    @lengthOf(roots)@calculatedFrom( ""a\""b""
) @leftPad(' ') i64
    leftPad
@lengthOf( repeatCount )
`u8 x,` , //	t
f64 len
    @lengthOf( BodyLength// trailing space 
) `// not a comment` , @rightPad
(
)
    @leftPad ( '0')repeat
string len
, // c
char[] chars `two words`	, } //	t")).
Eval vm_compute in ("<<<M1647>>>" ++ check (runes_of_ascii "
root
    packet
    Logon 
{
@rightPad
    ( // @lengthOf(

  '0' )
	repeat 
charz  // " ++ [27880; 37322]%N ++ runes_of_ascii "

  { 	 // " ++ [128512]%N ++ runes_of_ascii " emoji

Z9_

    `{ , }`
    ,string string_
`say ""hi""`,

repeat

int8 
rootA
    , match
    Foo as  pack	{  [

    42
    // c
	/// triple
		, 0
    ]
: u,""a\""b""
:

int
	,	}

// c
	// `tick` ""quote"" 'q'
    	,
    }
, 
}
")).
Eval vm_compute in ("<<<M1277>>>" ++ check (runes_of_ascii "// top
options
    // c0
{
    // c1
LittleEndian // c2
=
    // c3
true
    // c4
;
    // c5
}
    // c6
root // c7a
  // c7b
packet P // c9a
  // c9b
{ u16
    // c11
a // c12
, // c13
u32 // c14a
  // c14b
Sum
    // c15
@calculatedFrom( ""CRC32"" ) // c18a
  // c18b
,
    // c19
} // c20a
  // c20b
")).
Eval vm_compute in ("<<<M1821>>>" ++ check (runes_of_ascii "packet MDSnapshotZZ {
u8

a	, }  packet

OrderACK
	{ u16 b ,

    }

packet	HTTPServerInfo
{ string  s
    , 
}

    root
	packet  FIXMsg {u8

    KType
,
	MDSnapshotZZ  ,

repeat OrderACK
,match	KType
as
    Body
    {	1 : HTTPServerInfo 
,
2:	OrderACK,}	, }
")).
Eval vm_compute in ("<<<M214>>>" ++ check (runes_of_ascii "MetaData tag {body Packet	, int16 // @lengthOf(
body // `tick` ""quote"" 'q'
, f32a uint8x , } packet falsey {
x { char[ 7 ] lengthOf , char[] o
    `say ""hi""`
    // `tick` ""quote"" 'q'
    ,
//
/// triple
}
,}
// `tick` ""quote"" 'q'
")).
Eval vm_compute in ("<<<M1822>>>" ++ check (runes_of_ascii "

  // top
  root 	 // c0
    	packet
	P // c2
  {// c3
hdr 
  // c4

{ 
    // c5
	u8 // c6
  a  // c7a
// c7b
	,  
      // c8
  }
, // c10
	u8 	 // c11
  	x // c12a

// c12b
,

    }
    // c14
")).
Eval vm_compute in ("<<<M1325>>>" ++ check (runes_of_ascii "
root	packet
	Frame { u8
    K , 
Logon
	first  ,
match

    K 
as
Body{1 : Logon,
    2 :
Logout  ,
	}	,
} 
packet
Logon
	{
string user ,
} packet
Logout

{ u16 
reason , }")).
Eval vm_compute in ("<<<M1502>>>" ++ check (runes_of_ascii "
// @lengthOf(
	packet

i8i8
	{
	u128 o
    ,
}	options
{MetaDataX	=
true

;
BodyLength = 
""packet""x_y_z

    = 007 crc //x
	=
""abc""
msg_type = 
i16 
}

")).
Eval vm_compute in ("<<<M511>>>" ++ check (runes_of_ascii "packet uint8x
{ match pack
    as msg_type	{
    0123456789 :	float
}
,
} packet //	t
a1
    { } options {packetx
    = '\x00'	; u128 u128= ""a	b""  ; }
")).
Eval vm_compute in ("<<<M486>>>" ++ check (runes_of_ascii "packet uint8x
{ match pack
    as msg_type	{
    0123456789 :	float
}
,
} packet //	t
a1
    { } options { {packetx
    = '\x00'	; u128= ""a	b""  ; }
")).
Eval vm_compute in ("<<<M407>>>" ++ check (runes_of_ascii "packet uint8x
{ pack match
    as msg_type	{
    0123456789 :	float
}
,
} packet //	t
a1
    { } options {packetx
    = '\x00'	; u128= ""a	b""  ; }
")).
Eval vm_compute in ("<<<M1803>>>" ++ check (runes_of_ascii "
MetaData leftPad	{ 
chars	MetaDataX,
}
    packet

    repeatCount {
char[255	]

uint8x `" ++ [233]%N ++ runes_of_ascii "`
,}

MetaData pack 
    // c
      {
	As

Foo ,

}

")).
Eval vm_compute in ("<<<M698>>>" ++ check (runes_of_ascii "// @lengthOf(
packet i8i8 { u128 o , }
options { MetaDataX = true;
    BodyLength =""packet"" x_y_z= 007
crc //x
= ""abc"" ;
    msg_type =
i16 i16 }")).
Eval vm_compute in ("<<<M460>>>" ++ check (runes_of_ascii "packet uint8x
{ match pack
    as msg_type	{
    0123456789 :	float
}
,
}  //	t
a1
    { } options {packetx
    = '\x00'	; u128= ""a	b""  ; }
")).
Eval vm_compute in ("<<<M185>>>" ++ check (runes_of_ascii "root packet lengthOf{ @leftPad
    (
' '// c
)
repeat char MetaDataX
,
}MetaData
Pad {
msg_type rootA// trailing space 
`// not a comment`, }")).
Eval vm_compute in ("<<<M524>>>" ++ check (runes_of_ascii "packet uint8x
{ match pack
    as msg_type	{
    0123456789 :	float
}
,
} packet //	t
a1
    { } options {packetx
    = '\x00'	; u128=")).
Eval vm_compute in ("<<<M1741>>>" ++ check (runes_of_ascii "packet	A

    {match 
k  as n
{  [ 1

    ,
	""bb""
	,	007 ,""d"" 
,	5
,""f""

,
7
,
    ""h""
,
9

, ""j""

    ] :  B
	2 :

C
} ,}
")).
Eval vm_compute in ("<<<M1940>>>" ++ check (runes_of_ascii "packet A
	{ match k 
as 
n
	{ [ 1  ,

22
    ,  ""c c"" ,

    4

, 
5 ,""f""  ,  7 ,	8
	, 
""i"" , 10]:	B

2
    :
	C } ,
}

")).
Eval vm_compute in ("<<<M1148>>>" ++ check (runes_of_ascii "MetaData leftPad {
// c
chars MetaDataX , } packet repeatCount { char[ 255 ] uint8x `" ++ [233]%N ++ runes_of_ascii "` , } MetaData pack { As Foo , }")).
Eval vm_compute in ("<<<M1180>>>" ++ check (runes_of_ascii "MetaData leftPad { chars MetaDataX , } packet repeatCount { char[ 255 ] uint8x `" ++ [233]%N ++ runes_of_ascii "` , } MetaData pack
// c
{ As Foo , }")).
Eval vm_compute in ("<<<M893>>>" ++ check (runes_of_ascii "packet A {
  match k as n {
    [""a"", ""bb"", ""c c"", ""d"", ""e"", ""f"", ""g"", ""h"", ""i"", ""j"", ""k""] : B,
    2 : C
  },
}")).
Eval vm_compute in ("<<<M908>>>" ++ check (runes_of_ascii "packet A {
  match k as n {
    [1, ""bb"", 007, ""d"", 5, ""f"", 7, ""h"", 9, ""j"", 11, ""l""] : B,
    2 : C
  },
}")).
Eval vm_compute in ("<<<M895>>>" ++ check (runes_of_ascii "packet A {
  match k as n {
    [1, ""bb"", 007, ""d"", 5, ""f"", 7, ""h"", 9, ""j"", 11] : B,
    2 : C
  },
}")).
Eval vm_compute in ("<<<M932>>>" ++ check (runes_of_ascii "packet A {
    Inner {
        u8 x `
`,
        Deep {
            u8 y `
`,
        },
    },
}")).
Eval vm_compute in ("<<<M615>>>" ++ check (runes_of_ascii "
packet
    asx {match u128 as lengthOf
{
//	t
// `tick` ""quote"" 'q'
255 : x ,
    match ,	}")).
Eval vm_compute in ("<<<M842>>>" ++ check (runes_of_ascii "packet A {
  match k as n {
    [""a"", ""bb"", ""c c"", ""d"", ""e"", ""f"", ""g""] : B
    2 : C
  },
}")).
Eval vm_compute in ("<<<M619>>>" ++ check (runes_of_ascii "
packet
    asx {match u128 as lengthOf
{
//	t
// `tick` ""quote"" 'q'
255 : x ,
    } }	,")).
Eval vm_compute in ("<<<M592>>>" ++ check (runes_of_ascii "
packet
    asx {match u128 as lengthOf
{
//	t
// `tick` ""quote"" 'q'
 : x ,
    } ,	}")).
Eval vm_compute in ("<<<M837>>>" ++ check (runes_of_ascii "packet A {
  match k as n {
    [""a"", ""bb"", 007, ""d"", ""e"", 66] : B
    2 : C
  },
}")).
Eval vm_compute in ("<<<M916>>>" ++ check (runes_of_ascii "packet A { Inner { match k as n { [1,22,007,4,5,66,7,8,9,10,11,12] : B, }, }, }")).
Eval vm_compute in ("<<<M1566>>>" ++ check (runes_of_ascii "packet A {
    @tag(1)
    // a
    @leftPad('0')
    // b
    char[4] x,
}")).
Eval vm_compute in ("<<<M1758>>>" ++ check (runes_of_ascii "
// c
    packet body	{

    i32

f32a	`{ , }`
,

}
    options{  }

")).
Eval vm_compute in ("<<<M851>>>" ++ check (runes_of_ascii "packet A { Inner { match k as n { [1,22,007,4,5,66,7] : B, }, }, }")).
Eval vm_compute in ("<<<M151>>>" ++ check (runes_of_ascii "packet
    stringy
{ } MetaData crc
/// triple
//x
{ u16 o ,}")).
Eval vm_compute in ("<<<M1949>>>" ++ check (runes_of_ascii "root packet P {
    hdr {
        u8 a,
    },
    u8 x,
}")).
Eval vm_compute in ("<<<M1219>>>" ++ check (runes_of_ascii "packet body { i32 f32a `{ , }` , } options { } // c
")).
Eval vm_compute in ("<<<M1085>>>" ++ check (runes_of_ascii "packet A { B { // a
 u8 x, // b
 } // c
 , // d
 }")).
Eval vm_compute in ("<<<M7>>>" ++ check (runes_of_ascii "options {  metadata = ""a\\""// @lengthOf(
;}
")).
Eval vm_compute in ("<<<M1066>>>" ++ check (runes_of_ascii "packet A {
    u8 x,    // c    u8 y,
}")).
Eval vm_compute in ("<<<M1719>>>" ++ check (runes_of_ascii "
packet	A
{

u8	x
	`d" ++ [65279]%N ++ runes_of_ascii "` , // c" ++ [65279]%N ++ runes_of_ascii "
}")).
Eval vm_compute in ("<<<M1890>>>" ++ check (runes_of_ascii "
packet  A
    {

} 
    // c" ++ [6158]%N ++ runes_of_ascii "
")).
Eval vm_compute in ("<<<M1058>>>" ++ check (runes_of_ascii "packet A {
 u8 x `d" ++ [6158]%N ++ runes_of_ascii "`, // c" ++ [6158]%N ++ runes_of_ascii "
}")).
Eval vm_compute in ("<<<M1697>>>" ++ check (runes_of_ascii "packet
A
    { }
	// c" ++ [8192]%N ++ runes_of_ascii "
")).
Eval vm_compute in ("<<<M153>>>" ++ check (runes_of_ascii "// trailing space 

")).
Eval vm_compute in ("<<<M244>>>" ++ check (runes_of_ascii "MetaData u128{} //x")).
Eval vm_compute in ("<<<M1006>>>" ++ check (runes_of_ascii "packet A {
}
// c" ++ [8202]%N)).
Eval vm_compute in ("<<<M729>>>" ++ check (runes_of_ascii "// only a comment")).
Eval vm_compute in ("<<<M409>>>" ++ check (runes_of_ascii "packet uint8x
{")).
Eval vm_compute in ("<<<M749>>>" ++ check ([1; 65533]%N ++ runes_of_ascii ">&EQX" ++ [65533]%N ++ runes_of_ascii "P" ++ [65533; 65533]%N)).
Eval vm_compute in ("<<<M1050>>>" ++ check (runes_of_ascii "// c" ++ [65279]%N)).
