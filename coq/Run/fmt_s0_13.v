From FP Require Import Lexer Parser ShowPT Digest Formatter.
From Coq Require Import String List NArith.
Import ListNotations.
Open Scope string_scope.
Set Printing Width 100000000.
Set Printing Depth 100000000.
Definition show_fres (r : fres) : string :=
  match r with
  | FOk s => "OK:" ++ sh_escaped s ""
  | FErr s => "ERR:" ++ sh_escaped s ""
  | FPanic p => "PANIC:" ++ p
  end.
Definition check (rs : list rune) : string := digest (show_fres (format_res rs)).
Definition full (rs : list rune) : string := show_fres (format_res rs).
Eval vm_compute in ("<<<M1683>>>" ++ check (runes_of_ascii "
root

    packet

A

{ }  packet  int	//
  {
@calculatedFrom( ""a\""b"" )	u32 
x_y_z
	@lengthOf(
u	)	,repeat _x
charz
	`tab	here`
,
stringy
stringy ,@calculatedFrom( """ ++ [28040; 24687]%N ++ runes_of_ascii """
)repeat  
  // `tick` ""quote"" 'q'
  // a // b
	falsey
    {
zchar[ 255 ] 
As	@lengthOf( BodyLength  )
,match  Z9_
	as

As	{ [0123456789
,

    007
,

""a\\""
    , ""\" ++ [233]%N ++ runes_of_ascii """// 50% %s
	  ,""x y"" ,
	3] : i8i8

,}

, 
}  ,
f32a

    { match 
leftPad
	as
    crc	{[ 
""\" ++ [233]%N ++ runes_of_ascii """
	,	// " ++ [128512]%N ++ runes_of_ascii " emoji
	""packet""
,65535

    , ""`tick`"",
""`tick`"" 
, ""a\\""
    ,	""""
    , 
    //x
  ""// no comment""
	    // @lengthOf(

  //	t

  ]	// 50% %s
:
calculatedFrom
""packet""
	:
        // c
	//
	Packet// c
, [ //x
4294967296,

    // c
  4294967296 , //x
	""{,}""
    // " ++ [128512]%N ++ runes_of_ascii " emoji
	// `tick` ""quote"" 'q'
      ] :

    T 
[0
    ,0
, """ ++ [233]%N ++ runes_of_ascii "t" ++ [233]%N ++ runes_of_ascii """
	,

    42
	,

    ""a	b"" , 7]  :tag  3 :	As
, }

,
    char[]
	matchKey `crlf
line` ,	// packet A { u8 x, }
  }  ,
repeat
    zchar[ 
    //	t
    4294967296

]
    As
	, rootA

    T ,
        // @lengthOf(
    // " ++ [128512]%N ++ runes_of_ascii " emoji
    @tag(65535)@calculatedFrom(
    ""{,}""  // a // b
	)  
  /// triple
repeat 	 // @lengthOf(
    i16 Z9_ 
`{ , }`,@calculatedFrom( ""{,}""
) 
len {match	// trailing space 
		u128 //
as	zchar  {  [00	,
    4294967296

    ]  // 50% %s
  :  charz

    , ""a\\"" :  i8i8,""" ++ [233]%N ++ runes_of_ascii "t" ++ [233]%N ++ runes_of_ascii """
	:

    x_y_z  ,	65535 
:	uint8x	,  } 
,

    repeat
	leftPad
	{
f32 u128 @lengthOf( As

    ),
	body
    `" ++ [28040; 24687; 31867; 22411]%N ++ runes_of_ascii "`  ,	rootA 	 // @lengthOf(
  Pad 
, } 
,char[ 00

    ]msg_type
	`say ""hi""` // `tick` ""quote"" 'q'
  , 
      /// triple

	zchar[ 	 // @lengthOf(
	  0123456789
]
    falsey ,
    // " ++ [27880; 37322]%N ++ runes_of_ascii "
    	}

    ,
repeat int

    `a\`  ,
}
    root 
packet

f32a
{ int8 Header `` ,}")).
Eval vm_compute in ("<<<M382>>>" ++ check (runes_of_ascii "options {
    StringPrefixLenType = u16;
    ArrayPrefixLenType = u16;
}

packet SampleBinary {
    uint16 MsgType `" ++ [28040; 24687; 31867; 22411]%N ++ runes_of_ascii "`,
    u16 BodyLenght @lengthOf(Body) `" ++ [28040; 24687; 20307; 38271; 24230]%N ++ runes_of_ascii "`,
    match MsgType as Body {
        1 : Logon,
        2 : Logout,
        3 : Heartbeat,
        4 : RiskControlRequest,
        5 : RiskControlResponse,
    },
    @calculatedFrom(""CRC32"")
    u32 Ckecksum `" ++ [26657; 39564; 21644]%N ++ runes_of_ascii "`,
}

packet Logon {
    @leftPad('0')
    char[10] UserName `" ++ [29992; 25143; 21517]%N ++ runes_of_ascii "`,
    string Password `" ++ [23494; 30721]%N ++ runes_of_ascii "`,
    uint64 ClientId `" ++ [23458; 25143; 31471]%N ++ runes_of_ascii "ID`,
    u16 HeartbeatInterval `" ++ [24515; 36339; 38388; 38548]%N ++ runes_of_ascii "`,
}

packet Logout {
    @rightPad('0')
    char[10] UserName `" ++ [29992; 25143; 21517]%N ++ runes_of_ascii "`,
    uint64 ClientId `" ++ [23458; 25143; 31471]%N ++ runes_of_ascii "ID`,
}

packet Heartbeat {
}

packet RiskControlRequest {
    string UniqueOrderId `" ++ [21807; 19968; 35746; 21333; 21495]%N ++ runes_of_ascii "`,
    char[16] ClOrdID `" ++ [23458; 25143; 35746; 21333; 21495]%N ++ runes_of_ascii "`,
    char[3] MarketID `" ++ [24066; 22330]%N ++ runes_of_ascii "id`,
    char[12] SecurityID `" ++ [35777; 21048; 20195; 30721]%N ++ runes_of_ascii "`,
    char Side `" ++ [20080; 21334; 26041; 21521]%N ++ runes_of_ascii "`,
    char OrderType `" ++ [35746; 21333; 31867; 22411]%N ++ runes_of_ascii "`,
    u64 Price `" ++ [20215; 26684]%N ++ runes_of_ascii "`,
    u32 Qty `" ++ [25968; 37327]%N ++ runes_of_ascii "`,
    repeat string ExtraInfo `" ++ [38468; 21152; 20449; 24687]%N ++ runes_of_ascii "`,
    repeat SubOrder {
        char[16] ClOrdID `" ++ [23376; 35746; 21333; 21495]%N ++ runes_of_ascii "`,
        u64 Price `" ++ [23376; 35746; 21333; 20215; 26684]%N ++ runes_of_ascii "`,
        u32 Qty `" ++ [23376; 35746; 21333; 25968; 37327]%N ++ runes_of_ascii "`,
    },
}

packet RiskControlResponse {
    string UniqueOrderId `" ++ [21807; 19968; 35746; 21333; 21495]%N ++ runes_of_ascii "`,
    i32 Status `" ++ [29366; 24577]%N ++ runes_of_ascii "`,
    string Msg `" ++ [32467; 26524; 20449; 24687]%N ++ runes_of_ascii "`,
    repeat Detail,
}

packet Detail {
    string RuleName `" ++ [35268; 21017; 21517; 31216]%N ++ runes_of_ascii "`,
    u16 Code `" ++ [21407; 22240; 20195; 30721]%N ++ runes_of_ascii "`,
}")).
Eval vm_compute in ("<<<M326>>>" ++ check (runes_of_ascii "root packet Logon // packet A { u8 x, }
{ calculatedFrom calculatedFrom
    `it's` ,}  packet	calculatedFrom { @rightPad ( )string
u // a // b
@calculatedFrom(""packet"" )
, @leftPad	('\x00')@tag( 1 ) @tag( 3 ) Packet{ string_	pack , As @calculatedFrom( ""a\""b"" ) `doc` , repeat
msg_type
    metadata ,
// trailing space 
//x
} , _x
`" ++ [233]%N ++ runes_of_ascii "` ,
zchar[
3
]  MetaDataX // `tick` ""quote"" 'q'
, repeat string asx
`say ""hi""` ,
    @lengthOf(
trueish // " ++ [27880; 37322]%N ++ runes_of_ascii "
)@lengthOf(uint8x
    )	@rightPad
    (
// " ++ [128512]%N ++ runes_of_ascii " emoji
//
)char[ 0123456789 ]T`" ++ [28040; 24687; 31867; 22411]%N ++ runes_of_ascii "` ,}/// triple
packet x { @rightPad ( )
    @calculatedFrom(// @lengthOf(
""it's"" )
@tag(
    // " ++ [27880; 37322]%N ++ runes_of_ascii "
    42 ) packetx
falsey ,  char[ 1] body ,
    @calculatedFrom( """ ++ [28040; 24687]%N ++ runes_of_ascii """ )tag @calculatedFrom( ""\" ++ [233]%N ++ runes_of_ascii """ ) ,Packet `100% of %d`/// triple
,
    //x
    @tag(255 ) float32
body @calculatedFrom(
""abc""
// packet A { u8 x, }
// " ++ [27880; 37322]%N ++ runes_of_ascii "
) ,
char f32a , @lengthOf( u ) repeat
    int32 a1	,@tag( 4294967296 )	f32 o @calculatedFrom(
    ""\n"" )`tab	here` , char[] calculatedFrom  `two words` ,
calculatedFrom @lengthOf(
// packet A { u8 x, }
// trailing space 
matchKey ) , }
")).
Eval vm_compute in ("<<<M1355>>>" ++ check (runes_of_ascii "options {
    LittleEndian = true;
    StringPrefixLenType = u8;
    ArrayPrefixLenType = u8;
    FixedStringPadFromLeft = true;
    FixedStringPadChar = '0';
}
packet Logon {
    repeat i8 Ref,
    @rightPad('0') char[8] msgKind,
    repeat InOrderid72 {
        u8 Side2,
        uint32 Qty,
        repeat InPrice27 {
            repeat char[4] Acct,
            u64 sym,
        },
        zchar[4] clOrdID,
        int16 lastPx,
        InAcct22 {
            repeat char[3] OrderId,
        },
    },
    int64 Px,
}
packet Fill {
    uint16 Qty,
    repeat char[1] Flags,
    i8 Ref,
}
packet Logout {
    @leftPad('0') char[3] x,
    int8 f1,
    Logon,
    uint16 venue,
    zchar[2] Px,
}
packet Reject {
}
root packet Leg {
    Fill,
    u16 msgKind,
    match msgKind as Body {
        [182, 83] : Fill,
        199 : Reject,
        137 : Logout,
        35 : Logon,
    },
    u32 lastPx @calculatedFrom(""CR\
C32""),
}
")).
Eval vm_compute in ("<<<M1966>>>" ++ check (runes_of_ascii "// a // b
root packet uint8x {
    repeat x {
        tag @calculatedFrom(""// no comment"") `it's`,
    },
    //x
    A @calculatedFrom(""abc""),
    uint64 zchar,
    //	t
    //	t
    zchar[7] msg_type,
    @calculatedFrom(""" ++ [28040; 24687]%N ++ runes_of_ascii """)
    crc,
    // `tick` ""quote"" 'q'
    f32a Pad,
    Header,// trailing space 
    zchar[42] x @calculatedFrom(""\n"") `" ++ [28040; 24687; 31867; 22411]%N ++ runes_of_ascii "`,
    string len,
}

packet falsey {
    // " ++ [27880; 37322]%N ++ runes_of_ascii "
    i64_ @calculatedFrom(""{,}""),
    repeat string chars,
    // `tick` ""quote"" 'q'
    zchar[7] calculatedFrom,
    Header {
        char u `crlf
                line`,
        repeat char[] tag `a\`,
        Z9_ @lengthOf(T) `say ""hi""`,
    },
    /// triple
    // " ++ [27880; 37322]%N ++ runes_of_ascii "
    msg_type @calculatedFrom(""// no comment""),
    @rightPad('\x00')
    @lengthOf(asx)
    falsey,
}// a // b")).
Eval vm_compute in ("<<<M1323>>>" ++ check (runes_of_ascii "// top
options // c0
{ // c1a
  // c1b
FixedStringPadChar
    // c2
= // c3
'0'
    // c4
; // c5a
  // c5b
} packet // c7a
  // c7b
Q
    // c8
{ // c9a
  // c9b
zchar[ // c10a
  // c10b
4 // c11a
  // c11b
] // c12
z // c13a
  // c13b
, // c14
@rightPad // c15
( // c16a
  // c16b
'\x00' // c17
) char[ 3 // c20
]
    // c21
n
    // c22
, // c23a
  // c23b
char[ // c24a
  // c24b
5
    // c25
] // c26
d // c27
, // c28a
  // c28b
} // c29a
  // c29b
root packet R // c32
{ // c33a
  // c33b
Q
    // c34
,
    // c35
zchar[
    // c36
8 // c37a
  // c37b
] top // c39a
  // c39b
, // c40a
  // c40b
repeat // c41
zchar[ // c42a
  // c42b
2 ] // c44
zs , // c46
} // c47
")).
Eval vm_compute in ("<<<M1615>>>" ++ check (runes_of_ascii "MetaData Pad {
    u32 u128 `doc`,
    char[] len `a\`,
    Header tag,
    u8 repeatCount `tab	here`,/// triple
    Pad int,
}

packet len {
    //x
    /// triple
    As {
        pack _x `
        `,
        asx {
            //
            string calculatedFrom @lengthOf(MetaDataX),
            stringy u8x,
            char[255] MetaDataX @calculatedFrom(""""),
        },
        calculatedFrom {
            string_ len,
        },
        Header @lengthOf(charz),
    },
}

// " ++ [27880; 37322]%N ++ runes_of_ascii "
// " ++ [128512]%N ++ runes_of_ascii " emoji
options {
    // c
    // a // b
}

options {
    packetx = ""`tick`"";/// triple
    i64_ = ' ';
}")).
Eval vm_compute in ("<<<M1742>>>" ++ check (runes_of_ascii "packet x {
    @lengthOf(options1)
    uint8 MetaDataX `// not a comment`,
    packetx,
    @tag(42)
    _x @calculatedFrom(""abc"") `" ++ [28040; 24687; 31867; 22411]%N ++ runes_of_ascii "`,
    @lengthOf(stringy)
    string trueish `
    `,
    o stringy `{ , }`,
    zchar[007] Logon,// 50% %s
    @rightPad('\x00')
    repeat lengthOf {
        char[65535] u128,
        int8 A,
        body {
            match x as options1 {
                7 : roots,
                // " ++ [128512]%N ++ runes_of_ascii " emoji
                ""CRC32"" : i8i8,
            },
        },
    },
}

//	t
packet As {
}// @lengthOf(")).
Eval vm_compute in ("<<<M187>>>" ++ check (runes_of_ascii "  packet matchKey
    { @tag( 4294967296) lengthOf`{ , }`
, //x
repeat BodyLength u8x
    ,  @tag(  007 )
    // packet A { u8 x, }
    match o as int	{ [ /// triple
""a\""b""
]: Header , } ,@tag( // @lengthOf(
1 )repeat /// triple
u128
    // @lengthOf(
    {
    repeat
    metadata
float	`
` , } //
, @calculatedFrom(
""""
    )@tag( 4294967296
    // a // b
    ) @tag(  7 ) i64_ Logon ,
    // " ++ [27880; 37322]%N ++ runes_of_ascii "
    @rightPad (  '\x00' //x
)  @calculatedFrom(
""\" ++ [233]%N ++ runes_of_ascii """ )
    @rightPad ( //	t
'0' ) i32 roots ,	}")).
Eval vm_compute in ("<<<M1813>>>" ++ check (runes_of_ascii "packet 	 // a // b
	u8x{// trailing space 
    repeat roots
{ zchar[42
	] 
	    // 50% %s
	// a // b
  u 
@lengthOf( i64_)	`line1
line2`

, f64
    Packet ``
	, zchar[

4294967296
    ]
	msg_type ,}

, }root
	packet
rootA  {
	@calculatedFrom(
""// no comment""
    )
@calculatedFrom(	// " ++ [128512]%N ++ runes_of_ascii " emoji
    """ ++ [233]%N ++ runes_of_ascii "t" ++ [233]%N ++ runes_of_ascii """ )match
	body

    as  Foo
	    /// triple

{	10  :
    a1
}
,
@tag(
42 )  @calculatedFrom(
""1""

) repeat 
int64 float `u8 x,`	,
}

")).
Eval vm_compute in ("<<<M1610>>>" ++ check (runes_of_ascii "// top
options {
    // c1
}// c2

MetaData packetx {
    // c5
    int falsey `two words`,// c9
    int32 trueish,// c12
    char[] u8x,// c15
    A x `// not a comment`,// c19
}// c20

root packet i8i8 {
    // c24
    @lengthOf(repeatCount)
    // c27
    @tag(1)
    // c30
    @calculatedFrom(""a	b"")
    // c33
    string stringy @calculatedFrom(""\n"") `line1
        line2`,// c40
    pack `100% of %d`,// c43
}// c44")).
Eval vm_compute in ("<<<M84>>>" ++ check (runes_of_ascii "
options
{T = """ ++ [28040; 24687]%N ++ runes_of_ascii """ ; string_
// @lengthOf(
// 50% %s
=
false; f32a
    = 0123456789 ; Z9_ = 255} MetaData
chars // " ++ [27880; 37322]%N ++ runes_of_ascii "
{ float32	charz
    `{ , }` ,// @lengthOf(
zchar[
    1
] u8x`100% of %d`
, uint16 asx `two words`
,
    char[ 4294967296 ]	Header
    , i32 Logon , char[
0123456789 ]// c
crc, } packet /// triple
options1 { falsey	`crlf
line`
,
// `tick` ""quote"" 'q'
/// triple
}")).
Eval vm_compute in ("<<<M1360>>>" ++ check (runes_of_ascii "options {
    LittleEndian = true;
    StringPrefixLenType = u16;
    ArrayPrefixLenType = u16;
    FixedStringPadFromLeft = true;
    FixedStringPadChar = '0';
}
packet Leg {
    u16 Flags,
    u8 price,
}
packet Quote {
    uint16 count,
    InNote89 {
        repeat Leg,
    },
}
root packet Ack {
    char[3] price,
    u64 sym,
    zchar[1] Tail,
}
")).
Eval vm_compute in ("<<<M1329>>>" ++ check (runes_of_ascii "// top
packet
    // c0
FooBar // c1
{
    // c2
u8 // c3a
  // c3b
a
    // c4
, // c5
}
    // c6
packet // c7
foo_bar // c8a
  // c8b
{ // c9
u16 b // c11a
  // c11b
, // c12a
  // c12b
}
    // c13
root
    // c14
packet
    // c15
R // c16
{ FooBar // c18
, // c19a
  // c19b
foo_bar // c20
, // c21
} // c22
")).
Eval vm_compute in ("<<<M1927>>>" ++ check (runes_of_ascii "
options{

LittleEndian =
    true
;
} packet 
Sub {

    u8 a ,
    u16 SubSum
@calculatedFrom(
""CRC16""
),} root
    packet 
Frame

{u16 MsgType
	,

u16

BodyLen@lengthOf( 
Body
	) 
,

    Sub  Body
	,
    string
note

, u16
Checksum
	@calculatedFrom(

""CRC16""	) 
,	u8 tail	,  }")).
Eval vm_compute in ("<<<M1877>>>" ++ check (runes_of_ascii "packet rootA {
    match BodyLength as A {
        42 : leftPad,
        1 : u8x,
        [10, """ ++ [128512]%N ++ runes_of_ascii """] : i8i8,
        7 : u8x,
        007 : trueish,
        // c
    },
    o uint8x,
    repeat zchar[7] pack,
    string x_y_z @lengthOf(charz) `
        `,
}// c")).
Eval vm_compute in ("<<<M439>>>" ++ check (runes_of_ascii "packet
    asx { @calculatedFrom(
""""  ) @tag( 255 )repeat
// packet A { u8 x, }
// trailing space 
`tab	here` u8x
,
@tag(
    //
    007 )
    @tag( 0
    /// triple
    ) @tag( 1) u
    @lengthOf( T ),
// `tick` ""quote"" 'q'
//x
} // " ++ [128512]%N ++ runes_of_ascii " emoji")).
Eval vm_compute in ("<<<M414>>>" ++ check (runes_of_ascii "packet
    asx { @calculatedFrom(
""""  i8 @tag( 255 )repeat
// packet A { u8 x, }
// trailing space 
int16 u8x
,
@tag(
    //
    007 )
    @tag( 0
    /// triple
    ) @tag( 1) u
    @lengthOf( T ),
// `tick` ""quote"" 'q'
//x
} // " ++ [128512]%N ++ runes_of_ascii " emoji")).
Eval vm_compute in ("<<<M463>>>" ++ check (runes_of_ascii "packet
    asx { @calculatedFrom(
""""  ) @tag( 255 )repeat
// packet A { u8 x, }
// trailing space 
int16 u8x
,
@tag(
    //
    007 @tag(
    ) 0
    /// triple
    ) @tag( 1) u
    @lengthOf( T ),
// `tick` ""quote"" 'q'
//x
} // " ++ [128512]%N ++ runes_of_ascii " emoji")).
Eval vm_compute in ("<<<M511>>>" ++ check (runes_of_ascii "packet
    asx { @calculatedFrom(
""""  ) @tag( 255 )repeat
// packet A { u8 x, }
// trailing space 
int16 u8x
,
@tag(
    //
    007 )
    @tag( 0
    /// triple
    ) @tag( 1) u
    @lengthOf( T ,
// `tick` ""quote"" 'q'
//x
} // " ++ [128512]%N ++ runes_of_ascii " emoji")).
Eval vm_compute in ("<<<M1314>>>" ++ check (runes_of_ascii "// top
packet
    // c0
order_item // c1
{ // c2a
  // c2b
u8 // c3a
  // c3b
a // c4a
  // c4b
, // c5
} root packet new_order {
    // c10
order_item // c11
, // c12
u8 // c13a
  // c13b
x
    // c14
, } // c16a
  // c16b
")).
Eval vm_compute in ("<<<M284>>>" ++ check (runes_of_ascii "packet roots {
f64	u @calculatedFrom( ""a\\"" ) , @tag( 1	) zchar[ 0
    ]	stringy @lengthOf( u ) //	t
,} MetaData
    body
    // trailing space 
    {	BodyLength tag	,
u32 MetaDataX , // @lengthOf(
}")).
Eval vm_compute in ("<<<M1603>>>" ++ check (runes_of_ascii "packet A {
    Inner {
        u8 x `a
                
                b`,
        Deep {
            u8 y `a
                        
                        b`,
        },
    },
}")).
Eval vm_compute in ("<<<M1630>>>" ++ check (runes_of_ascii "

  MetaData

crc 
      // " ++ [128512]%N ++ runes_of_ascii " emoji
  { packetx	repeatCount, f32a

As	//x
	`line1
line2`	,
    crc
len `line1
line2`
	,
zchar[
0123456789 
]uint8x , zchar[0

    ] As ,} ")).
Eval vm_compute in ("<<<M701>>>" ++ check (runes_of_ascii "MetaData u
    { } MetaData o
{ float uint8x
`100% of %d` ,repeatCount u8x, string_ leftPad
, i32
    Foo , int64 x `two words` , calculatedFrom
stringy `a\` ,
'1'}
")).
Eval vm_compute in ("<<<M703>>>" ++ check (runes_of_ascii "MetaData u
    { } MetaData o
{ float uint8x
`100% of %d` ,repeatCount u8x, string_ leftPad
, i32
    Foo , int64 x `two wor`ds` , calculatedFrom
stringy `a\` ,
}
")).
Eval vm_compute in ("<<<M648>>>" ++ check (runes_of_ascii "MetaData u
    { } MetaData o
{ float uint8x
`100% of %d` ,repeatCount u8x, string_ leftPad
, i32
    Foo , x int64 `two words` , calculatedFrom
stringy `a\` ,
}
")).
Eval vm_compute in ("<<<M1864>>>" ++ check (runes_of_ascii "packet A {
    match k as n {
        [
            1, 22, ""c c"", 4, 5,
            ""f"", 7, 8, ""i"", 10,
            11, ""l""
        ] : B,
        2 : C,
    },
}")).
Eval vm_compute in ("<<<M566>>>" ++ check (runes_of_ascii "MetaData u
    { }  o
{ float uint8x
`100% of %d` ,repeatCount u8x, string_ leftPad
, i32
    Foo , int64 x `two words` , calculatedFrom
stringy `a\` ,
}
")).
Eval vm_compute in ("<<<M1738>>>" ++ check (runes_of_ascii "MetaData
	uint8x{	char
msg_type `two words` ,char[3
    ]
	chars
	`say ""hi""` ,
	zchar[
    007]  zchar
	, 
    // " ++ [128512]%N ++ runes_of_ascii " emoji
	}// `tick` ""quote"" 'q'
")).
Eval vm_compute in ("<<<M470>>>" ++ check (runes_of_ascii "packet
    asx { @calculatedFrom(
""""  ) @tag( 255 )repeat
// packet A { u8 x, }
// trailing space 
int16 u8x
,
@tag(
    //
    007 )")).
Eval vm_compute in ("<<<M1669>>>" ++ check (runes_of_ascii "packet
A {

match
	k

as  n
	{[ 
""a""  , 
""bb""
,
    ""c c""
, ""d"" ,
    ""e""
, ""f""
,""g""
	,
	""h""  ]
    :
	B 2  :
    C
    }
, 
} ")).
Eval vm_compute in ("<<<M1330>>>" ++ check (runes_of_ascii "  packet FooBar
    {
	u8
a,

}

    packet  foo_bar
{
	u16 b,
}

    root
    packet 
R

{ FooBar
,

foo_bar
	, }
")).
Eval vm_compute in ("<<<M1201>>>" ++ check (runes_of_ascii "// c
options { } options { MetaDataX = char ; } MetaData Pad { i8 metadata , string stringy , int8 As `{ , }` , }")).
Eval vm_compute in ("<<<M1234>>>" ++ check (runes_of_ascii "options { } options { MetaDataX = char ; } MetaData Pad { i8 metadata ,
// c
string stringy , int8 As `{ , }` , }")).
Eval vm_compute in ("<<<M450>>>" ++ check (runes_of_ascii "packet
    asx { @calculatedFrom(
""""  ) @tag( 255 )repeat
// packet A { u8 x, }
// trailing space 
int16 u8x")).
Eval vm_compute in ("<<<M910>>>" ++ check (runes_of_ascii "packet A {
  match k as n {
    [1, 22, ""c c"", 4, 5, ""f"", 7, 8, ""i"", 10, 11, ""l""] : B,
    2 : C
  },
}")).
Eval vm_compute in ("<<<M1682>>>" ++ check (runes_of_ascii "
packet A

    { match

    k as
    n{
[
1 ,
	22 ,
    007 
,	4 
, 5 ]
	:
B
,

2	:
C
}
,	}

")).
Eval vm_compute in ("<<<M1803>>>" ++ check (runes_of_ascii "packet A {
    match k as n {
        [""a"", ""bb"", ""c c"", ""d"", ""e""] : B,
        2 : C,
    },
}")).
Eval vm_compute in ("<<<M856>>>" ++ check (runes_of_ascii "packet A {
  match k as n {
    [""a"", 22, ""c c"", 4, ""e"", 66, ""g"", 8] : B,
    2 : C
  },
}")).
Eval vm_compute in ("<<<M1593>>>" ++ check (runes_of_ascii "packet A {
    match k as n {
        [""a"", 22, ""c c"", 4] : B,
        2 : C,
    },
}")).
Eval vm_compute in ("<<<M830>>>" ++ check (runes_of_ascii "packet A {
  match k as n {
    [""a"", 22, ""c c"", 4, ""e"", 66] : B,
    2 : C
  },
}")).
Eval vm_compute in ("<<<M817>>>" ++ check (runes_of_ascii "packet A {
  match k as n {
    [""a"", 22, ""c c"", 4, ""e""] : B,
    2 : C
  },
}")).
Eval vm_compute in ("<<<M1140>>>" ++ check (runes_of_ascii "// top
root
    // c0
packet // c1
a1 // c2a
  // c2b
{ } // c4a
  // c4b
")).
Eval vm_compute in ("<<<M795>>>" ++ check (runes_of_ascii "packet A {
  match k as n {
    [""a"", ""bb"", 007] : B,
    2 : C
  },
}")).
Eval vm_compute in ("<<<M1301>>>" ++ check (runes_of_ascii "root packet P {
    u8 s_u8,
    repeat u8 r_u8,
    u16 b_len,
}
")).
Eval vm_compute in ("<<<M605>>>" ++ check (runes_of_ascii "MetaData u
    { } MetaData o
{ float uint8x
`100% of %d` ,")).
Eval vm_compute in ("<<<M1445>>>" ++ check (runes_of_ascii "root packet A {
    u8 x `a
            b
          c`,
}")).
Eval vm_compute in ("<<<M1957>>>" ++ check (runes_of_ascii "
packet A {
    u8 
x
,// a
      // b
u8

y,
}
")).
Eval vm_compute in ("<<<M1865>>>" ++ check (runes_of_ascii "MetaData i8i8 {
    // a // b
    int8 As,
}")).
Eval vm_compute in ("<<<M74>>>" ++ check (runes_of_ascii "packet
// 50% %s
//
len { uint8x A , }")).
Eval vm_compute in ("<<<M1185>>>" ++ check (runes_of_ascii "options { // c
A = ""// no comment"" }")).
Eval vm_compute in ("<<<M1928>>>" ++ check (runes_of_ascii "packet A {
    u8 x `d x`,// c x
}")).
Eval vm_compute in ("<<<M957>>>" ++ check (runes_of_ascii "packet A {
    u8 x `tab
	x`,
}")).
Eval vm_compute in ("<<<M174>>>" ++ check (runes_of_ascii "packet T  { string pack , }
")).
Eval vm_compute in ("<<<M220>>>" ++ check (runes_of_ascii "packet Packet
    { } 	 ")).
Eval vm_compute in ("<<<M1520>>>" ++ check (runes_of_ascii "// c" ++ [6158]%N ++ runes_of_ascii "
  packet  A {	}
")).
Eval vm_compute in ("<<<M1010>>>" ++ check (runes_of_ascii "packet A {
}
// c" ++ [133]%N)).
Eval vm_compute in ("<<<M1174>>>" ++ check (runes_of_ascii "packet x { }
// c
")).
Eval vm_compute in ("<<<M212>>>" ++ check (runes_of_ascii "options {
    }
")).
Eval vm_compute in ("<<<M555>>>" ++ check (runes_of_ascii "MetaData")).
Eval vm_compute in ("<<<M734>>>" ++ check (runes_of_ascii " " ++ [12]%N ++ runes_of_ascii " ")).
