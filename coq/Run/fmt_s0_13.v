From FP Require Import Lexer Parser ShowPT Digest Formatter.
From Coq Require Import String List NArith.
Import ListNotations.
Open Scope string_scope.
Set Printing Width 100000000.
Set Printing Depth 100000000.
Definition show_fres (r : fres) : string :=
  match r with
  | FOk s => "OK:" ++ sh_escaped s ""
  | FErr s => "ERR:" ++ sh_escaped s ""
  | FPanic p => "PANIC:" ++ p
  end.
Definition check (rs : list rune) : string := digest (show_fres (format_res rs)).
Definition full (rs : list rune) : string := show_fres (format_res rs).
Eval vm_compute in ("<<<M1389>>>" ++ check (runes_of_ascii "options { // c1
LittleEndian // c2a
  // c2b
= // c3a
  // c3b
true ;
    // c5
StringPrefixLenType // c6a
  // c6b
= u32 ; // c9a
  // c9b
ArrayPrefixLenType = u8
    // c12
; } // c14a
  // c14b
packet // c15
Heartbeat // c16a
  // c16b
{
    // c17
string
    // c18
msgKind
    // c19
, // c20a
  // c20b
} // c21a
  // c21b
packet // c22
Logon
    // c23
{ repeat
    // c25
Heartbeat // c26a
  // c26b
, // c27a
  // c27b
repeat // c28
string // c29
Px // c30a
  // c30b
, // c31
uint8 // c32a
  // c32b
Tail
    // c33
, char[]
    // c35
f1 // c36a
  // c36b
,
    // c37
} packet
    // c39
Cancel // c40
{ // c41a
  // c41b
zchar[ // c42a
  // c42b
4
    // c43
] OrderId // c45a
  // c45b
,
    // c46
Logon
    // c47
,
    // c48
repeat InMsgkind98
    // c50
{ // c51
repeat // c52a
  // c52b
u8 // c53a
  // c53b
tag7 , // c55
repeat
    // c56
InFlags69 // c57
{ // c58a
  // c58b
char[]
    // c59
Note // c60
, // c61a
  // c61b
char[] lastPx // c63a
  // c63b
, // c64a
  // c64b
char[ 11 ] // c67
Ref ,
    // c69
Logon
    // c70
, // c71
} // c72
, // c73a
  // c73b
repeat // c74
Heartbeat ,
    // c76
} // c77
, // c78a
  // c78b
zchar[ // c79
7
    // c80
] // c81a
  // c81b
Px
    // c82
, // c83
u32 seqNo ,
    // c86
} // c87
root
    // c88
packet Reject // c90
{ i16 // c92a
  // c92b
tag7 // c93
,
    // c94
char[
    // c95
3 // c96a
  // c96b
] // c97
Qty // c98a
  // c98b
, // c99a
  // c99b
InRef42 { u8 pad0 // c103a
  // c103b
,
    // c104
} // c105
,
    // c106
uint32 // c107a
  // c107b
f1 // c108a
  // c108b
,
    // c109
zchar[ // c110
7 ] OrderId , // c114a
  // c114b
zchar[ // c115a
  // c115b
8 // c116
] x ,
    // c119
} ")).
Eval vm_compute in ("<<<M1675>>>" ++ check (runes_of_ascii "  options { packetx 	 /// triple
	  =42
;	}  root packet 
falsey{ @tag(  1 )
	crc {	repeat 
char[007

] charz	// 50% %s
	  `it's`
	,repeat
u8  len `
`
    ,
	crc
trueish 
,
}
	,	match
float  as

string_
{	""x y"" 
:  
      // " ++ [27880; 37322]%N ++ runes_of_ascii "
	  //
zchar ,""" ++ [128512]%N ++ runes_of_ascii """
	    // " ++ [128512]%N ++ runes_of_ascii " emoji
	  : string_ 
// trailing space 
  	// @lengthOf(
  ,
""CRC32""
	:

options1 ,  [ ""1"" 	 // c
  ]:	crc  ,

""packet""	// " ++ [27880; 37322]%N ++ runes_of_ascii "
	:
options1	,
	[	42,	""a	b""
    , 
      // trailing space 
    """ ++ [233]%N ++ runes_of_ascii "t" ++ [233]%N ++ runes_of_ascii """	/// triple

	,
""abc""

    ,

0123456789
,

    ""{,}""
,	// trailing space 
	  00 , """ ++ [233]%N ++ runes_of_ascii "t" ++ [233]%N ++ runes_of_ascii """// packet A { u8 x, }
    ]:
asx
}
	,repeat f64 charz  , @tag(10  )repeat
charz

Logon

,
	@lengthOf(

u8x )
@calculatedFrom(""a\""b"")
	@rightPad// @lengthOf(
	(
' '
) 
u8 
a1	`u8 x,` ,
}
	packet falsey
{ repeat
    char[]zchar
, @tag(255
    ) @calculatedFrom(
	""`tick`"" )char[] asx 
`say ""hi""`
	,	u8
	As 
`u8 x,` , 	 // 50% %s
  zchar[

00	]
    uint8x	@lengthOf(// packet A { u8 x, }
  zchar  )
	,
char[  255  ]	uint8x ,
    Pad	@lengthOf(

    // packet A { u8 x, }
  _x )
`" ++ [233]%N ++ runes_of_ascii "`
    , _x 
,
@rightPad (  ' '

    )uint16
    BodyLength/// triple
  ,	@lengthOf(
	int  // " ++ [128512]%N ++ runes_of_ascii " emoji
  )
metadata
tag
	,
	int64 string_  `
` , 
} root

    packet

    o
{ } options // packet A { u8 x, }

  {
} ")).
Eval vm_compute in ("<<<M1593>>>" ++ check (runes_of_ascii "packet falsey {
    /// triple
    string i8i8 @calculatedFrom(""a\\""),// " ++ [128512]%N ++ runes_of_ascii " emoji
    @calculatedFrom(""" ++ [233]%N ++ runes_of_ascii "t" ++ [233]%N ++ runes_of_ascii """)
    repeat a1,
}

options {
    falsey = 0
    // packet A { u8 x, }
    // c
    Foo = ""\" ++ [233]%N ++ runes_of_ascii """;
}

root packet packetx {
    metadata @lengthOf(asx),
    // @lengthOf(
    //	t
    char[] BodyLength @calculatedFrom(""" ++ [233]%N ++ runes_of_ascii "t" ++ [233]%N ++ runes_of_ascii """) `" ++ [233]%N ++ runes_of_ascii "`,
    metadata {
        repeat rootA i64_ `a\`,
        u8x chars,
        repeat int64 string_ `{ , }`,
    },
    @tag(4294967296)
    u64 tag @lengthOf(pack),// `tick` ""quote"" 'q'
    u128 Z9_ ``,
    repeat i16 lengthOf,
    @calculatedFrom(""`tick`"")
    // `tick` ""quote"" 'q'
    // @lengthOf(
    repeat char[00] Packet `it's`,
    uint16 Pad,
    @calculatedFrom(""a\\"")
    match int as pack {
        00 : u,
        [""x y""] : asx,
        """ ++ [28040; 24687]%N ++ runes_of_ascii """ : string_,
        // trailing space 
        1 : Pad,
    },
    @calculatedFrom(""" ++ [233]%N ++ runes_of_ascii "t" ++ [233]%N ++ runes_of_ascii """)
    roots @calculatedFrom(""// no comment""),
}

packet zchar {
    // 50% %s
    @leftPad( '0' )
    T `line1
    line2`,
}")).
Eval vm_compute in ("<<<M28>>>" ++ check (runes_of_ascii "options {
Foo =
true ; len = '\x00'
asx =
'0' ; asx = // packet A { u8 x, }
3 ;
// " ++ [128512]%N ++ runes_of_ascii " emoji
//
} //	t
packet	u128{
    uint8 crc `doc`,
    Z9_ ,repeat
i8 roots,	@lengthOf( crc) repeat As `two words` , zchar[	007 ]
    //x
    tag `// not a comment` ,} packet pack// c
{ string msg_type ,@calculatedFrom(	""""	)
    repeat string
tag`u8 x,`
    ,int16 leftPad ,
@tag(1
    // " ++ [27880; 37322]%N ++ runes_of_ascii "
    ) crc ,}
/// triple
// a // b
root packet packetx {
@rightPad
(	'0'	) float64 o
    // a // b
    `two words`
,
repeat //	t
string_
    crc , i64
    As`line1
line2` ,@lengthOf( rootA //
)
u32
Logon @lengthOf(a1
) , @calculatedFrom(""""
    ) @leftPad
//x
// @lengthOf(
(' '
) uint16 i8i8
@calculatedFrom( ""// no comment"") , repeat char[]a1
, u128 {
// packet A { u8 x, }
// trailing space 
falsey @lengthOf( pack ) , int16
packetx ,
i64_ @calculatedFrom(""\" ++ [233]%N ++ runes_of_ascii """
    ) `{ , }`
    // " ++ [27880; 37322]%N ++ runes_of_ascii "
    , int64 i8i8 `a\`,
    }
, }")).
Eval vm_compute in ("<<<M1383>>>" ++ check (runes_of_ascii "options {
    ArrayPrefixLenType = u32;
    FixedStringPadFromLeft = false;
    FixedStringPadChar = '0';
}
packet Trade {
    repeat InVenue78 {
        u16 tag7,
        repeat InLastpx9 {
            u8 pad0,
        },
        int64 Tail,
        repeat InQty37 {
            char[2] OrderId,
            zchar[6] lastPx,
            int64 Qty,
        },
        uint8 Side2,
    },
}
packet Logon {
    repeat string venue,
    @rightPad('\x00') char[3] sym,
    zchar[9] count,
    zchar[7] f1,
    Trade,
}
packet Logout {
}
root packet Reject {
    int32 sym,
    u8 Px,
    u32 Tail @lengthOf(Body),
    match Px as Body {
        184 : Trade,
        173 : Logon,
        12 : Logout,
    },
    u32 tag7 @calculatedFrom(""CR\
C32""),
}
")).
Eval vm_compute in ("<<<M165>>>" ++ check (runes_of_ascii "packet Pad { match
string_
as
// c
// `tick` ""quote"" 'q'
asx
{ 7 : len 3 : lengthOf
,[1
    ]:
charz
""{,}""
:
    string_
, ""\n"" :
tag	,}
    , @calculatedFrom( ""a	b"" )
// packet A { u8 x, }
// " ++ [128512]%N ++ runes_of_ascii " emoji
i16 calculatedFrom `it's` ,
@tag(10	) repeat
    // packet A { u8 x, }
    o {
    repeat
    char[] o  `say ""hi""` ,
int @calculatedFrom(	""a\\"" ) , Foo { repeat T {f32
    /// triple
    A @lengthOf( charz
) ,  Logon @lengthOf( // c
pack
)`a\` ,
    }
    , }	,
// " ++ [128512]%N ++ runes_of_ascii " emoji
//
}, } options
    { i64_=uint32 // trailing space 
;	falsey = ""a	b"" ; BodyLength
/// triple
// c
=
'0' ;
    lengthOf
    = """ ++ [28040; 24687]%N ++ runes_of_ascii """ ; repeatCount=
    // @lengthOf(
    u64}
")).
Eval vm_compute in ("<<<M348>>>" ++ check (runes_of_ascii "packet //x
rootA
    {
    @calculatedFrom( ""{,}""	)
    @calculatedFrom( ""x y"" ) char[ 0
    // packet A { u8 x, }
    ] lengthOf,  @tag( 3 )
    //	t
    trueish,charz`" ++ [28040; 24687; 31867; 22411]%N ++ runes_of_ascii "` , match u8x as roots { ""x y"":
    //	t
    i64_ // " ++ [128512]%N ++ runes_of_ascii " emoji
, ""a\\"":
    As , ""CRC32"" :
    calculatedFrom
    //
    , ""1""
    :msg_type
    ,
[ """ ++ [233]%N ++ runes_of_ascii "t" ++ [233]%N ++ runes_of_ascii """  , 007 ]
: Foo ,} , u32 lengthOf ,@lengthOf(
options1 ) x_y_z Logon `100% of %d`, @tag(
42
) // packet A { u8 x, }
A	{ f32a `u8 x,`
// " ++ [128512]%N ++ runes_of_ascii " emoji
// packet A { u8 x, }
, }
,//x
@rightPad( ' ' ) char[// c
65535]f32a `tab	here` ,
// c
/// triple
}
")).
Eval vm_compute in ("<<<M327>>>" ++ check (runes_of_ascii "packet crc
    { @calculatedFrom( ""x y""
)
char[] u8x ,
    } root packet asx //
{	float32
    u8x
`doc`
// 50% %s
// trailing space 
,
    }
packet lengthOf
{ repeat BodyLength{ match uint8x as matchKey {
""\n"" : body , 00 :
f32a ,""" ++ [233]%N ++ runes_of_ascii "t" ++ [233]%N ++ runes_of_ascii """ : rootA  , ""it's""
:
crc ,} , } ,	@tag( 42
)
//
// " ++ [27880; 37322]%N ++ runes_of_ascii "
roots Z9_ ,
repeat leftPad
{  u128 {len	lengthOf /// triple
, options1 A // " ++ [27880; 37322]%N ++ runes_of_ascii "
,
// `tick` ""quote"" 'q'
/// triple
u128
    Header , }
    , } , @leftPad (
' ') /// triple
repeat int32 u8x ,
    } // @lengthOf(")).
Eval vm_compute in ("<<<M1807>>>" ++ check (runes_of_ascii "options {
    string_ = float64;
}

root packet BodyLength {
    Header,
    i16 Foo,
    lengthOf @calculatedFrom(""`tick`"") `// not a comment`,
    @lengthOf(charz)
    // " ++ [128512]%N ++ runes_of_ascii " emoji
    repeat u32 a1,
    calculatedFrom {
        f64 chars @lengthOf(a1) `u8 x,`,
    },
    repeat i8 _x `
        `,
}

options {
}

MetaData i8i8 {
    // trailing space 
    MetaDataX A,
    string asx,
    Packet Pad `say ""hi""`,
    u128 stringy,
    i64 _x,
}

packet x {
}")).
Eval vm_compute in ("<<<M1963>>>" ++ check (runes_of_ascii "options {
    LittleEndian = false;
    StringPrefixLenType = u16;
    FixedStringPadFromLeft = true;
    FixedStringPadChar = '0';
}

packet Fill {
}

root packet Order {
    repeat Fill,
    char[] clOrdID,
    @rightPad('\x00')
    char[4] lastPx,
    char[] OrderId,
    int8 tag7,
    u8 f1,
    u16 count @lengthOf(Body),
    match f1 as Body {
        [159, 49] : Fill,
    },
    u16 Tail @calculatedFrom(""CRC32""),
}")).
Eval vm_compute in ("<<<M129>>>" ++ check (runes_of_ascii "packet int  { uint16 BodyLength
, zchar[ 255] charz// @lengthOf(
`100% of %d` ,	Logon@lengthOf(	MetaDataX ), }
packet// " ++ [27880; 37322]%N ++ runes_of_ascii "
a1
    {match pack as // `tick` ""quote"" 'q'
msg_type{10
    :	float ,
""" ++ [233]%N ++ runes_of_ascii "t" ++ [233]%N ++ runes_of_ascii """ :
charz  , 4294967296 : Foo , """ ++ [233]%N ++ runes_of_ascii "t" ++ [233]%N ++ runes_of_ascii """ : u128 , } , repeat Pad{	repeat Foo
    //x
    { uint64
    // `tick` ""quote"" 'q'
    Header,repeat roots rootA `say ""hi""`
, } ,} , } packet	Header {
}
")).
Eval vm_compute in ("<<<M1363>>>" ++ check (runes_of_ascii "options {
    LittleEndian = true;
    StringPrefixLenType = u32;
    ArrayPrefixLenType = u64;
}
packet Logon {
    string OrderId,
    uint32 lastPx,
    repeat char[6] Side2,
    i64 Tail,
    repeat i8 f1,
}
packet Party {
}
packet Quote {
    repeat char[6] clOrdID,
    repeat Logon,
}
root packet Order {
    zchar[5] Acct,
    repeat f64 price,
}
")).
Eval vm_compute in ("<<<M198>>>" ++ check (runes_of_ascii "options {
    rootA=i16
    ;} MetaData len{ float64 pack `crlf
line`
,a1
roots//	t
, int16
Header ,zchar[ 65535 ]charz , Packet//
body `say ""hi""`
, // `tick` ""quote"" 'q'
repeatCount x `line1
line2` ,
    // packet A { u8 x, }
    }options{ a1 =
""`tick`"" ;	float	=	""" ++ [233]%N ++ runes_of_ascii "t" ++ [233]%N ++ runes_of_ascii """ ; Logon = zchar[
00	]
; Header= '0' ; }")).
Eval vm_compute in ("<<<M1715>>>" ++ check (runes_of_ascii "options {
    LittleEndian = true;
}

packet Sub {
    u8 a,
    @calculatedFrom(""CRC16"")
    uint64 SubSum,
}

root packet Frame {
    u16 MsgType,
    u16 BodyLen @lengthOf(Body),
    Sub Body,
    string note,
    @calculatedFrom(""CRC16"")
    uint64 Checksum,
    u8 tail,
}")).
Eval vm_compute in ("<<<M1331>>>" ++ check (runes_of_ascii "packet P1 {
    u8 a,
}
packet P2 {
    P1,
}
packet P3 {
    P2,
    P1,
}
packet P4 {
    repeat P3,
    P2,
}
root packet P5 {
    P4,
    P3,
    P1,
    u8 K,
    match K as Body {
        4 : P4,
        3 : P3,
        2 : P2,
        1 : P1,
    },
}
")).
Eval vm_compute in ("<<<M494>>>" ++ check (runes_of_ascii "packet
    asx { @calculatedFrom(
""""  ) @tag( 255 )repeat
// packet A { u8 x, }
// trailing space 
int16 u8x
,
@tag(
    //
    007 )
    @tag( 0
    /// triple
    ) @tag( 1 string u
    @lengthOf( T ),
// `tick` ""quote"" 'q'
//x
} // " ++ [128512]%N ++ runes_of_ascii " emoji")).
Eval vm_compute in ("<<<M512>>>" ++ check (runes_of_ascii "packet
    asx { @calculatedFrom(
""""  ) @tag( 255 )repeat
// packet A { u8 x, }
// trailing space 
int16 u8x
,
@tag(
    //
    007 )
    @tag( 0
    /// triple
    ) @tag( 1) u
    @lengthOf( T ) ),
// `tick` ""quote"" 'q'
//x
} // " ++ [128512]%N ++ runes_of_ascii " emoji")).
Eval vm_compute in ("<<<M443>>>" ++ check (runes_of_ascii "packet
    asx { @calculatedFrom(
""""  ) @tag( 255 )repeat
// packet A { u8 x, }
// trailing space 
int16 ,
u8x
@tag(
    //
    007 )
    @tag( 0
    /// triple
    ) @tag( 1) u
    @lengthOf( T ),
// `tick` ""quote"" 'q'
//x
} // " ++ [128512]%N ++ runes_of_ascii " emoji")).
Eval vm_compute in ("<<<M471>>>" ++ check (runes_of_ascii "packet
    asx { @calculatedFrom(
""""  ) @tag( 255 )repeat
// packet A { u8 x, }
// trailing space 
int16 u8x
,
@tag(
    //
    007 )
    @tag( 
    /// triple
    ) @tag( 1) u
    @lengthOf( T ),
// `tick` ""quote"" 'q'
//x
} // " ++ [128512]%N ++ runes_of_ascii " emoji")).
Eval vm_compute in ("<<<M404>>>" ++ check (runes_of_ascii "packet
    asx { options
""""  ) @tag( 255 )repeat
// packet A { u8 x, }
// trailing space 
int16 u8x
,
@tag(
    //
    007 )
    @tag( 0
    /// triple
    ) @tag( 1) u
    @lengthOf( T ),
// `tick` ""quote"" 'q'
//x
} // " ++ [128512]%N ++ runes_of_ascii " emoji")).
Eval vm_compute in ("<<<M1536>>>" ++ check (runes_of_ascii "packet zchar {
    @lengthOf(charz)
    zchar @lengthOf(Header) `
        `,
    u8 calculatedFrom,
    @calculatedFrom(""x y"")
    u128 @calculatedFrom(""it's""),
}

options {
    float = 007
    uint8x = ""`tick`"";
}")).
Eval vm_compute in ("<<<M1432>>>" ++ check (runes_of_ascii "options {
    FixedStringPadChar = '0';
}

packet Q {
    zchar[4] z,
    @rightPad('\x00')
    char[3] n,
    char[5] d,
}

root packet R {
    Q,
    zchar[8] top,
    repeat zchar[2] zs,
}")).
Eval vm_compute in ("<<<M495>>>" ++ check (runes_of_ascii "packet
    asx { @calculatedFrom(
""""  ) @tag( 255 )repeat
// packet A { u8 x, }
// trailing space 
int16 u8x
,
@tag(
    //
    007 )
    @tag( 0
    /// triple
    ) @tag( 1")).
Eval vm_compute in ("<<<M722>>>" ++ check (runes_of_ascii "packet
crc
{repeat  Foo A  `u8 x,` ,	@lengthOf( uint8x ) string
matchKey @lengthOf( stringy ) ) `a\`
,
    // c
    }
MetaData chars{
leftPad
    //	t
    crc
`" ++ [233]%N ++ runes_of_ascii "`
,}")).
Eval vm_compute in ("<<<M687>>>" ++ check (runes_of_ascii "MetaData u
    { } MetaData o
{ float uint8x
`100% of %d` ,repeatCount u8x, string_ leftPad
, i32
    Foo , int64 x `two words` , calculatedFrom
stringy `a\` ,
} }
")).
Eval vm_compute in ("<<<M593>>>" ++ check (runes_of_ascii "MetaData u
    { } MetaData o
{ float uint8x
, `100% of %d`repeatCount u8x, string_ leftPad
, i32
    Foo , int64 x `two words` , calculatedFrom
stringy `a\` ,
}
")).
Eval vm_compute in ("<<<M624>>>" ++ check (runes_of_ascii "MetaData u
    { } MetaData o
{ float uint8x
`100% of %d` ,repeatCount u8x, string_ uint64
, i32
    Foo , int64 x `two words` , calculatedFrom
stringy `a\` ,
}
")).
Eval vm_compute in ("<<<M1892>>>" ++ check (runes_of_ascii "root packet trueish {
    @tag(00)
    rootA @lengthOf(float),
    @rightPad(
    '0' )
    pack string_,
}

packet i8i8 {
    string o @calculatedFrom(""" ++ [128512]%N ++ runes_of_ascii """),
}")).
Eval vm_compute in ("<<<M261>>>" ++ check (runes_of_ascii "packet u8x { char[]
f32a @lengthOf(Foo ) `100% of %d` , repeat
i8i8 {  A f32a , x `say ""hi""`,
    // @lengthOf(
    repeat body rootA `
`
    , }
, }

")).
Eval vm_compute in ("<<<M1897>>>" ++ check (runes_of_ascii "packet A {
    match k as n {
        [
            ""a"", 22, ""c c"", 4, ""e"",
            66, ""g"", 8, ""i""
        ] : B,
        2 : C,
    },
}")).
Eval vm_compute in ("<<<M1480>>>" ++ check (runes_of_ascii "options {
    LittleEndian = true;
}

packet B {
    u8 a,
    string s,
}

root packet P {
    u16 L @lengthOf(B),
    B,
    u8 t,
}")).
Eval vm_compute in ("<<<M1764>>>" ++ check (runes_of_ascii "options {
}// c

options {
    MetaDataX = char;
}

MetaData Pad {
    i8 metadata,
    string stringy,
    int8 As `{ , }`,
}")).
Eval vm_compute in ("<<<M660>>>" ++ check (runes_of_ascii "MetaData u
    { } MetaData o
{ float uint8x
`100% of %d` ,repeatCount u8x, string_ leftPad
, i32
    Foo , int64 x")).
Eval vm_compute in ("<<<M1211>>>" ++ check (runes_of_ascii "options { } options { // c
MetaDataX = char ; } MetaData Pad { i8 metadata , string stringy , int8 As `{ , }` , }")).
Eval vm_compute in ("<<<M1243>>>" ++ check (runes_of_ascii "options { } options { MetaDataX = char ; } MetaData Pad { i8 metadata , string stringy , int8 As // c
`{ , }` , }")).
Eval vm_compute in ("<<<M879>>>" ++ check (runes_of_ascii "packet A {
  match k as n {
    [""a"", ""bb"", ""c c"", ""d"", ""e"", ""f"", ""g"", ""h"", ""i"", ""j""] : B
    2 : C
  },
}")).
Eval vm_compute in ("<<<M865>>>" ++ check (runes_of_ascii "packet A {
  match k as n {
    [""a"", ""bb"", ""c c"", ""d"", ""e"", ""f"", ""g"", ""h"", ""i""] : B,
    2 : C
  },
}")).
Eval vm_compute in ("<<<M1576>>>" ++ check (runes_of_ascii "  packet 
FooBar
{
u8 a,  }	packet 
foo_bar{ u16
    b
,} root

packet  R  {FooBar
,
	foo_bar
,
}")).
Eval vm_compute in ("<<<M1542>>>" ++ check (runes_of_ascii "
// `tick` ""quote"" 'q'
    options
    {
chars
    = 65535 
packetx= ""packet"" 
Z9_
='0' ; }
")).
Eval vm_compute in ("<<<M1916>>>" ++ check (runes_of_ascii "packet A {
    match k as n {
        [""a"", ""bb"", ""c c"", ""d""] : B,
        2 : C,
    },
}")).
Eval vm_compute in ("<<<M1899>>>" ++ check (runes_of_ascii "

  packet A	{match
    k as
    n{

[
1 
,""bb""

,007	,""d"" ,  5] :  B
    2: 
C },
} ")).
Eval vm_compute in ("<<<M1586>>>" ++ check (runes_of_ascii "packet A {
    match k as n {
        [1, 22, 007, 4] : B,
        2 : C,
    },
}")).
Eval vm_compute in ("<<<M34>>>" ++ check (runes_of_ascii "packet
    u8x	{
repeat
    Foo  { repeat msg_type`it's`  ,	}	, }
// " ++ [128512]%N ++ runes_of_ascii " emoji
")).
Eval vm_compute in ("<<<M1949>>>" ++ check (runes_of_ascii "packet Inner {
    u8 a,
}

root packet P {
    Inner ref_obj,
    u8 x,
}")).
Eval vm_compute in ("<<<M807>>>" ++ check (runes_of_ascii "packet A {
  match k as n {
    [1, 22, ""c c"", 4] : B
    2 : C
  },
}")).
Eval vm_compute in ("<<<M1301>>>" ++ check (runes_of_ascii "root packet P {
    u8 s_u8,
    repeat u8 r_u8,
    u16 b_len,
}
")).
Eval vm_compute in ("<<<M777>>>" ++ check (runes_of_ascii "packet A {
  match k as n {
    [1, 22] : B
    2 : C
  },
}")).
Eval vm_compute in ("<<<M1568>>>" ++ check (runes_of_ascii "
// `tick` ""quote"" 'q'
		options	{f32a
    = uint16
	}
")).
Eval vm_compute in ("<<<M430>>>" ++ check (runes_of_ascii "packet
    asx { @calculatedFrom(
""""  ) @tag( 255")).
Eval vm_compute in ("<<<M984>>>" ++ check (runes_of_ascii "options {
    a = ""x\
y"";
    b = ""x\
y""
}")).
Eval vm_compute in ("<<<M1407>>>" ++ check (runes_of_ascii "// top
root packet a1 {
    // c3
}// c4")).
Eval vm_compute in ("<<<M1087>>>" ++ check (runes_of_ascii "options { a = 1 // c b = 2; // d}")).
Eval vm_compute in ("<<<M1109>>>" ++ check (runes_of_ascii "packet A { @tag( // a
 1 ) u8 x, }")).
Eval vm_compute in ("<<<M975>>>" ++ check (runes_of_ascii "packet A {
    u8 x `%%d%!`,
}")).
Eval vm_compute in ("<<<M915>>>" ++ check (runes_of_ascii "packet A {
    u8 x `a
b`,
}")).
Eval vm_compute in ("<<<M1142>>>" ++ check (runes_of_ascii "
// c
root packet a1 { }")).
Eval vm_compute in ("<<<M1088>>>" ++ check (runes_of_ascii "// a// bpacket A {}")).
Eval vm_compute in ("<<<M1011>>>" ++ check (runes_of_ascii "// c" ++ [133]%N ++ runes_of_ascii "
packet A {
}")).
Eval vm_compute in ("<<<M1408>>>" ++ check (runes_of_ascii "root packet a1 {
}")).
Eval vm_compute in ("<<<M299>>>" ++ check (runes_of_ascii "packet	zchar	{}
")).
Eval vm_compute in ("<<<M395>>>" ++ check (runes_of_ascii "packet")).
Eval vm_compute in ("<<<M728>>>" ++ check (runes_of_ascii "//")).
