From FP Require Import Lexer Parser ShowPT Digest Formatter.
From Coq Require Import String List NArith.
Import ListNotations.
Open Scope string_scope.
Set Printing Width 100000000.
Set Printing Depth 100000000.
Definition show_fres (r : fres) : string :=
  match r with
  | FOk s => "OK:" ++ sh_escaped s ""
  | FErr s => "ERR:" ++ sh_escaped s ""
  | FPanic p => "PANIC:" ++ p
  end.
Definition check (rs : list rune) : string := digest (show_fres (format_res rs)).
Definition full (rs : list rune) : string := show_fres (format_res rs).
Eval vm_compute in ("<<<M165>>>" ++ check (runes_of_ascii "packet falsey { char[7
    ]
Foo @calculatedFrom( ""CRC32"" ) , @tag(
    //
    10)	u8 Packet`" ++ [233]%N ++ runes_of_ascii "` ,repeat  stringy
,
@lengthOf( // a // b
float)tag { repeat
    u8x {
int16 charz@lengthOf(trueish ) , //	t
repeat  string calculatedFrom,
charz @calculatedFrom(  ""a\""b""
)	`line1
line2`
,
},u64
    MetaDataX @calculatedFrom( """ ++ [128512]%N ++ runes_of_ascii """
    ) `" ++ [233]%N ++ runes_of_ascii "`
    ,rootA
    // packet A { u8 x, }
    {
    repeat	u64 BodyLength
`" ++ [233]%N ++ runes_of_ascii "` , pack @calculatedFrom( //x
""{,}"" )
    `" ++ [28040; 24687; 31867; 22411]%N ++ runes_of_ascii "` ,repeat // c
x charz,
},
    // a // b
    char[] packetx, }	, // `tick` ""quote"" 'q'
calculatedFrom , u x_y_z
,repeat	int	i64_ ,@leftPad (
    ' '
)u32 T @calculatedFrom( ""{,}"" )
, repeat
    metadata , } root packet
chars
{ char[	65535
]  pack @lengthOf( As ) `tab	here` , char[
255] msg_type `// not a comment`
    ,@calculatedFrom(
    ""// no comment"" ) @tag( //	t
0 ) @tag(10 ) repeat Header {
    char[]
// @lengthOf(
// " ++ [27880; 37322]%N ++ runes_of_ascii "
i64_,repeat T//x
`` ,match uint8x	as i64_ {
00// `tick` ""quote"" 'q'
: _x ,	65535: //
Z9_,
""1""
: u8x ,
007 : Z9_
, 255
:
matchKey
""1"" :
crc , } , } ,
    @calculatedFrom(	""packet""	) match int as x_y_z{ 0123456789 :	Logon
    // @lengthOf(
    ,
    //	t
    [ 0123456789, ""it's"" ]
:
int
    , [""a	b"" , ""CRC32"" , 0, 4294967296 , """"	] :
pack , 0 : u , } , match // @lengthOf(
string_ as
int
{ 0: repeatCount [ ""abc""
    ] : // " ++ [27880; 37322]%N ++ runes_of_ascii "
float 007: msg_type , [
    ""a\""b""	]:
charz , } , i16 MetaDataX`say ""hi""`, repeat u `tab	here` , repeat falsey  { repeat i8 lengthOf `a\` ,
    repeatCount@lengthOf( o)
    `{ , }`,}, }packet rootA
    { calculatedFrom//	t
@calculatedFrom( ""x y"") ,
char Pad @calculatedFrom( ""a\""b"" ) `" ++ [233]%N ++ runes_of_ascii "`
    , @leftPad
( '\x00' )	repeat float64 tag ,
    // " ++ [27880; 37322]%N ++ runes_of_ascii "
    @calculatedFrom( ""1"") repeat Foo ,  } // " ++ [27880; 37322]%N)).
Eval vm_compute in ("<<<M383>>>" ++ check (runes_of_ascii "options {
	StringPrefixLenType = u16;
	ArrayPrefixLenType = u16;
}

packet SampleBinary {
    uint16 MsgType `" ++ [28040; 24687; 31867; 22411]%N ++ runes_of_ascii "`,
    u16 BodyLenght @lengthOf(Body) `" ++ [28040; 24687; 20307; 38271; 24230]%N ++ runes_of_ascii "`,
    match MsgType as Body {
        1 : Logon,
        2 : Logout,
        3 : Heartbeat,
        4 : RiskControlRequest,
        5 : RiskControlResponse,
    },
        @calculatedFrom(""CRC32"")
    u32 Ckecksum `" ++ [26657; 39564; 21644]%N ++ runes_of_ascii "`,
}

packet Logon {
     @leftPad('0')
    char[10] UserName `" ++ [29992; 25143; 21517]%N ++ runes_of_ascii "`,
    string Password `" ++ [23494; 30721]%N ++ runes_of_ascii "`,
    uint64 ClientId `" ++ [23458; 25143; 31471]%N ++ runes_of_ascii "ID`,
    u16 HeartbeatInterval `" ++ [24515; 36339; 38388; 38548]%N ++ runes_of_ascii "`,
}

packet Logout {
      @rightPad('0')
    char[10] UserName `" ++ [29992; 25143; 21517]%N ++ runes_of_ascii "`,
    uint64 ClientId `" ++ [23458; 25143; 31471]%N ++ runes_of_ascii "ID`,
}

packet Heartbeat {
}

packet RiskControlRequest {
    string UniqueOrderId `" ++ [21807; 19968; 35746; 21333; 21495]%N ++ runes_of_ascii "`,
    char[16] ClOrdID `" ++ [23458; 25143; 35746; 21333; 21495]%N ++ runes_of_ascii "`,
    char[3] MarketID `" ++ [24066; 22330]%N ++ runes_of_ascii "id`,
    char[12] SecurityID `" ++ [35777; 21048; 20195; 30721]%N ++ runes_of_ascii "`,
    char Side `" ++ [20080; 21334; 26041; 21521]%N ++ runes_of_ascii "`,
    char OrderType `" ++ [35746; 21333; 31867; 22411]%N ++ runes_of_ascii "`,
    u64 Price `" ++ [20215; 26684]%N ++ runes_of_ascii "`,
    u32 Qty `" ++ [25968; 37327]%N ++ runes_of_ascii "`,
    repeat string ExtraInfo `" ++ [38468; 21152; 20449; 24687]%N ++ runes_of_ascii "`,
    repeat SubOrder {
    		char[16] ClOrdID `" ++ [23376; 35746; 21333; 21495]%N ++ runes_of_ascii "`,
    		u64 Price `" ++ [23376; 35746; 21333; 20215; 26684]%N ++ runes_of_ascii "`,
    		u32 Qty `" ++ [23376; 35746; 21333; 25968; 37327]%N ++ runes_of_ascii "`,
    	},
}

packet RiskControlResponse {
    string UniqueOrderId `" ++ [21807; 19968; 35746; 21333; 21495]%N ++ runes_of_ascii "`,
    i32 Status `" ++ [29366; 24577]%N ++ runes_of_ascii "`,
    string Msg `" ++ [32467; 26524; 20449; 24687]%N ++ runes_of_ascii "`,
    repeat Detail,
}

packet Detail {
    string RuleName `" ++ [35268; 21017; 21517; 31216]%N ++ runes_of_ascii "`,
    u16 Code `" ++ [21407; 22240; 20195; 30721]%N ++ runes_of_ascii "`,
}")).
Eval vm_compute in ("<<<M134>>>" ++ check (runes_of_ascii "packet // " ++ [128512]%N ++ runes_of_ascii " emoji
x{
    //x
    lengthOf @calculatedFrom(""abc"")
`u8 x,`
    ,
@rightPad( )
//x
// @lengthOf(
float32 Packet @lengthOf( falsey ) ,	char[ 10] falsey , @tag( 3  ) repeat zchar[
    4294967296 ] repeatCount ,repeatCount`say ""hi""` , int16 u128 // `tick` ""quote"" 'q'
,
char[ 3
] crc
@calculatedFrom( ""x y"" )
, // trailing space 
@leftPad
    (
    // " ++ [27880; 37322]%N ++ runes_of_ascii "
    '\x00' )	match chars as i8i8 {
    42 : charz// trailing space 
,}
, }  options {	} MetaData metadata { char[ 4294967296 ] i8i8	,
    float
    rootA , i64
    packetx // " ++ [27880; 37322]%N ++ runes_of_ascii "
, i8 // " ++ [27880; 37322]%N ++ runes_of_ascii "
roots `crlf
line`
    ,
    tag i64_  , uint8 Pad `" ++ [233]%N ++ runes_of_ascii "`
, }root packet Header{
u64 options1  `two words`
    , @calculatedFrom(""a\\"" // trailing space 
) // " ++ [128512]%N ++ runes_of_ascii " emoji
i32 //	t
x_y_z	@calculatedFrom( ""a\""b"")`tab	here` , match
A as len { [ ""CRC32"" // " ++ [128512]%N ++ runes_of_ascii " emoji
,""it's""  ] //	t
: Z9_ ""a	b"" :
    o ,
} , match asx
as pack {0 :	x_y_z , }
    , char[] i64_ `{ , }`
,
    }
MetaData stringy
{ // trailing space 
lengthOf
// `tick` ""quote"" 'q'
//	t
o, string//
u8x , f32 string_ `doc` ,}
")).
Eval vm_compute in ("<<<M13>>>" ++ check (runes_of_ascii "root
    packet	roots{ // `tick` ""quote"" 'q'
} options	{	asx =
    ""\n"" ; x_y_z =
3 ;rootA = ""CRC32""
    ;float=char  T = false
; }
packet falsey {
body { match u8x as /// triple
string_{ [
42,7 ,65535
    ,
    3 ,
    42 ,7 , ""1""
    , ""packet"" ]:
    // `tick` ""quote"" 'q'
    i64_ , [ ""abc""]
    :  Foo ,	""a\\""
    :
roots ,
    4294967296 :	stringy	}
    , //x
asx
`{ , }` // " ++ [128512]%N ++ runes_of_ascii " emoji
, i8
charz@lengthOf( // trailing space 
x_y_z)// trailing space 
`a\` ,}
    // @lengthOf(
    , @tag( 65535 ) i64_ @lengthOf( tag )`u8 x,`
// a // b
//	t
,Z9_@lengthOf( int )
, @calculatedFrom( ""a\""b""
)uint16  stringy @lengthOf( trueish ) , Logon	{string  Logon `say ""hi""` , packetx
i64_ , match msg_type as	float
{ ""\n"" : i64_,	[
""" ++ [128512]%N ++ runes_of_ascii """
    ]
:
metadata , // `tick` ""quote"" 'q'
[
// trailing space 
// " ++ [128512]%N ++ runes_of_ascii " emoji
10, ""1""  ]
:zchar ,
}
    , //x
}
    //x
    , Packet
    @calculatedFrom(""CRC32"" ), }
")).
Eval vm_compute in ("<<<M1321>>>" ++ check (runes_of_ascii "// top
packet // c0
P1
    // c1
{ // c2
u8
    // c3
a // c4a
  // c4b
,
    // c5
} // c6
packet
    // c7
P2 // c8
{ // c9a
  // c9b
P1 // c10
, } // c12a
  // c12b
packet // c13a
  // c13b
P3
    // c14
{
    // c15
P2
    // c16
, // c17
P1 , // c19
} // c20a
  // c20b
packet // c21
P4 // c22
{ // c23
repeat // c24a
  // c24b
P3
    // c25
, P2 , } root // c30a
  // c30b
packet // c31
P5 { // c33
P4
    // c34
,
    // c35
P3 // c36a
  // c36b
, P1
    // c38
,
    // c39
u8 K // c41
, // c42
match // c43
K // c44a
  // c44b
as
    // c45
Body // c46a
  // c46b
{ // c47a
  // c47b
4 : // c49a
  // c49b
P4 // c50
, // c51
3 :
    // c53
P3 // c54a
  // c54b
, // c55a
  // c55b
2 // c56a
  // c56b
:
    // c57
P2 ,
    // c59
1 : // c61a
  // c61b
P1 // c62
, // c63a
  // c63b
}
    // c64
, }
    // c66
")).
Eval vm_compute in ("<<<M312>>>" ++ check (runes_of_ascii "packet // packet A { u8 x, }
tag
    { @calculatedFrom(""x y"" ) lengthOf{ options1
    `
`,} , @tag( 7 )
int {
//x
// " ++ [27880; 37322]%N ++ runes_of_ascii "
char[ 007  ] // `tick` ""quote"" 'q'
calculatedFrom @lengthOf(
metadata
)  , tag @lengthOf( falsey
) ,	f32
    // " ++ [128512]%N ++ runes_of_ascii " emoji
    calculatedFrom
// `tick` ""quote"" 'q'
//
`{ , }` , i8i8
    {string
    i64_ @lengthOf( asx )	`it's` , u @calculatedFrom(  ""\n"" ) ,
    } ,	}
    ,
    @calculatedFrom(""abc"" //
)  @leftPad ( ' '
    )  uint64 calculatedFrom
,// " ++ [27880; 37322]%N ++ runes_of_ascii "
} packet o { Header ,
    @lengthOf(	i8i8
) float32
    Pad // c
,char[ 42 ]
leftPad
    @calculatedFrom(	"""" // " ++ [128512]%N ++ runes_of_ascii " emoji
)
    , @tag( 255 )
body
    u , } packet lengthOf{
// packet A { u8 x, }
// c
@tag(
    255 //x
) char[ 0123456789 ] o
`
` , }

")).
Eval vm_compute in ("<<<M288>>>" ++ check (runes_of_ascii "// packet A { u8 x, }
MetaData
    _x
{ //
char[] len
    ,}options
// @lengthOf(
//
{ repeatCount =""""
    ; }// c
root packet chars {
    char[ 255
]u8x,	repeat
/// triple
// c
string repeatCount
`" ++ [28040; 24687; 31867; 22411]%N ++ runes_of_ascii "` ,
repeat zchar[ 10
]
string_ , @tag( // trailing space 
255
    ) i8i8{// packet A { u8 x, }
options1
calculatedFrom `u8 x,`
,
    i64
len,
    roots // c
{ // @lengthOf(
repeat
    // a // b
    i64_ zchar //
,
    } ,
    }
, match chars as Packet	{
""a\""b"": Pad
,[ ""{,}""
    ]
:
calculatedFrom // a // b
,
""" ++ [233]%N ++ runes_of_ascii "t" ++ [233]%N ++ runes_of_ascii """
//x
// `tick` ""quote"" 'q'
: uint8x ,[ // packet A { u8 x, }
""`tick`"" ,0
    , 42
    ] : _x[ 0123456789	, ""\" ++ [233]%N ++ runes_of_ascii """
    ] :
i8i8,	} ,	}
")).
Eval vm_compute in ("<<<M208>>>" ++ check (runes_of_ascii "packet // packet A { u8 x, }
u8x {}root packet
    matchKey{
repeat zchar[ 0123456789 ] // packet A { u8 x, }
int , char[
// `tick` ""quote"" 'q'
// a // b
4294967296 ]
asx `{ , }`
    ,
repeat i8i8, repeat Packet { repeat
    leftPad {	f32 u128
@lengthOf(As ), body`two words` ,// packet A { u8 x, }
rootA Pad , } , char[ 00
] msg_type `tab	here` // " ++ [128512]%N ++ runes_of_ascii " emoji
,
    repeat
    //x
    i64_ `doc` , zchar x_y_z ,}
,
}
root
packet int {
repeat f32a {repeat f32a  asx
`u8 x,` ,} ,@lengthOf(
// @lengthOf(
//	t
msg_type// packet A { u8 x, }
) body ,
// c
//
Z9_ // c
zchar `a\` //x
, } //x")).
Eval vm_compute in ("<<<M1568>>>" ++ check (runes_of_ascii "  // top
	  options 
    // c0
  {
// c1
      f32a

    // c2

= 
    // c3
	  0
    // c4
  } 
// c5
packet
        // c6

trueish

// c7
{ 
  // c8
	}
	// c9
	MetaData 
	    // c10

  _x
// c11

{ 
  // c12
    char[ 
// c13
	0123456789
        // c14
  ] 
    // c15

zchar
	// c16
  , 
    // c17
  string  
      // c18
crc 

    // c19
  	, 
        // c20

	char[
    // c21
      1 
  // c22
	  ] 
	    // c23
options1
    // c24
,  
  // c25
	uint8 

// c26
  repeatCount
// c27
,
	// c28
	} 
  // c29")).
Eval vm_compute in ("<<<M1237>>>" ++ check (runes_of_ascii "// top
options // c0
{ // c1
zchar // c2
= // c3
true // c4
; // c5
Pad // c6
= // c7
char[ // c8
00 // c9
] // c10
a1 // c11
= // c12
uint32 // c13
BodyLength // c14
= // c15
true // c16
; // c17
} // c18
root // c19
packet // c20
T // c21
{ // c22
@lengthOf( // c23
repeatCount // c24
) // c25
@tag( // c26
1 // c27
) // c28
@calculatedFrom( // c29
""a	b"" // c30
) // c31
string // c32
stringy // c33
@calculatedFrom( // c34
""\n"" // c35
) // c36
`u8 x,` // c37
, // c38
} // c39
")).
Eval vm_compute in ("<<<M1430>>>" ++ check (runes_of_ascii "  options{LittleEndian 
=

    false;
StringPrefixLenType=	u8 ;
ArrayPrefixLenType=
	u64 ;
    FixedStringPadFromLeft	=

false;

FixedStringPadChar
=	' ';}

    packet Reject{

    repeat char[

    4 ]
seqNo
	,
string
    Px

    , }	root

    packet
    Trade{
	@rightPad 
('0' )
char[
2

    ]

msgKind

    , repeat

f64
price ,

InAcct79
{

    repeat Reject ,
    zchar[	7  ] OrderId 
, 
}	,

Reject , 
}

")).
Eval vm_compute in ("<<<M1332>>>" ++ check (runes_of_ascii "options {
    LittleEndian = false;
    StringPrefixLenType = u8;
    ArrayPrefixLenType = u64;
    FixedStringPadFromLeft = false;
    FixedStringPadChar = ' ';
}
packet Reject {
    repeat char[4] seqNo,
    string Px,
}
root packet Trade {
    @rightPad('0') char[2] msgKind,
    repeat f64 price,
    InAcct79 {
        repeat Reject,
        zchar[7] OrderId,
    },
    Reject,
}
")).
Eval vm_compute in ("<<<M1459>>>" ++ check (runes_of_ascii "MetaData Header {
}

packet crc {
    match zchar as leftPad {
        7 : As,
        0 : Packet,
        [00] : Pad,
        //x
        //x
        ""// no comment"" : calculatedFrom,
        3 : string_,
    },
    falsey packetx `crlf
    line`,// " ++ [27880; 37322]%N ++ runes_of_ascii "
    @tag(42)
    repeat u64 packetx,
    @calculatedFrom(""1"")
    repeat u16 calculatedFrom,
}")).
Eval vm_compute in ("<<<M79>>>" ++ check (runes_of_ascii "packet	Pad //
{ u32 i64_
@lengthOf(u8x) `tab	here` , T,
@tag(
1) @calculatedFrom(	""CRC32""
)
    @leftPad ()
    match stringy as lengthOf	{[ 255  ,	7
    ,
""CRC32""
,""a	b"" , """ ++ [233]%N ++ runes_of_ascii "t" ++ [233]%N ++ runes_of_ascii """ ,// c
""a\""b""
    , ""\n"" ]: falsey  , /// triple
} ,string i8i8// trailing space 
@calculatedFrom( """ ++ [128512]%N ++ runes_of_ascii """
    ) ,packetx, } // c")).
Eval vm_compute in ("<<<M1948>>>" ++ check (runes_of_ascii "options {
    A = i16;
}

/// triple
root packet rootA {
    @tag(7)
    int16 pack,
    Logon @calculatedFrom(""a\""b"") `{ , }`,
    @rightPad('\x00')
    //
    //
    char[7] options1 `tab	here`,
    @calculatedFrom(""" ++ [233]%N ++ runes_of_ascii "t" ++ [233]%N ++ runes_of_ascii """)
    int @lengthOf(Packet) `crlf
        line`,
}")).
Eval vm_compute in ("<<<M139>>>" ++ check (runes_of_ascii "packet//x
x_y_z {rootA @lengthOf( o ) `two words` ,} MetaData f32a{
trueish
    // packet A { u8 x, }
    x , }
    MetaData body
    { u128 pack , f64
    // @lengthOf(
    float	, char[ 65535
//	t
/// triple
] tag `" ++ [233]%N ++ runes_of_ascii "`// c
,  } // " ++ [128512]%N ++ runes_of_ascii " emoji")).
Eval vm_compute in ("<<<M1703>>>" ++ check (runes_of_ascii "packet matchKey {
    // @lengthOf(
    @lengthOf(a1)
    string_ T `" ++ [28040; 24687; 31867; 22411]%N ++ runes_of_ascii "`,//
}

packet body {
    f32 _x,
    packetx @lengthOf(options1) ``,
    @leftPad(' ')
    i16 crc,
    @calculatedFrom(""" ++ [128512]%N ++ runes_of_ascii """)
    Pad,
}//")).
Eval vm_compute in ("<<<M1805>>>" ++ check (runes_of_ascii "packet A {
    match k as n {
        ""x\
        y"" : B,
        [""x\
        y"", 1] : C,
        [
            1, 2, 3, 4, 5,
            ""x\
            y""
        ] : D,
    },
}")).
Eval vm_compute in ("<<<M152>>>" ++ check (runes_of_ascii "packet T {
int u ,
@calculatedFrom( ""\" ++ [233]%N ++ runes_of_ascii """ ) // `tick` ""quote"" 'q'
repeat// @lengthOf(
string	x_y_z// a // b
,
uint32// `tick` ""quote"" 'q'
int `crlf
line` , }
")).
Eval vm_compute in ("<<<M1864>>>" ++ check (runes_of_ascii "// @len'1'gthOf(
packet i8i8 {
    u128 o,
}

options {
    MetaDataX = true;
    BodyLength = ""packet""
    x_y_z = 007
    crc = ""abc"";
    msg_type = i16
}")).
Eval vm_compute in ("<<<M1709>>>" ++ check (runes_of_ascii "packet calculatedFrom {
    uint8x {
        body `line1
        line2`,
        string crc @lengthOf(uint8x),
        char[] As @lengthOf(Pad),
    },
}")).
Eval vm_compute in ("<<<M545>>>" ++ check (runes_of_ascii "packet uint8x
{ match' pack
    as msg_type	{
    0123456789 :	float
}
,
} packet //	t
a1
    { } options {packetx
    = '\x00'	; u128= ""a	b""  ; }
")).
Eval vm_compute in ("<<<M498>>>" ++ check (runes_of_ascii "packet uint8x
{ match pack
    as msg_type	{
    0123456789 :	float
}
,
} packet //	t
a1
    { } options {packetx
    ; '\x00'	; u128= ""a	b""  ; }
")).
Eval vm_compute in ("<<<M415>>>" ++ check (runes_of_ascii "packet uint8x
{ match pack
     msg_type	{
    0123456789 :	float
}
,
} packet //	t
a1
    { } options {packetx
    = '\x00'	; u128= ""a	b""  ; }
")).
Eval vm_compute in ("<<<M678>>>" ++ check (runes_of_ascii "// @lengthOf(
packet i8i8 { u128 o , }
options { MetaDataX = true;
    BodyLength =""packet"" x_y_z= 007
crc //x
= ""abc"" ;
    < msg_type =
i16 }")).
Eval vm_compute in ("<<<M685>>>" ++ check (runes_of_ascii "// @lengthOf(
packet i8i8 { u128 o , }
options { MetaDataX = true;
    BodyLength =""packet"" x_y_z= 007
crc //x
= ""abc"" ;
    = msg_type
i16 }")).
Eval vm_compute in ("<<<M706>>>" ++ check (runes_of_ascii "// @lengthOf(
packet i8i8 { u128 o , }
options { MetaDataX = ;
    BodyLength =""packet"" x_y_z= 007
crc //x
= ""abc"" ;
    msg_type =
i16 }")).
Eval vm_compute in ("<<<M1564>>>" ++ check (runes_of_ascii "MetaData

leftPad 
{chars
MetaDataX ,} packet
	repeatCount

{  char[255
    ] uint8x `" ++ [233]%N ++ runes_of_ascii "`
,
	} MetaData pack 	 // c
  { As Foo 
, }
")).
Eval vm_compute in ("<<<M1631>>>" ++ check (runes_of_ascii "root packet lengthOf {
    @leftPad(' ')
    repeat char MetaDataX,
}

MetaData Pad {
    msg_type rootA `// not a comment`,
}")).
Eval vm_compute in ("<<<M1141>>>" ++ check (runes_of_ascii "// c
MetaData leftPad { chars MetaDataX , } packet repeatCount { char[ 255 ] uint8x `" ++ [233]%N ++ runes_of_ascii "` , } MetaData pack { As Foo , }")).
Eval vm_compute in ("<<<M1174>>>" ++ check (runes_of_ascii "MetaData leftPad { chars MetaDataX , } packet repeatCount { char[ 255 ] uint8x `" ++ [233]%N ++ runes_of_ascii "` ,
// c
} MetaData pack { As Foo , }")).
Eval vm_compute in ("<<<M1319>>>" ++ check (runes_of_ascii "
packet FooBar  {  u8
	a , }
    packet  foo_bar

    {  u16 
b

    , } root
	packet R{FooBar , foo_bar
,	}
")).
Eval vm_compute in ("<<<M1518>>>" ++ check (runes_of_ascii "packet A  {
match
    k	as

    n {
[
""a""
,

    22 , ""c c""
, 4
,
""e"" ] : B
,

    2
	: C
	} , }
")).
Eval vm_compute in ("<<<M944>>>" ++ check (runes_of_ascii "packet A {
    Inner {
        u8 x `a

b`,
        Deep {
            u8 y `a

b`,
        },
    },
}")).
Eval vm_compute in ("<<<M1304>>>" ++ check (runes_of_ascii "
packet order_item

{  u8
a

    , } root
packet

    new_order{ order_item
	,  u8
x ,

}

")).
Eval vm_compute in ("<<<M624>>>" ++ check (runes_of_ascii "
packet
    asx {match u128 as lengthOf
{
//	t
// `tick` ""quote"" 'q'
255 : x ,
    } ,	repeat")).
Eval vm_compute in ("<<<M608>>>" ++ check (runes_of_ascii "
packet
    asx {match u128 as lengthOf
{
//	t
// `tick` ""quote"" 'q'
255 : x , ,
    } ,	}")).
Eval vm_compute in ("<<<M579>>>" ++ check (runes_of_ascii "
packet
    asx {match u128 lengthOf as
{
//	t
// `tick` ""quote"" 'q'
255 : x ,
    } ,	}")).
Eval vm_compute in ("<<<M828>>>" ++ check (runes_of_ascii "packet A {
  match k as n {
    [""a"", ""bb"", ""c c"", ""d"", ""e"", ""f""] : B,
    2 : C
  },
}")).
Eval vm_compute in ("<<<M1302>>>" ++ check (runes_of_ascii "packet order_item {
    u8 a,
}
root packet new_order {
    order_item,
    u8 x,
}
")).
Eval vm_compute in ("<<<M1273>>>" ++ check (runes_of_ascii "options {
    FixedStringPadFromLeft = true;
}
root packet P {
    char[4] z,
}
")).
Eval vm_compute in ("<<<M1876>>>" ++ check (runes_of_ascii "  root
	packet

P{ 
u8

    s_u8 
, 
repeat
    u8

r_u8
,	u16

b_len
	,} ")).
Eval vm_compute in ("<<<M1908>>>" ++ check (runes_of_ascii "  root packet	P{  u16 
a
,  u32
    Sum @calculatedFrom(
	""CRC32"") 
,} ")).
Eval vm_compute in ("<<<M1280>>>" ++ check (runes_of_ascii "root packet P {
    u16 a,
    u32 Sum @calculatedFrom(""CRC32""),
}
")).
Eval vm_compute in ("<<<M785>>>" ++ check (runes_of_ascii "packet A {
  match k as n {
    [""a"", 22] : B
    2 : C
  },
}")).
Eval vm_compute in ("<<<M776>>>" ++ check (runes_of_ascii "packet A {
  match k as n {
    [""a""] : B
    2 : C
  },
}")).
Eval vm_compute in ("<<<M1242>>>" ++ check (runes_of_ascii "root packet
    P {

    char
	c
    , u8  x 
,

}
")).
Eval vm_compute in ("<<<M332>>>" ++ check (runes_of_ascii "MetaData o
    { } MetaData T  {
    } options { }")).
Eval vm_compute in ("<<<M1553>>>" ++ check (runes_of_ascii "options {
    a = ""\
    "";
    b = ""\
    ""
}")).
Eval vm_compute in ("<<<M933>>>" ++ check (runes_of_ascii "MetaData M {
    u8 x `
`,
    T t `
`,
}")).
Eval vm_compute in ("<<<M1694>>>" ++ check (runes_of_ascii "packet A {
    u8 x,// c
    u8 y,
}")).
Eval vm_compute in ("<<<M1576>>>" ++ check (runes_of_ascii "packet A {
    u8 x `d" ++ [65279]%N ++ runes_of_ascii "`,// c" ++ [65279]%N ++ runes_of_ascii "
}")).
Eval vm_compute in ("<<<M1038>>>" ++ check (runes_of_ascii "packet A {
 u8 x `d" ++ [12]%N ++ runes_of_ascii "`, // c" ++ [12]%N ++ runes_of_ascii "
}")).
Eval vm_compute in ("<<<M1834>>>" ++ check (runes_of_ascii "  packet 
A {  }
    // c" ++ [12]%N)).
Eval vm_compute in ("<<<M51>>>" ++ check (runes_of_ascii "options {} // " ++ [128512]%N ++ runes_of_ascii " emoji")).
Eval vm_compute in ("<<<M1667>>>" ++ check (runes_of_ascii "MetaData tag {
}// c")).
Eval vm_compute in ("<<<M992>>>" ++ check (runes_of_ascii "// c" ++ [133]%N ++ runes_of_ascii "
packet A {
}")).
Eval vm_compute in ("<<<M1465>>>" ++ check (runes_of_ascii "MetaData roots {
}")).
Eval vm_compute in ("<<<M11>>>" ++ check (runes_of_ascii "packet zchar { }")).
Eval vm_compute in ("<<<M732>>>" ++ check (runes_of_ascii "// a
// b
")).
Eval vm_compute in ("<<<M1055>>>" ++ check (runes_of_ascii "// c" ++ [6158]%N)).
